(* C16 — thermodynamic consistency of the Pitzer sums, term by term, on the REGENERATED increments of
   Phreeqc::pitzer (coq/Gen/Gen_C16_pitzer.v).

   Pitzer's model is an excess Gibbs energy  Gex/(w RT) = f(I) + sum_terms g_t(m, I, Z)  with
   I = 1/2 sum m z^2 and Z = sum m |z|.  Activity coefficients and the osmotic coefficient are
        ln gamma_i          = d Gex / d m_i   = dg/dm_i|I,Z + (z_i^2 / 2) dg/dI + |z_i| dg/dZ
        (phi - 1) sum m     = sum_i m_i ln gamma_i - Gex
                            = sum_i m_i dg/dm_i + I dg/dI + Z dg/dZ - g           (summed over the terms)
   and these two facts are exactly what makes Gibbs-Duhem hold (gibbs_duhem_from_potential below).
   The code accumulates, per parameter:  LGAMMA[i0], LGAMMA[i1](, LGAMMA[i2]) += explicit derivative,
   F += F_var (later LGAMMA[i] += z_i^2 F),  CSUM += ... (later LGAMMA[i] += |z_i| CSUM),  OSMOT += ...,
   and finally  COSMOT = 1 + 2 OSMOT / OSUM.  So the obligations per term are
        explicit increments = partial derivatives at fixed I, Z;   F_var = 1/2 dg/dI;   CSUM increment = dg/dZ;
        2 * OSMOT increment = sum m dg/dm + I dg/dI + Z dg/dZ - g.
   They are proved below for every parameter type of the switch (B0 B1 B2 C0 THETA ETHETA PSI ZETA ETA, and
   LAMBDA / MU under the stated relation between their ln_coef / os_coef factors) and for the Debye-Hueckel part. *)
From Coq Require Import Reals QArith Qreals List String Lra.
From Coquelicot Require Import Coquelicot.
From IPV Require Import Base.RExpr C16.Spec Gen.Gen_C16_pitzer Gen.Gen_C16_sit.
Import ListNotations.
Local Open Scope R_scope.

Ltac ev := unfold_evalR.
Ltac dsolve :=
  auto_derive;
  try (field; repeat split; lra);
  try (repeat split; first [assumption | lra | exact Logic.I]).

(* ---- consistency predicates ------------------------------------------------------------------ *)
(* two-species term whose potential does not depend on I or Z *)
Definition consistent2 (g : R -> R -> R) (m0 m1 d0 d1 osm : R) : Prop :=
  is_derive (fun x => g x m1) m0 d0 /\ is_derive (fun y => g m0 y) m1 d1 /\
  2 * osm = m0 * d0 + m1 * d1 - g m0 m1.
(* three-species term *)
Definition consistent3 (g : R -> R -> R -> R) (m0 m1 m2 d0 d1 d2 osm : R) : Prop :=
  is_derive (fun x => g x m1 m2) m0 d0 /\ is_derive (fun y => g m0 y m2) m1 d1 /\ is_derive (fun w => g m0 m1 w) m2 d2 /\
  2 * osm = m0 * d0 + m1 * d1 + m2 * d2 - g m0 m1 m2.
(* two-species term with an extra global variable X (ionic strength I or Z = sum m|z|): dX is the
   coefficient the code later multiplies by dX/dm_i (z_i^2/2 resp. |z_i|) *)
Definition consistent2X (g : R -> R -> R -> R) (m0 m1 X d0 d1 dX osm : R) : Prop :=
  is_derive (fun x => g x m1 X) m0 d0 /\ is_derive (fun y => g m0 y X) m1 d1 /\ is_derive (fun u => g m0 m1 u) X dX /\
  2 * osm = m0 * d0 + m1 * d1 + X * dX - g m0 m1 X.

Lemma c2_intro : forall g m0 m1 d0 d1 osm,
  is_derive (fun x => g x m1) m0 d0 -> is_derive (fun y => g m0 y) m1 d1 -> 2 * osm = m0 * d0 + m1 * d1 - g m0 m1 ->
  consistent2 g m0 m1 d0 d1 osm.
Proof. intros. unfold consistent2. tauto. Qed.
Lemma c3_intro : forall g m0 m1 m2 d0 d1 d2 osm,
  is_derive (fun x => g x m1 m2) m0 d0 -> is_derive (fun y => g m0 y m2) m1 d1 -> is_derive (fun w => g m0 m1 w) m2 d2 ->
  2 * osm = m0 * d0 + m1 * d1 + m2 * d2 - g m0 m1 m2 -> consistent3 g m0 m1 m2 d0 d1 d2 osm.
Proof. intros. unfold consistent3. tauto. Qed.
Lemma c2X_intro : forall g m0 m1 X d0 d1 dX osm,
  is_derive (fun x => g x m1 X) m0 d0 -> is_derive (fun y => g m0 y X) m1 d1 -> is_derive (fun u => g m0 m1 u) X dX ->
  2 * osm = m0 * d0 + m1 * d1 + X * dX - g m0 m1 X -> consistent2X g m0 m1 X d0 d1 dX osm.
Proof. intros. unfold consistent2X. tauto. Qed.

(* ---- polynomial terms ---------------------------------------------------------------------------- *)
Lemma pz_B0_consistent : forall p m0 m1,
  consistent2 (fun a b => 2 * a * b * p) m0 m1
    (evalR (env_of [m0; m1; p]) pz_B0_g0) (evalR (env_of [m0; m1; p]) pz_B0_g1) (evalR (env_of [m0; m1; p]) pz_B0_os).
Proof. intros. unfold pz_B0_g0, pz_B0_g1, pz_B0_os. ev. apply c2_intro; [dsolve | dsolve | field]. Qed.

Lemma pz_THETA_consistent : forall th m0 m1,
  consistent2 (fun a b => 2 * a * b * th) m0 m1
    (evalR (env_of [m0; m1; th]) pz_TH_g0) (evalR (env_of [m0; m1; th]) pz_TH_g1) (evalR (env_of [m0; m1; th]) pz_TH_os).
Proof. intros. unfold pz_TH_g0, pz_TH_g1, pz_TH_os. ev. apply c2_intro; [dsolve | dsolve | field]. Qed.

Lemma pz_PSI_ZETA_ETA_consistent : forall p m0 m1 m2,
  consistent3 (fun a b c => a * b * c * p) m0 m1 m2
    (evalR (env_of [m0; m1; m2; p]) pz_PSI_g0) (evalR (env_of [m0; m1; m2; p]) pz_PSI_g1) (evalR (env_of [m0; m1; m2; p]) pz_PSI_g2)
    (evalR (env_of [m0; m1; m2; p]) pz_PSI_os) /\
  consistent3 (fun a b c => a * b * c * p) m0 m1 m2
    (evalR (env_of [m0; m1; m2; p]) pz_ZETA_g0) (evalR (env_of [m0; m1; m2; p]) pz_ZETA_g1) (evalR (env_of [m0; m1; m2; p]) pz_ZETA_g2)
    (evalR (env_of [m0; m1; m2; p]) pz_ZETA_os) /\
  consistent3 (fun a b c => a * b * c * p) m0 m1 m2
    (evalR (env_of [m0; m1; m2; p]) pz_ETA_g0) (evalR (env_of [m0; m1; m2; p]) pz_ETA_g1) (evalR (env_of [m0; m1; m2; p]) pz_ETA_g2)
    (evalR (env_of [m0; m1; m2; p]) pz_ETA_os).
Proof.
  intros. unfold pz_PSI_g0, pz_PSI_g1, pz_PSI_g2, pz_PSI_os, pz_ZETA_g0, pz_ZETA_g1, pz_ZETA_g2, pz_ZETA_os,
    pz_ETA_g0, pz_ETA_g1, pz_ETA_g2, pz_ETA_os. ev.
  split; [|split]; (apply c3_intro; [dsolve | dsolve | dsolve | field]).
Qed.

(* LAMBDA (neutral-ion, neutral-neutral) and MU (neutral-neutral-ion ...): the code multiplies by data-dependent factors
   ln_coef[k] / os_coef set in pitzer_tidy; consistency holds exactly when ln_coef[0] = ln_coef[1] (= ln_coef[2]) = c
   and os_coef = c/2 (LAMBDA, degree 2) resp. os_coef = c (MU, degree 3). *)
Lemma pz_LAMBDA_consistent : forall la c m0 m1,
  let env := env_of [m0; m1; la; c; c; c / 2] in
  consistent2 (fun a b => c * a * b * la) m0 m1 (evalR env pz_LA_g0) (evalR env pz_LA_g1) (evalR env pz_LA_os).
Proof. intros. unfold env, pz_LA_g0, pz_LA_g1, pz_LA_os. ev. apply c2_intro; [dsolve | dsolve | field]. Qed.

Lemma pz_MU_consistent : forall mu c m0 m1 m2,
  let env := env_of [m0; m1; m2; mu; c; c; c; c] in
  consistent3 (fun a b w => c * a * b * w * mu) m0 m1 m2 (evalR env pz_MU_g0) (evalR env pz_MU_g1) (evalR env pz_MU_g2) (evalR env pz_MU_os).
Proof. intros. unfold env, pz_MU_g0, pz_MU_g1, pz_MU_g2, pz_MU_os. ev. apply c3_intro; [dsolve | dsolve | dsolve | field]. Qed.

(* The weights as pitzer_tidy SETS them (tidy_* regenerated from Phreeqc::pitzer_tidy), so that for the species
   combinations below the LAMBDA / MU consistency no longer rests on a hypothesis about the data:
   - LAMBDA between two DIFFERENT species (neutral-cation, neutral-anion, neutral-neutral'): weights (2, 2, 1), potential 2 la m0 m1;
   - LAMBDA self-interaction (i0 = i1, both LGAMMA increments land on the same species, M[i0] = M[i1] = m): weights (1, 1, 1/2),
     potential la m^2;
   - MU between three DIFFERENT species: weights 6, 6, 6 and os_coef 6, potential 6 mu m0 m1 m2. *)
Definition kq (e : rexpr) : R := evalR (env_of []) e.

Lemma pz_LAMBDA_tidy_distinct_consistent : forall la m0 m1,
  let env := env_of [m0; m1; la; kq tidy_LA_ln0_dist; kq tidy_LA_ln1_dist; kq tidy_LA_os_dist] in
  consistent2 (fun a b => 2 * a * b * la) m0 m1 (evalR env pz_LA_g0) (evalR env pz_LA_g1) (evalR env pz_LA_os).
Proof.
  intros. unfold env, kq, tidy_LA_ln0_dist, tidy_LA_ln1_dist, tidy_LA_os_dist, pz_LA_g0, pz_LA_g1, pz_LA_os. ev.
  apply c2_intro; [dsolve | dsolve | field].
Qed.

Lemma pz_LAMBDA_tidy_self_consistent : forall la m,
  let env := env_of [m; m; la; kq tidy_LA_ln0_self; kq tidy_LA_ln1_self; kq tidy_LA_os_self] in
  is_derive (fun x => la * x * x) m (evalR env pz_LA_g0 + evalR env pz_LA_g1) /\
  2 * evalR env pz_LA_os = m * (evalR env pz_LA_g0 + evalR env pz_LA_g1) - la * m * m.
Proof.
  intros. unfold env, kq, tidy_LA_ln0_self, tidy_LA_ln1_self, tidy_LA_os_self, pz_LA_g0, pz_LA_g1, pz_LA_os. ev.
  split; [dsolve | field].
Qed.

Lemma pz_MU_tidy_distinct_consistent : forall mu m0 m1 m2,
  (* any mixture of ions and neutral species among the three, all different; os_coef from either branch of pitzer_tidy *)
  forall l0 l1 l2 os, In l0 [kq tidy_MU_ln_ion_dist; kq tidy_MU_ln_neutral_dist] -> In l1 [kq tidy_MU_ln_ion_dist; kq tidy_MU_ln_neutral_dist] ->
    In l2 [kq tidy_MU_ln_ion_dist; kq tidy_MU_ln_neutral_dist] -> In os [kq tidy_MU_os_dist; kq tidy_MU_os_dist_nnn] ->
  let env := env_of [m0; m1; m2; mu; l0; l1; l2; os] in
  consistent3 (fun a b w => 6 * a * b * w * mu) m0 m1 m2 (evalR env pz_MU_g0) (evalR env pz_MU_g1) (evalR env pz_MU_g2) (evalR env pz_MU_os).
Proof.
  intros mu m0 m1 m2 l0 l1 l2 os H0 H1 H2 Hos env.
  assert (E : forall x, In x [kq tidy_MU_ln_ion_dist; kq tidy_MU_ln_neutral_dist; kq tidy_MU_os_dist; kq tidy_MU_os_dist_nnn] -> x = 6).
  { intros x Hx. unfold kq, tidy_MU_ln_ion_dist, tidy_MU_ln_neutral_dist, tidy_MU_os_dist, tidy_MU_os_dist_nnn in Hx.
    simpl in Hx. rewrite !Q2R_make in Hx. destruct Hx as [<-|[<-|[<-|[<-|[]]]]]; lra. }
  assert (E0 : l0 = 6) by (apply E; simpl in *; tauto).
  assert (E1 : l1 = 6) by (apply E; simpl in *; tauto).
  assert (E2 : l2 = 6) by (apply E; simpl in *; tauto).
  assert (E3 : os = 6) by (apply E; simpl in *; tauto).
  subst. unfold env, pz_MU_g0, pz_MU_g1, pz_MU_g2, pz_MU_os. ev.
  apply c3_intro; [dsolve | dsolve | dsolve | field].
Qed.

(* the guards under which pitzer_tidy assigns these weights, and that nothing else assigns LAMBDA weights *)
Lemma pz_tidy_tables :
  tidy_LA_os_self_conds = ["pitz_params[i]->type == TYPE_LAMBDA"; "i0 == i1"]%string /\
  tidy_LA_ln0_self_conds = tidy_LA_os_self_conds /\ tidy_LA_ln1_self_conds = tidy_LA_os_self_conds /\
  tidy_LA_os_dist_conds = ["pitz_params[i]->type == TYPE_LAMBDA"; "!(i0 == i1)"]%string /\
  tidy_LA_ln0_dist_conds = tidy_LA_os_dist_conds /\ tidy_LA_ln1_dist_conds = tidy_LA_os_dist_conds /\
  tidy_LAMBDA_assignments = 6%nat.
Proof. repeat split; reflexivity. Qed.

(* ---- C0: potential m0 m1 Z C / (2 sqrt|z0 z1|), Z = sum m |z|;  dg/dZ is the CSUM increment ---------- *)
Lemma pz_C0_consistent : forall C z0 z1 m0 m1 Z, z0 * z1 <> 0 ->
  let k := 2 * sqrt (Rabs (z0 * z1)) in
  consistent2X (fun a b u => a * b * u * C / k) m0 m1 Z
    (evalR (env_of [m0; m1; C; Z; z0; z1]) pz_C0_g0) (evalR (env_of [m0; m1; C; Z; z0; z1]) pz_C0_g1)
    (evalR (env_of [m0; m1; C; z0; z1]) pz_C0_csum) (evalR (env_of [m0; m1; C; Z; z0; z1]) pz_C0_os).
Proof.
  intros C z0 z1 m0 m1 Z Hz k. unfold k, pz_C0_g0, pz_C0_g1, pz_C0_csum, pz_C0_os. ev.
  assert (Hs : 0 < sqrt (Rabs (z0 * z1))) by (apply sqrt_lt_R0, Rabs_pos_lt; exact Hz).
  apply c2X_intro; [dsolve | dsolve | dsolve | field; lra].
Qed.

(* ---- B1, B2: potential 2 m0 m1 beta g(alpha sqrt I), with the code's own G and GP ---------------------- *)
Definition Gf (x : R) : R := evalR (env_of [x]) pz_G_body.
Definition GPf (x : R) : R := evalR (env_of [x]) pz_GP_body.

Lemma G_plus_GP : forall x, x <> 0 -> Gf x + GPf x = exp (- x).
Proof. intros x Hx. unfold Gf, GPf, pz_G_body, pz_GP_body. ev. field. exact Hx. Qed.

(* d/dI [ G(alpha sqrt I) ] = GP(alpha sqrt I) / I *)
Lemma G_derivative : forall al I, 0 < I -> al <> 0 ->
  is_derive (fun u => Gf (al * sqrt u)) I (GPf (al * sqrt I) / I).
Proof.
  intros al I HI Hal. unfold Gf, GPf, pz_G_body, pz_GP_body. ev.
  pose proof (sqrt_lt_R0 I HI) as Hs.
  assert (Hx : al * sqrt I <> 0) by (apply Rmult_integral_contrapositive_currified; lra).
  assert (E : I = sqrt I * sqrt I) by (symmetry; apply sqrt_sqrt; lra).
  auto_derive.
  - repeat split; try assumption; try lra; apply Rmult_integral_contrapositive_currified; assumption.
  - set (s := sqrt I) in *. rewrite E. field. repeat split; lra.
Qed.

Lemma pz_B1_B2_consistent : forall beta al m0 m1 I, 0 < I -> al <> 0 ->
  let x := al * sqrt I in
  consistent2X (fun a b u => 2 * a * b * beta * Gf (al * sqrt u)) m0 m1 I
    (evalR (env_of [m0; m1; beta; Gf x]) pz_B1_g0) (evalR (env_of [m0; m1; beta; Gf x]) pz_B1_g1)
    (2 * evalR (env_of [m0; m1; beta; GPf x; I]) pz_B1_F) (evalR (env_of [m0; m1; beta; al; I]) pz_B1_os) /\
  consistent2X (fun a b u => 2 * a * b * beta * Gf (al * sqrt u)) m0 m1 I
    (evalR (env_of [m0; m1; beta; Gf x]) pz_B2_g0) (evalR (env_of [m0; m1; beta; Gf x]) pz_B2_g1)
    (2 * evalR (env_of [m0; m1; beta; GPf x; I]) pz_B2_F) (evalR (env_of [m0; m1; beta; al; I]) pz_B2_os).
Proof.
  intros beta al m0 m1 I HI Hal x.
  pose proof (sqrt_lt_R0 I HI) as Hs.
  assert (Hx : x <> 0) by (apply Rmult_integral_contrapositive_currified; lra).
  pose proof (G_plus_GP x Hx) as HG.
  assert (HGe : exp (- al * sqrt I) = Gf x + GPf x) by (rewrite HG; f_equal; unfold x; ring).
  pose proof (G_derivative al I HI Hal) as HD. fold x in HD.
  unfold pz_B1_g0, pz_B1_g1, pz_B1_F, pz_B1_os, pz_B2_g0, pz_B2_g1, pz_B2_F, pz_B2_os. ev.
  split; (apply c2X_intro;
    [ fold x; dsolve | fold x; dsolve
    | evar_last; [ apply (is_derive_scal (fun u => Gf (al * sqrt u)) I (2 * m0 * m1 * beta) _ HD)
                 | unfold scal; simpl; unfold mult; simpl; field; lra ]
    | rewrite HGe; fold x; field; lra ]).
Qed.

(* ---- ETHETA: potential 2 m0 m1 thetaE(I); the J-function quadrature that produces etheta / ethetap is NOT
        formalised: consistency holds for any thetaE whose derivative is the reported ethetap ------------ *)
Section ETheta.
  Variable thetaE : R -> R.
  Variable ethetap : R.
  Variable I : R.
  Hypothesis ethetap_is_derivative : is_derive thetaE I ethetap.

  Lemma pz_ETHETA_consistent : forall m0 m1,
    consistent2X (fun a b u => 2 * a * b * thetaE u) m0 m1 I
      (evalR (env_of [m0; m1; thetaE I]) pz_ET_g0) (evalR (env_of [m0; m1; thetaE I]) pz_ET_g1)
      (2 * evalR (env_of [m0; m1; ethetap]) pz_ET_F) (evalR (env_of [m0; m1; thetaE I; ethetap; I]) pz_ET_os).
  Proof.
    intros m0 m1. unfold pz_ET_g0, pz_ET_g1, pz_ET_F, pz_ET_os. ev.
    apply c2X_intro.
    - dsolve.
    - dsolve.
    - evar_last; [ apply (is_derive_scal thetaE I (2 * m0 * m1) _ ethetap_is_derivative)
                 | unfold scal; simpl; unfold mult; simpl; ring ].
    - field.
  Qed.
End ETheta.

(* ---- Debye-Hueckel part: potential f(I) = -A0 (4 I / b) ln(1 + b sqrt I), b = 1.2;  F = f'(I)/2 and
        2 * OSMOT_start = I f'(I) - f(I) --------------------------------------------------------------- *)
Definition f_DH (A0 I : R) : R := - A0 * (4 * I / (6 / 5)) * ln (1 + 6 / 5 * sqrt I).

Lemma Rpower_3_2 : forall I, 0 < I -> Rpower I (3 / 2) = I * sqrt I.
Proof.
  intros I HI. replace (3 / 2) with (1 + / 2) by field.
  rewrite Rpower_plus, Rpower_1, Rpower_sqrt by assumption. reflexivity.
Qed.

Lemma pz_DH_consistent : forall A0 I, 0 < I ->
  is_derive (fun u => f_DH A0 u) I (2 * evalR (env_of [A0; I]) pz_DH_F) /\
  2 * evalR (env_of [A0; I]) pz_DH_os = I * (2 * evalR (env_of [A0; I]) pz_DH_F) - f_DH A0 I.
Proof.
  intros A0 I HI. pose proof (sqrt_lt_R0 I HI) as Hs.
  assert (Hd : 0 < 1 + 6 / 5 * sqrt I) by lra.
  assert (E : I = sqrt I * sqrt I) by (symmetry; apply sqrt_sqrt; lra).
  unfold f_DH, pz_DH_F, pz_DH_os. ev. split.
  - auto_derive.
    + repeat split; try assumption; lra.
    + replace (1 / 1) with 1 by lra. set (s := sqrt I) in *. rewrite E. field. lra.
  - replace (1 / 1) with 1 by lra.
    rewrite Rpower_3_2 by assumption. set (s := sqrt I) in *. rewrite E. field. lra.
Qed.

(* ---- assembly ------------------------------------------------------------------------------------ *)
(* LGAMMA[i] += z0^2 F + z0 CSUM with z0 = |z_i|: F is multiplied by 2 dI/dm_i = z_i^2, CSUM by dZ/dm_i = |z_i| *)
Lemma pz_assembly : forall z F CSUM,
  evalR (env_of [evalR (env_of [z]) pz_asm_z0; F; CSUM]) pz_asm_g = z * z * F + Rabs z * CSUM.
Proof.
  intros. unfold pz_asm_g, pz_asm_z0. ev.
  replace (Rabs z * Rabs z) with (z * z); [reflexivity|].
  rewrite <- Rabs_mult. symmetry. apply Rabs_pos_eq. nra.
Qed.


(* ---- SIT (sit.cpp).  Units: sit_LGAMMA and F are log10 gamma, so ln gamma_i = ln 10 * (z_i^2 F + sum eps m) and the
        code sets COSMOT = 1 + OSMOT * LOG_10 / OSUM, i.e. (phi - 1) sum m = ln 10 * OSMOT. --------------------- *)
(* epsilon(i0,i1) between charged species: potential ln10 * eps * m0 * m1 *)
Lemma sit_EPSILON_consistent : forall eps m0 m1,
  let env := env_of [m0; m1; eps] in
  (is_derive (fun x => ln 10 * eps * x * m1) m0 (ln 10 * evalR env sit_EPS_g0)) /\
  (is_derive (fun y => ln 10 * eps * m0 * y) m1 (ln 10 * evalR env sit_EPS_g1)) /\
  (ln 10 * evalR env sit_EPS_os = m0 * (ln 10 * evalR env sit_EPS_g0) + m1 * (ln 10 * evalR env sit_EPS_g1) - ln 10 * eps * m0 * m1).
Proof.
  intros. unfold env, sit_EPS_g0, sit_EPS_g1, sit_EPS_os. ev.
  split; [dsolve | split; [dsolve | field]].
Qed.

(* Debye-Hueckel part, differential Gibbs-Duhem form: d OSMOT = sum_i m_i z_i^2 dF = 2 I dF *)
Lemma sit_DH_consistent : forall A I, 0 < I ->
  exists dF, is_derive (fun u => evalR (env_of [A; u]) sit_DH_F) I dF /\
             is_derive (fun u => evalR (env_of [A; u]) sit_DH_os) I (2 * I * dF).
Proof.
  intros A I HI. pose proof (sqrt_lt_R0 I HI) as Hs.
  assert (Hd : 0 < 1 + 3 / 2 * sqrt I) by lra.
  assert (E : I = sqrt I * sqrt I) by (symmetry; apply sqrt_sqrt; lra).
  exists (- A / (2 * sqrt I * ((1 + 3 / 2 * sqrt I) * (1 + 3 / 2 * sqrt I)))).
  unfold sit_DH_F, sit_DH_os. split.
  - ev. auto_derive.
    + repeat split; try assumption; lra.
    + replace (1 / 1) with 1 by lra. field. lra.
  - ev. auto_derive.
    + replace (1 / 1) with 1 by lra. repeat split; first [assumption | lra | exact Logic.I].
    + replace (1 / 1) with 1 by lra. set (s := sqrt I) in *. rewrite E. field. lra.
Qed.

Lemma sit_assembly : forall z F, evalR (env_of [z; F]) sit_asm_g = z * z * F.
Proof. intros. unfold sit_asm_g. ev. reflexivity. Qed.

(* ---- why this is Gibbs-Duhem ----------------------------------------------------------------------- *)
(* Along any differentiable composition path t |-> m_i(t): if the ln gamma_i are the partial derivatives of a
   potential (chain rule along the path: dG/dt = sum_i lngamma_i dm_i/dt), then
      d/dt [ sum_i m_i lngamma_i - G ] = sum_i m_i d(lngamma_i)/dt,
   i.e. with (phi - 1) sum m := sum_i m_i lngamma_i - G (the Euler complement established term by term above)
      sum_i m_i d ln gamma_i = d [ (phi - 1) sum m ]                                  (Gibbs-Duhem). *)
Record species_path := mkSP { sp_m : R -> R; sp_lg : R -> R; sp_dm : R; sp_dlg : R }.

Definition sum_over (l : list species_path) (f : species_path -> R) : R := fold_right (fun s acc => f s + acc) 0 l.

Lemma sum_m_lg_derive : forall (l : list species_path) t,
  (forall s, In s l -> is_derive (sp_m s) t (sp_dm s) /\ is_derive (sp_lg s) t (sp_dlg s)) ->
  is_derive (fun u => sum_over l (fun s => sp_m s u * sp_lg s u)) t
            (sum_over l (fun s => sp_dm s * sp_lg s t) + sum_over l (fun s => sp_m s t * sp_dlg s)).
Proof.
  intros l t. induction l as [|s l IH]; intros H; simpl.
  - evar_last; [apply is_derive_const | simpl; unfold zero; simpl; ring].
  - destruct (H s (or_introl eq_refl)) as [Hm Hg].
    assert (IH' := IH (fun s' Hs' => H s' (or_intror Hs'))).
    evar_last.
    + apply (is_derive_plus (fun u => sp_m s u * sp_lg s u) (fun u => sum_over l (fun s0 => sp_m s0 u * sp_lg s0 u))).
      * apply (is_derive_mult (sp_m s) (sp_lg s) t _ _ Hm Hg). intros; apply Rmult_comm.
      * exact IH'.
    + unfold plus, mult; simpl. ring.
Qed.

Theorem gibbs_duhem_from_potential : forall (l : list species_path) (G : R -> R) t,
  (forall s, In s l -> is_derive (sp_m s) t (sp_dm s) /\ is_derive (sp_lg s) t (sp_dlg s)) ->
  is_derive G t (sum_over l (fun s => sp_lg s t * sp_dm s)) ->
  is_derive (fun u => sum_over l (fun s => sp_m s u * sp_lg s u) - G u) t
            (sum_over l (fun s => sp_m s t * sp_dlg s)).
Proof.
  intros l G t H HG.
  evar_last.
  - apply (is_derive_minus (fun u => sum_over l (fun s => sp_m s u * sp_lg s u)) G).
    + apply sum_m_lg_derive; exact H.
    + exact HG.
  - unfold minus, plus, opp; simpl.
    assert (E : sum_over l (fun s => sp_dm s * sp_lg s t) = sum_over l (fun s => sp_lg s t * sp_dm s)).
    { clear. induction l; simpl; [reflexivity|]. rewrite IHl. ring. }
    rewrite E. ring.
Qed.

(* non-vacuity: a 1-1 salt m(t) = t with ln gamma = b t for both ions and G = b t^2 *)
Example gibbs_duhem_example : forall b t,
  let s := mkSP (fun u => u) (fun u => b * u) 1 b in
  is_derive (fun u => sum_over [s; s] (fun s => sp_m s u * sp_lg s u) - b * u * u) t (sum_over [s; s] (fun s => sp_m s t * sp_dlg s)).
Proof.
  intros b t s. apply (gibbs_duhem_from_potential [s; s] (fun u => b * u * u) t).
  - intros s' [E|[E|[]]]; subst s'; simpl; split; auto_derive; auto; ring.
  - simpl. auto_derive; auto. ring.
Qed.
