(** * C14 — theorems about the keyed store, for the pipeline interpreted from the regenerated
    tables [T] (hypothesis: the computable predicate [tables_ok T] holds). *)
From Coq Require Import ZArith List Bool Lia FunctionalExtensionality.
From IPV.C14 Require Import Store MapFacts Tie Spec.
Import ListNotations.
Open Scope Z_scope.

Section Theorems.
  Variable C : Type.
  Variable D : Type.
  Variable modify : kind -> D -> C -> C.
  Variable react : Z -> Z -> list (kind * C) -> kind -> C.
  Variable M : Type.
  Variable mix_nums : M -> list Z.
  Variable mixf : kind -> M -> list (Z * option C) -> C.
  Variable E : Type.
  Variable elements : kind -> C -> list E.

  Variable T : gen_tables.
  Hypothesis HT : tables_ok T = true.

  Notation emap := (emap C).
  Notation store := (store C).
  Notation step := (step C D M).
  Notation look := (@look_of C).
  Notation P := (gen_prims C T).
  Notation run_step_g := (run_step modify react mix_nums mixf (gen_prims C T)).
  Notation run_g := (run modify react mix_nums mixf (gen_prims C T)).
  Notation sp_step' := (sp_step modify react mix_nums mixf).
  Notation sp_run' := (sp_run modify react mix_nums mixf).

  (** simulations that consist of one kind of request *)
  Definition step0 : step :=
    {| s_tag := 0; s_reads := []; s_react := None; s_cells := []; s_mixes := []; s_copies := []; s_delete := None |}.
  Definition st_reads (l : list (read_op C D)) : step :=
    {| s_tag := 0; s_reads := l; s_react := None; s_cells := []; s_mixes := []; s_copies := []; s_delete := None |}.
  Definition st_react (tag : Z) (u : use_req) (sv : save_req) : step :=
    {| s_tag := tag; s_reads := []; s_react := Some (u, sv); s_cells := []; s_mixes := []; s_copies := []; s_delete := None |}.
  Definition st_cells (tag : Z) (ns : list Z) : step :=
    {| s_tag := tag; s_reads := []; s_react := None; s_cells := ns; s_mixes := []; s_copies := []; s_delete := None |}.
  Definition st_copies (l : list copy_opt) : step :=
    {| s_tag := 0; s_reads := []; s_react := None; s_cells := []; s_mixes := []; s_copies := l; s_delete := None |}.
  Definition st_delete (l : list del_opt) : step :=
    {| s_tag := 0; s_reads := []; s_react := None; s_cells := []; s_mixes := []; s_copies := []; s_delete := Some l |}.

  Lemma P_hand : gen_prims C T = hand_prims C.
  Proof. apply gen_prims_eq_hand. exact HT. Qed.

  (** ** 1. refinement: any sequence of simulations acts on the store as on a finite map *)
  Theorem refines_spec (steps : list step) (st : store) :
      look (run_g steps st) = sp_run' steps (look st).
  Proof. rewrite P_hand. apply run_refines. Qed.

  Theorem step_refines_spec (stp : step) (st : store) :
      look (r_store (run_step_g stp st)) = sr_store (sp_step' stp (look st))
      /\ look (r_dump (run_step_g stp st)) = sr_dump (sp_step' stp (look st))
      /\ r_stopped (run_step_g stp st) = sr_stopped (sp_step' stp (look st)).
  Proof. rewrite P_hand. apply step_refines. Qed.

  (** ** 2. the number stored inside an entity is always its key *)
  Definition wf_map (m : emap) : Prop := forall i e, zfind i m = Some e -> e_num e = i.
  Definition wf (st : store) : Prop := forall k, wf_map (st k).

  Lemma wf_nil : wf_map [].
  Proof. intros i e H. discriminate H. Qed.

  Lemma wf_zins (m : emap) j c : wf_map m -> wf_map (zins j (mkEnt j c) m).
  Proof.
    intros W i e H. rewrite zfind_zins in H. destruct (Z.eqb_spec i j).
    - inversion H. subst. reflexivity.
    - apply W. exact H.
  Qed.

  Lemma wf_copies (m : emap) n n_end : wf_map m -> wf_map (rxn_copies m n n_end).
  Proof.
    intros W. unfold rxn_copies. destruct (n_end <=? n); auto.
    destruct (zfind n m) as [e0|]; auto.
    intros i e H. rewrite (zfind_fold_ins (fun j => mkEnt j (e_body e0))) in H.
    destruct (zmem i (zrange (n + 1) n_end)).
    - inversion H. reflexivity.
    - apply W. exact H.
  Qed.

  Lemma wf_copy1 (m : emap) t : wf_map m -> wf_map (copy1 m t).
  Proof.
    intros W. unfold copy1. destruct (zfind (t_src t) m) as [e0|] eqn:Ef; auto.
    intros i e H. rewrite (copy_inner (t_src t) e0) in H by assumption.
    destruct (zmem i (copy_targets (t_lo t) (t_hi t)) && negb (i =? t_src t)).
    - inversion H. reflexivity.
    - apply W. exact H.
  Qed.

  Lemma wf_fold_copy1 l : forall (m : emap), wf_map m -> wf_map (fold_left (@copy1 C) l m).
  Proof. induction l as [|t l IH]; intros m W; simpl; auto. apply IH. apply wf_copy1. exact W. Qed.

  Lemma wf_delete_map it (m : emap) : wf_map m -> wf_map (delete_map it m).
  Proof.
    intros W. unfold delete_map. destruct (di_defined it); auto.
    destruct (is_nil (di_nums it)); [apply wf_nil|].
    intros i e H. unfold erase_all in H. rewrite zfind_fold_del in H.
    destruct (zmem i (di_nums it)); [discriminate H | apply W; exact H].
  Qed.

  Lemma wf_supd (st : store) k m : wf st -> wf_map m -> wf (supd st k m).
  Proof. intros W Wm k'. unfold supd. destruct (kind_eqb k' k); auto. Qed.

  Lemma wf_read (st : store) r : wf st -> wf (do_read modify (hand_prims C) st r).
  Proof.
    intro W. destruct r as [k n n_end c | k n d]; simpl.
    - apply wf_supd; auto. apply wf_copies. apply wf_zins. apply W.
    - destruct (zfind n (st k)); auto. apply wf_supd; auto. apply wf_zins. apply W.
  Qed.

  Lemma wf_saver u res Sv (st : store) : wf st -> wf (saver u res Sv st).
  Proof.
    intros W k. unfold saver, saver_map.
    destruct (mem_kind k savable_kinds); [|apply W].
    destruct (sa_flag (Sv k)); [|apply W].
    apply wf_copies. destruct (used_kind u k); [apply wf_zins|]; apply W.
  Qed.

  Lemma wf_fold {X} (f : store -> X -> store) : (forall st x, wf st -> wf (f st x)) ->
      forall l st, wf st -> wf (fold_left f l st).
  Proof. intros H l. induction l as [|x l IH]; intros st W; simpl; auto. Qed.

  Lemma wf_react_core tag cell u sv (st st' : store) : wf st -> do_react_core react (hand_prims C) tag cell u sv st = Some st' -> wf st'.
  Proof.
    intros W H. unfold do_react_core in H. destruct (use_missing u (look st)); [discriminate H|].
    inversion H. cbn [p_saver hand_prims]. apply wf_saver. exact W.
  Qed.

  Lemma wf_react tag u sv (st st' : store) : wf st -> do_react react (hand_prims C) tag u sv st = Some st' -> wf st'.
  Proof.
    intros W H. unfold do_react in H. destruct (reacts u).
    - eapply wf_react_core; eauto.
    - inversion H. subst. exact W.
  Qed.

  Lemma wf_run_cell tag (st : store) n : wf st -> wf (run_cell react (hand_prims C) tag st n).
  Proof.
    intro W. unfold run_cell. destruct (n <? 0); auto.
    destruct (negb (present st KSol n) && negb (present st KMix n)); auto.
    destruct (do_react_core react (hand_prims C) tag n (cell_use st n) (cell_save st n) st) eqn:Er; auto.
    eapply wf_react_core; eauto.
  Qed.

  Lemma wf_mix (st : store) r : wf st -> wf (do_mix mix_nums mixf (hand_prims C) st r).
  Proof.
    intro W. destruct r as [[[k n] n_end] mx]. unfold do_mix.
    apply wf_supd; auto. apply wf_copies. apply wf_zins. apply W.
  Qed.

  Lemma wf_step_h (stp : step) (st : store) : wf st ->
      wf (r_store (run_step modify react mix_nums mixf (hand_prims C) stp st))
      /\ wf (r_dump (run_step modify react mix_nums mixf (hand_prims C) stp st)).
  Proof.
    intro W. unfold run_step.
    assert (wf (fold_left (do_read modify (hand_prims C)) (s_reads stp) st)) as W1.
    { apply wf_fold; auto. intros. apply wf_read. assumption. }
    set (st1 := fold_left (do_read modify (hand_prims C)) (s_reads stp) st) in *.
    assert (forall st2, wf st2 ->
               wf (p_copy_ents (hand_prims C) (s_copies stp)
                     (fold_left (do_mix mix_nums mixf (hand_prims C)) (s_mixes stp)
                        (fold_left (run_cell react (hand_prims C) (s_tag stp)) (s_cells stp) st2)))) as W5.
    { intros st2 W2. cbn [p_copy_ents hand_prims]. intro k. unfold copy_entities. apply wf_fold_copy1.
      apply wf_fold; [intros; apply wf_mix; assumption|].
      apply wf_fold; [intros; apply wf_run_cell; assumption|]. exact W2. }
    assert (forall st2, wf st2 ->
               wf (match s_delete stp with
                   | Some opts => p_delete_ents (hand_prims C) opts
                       (p_copy_ents (hand_prims C) (s_copies stp)
                         (fold_left (do_mix mix_nums mixf (hand_prims C)) (s_mixes stp)
                           (fold_left (run_cell react (hand_prims C) (s_tag stp)) (s_cells stp) st2)))
                   | None => p_copy_ents (hand_prims C) (s_copies stp)
                         (fold_left (do_mix mix_nums mixf (hand_prims C)) (s_mixes stp)
                           (fold_left (run_cell react (hand_prims C) (s_tag stp)) (s_cells stp) st2))
                   end)) as W6.
    { intros st2 W2. destruct (s_delete stp) as [opts|]; [|apply W5; exact W2].
      cbn [p_delete_ents hand_prims]. intro k. unfold delete_entities. apply wf_delete_map. apply (W5 st2 W2). }
    destruct (s_react stp) as [[u sv]|].
    - destruct (do_react react (hand_prims C) (s_tag stp) u sv st1) as [st2|] eqn:Er; cbn [r_store r_dump].
      + pose proof (wf_react (s_tag stp) u sv st1 st2 W1 Er) as W2. split; [apply W6 | apply W5]; exact W2.
      + split; exact W1.
    - cbn [r_store r_dump]. split; [apply W6 | apply W5]; exact W1.
  Qed.

  Theorem number_matches_key (steps : list step) : forall (st : store), wf st ->
      forall k i e, zfind i (run_g steps st k) = Some e -> e_num e = i.
  Proof.
    rewrite P_hand. unfold run.
    induction steps as [|stp steps IH]; intros st W k i e H; simpl in H.
    - apply (W k i e H).
    - apply (IH _ (proj1 (wf_step_h stp st W)) k i e H).
  Qed.

  Corollary number_matches_key_from_empty (steps : list step) k i e :
      zfind i (run_g steps (@empty_store C) k) = Some e -> e_num e = i.
  Proof. apply number_matches_key. intros k' i' e' H. discriminate H. Qed.

  (** ** 3. DELETE removes exactly the named entries (in any simulation, whatever else it contains) *)
  Theorem delete_exactly_named (stp : step) (st : store) (opts : list del_opt) :
      s_delete stp = Some opts -> r_stopped (run_step_g stp st) = false ->
      forall k i, look (r_store (run_step_g stp st)) k i
                  = if named opts k i then None else look (r_dump (run_step_g stp st)) k i.
  Proof.
    intros Hd Hs k i.
    destruct (step_refines_spec stp st) as (H1 & H2 & H3).
    rewrite H1, H2. rewrite H3 in Hs. clear H1 H2 H3.
    unfold sp_step in *. rewrite Hd in *.
    destruct (match s_react stp with
              | Some (u, sv) => sp_react react (s_tag stp) u sv (fold_left (sp_read modify) (s_reads stp) (look st))
              | None => Some (fold_left (sp_read modify) (s_reads stp) (look st))
              end); simpl in *; [reflexivity | discriminate Hs].
  Qed.

  (* what "named" means for the three basic forms of a DELETE block *)
  Lemma is_nil_expand rs : is_nil (expand_ranges rs) = is_nil rs.
  Proof.
    destruct rs as [|[a b] rs]; simpl; auto.
    rewrite zrange_cons by lia. reflexivity.
  Qed.

  Lemma named_kind k rs k' i :
      named [DOKind k rs] k' i = kind_eqb k' k && (is_nil rs || zmem i (expand_ranges rs)).
  Proof.
    unfold named, read_delete. simpl. unfold req_upd.
    destruct (kind_eqb k' k); simpl; auto. rewrite is_nil_expand. reflexivity.
  Qed.

  Lemma named_all k' i : named [DOAll] k' i = true.
  Proof. reflexivity. Qed.

  Lemma fold_augment_int ns : forall it, ns <> [] -> di_defined it = false \/ di_nums it <> [] ->
      fold_left augment_int ns it = mkItem true (di_nums it ++ ns).
  Proof.
    induction ns as [|x ns IH]; intros it Hn Hit; [contradiction|].
    simpl. unfold augment_int at 2.
    assert (di_defined it && is_nil (di_nums it) = false) as Hc.
    { destruct Hit as [Hd|Hd]; [rewrite Hd; reflexivity|].
      destruct (di_nums it); [contradiction|]. apply andb_false_r. }
    rewrite Hc. destruct ns as [|y ns].
    - reflexivity.
    - rewrite IH; [|discriminate|right; simpl; destruct (di_nums it); discriminate].
      simpl. rewrite <- app_assoc. reflexivity.
  Qed.

  Lemma named_cell rs k' i : named [DOCell rs] k' i = is_nil rs || zmem i (expand_ranges rs).
  Proof.
    unfold named, read_delete.
    cbn [fold_left read_delete_step augment_tokens item0 di_defined di_nums app].
    destruct rs as [|r rs].
    - reflexivity.
    - assert (expand_ranges (r :: rs) <> []) as Hne.
      { destruct r as [a b]. simpl. rewrite zrange_cons by lia. discriminate. }
      destruct (expand_ranges (r :: rs)) as [|x ns] eqn:Ex; [contradiction|].
      cbn [is_nil]. unfold transfer_all, del_req0.
      rewrite fold_augment_int; [|discriminate|left; reflexivity].
      simpl. reflexivity.
  Qed.

  (** frame for a DELETE-only simulation *)
  Corollary delete_only_exactly (opts : list del_opt) (st : store) k i :
      look (r_store (run_step_g (st_delete opts) st)) k i = if named opts k i then None else look st k i.
  Proof.
    destruct (step_refines_spec (st_delete opts) st) as (H1 & _ & _). rewrite H1. reflexivity.
  Qed.

  (** ** 4. definitions and number ranges create entries; nothing else changes *)
  Theorem define_range_creates (st : store) k n n_end c k' i :
      look (r_store (run_step_g (st_reads [RDefine k n n_end c]) st)) k' i
      = if kind_eqb k' k && ((i =? n) || ((n <? i) && (i <=? n_end))) then Some c else look st k' i.
  Proof.
    destruct (step_refines_spec (st_reads [RDefine k n n_end c]) st) as (H1 & _ & _). rewrite H1. reflexivity.
  Qed.

  (** ** 5. *_MODIFY changes only the named entry (and only through [modify]) *)
  Theorem modify_only_named (st : store) k n d k' i :
      look (r_store (run_step_g (st_reads [RModify k n d]) st)) k' i
      = match look st k n with
        | Some c => if kind_eqb k' k && (i =? n) then Some (modify k d c) else look st k' i
        | None => look st k' i
        end.
  Proof.
    destruct (step_refines_spec (st_reads [RModify k n d]) st) as (H1 & _ & _). rewrite H1.
    unfold sp_step. simpl. destruct (look st k n); reflexivity.
  Qed.

  (** ** 6. COPY makes content-identical entries, and nothing else changes *)
  Definition same_sign (lo hi : Z) : bool := (0 <=? lo) || (hi <? 0).

  Lemma copy_targets_same_sign lo hi : same_sign lo hi = true -> copy_targets lo hi = zrange lo hi.
  Proof.
    unfold same_sign, copy_targets. intro H.
    destruct (Z.ltb_spec lo 0); simpl; auto.
    destruct (Z.leb_spec 0 hi); simpl; auto.
    destruct (Z.leb_spec 0 lo); simpl in H; [lia|].
    destruct (Z.ltb_spec hi 0); simpl in H; [lia | discriminate H].
  Qed.

  Lemma read_copy_single k src lo hi k' :
      read_copy [COKind k src lo hi] k' = if kind_eqb k' k then [(src, lo, hi)] else [].
  Proof. unfold read_copy. simpl. rewrite app_nil_r. reflexivity. Qed.

  Theorem copy_identical (st : store) k src lo hi c :
      look st k src = Some c -> same_sign lo hi = true ->
      forall k' i, look (r_store (run_step_g (st_copies [COKind k src lo hi]) st)) k' i
                   = if kind_eqb k' k && (lo <=? i) && (i <=? hi) then Some c else look st k' i.
  Proof.
    intros Hs Hd k' i.
    destruct (step_refines_spec (st_copies [COKind k src lo hi]) st) as (H1 & _ & _). rewrite H1. clear H1.
    unfold sp_step. simpl. unfold sp_copy. rewrite read_copy_single.
    destruct (kind_eqb k' k) eqn:Ek; simpl; auto.
    apply kind_eqb_eq in Ek. subst k'.
    unfold sm_copy1. cbn [t_src t_lo t_hi fst snd]. rewrite Hs.
    rewrite copy_targets_same_sign by assumption. rewrite zmem_zrange.
    destruct ((lo <=? i) && (i <=? hi)) eqn:Er; simpl; auto.
    destruct (Z.eqb_spec i src); simpl; auto. subst. exact Hs.
  Qed.

  (* COPY cell: the same for every kind that has an entry src *)
  Theorem copy_cell_identical (st : store) src lo hi : same_sign lo hi = true ->
      forall k i, look (r_store (run_step_g (st_copies [COCell src lo hi]) st)) k i
                  = match look st k src with
                    | Some c => if (lo <=? i) && (i <=? hi) then Some c else look st k i
                    | None => look st k i
                    end.
  Proof.
    intros Hd k i.
    destruct (step_refines_spec (st_copies [COCell src lo hi]) st) as (H1 & _ & _). rewrite H1. clear H1.
    unfold sp_step. simpl. unfold sp_copy, read_copy. simpl.
    unfold sm_copy1. cbn [t_src t_lo t_hi fst snd].
    destruct (look st k src) as [c|] eqn:Hs; auto.
    rewrite copy_targets_same_sign by assumption. rewrite zmem_zrange.
    destruct ((lo <=? i) && (i <=? hi)) eqn:Er; simpl; auto.
    destruct (Z.eqb_spec i src); simpl; auto. subst. exact Hs.
  Qed.

  (* no sharing: after COPY k src j, modifying the copy leaves the source alone and vice versa *)
  Theorem copy_independent (st : store) k src j c d : look st k src = Some c -> j <> src -> same_sign j j = true ->
      let st' := run_g [st_copies [COKind k src j j]; st_reads [RModify k j d]] st in
      look st' k j = Some (modify k d c) /\ look st' k src = Some c
      /\ let st'' := run_g [st_copies [COKind k src j j]; st_reads [RModify k src d]] st in
         look st'' k src = Some (modify k d c) /\ look st'' k j = Some c.
  Proof.
    intros Hs Hj Hd. cbv zeta. unfold run. cbn [fold_left].
    set (st1 := r_store (run_step_g (st_copies [COKind k src j j]) st)).
    assert (look st1 k j = Some c) as Hc1.
    { unfold st1. rewrite (copy_identical st k src j j c Hs Hd). rewrite kind_eqb_refl, !Z.leb_refl. reflexivity. }
    assert (look st1 k src = Some c) as Hc2.
    { unfold st1. rewrite (copy_identical st k src j j c Hs Hd). rewrite kind_eqb_refl. simpl.
      destruct ((j <=? src) && (src <=? j)); auto. }
    repeat split.
    - rewrite modify_only_named. rewrite Hc1. rewrite kind_eqb_refl, Z.eqb_refl. reflexivity.
    - rewrite modify_only_named. rewrite Hc1. rewrite kind_eqb_refl. simpl.
      destruct (Z.eqb_spec src j); [congruence | exact Hc2].
    - rewrite modify_only_named. rewrite Hc2. rewrite kind_eqb_refl, Z.eqb_refl. reflexivity.
    - rewrite modify_only_named. rewrite Hc2. rewrite kind_eqb_refl. simpl.
      destruct (Z.eqb_spec j src); [congruence | exact Hc1].
  Qed.

  (** ** 7. SAVE writes the calculated result under exactly the given numbers *)
  Lemma save_struct_single k n n_end k' :
      save_struct_of [(k, n, n_end)] k' = if kind_eqb k' k then mkSave true n n_end else mkSave false 0 0.
  Proof. reflexivity. Qed.

  Theorem save_writes_exactly (st : store) (tag : Z) (u : use_req) k n n_end :
      reacts u = true ->
      use_missing u (look st) = false -> mem_kind k savable_kinds = true -> used_kind u k = true ->
      forall k' i, look (r_store (run_step_g (st_react tag u [(k, n, n_end)]) st)) k' i
                   = if kind_eqb k' k && ((i =? n) || ((n <? i) && (i <=? n_end)))
                     then Some (react tag (-1) (used_of u (look st)) k) else look st k' i.
  Proof.
    intros Hr Hm Hk Hu k' i.
    destruct (step_refines_spec (st_react tag u [(k, n, n_end)]) st) as (H1 & _ & _). rewrite H1. clear H1.
    unfold sp_step. cbn [s_tag s_reads s_react st_react fold_left]. unfold sp_react, sp_react_core. rewrite Hr, Hm.
    change (sp_saver u (react tag (-1) (used_of u (look st))) (save_struct_of [(k, n, n_end)]) (look st) k' i
            = (if kind_eqb k' k && ((i =? n) || (n <? i) && (i <=? n_end))
               then Some (react tag (-1) (used_of u (look st)) k) else look st k' i)).
    unfold sp_saver. rewrite save_struct_single.
    destruct (kind_eqb k' k) eqn:Ek; cbn [sa_flag sa_n sa_end].
    - apply kind_eqb_eq in Ek. subst k'. rewrite Hk, Hu. reflexivity.
    - rewrite andb_false_r. reflexivity.
  Qed.

  (* SAVE of a kind that took no part in the calculation writes no result; the code still runs its
     range copy, so an entity n that already exists is duplicated over n+1..n_end *)
  Theorem save_unused_only_copies (st : store) (tag : Z) (u : use_req) k n n_end :
      reacts u = true ->
      use_missing u (look st) = false -> mem_kind k savable_kinds = true -> used_kind u k = false ->
      forall k' i, look (r_store (run_step_g (st_react tag u [(k, n, n_end)]) st)) k' i
                   = match look st k n with
                     | Some c => if kind_eqb k' k && ((n <? i) && (i <=? n_end)) then Some c else look st k' i
                     | None => look st k' i
                     end.
  Proof.
    intros Hr Hm Hk Hu k' i.
    destruct (step_refines_spec (st_react tag u [(k, n, n_end)]) st) as (H1 & _ & _). rewrite H1. clear H1.
    unfold sp_step. cbn [s_tag s_reads s_react st_react fold_left]. unfold sp_react, sp_react_core. rewrite Hr, Hm.
    change (sp_saver u (react tag (-1) (used_of u (look st))) (save_struct_of [(k, n, n_end)]) (look st) k' i
            = match look st k n with
              | Some c => if kind_eqb k' k && ((n <? i) && (i <=? n_end)) then Some c else look st k' i
              | None => look st k' i
              end).
    unfold sp_saver. rewrite save_struct_single.
    destruct (kind_eqb k' k) eqn:Ek; cbn [sa_flag sa_n sa_end].
    - apply kind_eqb_eq in Ek. subst k'. rewrite Hk, Hu. simpl. destruct (look st k n); reflexivity.
    - rewrite andb_false_r. destruct (look st k n); reflexivity.
  Qed.

  (* a USE of a missing reactant stops the run and leaves the store as it was *)
  Theorem use_missing_stops (st : store) (tag : Z) (u : use_req) sv :
      reacts u = true -> use_missing u (look st) = true ->
      r_stopped (run_step_g (st_react tag u sv) st) = true /\ look (r_store (run_step_g (st_react tag u sv) st)) = look st.
  Proof.
    intros Hr Hm. destruct (step_refines_spec (st_react tag u sv) st) as (H1 & _ & H3). rewrite H1, H3.
    unfold sp_step. cbn [s_tag s_reads s_react st_react fold_left]. unfold sp_react, sp_react_core. rewrite Hr, Hm. split; reflexivity.
  Qed.

  (* USE of a solution alone is not a reaction: nothing is calculated, nothing is saved *)
  Theorem use_solution_alone_is_noop (st : store) (tag : Z) (u : use_req) sv :
      reacts u = false ->
      r_stopped (run_step_g (st_react tag u sv) st) = false /\ look (r_store (run_step_g (st_react tag u sv) st)) = look st.
  Proof.
    intro Hr. destruct (step_refines_spec (st_react tag u sv) st) as (H1 & _ & H3). rewrite H1, H3.
    unfold sp_step. cbn [s_tag s_reads s_react st_react fold_left]. unfold sp_react. rewrite Hr. split; reflexivity.
  Qed.

  (** ** 8. USE reads the current content: the oracle only sees what is stored under the used numbers *)
  Theorem use_reads_current (u : use_req) (S S' : kind -> Z -> option C) :
      (forall k n, u k = Some n -> S k n = S' k n) -> used_of u S = used_of u S'.
  Proof.
    intro H. unfold used_of. apply flat_map_ext. intro k.
    destruct (u k) as [n|] eqn:Eu; auto. rewrite (H k n Eu). reflexivity.
  Qed.

  (** ** 9. RUN_CELLS n = USE every reactant numbered n, SAVE it to n *)
  Theorem runcells_eq_use_save (st : store) (tag : Z) n : 0 <= n ->
      present st KSol n = true \/ present st KMix n = true ->
      reacts (cell_use st n) = true ->
      (forall used k, react tag n used k = react tag (-1) used k) ->
      r_store (run_step_g (st_cells tag [n]) st) = r_store (run_step_g (st_react tag (cell_use st n) (cell_save st n)) st).
  Proof.
    intros Hn Hp Hr Hor. rewrite P_hand. unfold run_step. cbn [s_tag s_reads s_react s_cells s_mixes s_copies s_delete st_cells st_react fold_left].
    unfold run_cell. destruct (Z.ltb_spec n 0); [lia|].
    assert (negb (present st KSol n) && negb (present st KMix n) = false) as Hc.
    { destruct Hp as [Hp|Hp]; rewrite Hp; simpl; auto. apply andb_false_r. }
    rewrite Hc. unfold do_react. rewrite Hr.
    assert (do_react_core react (hand_prims C) tag n (cell_use st n) (cell_save st n) st
            = do_react_core react (hand_prims C) tag (-1) (cell_use st n) (cell_save st n) st) as Heq.
    { unfold do_react_core. destruct (use_missing (cell_use st n) (look st)); auto.
      replace (react tag n (used_of (cell_use st n) (look st))) with (react tag (-1) (used_of (cell_use st n) (look st)));
        [reflexivity|]. apply functional_extensionality. intro k. symmetry. apply Hor. }
    rewrite Heq.
    destruct (do_react_core react (hand_prims C) tag (-1) (cell_use st n) (cell_save st n) st); cbn [r_store fold_left]; reflexivity.
  Qed.

  Lemma cell_use_spec (st : store) n k : k <> KSol -> k <> KKin ->
      cell_use st n k = if present st k n then Some n else None.
  Proof. intros H1 H2. destruct k; try reflexivity; contradiction. Qed.

  Lemma cell_use_sol (st : store) n : cell_use st n KSol = if present st KMix n then None else Some n.
  Proof. reflexivity. Qed.

  Lemma cell_save_spec (st : store) n k a b :
      In (k, a, b) (cell_save st n) <->
      a = n /\ b = n /\ (k = KSol \/ (In k [KPP; KExch; KSurf; KGas; KSS] /\ present st k n = true)).
  Proof using.
    unfold cell_save. split.
    - intros [H|H].
      + inversion H. subst. auto.
      + apply in_flat_map in H. destruct H as [x [Hx H]].
        destruct (present st x n) eqn:Ep; [|contradiction].
        destruct H as [H|[]]. inversion H. subst. auto.
    - intros (Ha & Hb & [Hk | [Hin Hp]]); subst.
      + left. reflexivity.
      + right. apply in_flat_map. exists k. split; auto. rewrite Hp. left. reflexivity.
  Qed.

  (** ** 10. the component list covers every element of every stored reactant, and nothing else *)
  Lemma zfind_in {A} i (a : A) (m : zmap A) : zfind i m = Some a -> In (i, a) m.
  Proof.
    induction m as [|[j b] r IH]; simpl; [discriminate|].
    destruct (Z.eqb_spec j i); intro H.
    - inversion H. subst. left. reflexivity.
    - right. apply IH. exact H.
  Qed.

  Lemma mem_kind_in k l : mem_kind k l = true -> In k l.
  Proof.
    unfold mem_kind. rewrite existsb_exists. intros [x [Hx Ex]]. apply kind_eqb_eq in Ex. subst. exact Hx.
  Qed.

  Lemma components_ok_in k : In k reactant_kinds -> In k (g_components T).
  Proof.
    intro Hk. pose proof HT as H. unfold tables_ok in H.
    apply andb_true_iff in H. destruct H as [H _]. apply andb_true_iff in H. destruct H as [H _].
    apply andb_true_iff in H. destruct H as [_ H]. unfold components_ok in H.
    rewrite forallb_forall in H. apply mem_kind_in. apply H. exact Hk.
  Qed.

  Theorem components_cover_store (st : store) k i e x :
      In k reactant_kinds -> zfind i (st k) = Some e -> In x (elements k (e_body e)) ->
      In x (components_g elements (g_components T) st).
  Proof.
    intros Hk Hf Hx. unfold components_g.
    apply in_flat_map. exists k. split; [apply components_ok_in; exact Hk|].
    apply in_flat_map. exists (i, e). split; [apply zfind_in; exact Hf | exact Hx].
  Qed.

  Theorem components_cover (steps : list step) (st : store) k i e x :
      In k reactant_kinds -> zfind i (run_g steps st k) = Some e -> In x (elements k (e_body e)) ->
      In x (components_g elements (g_components T) (run_g steps st)).
  Proof. apply components_cover_store. Qed.

  (* conversely: with the number invariant, every listed element belongs to an entry that can be looked up *)
  Lemma in_zfind_nodup {A} (m : zmap A) i a : In (i, a) m -> exists b, zfind i m = Some b.
  Proof.
    induction m as [|[j b] r IH]; simpl; [contradiction|].
    intros [H|H].
    - inversion H. subst. rewrite Z.eqb_refl. eauto.
    - destruct (j =? i); eauto.
  Qed.

  Theorem components_only_present (st : store) x :
      In x (components_g elements (g_components T) st) ->
      exists k i e, In k (g_components T) /\ In (i, e) (st k) /\ In x (elements k (e_body e)).
  Proof.
    unfold components_g. intro H. apply in_flat_map in H. destruct H as [k [Hk H]].
    apply in_flat_map in H. destruct H as [[i e] [Hi Hx]]. exists k, i, e. auto.
  Qed.
End Theorems.
