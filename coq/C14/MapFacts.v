(** * C14 — facts about the integer-keyed association lists and ranges of [Store.v] *)
From Coq Require Import ZArith List Bool Lia.
From IPV.C14 Require Import Store.
Import ListNotations.
Open Scope Z_scope.

Lemma kind_eqb_refl k : kind_eqb k k = true.
Proof. unfold kind_eqb. apply Z.eqb_refl. Qed.

Lemma kind_eqb_eq a b : kind_eqb a b = true <-> a = b.
Proof.
  unfold kind_eqb. rewrite Z.eqb_eq. split.
  - destruct a, b; simpl; intro H; try reflexivity; discriminate H.
  - intros ->. reflexivity.
Qed.

Lemma kind_eqb_neq a b : kind_eqb a b = false <-> a <> b.
Proof.
  split.
  - intros H E. apply kind_eqb_eq in E. congruence.
  - intro N. destruct (kind_eqb a b) eqn:E; auto. apply kind_eqb_eq in E. contradiction.
Qed.

Lemma kind_eqb_sym a b : kind_eqb a b = kind_eqb b a.
Proof. unfold kind_eqb. apply Z.eqb_sym. Qed.

Lemma kind_eq_dec (a b : kind) : {a = b} + {a <> b}.
Proof. decide equality. Defined.

Lemma all_kinds_complete k : In k all_kinds.
Proof. destruct k; simpl; tauto. Qed.

Section Facts.
  Context {A : Type}.
  Implicit Types (m : zmap A) (i j : Z) (a : A).

  Lemma zfind_zdel_eq i m : zfind i (zdel i m) = None.
  Proof.
    induction m as [|[j a] r IH]; simpl; auto.
    destruct (j =? i) eqn:E; simpl; auto. rewrite E. exact IH.
  Qed.

  Lemma zfind_zdel_neq i j m : i <> j -> zfind i (zdel j m) = zfind i m.
  Proof.
    intro N. induction m as [|[k a] r IH]; simpl; auto.
    destruct (k =? j) eqn:E.
    - apply Z.eqb_eq in E. subst k. destruct (j =? i) eqn:E2; [apply Z.eqb_eq in E2; congruence | exact IH].
    - simpl. destruct (k =? i); auto.
  Qed.

  Lemma zfind_zins_eq i a m : zfind i (zins i a m) = Some a.
  Proof. unfold zins. simpl. rewrite Z.eqb_refl. reflexivity. Qed.

  Lemma zfind_zins_neq i j a m : i <> j -> zfind i (zins j a m) = zfind i m.
  Proof.
    intro N. unfold zins. simpl.
    destruct (j =? i) eqn:E; [apply Z.eqb_eq in E; congruence|].
    apply zfind_zdel_neq; auto.
  Qed.

  Lemma zfind_zins i j a m : zfind i (zins j a m) = if i =? j then Some a else zfind i m.
  Proof.
    destruct (i =? j) eqn:E.
    - apply Z.eqb_eq in E. subst. apply zfind_zins_eq.
    - apply Z.eqb_neq in E. apply zfind_zins_neq; auto.
  Qed.

  Lemma zfind_zdel i j m : zfind i (zdel j m) = if i =? j then None else zfind i m.
  Proof.
    destruct (i =? j) eqn:E.
    - apply Z.eqb_eq in E. subst. apply zfind_zdel_eq.
    - apply Z.eqb_neq in E. apply zfind_zdel_neq; auto.
  Qed.

  Lemma zdel_zdel i m : zdel i (zdel i m) = zdel i m.
  Proof.
    induction m as [|[j a] r IH]; simpl; auto.
    destruct (j =? i) eqn:E; simpl; auto. rewrite E. f_equal. exact IH.
  Qed.

  Lemma zins_zins i a b m : zins i a (zins i b m) = zins i a m.
  Proof. unfold zins. simpl. rewrite Z.eqb_refl. rewrite zdel_zdel. reflexivity. Qed.

  (** folds of insertions / deletions, characterised by lookup *)
  Lemma zfind_fold_ins (f : Z -> A) (l : list Z) : forall m i,
      zfind i (fold_left (fun m j => zins j (f j) m) l m) = if zmem i l then Some (f i) else zfind i m.
  Proof.
    induction l as [|x l IH]; intros m i; simpl; auto.
    rewrite IH. rewrite zfind_zins.
    destruct (zmem i l) eqn:E1; simpl.
    - rewrite orb_true_r. reflexivity.
    - rewrite orb_false_r. destruct (i =? x) eqn:E; auto. apply Z.eqb_eq in E. subst. reflexivity.
  Qed.

  Lemma zfind_fold_del (l : list Z) : forall m i,
      zfind i (fold_left (fun m j => zdel j m) l m) = if zmem i l then None else zfind i m.
  Proof.
    induction l as [|x l IH]; intros m i; simpl; auto.
    rewrite IH. rewrite zfind_zdel.
    destruct (zmem i l) eqn:E1; simpl.
    - rewrite orb_true_r. reflexivity.
    - rewrite orb_false_r. reflexivity.
  Qed.
End Facts.

(** ** ranges *)
Lemma zrange_nil lo hi : hi < lo -> zrange lo hi = [].
Proof. intro H. unfold zrange. replace (Z.to_nat (hi - lo + 1)) with 0%nat by lia. reflexivity. Qed.

Lemma zrange_cons lo hi : lo <= hi -> zrange lo hi = lo :: zrange (lo + 1) hi.
Proof.
  intro H. unfold zrange.
  replace (Z.to_nat (hi - lo + 1)) with (S (Z.to_nat (hi - (lo + 1) + 1))) by lia.
  simpl. f_equal; [lia|].
  rewrite <- seq_shift. rewrite map_map. apply map_ext. intro d. lia.
Qed.

Lemma in_zrange i lo hi : In i (zrange lo hi) <-> lo <= i <= hi.
Proof.
  unfold zrange. rewrite in_map_iff. split.
  - intros [d [E Hd]]. apply in_seq in Hd. lia.
  - intro H. exists (Z.to_nat (i - lo)). split; [lia|]. apply in_seq. lia.
Qed.

Lemma zmem_true i l : zmem i l = true <-> In i l.
Proof.
  unfold zmem. rewrite existsb_exists. split.
  - intros [x [Hx E]]. apply Z.eqb_eq in E. subst. exact Hx.
  - intro H. exists i. split; auto. apply Z.eqb_refl.
Qed.

Lemma zmem_zrange i lo hi : zmem i (zrange lo hi) = (lo <=? i) && (i <=? hi).
Proof.
  destruct (zmem i (zrange lo hi)) eqn:E.
  - apply zmem_true in E. apply in_zrange in E. symmetry. apply andb_true_iff. split; apply Z.leb_le; lia.
  - symmetry. apply not_true_is_false. intro H. apply andb_true_iff in H. destruct H as [H1 H2].
    apply Z.leb_le in H1. apply Z.leb_le in H2.
    assert (In i (zrange lo hi)) as HI by (apply in_zrange; lia).
    apply zmem_true in HI. congruence.
Qed.

Lemma zmem_app i l1 l2 : zmem i (l1 ++ l2) = zmem i l1 || zmem i l2.
Proof. unfold zmem. apply existsb_app. Qed.

(** fold over indices with [nth] = fold over the list *)
Lemma fold_left_nth {X Y} (f : Y -> X -> Y) (d : X) (l : list X) : forall (pre : list X) (a : Y),
    fold_left (fun a j => f a (nth j (pre ++ l) d)) (seq (length pre) (length l)) a = fold_left f l a.
Proof.
  induction l as [|x l IH]; intros pre a; simpl; auto.
  rewrite app_nth2 by lia. rewrite Nat.sub_diag. simpl.
  specialize (IH (pre ++ [x]) (f a x)).
  rewrite app_length in IH. simpl in IH. rewrite Nat.add_1_r in IH.
  rewrite <- app_assoc in IH. simpl in IH. exact IH.
Qed.

Lemma fold_left_nth0 {X Y} (f : Y -> X -> Y) (d : X) (l : list X) (a : Y) :
    fold_left (fun a j => f a (nth j l d)) (seq 0 (length l)) a = fold_left f l a.
Proof. exact (fold_left_nth f d l [] a). Qed.
