(** * C14 — the abstract specification: a plain finite map (kind, number) -> content, and the
    proof that the store model (hand transcription of the code) refines it. *)
From Coq Require Import ZArith List Bool Lia FunctionalExtensionality.
From IPV.C14 Require Import Store MapFacts Tie.
Import ListNotations.
Open Scope Z_scope.

Section Spec.
  Variable C : Type.
  Variable D : Type.
  Variable modify : kind -> D -> C -> C.
  Variable react : Z -> Z -> list (kind * C) -> kind -> C.
  Variable M : Type.
  Variable mix_nums : M -> list Z.
  Variable mixf : kind -> M -> list (Z * option C) -> C.

  Notation emap := (emap C).
  Notation store := (store C).
  Notation look_of := (@look_of C).

  (** ** the specification *)
  Definition sstore := kind -> Z -> option C.
  Definition sempty : sstore := fun _ _ => None.

  (* entries n and n+1..n_end of kind k become c *)
  Definition in_def_range (n n_end i : Z) : bool := (i =? n) || ((n <? i) && (i <=? n_end)).

  Definition sp_define (S : sstore) (k : kind) (n n_end : Z) (c : C) : sstore :=
    fun k' i => if kind_eqb k' k && in_def_range n n_end i then Some c else S k' i.

  Definition sp_read (S : sstore) (r : read_op C D) : sstore :=
    match r with
    | RDefine k n n_end c => sp_define S k n n_end c
    | RModify k n d =>
        match S k n with
        | Some c => fun k' i => if kind_eqb k' k && (i =? n) then Some (modify k d c) else S k' i
        | None => S
        end
    end.

  Definition sm_copy1 (f : Z -> option C) (t : Z * Z * Z) : Z -> option C :=
    match f (t_src t) with
    | Some c => fun i => if zmem i (copy_targets (t_lo t) (t_hi t)) && negb (i =? t_src t) then Some c else f i
    | None => f
    end.

  Definition sp_copy (opts : list (copy_opt)) (S : sstore) : sstore :=
    fun k => fold_left sm_copy1 (read_copy opts k) (S k).

  (* is entry (k, i) named by the DELETE block? *)
  Definition named (opts : list del_opt) (k : kind) (i : Z) : bool :=
    let it := read_delete opts k in
    di_defined it && (is_nil (di_nums it) || zmem i (di_nums it)).

  Definition sp_delete (opts : list del_opt) (S : sstore) : sstore :=
    fun k i => if named opts k i then None else S k i.

  (* saver(): per savable kind whose SAVE flag is set, the result is written under n and n+1..n_end when the
     kind took part in the calculation; otherwise n+1..n_end become copies of an existing entry n *)
  Definition sp_saver (u : use_req) (res : kind -> C) (Sv : save_struct) (S : sstore) : sstore :=
    fun k i =>
      if mem_kind k savable_kinds && sa_flag (Sv k) then
        if used_kind u k then
          if in_def_range (sa_n (Sv k)) (sa_end (Sv k)) i then Some (res k) else S k i
        else
          match S k (sa_n (Sv k)) with
          | Some c => if (sa_n (Sv k) <? i) && (i <=? sa_end (Sv k)) then Some c else S k i
          | None => S k i
          end
      else S k i.

  Definition sp_react_core (tag cell : Z) (u : use_req) (sv : save_req) (S : sstore) : option sstore :=
    if use_missing u S then None
    else Some (sp_saver u (react tag cell (used_of u S)) (save_struct_of sv) S).

  Definition sp_react (tag : Z) (u : use_req) (sv : save_req) (S : sstore) : option sstore :=
    if reacts u then sp_react_core tag (-1) u sv S else Some S.

  Definition sp_present (S : sstore) (k : kind) (n : Z) : bool := is_some (S k n).

  Definition sp_cell_use (S : sstore) (n : Z) : use_req :=
    fun k => match k with
             | KSol => if sp_present S KMix n then None else Some n
             | KKin => None
             | _ => if sp_present S k n then Some n else None
             end.

  Definition sp_cell_save (S : sstore) (n : Z) : save_req :=
    (KSol, n, n) :: flat_map (fun k => if sp_present S k n then [(k, n, n)] else []) [KPP; KExch; KSurf; KGas; KSS].

  Definition sp_run_cell (tag : Z) (S : sstore) (n : Z) : sstore :=
    if n <? 0 then S
    else if negb (sp_present S KSol n) && negb (sp_present S KMix n) then S
    else match sp_react_core tag n (sp_cell_use S n) (sp_cell_save S n) S with
         | Some S' => S'
         | None => S
         end.

  Definition sp_mix (S : sstore) (r : mix_req M) : sstore :=
    let '(k, n, n_end, mx) := r in
    sp_define S k n n_end (mixf k mx (map (fun i => (i, S k i)) (mix_nums mx))).

  Record sresult := { sr_store : sstore; sr_dump : sstore; sr_stopped : bool }.

  Definition sp_step (stp : step C D M) (S : sstore) : sresult :=
    let S1 := fold_left sp_read (s_reads stp) S in
    match (match s_react stp with
           | Some (u, sv) => sp_react (s_tag stp) u sv S1
           | None => Some S1
           end) with
    | None => {| sr_store := S1; sr_dump := S1; sr_stopped := true |}
    | Some S2 =>
        let S3 := fold_left (sp_run_cell (s_tag stp)) (s_cells stp) S2 in
        let S4 := fold_left sp_mix (s_mixes stp) S3 in
        let S5 := sp_copy (s_copies stp) S4 in
        let S6 := match s_delete stp with Some opts => sp_delete opts S5 | None => S5 end in
        {| sr_store := S6; sr_dump := S5; sr_stopped := false |}
    end.

  Definition sp_run (steps : list (step C D M)) (S : sstore) : sstore :=
    fold_left (fun S stp => sr_store (sp_step stp S)) steps S.

  (** ** refinement of each primitive *)
  Definition mlook (m : emap) : Z -> option C := fun i => option_map (@e_body C) (zfind i m).

  Lemma look_supd (st : store) k m :
      look_of (supd st k m) = fun k' i => if kind_eqb k' k then mlook m i else look_of st k' i.
  Proof.
    apply functional_extensionality. intro k'. apply functional_extensionality. intro i.
    unfold Store.look_of, supd, mlook. destruct (kind_eqb k' k); reflexivity.
  Qed.

  Lemma mlook_define (m : emap) n n_end c i :
      mlook (rxn_copies (zins n (mkEnt n c) m) n n_end) i
      = if in_def_range n n_end i then Some c else mlook m i.
  Proof.
    unfold mlook, rxn_copies, in_def_range.
    destruct (n_end <=? n) eqn:Eg.
    - rewrite zfind_zins. apply Z.leb_le in Eg.
      destruct (Z.eqb_spec i n); simpl; auto.
      destruct (Z.ltb_spec n i); simpl; auto.
      destruct (Z.leb_spec i n_end); simpl; auto. lia.
    - rewrite zfind_zins_eq. cbn [e_body].
      rewrite (zfind_fold_ins (fun j => mkEnt j c)). rewrite zmem_zrange. rewrite zfind_zins.
      apply Z.leb_gt in Eg.
      destruct (Z.eqb_spec i n); simpl.
      + subst. destruct (Z.leb_spec (n + 1) n); simpl; [lia|]. reflexivity.
      + destruct (Z.leb_spec (n + 1) i); destruct (Z.ltb_spec n i); simpl; try lia; auto.
        destruct (i <=? n_end); reflexivity.
  Qed.

  Lemma look_define (st : store) k n n_end c :
      look_of (supd st k (rxn_copies (zins n (mkEnt n c) (st k)) n n_end)) = sp_define (look_of st) k n n_end c.
  Proof.
    rewrite look_supd. apply functional_extensionality. intro k'. apply functional_extensionality. intro i.
    unfold sp_define. destruct (kind_eqb k' k) eqn:E; simpl; auto.
    apply kind_eqb_eq in E. subst k'. rewrite mlook_define. reflexivity.
  Qed.

  Lemma look_read (st : store) r :
      look_of (do_read modify (hand_prims C) st r) = sp_read (look_of st) r.
  Proof.
    destruct r as [k n n_end c | k n d]; simpl.
    - apply look_define.
    - unfold Store.look_of at 2. destruct (zfind n (st k)) as [e|] eqn:Ef; simpl; auto.
      rewrite look_supd. apply functional_extensionality. intro k'. apply functional_extensionality. intro i.
      destruct (kind_eqb k' k) eqn:E; simpl; auto.
      apply kind_eqb_eq in E. subst k'. unfold mlook. rewrite zfind_zins.
      destruct (i =? n); reflexivity.
  Qed.

  (** COPY *)
  Lemma copy_inner (src : Z) (e : ent C) (l : list Z) : forall (m : emap) i,
      zfind src m = Some e ->
      zfind i (fold_left (fun m i => if i =? src then m else rxn_copy m src i) l m)
      = if zmem i l && negb (i =? src) then Some (mkEnt i (e_body e)) else zfind i m.
  Proof.
    induction l as [|x l IH]; intros m i Hs; simpl; auto.
    destruct (Z.eqb_spec x src) as [Ex|Ex].
    - subst x. rewrite IH by assumption.
      destruct (Z.eqb_spec i src); simpl.
      + rewrite ?andb_false_r. reflexivity.
      + reflexivity.
    - assert (zfind src (rxn_copy m src x) = Some e) as Hs'.
      { unfold rxn_copy. rewrite Hs. rewrite zfind_zins_neq by congruence. exact Hs. }
      rewrite IH by assumption.
      unfold rxn_copy. rewrite Hs. rewrite zfind_zins.
      destruct (Z.eqb_spec i x); simpl.
      + subst x. destruct (Z.eqb_spec i src); [contradiction|]. simpl.
        destruct (zmem i l); reflexivity.
      + reflexivity.
  Qed.

  Lemma mlook_copy1 (m : emap) t : mlook (copy1 m t) = sm_copy1 (mlook m) t.
  Proof.
    apply functional_extensionality. intro i.
    unfold copy1, sm_copy1, mlook.
    destruct (zfind (t_src t) m) as [e|] eqn:Ef; simpl; auto.
    rewrite (copy_inner (t_src t) e) by assumption.
    destruct (zmem i (copy_targets (t_lo t) (t_hi t)) && negb (i =? t_src t)); reflexivity.
  Qed.

  Lemma mlook_copies (l : list (Z * Z * Z)) : forall (m : emap),
      mlook (fold_left (@copy1 C) l m) = fold_left sm_copy1 l (mlook m).
  Proof.
    induction l as [|t l IH]; intro m; simpl; auto.
    rewrite IH. rewrite mlook_copy1. reflexivity.
  Qed.

  Lemma look_copy opts (st : store) :
      look_of (copy_entities (read_copy opts) st) = sp_copy opts (look_of st).
  Proof.
    apply functional_extensionality. intro k.
    unfold sp_copy, copy_entities.
    change (look_of (fun k0 => fold_left (@copy1 C) (read_copy opts k0) (st k0)) k)
      with (mlook (fold_left (@copy1 C) (read_copy opts k) (st k))).
    rewrite mlook_copies. reflexivity.
  Qed.

  (** DELETE *)
  Lemma look_delete opts (st : store) :
      look_of (delete_entities (read_delete opts) st) = sp_delete opts (look_of st).
  Proof.
    apply functional_extensionality. intro k. apply functional_extensionality. intro i.
    unfold sp_delete, named, delete_entities, Store.look_of, delete_map.
    destruct (di_defined (read_delete opts k)); simpl; auto.
    destruct (is_nil (di_nums (read_delete opts k))); simpl; auto.
    unfold erase_all. rewrite zfind_fold_del.
    destruct (zmem i (di_nums (read_delete opts k))); reflexivity.
  Qed.

  (** USE / SAVE, RUN_CELLS *)
  Lemma mlook_range_copies (m : emap) n n_end i :
      mlook (rxn_copies m n n_end) i
      = match mlook m n with
        | Some c => if (n <? i) && (i <=? n_end) then Some c else mlook m i
        | None => mlook m i
        end.
  Proof.
    unfold mlook, rxn_copies.
    destruct (n_end <=? n) eqn:Eg.
    - apply Z.leb_le in Eg. destruct (zfind n m); simpl; auto.
      destruct (Z.ltb_spec n i); simpl; auto.
      destruct (Z.leb_spec i n_end); simpl; auto. lia.
    - destruct (zfind n m) as [e|] eqn:Ef; simpl; auto.
      rewrite (zfind_fold_ins (fun j => mkEnt j (e_body e))). rewrite zmem_zrange.
      destruct (Z.leb_spec (n + 1) i); destruct (Z.ltb_spec n i); simpl; try lia; auto.
      destruct (i <=? n_end); reflexivity.
  Qed.

  Lemma look_saver u res Sv (st : store) :
      look_of (saver u res Sv st) = sp_saver u res Sv (look_of st).
  Proof.
    apply functional_extensionality. intro k. apply functional_extensionality. intro i.
    unfold sp_saver, saver, saver_map.
    change (look_of (fun k0 => if mem_kind k0 savable_kinds
                               then if sa_flag (Sv k0)
                                    then rxn_copies (if used_kind u k0 then zins (sa_n (Sv k0)) (mkEnt (sa_n (Sv k0)) (res k0)) (st k0) else st k0)
                                                    (sa_n (Sv k0)) (sa_end (Sv k0))
                                    else st k0
                               else st k0) k i)
      with (mlook (if mem_kind k savable_kinds
                   then if sa_flag (Sv k)
                        then rxn_copies (if used_kind u k then zins (sa_n (Sv k)) (mkEnt (sa_n (Sv k)) (res k)) (st k) else st k)
                                        (sa_n (Sv k)) (sa_end (Sv k))
                        else st k
                   else st k) i).
    destruct (mem_kind k savable_kinds); simpl; [|reflexivity].
    destruct (sa_flag (Sv k)); simpl; [|reflexivity].
    destruct (used_kind u k).
    - rewrite mlook_define. reflexivity.
    - rewrite mlook_range_copies. reflexivity.
  Qed.

  Lemma look_react_core tag cell u sv (st : store) :
      option_map look_of (do_react_core react (hand_prims C) tag cell u sv st) = sp_react_core tag cell u sv (look_of st).
  Proof.
    unfold do_react_core, sp_react_core.
    destruct (use_missing u (look_of st)); simpl; auto.
    cbn [p_saver hand_prims]. rewrite look_saver. reflexivity.
  Qed.

  Lemma look_react tag u sv (st : store) :
      option_map look_of (do_react react (hand_prims C) tag u sv st) = sp_react tag u sv (look_of st).
  Proof.
    unfold do_react, sp_react. destruct (reacts u); [apply look_react_core | reflexivity].
  Qed.

  Lemma present_look (st : store) k n : present st k n = sp_present (look_of st) k n.
  Proof. unfold present, sp_present, Store.look_of. destruct (zfind n (st k)); reflexivity. Qed.

  Lemma cell_use_look (st : store) n : cell_use st n = sp_cell_use (look_of st) n.
  Proof.
    apply functional_extensionality. intro k. unfold cell_use, sp_cell_use.
    destruct k; rewrite ?present_look; reflexivity.
  Qed.

  Lemma cell_save_look (st : store) n : cell_save st n = sp_cell_save (look_of st) n.
  Proof. unfold cell_save, sp_cell_save. simpl. rewrite !present_look. reflexivity. Qed.

  Lemma look_run_cell tag (st : store) n :
      look_of (run_cell react (hand_prims C) tag st n) = sp_run_cell tag (look_of st) n.
  Proof.
    unfold run_cell, sp_run_cell.
    destruct (n <? 0); auto.
    rewrite !present_look.
    destruct (negb (sp_present (look_of st) KSol n) && negb (sp_present (look_of st) KMix n)); auto.
    rewrite <- cell_use_look, <- cell_save_look.
    rewrite <- look_react_core.
    destruct (do_react_core react (hand_prims C) tag n (cell_use st n) (cell_save st n) st); reflexivity.
  Qed.

  Lemma look_mix (st : store) r :
      look_of (do_mix mix_nums mixf (hand_prims C) st r) = sp_mix (look_of st) r.
  Proof.
    destruct r as [[[k n] n_end] mx]. unfold do_mix, sp_mix. simpl. apply look_define.
  Qed.

  Lemma look_fold {X} (f : store -> X -> store) (g : sstore -> X -> sstore) :
      (forall st x, look_of (f st x) = g (look_of st) x) ->
      forall l st, look_of (fold_left f l st) = fold_left g l (look_of st).
  Proof.
    intros H l. induction l as [|x l IH]; intro st; simpl; auto.
    rewrite IH. rewrite H. reflexivity.
  Qed.

  (** ** refinement of a whole simulation and of arbitrary sequences of simulations *)
  Notation run_step_h := (run_step modify react mix_nums mixf (hand_prims C)).
  Notation run_h := (run modify react mix_nums mixf (hand_prims C)).

  Theorem step_refines (stp : step C D M) (st : store) :
      look_of (r_store (run_step_h stp st)) = sr_store (sp_step stp (look_of st))
      /\ look_of (r_dump (run_step_h stp st)) = sr_dump (sp_step stp (look_of st))
      /\ r_stopped (run_step_h stp st) = sr_stopped (sp_step stp (look_of st)).
  Proof.
    unfold run_step, sp_step.
    rewrite <- (look_fold _ sp_read look_read).
    set (st1 := fold_left (do_read modify (hand_prims C)) (s_reads stp) st).
    assert (forall st2 : store,
      look_of (match s_delete stp with
               | Some opts => p_delete_ents (hand_prims C) opts
                     (p_copy_ents (hand_prims C) (s_copies stp)
                        (fold_left (do_mix mix_nums mixf (hand_prims C)) (s_mixes stp)
                           (fold_left (run_cell react (hand_prims C) (s_tag stp)) (s_cells stp) st2)))
               | None => p_copy_ents (hand_prims C) (s_copies stp)
                     (fold_left (do_mix mix_nums mixf (hand_prims C)) (s_mixes stp)
                        (fold_left (run_cell react (hand_prims C) (s_tag stp)) (s_cells stp) st2))
               end)
      = match s_delete stp with
        | Some opts => sp_delete opts (sp_copy (s_copies stp)
                          (fold_left sp_mix (s_mixes stp) (fold_left (sp_run_cell (s_tag stp)) (s_cells stp) (look_of st2))))
        | None => sp_copy (s_copies stp)
                          (fold_left sp_mix (s_mixes stp) (fold_left (sp_run_cell (s_tag stp)) (s_cells stp) (look_of st2)))
        end
      /\ look_of (p_copy_ents (hand_prims C) (s_copies stp)
                     (fold_left (do_mix mix_nums mixf (hand_prims C)) (s_mixes stp)
                        (fold_left (run_cell react (hand_prims C) (s_tag stp)) (s_cells stp) st2)))
         = sp_copy (s_copies stp)
                          (fold_left sp_mix (s_mixes stp) (fold_left (sp_run_cell (s_tag stp)) (s_cells stp) (look_of st2)))) as Htail.
    { intro st2.
      rewrite <- (look_fold _ (sp_run_cell (s_tag stp)) (look_run_cell (s_tag stp))).
      rewrite <- (look_fold _ sp_mix look_mix).
      rewrite <- look_copy.
      destruct (s_delete stp) as [opts|]; cbn [p_delete_ents p_copy_ents hand_prims].
      + rewrite <- look_delete. auto.
      + auto. }
    destruct (s_react stp) as [[u sv]|].
    - pose proof (look_react (s_tag stp) u sv st1) as Hr.
      destruct (do_react react (hand_prims C) (s_tag stp) u sv st1) as [st2|]; simpl in Hr; rewrite <- Hr; cbn [r_store r_dump r_stopped sr_store sr_dump sr_stopped].
      + destruct (Htail st2) as [H1 H2]. auto.
      + auto.
    - cbn [r_store r_dump r_stopped sr_store sr_dump sr_stopped].
      destruct (Htail st1) as [H1 H2]. auto.
  Qed.

  Theorem run_refines (steps : list (step C D M)) : forall (st : store),
      look_of (run_h steps st) = sp_run steps (look_of st).
  Proof.
    unfold run, sp_run. induction steps as [|stp steps IH]; intro st; simpl; auto.
    rewrite IH. f_equal. apply step_refines.
  Qed.
End Spec.

Arguments sp_step {C D} modify react {M} mix_nums mixf stp S.
Arguments sp_run {C D} modify react {M} mix_nums mixf steps S.
Arguments sp_react {C} react tag u sv S.
Arguments sp_react_core {C} react tag cell u sv S.
Arguments sp_read {C D} modify S r.
Arguments sp_copy {C} opts S.
Arguments sp_delete {C} opts S.
Arguments sp_saver {C} u res Sv S.
Arguments sp_define {C} S k n n_end c.
Arguments sm_copy1 {C} f t.
Arguments copy_inner {C} src e l m i.
Arguments sr_store {C}. Arguments sr_dump {C}. Arguments sr_stopped {C}.
