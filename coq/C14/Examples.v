(** * C14 — non-vacuity: concrete reachable states satisfying the hypotheses of the theorems in
    Props/Properties_C14.v (contents are integers, the oracles are those of [Exec.v]). *)
From Coq Require Import ZArith List Bool.
From IPV.C14 Require Import Store MapFacts Tie Spec Theorems Exec.
Import ListNotations.
Open Scope Z_scope.

(* a store reached by two simulations: definitions with ranges, then a COPY *)
Definition ex_store : store Z :=
  run x_modify x_react x_mix_nums x_mixf (hand_prims Z)
      [mk 1 [RDefine KSol 1 3 101; RDefine KPP 1 2 102; RDefine KExch 2 2 103; RDefine KRxn 1 1 104] None [] [] [] None;
       mk 2 [] None [] [] [COKind KSol 1 5 6] None]
      (@empty_store Z).

Example ex_look : look_of ex_store KSol 6 = Some 101 /\ look_of ex_store KPP 2 = Some 102 /\ look_of ex_store KSol 4 = None.
Proof. vm_compute. auto. Qed.

(* copy_identical / copy_independent: source present, same-sign target range *)
Example ex_copy_hyps : look_of ex_store KSol 1 = Some 101 /\ same_sign 7 9 = true /\ same_sign (-5) (-3) = true /\ 8 <> 1.
Proof. vm_compute. repeat split; discriminate. Qed.

(* save_writes_exactly: a real reaction (solution + pure phases), nothing missing, solution saved *)
Definition ex_use : use_req := xuse [(KSol, 1); (KPP, 2); (KRxn, 1)].
Example ex_save_hyps :
  reacts ex_use = true /\ use_missing ex_use (look_of ex_store) = false
  /\ mem_kind KSol savable_kinds = true /\ used_kind ex_use KSol = true
  /\ mem_kind KGas savable_kinds = true /\ used_kind ex_use KGas = false.
Proof. vm_compute. repeat split. Qed.

(* use_missing_stops: the exchanger 7 does not exist *)
Example ex_missing_hyps :
  reacts (xuse [(KSol, 1); (KExch, 7)]) = true /\ use_missing (xuse [(KSol, 1); (KExch, 7)]) (look_of ex_store) = true.
Proof. vm_compute. split; reflexivity. Qed.

(* use_solution_alone_is_noop *)
Example ex_alone_hyp : reacts (xuse [(KSol, 1)]) = false.
Proof. reflexivity. Qed.

(* runcells_eq_use_save: cell 2 has a solution, pure phases and an exchanger; an oracle that ignores the cell number *)
Example ex_runcells_hyps :
  0 <= 2 /\ present ex_store KSol 2 = true /\ reacts (cell_use ex_store 2) = true
  /\ (forall used k, (fun tag _ u k => x_react tag 0 u k) 3 2 used k = (fun tag _ u k => x_react tag 0 u k) 3 (-1) used k).
Proof.
  split; [discriminate|]. split; [vm_compute; reflexivity|]. split; [vm_compute; reflexivity|].
  intros used k. reflexivity.
Qed.

(* delete_exactly_named: a simulation with a DELETE block that is not stopped *)
Definition ex_del_step : xstep := mk 3 [] None [] [] [COCell 1 8 8] (Some [DOKind KSol [(2, 3)]; DOCell [(8, 8)]]).
Example ex_delete_hyps :
  s_delete ex_del_step = Some [DOKind KSol [(2, 3)]; DOCell [(8, 8)]]
  /\ r_stopped (run_step x_modify x_react x_mix_nums x_mixf (hand_prims Z) ex_del_step ex_store) = false
  /\ named [DOKind KSol [(2, 3)]; DOCell [(8, 8)]] KSol 3 = true
  /\ named [DOKind KSol [(2, 3)]; DOCell [(8, 8)]] KPP 8 = true
  /\ named [DOKind KSol [(2, 3)]; DOCell [(8, 8)]] KPP 2 = false.
Proof. vm_compute. repeat split. Qed.

(* the DUMP inside that simulation still sees what DELETE removes *)
Example ex_dump_before_delete :
  let r := run_step x_modify x_react x_mix_nums x_mixf (hand_prims Z) ex_del_step ex_store in
  look_of (r_dump r) KSol 8 = Some 101 /\ look_of (r_store r) KSol 8 = None /\ look_of (r_store r) KSol 1 = Some 101.
Proof. vm_compute. repeat split. Qed.

(* components_cover: a reactant kind with a stored entry *)
Example ex_components_hyps :
  In KPP reactant_kinds /\ exists e, zfind 2 (ex_store KPP) = Some e /\ In 102 ((fun _ c => [c]) KPP (e_body e)).
Proof. split; [simpl; tauto|]. eexists. split; [vm_compute; reflexivity | simpl; auto]. Qed.
