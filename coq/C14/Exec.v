(** * C14 — executable instance of the store model used by the correspondence runs.

    Contents are integers: a definition carries the identifier the generator gave to its text;
    the oracles ([modify], [react], [mixf]) are injective-in-practice hash combinations, so that two
    entries have the same content identifier iff the model says they have the same content.
    The hand transcription ([hand_prims]) is executed, i.e. the specified behaviour. *)
From Coq Require Import ZArith List Bool FunctionalExtensionality.
From IPV.C14 Require Import Store.
Import ListNotations.
Open Scope Z_scope.

Definition P61 : Z := 2305843009213693951.
Definition hmix (h x : Z) : Z := (h * 1000003 + x + 7) mod P61.
Definition hlist (l : list Z) : Z := fold_left hmix l 17.

Definition x_modify (k : kind) (d c : Z) : Z := hlist [1; kind_idx k; d; c].
Definition x_react (tag cell : Z) (used : list (kind * Z)) (k : kind) : Z :=
  hlist (2 :: tag :: cell :: kind_idx k :: flat_map (fun p => [kind_idx (fst p); snd p]) used).
Definition xmix := (Z * list Z)%type.                 (* recipe identifier, numbers mixed *)
Definition x_mix_nums (m : xmix) : list Z := snd m.
Definition x_mixf (k : kind) (m : xmix) (args : list (Z * option Z)) : Z :=
  hlist (3 :: kind_idx k :: fst m
           :: flat_map (fun p => [fst p; match snd p with Some c => c + 1 | None => 0 end]) args).

Definition xstep := step Z Z xmix.

Definition xuse (l : list (kind * Z)) : use_req :=
  fun k => match find (fun p => kind_eqb (fst p) k) l with Some p => Some (snd p) | None => None end.

Definition mk (tag : Z) (reads : list (read_op Z Z)) (rct : option (list (kind * Z) * save_req)) (cells : list Z)
           (mixes : list (mix_req xmix)) (copies : list copy_opt) (del : option (list del_opt)) : xstep :=
  {| s_tag := tag; s_reads := reads;
     s_react := match rct with Some (u, sv) => Some (xuse u, sv) | None => None end;
     s_cells := cells; s_mixes := mixes; s_copies := copies; s_delete := del |}.

(* Stores are functions [kind -> list]; [saver], [copy_entities] and [delete_entities] return closures that
   look the previous store up again on every call (several times per call: [used_kind], [present]), so an
   un-normalised run costs time exponential in the number of calculations of a history.  [norm_store]
   tabulates a store once (the [let] is evaluated when the function is applied); [x_prims] is the hand
   transcription with every result tabulated, and is equal to it. *)
Definition norm_store (st : store Z) : store Z :=
  let l := map st all_kinds in fun k => nth (Z.to_nat (kind_idx k)) l [].

Lemma norm_store_id (st : store Z) : norm_store st = st.
Proof.
  apply FunctionalExtensionality.functional_extensionality. intro k. destruct k; reflexivity.
Qed.

Definition x_prims : prims Z :=
  {| p_copies := @rxn_copies Z;
     p_saver := fun u res S st => norm_store (saver u res S st);
     p_copy_ents := fun opts st => norm_store (copy_entities (read_copy opts) st);
     p_delete_ents := fun opts st => norm_store (delete_entities (read_delete opts) st) |}.

Lemma x_prims_hand : x_prims = hand_prims Z.
Proof.
  unfold x_prims, hand_prims. f_equal.
  - apply FunctionalExtensionality.functional_extensionality. intro u.
    apply FunctionalExtensionality.functional_extensionality. intro res.
    apply FunctionalExtensionality.functional_extensionality. intro S.
    apply FunctionalExtensionality.functional_extensionality. intro st. apply norm_store_id.
  - apply FunctionalExtensionality.functional_extensionality. intro opts.
    apply FunctionalExtensionality.functional_extensionality. intro st. apply norm_store_id.
  - apply FunctionalExtensionality.functional_extensionality. intro opts.
    apply FunctionalExtensionality.functional_extensionality. intro st. apply norm_store_id.
Qed.

Definition x_trace (steps : list xstep) : list (result Z) :=
  trace x_modify x_react x_mix_nums x_mixf x_prims steps (@empty_store Z).

Lemma x_trace_hand (steps : list xstep) :
  x_trace steps = trace x_modify x_react x_mix_nums x_mixf (hand_prims Z) steps (@empty_store Z).
Proof. unfold x_trace. rewrite x_prims_hand. reflexivity. Qed.

(* flat rendering: kind index, key, stored number, content id *)
Definition show_store (st : store Z) : list Z :=
  flat_map (fun k => flat_map (fun p => [kind_idx k; fst p; e_num (snd p); e_body (snd p)]) (st k)) all_kinds.

Definition show_result (r : result Z) : list (list Z) :=
  [show_store (r_store r); show_store (r_dump r); [if r_stopped r then 1 else 0]].

Definition x_show (steps : list xstep) : list (list (list Z)) := map show_result (x_trace steps).
