(** * C14 — the interpretations of the regenerated tables coincide with the hand transcriptions
    whenever the (boolean, computable) well-formedness predicate [tables_ok] holds. *)
From Coq Require Import ZArith List Bool Lia FunctionalExtensionality.
From IPV.C14 Require Import Store MapFacts.
Import ListNotations.
Open Scope Z_scope.

(** ** boolean predicates on the regenerated data *)
Definition cparam_eqb (a b : cparam) : bool :=
  match a, b with PFirst, PFirst | PSecond, PSecond => true | _, _ => false end.
Definition rparam_eqb (a b : rparam) : bool :=
  match a, b with RN, RN | RNEnd, RNEnd | RLoop, RLoop => true | _, _ => false end.
Definition cmp_eqb (a b : cmp) : bool :=
  match a, b with
  | CLe, CLe | CLt, CLt | CGe, CGe | CGt, CGt | CEq, CEq | CNe, CNe => true
  | _, _ => false
  end.
Definition opt_is {X} (eqb : X -> X -> bool) (x : X) (o : option X) : bool :=
  match o with Some y => eqb x y | None => false end.

Lemma cparam_eqb_eq a b : cparam_eqb a b = true -> a = b.
Proof. destruct a, b; simpl; congruence. Qed.
Lemma rparam_eqb_eq a b : rparam_eqb a b = true -> a = b.
Proof. destruct a, b; simpl; congruence. Qed.
Lemma cmp_eqb_eq a b : cmp_eqb a b = true -> a = b.
Proof. destruct a, b; simpl; congruence. Qed.

Definition copy_shape_ok (sh : copy_shape) : bool :=
  cparam_eqb PFirst (cs_find sh) && cparam_eqb PSecond (cs_dst sh) && cparam_eqb PSecond (cs_refind sh)
  && opt_is cparam_eqb PSecond (cs_set_num sh) && opt_is cparam_eqb PSecond (cs_set_num_end sh).

(* a comparison "l cmp r" that means  x <= y  *)
Definition means_le (c : cmp) (l r x y : rparam) : bool :=
  (cmp_eqb c CLe && rparam_eqb l x && rparam_eqb r y) || (cmp_eqb c CGe && rparam_eqb l y && rparam_eqb r x).

Definition copies_shape_ok (sh : copies_shape) : bool :=
  means_le (rs_guard_cmp sh) (rs_guard_l sh) (rs_guard_r sh) RNEnd RN
  && rparam_eqb RN (rs_find sh)
  && rparam_eqb RN (rs_from sh) && (rs_from_off sh =? 1)
  && means_le (rs_cond_cmp sh) (rs_cond_l sh) (rs_cond_r sh) RLoop RNEnd
  && rparam_eqb RLoop (rs_dst sh)
  && opt_is rparam_eqb RLoop (rs_set_num sh) && opt_is rparam_eqb RLoop (rs_set_num_end sh).

Definition del_row_diag (r : del_row) : bool :=
  kind_eqb (dr_size r) (dr_cond r) && kind_eqb (dr_clear r) (dr_cond r) && kind_eqb (dr_begin r) (dr_cond r)
  && kind_eqb (dr_end r) (dr_cond r) && kind_eqb (dr_erase r) (dr_cond r).

Definition del_count (k : kind) (tbl : list del_row) : nat :=
  length (filter (fun r => kind_eqb (dr_cond r) k) tbl).

Definition del_table_ok (tbl : list del_row) : bool :=
  forallb del_row_diag tbl && forallb (fun k => Nat.eqb (del_count k tbl) 1) all_kinds.

Definition copy_row_diag (r : copy_row) : bool :=
  kind_eqb (cr_find_map r) (cr_count r) && kind_eqb (cr_find_src r) (cr_count r) && kind_eqb (cr_start r) (cr_count r)
  && kind_eqb (cr_end r) (cr_count r) && kind_eqb (cr_skip r) (cr_count r) && kind_eqb (cr_copy_map r) (cr_count r)
  && kind_eqb (cr_copy_src r) (cr_count r) && kind_eqb (cr_clear r) (cr_count r).

Definition copy_count (k : kind) (tbl : list copy_row) : nat :=
  length (filter (fun r => kind_eqb (cr_count r) k) tbl).

Definition copy_table_ok (tbl : list copy_row) : bool :=
  forallb copy_row_diag tbl && forallb (fun k => Nat.eqb (copy_count k tbl) 1) all_kinds.

Definition kinds_eqb (a b : list kind) : bool :=
  Nat.eqb (length a) (length b) && forallb (fun p => kind_eqb (fst p) (snd p)) (combine a b).

Definition kind_count (k : kind) (l : list kind) : nat := length (filter (kind_eqb k) l).

Definition copy_kw_ok (kw : list (kind * list kind)) : bool :=
  forallb (fun k => kinds_eqb (kw_targets kw k) [k]) all_kinds.

Definition copy_cell_ok (cell : list kind) : bool :=
  forallb (fun k => Nat.eqb (kind_count k cell) 1) all_kinds.

Definition components_ok (ks : list kind) : bool :=
  forallb (fun k => mem_kind k ks) reactant_kinds.

Definition save_row_diag (r : save_row) : bool :=
  kind_eqb (sv_n r) (sv_flag r) && kind_eqb (sv_fn r) (sv_flag r) && kind_eqb (sv_map r) (sv_flag r)
  && kind_eqb (sv_from r) (sv_flag r) && kind_eqb (sv_end r) (sv_flag r).

Definition save_count (k : kind) (tbl : list save_row) : nat :=
  length (filter (fun r => kind_eqb (sv_flag r) k) tbl).

Definition saver_table_ok (tbl : list save_row) : bool :=
  forallb save_row_diag tbl
  && forallb (fun r => mem_kind (sv_flag r) savable_kinds) tbl
  && forallb (fun k => Nat.eqb (save_count k tbl) 1) savable_kinds.

(* do_mixes: every Rxn_mix(Rxn_<X>_mix_map, Rxn_<Y>_map) has X = Y, for the 7 kinds that can be mixed *)
Definition mixable_kinds : list kind := [KSol; KExch; KGas; KKin; KPP; KSS; KSurf].
Definition mixes_ok (l : list (kind * kind)) : bool :=
  forallb (fun p => kind_eqb (fst p) (snd p)) l
  && forallb (fun k => Nat.eqb (length (filter (fun p => kind_eqb (fst p) k) l)) 1) mixable_kinds.

Definition tables_ok (T : gen_tables) : bool :=
  copy_shape_ok (g_copy_shape T) && copies_shape_ok (g_copies_shape T)
  && del_table_ok (g_delete T) && g_delete_resets T
  && copy_table_ok (g_copy T) && g_copy_resets T
  && copy_kw_ok (g_copy_kw T) && copy_cell_ok (g_copy_cell T)
  && components_ok (g_components T)
  && saver_table_ok (g_saver T) && mixes_ok (g_mixes T).

(** ** soundness of the predicates *)
Section TieProofs.
  Context {C : Type}.
  Notation emap := (emap C).
  Notation store := (store C).

  Lemma supd_same (st : store) k m : supd st k m k = m.
  Proof. unfold supd. rewrite kind_eqb_refl. reflexivity. Qed.

  Lemma supd_other (st : store) k k' m : k' <> k -> supd st k m k' = st k'.
  Proof. intro N. unfold supd. apply kind_eqb_neq in N. rewrite N. reflexivity. Qed.

  Lemma supd_supd (st : store) k a b : supd (supd st k a) k b = supd st k b.
  Proof. apply functional_extensionality. intro k'. unfold supd. destruct (kind_eqb k' k); reflexivity. Qed.

  Lemma supd_id (st : store) k : supd st k (st k) = st.
  Proof.
    apply functional_extensionality. intro k'. unfold supd.
    destruct (kind_eqb k' k) eqn:E; auto. apply kind_eqb_eq in E. subst. reflexivity.
  Qed.

  (** *** Rxn_copy *)
  Lemma rxn_copy_g_ok sh : copy_shape_ok sh = true -> forall (m : emap) i j, rxn_copy_g sh m i j = rxn_copy m i j.
  Proof.
    destruct sh as [f d r sn se]. unfold copy_shape_ok. simpl. intros H m i j.
    destruct f, d, r; simpl in H; try discriminate H.
    destruct sn as [[]|]; simpl in H; try discriminate H.
    unfold rxn_copy_g, rxn_copy. cbn [csel cs_find cs_dst cs_refind cs_set_num].
    destruct (zfind i m) as [e|]; auto.
    rewrite zfind_zins_eq. cbn [e_body]. apply zins_zins.
  Qed.

  (** *** Rxn_copies *)
  Lemma means_le_eval c l r x y : means_le c l r x y = true ->
      forall n n_end j, cmp_eval c (rsel l n n_end j) (rsel r n n_end j) = (rsel x n n_end j <=? rsel y n n_end j).
  Proof.
    unfold means_le. intros H n n_end j.
    apply orb_true_iff in H. destruct H as [H|H];
      repeat (apply andb_true_iff in H; destruct H as [H ?]);
      apply cmp_eqb_eq in H; apply rparam_eqb_eq in H0; apply rparam_eqb_eq in H1; subst; simpl.
    - reflexivity.
    - apply Z.geb_leb.
  Qed.

  Lemma copies_loop_ok sh n n_end :
      (forall j, cmp_eval (rs_cond_cmp sh) (rsel (rs_cond_l sh) n n_end j) (rsel (rs_cond_r sh) n n_end j) = (j <=? n_end)) ->
      rs_dst sh = RLoop -> rs_set_num sh = Some RLoop ->
      forall fuel j (e : ent C) (m : emap), fuel = Z.to_nat (n_end - j + 1) ->
        copies_loop sh fuel n n_end j e m
        = fold_left (fun m j => zins j (mkEnt j (e_body e)) m) (zrange j n_end) m.
  Proof.
    intros Hc Hd Hs. induction fuel as [|f IH]; intros j e m Hf.
    - simpl. rewrite zrange_nil by lia. reflexivity.
    - simpl. rewrite Hc. assert (j <= n_end) as Hle by lia.
      apply Z.leb_le in Hle as Hle'. rewrite Hle'.
      rewrite Hd, Hs. simpl. rewrite zrange_cons by lia. simpl.
      rewrite IH by lia. simpl. reflexivity.
  Qed.

  Lemma rxn_copies_g_ok sh : copies_shape_ok sh = true ->
      forall (m : emap) n n_end, rxn_copies_g sh m n n_end = rxn_copies m n n_end.
  Proof.
    unfold copies_shape_ok. intros H m n n_end.
    repeat (apply andb_true_iff in H; destruct H as [H ?]).
    apply rparam_eqb_eq in H6. apply rparam_eqb_eq in H5. apply Z.eqb_eq in H4. apply rparam_eqb_eq in H2.
    destruct (rs_set_num sh) as [sn|] eqn:Esn; [|discriminate H1].
    assert (sn = RLoop) by (destruct sn; simpl in H1; congruence). subst sn.
    unfold rxn_copies_g, rxn_copies.
    rewrite (means_le_eval _ _ _ _ _ H n n_end 0). simpl.
    destruct (n_end <=? n) eqn:Eg; auto.
    rewrite <- H6. simpl.
    destruct (zfind n m) as [e|]; auto.
    rewrite <- H5, H4. simpl.
    apply copies_loop_ok; auto.
    intro j. rewrite (means_le_eval _ _ _ _ _ H3 n n_end j). reflexivity.
  Qed.

  (** *** delete_entities *)
  Lemma del_row_diag_eq r : del_row_diag r = true ->
      dr_size r = dr_cond r /\ dr_clear r = dr_cond r /\ dr_begin r = dr_cond r /\ dr_end r = dr_cond r /\ dr_erase r = dr_cond r.
  Proof.
    unfold del_row_diag. intro H.
    repeat (apply andb_true_iff in H; destruct H as [H ?]).
    repeat split; apply kind_eqb_eq; assumption.
  Qed.

  Lemma delete_row_g_diag (q : del_req) (st : store) r : del_row_diag r = true ->
      delete_row_g q st r = supd st (dr_cond r) (delete_map (q (dr_cond r)) (st (dr_cond r))).
  Proof.
    intro H. destruct (del_row_diag_eq r H) as (E1 & E2 & E3 & E4 & E5).
    unfold delete_row_g, delete_map. rewrite E1, E2, E3, E4, E5. rewrite kind_eqb_refl.
    destruct (di_defined (q (dr_cond r))).
    - destruct (is_nil (di_nums (q (dr_cond r)))); reflexivity.
    - symmetry. apply supd_id.
  Qed.

  Lemma delete_fold_pointwise (q : del_req) tbl : forallb del_row_diag tbl = true ->
      forall (st : store) k,
        fold_left (delete_row_g q) tbl st k
        = fold_left (fun m r => if kind_eqb (dr_cond r) k then delete_map (q k) m else m) tbl (st k).
  Proof.
    induction tbl as [|r tbl IH]; intros H st k; simpl; auto.
    simpl in H. apply andb_true_iff in H. destruct H as [Hr Ht].
    rewrite IH by assumption. rewrite delete_row_g_diag by assumption.
    f_equal. unfold supd. rewrite kind_eqb_sym.
    destruct (kind_eqb (dr_cond r) k) eqn:E; auto.
    apply kind_eqb_eq in E. subst k. reflexivity.
  Qed.

  Lemma fold_cond_count {R} (p : R -> bool) (f : emap -> emap) (tbl : list R) : forall m,
      (length (filter p tbl) = 0%nat -> fold_left (fun m r => if p r then f m else m) tbl m = m)
      /\ (length (filter p tbl) = 1%nat -> fold_left (fun m r => if p r then f m else m) tbl m = f m).
  Proof.
    induction tbl as [|r tbl IH]; intro m; simpl.
    - split; intro H; [reflexivity | discriminate].
    - destruct (p r) eqn:E; simpl.
      + split; intro H; [discriminate|]. apply (IH (f m)). lia.
      + apply IH.
  Qed.

  Lemma delete_entities_g_ok tbl : del_table_ok tbl = true ->
      forall (q : del_req) (st : store), delete_entities_g tbl q st = delete_entities q st.
  Proof.
    unfold del_table_ok. intros H q st. apply andb_true_iff in H. destruct H as [Hd Hc].
    apply functional_extensionality. intro k.
    unfold delete_entities_g, delete_entities.
    rewrite delete_fold_pointwise by assumption.
    rewrite forallb_forall in Hc. specialize (Hc k (all_kinds_complete k)).
    apply Nat.eqb_eq in Hc. unfold del_count in Hc.
    apply (fold_cond_count (fun r => kind_eqb (dr_cond r) k) (delete_map (q k)) tbl (st k)). exact Hc.
  Qed.

  (** *** copy_entities *)
  Lemma copy_row_diag_eq r : copy_row_diag r = true ->
      cr_find_map r = cr_count r /\ cr_find_src r = cr_count r /\ cr_start r = cr_count r /\ cr_end r = cr_count r
      /\ cr_skip r = cr_count r /\ cr_copy_map r = cr_count r /\ cr_copy_src r = cr_count r.
  Proof.
    unfold copy_row_diag. intro H.
    repeat (apply andb_true_iff in H; destruct H as [H ?]).
    repeat split; apply kind_eqb_eq; assumption.
  Qed.

  Lemma inner_copy_fold kk (g : emap -> Z -> emap) (skip : Z -> bool) (l : list Z) : forall (st : store),
      fold_left (fun st i => if skip i then st else supd st kk (g (st kk) i)) l st
      = supd st kk (fold_left (fun m i => if skip i then m else g m i) l (st kk)).
  Proof.
    induction l as [|i l IH]; intro st; simpl.
    - symmetry. apply supd_id.
    - rewrite IH. destruct (skip i).
      + reflexivity.
      + rewrite supd_same. rewrite supd_supd. reflexivity.
  Qed.

  Lemma copy_row_g_diag (q : copy_req) (st : store) r : copy_row_diag r = true ->
      copy_row_g (@rxn_copy C) q st r = supd st (cr_count r) (fold_left (@copy1 C) (q (cr_count r)) (st (cr_count r))).
  Proof.
    intro H. destruct (copy_row_diag_eq r H) as (E1 & E2 & E3 & E4 & E5 & E6 & E7).
    unfold copy_row_g. rewrite E1, E2, E3, E4, E5, E6, E7.
    set (kk := cr_count r). unfold nth_req.
    pose (F := fun (st : store) (t : Z * Z * Z) =>
                  match zfind (t_src t) (st kk) with
                  | Some _ =>
                      fold_left (fun st i => if i =? t_src t then st else supd st kk (rxn_copy (st kk) (t_src t) i))
                                (copy_targets (t_lo t) (t_hi t)) st
                  | None => st
                  end).
    change (fold_left (fun a j => F a (nth j (q kk) (0, 0, 0))) (seq 0 (length (q kk))) st
            = supd st kk (fold_left (@copy1 C) (q kk) (st kk))).
    rewrite fold_left_nth0. unfold F. clear F.
    generalize (q kk) as l. intro l. revert st.
    induction l as [|t l IH]; intro st; simpl.
    - symmetry. apply supd_id.
    - rewrite IH. clear IH.
      assert (match zfind (t_src t) (st kk) with
              | Some _ =>
                  fold_left (fun st i => if i =? t_src t then st else supd st kk (rxn_copy (st kk) (t_src t) i))
                            (copy_targets (t_lo t) (t_hi t)) st
              | None => st
              end = supd st kk (copy1 (st kk) t)) as Hstep.
      { unfold copy1. destruct (zfind (t_src t) (st kk)).
        - rewrite (inner_copy_fold kk (fun m i => rxn_copy m (t_src t) i) (fun i => i =? t_src t)). reflexivity.
        - symmetry. apply supd_id. }
      rewrite Hstep. rewrite supd_same. rewrite supd_supd. reflexivity.
  Qed.

  Lemma copy_fold_pointwise (q : copy_req) tbl : forallb copy_row_diag tbl = true ->
      forall (st : store) k,
        fold_left (copy_row_g (@rxn_copy C) q) tbl st k
        = fold_left (fun m r => if kind_eqb (cr_count r) k then fold_left (@copy1 C) (q k) m else m) tbl (st k).
  Proof.
    induction tbl as [|r tbl IH]; intros H st k; simpl; auto.
    simpl in H. apply andb_true_iff in H. destruct H as [Hr Ht].
    rewrite IH by assumption. rewrite copy_row_g_diag by assumption.
    f_equal. unfold supd. rewrite kind_eqb_sym.
    destruct (kind_eqb (cr_count r) k) eqn:E; auto.
    apply kind_eqb_eq in E. subst k. reflexivity.
  Qed.

  Lemma copy_entities_g_ok tbl : copy_table_ok tbl = true ->
      forall (q : copy_req) (st : store), copy_entities_g (@rxn_copy C) tbl q st = copy_entities q st.
  Proof.
    unfold copy_table_ok. intros H q st. apply andb_true_iff in H. destruct H as [Hd Hc].
    apply functional_extensionality. intro k.
    unfold copy_entities_g, copy_entities.
    rewrite copy_fold_pointwise by assumption.
    rewrite forallb_forall in Hc. specialize (Hc k (all_kinds_complete k)).
    apply Nat.eqb_eq in Hc. unfold copy_count in Hc.
    apply (fold_cond_count (fun r => kind_eqb (cr_count r) k) (fold_left (@copy1 C) (q k)) tbl (st k)). exact Hc.
  Qed.

  (** *** read_copy *)
  Lemma copier_add_fold t ks : forall (q : copy_req) k,
      fold_left (fun q k' => copier_add q k' t) ks q k = q k ++ repeat t (kind_count k ks).
  Proof.
    induction ks as [|x ks IH]; intros q k; simpl.
    - rewrite app_nil_r. reflexivity.
    - rewrite IH. unfold copier_add. unfold kind_count. simpl.
      destruct (kind_eqb k x); simpl.
      + rewrite <- app_assoc. reflexivity.
      + reflexivity.
  Qed.

  Lemma kinds_eqb_single l k : kinds_eqb l [k] = true -> l = [k].
  Proof.
    unfold kinds_eqb. intro H. apply andb_true_iff in H. destruct H as [Hl Hf].
    destruct l as [|a [|b l]]; simpl in Hl; try discriminate.
    simpl in Hf. rewrite andb_true_r in Hf. apply kind_eqb_eq in Hf. subst. reflexivity.
  Qed.

  Lemma read_copy_g_ok kw cell : copy_kw_ok kw = true -> copy_cell_ok cell = true ->
      forall opts, read_copy_g kw cell opts = read_copy opts.
  Proof.
    unfold copy_kw_ok, copy_cell_ok. intros Hk Hc opts.
    rewrite forallb_forall in Hk. rewrite forallb_forall in Hc.
    unfold read_copy_g, read_copy.
    assert (forall (q : copy_req),
               fold_left (fun q o =>
                            match o with
                            | COKind k s l h => fold_left (fun q k' => copier_add q k' (s, l, h)) (kw_targets kw k) q
                            | COCell s l h => fold_left (fun q k' => copier_add q k' (s, l, h)) cell q
                            end) opts q
               = fun k => q k ++ flat_map (copy_opt_for k) opts) as G.
    { induction opts as [|o opts IH]; intro q; simpl.
      - apply functional_extensionality. intro k. rewrite app_nil_r. reflexivity.
      - rewrite IH. apply functional_extensionality. intro k.
        destruct o as [k' s l h | s l h]; rewrite copier_add_fold; rewrite <- app_assoc; f_equal.
        + specialize (Hk k' (all_kinds_complete k')). apply kinds_eqb_single in Hk. rewrite Hk.
          unfold kind_count. simpl. destruct (kind_eqb k k'); reflexivity.
        + specialize (Hc k (all_kinds_complete k)). apply Nat.eqb_eq in Hc. rewrite Hc. reflexivity. }
    rewrite G. apply functional_extensionality. intro k. reflexivity.
  Qed.

  (** *** saver *)
  Lemma loop_copy_eq (m : emap) n e :
      fold_left (fun m i => rxn_copy m n i) (zrange (n + 1) e) m = rxn_copies m n e.
  Proof.
    unfold rxn_copies. destruct (e <=? n) eqn:Eg.
    - apply Z.leb_le in Eg. rewrite zrange_nil by lia. reflexivity.
    - assert (forall i, In i (zrange (n + 1) e) -> i <> n) as Hne.
      { intros i Hi. apply in_zrange in Hi. lia. }
      revert Hne. generalize (zrange (n + 1) e) as l. intro l.
      destruct (zfind n m) as [e0|] eqn:Ef.
      + revert m Ef. induction l as [|x l IH]; intros m Ef Hne; simpl; auto.
        assert (x <> n) as Hx by (apply Hne; left; reflexivity).
        unfold rxn_copy at 2. rewrite Ef.
        apply IH.
        * rewrite zfind_zins_neq by congruence. exact Ef.
        * intros i Hi. apply Hne. right. exact Hi.
      + revert m Ef. induction l as [|x l IH]; intros m Ef Hne; simpl; auto.
        unfold rxn_copy at 2. rewrite Ef. apply IH; auto.
        intros i Hi. apply Hne. right. exact Hi.
  Qed.

  Lemma save_row_diag_eq r : save_row_diag r = true ->
      sv_n r = sv_flag r /\ sv_fn r = sv_flag r /\ sv_map r = sv_flag r /\ sv_from r = sv_flag r /\ sv_end r = sv_flag r.
  Proof.
    unfold save_row_diag. intro H.
    repeat (apply andb_true_iff in H; destruct H as [H ?]).
    repeat split; apply kind_eqb_eq; assumption.
  Qed.

  Lemma saver_row_g_diag (u : use_req) (res : kind -> C) (S : save_struct) (st : store) r :
      save_row_diag r = true ->
      saver_row_g (@rxn_copy C) (@rxn_copies C) u res S st r
      = supd st (sv_flag r) (saver_map (used_kind u (sv_flag r)) (res (sv_flag r)) (S (sv_flag r)) (st (sv_flag r))).
  Proof.
    intro H. destruct (save_row_diag_eq r H) as (E1 & E2 & E3 & E4 & E5).
    unfold saver_row_g, saver_map. rewrite E1, E2, E3, E4, E5.
    set (kk := sv_flag r).
    destruct (sa_flag (S kk)); [|symmetry; apply supd_id].
    destruct (used_kind u kk).
    - rewrite supd_same. destruct (sv_loop r).
      + rewrite loop_copy_eq. apply supd_supd.
      + apply supd_supd.
    - destruct (sv_loop r).
      + rewrite loop_copy_eq. reflexivity.
      + reflexivity.
  Qed.

  Lemma saver_fold_pointwise (u : use_req) (res : kind -> C) (S : save_struct) tbl :
      forallb save_row_diag tbl = true ->
      forall (st : store) k,
        fold_left (saver_row_g (@rxn_copy C) (@rxn_copies C) u res S) tbl st k
        = fold_left (fun m r => if kind_eqb (sv_flag r) k then saver_map (used_kind u k) (res k) (S k) m else m) tbl (st k).
  Proof.
    induction tbl as [|r tbl IH]; intros H st k; simpl; auto.
    simpl in H. apply andb_true_iff in H. destruct H as [Hr Ht].
    rewrite IH by assumption. rewrite saver_row_g_diag by assumption.
    f_equal. unfold supd. rewrite kind_eqb_sym.
    destruct (kind_eqb (sv_flag r) k) eqn:E; auto.
    apply kind_eqb_eq in E. subst k. reflexivity.
  Qed.

  Lemma save_count_zero k tbl :
      forallb (fun r => mem_kind (sv_flag r) savable_kinds) tbl = true -> mem_kind k savable_kinds = false ->
      save_count k tbl = 0%nat.
  Proof.
    unfold save_count. induction tbl as [|r tbl IH]; intros H Hk; [reflexivity|].
    cbn [forallb] in H. apply andb_true_iff in H. destruct H as [Hr Ht].
    cbn [filter]. destruct (kind_eqb (sv_flag r) k) eqn:E.
    - apply kind_eqb_eq in E. rewrite E in Hr. rewrite Hk in Hr. discriminate Hr.
    - apply IH; assumption.
  Qed.

  Lemma saver_g_ok tbl : saver_table_ok tbl = true ->
      forall (u : use_req) (res : kind -> C) (S : save_struct) (st : store),
        saver_g (@rxn_copy C) (@rxn_copies C) tbl u res S st = saver u res S st.
  Proof.
    unfold saver_table_ok. intros H u res S st.
    apply andb_true_iff in H. destruct H as [H Hc]. apply andb_true_iff in H. destruct H as [Hd Hs].
    apply functional_extensionality. intro k.
    unfold saver_g, saver. rewrite saver_fold_pointwise by assumption.
    destruct (mem_kind k savable_kinds) eqn:Ek.
    - rewrite forallb_forall in Hc.
      assert (In k savable_kinds) as Hin.
      { unfold mem_kind in Ek. apply existsb_exists in Ek. destruct Ek as [x [Hx Ex]]. apply kind_eqb_eq in Ex. subst. exact Hx. }
      specialize (Hc k Hin). apply Nat.eqb_eq in Hc. unfold save_count in Hc.
      apply (fold_cond_count (fun r => kind_eqb (sv_flag r) k) (saver_map (used_kind u k) (res k) (S k)) tbl (st k)). exact Hc.
    - pose proof (save_count_zero k tbl Hs Ek) as Hz. unfold save_count in Hz.
      apply (fold_cond_count (fun r => kind_eqb (sv_flag r) k) (saver_map (used_kind u k) (res k) (S k)) tbl (st k)). exact Hz.
  Qed.

  (** *** the two instantiations of the pipeline coincide *)
  Variable D : Type.
  Variable modify : kind -> D -> C -> C.
  Variable react : Z -> Z -> list (kind * C) -> kind -> C.
  Variable M : Type.
  Variable mix_nums : M -> list Z.
  Variable mixf : kind -> M -> list (Z * option C) -> C.

  Theorem gen_prims_eq_hand (T : gen_tables) : tables_ok T = true -> gen_prims C T = hand_prims C.
  Proof.
    unfold tables_ok. intro H.
    do 10 (apply andb_true_iff in H; destruct H as [H ?]).
    assert (rxn_copy_g (g_copy_shape T) = @rxn_copy C) as Hcp.
    { apply functional_extensionality. intro m. apply functional_extensionality. intro i.
      apply functional_extensionality. intro j. apply rxn_copy_g_ok. assumption. }
    assert (rxn_copies_g (g_copies_shape T) = @rxn_copies C) as Hcps.
    { apply functional_extensionality. intro m. apply functional_extensionality. intro n.
      apply functional_extensionality. intro n_end. apply rxn_copies_g_ok. assumption. }
    unfold gen_prims, hand_prims. f_equal.
    - exact Hcps.
    - rewrite Hcp, Hcps.
      apply functional_extensionality. intro u. apply functional_extensionality. intro res.
      apply functional_extensionality. intro S. apply functional_extensionality. intro st.
      apply saver_g_ok. assumption.
    - apply functional_extensionality. intro opts. apply functional_extensionality. intro st.
      rewrite Hcp. rewrite read_copy_g_ok by assumption. apply copy_entities_g_ok. assumption.
    - apply functional_extensionality. intro opts. apply functional_extensionality. intro st.
      apply delete_entities_g_ok. assumption.
  Qed.

  Corollary run_step_gen_eq_hand (T : gen_tables) : tables_ok T = true ->
      forall stp st, run_step modify react mix_nums mixf (gen_prims C T) stp st
                     = run_step modify react mix_nums mixf (hand_prims C) stp st.
  Proof. intros H stp st. rewrite (gen_prims_eq_hand T H). reflexivity. Qed.
End TieProofs.
