(** * C14 — the tables regenerated from the current sources satisfy [tables_ok] (T-gen obligation).
    Fails to compile when the shape of Rxn_copy / Rxn_copies / delete_entities / copy_entities /
    read_copy / list_components / saver / do_mixes in /repo no longer matches the model. *)
From Coq Require Import ZArith List Bool.
From IPV.C14 Require Import Store Tie.
From IPV.Gen Require Import Gen_C14.

(* each conjunct separately, so that a failure names the function concerned *)
Lemma rxn_copy_shape_ok : copy_shape_ok (g_copy_shape tables) = true.
Proof. vm_compute. reflexivity. Qed.
Lemma rxn_copies_shape_ok : copies_shape_ok (g_copies_shape tables) = true.
Proof. vm_compute. reflexivity. Qed.
Lemma delete_pairs_diagonal : del_table_ok (g_delete tables) = true.
Proof. vm_compute. reflexivity. Qed.
Lemma delete_request_reset : g_delete_resets tables = true.
Proof. vm_compute. reflexivity. Qed.
Lemma copy_pairs_diagonal : copy_table_ok (g_copy tables) = true.
Proof. vm_compute. reflexivity. Qed.
Lemma copy_request_reset : g_copy_resets tables = true.
Proof. vm_compute. reflexivity. Qed.
Lemma read_copy_keywords_diagonal : copy_kw_ok (g_copy_kw tables) = true.
Proof. vm_compute. reflexivity. Qed.
Lemma read_copy_cell_all_kinds : copy_cell_ok (g_copy_cell tables) = true.
Proof. vm_compute. reflexivity. Qed.
Lemma list_components_all_kinds : components_ok (g_components tables) = true.
Proof. vm_compute. reflexivity. Qed.

Lemma saver_pairs_diagonal : saver_table_ok (g_saver tables) = true.
Proof. vm_compute. reflexivity. Qed.
Lemma do_mixes_pairs_diagonal : mixes_ok (g_mixes tables) = true.
Proof. vm_compute. reflexivity. Qed.

Lemma tables_ok_now : tables_ok tables = true.
Proof.
  unfold tables_ok.
  rewrite rxn_copy_shape_ok, rxn_copies_shape_ok, delete_pairs_diagonal, delete_request_reset,
    copy_pairs_diagonal, copy_request_reset, read_copy_keywords_diagonal, read_copy_cell_all_kinds,
    list_components_all_kinds, saver_pairs_diagonal, do_mixes_pairs_diagonal.
  reflexivity.
Qed.
