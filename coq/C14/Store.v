(** * C14 — numbered reactants as a keyed store: executable model.

    Models (file:function of /repo/src/phreeqcpp unless noted)
      - Phreeqc.h: Utilities::Rxn_find, Rxn_copy, Rxn_copies, Rxn_read_raw (store + range copies),
        Rxn_read_modify, Rxn_mix
      - StorageBinList.cpp: StorageBinListItem::Augment (both overloads), StorageBinList::Read,
        SetAll, TransferAll
      - ReadClass.cxx: delete_entities, run_as_cells (selection of the reactants of a cell; the
        chemistry itself is an oracle)
      - mainsubs.cpp: copy_entities, saver (range part), do_mixes; read.cpp: read_copy
      - kinetics.cpp: set_advection (which reactants numbered n are used / saved by RUN_CELLS)
      - Phreeqc.cpp: list_components (which maps feed the component list)
      - IPhreeqc.cpp: do_run (phase order read -> react -> run_cells -> mixes -> copy -> dump -> delete)

    The code-shaped parts that are regenerated from the sources on every run (tables of
    (request, map) pairs, loop shapes of Rxn_copy / Rxn_copies) are *parameters* of the generic
    functions [*_g] below; [coq/Gen/Gen_C14.v] supplies the current values. *)
From Coq Require Import ZArith List Bool Lia.
Import ListNotations.
Open Scope Z_scope.
Set Implicit Arguments.

(** ** Entity kinds: the eleven Rxn_*_map members of class Phreeqc *)
Inductive kind :=
  KSol | KPP | KExch | KSurf | KSS | KGas | KKin | KMix | KRxn | KTemp | KPres.

Definition kind_idx (k : kind) : Z :=
  match k with
  | KSol => 0 | KPP => 1 | KExch => 2 | KSurf => 3 | KSS => 4 | KGas => 5
  | KKin => 6 | KMix => 7 | KRxn => 8 | KTemp => 9 | KPres => 10
  end.

Definition kind_eqb (a b : kind) : bool := kind_idx a =? kind_idx b.

Definition all_kinds : list kind :=
  [KSol; KPP; KExch; KSurf; KSS; KGas; KKin; KMix; KRxn; KTemp; KPres].

(** kinds that carry chemical elements (the ones list_components has to look at) *)
Definition reactant_kinds : list kind := [KSol; KRxn; KPP; KExch; KSurf; KGas; KSS; KKin].

(** kinds written by SAVE / saver() (kinetics is handled separately by the code and is not modelled) *)
Definition savable_kinds : list kind := [KSol; KPP; KExch; KSurf; KGas; KSS].

Definition mem_kind (k : kind) (l : list kind) : bool := existsb (kind_eqb k) l.

(** ** Integer-keyed association lists (std::map<int,T>) *)
Section ZMap.
  Variable A : Type.
  Definition zmap := list (Z * A).

  Fixpoint zfind (i : Z) (m : zmap) : option A :=
    match m with
    | [] => None
    | (j, a) :: r => if j =? i then Some a else zfind i r
    end.

  Fixpoint zdel (i : Z) (m : zmap) : zmap :=
    match m with
    | [] => []
    | (j, a) :: r => if j =? i then zdel i r else (j, a) :: zdel i r
    end.

  Definition zins (i : Z) (a : A) (m : zmap) : zmap := (i, a) :: zdel i m.
End ZMap.
Arguments zfind {A}. Arguments zdel {A}. Arguments zins {A}.

(** [lo; lo+1; ...; hi] (empty when hi < lo): the C loop [for (i = lo; i <= hi; i++)] *)
Definition zrange (lo hi : Z) : list Z :=
  map (fun d => lo + Z.of_nat d) (seq 0 (Z.to_nat (hi - lo + 1))).

Definition zmem (i : Z) (l : list Z) : bool := existsb (Z.eqb i) l.

(** ** Shapes regenerated from the templates Rxn_copy / Rxn_copies (T-gen) *)

(** which of the two int parameters (i, j) of Rxn_copy an expression names *)
Inductive cparam := PFirst | PSecond.
Definition csel (p : cparam) (i j : Z) : Z := match p with PFirst => i | PSecond => j end.

Record copy_shape := {
  cs_find : cparam;          (* b.find(<param>)                       expected: i *)
  cs_dst : cparam;           (* b[<param>] = it->second               expected: j *)
  cs_refind : cparam;        (* it = b.find(<param>) after the store  expected: j *)
  cs_set_num : option cparam;     (* it->second.Set_n_user(<param>)     expected: Some j *)
  cs_set_num_end : option cparam  (* it->second.Set_n_user_end(<param>) expected: Some j *)
}.

Inductive cmp := CLe | CLt | CGe | CGt | CEq | CNe.
Definition cmp_eval (c : cmp) (a b : Z) : bool :=
  match c with
  | CLe => a <=? b | CLt => a <? b | CGe => a >=? b | CGt => a >? b
  | CEq => a =? b | CNe => negb (a =? b)
  end.

(** operands of Rxn_copies expressions: n_user, n_user_end, the loop variable *)
Inductive rparam := RN | RNEnd | RLoop.

Record copies_shape := {
  rs_guard_cmp : cmp; rs_guard_l : rparam; rs_guard_r : rparam;   (* if (l cmp r) return;    expected: n_user_end <= n_user *)
  rs_find : rparam;                                               (* it = b.find(<param>)    expected: n_user *)
  rs_from : rparam; rs_from_off : Z;                              (* j = <param> + off        expected: n_user + 1 *)
  rs_cond_cmp : cmp; rs_cond_l : rparam; rs_cond_r : rparam;      (* loop condition           expected: j <= n_user_end *)
  rs_dst : rparam;                                                (* b[<param>] = it->second  expected: j *)
  rs_set_num : option rparam; rs_set_num_end : option rparam      (* expected: Some j *)
}.

(** ** Everything that is regenerated from the sources, in one record *)
Record del_row := {
  dr_cond : kind;      (* Get_<X>().Get_defined()                     *)
  dr_size : kind;      (* Get_<X>().Get_numbers().size() == 0         *)
  dr_clear : kind;     (* Rxn_<X>_map.clear()                         *)
  dr_begin : kind;     (* it = Get_<X>().Get_numbers().begin()        *)
  dr_end : kind;       (* it != Get_<X>().Get_numbers().end()         *)
  dr_erase : kind      (* Rxn_<X>_map.erase( *it )                    *)
}.

(* one "for (j...) { if (Rxn_find(MAP, C.n_user[j]) != NULL) for (i = C.start[j]; i <= C.end[j]; i++)
   { if (i == C.n_user[j]) continue; Rxn_copy(MAP, C.n_user[j], i); } } copier_clear(&C)" block *)
Record copy_row := {
  cr_count : kind;      (* copy_<X>.n_user.size() bounds j *)
  cr_find_map : kind;   (* Rxn_find(Rxn_<X>_map, ...) *)
  cr_find_src : kind;   (* ... copy_<X>.n_user[j]) *)
  cr_start : kind;      (* i = copy_<X>.start[j] *)
  cr_end : kind;        (* i <= copy_<X>.end[j] *)
  cr_skip : kind;       (* i == copy_<X>.n_user[j] is skipped *)
  cr_copy_map : kind;   (* Rxn_copy(Rxn_<X>_map, ...) *)
  cr_copy_src : kind;   (* ... copy_<X>.n_user[j], (int) i) *)
  cr_clear : kind       (* copier_clear(&copy_<X>) *)
}.

(* one "if (save.X == TRUE) { n = save.n_F_user; xG_save(n); <copies on Rxn_M_map from A to save.n_B_user_end> }"
   block of saver() *)
Record save_row := {
  sv_flag : kind;       (* save.<X> == TRUE *)
  sv_n : kind;          (* n = save.n_<X>_user *)
  sv_fn : kind;         (* x<X>_save(n): writes the result into Rxn_<X>_map[n] *)
  sv_map : kind;        (* Rxn_copy / Rxn_copies on Rxn_<X>_map *)
  sv_from : kind;       (* copies start after save.n_<X>_user (or after n: then equal to sv_n) *)
  sv_end : kind;        (* ... and run to save.n_<X>_user_end *)
  sv_loop : bool        (* true: for (i = from + 1; i <= end; i++) Rxn_copy(map, n, i); false: Rxn_copies(map, from, end) *)
}.

Record gen_tables := {
  g_copy_shape : copy_shape;               (* Phreeqc.h: Utilities::Rxn_copy *)
  g_copies_shape : copies_shape;           (* Phreeqc.h: Utilities::Rxn_copies *)
  g_delete : list del_row;                 (* ReadClass.cxx: delete_entities, one row per block *)
  g_delete_resets : bool;                  (* ... which ends with delete_info.SetAll(false) *)
  g_copy : list copy_row;                  (* mainsubs.cpp: copy_entities, one row per loop *)
  g_copy_resets : bool;                    (* ... which ends with new_copy = FALSE *)
  g_copy_kw : list (kind * list kind);     (* read.cpp: read_copy, keyword -> copiers *)
  g_copy_cell : list kind;                 (* read.cpp: read_copy, "cell" -> copiers *)
  g_components : list kind;                (* Phreeqc.cpp: list_components, maps iterated *)
  g_saver : list save_row;                 (* mainsubs.cpp: saver, one row per block (kinetics apart) *)
  g_mixes : list (kind * kind)             (* mainsubs.cpp: do_mixes, Rxn_mix(Rxn_<X>_mix_map, Rxn_<Y>_map) *)
}.

(** ** Entities, stores *)
Section Model.
  Variable C : Type.                (* content of an entity, without its number / description *)

  Record ent := mkEnt { e_num : Z; e_body : C }.   (* cxxNumKeyword::n_user + the rest *)

  Definition emap := zmap ent.
  Definition store := kind -> emap.
  Definition empty_store : store := fun _ => [].

  Definition supd (st : store) (k : kind) (m : emap) : store :=
    fun k' => if kind_eqb k' k then m else st k'.

  (** *** Utilities::Rxn_find / Rxn_copy / Rxn_copies (hand transcription) *)
  Definition rxn_find (m : emap) (i : Z) : option ent := zfind i m.

  Definition rxn_copy (m : emap) (i j : Z) : emap :=
    match zfind i m with
    | Some e => zins j (mkEnt j (e_body e)) m
    | None => m
    end.

  (* In the C++ the iterator is re-pointed at the fresh copy after each store; the fresh copy has
     the same body, so every copy has the body of entry n_user. *)
  Definition rxn_copies (m : emap) (n n_end : Z) : emap :=
    if n_end <=? n then m
    else match zfind n m with
         | Some e => fold_left (fun m j => zins j (mkEnt j (e_body e)) m) (zrange (n + 1) n_end) m
         | None => m
         end.

  (** *** the same two functions, interpreted from the regenerated shapes *)
  Definition rxn_copy_g (sh : copy_shape) (m : emap) (i j : Z) : emap :=
    match zfind (csel (cs_find sh) i j) m with
    | Some e =>
        let m1 := zins (csel (cs_dst sh) i j) e m in
        match zfind (csel (cs_refind sh) i j) m1 with
        | Some e1 =>
            let num := match cs_set_num sh with Some p => csel p i j | None => e_num e1 end in
            zins (csel (cs_refind sh) i j) (mkEnt num (e_body e1)) m1
        | None => m1
        end
    | None => m
    end.

  Definition rsel (p : rparam) (n n_end j : Z) : Z :=
    match p with RN => n | RNEnd => n_end | RLoop => j end.

  (* the loop of Rxn_copies with an explicit bound: iterate j = from, from+1, ... while cond *)
  Fixpoint copies_loop (sh : copies_shape) (fuel : nat) (n n_end j : Z) (e : ent) (m : emap) : emap :=
    match fuel with
    | O => m
    | S f =>
        if cmp_eval (rs_cond_cmp sh) (rsel (rs_cond_l sh) n n_end j) (rsel (rs_cond_r sh) n n_end j) then
          let d := rsel (rs_dst sh) n n_end j in
          let num := match rs_set_num sh with Some p => rsel p n n_end j | None => e_num e end in
          let e' := mkEnt num (e_body e) in
          copies_loop sh f n n_end (j + 1) e' (zins d e' m)
        else m
    end.

  Definition rxn_copies_g (sh : copies_shape) (m : emap) (n n_end : Z) : emap :=
    if cmp_eval (rs_guard_cmp sh) (rsel (rs_guard_l sh) n n_end 0) (rsel (rs_guard_r sh) n n_end 0) then m
    else match zfind (rsel (rs_find sh) n n_end 0) m with
         | Some e =>
             let from := rsel (rs_from sh) n n_end 0 + rs_from_off sh in
             copies_loop sh (Z.to_nat (n_end - from + 1)) n n_end from e m
         | None => m
         end.

  (** *** Reading: definitions and *_MODIFY (Rxn_read_raw / keyword readers, Rxn_read_modify) *)
  Variable D : Type.                         (* a modification request (named quantities + new values) *)
  Variable modify : kind -> D -> C -> C.

  Inductive read_op :=
  | RDefine (k : kind) (n n_end : Z) (c : C)       (* "KEYWORD n-n_end ..." or "KEYWORD_RAW n-n_end ..." *)
  | RModify (k : kind) (n : Z) (d : D).            (* "KEYWORD_MODIFY n ..." *)

  (** *** DELETE: StorageBinList::Read and delete_entities *)
  Record del_item := mkItem { di_defined : bool; di_nums : list Z }.
  Definition del_req := kind -> del_item.
  Definition item0 : del_item := mkItem false [].
  Definition del_req0 : del_req := fun _ => item0.

  Definition is_nil {X} (l : list X) : bool := match l with [] => true | _ => false end.

  (* a token "a" or "a-b": the two numbers go through a std::set, so the range is min..max *)
  Definition expand_ranges (rs : list (Z * Z)) : list Z :=
    flat_map (fun r => zrange (Z.min (fst r) (snd r)) (Z.max (fst r) (snd r))) rs.

  (* Augment(std::string) for each token of the line (an option line without numbers only sets defined) *)
  Definition augment_tokens (it : del_item) (rs : list (Z * Z)) : del_item :=
    mkItem true (di_nums it ++ expand_ranges rs).

  (* Augment(int) *)
  Definition augment_int (it : del_item) (i : Z) : del_item :=
    if di_defined it && is_nil (di_nums it) then it else mkItem true (di_nums it ++ [i]).

  Definition req_upd (q : del_req) (k : kind) (it : del_item) : del_req :=
    fun k' => if kind_eqb k' k then it else q k'.

  Inductive del_opt :=
  | DOKind (k : kind) (rs : list (Z * Z))     (* -solution 1 3-5 ... *)
  | DOAll                                     (* -all *)
  | DOCell (rs : list (Z * Z)).               (* -cell / -cells *)

  Definition set_all (_ : del_req) : del_req := fun _ => mkItem true [].

  Definition transfer_all (q : del_req) (ns : list Z) : del_req :=
    fun k => fold_left augment_int ns (q k).

  Definition read_delete_step (qc : del_req * del_item) (o : del_opt) : del_req * del_item :=
    let (q, cell) := qc in
    match o with
    | DOKind k rs => (req_upd q k (augment_tokens (q k) rs), cell)
    | DOAll => (set_all q, cell)
    | DOCell rs => (q, augment_tokens cell rs)
    end.

  Definition read_delete (opts : list del_opt) : del_req :=
    let (q, cell) := fold_left read_delete_step opts (del_req0, item0) in
    if di_defined cell then
      if is_nil (di_nums cell) then set_all q else transfer_all q (di_nums cell)
    else q.

  Definition erase_all (ns : list Z) (m : emap) : emap := fold_left (fun m i => zdel i m) ns m.

  Definition delete_row_g (q : del_req) (st : store) (r : del_row) : store :=
    if di_defined (q (dr_cond r)) then
      if is_nil (di_nums (q (dr_size r))) then supd st (dr_clear r) []
      else
        (* iterating from one set's begin() to another set's end() is undefined behaviour: the
           model only gives a meaning to the well-formed case and leaves the store alone otherwise *)
        if kind_eqb (dr_begin r) (dr_end r)
        then supd st (dr_erase r) (erase_all (di_nums (q (dr_begin r))) (st (dr_erase r)))
        else st
    else st.

  Definition delete_entities_g (tbl : list del_row) (q : del_req) (st : store) : store :=
    fold_left (delete_row_g q) tbl st.

  (* hand transcription: what the code is meant to do (each request acts on its own map) *)
  Definition delete_map (it : del_item) (m : emap) : emap :=
    if di_defined it then
      if is_nil (di_nums it) then [] else erase_all (di_nums it) m
    else m.

  Definition delete_entities (q : del_req) (st : store) : store :=
    fun k => delete_map (q k) (st k).

  (** *** COPY: read_copy and copy_entities *)
  Definition copier := list (Z * Z * Z).          (* (n_user, start, end) triples, in input order *)
  Definition copy_req := kind -> copier.
  Definition copy_req0 : copy_req := fun _ => [].

  Inductive copy_opt :=
  | COKind (k : kind) (src lo hi : Z)             (* COPY solution 1 5-7 *)
  | COCell (src lo hi : Z).                       (* COPY cell 1 5-7 *)

  Definition copier_add (q : copy_req) (k : kind) (t : Z * Z * Z) : copy_req :=
    fun k' => if kind_eqb k' k then q k' ++ [t] else q k'.

  (* read_copy's second switch, as regenerated: [kw] lists (keyword kind, copiers appended to) for
     every "case Keywords::KEY_<X>: copier_add(&copy_<Y>, ...)", [cell] the copiers of the "cell" case *)
  Definition kw_targets (kw : list (kind * list kind)) (k : kind) : list kind :=
    flat_map (fun p => if kind_eqb (fst p) k then snd p else []) kw.

  Definition read_copy_g (kw : list (kind * list kind)) (cell : list kind) (opts : list copy_opt) : copy_req :=
    fold_left (fun q o =>
                 match o with
                 | COKind k s l h => fold_left (fun q k' => copier_add q k' (s, l, h)) (kw_targets kw k) q
                 | COCell s l h => fold_left (fun q k' => copier_add q k' (s, l, h)) cell q
                 end) opts copy_req0.

  Definition copy_opt_for (k : kind) (o : copy_opt) : copier :=
    match o with
    | COKind k' s l h => if kind_eqb k k' then [(s, l, h)] else []
    | COCell s l h => [(s, l, h)]
    end.

  Definition read_copy (opts : list copy_opt) : copy_req :=
    fun k => flat_map (copy_opt_for k) opts.

  (* the loop variable of copy_entities is a size_t initialised from an int: a negative start with
     a non-negative end gives no iteration; start >= 0 > end would run ~2^64 times and is outside
     the model's domain (see [copy_in_domain]) *)
  Definition copy_targets (lo hi : Z) : list Z :=
    if (lo <? 0) && (0 <=? hi) then [] else zrange lo hi.

  Definition copy_in_domain (lo hi : Z) : bool := negb ((0 <=? lo) && (hi <? 0)).

  Definition t_src (t : Z * Z * Z) := fst (fst t).
  Definition t_lo (t : Z * Z * Z) := snd (fst t).
  Definition t_hi (t : Z * Z * Z) := snd t.
  Definition nth_req (q : copy_req) (k : kind) (j : nat) : Z * Z * Z := nth j (q k) (0, 0, 0).

  Definition copy_row_g (cp : emap -> Z -> Z -> emap) (q : copy_req) (st : store) (r : copy_row) : store :=
    fold_left
      (fun st j =>
         match zfind (t_src (nth_req q (cr_find_src r) j)) (st (cr_find_map r)) with
         | Some _ =>
             fold_left
               (fun st i =>
                  if i =? t_src (nth_req q (cr_skip r) j) then st
                  else supd st (cr_copy_map r) (cp (st (cr_copy_map r)) (t_src (nth_req q (cr_copy_src r) j)) i))
               (copy_targets (t_lo (nth_req q (cr_start r) j)) (t_hi (nth_req q (cr_end r) j))) st
         | None => st
         end)
      (seq 0 (length (q (cr_count r)))) st.

  Definition copy_entities_g (cp : emap -> Z -> Z -> emap) (tbl : list copy_row) (q : copy_req) (st : store) : store :=
    fold_left (copy_row_g cp q) tbl st.

  (* hand transcription *)
  Definition copy1 (m : emap) (t : Z * Z * Z) : emap :=
    match zfind (t_src t) m with
    | Some _ =>
        fold_left (fun m i => if i =? t_src t then m else rxn_copy m (t_src t) i)
                  (copy_targets (t_lo t) (t_hi t)) m
    | None => m
    end.

  Definition copy_entities (q : copy_req) (st : store) : store :=
    fun k => fold_left copy1 (q k) (st k).

  (** *** USE / SAVE (batch reaction) and RUN_CELLS; the chemistry is an oracle *)
  Definition use_req := kind -> option Z.           (* USE <kind> n  (None: not used) *)
  Definition save_req := list (kind * Z * Z).       (* SAVE <kind> n-n_end, savable kinds only *)

  (* contents of the used reactants, in the fixed order of [all_kinds] *)
  Definition used_of (u : use_req) (look : kind -> Z -> option C) : list (kind * C) :=
    flat_map (fun k => match u k with
                       | Some n => match look k n with Some c => [(k, c)] | None => [] end
                       | None => []
                       end) all_kinds.

  Definition use_missing (u : use_req) (look : kind -> Z -> option C) : bool :=
    existsb (fun k => match u k with
                      | Some n => match look k n with Some _ => false | None => true end
                      | None => false
                      end) all_kinds.

  (* is there something to save for kind k?  (the solution of a run comes from USE solution or USE mix) *)
  Definition is_some {X} (o : option X) : bool := match o with Some _ => true | None => false end.
  Definition used_kind (u : use_req) (k : kind) : bool :=
    match k with
    | KSol => is_some (u KSol) || is_some (u KMix)
    | _ => is_some (u k)
    end.

  (* set_use(): a batch reaction is calculated only when something besides the solution is used
     (and a solution or a mix is used); otherwise nothing is calculated and nothing is saved *)
  Definition reactant_use_kinds : list kind := [KPP; KRxn; KMix; KExch; KKin; KSurf; KTemp; KPres; KGas; KSS].
  Definition reacts (u : use_req) : bool :=
    existsb (fun k => is_some (u k)) reactant_use_kinds && (is_some (u KSol) || is_some (u KMix)).

  (* result to be saved for a kind, given what was used.  The first two arguments identify the
     calculation (tag of the simulation, cell number or -1 for a batch reaction): they stand for
     the engine's hidden numerical state (initial guesses, cached density, ...), on which the result of
     an otherwise identical calculation may depend in its last digits -- the theorems hold for
     every oracle, so nothing is assumed about that dependence *)
  Variable react : Z -> Z -> list (kind * C) -> kind -> C.

  Definition look_of (st : store) : kind -> Z -> option C :=
    fun k i => option_map e_body (zfind i (st k)).

  (* set_advection(i, TRUE, TRUE, i): which reactants numbered i are used and saved *)
  Definition present (st : store) (k : kind) (n : Z) : bool :=
    match zfind n (st k) with Some _ => true | None => false end.

  Definition cell_use (st : store) (n : Z) : use_req :=
    fun k => match k with
             | KSol => if present st KMix n then None else Some n    (* a MIX n replaces SOLUTION n *)
             | KKin => None                                          (* not modelled: see [cell_ok] *)
             | _ => if present st k n then Some n else None
             end.

  Definition cell_save (st : store) (n : Z) : save_req :=
    (KSol, n, n) :: flat_map (fun k => if present st k n then [(k, n, n)] else []) [KPP; KExch; KSurf; KGas; KSS].

  (* premises under which [run_cell] is faithful: no KINETICS n (its saving goes through entry -2) *)
  Definition cell_ok (st : store) (n : Z) : bool := negb (present st KKin n).

  (** *** SAVE: the "save" structure and saver() *)
  Record save_item := mkSave { sa_flag : bool; sa_n : Z; sa_end : Z }.
  Definition save_struct := kind -> save_item.
  Definition save0 : save_struct := fun _ => mkSave false 0 0.

  (* read_save: each SAVE line overwrites the fields of its kind (the last line of a kind wins) *)
  Definition save_struct_of (sv : save_req) : save_struct :=
    fold_left (fun S s k => if kind_eqb k (fst (fst s)) then mkSave true (snd (fst s)) (snd s) else S k) sv save0.

  (* hand transcription of saver(): for each savable kind whose flag is set, entity n := result (only when
     the kind took part in the calculation: x*_save return at once otherwise); then copies n+1..n_end of
     whatever entity n now is -- also for a kind that was not used, in which case an already existing
     entity n is duplicated over the range *)
  Definition saver_map (used : bool) (c : C) (it : save_item) (m : emap) : emap :=
    if sa_flag it then
      rxn_copies (if used then zins (sa_n it) (mkEnt (sa_n it) c) m else m) (sa_n it) (sa_end it)
    else m.

  Definition saver (u : use_req) (res : kind -> C) (S : save_struct) (st : store) : store :=
    fun k => if mem_kind k savable_kinds then saver_map (used_kind u k) (res k) (S k) (st k) else st k.

  (* the same, interpreted from the regenerated rows *)
  Definition saver_row_g (cp : emap -> Z -> Z -> emap) (cps : emap -> Z -> Z -> emap)
             (u : use_req) (res : kind -> C) (S : save_struct) (st : store) (r : save_row) : store :=
    if sa_flag (S (sv_flag r)) then
      let n := sa_n (S (sv_n r)) in
      let st1 := if used_kind u (sv_fn r) then supd st (sv_fn r) (zins n (mkEnt n (res (sv_fn r))) (st (sv_fn r))) else st in
      let from := sa_n (S (sv_from r)) in
      let e := sa_end (S (sv_end r)) in
      if sv_loop r
      then supd st1 (sv_map r) (fold_left (fun m i => cp m n i) (zrange (from + 1) e) (st1 (sv_map r)))
      else supd st1 (sv_map r) (cps (st1 (sv_map r)) from e)
    else st.

  Definition saver_g (cp cps : emap -> Z -> Z -> emap) (tbl : list save_row)
             (u : use_req) (res : kind -> C) (S : save_struct) (st : store) : store :=
    fold_left (saver_row_g cp cps u res S) tbl st.

  (** *** SOLUTION_MIX etc.: do_mixes / Rxn_mix *)
  Variable M : Type.                        (* a mixing recipe *)
  Variable mix_nums : M -> list Z.
  Variable mixf : kind -> M -> list (Z * option C) -> C.

  Definition mix_req := (kind * Z * Z * M)%type.      (* <KIND>_MIX n-n_end  recipe *)

  (** *** One simulation (one END-terminated block run by IPhreeqc::do_run) *)
  Record step := {
    s_tag : Z;                                    (* identifies the simulation (see [react]) *)
    s_reads : list read_op;                       (* definitions and *_MODIFY, in input order *)
    s_react : option (use_req * save_req);        (* USE ... SAVE ... *)
    s_cells : list Z;                             (* RUN_CELLS -cells, ascending (std::set) *)
    s_mixes : list mix_req;                       (* at most one per kind *)
    s_copies : list copy_opt;                     (* COPY lines, in input order *)
    s_delete : option (list del_opt)              (* one DELETE block *)
  }.

  Record result := { r_store : store;             (* store after the simulation *)
                     r_dump : store;              (* store seen by a DUMP in the same simulation *)
                     r_stopped : bool }.          (* a USE of a missing reactant stopped the run *)

  (* the code-shaped primitives the pipeline is built from; instantiated twice below: with the
     hand transcriptions and with the interpretations of the regenerated tables *)
  Record prims := {
    p_copies : emap -> Z -> Z -> emap;                    (* Utilities::Rxn_copies *)
    p_saver : use_req -> (kind -> C) -> save_struct -> store -> store;   (* saver *)
    p_copy_ents : list copy_opt -> store -> store;        (* read_copy ; copy_entities *)
    p_delete_ents : list del_opt -> store -> store        (* read_delete ; delete_entities *)
  }.

  Section Pipeline.
    Variable P : prims.

    Definition do_read (st : store) (r : read_op) : store :=
      match r with
      | RDefine k n n_end c => supd st k (p_copies P (zins n (mkEnt n c) (st k)) n n_end)
      | RModify k n d =>
          match zfind n (st k) with
          | Some e => supd st k (zins n (mkEnt n (modify k d (e_body e))) (st k))
          | None => st                                  (* warning "Could not find ..., ignoring modify data" *)
          end
      end.

    (* run_reactions + saver, as used by run_as_cells (no set_use() test there) *)
    Definition do_react_core (tag cell : Z) (u : use_req) (sv : save_req) (st : store) : option store :=
      if use_missing u (look_of st) then None        (* "Solution n not found." : run stops *)
      else Some (p_saver P u (react tag cell (used_of u (look_of st))) (save_struct_of sv) st).

    (* reactions(): USE ... SAVE ... of a simulation *)
    Definition do_react (tag : Z) (u : use_req) (sv : save_req) (st : store) : option store :=
      if reacts u then do_react_core tag (-1) u sv st else Some st.

    Definition run_cell (tag : Z) (st : store) (n : Z) : store :=
      if n <? 0 then st
      else if negb (present st KSol n) && negb (present st KMix n) then st
      else match do_react_core tag n (cell_use st n) (cell_save st n) st with
           | Some st' => st'
           | None => st
           end.

    Definition do_mix (st : store) (r : mix_req) : store :=
      let '(k, n, n_end, mx) := r in
      let c := mixf k mx (map (fun i => (i, look_of st k i)) (mix_nums mx)) in
      supd st k (p_copies P (zins n (mkEnt n c) (st k)) n n_end).

    Definition run_step (stp : step) (st : store) : result :=
      let st1 := fold_left do_read (s_reads stp) st in
      match (match s_react stp with
             | Some (u, sv) => do_react (s_tag stp) u sv st1
             | None => Some st1
             end) with
      | None => {| r_store := st1; r_dump := st1; r_stopped := true |}
      | Some st2 =>
          let st3 := fold_left (run_cell (s_tag stp)) (s_cells stp) st2 in
          let st4 := fold_left do_mix (s_mixes stp) st3 in
          let st5 := p_copy_ents P (s_copies stp) st4 in
          let st6 := match s_delete stp with
                     | Some opts => p_delete_ents P opts st5
                     | None => st5
                     end in
          {| r_store := st6; r_dump := st5; r_stopped := false |}
      end.

    Definition run (steps : list step) (st : store) : store :=
      fold_left (fun st stp => r_store (run_step stp st)) steps st.

    (* every intermediate result, for the correspondence runs *)
    Fixpoint trace (steps : list step) (st : store) : list result :=
      match steps with
      | [] => []
      | stp :: r => let res := run_step stp st in res :: trace r (r_store res)
      end.
  End Pipeline.

  Definition hand_prims : prims :=
    {| p_copies := rxn_copies;
       p_saver := saver;
       p_copy_ents := fun opts => copy_entities (read_copy opts);
       p_delete_ents := fun opts => delete_entities (read_delete opts) |}.

  Definition gen_prims (T : gen_tables) : prims :=
    {| p_copies := rxn_copies_g (g_copies_shape T);
       p_saver := saver_g (rxn_copy_g (g_copy_shape T)) (rxn_copies_g (g_copies_shape T)) (g_saver T);
       p_copy_ents := fun opts => copy_entities_g (rxn_copy_g (g_copy_shape T)) (g_copy T)
                                                  (read_copy_g (g_copy_kw T) (g_copy_cell T) opts);
       p_delete_ents := fun opts => delete_entities_g (g_delete T) (read_delete opts) |}.

  (** *** list_components: every element of every reactant in the iterated maps *)
  Variable E : Type.
  Variable elements : kind -> C -> list E.

  Definition components_g (kinds : list kind) (st : store) : list E :=
    flat_map (fun k => flat_map (fun p => elements k (e_body (snd p))) (st k)) kinds.

  Definition components (st : store) : list E := components_g reactant_kinds st.

End Model.

Arguments RDefine {C D}.
Arguments RModify {C D}.
