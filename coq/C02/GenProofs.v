(* C02 -- obligations on the REGENERATED terms (coq/Gen/Gen_C02_Step.v, written by translator/c02_step.py
   from the current step.cpp on every run).  Every proof here is generic: case split on whatever boolean
   atoms the generated expression contains, contradictory branches by lia, leaves by ring -- so harmless
   rewrites of the C++ pass and semantic changes do not. *)
From Coq Require Import QArith Qabs String List Bool ZArith Lia Lqa.
From IPV.C02 Require Import Inv StepTable AccIR.
From IPV.Gen Require Import Gen_C02_Step.
Import ListNotations.
Open Scope Q_scope.

Ltac split_atoms :=
  repeat (match goal with
          | |- context [Z.eqb ?a ?b] => destruct (Z.eqb_spec a b)
          | |- context [Z.ltb ?a ?b] => destruct (Z.ltb_spec a b)
          | |- context [Z.leb ?a ?b] => destruct (Z.leb_spec a b)
          | |- context [if ?b then _ else _] => is_var b; destruct b
          | |- context [negb ?b] => is_var b; destruct b
          | |- context [andb ?b _] => is_var b; destruct b
          | |- context [orb ?b _] => is_var b; destruct b
          end; cbn [negb andb orb]).

Ltac leaf := first [ reflexivity | unfold Qdiv, inject_Z; ring | exfalso; lia ].

(* the regenerated step selection + unit conversion of add_reaction IS the specification, for all arguments
   (in particular it does not depend on the incoming value of step_x) *)
Lemma gen_step_matches_model : forall sx iz equal steps count n c,
  gen_step_x sx iz equal steps count n c ==
  model_unit_factor c * model_step_x (negb (iz =? 0)%Z) equal steps count n.
Proof.
  intros. unfold gen_step_x, model_step_x, model_unit_factor.
  rewrite ?Z.gtb_ltb. split_atoms; leaf.
Qed.

Definition gen_stepf (incr equal : bool) (steps : list Q) (count n c : Z) : Q :=
  gen_step_x 0 (if incr then 1%Z else 0%Z) equal steps count n c.

Lemma gen_stepf_model incr equal steps count n c :
  gen_stepf incr equal steps count n c == model_stepf incr equal steps count n c.
Proof.
  unfold gen_stepf, model_stepf. rewrite gen_step_matches_model. destruct incr; reflexivity.
Qed.

Lemma sum_to_scale u f n : sum_to (fun k => u * f k) n == u * sum_to f n.
Proof. induction n as [|n IH]; cbn [sum_to]. ring. rewrite IH. ring. Qed.

(* REACTION "x in N steps": the incremental steps of the regenerated code add up to its cumulative step *)
Lemma gen_equal_increments_sum : forall steps count c n,
  (1 <= count)%Z -> steps <> nil ->
  sum_to (fun k => gen_stepf true true steps count k c) n == gen_stepf false true steps count (Z.of_nat n) c.
Proof.
  intros steps count c n Hc Hs.
  rewrite (sum_to_ext _ (fun k => model_unit_factor c * model_step_x true true steps count k)).
  - rewrite sum_to_scale, model_equal_increments_sum by assumption.
    rewrite gen_stepf_model. reflexivity.
  - intros. apply gen_stepf_model.
Qed.

(* REACTION with an explicit list: n incremental steps add unit * (sum of the first n entries) *)
Lemma gen_list_increments_sum : forall steps c n,
  (n <= length steps)%nat ->
  sum_to (fun k => gen_stepf true false steps (lenZ steps) k c) n == model_unit_factor c * qsum (firstn n steps).
Proof.
  intros steps c n H.
  rewrite (sum_to_ext _ (fun k => model_unit_factor c * model_step_x true false steps (lenZ steps) k)).
  - rewrite sum_to_scale, model_list_increments_sum by assumption. reflexivity.
  - intros. apply gen_stepf_model.
Qed.

(* ---------------------------------------------------------------- accumulation statements *)
Definition V := AVar.
Ltac solve_acc :=
  unfold acc_spec; cbv zeta; unfold V;
  match goal with |- Forall2 _ ?l _ => let v := eval vm_compute in l in change l with v end;
  repeat (apply Forall2_cons;
          [ split; [reflexivity | split; [reflexivity | let env := fresh "env" in intro env; cbn [aeval a_exp snd fst]; unfold Qdiv; ring ]] | ]);
  apply Forall2_nil.


Local Open Scope string_scope.

(* every element of the reaction enters total_h_x / total_o_x / master->total as coef * step_x * step_fraction *)
Lemma acc_add_reaction : acc_spec "add_reaction" gen_acc
  (let e := AMul (V "iter(cxxReaction.Get_elementList).second") (AMul (V "step_x") (V "step_fraction")) in
   [(T_H, 1%Z, e); (T_O, 1%Z, e); (T_TOT, 1%Z, e)]).
Proof. solve_acc. Qed.

Lemma acc_add_solution : acc_spec "add_solution" gen_acc
  [(T_CB, 1%Z, AMul (V "extensive") (V "cxxSolution.Get_cb"));
   (T_H, 1%Z, AMul (V "extensive") (V "cxxSolution.Get_total_h"));
   (T_O, 1%Z, AMul (V "extensive") (V "cxxSolution.Get_total_o"));
   (T_TOT, 1%Z, AMul (V "extensive") (V "iter.second"));
   (T_WATER, 1%Z, AMul (V "extensive") (V "cxxSolution.Get_mass_water"))].
Proof. solve_acc. Qed.

Lemma acc_add_kinetics : acc_spec "add_kinetics" gen_acc
  (let e := V "iter(cxxKinetics.Get_totals).second" in [(T_H, 1%Z, e); (T_O, 1%Z, e); (T_TOT, 1%Z, e)]).
Proof. solve_acc. Qed.

Lemma acc_add_exchange : acc_spec "add_exchange" gen_acc
  (let e := V "iter(cxxExchange.Get_exchange_comps[].Get_totals).second" in
   [(T_CB, 1%Z, V "cxxExchComp.Get_charge_balance"); (T_H, 1%Z, e); (T_O, 1%Z, e); (T_TOT, 1%Z, e)]).
Proof. solve_acc. Qed.

Lemma acc_add_surface : acc_spec "add_surface" gen_acc
  (let d := V "iter(cxxSurfaceCharge.Get_diffuse_layer_totals).second" in
   let t := V "iter(cxxSurfaceComp.Get_totals).second" in
   [(T_CB, 1%Z, V "cxxSurfaceCharge.Get_charge_balance"); (T_CB, 1%Z, V "cxxSurfaceComp.Get_charge_balance");
    (T_H, 1%Z, d); (T_H, 1%Z, t); (T_O, 1%Z, d); (T_O, 1%Z, t); (T_TOT, 1%Z, d); (T_TOT, 1%Z, t)]).
Proof. solve_acc. Qed.

Lemma acc_add_gas_phase : acc_spec "add_gas_phase" gen_acc
  (let e := V "elt_list[].coef" in
   [(T_ELT, 1%Z, V "cxxGasComp.Get_moles"); (T_H, 1%Z, e); (T_O, 1%Z, e); (T_TOT, 1%Z, e)]).
Proof. solve_acc. Qed.

(* amount_to_add (dlocal0) leaves the phase and enters the solution with the formula's coefficients *)
Lemma acc_add_pp_assemblage : acc_spec "add_pp_assemblage" gen_acc
  (let e := AMul (V "dlocal0") (V "elt_list[].coef") in
   [(T_DELTA, 0%Z, AConst 0); (T_DELTA, 0%Z, V "dlocal0"); (T_ELT, 1%Z, AConst 1); (T_H, 1%Z, e);
    (T_MOLES, 0%Z, ASub (V "cxxPPassemblageComp.Get_moles") (V "dlocal0")); (T_O, 1%Z, e); (T_TOT, 1%Z, e)]).
Proof. solve_acc. Qed.

Lemma acc_add_ss_assemblage : acc_spec "add_ss_assemblage" gen_acc
  (let e := AMul (V "dlocal0") (V "elt_list[].coef") in
   [(T_DELTA, 0%Z, AConst 0); (T_DELTA, 0%Z, V "dlocal0"); (T_ELT, 1%Z, AConst 1); (T_H, 1%Z, e);
    (T_MOLES, 0%Z, ASub (V "cxxSScomp.Get_moles") (V "dlocal0")); (T_O, 1%Z, e); (T_TOT, 1%Z, e)]).
Proof. solve_acc. Qed.

Ltac solve_has :=
  unfold acc_has; cbv zeta; unfold V;
  match goal with |- Exists _ ?l => let v := eval vm_compute in l in change l with v end;
  repeat first [ solve [ apply Exists_cons_hd; split; [reflexivity | split; [reflexivity |
                         let env := fresh "env" in intro env; cbn [aeval a_exp snd fst]; unfold Qdiv; ring ]] ]
               | apply Exists_cons_tl ].

(* add_mix hands each solution to add_solution with extensive = its mixing fraction (not the normalised one) *)
Lemma acc_add_mix :
  acc_has "add_mix" gen_acc (T_CALL, 1%Z, V "dlocal2") /\
  acc_count "add_mix" gen_acc T_CALL = 1%nat /\
  acc_has "add_mix" gen_acc (T_LOCAL, 0%Z, ASub (V "dlocal2") (V "iter(cxxMix.Get_mixComps).second")).
Proof. split; [solve_has | split; [vm_compute; reflexivity | solve_has]]. Qed.

(* reaction_calc: every reactant enters the element list with its own coefficient *)
Lemma acc_reaction_calc : acc_spec "reaction_calc" gen_acc
  [(T_ELT, 1%Z, V "dlocal0");
   (T_LOCAL, 0%Z, ASub (V "dlocal0") (V "iter(cxxReaction.Get_reactantList).second"))].
Proof. solve_acc. Qed.
