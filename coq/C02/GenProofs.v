(* C02 -- obligations on the REGENERATED terms (coq/Gen/Gen_C02_Step.v, written by translator/c02_step.py
   from the current step.cpp on every run).  Every proof here is generic: case split on whatever boolean
   atoms the generated expression contains, contradictory branches by lia, leaves by ring -- so harmless
   rewrites of the C++ pass and semantic changes do not. *)
From Coq Require Import QArith Qabs String List Bool ZArith Lia Lqa.
From IPV.C02 Require Import Inv Model StepTable AccIR.
From IPV.Gen Require Import Gen_C02_Step.
Import ListNotations.
Open Scope Q_scope.

Ltac split_atoms :=
  repeat (match goal with
          | |- context [Z.eqb ?a ?b] => destruct (Z.eqb_spec a b)
          | |- context [Z.ltb ?a ?b] => destruct (Z.ltb_spec a b)
          | |- context [Z.leb ?a ?b] => destruct (Z.leb_spec a b)
          | |- context [if ?b then _ else _] => is_var b; destruct b
          | |- context [negb ?b] => is_var b; destruct b
          | |- context [andb ?b _] => is_var b; destruct b
          | |- context [orb ?b _] => is_var b; destruct b
          end; cbn [negb andb orb]).

Ltac leaf := first [ reflexivity | unfold Qdiv, inject_Z; ring | exfalso; lia ].

(* the regenerated step selection + unit conversion of add_reaction IS the specification, for all arguments
   (in particular it does not depend on the incoming value of step_x) *)
Lemma gen_step_matches_model : forall sx iz equal steps count n c,
  gen_step_x sx iz equal steps count n c ==
  model_unit_factor c * model_step_x (negb (iz =? 0)%Z) equal steps count n.
Proof.
  intros. unfold gen_step_x, model_step_x, model_unit_factor.
  rewrite ?Z.gtb_ltb. split_atoms; leaf.
Qed.

Definition gen_stepf (incr equal : bool) (steps : list Q) (count n c : Z) : Q :=
  gen_step_x 0 (if incr then 1%Z else 0%Z) equal steps count n c.

Lemma gen_stepf_model incr equal steps count n c :
  gen_stepf incr equal steps count n c == model_stepf incr equal steps count n c.
Proof.
  unfold gen_stepf, model_stepf. rewrite gen_step_matches_model. destruct incr; reflexivity.
Qed.

Lemma sum_to_scale u f n : sum_to (fun k => u * f k) n == u * sum_to f n.
Proof. induction n as [|n IH]; cbn [sum_to]. ring. rewrite IH. ring. Qed.

(* REACTION "x in N steps": the incremental steps of the regenerated code add up to its cumulative step *)
Lemma gen_equal_increments_sum : forall steps count c n,
  (1 <= count)%Z -> steps <> nil ->
  sum_to (fun k => gen_stepf true true steps count k c) n == gen_stepf false true steps count (Z.of_nat n) c.
Proof.
  intros steps count c n Hc Hs.
  rewrite (sum_to_ext _ (fun k => model_unit_factor c * model_step_x true true steps count k)).
  - rewrite sum_to_scale, model_equal_increments_sum by assumption.
    rewrite gen_stepf_model. reflexivity.
  - intros. apply gen_stepf_model.
Qed.

(* REACTION with an explicit list: n incremental steps add unit * (sum of the first n entries) *)
Lemma gen_list_increments_sum : forall steps c n,
  (n <= length steps)%nat ->
  sum_to (fun k => gen_stepf true false steps (lenZ steps) k c) n == model_unit_factor c * qsum (firstn n steps).
Proof.
  intros steps c n H.
  rewrite (sum_to_ext _ (fun k => model_unit_factor c * model_step_x true false steps (lenZ steps) k)).
  - rewrite sum_to_scale, model_list_increments_sum by assumption. reflexivity.
  - intros. apply gen_stepf_model.
Qed.

(* ---------------------------------------------------------------- accumulation statements *)
Definition V := AVar.
Ltac solve_acc :=
  unfold acc_spec; cbv zeta; unfold V;
  match goal with |- Forall2 _ ?l _ => let v := eval vm_compute in l in change l with v end;
  repeat (apply Forall2_cons;
          [ split; [reflexivity | split; [reflexivity | let env := fresh "env" in intro env; cbn [aeval a_exp snd fst]; unfold Qdiv; ring ]] | ]);
  apply Forall2_nil.


Local Open Scope string_scope.

(* every element of the reaction enters total_h_x / total_o_x / master->total as coef * step_x * step_fraction *)
Lemma acc_add_reaction : acc_spec "add_reaction" gen_acc
  (let e := AMul (V "iter(cxxReaction.Get_elementList).second") (AMul (V "step_x") (V "step_fraction")) in
   [(T_H, 1%Z, e); (T_O, 1%Z, e); (T_TOT, 1%Z, e)]).
Proof. solve_acc. Qed.

Lemma acc_add_solution : acc_spec "add_solution" gen_acc
  [(T_CB, 1%Z, AMul (V "extensive") (V "cxxSolution.Get_cb"));
   (T_H, 1%Z, AMul (V "extensive") (V "cxxSolution.Get_total_h"));
   (T_O, 1%Z, AMul (V "extensive") (V "cxxSolution.Get_total_o"));
   (T_TOT, 1%Z, AMul (V "extensive") (V "iter.second"));
   (T_WATER, 1%Z, AMul (V "extensive") (V "cxxSolution.Get_mass_water"))].
Proof. solve_acc. Qed.

Lemma acc_add_kinetics : acc_spec "add_kinetics" gen_acc
  (let e := V "iter(cxxKinetics.Get_totals).second" in [(T_H, 1%Z, e); (T_O, 1%Z, e); (T_TOT, 1%Z, e)]).
Proof. solve_acc. Qed.

Lemma acc_add_exchange : acc_spec "add_exchange" gen_acc
  (let e := V "iter(cxxExchange.Get_exchange_comps[].Get_totals).second" in
   [(T_CB, 1%Z, V "cxxExchComp.Get_charge_balance"); (T_H, 1%Z, e); (T_O, 1%Z, e); (T_TOT, 1%Z, e)]).
Proof. solve_acc. Qed.

Lemma acc_add_surface : acc_spec "add_surface" gen_acc
  (let d := V "iter(cxxSurfaceCharge.Get_diffuse_layer_totals).second" in
   let t := V "iter(cxxSurfaceComp.Get_totals).second" in
   [(T_CB, 1%Z, V "cxxSurfaceCharge.Get_charge_balance"); (T_CB, 1%Z, V "cxxSurfaceComp.Get_charge_balance");
    (T_H, 1%Z, d); (T_H, 1%Z, t); (T_O, 1%Z, d); (T_O, 1%Z, t); (T_TOT, 1%Z, d); (T_TOT, 1%Z, t)]).
Proof. solve_acc. Qed.

Lemma acc_add_gas_phase : acc_spec "add_gas_phase" gen_acc
  (let e := V "elt_list[].coef" in
   [(T_ELT, 1%Z, V "cxxGasComp.Get_moles"); (T_H, 1%Z, e); (T_O, 1%Z, e); (T_TOT, 1%Z, e)]).
Proof. solve_acc. Qed.

(* amount_to_add (dlocal0) leaves the phase and enters the solution with the formula's coefficients *)
Lemma acc_add_pp_assemblage : acc_spec "add_pp_assemblage" gen_acc
  (let e := AMul (V "dlocal0") (V "elt_list[].coef") in
   [(T_DELTA, 0%Z, AConst 0); (T_DELTA, 0%Z, V "dlocal0"); (T_ELT, 1%Z, AConst 1); (T_H, 1%Z, e);
    (T_MOLES, 0%Z, ASub (V "cxxPPassemblageComp.Get_moles") (V "dlocal0")); (T_O, 1%Z, e); (T_TOT, 1%Z, e)]).
Proof. solve_acc. Qed.

Lemma acc_add_ss_assemblage : acc_spec "add_ss_assemblage" gen_acc
  (let e := AMul (V "dlocal0") (V "elt_list[].coef") in
   [(T_DELTA, 0%Z, AConst 0); (T_DELTA, 0%Z, V "dlocal0"); (T_ELT, 1%Z, AConst 1); (T_H, 1%Z, e);
    (T_MOLES, 0%Z, ASub (V "cxxSScomp.Get_moles") (V "dlocal0")); (T_O, 1%Z, e); (T_TOT, 1%Z, e)]).
Proof. solve_acc. Qed.

Ltac solve_has :=
  unfold acc_has; cbv zeta; unfold V;
  match goal with |- Exists _ ?l => let v := eval vm_compute in l in change l with v end;
  repeat first [ solve [ apply Exists_cons_hd; split; [reflexivity | split; [reflexivity |
                         let env := fresh "env" in intro env; cbn [aeval a_exp snd fst]; unfold Qdiv; ring ]] ]
               | apply Exists_cons_tl ].

(* add_mix hands each solution to add_solution with extensive = its mixing fraction (not the normalised one) *)
Lemma acc_add_mix :
  acc_has "add_mix" gen_acc (T_CALL, 1%Z, V "dlocal2") /\
  acc_count "add_mix" gen_acc T_CALL = 1%nat /\
  acc_has "add_mix" gen_acc (T_LOCAL, 0%Z, ASub (V "dlocal2") (V "iter(cxxMix.Get_mixComps).second")).
Proof. split; [solve_has | split; [vm_compute; reflexivity | solve_has]]. Qed.

(* reaction_calc: every reactant enters the element list with its own coefficient *)
Lemma acc_reaction_calc : acc_spec "reaction_calc" gen_acc
  [(T_ELT, 1%Z, V "dlocal0");
   (T_LOCAL, 0%Z, ASub (V "dlocal0") (V "iter(cxxReaction.Get_reactantList).second"))].
Proof. solve_acc. Qed.

(* ---------------------------------------------------------------- guards of the accumulation statements *)
(* valuation of the atoms of add_surface's conditions for a surface of type t, diffuse-layer type d, new_def nd *)
Definition surf_env (t : stype) (d : dltype) (nd hp hw : bool) (s : string) : bool :=
  if String.eqb s "cxxSurface.Get_type==DDL" then match t with DDL => true | _ => false end
  else if String.eqb s "cxxSurface.Get_type==CCM" then match t with CCM => true | _ => false end
  else if String.eqb s "cxxSurface.Get_type==CD_MUSIC" then match t with CD_MUSIC => true | _ => false end
  else if String.eqb s "cxxSurface.Get_type==NO_EDL" then match t with NO_EDL => true | _ => false end
  else if String.eqb s "cxxSurface.Get_type==UNKNOWN_DL" then match t with UNKNOWN_DL => true | _ => false end
  else if String.eqb s "cxxSurface.Get_dl_type==NO_DL" then match d with NO_DL => true | _ => false end
  else if String.eqb s "cxxSurface.Get_dl_type==BORKOVEK_DL" then match d with BORKOVEK_DL => true | _ => false end
  else if String.eqb s "cxxSurface.Get_dl_type==DONNAN_DL" then match d with DONNAN_DL => true | _ => false end
  else if String.eqb s "cxxSurface.Get_new_def" then nd
  else if String.eqb s hp_atom then hp
  else if String.eqb s hw_atom then hw
  else false.

Definition route_b (hp hw : bool) (t : target) : bool :=
  match t with T_H => hp | T_O => negb hp && hw | T_TOT => negb hp && negb hw | _ => true end.

(* the specification: under which surface types each statement of add_surface must execute
   (exactly the conditions of Model.add_surface / Model.inv_surface) *)
Definition surf_expected (t : stype) (d : dltype) (nd hp hw : bool) (tg : target) (e : aexp) : bool :=
  if aexp_eqb e (AVar "cxxSurfaceCharge.Get_charge_balance") then is_edl t
  else if aexp_eqb e (AVar "cxxSurfaceComp.Get_charge_balance") then is_no_edl t
  else if aexp_eqb e (AVar "iter(cxxSurfaceCharge.Get_diffuse_layer_totals).second")
       then is_edl t && has_dl d && negb nd && route_b hp hw tg
  else if aexp_eqb e (AVar "iter(cxxSurfaceComp.Get_totals).second") then route_b hp hw tg
  else false.

(* every electrostatic surface type (DDL, CCM, CD_MUSIC) contributes its plane charges to cb_x, NO_EDL its site
   charges, the diffuse layer its totals when present and not new -- for ALL types, not just the sampled ones *)
Lemma guard_add_surface : forall t d nd hp hw,
  forallb (fun a => Bool.eqb (geval (surf_env t d nd hp hw) (g_guard a))
                             (surf_expected t d nd hp hw (g_target a) (g_exp a)))
          (gaccs_of "add_surface" gen_guard) = true /\
  length (gaccs_of "add_surface" gen_guard) = 8%nat.
Proof. intros t d nd hp hw. split; [destruct t, d, nd, hp, hw; vm_compute; reflexivity | vm_compute; reflexivity]. Qed.

Definition exch_env (nd hp hw : bool) (s : string) : bool :=
  if String.eqb s "cxxExchange.Get_new_def" then nd
  else if String.eqb s hp_atom then hp
  else if String.eqb s hw_atom then hw
  else false.

Definition exch_expected (nd hp hw : bool) (tg : target) (e : aexp) : bool :=
  if aexp_eqb e (AVar "cxxExchComp.Get_charge_balance") then negb nd
  else if aexp_eqb e (AVar "iter(cxxExchange.Get_exchange_comps[].Get_totals).second") then route_b hp hw tg
  else false.

Lemma guard_add_exchange : forall nd hp hw,
  forallb (fun a => Bool.eqb (geval (exch_env nd hp hw) (g_guard a)) (exch_expected nd hp hw (g_target a) (g_exp a)))
          (gaccs_of "add_exchange" gen_guard) = true /\
  length (gaccs_of "add_exchange" gen_guard) = 4%nat.
Proof. intros nd hp hw. split; [destruct nd, hp, hw; vm_compute; reflexivity | vm_compute; reflexivity]. Qed.

Ltac env_cases env := repeat match goal with |- context [env ?s] => destruct (env s) end.

Ltac forall_list tac :=
  match goal with |- Forall _ ?l => let v := eval vm_compute in l in change l with v end;
  repeat (apply Forall_cons; [tac | ]); apply Forall_nil.

(* H goes to total_h_x, O to total_o_x, everything else to master->total: in every add_* function *)
Definition routed_entries : list gacc :=
  filter (fun a => is_route_target (g_target a) && negb (String.eqb (g_fn a) "add_solution")) gen_guard.

Lemma routing_all : Forall routing_ok routed_entries /\ (24 <= length routed_entries)%nat.
Proof.
  split.
  - forall_list ltac:(let env := fresh "env" in intro env;
                      cbn [geval g_guard g_target route_cond]; unfold hp_atom, hw_atom;
                      env_cases env; cbn [negb andb orb]; intro H; first [reflexivity | discriminate H]).
  - vm_compute. repeat constructor.
Qed.

(* pure phases / solid solutions: the phase is debited (Set_moles) under exactly the condition under which the
   solution is credited *)
Definition moles_guard (f : string) (l : list gacc) : option gexp :=
  match filter (fun a => target_eqb (g_target a) T_MOLES) (gaccs_of f l) with
  | [a] => Some (g_guard a)
  | _ => None
  end.

Definition debit_credit (f : string) : Prop :=
  exists gm, moles_guard f gen_guard = Some gm /\
  forall env, Forall (fun a => geval env (g_guard a) = geval env gm && route_cond env (g_target a))
                     (filter (fun a => is_route_target (g_target a)) (gaccs_of f gen_guard)).

Ltac solve_debit_credit :=
  eexists; split; [vm_compute; reflexivity|];
  let env := fresh "env" in intro env;
  forall_list ltac:(cbn [geval g_guard g_target route_cond]; unfold hp_atom, hw_atom;
                    env_cases env; reflexivity).

Lemma debit_credit_pp : debit_credit "add_pp_assemblage".
Proof. solve_debit_credit. Qed.

Lemma debit_credit_ss : debit_credit "add_ss_assemblage".
Proof. solve_debit_credit. Qed.

(* ---------------------------------------------------------------- reuse of the previously built equation set *)
(* Everything that build_model bakes into the equations of a reacting system must be compared by
   check_same_model before prep() takes the quick_setup() short cut: the identity of every pure phase AND of its
   alternative reactant (string identity, not mere presence), of every gas component, solid solution, surface
   component / charge, the surface and diffuse-layer and gas-phase types, and the component counts. *)
Definition required_same_model : list gexp :=
  [ GNot (GAtom "last_model.pp_assemblage.size==cxxPPassemblage.Get_pp_assemblage_comps.size");
    GNot (GAtom "last_model.pp_assemblage[]==phase");
    GNot (GAtom "last_model.add_formula[]==this.string_hsave(iter(cxxPPassemblage.Get_pp_assemblage_comps).second.Get_add_formula.c_str)");
    GNot (GAtom "last_model.gas_phase.size==cxxGasPhase.Get_gas_comps.size");
    GNot (GAtom "last_model.gas_phase[]==phase");
    GNot (GAtom "last_model.gas_phase_type==cxxGasPhase.Get_type");
    GNot (GAtom "last_model.ss_assemblage.size==use.Get_ss_assemblage_ptr.Get_SSs.size");
    GNot (GAtom "last_model.ss_assemblage[]==this.string_hsave(std::vector<cxxSS >[].Get_name.c_str)");
    GNot (GAtom "last_model.surface_comp.size==use.Get_surface_ptr.Get_surface_comps.size");
    GNot (GAtom "last_model.surface_comp[]==this.string_hsave(use.Get_surface_ptr.Get_surface_comps[].Get_formula.c_str)");
    GNot (GAtom "last_model.surface_charge.size==use.Get_surface_ptr.Get_surface_charges.size");
    GNot (GAtom "last_model.surface_charge[]==this.string_hsave(use.Get_surface_ptr.Get_surface_charges[].Get_name.c_str)");
    GNot (GAtom "last_model.surface_type==use.Get_surface_ptr.Get_type");
    GNot (GAtom "last_model.dl_type==use.Get_surface_ptr.Get_dl_type") ].

Lemma same_model_compares : all_present required_same_model gen_same_model = true.
Proof. vm_compute. reflexivity. Qed.
