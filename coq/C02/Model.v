(* C02 -- executable model (over Q) of the assembly of the reacting system,
   src/phreeqcpp/step.cpp: Phreeqc::step, xsolution_zero, add_solution, add_mix, add_reaction (the
   accumulation loop; the step table lives in StepTable.v / Gen_C02_Step.v), reaction_calc, add_kinetics,
   add_exchange, add_surface, add_gas_phase, add_pp_assemblage (+check_pp_assemblage), add_ss_assemblage;
   and of the write-back src/phreeqcpp/mainsubs.cpp: saver, xsolution_save, xexchange_save, xsurface_save,
   xgas_save, xpp_assemblage_save, xss_assemblage_save (inventory-relevant members only).

   What is NOT modelled: intensive quantities (tc, pH, la guesses ...), error paths for unknown elements,
   the zeroing of |total| <= MIN_TOTAL in solution_check / xsolution_save (an effect <= 1e-25 mol), the
   MASS_BALANCE retry with smaller step fractions, the delta_max bookkeeping at the end of step(). *)
From Coq Require Import QArith Qabs String List Bool ZArith Lia Lqa.
From IPV.C02 Require Import Inv.
Import ListNotations.
Open Scope Q_scope.

Definition eH : elt := "H"%string.
Definition eO : elt := "O"%string.
Definition eCharge : elt := "Charge"%string.

Definition Qltb (a b : Q) : bool := negb (Qle_bool b a).

(* ---------------------------------------------------------------- entities *)
Record solution := mkSol { s_totals : inv; s_h : Q; s_o : Q; s_cb : Q }.
Record exch_comp := mkEC { ec_totals : inv; ec_cb : Q }.
Record exchange := mkExch { ex_new_def : bool; ex_comps : list exch_comp }.
Inductive stype := UNKNOWN_DL | NO_EDL | DDL | CD_MUSIC | CCM.
Inductive dltype := NO_DL | BORKOVEK_DL | DONNAN_DL.
Record surf_comp := mkSC { sc_totals : inv; sc_cb : Q }.
Record surf_charge := mkSQ { sq_cb : Q; sq_dl : inv }.
Record surface := mkSurf { sf_type : stype; sf_dl : dltype; sf_new_def : bool;
                           sf_comps : list surf_comp; sf_charges : list surf_charge }.
Record phase_amt := mkPA { pa_formula : inv; pa_moles : Q }.      (* gas component / solid-solution component *)
Record pp_comp := mkPP { pp_formula : inv; pp_moles : Q; pp_precip_only : bool; pp_delta : Q }.
Record pp_assemblage := mkPPA { ppa_eltlist : list elt; ppa_comps : list pp_comp }.
Record kin_comp := mkKC { kc_formula : inv; kc_m : Q }.
Record kinetics := mkKin { k_comps : list kin_comp; k_totals : inv }.
Definition reactants := list (Q * inv).                           (* (coefficient, elements of one mole) *)

Record use := mkUse {
  u_mix : option (list (Q * solution));
  u_solution : option solution;
  u_reaction : option reactants;
  u_kinetics : option kinetics;
  u_exchange : option exchange;
  u_surface : option surface;
  u_gas : option (list phase_amt);
  u_pp : option pp_assemblage;
  u_ss : option (list phase_amt) }.

(* ---------------------------------------------------------------- the _x accumulator of step() *)
Record xstate := mkX { x_tot : inv; x_h : Q; x_o : Q; x_cb : Q }.
Definition x0 : xstate := mkX nil 0 0 0.                         (* xsolution_zero *)

Definition is_h (e : elt) := String.eqb e eH.
Definition is_o (e : elt) := String.eqb e eO.

(* "if (master_ptr->s == s_hplus) total_h_x += c; else if (== s_h2o) total_o_x += c; else master_ptr->total += c" *)
Definition route (x : xstate) (e : elt) (c : Q) : xstate :=
  if is_h e then mkX (x_tot x) (x_h x + c) (x_o x) (x_cb x)
  else if is_o e then mkX (x_tot x) (x_h x) (x_o x + c) (x_cb x)
  else mkX ((e, c) :: x_tot x) (x_h x) (x_o x) (x_cb x).

Definition route_all (x : xstate) (a : inv) (k : Q) : xstate :=
  fold_left (fun x p => route x (fst p) (k * snd p)) a x.

Definition add_cb (x : xstate) (c : Q) : xstate := mkX (x_tot x) (x_h x) (x_o x) (x_cb x + c).

Definition flat (x : xstate) : inv := (eH, x_h x) :: (eO, x_o x) :: (eCharge, x_cb x) :: x_tot x.

(* add_solution: extensive part only *)
Definition add_solution (x : xstate) (s : solution) (ext : Q) : xstate :=
  mkX (iscale ext (s_totals s) ++ x_tot x) (x_h x + s_h s * ext) (x_o x + s_o s * ext) (x_cb x + s_cb s * ext).

Definition add_mix (x : xstate) (m : list (Q * solution)) : xstate :=
  fold_left (fun x p => add_solution x (snd p) (fst p)) m x.

(* reaction_calc: element list of the reaction = sum coef * elements(reactant) *)
Definition reaction_calc (r : reactants) : inv := List.concat (map (fun p => iscale (fst p) (snd p)) r).

(* add_reaction, accumulation loop: amt = step_x * step_fraction (units factor included in step_x) *)
Definition add_reaction (x : xstate) (r : reactants) (amt : Q) : xstate := route_all x (reaction_calc r) amt.

Definition add_kinetics (x : xstate) (k : kinetics) : xstate := route_all x (k_totals k) 1.

Definition add_exchange (x : xstate) (e : exchange) : xstate :=
  let x1 := fold_left (fun x c => route_all x (ec_totals c) 1) (ex_comps e) x in
  if ex_new_def e then x1 else fold_left (fun x c => add_cb x (ec_cb c)) (ex_comps e) x1.

Definition is_edl (t : stype) : bool := match t with DDL | CCM | CD_MUSIC => true | _ => false end.
Definition is_no_edl (t : stype) : bool := match t with NO_EDL => true | _ => false end.
Definition has_dl (d : dltype) : bool := match d with NO_DL => false | _ => true end.

Definition add_surface (x : xstate) (s : surface) : xstate :=
  let x1 := fold_left (fun x c =>
              let xa := if is_no_edl (sf_type s) then add_cb x (sc_cb c) else x in
              route_all xa (sc_totals c) 1) (sf_comps s) x in
  if negb (is_edl (sf_type s)) then x1 else
  fold_left (fun x q =>
     let xa := add_cb x (sq_cb q) in
     if has_dl (sf_dl s) && negb (sf_new_def s) then route_all xa (sq_dl q) 1 else xa) (sf_charges s) x1.

Definition add_gas_phase (x : xstate) (g : list phase_amt) : xstate :=
  fold_left (fun x c => route_all x (pa_formula c) (pa_moles c)) g x.

Definition MIN_TOTAL : Q := 1 # (10 ^ 25).
Definition MIN_TOTAL_SS : Q := MIN_TOTAL / 100.
Definition skip_elt (e : elt) : bool := is_h e || is_o e.

(* largest (-total + 1e-10)/coef over the elements of the formula that are missing from the solution *)
Definition need (mt : Q) (x : xstate) (f : inv) : Q :=
  fold_left (fun a p =>
     if skip_elt (fst p) then a else
     let t := get (fst p) (x_tot x) in
     if Qltb mt t then a else
     let total := (- t + (1 # 10 ^ 10)) / snd p in
     if Qltb a total then total else a) f 0.

Definition pp_step (x : xstate) (c : pp_comp) : xstate * pp_comp :=
  if pp_precip_only c then (x, c) else
  let nd := if Qltb 0 (pp_moles c)
            then (let n := need MIN_TOTAL x (pp_formula c) in if Qltb (pp_moles c) n then pp_moles c else n)
            else 0 in
  if Qltb 0 nd
  then (route_all x (pp_formula c) nd, mkPP (pp_formula c) (pp_moles c - nd) (pp_precip_only c) nd)
  else (x, mkPP (pp_formula c) (pp_moles c) (pp_precip_only c) 0).

Fixpoint pp_steps (x : xstate) (cs : list pp_comp) : xstate * list pp_comp :=
  match cs with
  | nil => (x, nil)
  | c :: r => let (x1, c1) := pp_step x c in let (x2, r2) := pp_steps x1 r in (x2, c1 :: r2)
  end.

Definition check_pp (x : xstate) (p : pp_assemblage) : bool :=
  forallb (fun e => skip_elt e || Qltb MIN_TOTAL (get e (x_tot x))) (ppa_eltlist p).

Definition add_pp (x : xstate) (p : pp_assemblage) : xstate * pp_assemblage :=
  if check_pp x p then (x, p) else
  let (x', cs) := pp_steps x (ppa_comps p) in (x', mkPPA (ppa_eltlist p) cs).

Definition ss_step (x : xstate) (c : phase_amt) : xstate * phase_amt :=
  let n0 := if Qltb 0 (pa_moles c) then need MIN_TOTAL_SS x (pa_formula c) else 0 in
  let nd := if Qltb (pa_moles c) n0 then pa_moles c else n0 in
  if Qltb 0 nd then (route_all x (pa_formula c) nd, mkPA (pa_formula c) (pa_moles c - nd)) else (x, c).

Fixpoint ss_steps (x : xstate) (cs : list phase_amt) : xstate * list phase_amt :=
  match cs with
  | nil => (x, nil)
  | c :: r => let (x1, c1) := ss_step x c in let (x2, r2) := ss_steps x1 r in (x2, c1 :: r2)
  end.

Inductive outcome :=
| Ok (x : xstate) (pp : option pp_assemblage) (ss : option (list phase_amt))
| NoSolution.

Definition oapp {A} (f : xstate -> A -> xstate) (x : xstate) (o : option A) : xstate :=
  match o with Some a => f x a | None => x end.

(* Phreeqc::step up to solution_check: order of the calls as in the source *)
Definition assemble (u : use) (amt : Q) : outcome :=
  let start := match u_mix u with
               | Some m => Some (add_mix x0 m)
               | None => match u_solution u with Some s => Some (add_solution x0 s 1) | None => None end
               end in
  match start with
  | None => NoSolution
  | Some x1 =>
    let x2 := match u_reaction u with Some r => add_reaction x1 r amt | None => x1 end in
    let x3 := oapp add_kinetics x2 (u_kinetics u) in
    let x4 := oapp add_exchange x3 (u_exchange u) in
    let x5 := oapp add_surface x4 (u_surface u) in
    let x6 := oapp add_gas_phase x5 (u_gas u) in
    let '(x7, pp') := match u_pp u with
                      | Some p => let (x, p') := add_pp x6 p in (x, Some p')
                      | None => (x6, None) end in
    let '(x8, ss') := match u_ss u with
                      | Some s => let (x, s') := ss_steps x7 s in (x, Some s')
                      | None => (x7, None) end in
    Ok x8 pp' ss'
  end.

(* ---------------------------------------------------------------- declarative inventories (the specification) *)
Definition oinv {A} (f : A -> inv) (o : option A) : inv := match o with Some a => f a | None => nil end.

Definition inv_solution (s : solution) : inv := (eH, s_h s) :: (eO, s_o s) :: (eCharge, s_cb s) :: s_totals s.
Definition inv_mix (m : list (Q * solution)) : inv :=
  List.concat (map (fun p => iscale (fst p) (inv_solution (snd p))) m).
Definition inv_exch_comp (nd : bool) (c : exch_comp) : inv :=
  if nd then ec_totals c else (eCharge, ec_cb c) :: ec_totals c.
Definition inv_exchange (e : exchange) : inv := List.concat (map (inv_exch_comp (ex_new_def e)) (ex_comps e)).
Definition inv_surf_comp (t : stype) (c : surf_comp) : inv :=
  if is_no_edl t then (eCharge, sc_cb c) :: sc_totals c else sc_totals c.
Definition inv_surf_charge (d : dltype) (nd : bool) (q : surf_charge) : inv :=
  (eCharge, sq_cb q) :: (if has_dl d && negb nd then sq_dl q else nil).
Definition inv_surface (s : surface) : inv :=
  List.concat (map (inv_surf_comp (sf_type s)) (sf_comps s)) ++
  (if is_edl (sf_type s) then List.concat (map (inv_surf_charge (sf_dl s) (sf_new_def s)) (sf_charges s)) else nil).
Definition inv_pa (c : phase_amt) : inv := iscale (pa_moles c) (pa_formula c).
Definition inv_pas (g : list phase_amt) : inv := List.concat (map inv_pa g).
Definition inv_ppc (c : pp_comp) : inv := iscale (pp_moles c) (pp_formula c).
Definition inv_pp (p : pp_assemblage) : inv := List.concat (map inv_ppc (ppa_comps p)).
Definition inv_kc (c : kin_comp) : inv := iscale (kc_m c) (kc_formula c).
Definition inv_kin (k : kinetics) : inv := List.concat (map inv_kc (k_comps k)).

Definition inv_start (u : use) : inv :=
  match u_mix u with Some m => inv_mix m | None => oinv inv_solution (u_solution u) end.

(* everything the step starts from, except the kinetic reactants *)
Definition inv_use (u : use) : inv :=
  inv_start u ++ oinv inv_exchange (u_exchange u) ++ oinv inv_surface (u_surface u) ++
  oinv inv_pas (u_gas u) ++ oinv inv_pp (u_pp u) ++ oinv inv_pas (u_ss u).

(* ---------------------------------------------------------------- kinetics: what the integrator hands to add_kinetics *)
(* d_j = moles of reactant j that reacted in this step (cxxKineticsComp::moles); totals = sum d_j * formula_j *)
Fixpoint kin_apply (cs : list kin_comp) (d : list Q) : list kin_comp * inv :=
  match cs, d with
  | c :: r, dj :: dr => let (r', t) := kin_apply r dr in
                        (mkKC (kc_formula c) (kc_m c - dj) :: r', iscale dj (kc_formula c) ++ t)
  | _, _ => (cs, nil)
  end.

(* ---------------------------------------------------------------- write-back (saver + x*_save) *)
(* what the equilibrium solver leaves in the unknowns / species lists, already summed per entity *)
Record eq_result := mkRes {
  q_sol : solution;                       (* master totals, total_h_x, total_o_x, cb_x after the solve *)
  q_exch : list (inv * Q);                (* per exchange component: sum species elts, sum moles*z *)
  q_surf : list (inv * Q);                (* per surface component *)
  q_charge : list (Q * inv);              (* per surface charge: x->f (or CD-MUSIC sigma sum), diffuse layer totals *)
  q_gas : list Q;                         (* phase->moles_x *)
  q_pp : list Q;                          (* x[j]->moles *)
  q_ss : list Q }.

Fixpoint map2 {A B C} (f : A -> B -> C) (l : list A) (m : list B) : list C :=
  match l, m with a :: l', b :: m' => f a b :: map2 f l' m' | _, _ => nil end.

Definition xexchange_save (e : exchange) (r : list (inv * Q)) : exchange :=
  mkExch false (map2 (fun _ p => mkEC (fst p) (snd p)) (ex_comps e) r).

Definition xsurface_save (s : surface) (rc : list (inv * Q)) (rq : list (Q * inv)) : surface :=
  mkSurf (sf_type s) (sf_dl s) false
    (map2 (fun _ p => mkSC (fst p) (snd p)) (sf_comps s) rc)
    (if is_no_edl (sf_type s) then nil
     else map2 (fun q p => mkSQ (fst p) (if has_dl (sf_dl s) then snd p else sq_dl q)) (sf_charges s) rq).

Definition xgas_save (g : list phase_amt) (r : list Q) : list phase_amt :=
  map2 (fun c m => mkPA (pa_formula c) m) g r.

Definition xpp_save (p : pp_assemblage) (r : list Q) : pp_assemblage :=
  mkPPA (ppa_eltlist p) (map2 (fun c m => mkPP (pp_formula c) m (pp_precip_only c) 0) (ppa_comps p) r).

Definition xss_save (s : list phase_amt) (r : list Q) : list phase_amt :=
  map2 (fun c m => mkPA (pa_formula c) m) s r.

(* the entities of one cell after / before a step *)
Record ents := mkEnts {
  n_solution : solution;
  n_exchange : option exchange;
  n_surface : option surface;
  n_gas : option (list phase_amt);
  n_pp : option pp_assemblage;
  n_ss : option (list phase_amt);
  n_kin : option kinetics }.

Definition inv_ents (n : ents) : inv :=
  inv_solution (n_solution n) ++ oinv inv_exchange (n_exchange n) ++ oinv inv_surface (n_surface n) ++
  oinv inv_pas (n_gas n) ++ oinv inv_pp (n_pp n) ++ oinv inv_pas (n_ss n) ++ oinv inv_kin (n_kin n).

Definition saver (u : use) (pp' : option pp_assemblage) (ss' : option (list phase_amt))
                 (k' : option kinetics) (r : eq_result) : ents :=
  mkEnts (q_sol r)
         (option_map (fun e => xexchange_save e (q_exch r)) (u_exchange u))
         (option_map (fun s => xsurface_save s (q_surf r) (q_charge r)) (u_surface u))
         (option_map (fun g => xgas_save g (q_gas r)) (u_gas u))
         (option_map (fun p => xpp_save p (q_pp r)) pp')
         (option_map (fun s => xss_save s (q_ss r)) ss')
         k'.

(* all reactant amounts of a set of entities (for the non-negativity half of the property) *)
Definition olist {A} (f : A -> list Q) (o : option A) : list Q := match o with Some a => f a | None => nil end.
Definition amounts (n : ents) : list Q :=
  olist (map pa_moles) (n_gas n) ++
  olist (fun p => map pp_moles (ppa_comps p)) (n_pp n) ++
  olist (map pa_moles) (n_ss n) ++
  olist (fun k => map kc_m (k_comps k)) (n_kin n) ++
  olist (fun e => map snd (List.concat (map ec_totals (ex_comps e)))) (n_exchange n).
