(* C02 -- inventories: finite maps element -> Q represented as association lists with
   additive duplicates (the value of a key is the SUM of its entries).  Concatenation is
   addition, which is how the C++ accumulates into master->total / total_h_x / total_o_x. *)
From Coq Require Import QArith Qabs String List Bool Lia Lqa.
Import ListNotations.
Open Scope Q_scope.

Definition elt := string.
Definition inv := list (elt * Q).

Fixpoint get (e : elt) (a : inv) : Q :=
  match a with
  | nil => 0
  | (k, v) :: r => (if String.eqb k e then v else 0) + get e r
  end.

Definition iscale (k : Q) (a : inv) : inv := map (fun p => (fst p, k * snd p)) a.
Definition isum (l : list inv) : inv := List.concat l.
Definition ieq (a b : inv) : Prop := forall e, get e a == get e b.
Definition keys (a : inv) : list elt := map fst a.

Lemma get_nil e : get e nil == 0.
Proof. reflexivity. Qed.

Lemma get_cons e k v r : get e ((k, v) :: r) == (if String.eqb k e then v else 0) + get e r.
Proof. reflexivity. Qed.

Lemma get_app e a b : get e (a ++ b) == get e a + get e b.
Proof.
  induction a as [|[k v] a IH]; simpl.
  - ring.
  - rewrite IH. ring.
Qed.

Lemma get_scale e k a : get e (iscale k a) == k * get e a.
Proof.
  induction a as [|[k' v] a IH]; simpl.
  - ring.
  - rewrite IH. destruct (String.eqb k' e); ring.
Qed.

Lemma get_concat_cons e a l : get e (List.concat (a :: l)) == get e a + get e (List.concat l).
Proof. simpl. apply get_app. Qed.

Lemma get_notin e a : ~ In e (keys a) -> get e a == 0.
Proof.
  induction a as [|[k v] a IH]; simpl; intro H.
  - reflexivity.
  - destruct (String.eqb k e) eqn:E.
    + apply String.eqb_eq in E. exfalso. apply H. now left.
    + rewrite IH. ring. intro; apply H; now right.
Qed.

Lemma ieq_refl a : ieq a a.
Proof. intro; reflexivity. Qed.

Lemma ieq_trans a b c : ieq a b -> ieq b c -> ieq a c.
Proof. intros H1 H2 e. rewrite (H1 e). apply H2. Qed.

Lemma ieq_sym a b : ieq a b -> ieq b a.
Proof. intros H e. symmetry. apply H. Qed.

Lemma ieq_app a a' b b' : ieq a a' -> ieq b b' -> ieq (a ++ b) (a' ++ b').
Proof. intros H1 H2 e. rewrite !get_app, (H1 e), (H2 e). reflexivity. Qed.

Lemma ieq_app_comm a b : ieq (a ++ b) (b ++ a).
Proof. intro e. rewrite !get_app. ring. Qed.

(* sum of a list of rationals *)
Fixpoint qsum (l : list Q) : Q := match l with nil => 0 | x :: r => x + qsum r end.

Lemma qsum_app a b : qsum (a ++ b) == qsum a + qsum b.
Proof. induction a; simpl. ring. rewrite IHa. ring. Qed.

(* sum of absolute values of the entries whose key is not excluded *)
Fixpoint sum_abs_except (ex : elt -> bool) (a : inv) : Q :=
  match a with
  | nil => 0
  | (k, v) :: r => (if ex k then 0 else Qabs v) + sum_abs_except ex r
  end.

Lemma sum_abs_except_nonneg ex a : 0 <= sum_abs_except ex a.
Proof.
  induction a as [|[k v] a IH]; simpl. lra.
  destruct (ex k). lra. pose proof (Qabs_nonneg v). lra.
Qed.

Example get_example : get "Ca"%string [("Ca"%string, 1 # 2); ("Cl"%string, 1); ("Ca"%string, 1 # 4)] == 3 # 4.
Proof. reflexivity. Qed.
