(* C02 -- one reaction step conserves the inventory, for ANY equilibrium solver that meets residual
   bounds; chains of SAVE/USE steps by induction. *)
From Coq Require Import QArith Qabs String List Bool ZArith Lia Lqa.
From IPV.C02 Require Import Inv Model AssembleProofs.
Import ListNotations.
Open Scope Q_scope.
Local Arguments String.eqb : simpl never.
Local Arguments get : simpl never.

(* ---------------------------------------------------------------- kinetics: transfer is internal *)
Lemma kin_apply_conserves e : forall cs d,
  get e (List.concat (map inv_kc (fst (kin_apply cs d)))) + get e (snd (kin_apply cs d))
  == get e (List.concat (map inv_kc cs)).
Proof.
  induction cs as [|c r IH]; intros d.
  - cbn. rewrite ?(get_nil e). ring.
  - destruct d as [|dj dr].
    + cbn [kin_apply fst snd]. rewrite (get_nil e). ring.
    + cbn [kin_apply]. specialize (IH dr). destruct (kin_apply r dr) as [r' t].
      cbn [fst snd map List.concat] in *. rewrite !get_app. unfold inv_kc at 1 3. cbn [kc_m kc_formula].
      rewrite !get_scale. lra.
Qed.

(* kinetics before the step: reactants `cs`; the integrator moved d_j moles of each into the solution *)
Definition kin_after (kb : option (list kin_comp * list Q)) : option kinetics :=
  option_map (fun p => let (cs', t) := kin_apply (fst p) (snd p) in mkKin cs' t) kb.
Definition inv_kin_before (kb : option (list kin_comp * list Q)) : inv :=
  oinv (fun p => List.concat (map inv_kc (fst p))) kb.

Lemma kin_after_conserves e kb :
  get e (oinv inv_kin (kin_after kb)) + get e (oinv k_totals (kin_after kb)) == get e (inv_kin_before kb).
Proof.
  destruct kb as [[cs d]|]; cbn [kin_after option_map oinv inv_kin_before fst snd].
  - pose proof (kin_apply_conserves e cs d) as H. destruct (kin_apply cs d) as [cs' t].
    unfold inv_kin. cbn [k_comps k_totals fst snd] in *. exact H.
  - rewrite ?(get_nil e). ring.
Qed.

Section OneStep.
  (* eps e: what the solver's convergence tests allow for element e (mass-balance, MH, MH2O, CB rows) *)
  Variable eps : elt -> Q.

  (* The solver is an oracle: ANY result `r` is admitted as long as the inventory of what `saver` writes
     back differs from the assembled system by at most eps. *)
  Definition residual_ok (u : use) (x : xstate) (pp' : option pp_assemblage) (ss' : option (list phase_amt))
             (r : eq_result) : Prop :=
    forall e, Qabs (get e (inv_ents (saver u pp' ss' None r)) -
                    get e (flat x ++ oinv inv_pp pp' ++ oinv inv_pas ss')) <= eps e.

  Theorem step_conserves : forall u amt x pp' ss' r kb,
    assemble u amt = Ok x pp' ss' ->
    u_kinetics u = kin_after kb ->
    residual_ok u x pp' ss' r ->
    forall e,
      Qabs (get e (inv_ents (saver u pp' ss' (kin_after kb) r)) -
            (get e (inv_use u) + get e (inv_kin_before kb) + amt * get e (oinv reaction_calc (u_reaction u))))
      <= eps e.
  Proof.
    intros u amt x pp' ss' r kb Ha Hk Hr e.
    pose proof (assemble_is_sum u amt x pp' ss' Ha e) as Hs.
    pose proof (kin_after_conserves e kb) as Hkc.
    specialize (Hr e).
    rewrite Hk in Hs.
    assert (E : get e (inv_ents (saver u pp' ss' (kin_after kb) r)) ==
                get e (inv_ents (saver u pp' ss' None r)) + get e (oinv inv_kin (kin_after kb))).
    { unfold inv_ents, saver. cbn [n_solution n_exchange n_surface n_gas n_pp n_ss n_kin oinv].
      rewrite !get_app, (get_nil e). ring. }
    rewrite !get_app, get_scale in Hs.
    rewrite !get_app in Hr.
    setoid_replace (get e (inv_ents (saver u pp' ss' (kin_after kb) r)) -
            (get e (inv_use u) + get e (inv_kin_before kb) + amt * get e (oinv reaction_calc (u_reaction u))))
      with (get e (inv_ents (saver u pp' ss' None r)) -
            (get e (flat x) + (get e (oinv inv_pp pp') + get e (oinv inv_pas ss')))).
    - exact Hr.
    - rewrite E. lra.
  Qed.
End OneStep.

(* ---------------------------------------------------------------- chains of SAVE / USE *)
Record step_io := mkIO {
  io_use : use;                                   (* what the USE / MIX keywords select *)
  io_amt : Q;                                     (* amount of reaction added in this step *)
  io_kb : option (list kin_comp * list Q);        (* kinetic reactants before the step, moles transferred *)
  io_res : eq_result }.                           (* what the solver returned *)

Definition io_rxn (s : step_io) : inv := iscale (io_amt s) (oinv reaction_calc (u_reaction (io_use s))).

(* one USE ... SAVE step starting from a system whose inventory is `before` *)
Definition step_ok (eps : elt -> Q) (before : inv) (s : step_io) (after : ents) : Prop :=
  exists x pp' ss',
    assemble (io_use s) (io_amt s) = Ok x pp' ss' /\
    u_kinetics (io_use s) = kin_after (io_kb s) /\
    residual_ok eps (io_use s) x pp' ss' (io_res s) /\
    after = saver (io_use s) pp' ss' (kin_after (io_kb s)) (io_res s) /\
    ieq before (inv_use (io_use s) ++ inv_kin_before (io_kb s)).      (* USE picks up exactly what was saved *)

Inductive chain (eps : elt -> Q) : inv -> list step_io -> inv -> Prop :=
| chain_nil : forall b, chain eps b nil b
| chain_cons : forall b s after rest fin,
    step_ok eps b s after -> chain eps (inv_ents after) rest fin -> chain eps b (s :: rest) fin.

Theorem steps_conserve : forall eps b l fin,
  chain eps b l fin ->
  forall e, Qabs (get e fin - (get e b + get e (List.concat (map io_rxn l))))
            <= inject_Z (Z.of_nat (length l)) * eps e.
Proof.
  intros eps b l fin H. induction H as [b | b s after rest fin Hs Hc IH]; intro e.
  - cbn [map List.concat length Z.of_nat]. rewrite (get_nil e).
    setoid_replace (get e b - (get e b + 0)) with 0 by ring.
    change (inject_Z 0) with 0. rewrite Qabs_pos; lra.
  - destruct Hs as (x & pp' & ss' & Ha & Hk & Hr & Haft & Hb).
    pose proof (step_conserves eps _ _ _ _ _ _ _ Ha Hk Hr e) as H1.
    rewrite <- Haft in H1. specialize (IH e).
    specialize (Hb e). rewrite get_app in Hb.
    cbn [map List.concat length]. rewrite get_app. unfold io_rxn at 1. rewrite get_scale.
    rewrite Nat2Z.inj_succ. unfold Z.succ. rewrite inject_Z_plus. change (inject_Z 1) with 1.
    set (A := get e (inv_ents after)) in *.
    set (R := get e (List.concat (map io_rxn rest))) in *.
    set (r1 := io_amt s * get e (oinv reaction_calc (u_reaction (io_use s)))) in *.
    setoid_replace (get e fin - (get e b + (r1 + R)))
      with ((get e fin - (A + R)) + (A - (get e (inv_use (io_use s)) + get e (inv_kin_before (io_kb s)) + r1)))
      by (rewrite Hb; ring).
    eapply Qle_trans. apply Qabs_triangle. lra.
Qed.
