(* C02 -- proofs about the assembly of the reacting system (Model.assemble). *)
From Coq Require Import QArith Qabs String List Bool ZArith Lia Lqa.
From IPV.C02 Require Import Inv Model.
Import ListNotations.
Open Scope Q_scope.
Local Arguments String.eqb : simpl never.
Local Arguments Qeq : simpl never.
Local Arguments get : simpl never.
Local Arguments flat : simpl never.
Local Arguments Qplus : simpl never.
Local Arguments Qmult : simpl never.
Local Arguments Qle : simpl never.
Local Arguments Qminus : simpl never.
Local Arguments Qopp : simpl never.

Lemma Qltb_true a b : Qltb a b = true <-> a < b.
Proof.
  unfold Qltb. rewrite negb_true_iff. split; intro H.
  - apply Qnot_le_lt. intro L. apply Qle_bool_iff in L. congruence.
  - destruct (Qle_bool b a) eqn:E; auto. apply Qle_bool_iff in E. lra.
Qed.

Lemma Qltb_false a b : Qltb a b = false <-> b <= a.
Proof.
  unfold Qltb. rewrite negb_false_iff. apply Qle_bool_iff.
Qed.

(* ---------------------------------------------------------------- routing *)
Lemma get_flat_route e x k c :
  get e (flat (route x k c)) == get e (flat x) + (if String.eqb k e then c else 0).
Proof.
  unfold route. destruct (is_h k) eqn:Hh.
  - apply String.eqb_eq in Hh. subst k. unfold flat. rewrite !get_cons. cbn [x_h x_o x_cb x_tot].
    destruct (String.eqb eH e), (String.eqb eO e), (String.eqb eCharge e); ring.
  - destruct (is_o k) eqn:Ho.
    + apply String.eqb_eq in Ho. subst k. unfold flat. rewrite !get_cons. cbn [x_h x_o x_cb x_tot].
      destruct (String.eqb eH e), (String.eqb eO e), (String.eqb eCharge e); ring.
    + unfold flat. rewrite !get_cons. cbn [x_h x_o x_cb x_tot]. rewrite get_cons.
      destruct (String.eqb eH e), (String.eqb eO e), (String.eqb eCharge e), (String.eqb k e); ring.
Qed.

Lemma get_flat_route_all e a : forall x k,
  get e (flat (route_all x a k)) == get e (flat x) + k * get e a.
Proof.
  unfold route_all. induction a as [|[n v] a IH]; intros x k; cbn [fold_left fst snd].
  - rewrite get_nil. ring.
  - rewrite IH, get_flat_route, get_cons. destruct (String.eqb n e); ring.
Qed.

Lemma get_flat_add_cb e x c : get e (flat (add_cb x c)) == get e (flat x) + get e [(eCharge, c)].
Proof.
  unfold flat, add_cb. rewrite !get_cons, get_nil. cbn [x_h x_o x_cb x_tot].
  destruct (String.eqb eH e), (String.eqb eO e), (String.eqb eCharge e); ring.
Qed.

(* generic: a fold whose step adds g(c) to the flattened state adds the concatenation *)
Lemma fold_flat {A} (f : xstate -> A -> xstate) (g : A -> inv) :
  (forall x c e, get e (flat (f x c)) == get e (flat x) + get e (g c)) ->
  forall l x e, get e (flat (fold_left f l x)) == get e (flat x) + get e (List.concat (map g l)).
Proof.
  intros Hf l. induction l as [|c l IH]; intros x e; cbn [fold_left map List.concat].
  - rewrite get_nil. ring.
  - rewrite IH, Hf, get_app. ring.
Qed.

(* ---------------------------------------------------------------- the add_* functions *)
Lemma add_solution_flat e x s k :
  get e (flat (add_solution x s k)) == get e (flat x) + get e (iscale k (inv_solution s)).
Proof.
  unfold add_solution, flat, inv_solution. rewrite get_scale, !get_cons. cbn [x_h x_o x_cb x_tot].
  rewrite get_app, get_scale.
  destruct (String.eqb eH e), (String.eqb eO e), (String.eqb eCharge e); ring.
Qed.

Lemma add_mix_flat e x m : get e (flat (add_mix x m)) == get e (flat x) + get e (inv_mix m).
Proof.
  unfold add_mix, inv_mix.
  apply (fold_flat (fun x p => add_solution x (snd p) (fst p)) (fun p => iscale (fst p) (inv_solution (snd p)))).
  intros. apply add_solution_flat.
Qed.

Lemma add_reaction_flat e x r amt :
  get e (flat (add_reaction x r amt)) == get e (flat x) + amt * get e (reaction_calc r).
Proof. unfold add_reaction. apply get_flat_route_all. Qed.

Lemma add_kinetics_flat e x k : get e (flat (add_kinetics x k)) == get e (flat x) + get e (k_totals k).
Proof. unfold add_kinetics. rewrite get_flat_route_all. ring. Qed.

Lemma add_exchange_flat e x ex : get e (flat (add_exchange x ex)) == get e (flat x) + get e (inv_exchange ex).
Proof.
  unfold add_exchange, inv_exchange.
  pose proof (fold_flat (fun x c => route_all x (ec_totals c) 1) ec_totals) as H1.
  pose proof (fold_flat (fun x c => add_cb x (ec_cb c)) (fun c => [(eCharge, ec_cb c)])) as H2.
  destruct (ex_new_def ex).
  - rewrite H1. reflexivity. intros. rewrite get_flat_route_all. ring.
  - rewrite H2, H1.
    + clear. induction (ex_comps ex) as [|c l IH]; cbn [map List.concat].
      * rewrite get_nil. ring.
      * rewrite !get_app in *. unfold inv_exch_comp at 1. rewrite !get_cons, get_nil.
        destruct (String.eqb eCharge e); lra.
    + intros. rewrite get_flat_route_all. ring.
    + intros. apply get_flat_add_cb.
Qed.

Lemma add_surface_flat e x s : get e (flat (add_surface x s)) == get e (flat x) + get e (inv_surface s).
Proof.
  unfold add_surface, inv_surface. rewrite get_app.
  assert (H1 : forall x, get e (flat (fold_left (fun x c =>
              let xa := if is_no_edl (sf_type s) then add_cb x (sc_cb c) else x in
              route_all xa (sc_totals c) 1) (sf_comps s) x)) ==
              get e (flat x) + get e (List.concat (map (inv_surf_comp (sf_type s)) (sf_comps s)))).
  { intro x'. apply (fold_flat _ (inv_surf_comp (sf_type s))). intros x1 c e1. cbv zeta.
    unfold inv_surf_comp. rewrite get_flat_route_all.
    destruct (is_no_edl (sf_type s)).
    - rewrite get_flat_add_cb, !get_cons, get_nil. ring.
    - ring. }
  destruct (is_edl (sf_type s)); cbn [negb].
  - rewrite (fold_flat _ (inv_surf_charge (sf_dl s) (sf_new_def s))).
    + rewrite H1. ring.
    + intros x1 q e1. cbv zeta. unfold inv_surf_charge.
      destruct (has_dl (sf_dl s) && negb (sf_new_def s)).
      * rewrite get_flat_route_all, get_flat_add_cb, !get_cons, get_nil. ring.
      * rewrite get_flat_add_cb. reflexivity.
  - rewrite H1, get_nil. ring.
Qed.

Lemma add_gas_flat e x g : get e (flat (add_gas_phase x g)) == get e (flat x) + get e (inv_pas g).
Proof.
  unfold add_gas_phase, inv_pas. apply (fold_flat _ inv_pa).
  intros. rewrite get_flat_route_all. unfold inv_pa. rewrite get_scale. ring.
Qed.

(* ---------------------------------------------------------------- pure phases / solid solutions: internal transfer *)
Lemma pp_step_conserves e x c :
  get e (flat (fst (pp_step x c))) + get e (inv_ppc (snd (pp_step x c))) == get e (flat x) + get e (inv_ppc c).
Proof.
  unfold pp_step. destruct (pp_precip_only c). reflexivity.
  match goal with |- context [Qltb 0 ?n] => set (nd := n) end.
  destruct (Qltb 0 nd); simpl.
  - rewrite get_flat_route_all. unfold inv_ppc. simpl. rewrite !get_scale. ring.
  - unfold inv_ppc. simpl. reflexivity.
Qed.

Lemma pp_steps_conserves e cs : forall x,
  get e (flat (fst (pp_steps x cs))) + get e (List.concat (map inv_ppc (snd (pp_steps x cs))))
  == get e (flat x) + get e (List.concat (map inv_ppc cs)).
Proof.
  induction cs as [|c r IH]; intro x; simpl.
  - reflexivity.
  - pose proof (pp_step_conserves e x c) as H1.
    destruct (pp_step x c) as [x1 c1]. simpl in H1.
    specialize (IH x1). destruct (pp_steps x1 r) as [x2 r2]. simpl in *.
    rewrite !get_app. lra.
Qed.

Lemma add_pp_conserves e x p :
  get e (flat (fst (add_pp x p))) + get e (inv_pp (snd (add_pp x p))) == get e (flat x) + get e (inv_pp p).
Proof.
  unfold add_pp. destruct (check_pp x p). reflexivity.
  pose proof (pp_steps_conserves e (ppa_comps p) x) as H.
  destruct (pp_steps x (ppa_comps p)) as [x' cs]. simpl in *. unfold inv_pp. simpl. exact H.
Qed.

Lemma ss_step_conserves e x c :
  get e (flat (fst (ss_step x c))) + get e (inv_pa (snd (ss_step x c))) == get e (flat x) + get e (inv_pa c).
Proof.
  unfold ss_step. cbv zeta.
  match goal with |- context [Qltb 0 ?n] => set (nd := n) end.
  destruct (Qltb 0 nd); simpl.
  - rewrite get_flat_route_all. unfold inv_pa. simpl. rewrite !get_scale. ring.
  - reflexivity.
Qed.

Lemma ss_steps_conserves e cs : forall x,
  get e (flat (fst (ss_steps x cs))) + get e (inv_pas (snd (ss_steps x cs))) == get e (flat x) + get e (inv_pas cs).
Proof.
  unfold inv_pas. induction cs as [|c r IH]; intro x; simpl.
  - reflexivity.
  - pose proof (ss_step_conserves e x c) as H1.
    destruct (ss_step x c) as [x1 c1]. simpl in H1.
    specialize (IH x1). destruct (ss_steps x1 r) as [x2 r2]. simpl in *.
    rewrite !get_app. lra.
Qed.

(* non-negativity: the "small amount added to the solution" never exceeds what the phase holds *)
Lemma pp_step_nonneg x c : 0 <= pp_moles c -> 0 <= pp_moles (snd (pp_step x c)).
Proof.
  intro H. unfold pp_step. destruct (pp_precip_only c). exact H.
  destruct (Qltb 0 (pp_moles c)) eqn:Hm.
  - set (n := need MIN_TOTAL x (pp_formula c)).
    destruct (Qltb (pp_moles c) n) eqn:Hn.
    + rewrite Hm. simpl. lra.
    + apply Qltb_false in Hn. destruct (Qltb 0 n); simpl; lra.
  - assert (Hz : Qltb 0 0 = false) by reflexivity. rewrite Hz. simpl. exact H.
Qed.

Lemma pp_steps_nonneg cs : forall x,
  Forall (fun c => 0 <= pp_moles c) cs -> Forall (fun c => 0 <= pp_moles c) (snd (pp_steps x cs)).
Proof.
  induction cs as [|c r IH]; intros x H; simpl.
  - constructor.
  - inversion H; subst. pose proof (pp_step_nonneg x c H2) as H1.
    destruct (pp_step x c) as [x1 c1]. specialize (IH x1 H3).
    destruct (pp_steps x1 r) as [x2 r2]. simpl in *. constructor; assumption.
Qed.

Lemma ss_step_nonneg x c : 0 <= pa_moles c -> 0 <= pa_moles (snd (ss_step x c)).
Proof.
  intro H. unfold ss_step. cbv zeta.
  set (n0 := if Qltb 0 (pa_moles c) then need MIN_TOTAL_SS x (pa_formula c) else 0).
  destruct (Qltb (pa_moles c) n0) eqn:Hn.
  - destruct (Qltb 0 (pa_moles c)); simpl; lra.
  - apply Qltb_false in Hn. destruct (Qltb 0 n0); simpl; lra.
Qed.

Lemma ss_steps_nonneg cs : forall x,
  Forall (fun c => 0 <= pa_moles c) cs -> Forall (fun c => 0 <= pa_moles c) (snd (ss_steps x cs)).
Proof.
  induction cs as [|c r IH]; intros x H; simpl.
  - constructor.
  - inversion H; subst. pose proof (ss_step_nonneg x c H2) as H1.
    destruct (ss_step x c) as [x1 c1]. specialize (IH x1 H3).
    destruct (ss_steps x1 r) as [x2 r2]. simpl in *. constructor; assumption.
Qed.

(* ---------------------------------------------------------------- assemble_is_sum *)
Lemma oapp_flat {A} (f : xstate -> A -> xstate) (g : A -> inv) :
  (forall e x a, get e (flat (f x a)) == get e (flat x) + get e (g a)) ->
  forall e x o, get e (flat (oapp f x o)) == get e (flat x) + get e (oinv g o).
Proof. intros H e x [a|]; cbn [oapp oinv]. apply H. rewrite get_nil. ring. Qed.

(* For every combination of reactant kinds, every mix map and every amount of reaction: what step()
   hands to the solver (the _x accumulator plus what is left in the pure phases and solid solutions)
   is exactly the sum of the parts plus amt * stoichiometry plus the kinetic transfer. *)
Theorem assemble_is_sum : forall u amt x pp' ss',
  assemble u amt = Ok x pp' ss' ->
  ieq (flat x ++ oinv inv_pp pp' ++ oinv inv_pas ss')
      (inv_use u ++ iscale amt (oinv reaction_calc (u_reaction u)) ++ oinv k_totals (u_kinetics u)).
Proof.
  intros u amt x pp' ss' H e. unfold assemble in H.
  set (start := match u_mix u with
               | Some m => Some (add_mix x0 m)
               | None => match u_solution u with Some s => Some (add_solution x0 s 1) | None => None end
               end) in H.
  destruct start as [x1|] eqn:Hs; [|discriminate].
  assert (F0 : get e (flat x0) == 0).
  { unfold flat, x0. cbn [x_h x_o x_cb x_tot]. rewrite !get_cons, get_nil.
    destruct (String.eqb eH e), (String.eqb eO e), (String.eqb eCharge e); ring. }
  assert (E1 : get e (flat x1) == get e (inv_start u)).
  { unfold start, inv_start in *. destruct (u_mix u) as [m|].
    - inversion Hs; subst. rewrite add_mix_flat, F0. ring.
    - destruct (u_solution u) as [s|]; [|discriminate]. inversion Hs; subst.
      rewrite add_solution_flat, get_scale, F0. cbn [oinv]. ring. }
  set (x2 := match u_reaction u with Some r => add_reaction x1 r amt | None => x1 end) in H.
  assert (E2 : get e (flat x2) == get e (flat x1) + amt * get e (oinv reaction_calc (u_reaction u))).
  { unfold x2. destruct (u_reaction u); cbn [oinv]. apply add_reaction_flat. rewrite get_nil. ring. }
  set (x3 := oapp add_kinetics x2 (u_kinetics u)) in H.
  pose proof (oapp_flat add_kinetics k_totals (fun e x a => add_kinetics_flat e x a) e x2 (u_kinetics u)) as E3.
  fold x3 in E3.
  set (x4 := oapp add_exchange x3 (u_exchange u)) in H.
  pose proof (oapp_flat add_exchange inv_exchange (fun e x a => add_exchange_flat e x a) e x3 (u_exchange u)) as E4.
  fold x4 in E4.
  set (x5 := oapp add_surface x4 (u_surface u)) in H.
  pose proof (oapp_flat add_surface inv_surface (fun e x a => add_surface_flat e x a) e x4 (u_surface u)) as E5.
  fold x5 in E5.
  set (x6 := oapp add_gas_phase x5 (u_gas u)) in H.
  pose proof (oapp_flat add_gas_phase inv_pas (fun e x a => add_gas_flat e x a) e x5 (u_gas u)) as E6.
  fold x6 in E6.
  assert (E7 : exists x7 p7, (match u_pp u with
                      | Some p => let (x, p') := add_pp x6 p in (x, Some p')
                      | None => (x6, None) end) = (x7, p7) /\
               get e (flat x7) + get e (oinv inv_pp p7) == get e (flat x6) + get e (oinv inv_pp (u_pp u))).
  { destruct (u_pp u) as [p|].
    - pose proof (add_pp_conserves e x6 p) as Hc. destruct (add_pp x6 p) as [xa pa]. simpl in Hc.
      exists xa, (Some pa). split. reflexivity. cbn [oinv]. exact Hc.
    - exists x6, None. split. reflexivity. cbn [oinv]. ring. }
  destruct E7 as (x7 & p7 & Hpp & E7). rewrite Hpp in H.
  assert (E8 : exists x8 s8, (match u_ss u with
                      | Some s => let (x, s') := ss_steps x7 s in (x, Some s')
                      | None => (x7, None) end) = (x8, s8) /\
               get e (flat x8) + get e (oinv inv_pas s8) == get e (flat x7) + get e (oinv inv_pas (u_ss u))).
  { destruct (u_ss u) as [s|].
    - pose proof (ss_steps_conserves e s x7) as Hc. destruct (ss_steps x7 s) as [xa sa]. simpl in Hc.
      exists xa, (Some sa). split. reflexivity. cbn [oinv]. exact Hc.
    - exists x7, None. split. reflexivity. cbn [oinv]. ring. }
  destruct E8 as (x8 & s8 & Hss & E8). rewrite Hss in H.
  inversion H; subst x8 p7 s8. clear H.
  unfold inv_use. rewrite !get_app, get_scale. lra.
Qed.

(* the amounts left in the pure phases / solid solutions after the assembly are never negative *)
Theorem assemble_nonneg : forall u amt x pp' ss',
  assemble u amt = Ok x pp' ss' ->
  (forall p, u_pp u = Some p -> Forall (fun c => 0 <= pp_moles c) (ppa_comps p)) ->
  (forall s, u_ss u = Some s -> Forall (fun c => 0 <= pa_moles c) s) ->
  (forall p, pp' = Some p -> Forall (fun c => 0 <= pp_moles c) (ppa_comps p)) /\
  (forall s, ss' = Some s -> Forall (fun c => 0 <= pa_moles c) s).
Proof.
  intros u amt x pp' ss' H Hp Hs. unfold assemble in H.
  destruct (match u_mix u with
            | Some m => Some (add_mix x0 m)
            | None => match u_solution u with Some s => Some (add_solution x0 s 1) | None => None end
            end) as [x1|]; [|discriminate].
  cbv zeta in H.
  match type of H with context [oapp add_gas_phase ?a ?b] => set (x6 := oapp add_gas_phase a b) in H end.
  destruct (u_pp u) as [p|] eqn:Epp.
  - unfold add_pp in H. destruct (check_pp x6 p) eqn:Ec.
    + destruct (u_ss u) as [s|] eqn:Ess.
      * pose proof (ss_steps_nonneg s x6 (Hs s eq_refl)) as Hn.
        destruct (ss_steps x6 s) as [xa sa]. inversion H; subst. split; intros q Hq; inversion Hq; subst; auto.
      * inversion H; subst. split; intros q Hq; inversion Hq; subst; auto.
    + pose proof (pp_steps_nonneg (ppa_comps p) x6 (Hp p eq_refl)) as Hn1.
      destruct (pp_steps x6 (ppa_comps p)) as [x7 cs].
      destruct (u_ss u) as [s|] eqn:Ess.
      * pose proof (ss_steps_nonneg s x7 (Hs s eq_refl)) as Hn.
        destruct (ss_steps x7 s) as [xa sa]. inversion H; subst. split; intros q Hq; inversion Hq; subst; auto.
      * inversion H; subst. split; intros q Hq; inversion Hq; subst; auto.
  - destruct (u_ss u) as [s|] eqn:Ess.
    + pose proof (ss_steps_nonneg s x6 (Hs s eq_refl)) as Hn.
      destruct (ss_steps x6 s) as [xa sa]. inversion H; subst. split; intros q Hq; inversion Hq; subst; auto.
    + inversion H; subst. split; intros q Hq; inversion Hq.
Qed.
