(* C02 -- non-vacuity: the hypotheses of the theorems are satisfiable on a concrete non-trivial system
   (solution + REACTION NaCl + a pure phase whose element C is missing from the solution). *)
From Coq Require Import QArith Qabs String List Bool ZArith Lia Lqa.
From IPV.C02 Require Import Inv Model AssembleProofs StepProofs SaverProofs StepTable Checker.
Import ListNotations.
Local Open Scope string_scope.
Local Open Scope list_scope.
Open Scope Q_scope.

Definition ex_sol : solution := mkSol [("Ca", 1 # 1000); ("Cl", 2 # 1000)] 111 (111 # 2) 0.
Definition ex_pp : pp_assemblage :=
  mkPPA ["C"; "Ca"; "O"] [mkPP [("Ca", 1); ("C", 1); ("O", 3)] (1 # 100) false 0].
Definition ex_rxn : reactants := [(1, [("Na", 1); ("Cl", 1)])].
Definition ex_use : use := mkUse None (Some ex_sol) (Some ex_rxn) None None None None (Some ex_pp) None.

Definition ex_out := assemble ex_use (1 # 1000).

(* add_pp_assemblage moves 1e-10 mol of calcite into the solution because C is missing there *)
Example ex_assemble :
  exists x pp', ex_out = Ok x (Some pp') None /\
                get "C" (flat x) == 1 # 10000000000 /\
                Forall (fun c => 0 <= pp_moles c) (ppa_comps pp').
Proof.
  unfold ex_out. vm_compute assemble. eexists. eexists. split. reflexivity.
  split. vm_compute. reflexivity.
  repeat constructor. vm_compute. discriminate.
Qed.

(* a solver result that puts everything into the solution and leaves the calcite as assembled *)
Definition ex_res (x : xstate) (pp' : pp_assemblage) : eq_result :=
  mkRes (mkSol (x_tot x) (x_h x) (x_o x) (x_cb x)) [] [] [] [] (map pp_moles (ppa_comps pp')) [].

Definition ex_io (x : xstate) (pp' : pp_assemblage) : step_io := mkIO ex_use (1 # 1000) None (ex_res x pp').

Example ex_chain :
  exists fin, chain (fun _ => 0) (inv_use ex_use ++ inv_kin_before None)
                    [ex_io (match ex_out with Ok x _ _ => x | _ => x0 end)
                           (match ex_out with Ok _ (Some p) _ => p | _ => ex_pp end)] fin.
Proof.
  destruct ex_assemble as (x & pp' & E & _). rewrite E.
  eexists. eapply chain_cons; [|apply chain_nil].
  unfold step_ok. cbn [io_use io_amt io_kb io_res ex_io].
  exists x, (Some pp'), None. split. exact E. split. reflexivity. split.
  - (* residual 0: decided by the verified checker itself *)
    intro e. unfold ex_out in E. vm_compute in E. inversion E; subst x pp'. clear E.
    match goal with |- Qabs (get e ?A - get e ?B) <= 0 =>
      pose proof (check_balance_sound 0 0 B A ltac:(lra) ltac:(lra) ltac:(vm_compute; reflexivity) e) as H end.
    unfold bal_ok in H. lra.
  - split. reflexivity. apply ieq_refl.
Qed.

(* the checker accepts an exactly conserving observation and the step table is exercised *)
Example ex_check_case :
  check_case model_stepf (1 # 1000000) 0
    (mkCase (mkUse None (Some ex_sol) (Some ex_rxn) None None None None None None) None
            true true [2 # 1000] 2 77 2%nat
            (mkEnts (mkSol [("Ca", 1 # 1000); ("Cl", 4 # 1000); ("Na", 2 # 1000)] 111 (111 # 2) 0)
                    None None None None None None)) = true.
Proof. vm_compute. reflexivity. Qed.

Example ex_check_case_rejects :
  check_case model_stepf (1 # 1000000) 0
    (mkCase (mkUse None (Some ex_sol) (Some ex_rxn) None None None None None None) None
            true true [2 # 1000] 2 77 2%nat
            (mkEnts (mkSol [("Ca", 1 # 1000); ("Cl", 4 # 1000); ("Na", 1 # 1000)] 111 (111 # 2) 0)
                    None None None None None None)) = false.
Proof. vm_compute. reflexivity. Qed.
