(* C02 -- the write-back (saver and the x*_save functions) partitions the solver's result: the inventory of
   the saved entities is exactly the sum of what the solver left, entity by entity. *)
From Coq Require Import QArith Qabs String List Bool ZArith Lia Lqa.
From IPV.C02 Require Import Inv Model AssembleProofs StepProofs.
Import ListNotations.
Open Scope Q_scope.

Lemma map2_const_l {A B C} (g : B -> C) : forall (l : list A) (m : list B),
  length l = length m -> map2 (fun _ b => g b) l m = map g m.
Proof.
  induction l as [|a l IH]; intros [|b m] H; cbn in *; try congruence; try lia.
  f_equal. apply IH. lia.
Qed.

Lemma map_map2 {A B C D} (f : C -> D) (h : A -> B -> C) : forall l m,
  map f (map2 h l m) = map2 (fun a b => f (h a b)) l m.
Proof. induction l as [|a l IH]; intros [|b m]; cbn; try reflexivity. f_equal. apply IH. Qed.

(* what the solver's result amounts to, entity by entity (formulas of phases come from the entities used) *)
Definition inv_res_exch (r : list (inv * Q)) : inv :=
  List.concat (map (fun p => (eCharge, snd p) :: fst p) r).
Definition inv_res_surf (s : surface) (rc : list (inv * Q)) (rq : list (Q * inv)) : inv :=
  List.concat (map (fun p => if is_no_edl (sf_type s) then (eCharge, snd p) :: fst p else fst p) rc) ++
  (if is_edl (sf_type s)
   then List.concat (map (fun p => (eCharge, fst p) :: (if has_dl (sf_dl s) then snd p else nil)) rq)
   else nil).
Definition inv_res_pas (g : list phase_amt) (ms : list Q) : inv :=
  List.concat (map2 (fun c m => iscale m (pa_formula c)) g ms).
Definition inv_res_pp (p : pp_assemblage) (ms : list Q) : inv :=
  List.concat (map2 (fun c m => iscale m (pp_formula c)) (ppa_comps p) ms).

Definition inv_result (u : use) (pp' : option pp_assemblage) (ss' : option (list phase_amt)) (r : eq_result) : inv :=
  inv_solution (q_sol r) ++
  oinv (fun _ => inv_res_exch (q_exch r)) (u_exchange u) ++
  oinv (fun s => inv_res_surf s (q_surf r) (q_charge r)) (u_surface u) ++
  oinv (fun g => inv_res_pas g (q_gas r)) (u_gas u) ++
  oinv (fun p => inv_res_pp p (q_pp r)) pp' ++
  oinv (fun s => inv_res_pas s (q_ss r)) ss' ++ nil.

(* the solver returns one entry per component it was given *)
Definition res_wf (u : use) (r : eq_result) : Prop :=
  (forall e, u_exchange u = Some e -> length (ex_comps e) = length (q_exch r)) /\
  (forall s, u_surface u = Some s -> length (sf_comps s) = length (q_surf r) /\
                                     (is_edl (sf_type s) = true -> length (sf_charges s) = length (q_charge r))).

Lemma xexchange_save_inv e r :
  length (ex_comps e) = length r -> inv_exchange (xexchange_save e r) = inv_res_exch r.
Proof.
  intro H. unfold inv_exchange, xexchange_save, inv_res_exch. cbn [ex_new_def ex_comps].
  rewrite (map2_const_l (fun p => mkEC (fst p) (snd p)) (ex_comps e) r H).
  rewrite map_map. reflexivity.
Qed.

Lemma xsurface_save_inv s rc rq :
  length (sf_comps s) = length rc ->
  (is_edl (sf_type s) = true -> length (sf_charges s) = length rq) ->
  inv_surface (xsurface_save s rc rq) = inv_res_surf s rc rq.
Proof.
  intros H1 H2. unfold inv_surface, xsurface_save, inv_res_surf.
  cbn [sf_type sf_dl sf_new_def sf_comps sf_charges].
  rewrite (map2_const_l (fun p => mkSC (fst p) (snd p)) (sf_comps s) rc H1).
  rewrite map_map. f_equal.
  destruct (is_edl (sf_type s)) eqn:E; [|reflexivity].
  assert (N : is_no_edl (sf_type s) = false) by (destruct (sf_type s); cbn in *; congruence).
  rewrite N. rewrite map_map2. specialize (H2 eq_refl).
  assert (G : forall (l : list surf_charge) (m : list (Q * inv)), length l = length m ->
              map2 (fun (a : surf_charge) (b : Q * inv) =>
                      inv_surf_charge (sf_dl s) false (mkSQ (fst b) (if has_dl (sf_dl s) then snd b else sq_dl a))) l m
              = map (fun p => (eCharge, fst p) :: (if has_dl (sf_dl s) then snd p else nil)) m).
  { induction l as [|a l IH]; intros [|b m] Hl; cbn [map2 map length] in *; try congruence; try lia; try reflexivity.
    rewrite IH by lia.
    assert (E1 : inv_surf_charge (sf_dl s) false (mkSQ (fst b) (if has_dl (sf_dl s) then snd b else sq_dl a))
                 = (eCharge, fst b) :: (if has_dl (sf_dl s) then snd b else nil)).
    { unfold inv_surf_charge. cbn [sq_cb sq_dl negb]. rewrite andb_true_r.
      destruct (has_dl (sf_dl s)); reflexivity. }
    rewrite E1. reflexivity. }
  rewrite G by exact H2. reflexivity.
Qed.

Lemma xgas_save_inv g r : inv_pas (xgas_save g r) = inv_res_pas g r.
Proof. unfold inv_pas, xgas_save, inv_res_pas. rewrite map_map2. reflexivity. Qed.

Lemma xss_save_inv g r : inv_pas (xss_save g r) = inv_res_pas g r.
Proof. unfold inv_pas, xss_save, inv_res_pas. rewrite map_map2. reflexivity. Qed.

Lemma xpp_save_inv p r : inv_pp (xpp_save p r) = inv_res_pp p r.
Proof. unfold inv_pp, xpp_save, inv_res_pp. cbn [ppa_comps]. rewrite map_map2. reflexivity. Qed.

(* saver partitions the result back into the entity maps without creating or losing anything *)
Theorem saver_inventory : forall u pp' ss' r,
  res_wf u r -> inv_ents (saver u pp' ss' None r) = inv_result u pp' ss' r.
Proof.
  intros u pp' ss' r [He Hs]. unfold inv_ents, saver, inv_result.
  cbn [n_solution n_exchange n_surface n_gas n_pp n_ss n_kin].
  f_equal.
  f_equal. { destruct (u_exchange u) as [e|]; cbn; [apply xexchange_save_inv; auto | reflexivity]. }
  f_equal. { destruct (u_surface u) as [s|]; cbn; [|reflexivity].
             destruct (Hs s eq_refl). apply xsurface_save_inv; auto. }
  f_equal. { destruct (u_gas u); cbn; [apply xgas_save_inv | reflexivity]. }
  f_equal. { destruct pp'; cbn; [apply xpp_save_inv | reflexivity]. }
  f_equal. destruct ss'; cbn; [apply xss_save_inv | reflexivity].
Qed.

(* step_conserves with the solver's guarantee stated on its raw result *)
Theorem step_conserves_raw : forall (eps : elt -> Q) u amt x pp' ss' r kb,
  assemble u amt = Ok x pp' ss' ->
  u_kinetics u = kin_after kb ->
  res_wf u r ->
  (forall e, Qabs (get e (inv_result u pp' ss' r) - get e (flat x ++ oinv inv_pp pp' ++ oinv inv_pas ss')) <= eps e) ->
  forall e,
    Qabs (get e (inv_ents (saver u pp' ss' (kin_after kb) r)) -
          (get e (inv_use u) + get e (inv_kin_before kb) + amt * get e (oinv reaction_calc (u_reaction u))))
    <= eps e.
Proof.
  intros eps u amt x pp' ss' r kb Ha Hk Hw Hr.
  apply (step_conserves eps u amt x pp' ss' r kb Ha Hk).
  unfold residual_ok. intro e. rewrite (saver_inventory u pp' ss' r Hw). apply Hr.
Qed.
