(* C02 -- IR for the accumulation statements that the translator extracts from step.cpp (T-gen, part B):
   deep-embedded polynomial expressions over named source quantities. *)
From Coq Require Import QArith String List Bool ZArith.
Import ListNotations.
Open Scope Q_scope.

Inductive aexp :=
| AVar (s : string)
| AConst (q : Q)
| AAdd (a b : aexp)
| ASub (a b : aexp)
| AMul (a b : aexp)
| ADiv (a b : aexp).

Fixpoint aeval (env : string -> Q) (a : aexp) : Q :=
  match a with
  | AVar s => env s
  | AConst q => q
  | AAdd a b => aeval env a + aeval env b
  | ASub a b => aeval env a - aeval env b
  | AMul a b => aeval env a * aeval env b
  | ADiv a b => aeval env a / aeval env b
  end.

(* what is written: total_h_x, total_o_x, <master>->total, cb_x, mass_water_aq_x, the coefficient handed to
   add_elt_list/get_elts_in_species, the argument of Set_moles / Set_delta, the `extensive` argument of a call *)
Inductive target := T_H | T_O | T_TOT | T_CB | T_WATER | T_ELT | T_MOLES | T_DELTA | T_CALL | T_LOCAL.

Definition target_eqb (a b : target) : bool :=
  match a, b with
  | T_H, T_H | T_O, T_O | T_TOT, T_TOT | T_CB, T_CB | T_WATER, T_WATER | T_ELT, T_ELT
  | T_MOLES, T_MOLES | T_DELTA, T_DELTA | T_CALL, T_CALL | T_LOCAL, T_LOCAL => true
  | _, _ => false
  end.

(* a_op: 1 "+=", -1 "-=", 0 "=", 2 "*=", 3 "/=" *)
Record acc := mkAcc { a_fn : string; a_target : target; a_op : Z; a_exp : aexp }.

Definition accs_of (f : string) (l : list acc) : list acc := filter (fun a => String.eqb (a_fn a) f) l.

(* the generated statements of function f are, in order, exactly `spec`: same target, same operator,
   semantically equal expression (for every valuation of the source quantities) *)
Definition acc_match (a : acc) (s : target * Z * aexp) : Prop :=
  a_target a = fst (fst s) /\ a_op a = snd (fst s) /\ forall env, aeval env (a_exp a) == aeval env (snd s).

Definition acc_spec (f : string) (l : list acc) (spec : list (target * Z * aexp)) : Prop :=
  Forall2 acc_match (accs_of f l) spec.

(* weaker forms, for functions where only some statements matter for the inventory *)
Definition acc_has (f : string) (l : list acc) (s : target * Z * aexp) : Prop :=
  Exists (fun a => acc_match a s) (accs_of f l).
Definition acc_count (f : string) (l : list acc) (t : target) : nat :=
  length (filter (fun a => target_eqb (a_target a) t) (accs_of f l)).
