(* C02 -- IR for the accumulation statements that the translator extracts from step.cpp (T-gen, part B):
   deep-embedded polynomial expressions over named source quantities. *)
From Coq Require Import QArith String List Bool ZArith.
Import ListNotations.
Open Scope Q_scope.

Inductive aexp :=
| AVar (s : string)
| AConst (q : Q)
| AAdd (a b : aexp)
| ASub (a b : aexp)
| AMul (a b : aexp)
| ADiv (a b : aexp).

Fixpoint aeval (env : string -> Q) (a : aexp) : Q :=
  match a with
  | AVar s => env s
  | AConst q => q
  | AAdd a b => aeval env a + aeval env b
  | ASub a b => aeval env a - aeval env b
  | AMul a b => aeval env a * aeval env b
  | ADiv a b => aeval env a / aeval env b
  end.

(* what is written: total_h_x, total_o_x, <master>->total, cb_x, mass_water_aq_x, the coefficient handed to
   add_elt_list/get_elts_in_species, the argument of Set_moles / Set_delta, the `extensive` argument of a call *)
Inductive target := T_H | T_O | T_TOT | T_CB | T_WATER | T_ELT | T_MOLES | T_DELTA | T_CALL | T_LOCAL.

Definition target_eqb (a b : target) : bool :=
  match a, b with
  | T_H, T_H | T_O, T_O | T_TOT, T_TOT | T_CB, T_CB | T_WATER, T_WATER | T_ELT, T_ELT
  | T_MOLES, T_MOLES | T_DELTA, T_DELTA | T_CALL, T_CALL | T_LOCAL, T_LOCAL => true
  | _, _ => false
  end.

(* a_op: 1 "+=", -1 "-=", 0 "=", 2 "*=", 3 "/=" *)
Record acc := mkAcc { a_fn : string; a_target : target; a_op : Z; a_exp : aexp }.

Definition accs_of (f : string) (l : list acc) : list acc := filter (fun a => String.eqb (a_fn a) f) l.

(* the generated statements of function f are, in order, exactly `spec`: same target, same operator,
   semantically equal expression (for every valuation of the source quantities) *)
Definition acc_match (a : acc) (s : target * Z * aexp) : Prop :=
  a_target a = fst (fst s) /\ a_op a = snd (fst s) /\ forall env, aeval env (a_exp a) == aeval env (snd s).

Definition acc_spec (f : string) (l : list acc) (spec : list (target * Z * aexp)) : Prop :=
  Forall2 acc_match (accs_of f l) spec.

(* weaker forms, for functions where only some statements matter for the inventory *)
Definition acc_has (f : string) (l : list acc) (s : target * Z * aexp) : Prop :=
  Exists (fun a => acc_match a s) (accs_of f l).
Definition acc_count (f : string) (l : list acc) (t : target) : nat :=
  length (filter (fun a => target_eqb (a_target a) t) (accs_of f l)).

(* ---------------------------------------------------------------- guards (path conditions) *)
(* the condition under which a statement is reached inside its function: conjunction of the enclosing `if`
   conditions (negated in else-branches and after `if (c) return/continue`), atoms named by stable source text *)
Inductive gexp :=
| GTrue
| GAtom (s : string)
| GNot (g : gexp)
| GAnd (a b : gexp)
| GOr (a b : gexp).

Fixpoint geval (env : string -> bool) (g : gexp) : bool :=
  match g with
  | GTrue => true
  | GAtom s => env s
  | GNot a => negb (geval env a)
  | GAnd a b => geval env a && geval env b
  | GOr a b => geval env a || geval env b
  end.

Record gacc := mkGacc { g_fn : string; g_target : target; g_exp : aexp; g_guard : gexp }.

Fixpoint aexp_eqb (a b : aexp) : bool :=
  match a, b with
  | AVar s, AVar t => String.eqb s t
  | AConst p, AConst q => Qeq_bool p q
  | AAdd a1 a2, AAdd b1 b2 | ASub a1 a2, ASub b1 b2 | AMul a1 a2, AMul b1 b2 | ADiv a1 a2, ADiv b1 b2 =>
      aexp_eqb a1 b1 && aexp_eqb a2 b2
  | _, _ => false
  end.

Definition gaccs_of (f : string) (l : list gacc) : list gacc := filter (fun a => String.eqb (g_fn a) f) l.

(* where an element coefficient goes: "if (s == s_hplus) total_h_x else if (s == s_h2o) total_o_x else master->total" *)
Definition hp_atom : string := "master.s==s_hplus".
Definition hw_atom : string := "master.s==s_h2o".
Definition route_cond (env : string -> bool) (t : target) : bool :=
  match t with
  | T_H => env hp_atom
  | T_O => negb (env hp_atom) && env hw_atom
  | T_TOT => negb (env hp_atom) && negb (env hw_atom)
  | _ => true
  end.
Definition is_route_target (t : target) : bool :=
  match t with T_H | T_O | T_TOT => true | _ => false end.

(* a routed statement can only be reached under its own routing condition *)
Definition routing_ok (a : gacc) : Prop :=
  forall env, geval env (g_guard a) = true -> route_cond env (g_target a) = true.

Fixpoint gexp_eqb (a b : gexp) : bool :=
  match a, b with
  | GTrue, GTrue => true
  | GAtom s, GAtom t => String.eqb s t
  | GNot x, GNot y => gexp_eqb x y
  | GAnd x1 x2, GAnd y1 y2 | GOr x1 x2, GOr y1 y2 => gexp_eqb x1 y1 && gexp_eqb x2 y2
  | _, _ => false
  end.

(* every required condition occurs (syntactically, after the translator's canonical rendering) in the list *)
Definition all_present (required l : list gexp) : bool :=
  forallb (fun r => existsb (gexp_eqb r) l) required.
