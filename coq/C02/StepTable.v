(* C02 -- the step table of Phreeqc::add_reaction (src/phreeqcpp/step.cpp): which amount of the REACTION
   is added in reaction step n, for cumulative / incremental steps, explicit step lists / equal increments,
   and the unit factor.  `model_step_x` is the hand-written specification; the translator regenerates
   `Gen_C02_Step.gen_step_x` from the C++ on every run and Props/Properties_C02.v proves them equal. *)
From Coq Require Import QArith Qabs String List Bool ZArith Lia Lqa.
From IPV.C02 Require Import Inv.
Import ListNotations.
Open Scope Q_scope.

Definition nthQ (l : list Q) (i : Z) : Q := nth (Z.to_nat i) l 0.
Definition lenZ (l : list Q) : Z := Z.of_nat (length l).

(* incr: INCREMENTAL_REACTIONS; equal: reaction_ptr->Get_equalIncrements(); count: Get_reaction_steps();
   n: step_number (1-based) *)
Definition model_step_x (incr equal : bool) (steps : list Q) (count n : Z) : Q :=
  if negb incr then
    if negb equal && (0 <? lenZ steps)%Z then
      (if (n >? lenZ steps)%Z then nthQ steps (lenZ steps - 1) else nthQ steps (n - 1))
    else if equal && (0 <? lenZ steps)%Z then
      (if (n >? count)%Z then nthQ steps 0 else nthQ steps 0 * inject_Z n / inject_Z count)
    else 0
  else
    if negb equal && (0 <? lenZ steps)%Z then
      (if (n >? count)%Z then nthQ steps (count - 1) else nthQ steps (n - 1))
    else if equal && (0 <? lenZ steps)%Z then
      (if (n >? count)%Z then 0 else nthQ steps 0 / inject_Z count)
    else 0.

(* c = first character of the units string: 'm' 109, 'u' 117, 'n' 110 *)
Definition model_unit_factor (c : Z) : Q :=
  if (c =? 109)%Z then 1 # 1000
  else if (c =? 117)%Z then 1 # 1000000
  else if (c =? 110)%Z then 1 # 1000000000
  else 1.

(* step_x of step n after the unit conversion *)
Definition model_stepf (incr equal : bool) (steps : list Q) (count n c : Z) : Q :=
  model_unit_factor c * model_step_x incr equal steps count n.

(* sum_{k=1..n} f k *)
Fixpoint sum_to (f : Z -> Q) (n : nat) : Q :=
  match n with O => 0 | S m => sum_to f m + f (Z.of_nat (S m)) end.

(* total amount of reaction that has entered the system when `nsteps` reaction steps have been made;
   stepf incr equal steps count n units = step_x of step n after the unit conversion *)
Definition total_amount (stepf : bool -> bool -> list Q -> Z -> Z -> Z -> Q)
           (incr equal : bool) (steps : list Q) (count units : Z) (nsteps : nat) : Q :=
  if incr then sum_to (fun k => stepf true equal steps count k units) nsteps
  else stepf false equal steps count (Z.of_nat nsteps) units.

Lemma sum_to_ext f g n : (forall k, (1 <= k <= Z.of_nat n)%Z -> f k == g k) -> sum_to f n == sum_to g n.
Proof.
  induction n as [|n IH]; intro H. reflexivity.
  cbn [sum_to]. rewrite IH, (H (Z.of_nat (S n))). reflexivity. lia. intros; apply H; lia.
Qed.

Lemma sum_to_const c n : sum_to (fun _ => c) n == inject_Z (Z.of_nat n) * c.
Proof.
  induction n as [|n IH]. cbn. ring.
  cbn [sum_to]. rewrite IH, Nat2Z.inj_succ. unfold Z.succ. rewrite inject_Z_plus. ring.
Qed.

(* --- equal increments: incremental steps sum to the cumulative step, for every step number *)
Lemma inject_Z_nonzero z : (z <> 0)%Z -> ~ inject_Z z == 0.
Proof. intros H E. unfold Qeq, inject_Z in E. simpl in E. lia. Qed.

Lemma model_equal_increments_sum : forall steps count n,
  (1 <= count)%Z -> steps <> nil ->
  sum_to (model_step_x true true steps count) n == model_step_x false true steps count (Z.of_nat n).
Proof.
  intros steps count n Hc Hs.
  assert (Hl : (0 <? lenZ steps)%Z = true).
  { apply Z.ltb_lt. unfold lenZ. destruct steps; [congruence|]. cbn [length]. lia. }
  assert (Hq : ~ inject_Z count == 0) by (apply inject_Z_nonzero; lia).
  unfold model_step_x at 2. cbn [negb andb]. rewrite Hl.
  set (s0 := nthQ steps 0).
  (* closed form of the partial sums *)
  assert (P : forall m, sum_to (model_step_x true true steps count) m ==
                        s0 * inject_Z (Z.min (Z.of_nat m) count) / inject_Z count).
  { induction m as [|m IH].
    - cbn [sum_to Z.of_nat]. rewrite Z.min_l by lia. change (inject_Z 0) with 0. field. exact Hq.
    - cbn [sum_to]. rewrite IH. unfold model_step_x. cbn [negb andb]. rewrite Hl. fold s0.
      destruct (Z.of_nat (S m) >? count)%Z eqn:G.
      + apply Z.gtb_lt in G. rewrite !Z.min_r by lia. field. exact Hq.
      + assert (~ (count < Z.of_nat (S m))%Z) as G' by (rewrite <- Z.gtb_lt; congruence).
        rewrite !Z.min_l by lia. rewrite Nat2Z.inj_succ. unfold Z.succ. rewrite inject_Z_plus.
        change (inject_Z 1) with 1. field. exact Hq. }
  rewrite P.
  destruct (Z.of_nat n >? count)%Z eqn:G.
  - apply Z.gtb_lt in G. rewrite Z.min_r by lia. field. exact Hq.
  - assert (~ (count < Z.of_nat n)%Z) as G' by (rewrite <- Z.gtb_lt; congruence).
    rewrite Z.min_l by lia. reflexivity.
Qed.

(* --- explicit step list: n incremental steps add the sum of the first n list entries (n <= length) *)
Lemma nthQ_firstn_sum : forall steps n, (n <= length steps)%nat ->
  sum_to (fun k => nthQ steps (k - 1)) n == qsum (firstn n steps).
Proof.
  intros steps n. revert steps. induction n as [|n IH]; intros steps H.
  - reflexivity.
  - destruct steps as [|a r]; [cbn in H; lia|].
    cbn [firstn qsum]. cbn [length] in H.
    assert (E : sum_to (fun k => nthQ (a :: r) (k - 1)) (S n) == a + sum_to (fun k => nthQ r (k - 1)) n).
    { clear IH H. induction n as [|n IHn].
      - cbn. unfold nthQ. cbn. ring.
      - cbn [sum_to] in *. rewrite IHn.
        assert (N : nthQ (a :: r) (Z.of_nat (S (S n)) - 1) = nthQ r (Z.of_nat (S n) - 1)).
        { unfold nthQ. replace (Z.to_nat (Z.of_nat (S (S n)) - 1)) with (S (Z.to_nat (Z.of_nat (S n) - 1))) by lia.
          reflexivity. }
        rewrite N. ring. }
    rewrite E, IH by lia. reflexivity.
Qed.

Lemma model_list_increments_sum : forall steps n,
  (n <= length steps)%nat ->
  sum_to (model_step_x true false steps (lenZ steps)) n == qsum (firstn n steps).
Proof.
  intros steps n H. rewrite <- nthQ_firstn_sum by exact H.
  apply sum_to_ext. intros k Hk. unfold model_step_x. cbn [negb andb].
  assert (Hl : (0 <? lenZ steps)%Z = true) by (apply Z.ltb_lt; unfold lenZ; lia).
  rewrite Hl.
  assert (G : (k >? lenZ steps)%Z = false).
  { destruct (k >? lenZ steps)%Z eqn:G; auto. apply Z.gtb_lt in G. unfold lenZ in G. lia. }
  rewrite G. reflexivity.
Qed.

Example step_table_example :
  model_step_x false true [1 # 1000] 2 1 == 1 # 2000 /\ model_step_x true false [1; 2; 3] 3 5 == 3.
Proof. split; reflexivity. Qed.
