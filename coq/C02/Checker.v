(* C02 -- the executable inventory checker (exact Q arithmetic) and its soundness.
   It is applied (Eval vm_compute in a generated cases.v) to the entities that the real library dumps
   before and after a reaction step. *)
From Coq Require Import QArith Qabs String List Bool ZArith Lia Lqa.
From IPV.C02 Require Import Inv Model AssembleProofs StepTable.
Import ListNotations.
Open Scope Q_scope.
Local Arguments String.eqb : simpl never.
Local Arguments get : simpl never.

(* the reference amount for the tolerance: the element's system inventory; for the net charge (which is
   ~0 for a neutral system) the sum of |entries| of all elements other than H, O and the charge itself *)
Definition not_ionic (k : elt) : bool := is_h k || is_o k || String.eqb k eCharge.
Definition scale (sys : inv) (e : elt) : Q :=
  if String.eqb e eCharge then sum_abs_except not_ionic sys else Qabs (get e sys).

Lemma scale_nonneg sys e : 0 <= scale sys e.
Proof. unfold scale. destruct (String.eqb e eCharge). apply sum_abs_except_nonneg. apply Qabs_nonneg. Qed.

(* after(e) = expected(e) within tol * inventory(e) + floor   (floor: an absolute amount below one atom) *)
Definition bal_ok (tol floor : Q) (expected after : inv) (e : elt) : Prop :=
  Qabs (get e after - get e expected) <= tol * scale expected e + floor.

(* executable versions that keep the rationals reduced (Qplus multiplies denominators) *)
Fixpoint getr (e : elt) (a : inv) : Q :=
  match a with
  | nil => 0
  | (k, v) :: r => if String.eqb k e then Qred (v + getr e r) else getr e r
  end.

Lemma getr_get e a : getr e a == get e a.
Proof.
  induction a as [|[k v] a IH]; cbn [getr]; rewrite ?get_cons, ?(get_nil e).
  - reflexivity.
  - destruct (String.eqb k e).
    + rewrite Qred_correct, IH. reflexivity.
    + rewrite IH. ring.
Qed.

Fixpoint sum_abs_except_r (ex : elt -> bool) (a : inv) : Q :=
  match a with
  | nil => 0
  | (k, v) :: r => if ex k then sum_abs_except_r ex r else Qred (Qabs v + sum_abs_except_r ex r)
  end.

Lemma sum_abs_except_r_ok ex a : sum_abs_except_r ex a == sum_abs_except ex a.
Proof.
  induction a as [|[k v] a IH]; cbn [sum_abs_except_r sum_abs_except].
  - reflexivity.
  - destruct (ex k).
    + rewrite IH. ring.
    + rewrite Qred_correct, IH. reflexivity.
Qed.

Definition scale_r (sys : inv) (e : elt) : Q :=
  if String.eqb e eCharge then sum_abs_except_r not_ionic sys else Qabs (getr e sys).

Lemma scale_r_ok sys e : scale_r sys e == scale sys e.
Proof.
  unfold scale_r, scale. destruct (String.eqb e eCharge).
  - apply sum_abs_except_r_ok.
  - rewrite getr_get. reflexivity.
Qed.

Definition bal_okb (tol floor : Q) (expected after : inv) (e : elt) : bool :=
  Qle_bool (Qabs (getr e after - getr e expected)) (tol * scale_r expected e + floor).

Lemma bal_okb_ok tol floor expected after e :
  bal_okb tol floor expected after e = true -> bal_ok tol floor expected after e.
Proof.
  unfold bal_okb, bal_ok. intro H. apply Qle_bool_iff in H.
  rewrite !getr_get, scale_r_ok in H. exact H.
Qed.

Definition check_on (tol floor : Q) (expected after : inv) (es : list elt) : bool :=
  forallb (bal_okb tol floor expected after) (nodup string_dec es).

Lemma check_on_sound tol floor expected after es :
  check_on tol floor expected after es = true -> forall e, In e es -> bal_ok tol floor expected after e.
Proof.
  unfold check_on. rewrite forallb_forall. intros H e I. apply bal_okb_ok. apply H.
  apply nodup_In. exact I.
Qed.

Definition check_balance (tol floor : Q) (expected after : inv) : bool :=
  check_on tol floor expected after (keys expected ++ keys after).

Theorem check_balance_sound : forall tol floor expected after,
  0 <= tol -> 0 <= floor ->
  check_balance tol floor expected after = true -> forall e, bal_ok tol floor expected after e.
Proof.
  intros tol floor expected after Ht Hf H e. unfold check_balance in H.
  destruct (in_dec string_dec e (keys expected ++ keys after)) as [I|N].
  - exact (check_on_sound _ _ _ _ _ H e I).
  - unfold bal_ok. rewrite in_app_iff in N.
    rewrite (get_notin e expected), (get_notin e after) by tauto.
    assert (Z0 : Qabs (0 - 0) == 0) by reflexivity. rewrite Z0.
    pose proof (scale_nonneg expected e). nra.
Qed.

Definition nonneg_all (l : list Q) : bool := forallb (Qle_bool 0) l.

Lemma nonneg_all_sound l : nonneg_all l = true -> Forall (fun a => 0 <= a) l.
Proof.
  unfold nonneg_all. rewrite forallb_forall, Forall_forall. intros H a I. apply Qle_bool_iff. auto.
Qed.

(* ---------------------------------------------------------------- one observed step / chain of steps *)
Record ccase := mkCase {
  c_use : use;                      (* entities selected by USE / MIX, as dumped BEFORE (u_kinetics = None) *)
  c_kin : option kinetics;          (* kinetic reactants before *)
  c_incr : bool;                    (* INCREMENTAL_REACTIONS *)
  c_equal : bool; c_steps : list Q; c_count : Z; c_units : Z;      (* the REACTION's step data *)
  c_nsteps : nat;                   (* number of reaction steps made *)
  c_after : ents }.                 (* entities as dumped AFTER *)

Section Check.
  Variable stepf : bool -> bool -> list Q -> Z -> Z -> Z -> Q.

  Definition case_amount (c : ccase) : Q :=
    total_amount stepf (c_incr c) (c_equal c) (c_steps c) (c_count c) (c_units c) (c_nsteps c).

  (* run the model of step() on what the implementation started from, compare with what it saved *)
  Definition check_case (tol floor : Q) (c : ccase) : bool :=
    match u_kinetics (c_use c) with
    | Some _ => false
    | None =>
      match assemble (c_use c) (case_amount c) with
      | Ok x pp' ss' =>
          check_balance tol floor (flat x ++ oinv inv_pp pp' ++ oinv inv_pas ss' ++ oinv inv_kin (c_kin c))
                        (inv_ents (c_after c))
          && nonneg_all (amounts (c_after c))
      | NoSolution => false
      end
    end.

  (* the declarative statement of the property for one observed case *)
  Definition expected_inv (c : ccase) : inv :=
    inv_use (c_use c) ++ oinv inv_kin (c_kin c) ++
    iscale (case_amount c) (oinv reaction_calc (u_reaction (c_use c))).

  Theorem check_case_sound : forall tol floor c,
    0 <= tol -> 0 <= floor -> check_case tol floor c = true ->
    (forall e, exists sys, ieq sys (expected_inv c) /\
               Qabs (get e (inv_ents (c_after c)) - get e (expected_inv c)) <= tol * scale sys e + floor) /\
    Forall (fun a => 0 <= a) (amounts (c_after c)).
  Proof.
    intros tol floor c Ht Hf H. unfold check_case in H.
    destruct (u_kinetics (c_use c)) eqn:Hk; [discriminate|].
    destruct (assemble (c_use c) (case_amount c)) as [x pp' ss'|] eqn:Ha; [|discriminate].
    apply andb_true_iff in H. destruct H as [Hb Hn]. split.
    - intro e.
      set (sys := flat x ++ oinv inv_pp pp' ++ oinv inv_pas ss' ++ oinv inv_kin (c_kin c)) in *.
      assert (Hs : ieq sys (expected_inv c)).
      { intro e'. pose proof (assemble_is_sum _ _ _ _ _ Ha e') as S. rewrite Hk in S.
        unfold sys, expected_inv. cbn [oinv] in S. rewrite !get_app in *. rewrite (get_nil e') in S. lra. }
      exists sys. split. exact Hs.
      pose proof (check_balance_sound tol floor sys _ Ht Hf Hb e) as B. unfold bal_ok in B.
      rewrite <- (Hs e). exact B.
    - apply nonneg_all_sound. exact Hn.
  Qed.

  (* ---- per-step cross-check: what SYS("element") (+ kinetic reactants) reports after step k *)
  Record rcase := mkRows {
    r_base : inv;                     (* inventory before the first step *)
    r_rxn : inv;                      (* elements of one mole of reaction *)
    r_incr : bool; r_equal : bool; r_steps : list Q; r_count : Z; r_units : Z;
    r_rows : list inv }.              (* row k: observed totals after step k (listed elements only) *)

  Definition row_expected (c : rcase) (k : nat) : inv :=
    r_base c ++ iscale (total_amount stepf (r_incr c) (r_equal c) (r_steps c) (r_count c) (r_units c) k) (r_rxn c).

  Definition check_rows (tol floor : Q) (c : rcase) : bool :=
    forallb (fun p => check_on tol floor (row_expected c (fst p)) (snd p) (keys (snd p)))
            (combine (seq 1 (length (r_rows c))) (r_rows c)).

  Theorem check_rows_sound : forall tol floor c,
    check_rows tol floor c = true ->
    forall k row, In (k, row) (combine (seq 1 (length (r_rows c))) (r_rows c)) ->
    forall e, In e (keys row) -> bal_ok tol floor (row_expected c k) row e.
  Proof.
    intros tol floor c H k row I e Ie. unfold check_rows in H. rewrite forallb_forall in H.
    specialize (H (k, row) I). cbn [fst snd] in H. exact (check_on_sound _ _ _ _ _ H e Ie).
  Qed.
End Check.

Example check_balance_example :
  check_balance (1 # 1000000) 0 [("Ca"%string, 1 # 2); ("Cl"%string, 1)] [("Cl"%string, 1); ("Ca"%string, 1 # 2)] = true.
Proof. vm_compute. reflexivity. Qed.
