(* C02 -- the executable inventory checker (exact Q arithmetic) and its soundness.
   It is applied (Eval vm_compute in a generated cases.v) to the entities that the real library dumps
   before and after a reaction step. *)
From Coq Require Import QArith Qabs String List Bool ZArith Lia Lqa.
From IPV.C02 Require Import Inv Model AssembleProofs StepTable.
Import ListNotations.
Open Scope Q_scope.
Local Arguments String.eqb : simpl never.
Local Arguments get : simpl never.

(* the reference amount for the tolerance: the element's system inventory; for the net charge (which is
   ~0 for a neutral system) the sum of |entries| of all elements other than H, O and the charge itself *)
Definition not_ionic (k : elt) : bool := is_h k || is_o k || String.eqb k eCharge.
Definition scale (sys : inv) (e : elt) : Q :=
  if String.eqb e eCharge then sum_abs_except not_ionic sys else Qabs (get e sys).

Lemma scale_nonneg sys e : 0 <= scale sys e.
Proof. unfold scale. destruct (String.eqb e eCharge). apply sum_abs_except_nonneg. apply Qabs_nonneg. Qed.

(* after(e) = expected(e) within tol * inventory(e) *)
Definition bal_ok (tol : Q) (expected after : inv) (e : elt) : Prop :=
  Qabs (get e after - get e expected) <= tol * scale expected e.
Definition bal_okb (tol : Q) (expected after : inv) (e : elt) : bool :=
  Qle_bool (Qabs (get e after - get e expected)) (tol * scale expected e).

Definition check_balance (tol : Q) (expected after : inv) : bool :=
  forallb (bal_okb tol expected after) (keys expected ++ keys after).

Theorem check_balance_sound : forall tol expected after,
  0 <= tol -> check_balance tol expected after = true -> forall e, bal_ok tol expected after e.
Proof.
  intros tol expected after Ht H e. unfold check_balance in H. rewrite forallb_forall in H.
  destruct (in_dec string_dec e (keys expected ++ keys after)) as [I|N].
  - apply H in I. unfold bal_okb in I. apply Qle_bool_iff in I. exact I.
  - unfold bal_ok. rewrite in_app_iff in N.
    rewrite (get_notin e expected), (get_notin e after) by tauto.
    assert (Z0 : Qabs (0 - 0) == 0) by reflexivity. rewrite Z0.
    pose proof (scale_nonneg expected e). nra.
Qed.

Definition nonneg_all (l : list Q) : bool := forallb (Qle_bool 0) l.

Lemma nonneg_all_sound l : nonneg_all l = true -> Forall (fun a => 0 <= a) l.
Proof.
  unfold nonneg_all. rewrite forallb_forall, Forall_forall. intros H a I. apply Qle_bool_iff. auto.
Qed.

(* ---------------------------------------------------------------- one observed step / chain of steps *)
Record ccase := mkCase {
  c_use : use;                      (* entities selected by USE / MIX, as dumped BEFORE (u_kinetics = None) *)
  c_kin : option kinetics;          (* kinetic reactants before *)
  c_incr : bool;                    (* INCREMENTAL_REACTIONS *)
  c_equal : bool; c_steps : list Q; c_count : Z; c_units : Z;      (* the REACTION's step data *)
  c_nsteps : nat;                   (* number of reaction steps made *)
  c_after : ents }.                 (* entities as dumped AFTER *)

Section Check.
  Variable stepf : bool -> bool -> list Q -> Z -> Z -> Z -> Q.

  Definition case_amount (c : ccase) : Q :=
    total_amount stepf (c_incr c) (c_equal c) (c_steps c) (c_count c) (c_units c) (c_nsteps c).

  (* run the model of step() on what the implementation started from, compare with what it saved *)
  Definition check_case (tol : Q) (c : ccase) : bool :=
    match u_kinetics (c_use c) with
    | Some _ => false
    | None =>
      match assemble (c_use c) (case_amount c) with
      | Ok x pp' ss' =>
          check_balance tol (flat x ++ oinv inv_pp pp' ++ oinv inv_pas ss' ++ oinv inv_kin (c_kin c))
                        (inv_ents (c_after c))
          && nonneg_all (amounts (c_after c))
      | NoSolution => false
      end
    end.

  (* the declarative statement of the property for one observed case *)
  Definition expected_inv (c : ccase) : inv :=
    inv_use (c_use c) ++ oinv inv_kin (c_kin c) ++
    iscale (case_amount c) (oinv reaction_calc (u_reaction (c_use c))).

  Theorem check_case_sound : forall tol c,
    0 <= tol -> check_case tol c = true ->
    (forall e, exists sys, ieq sys (expected_inv c) /\
               Qabs (get e (inv_ents (c_after c)) - get e (expected_inv c)) <= tol * scale sys e) /\
    Forall (fun a => 0 <= a) (amounts (c_after c)).
  Proof.
    intros tol c Ht H. unfold check_case in H.
    destruct (u_kinetics (c_use c)) eqn:Hk; [discriminate|].
    destruct (assemble (c_use c) (case_amount c)) as [x pp' ss'|] eqn:Ha; [|discriminate].
    apply andb_true_iff in H. destruct H as [Hb Hn]. split.
    - intro e.
      set (sys := flat x ++ oinv inv_pp pp' ++ oinv inv_pas ss' ++ oinv inv_kin (c_kin c)) in *.
      assert (Hs : ieq sys (expected_inv c)).
      { intro e'. pose proof (assemble_is_sum _ _ _ _ _ Ha e') as S. rewrite Hk in S.
        unfold sys, expected_inv. cbn [oinv] in S. rewrite !get_app in *. rewrite (get_nil e') in S. lra. }
      exists sys. split. exact Hs.
      pose proof (check_balance_sound tol sys _ Ht Hb e) as B. unfold bal_ok in B.
      rewrite <- (Hs e). exact B.
    - apply nonneg_all_sound. exact Hn.
  Qed.
End Check.

Example check_balance_example :
  check_balance (1 # 1000000) [("Ca"%string, 1 # 2); ("Cl"%string, 1)] [("Cl"%string, 1); ("Ca"%string, 1 # 2)] = true.
Proof. vm_compute. reflexivity. Qed.
