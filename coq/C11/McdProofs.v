(* C11 — proofs about the multicomponent-diffusion bookkeeping model (Mcd.v). *)
From Coq Require Import QArith ZArith List Bool String Ascii Lia Lqa.
From IPV.C11 Require Import Mcd.
Import ListNotations.
Open Scope Q_scope.
Arguments Qplus : simpl never.
Arguments Qmult : simpl never.
Arguments Qminus : simpl never.
Arguments Qopp : simpl never.

(* an element name carries no redox suffix *)
Definition plain (n : string) : Prop := base n = n.

Definition pick (n b : string) (a : Q) : Q := if String.eqb n b then a else 0.

(* ------------------------------------------------------------------ booking *)

Lemma book_fsum b name a : plain name ->
  forall t, fsum b (book name a t) == fsum b t + pick name b a.
Proof.
  intros Hp t. induction t as [|[k v] r IH]; simpl.
  - unfold pick. rewrite Hp. ring.
  - destruct (String.eqb (base k) name) eqn:E.
    + apply String.eqb_eq in E. simpl. rewrite E. unfold pick. destruct (String.eqb name b); ring.
    + simpl. rewrite IH. ring.
Qed.

Fixpoint msum1 (b : string) (ms : m_s) : Q :=
  match ms with [] => 0 | (n, (a, _)) :: r => pick n b a + msum1 b r end.
Fixpoint msum2 (b : string) (ms : m_s) : Q :=
  match ms with [] => 0 | (n, (_, c)) :: r => pick n b c + msum2 b r end.

Definition plain_ms (ms : m_s) : Prop := Forall (fun e => plain (fst e)) ms.
Definition balanced_ms (ms : m_s) : Prop := Forall (fun e => fst (snd e) == snd (snd e)) ms.

Lemma book_out_fsum b : forall ms t, plain_ms ms -> fsum b (book_out ms t) == fsum b t - msum1 b ms.
Proof.
  unfold book_out. induction ms as [|[n [a c]] r IH]; intros t Hp; simpl.
  - ring.
  - inversion Hp as [|? ? Hn Hr]; subst. rewrite IH by auto. rewrite book_fsum by exact Hn.
    unfold pick. simpl. destruct (String.eqb n b); ring.
Qed.

Lemma book_in_fsum b : forall ms t, plain_ms ms -> fsum b (book_in ms t) == fsum b t + msum2 b ms.
Proof.
  unfold book_in. induction ms as [|[n [a c]] r IH]; intros t Hp; simpl.
  - ring.
  - inversion Hp as [|? ? Hn Hr]; subst. rewrite IH by auto. rewrite book_fsum by exact Hn.
    unfold pick. simpl. destruct (String.eqb n b); ring.
Qed.

Lemma balanced_msum b : forall ms, balanced_ms ms -> msum1 b ms == msum2 b ms.
Proof.
  induction ms as [|[n [a c]] r IH]; intros H; simpl; [reflexivity|].
  inversion H as [|? ? Hh Hr]; subst. simpl in Hh. rewrite IH by auto. unfold pick.
  destruct (String.eqb n b); [rewrite Hh|]; ring.
Qed.

(* what leaves cell i enters cell j, element by element (all redox states of the element together) *)
Lemma mcd_flux_antisymmetric b ms tI tJ :
  plain_ms ms -> balanced_ms ms ->
  fsum b (book_out ms tI) + fsum b (book_in ms tJ) == fsum b tI + fsum b tJ.
Proof.
  intros Hp Hb. rewrite book_out_fsum, book_in_fsum by auto. rewrite (balanced_msum b ms Hb). ring.
Qed.

(* ------------------------------------------------------------------ fill_m_s keeps tot1 = tot2 *)

Lemma add_ms_inv name d1 d2 : plain name -> d1 == d2 ->
  forall ms, plain_ms ms -> balanced_ms ms -> plain_ms (add_ms name d1 d2 ms) /\ balanced_ms (add_ms name d1 d2 ms).
Proof.
  intros Hn Hd ms. induction ms as [|[n [a c]] r IH]; intros Hp Hb; simpl.
  - split; constructor; auto; constructor.
  - inversion Hp as [|? ? Hp1 Hp2]; subst. inversion Hb as [|? ? Hb1 Hb2]; subst. simpl in *.
    destruct (String.eqb n name).
    + split; constructor; auto. simpl. rewrite Hb1, Hd. reflexivity.
    + destruct (IH Hp2 Hb2) as [I1 I2]. split; constructor; auto.
Qed.

Definition good_flux (f : jflux) : Prop :=
  j_tot1 f == j_tot2 f /\ Forall (fun ec => plain (fst ec)) (j_elts f).

Lemma fill_one_inv f : good_flux f ->
  forall ms, plain_ms ms -> balanced_ms ms -> plain_ms (fill_one ms f) /\ balanced_ms (fill_one ms f).
Proof.
  intros [Ht He]. unfold fill_one. induction (j_elts f) as [|[e c] r IH]; intros ms Hp Hb; simpl; auto.
  inversion He as [|? ? He1 He2]; subst. simpl in He1.
  destruct (String.eqb e "X").
  - apply IH; auto.
  - destruct (add_ms_inv e (c * j_tot1 f) (c * j_tot2 f) He1 ltac:(rewrite Ht; reflexivity) ms Hp Hb) as [A B].
    apply IH; auto.
Qed.

Lemma fill_m_s_inv : forall js, Forall good_flux js -> plain_ms (fill_m_s js) /\ balanced_ms (fill_m_s js).
Proof.
  unfold fill_m_s.
  assert (G : forall js ms, Forall good_flux js -> plain_ms ms -> balanced_ms ms ->
              plain_ms (fold_left fill_one js ms) /\ balanced_ms (fold_left fill_one js ms)).
  { induction js as [|f js IH]; intros ms Hg Hp Hb; simpl; auto.
    inversion Hg; subst. destruct (fill_one_inv f H1 ms Hp Hb). apply IH; auto. }
  intros js Hg. apply G; auto; constructor.
Qed.

(* one explicit MCD exchange between two cells conserves every element, whatever the fluxes are *)
Theorem mcd_exchange_conserves b js tI tJ :
  Forall good_flux js ->
  fsum b (book_out (fill_m_s js) tI) + fsum b (book_in (fill_m_s js) tJ) == fsum b tI + fsum b tJ.
Proof.
  intros Hg. destruct (fill_m_s_inv js Hg). apply mcd_flux_antisymmetric; auto.
Qed.

(* ------------------------------------------------------------------ repair of negative totals *)

Lemma Qneg_true x : Qneg x = true -> x < 0.
Proof.
  unfold Qneg. intros H. apply Qnot_le_lt. intros E. apply Qle_bool_iff in E. rewrite E in H. discriminate.
Qed.
Lemma Qneg_false x : Qneg x = false -> 0 <= x.
Proof. unfold Qneg. intros H. apply Qle_bool_iff. destruct (Qle_bool 0 x); auto; discriminate. Qed.

(* spreading a deficit `temp` of element b0 over the keys of element b0 *)
Lemma spread_fsum b0 b : forall t temp, temp <= 0 ->
  let r := spread (fun k => String.eqb b0 (base k)) temp t in
  fsum b (fst r) + pick b0 b (snd r) == fsum b t + pick b0 b temp /\ snd r <= 0.
Proof.
  induction t as [|[k v] r IH]; intros temp Ht; simpl.
  - split; [reflexivity | exact Ht].
  - destruct (String.eqb b0 (base k)) eqn:E.
    + apply String.eqb_eq in E.
      destruct (Qneg (temp + v)) eqn:N.
      * apply Qneg_true in N. destruct (IH (temp + v) ltac:(lra)) as [I1 I2].
        destruct (spread (fun k0 => String.eqb b0 (base k0)) (temp + v) r) as [r' tf]. simpl in *.
        split; auto. rewrite <- E.
        unfold pick in *. destruct (String.eqb b0 b); lra.
      * simpl. split; [|lra]. rewrite <- E. unfold pick.
        destruct (String.eqb b0 b); ring.
    + destruct (IH temp Ht) as [I1 I2].
      destruct (spread (fun k0 => String.eqb b0 (base k0)) temp r) as [r' tf]. simpl in *.
      split; auto. lra.
Qed.

Lemma set_zero_fsum b : forall t i k v, nth_error t i = Some (k, v) ->
  fsum b (set_zero i t) == fsum b t - pick (base k) b v.
Proof.
  induction t as [|[k0 v0] r IH]; intros i k v H; destruct i; simpl in *; try discriminate.
  - inversion H; subst. unfold pick. destruct (String.eqb (base k) b); ring.
  - rewrite (IH i k v H). ring.
Qed.

Lemma set_zero_length : forall t i, List.length (set_zero i t) = List.length t.
Proof. induction t as [|[k v] r IH]; intros [|i]; simpl; auto. Qed.

Lemma spread_length same : forall t temp, List.length (fst (spread same temp t)) = List.length t.
Proof.
  induction t as [|[k v] r IH]; intros temp; simpl; auto.
  destruct (same k).
  - destruct (Qneg (temp + v)); [|reflexivity].
    specialize (IH (temp + v)). destruct (spread same (temp + v) r). simpl in *. auto.
  - specialize (IH temp). destruct (spread same temp r). simpl in *. auto.
Qed.

(* handling one key: only the element of that key changes, by the non-negative amount that is added *)
Lemma repair_at_fsum b i t :
  let r := repair_at same_element i t in
  0 <= snd r /\ List.length (fst r) = List.length t /\
  match nth_error t i with
  | Some (k, _) => fsum b (fst r) == fsum b t + pick (base k) b (snd r)
  | None => fsum b (fst r) == fsum b t
  end.
Proof.
  unfold repair_at. destruct (nth_error t i) as [[k v]|] eqn:E; simpl.
  - destruct (skip_key k || negb (Qneg v)) eqn:S; simpl.
    + repeat split; try lra. unfold pick. destruct (String.eqb (base k) b); ring.
    + apply orb_false_iff in S. destruct S as [_ S]. apply negb_false_iff in S. apply Qneg_true in S.
      pose proof (spread_fsum (base k) b (set_zero i t) v ltac:(lra)) as H.
      pose proof (spread_length (same_element k) (set_zero i t) v) as HL.
      unfold same_element in *.
      destruct (spread (fun kit => String.eqb (base k) (base kit)) v (set_zero i t)) as [t' tf].
      simpl in *. destruct H as [H1 H2].
      repeat split; try lra.
      * rewrite HL. apply set_zero_length.
      * rewrite (set_zero_fsum b t i k v E) in H1. unfold pick in *.
        destruct (String.eqb (base k) b); lra.
  - repeat split; try lra.
Qed.

Fixpoint asum (b : string) (added : list (string * Q)) : Q :=
  match added with [] => 0 | (n, a) :: r => pick n b a + asum b r end.

Lemma repair_from_fsum b : forall fuel i t added,
  Forall (fun e => 0 <= snd e) added ->
  let r := repair_from same_element fuel i t added in
  fsum b (fst r) + asum b added == fsum b t + asum b (snd r) /\ Forall (fun e => 0 <= snd e) (snd r).
Proof.
  induction fuel as [|f IH]; intros i t added Ha; simpl.
  - split; [reflexivity | exact Ha].
  - destruct (nth_error t i) as [[k v]|] eqn:E; simpl; [|split; [reflexivity | exact Ha]].
    pose proof (repair_at_fsum b i t) as H. rewrite E in H.
    destruct (repair_at same_element i t) as [t' a]. simpl in H. destruct H as (H0 & _ & H1).
    set (added' := if Qeq_bool a 0 then added else (base k, a) :: added).
    assert (Ha' : Forall (fun e => 0 <= snd e) added').
    { unfold added'. destruct (Qeq_bool a 0); auto. }
    destruct (IH (S i) t' added' Ha') as [I1 I2]. split; auto.
    assert (EA : asum b added' == asum b added + pick (base k) b a).
    { unfold added'. destruct (Qeq_bool a 0) eqn:Z; simpl; [|ring].
      apply Qeq_bool_iff in Z. unfold pick. destruct (String.eqb (base k) b); rewrite ?Z; ring. }
    rewrite EA in I1. lra.
Qed.

(* THEOREM: with the whole-name test the repair never moves mass between elements: the total of
   every element changes exactly by the non-negative amounts the engine adds to that element
   (the amounts it reports as "Negative concentration in MCD: added ...") *)
Theorem repair_conserves_elements b t :
  fsum b (fst (repair same_element t)) == fsum b t + asum b (snd (repair same_element t)) /\
  Forall (fun e => 0 <= snd e) (snd (repair same_element t)).
Proof.
  unfold repair. destruct (repair_from_fsum b (List.length t) 0 t [] ltac:(constructor)) as [H1 H2].
  simpl in H1. split; auto. lra.
Qed.

(* the test used before commit 8a017ddf: a Ca deficit is silently taken out of element C *)
Example prefix_test_moves_mass_between_elements :
  let t := [("C"%string, 1); ("Ca"%string, - (1 # 2))] in
  snd (repair same_prefix t) = [] /\ ~ fsum "C" (fst (repair same_prefix t)) == fsum "C" t.
Proof. vm_compute. split; [reflexivity | discriminate]. Qed.

Example whole_name_test_on_the_same_input :
  let t := [("C"%string, 1); ("Ca"%string, - (1 # 2))] in
  repair same_element t = ([("C"%string, 1); ("Ca"%string, 0)], [("Ca"%string, 1 # 2)]).
Proof. vm_compute. reflexivity. Qed.

Example redox_states_share :
  repair same_element [("S(-2)"%string, - (1 # 4)); ("S(6)"%string, 1)] = ([("S(-2)"%string, 0); ("S(6)"%string, 3 # 4)], []).
Proof. vm_compute. reflexivity. Qed.
