(* C11 - the sub-step count chosen by the MCD branch of init_mix bounds the stability number of EVERY interface. *)
From Coq Require Import QArith Qround ZArith List Bool Lia Lqa.
From IPV.C11 Require Import Transport MixProofs InitMixProofs McdMix.
Import ListNotations.
Open Scope Q_scope.
Arguments Qplus : simpl never.
Arguments Qmult : simpl never.
Arguments Qminus : simpl never.
Arguments Qdiv : simpl never.
Arguments mcd_disp : simpl never.
Arguments fourier : simpl never.

Lemma mcd_loop_cons a corr dt prev cur rest dav mx :
  mcd_loop a corr dt prev (cur :: rest) dav mx =
  (let mx1 := match rest with nx :: _ => upmax mx (fourier dt cur nx) | [] => mx end in
   let u := if a then match rest with nx :: _ => mcd_disp corr dav cur nx | [] => (0, dav) end else (0, dav) in
   let l := if a then match prev with Some pv => mcd_disp corr (snd u) cur pv | None => (0, snd u) end else (0, snd u) in
   let mx2 := if a then upmax mx1 (fst l + fst u) else mx1 in
   let r := mcd_loop a corr dt (Some cur) rest (snd l) mx2 in
   ((fst l, fst u) :: fst r, snd r)).
Proof. reflexivity. Qed.

(* maxmix only grows, and after the loop it dominates the Fourier number of every interface (induction over the cells) *)
Lemma mcd_loop_dominates a corr dt : forall cs prev dav mx,
  mx <= snd (mcd_loop a corr dt prev cs dav mx) /\
  Forall (fun p => fourier dt (fst p) (snd p) <= snd (mcd_loop a corr dt prev cs dav mx)) (interfaces cs).
Proof.
  induction cs as [|cur rest IH]; intros prev dav mx.
  - simpl. split; [lra | constructor].
  - rewrite mcd_loop_cons. cbv zeta.
    set (mx1 := match rest with nx :: _ => upmax mx (fourier dt cur nx) | [] => mx end).
    set (u := if a then match rest with nx :: _ => mcd_disp corr dav cur nx | [] => (0, dav) end else (0, dav)).
    set (l := if a then match prev with Some pv => mcd_disp corr (snd u) cur pv | None => (0, snd u) end else (0, snd u)).
    set (mx2 := if a then upmax mx1 (fst l + fst u) else mx1).
    destruct (IH (Some cur) (snd l) mx2) as [I1 I2]. cbn [snd].
    assert (H1 : mx <= mx1).
    { unfold mx1. destruct rest; [lra | apply upmax_ge_l]. }
    assert (H2 : mx1 <= mx2).
    { unfold mx2. destruct a; [apply upmax_ge_l | lra]. }
    split; [lra|].
    destruct rest as [|nx rest']; [constructor|].
    change (interfaces (cur :: nx :: rest')) with ((cur, nx) :: interfaces (nx :: rest')).
    constructor; auto. cbn [fst snd].
    assert (H3 : fourier dt cur nx <= mx1) by (unfold mx1; apply upmax_ge_r). lra.
Qed.

Lemma mcd_maxmix_dominates c dmax :
  0 <= snd (mcd_maxmix c dmax) /\
  Forall (fun p => fourier (dmax * timest c) (fst p) (snd p) <= snd (mcd_maxmix c dmax)) (interfaces (cells c)) /\
  (bcf c = 1%Z -> bnd_fourier (dmax * timest c) (head_cell (cells c)) <= snd (mcd_maxmix c dmax)) /\
  (bcl c = 1%Z -> bnd_fourier (dmax * timest c) (last_cell (cells c)) <= snd (mcd_maxmix c dmax)).
Proof.
  unfold mcd_maxmix. cbv zeta. simpl snd.
  set (dt := dmax * timest c).
  set (r0 := mcd_loop (adv c) (corr_disp c) dt None (cells c) 0 0).
  destruct (mcd_loop_dominates (adv c) (corr_disp c) dt (cells c) None 0 0) as [D1 D2]. fold r0 in D1, D2.
  set (mxa := if Z.eqb (bcf c) 1 then upmax (snd r0) (bnd_fourier dt (head_cell (cells c))) else snd r0).
  set (raw1 := if Z.eqb (bcf c) 1 && adv c then set_first_m (fst r0) (bnd_disp (corr_disp c) (head_cell (cells c))) else fst r0).
  set (mx1 := if Z.eqb (bcf c) 1 && adv c then upmax mxa (sum2 (hd (0, 0) raw1)) else mxa).
  set (mxb := if Z.eqb (bcl c) 1 then upmax mx1 (bnd_fourier dt (last_cell (cells c))) else mx1).
  set (raw2 := if Z.eqb (bcl c) 1 && adv c then set_last_m1 raw1 (bnd_disp (corr_disp c) (last_cell (cells c))) else raw1).
  set (mx2 := if Z.eqb (bcl c) 1 && adv c then upmax mxb (sum2 (last raw2 (0, 0))) else mxb).
  assert (A : snd r0 <= mxa) by (unfold mxa; destruct (Z.eqb (bcf c) 1); [apply upmax_ge_l | lra]).
  assert (B : mxa <= mx1) by (unfold mx1; destruct (Z.eqb (bcf c) 1 && adv c); [apply upmax_ge_l | lra]).
  assert (C : mx1 <= mxb) by (unfold mxb; destruct (Z.eqb (bcl c) 1); [apply upmax_ge_l | lra]).
  assert (D : mxb <= mx2) by (unfold mx2; destruct (Z.eqb (bcl c) 1 && adv c); [apply upmax_ge_l | lra]).
  split; [lra|]. split; [|split].
  - eapply Forall_impl; [|exact D2]. intros p Hp. simpl in Hp. lra.
  - intros E. assert (F : bnd_fourier dt (head_cell (cells c)) <= mxa).
    { unfold mxa. rewrite E. simpl. apply upmax_ge_r. }
    lra.
  - intros E. assert (F : bnd_fourier dt (last_cell (cells c)) <= mxb).
    { unfold mxb. rewrite E. simpl. apply upmax_ge_r. }
    lra.
Qed.

Lemma mcd_nmix_zero c mx s : mx == 0 -> mcd_nmix c mx s = 0%Z.
Proof. intros H. unfold mcd_nmix. apply Qeq_bool_iff in H. rewrite H. reflexivity. Qed.

Lemma mcd_nmix_big c mx s : 0 <= mx -> ~ mx == 0 ->
  (3 # 2) * mx < inject_Z (mcd_nmix c mx s) /\
  (bcf c = 1%Z \/ bcl c = 1%Z -> (9 # 4) * mx < inject_Z (mcd_nmix c mx s)).
Proof.
  intros Hpos Hnz. unfold mcd_nmix.
  destruct (Qeq_bool mx 0) eqn:E; [apply Qeq_bool_iff in E; contradiction|].
  set (cb := Z.eqb (bcf c) 1 || Z.eqb (bcl c) 1).
  set (f := if cb then 9 # 4 else 3 # 2).
  set (k := (1 + Qfloor (f * mx))%Z).
  assert (Hf : 3 # 2 <= f) by (unfold f; destruct cb; lra).
  assert (Hk : f * mx < inject_Z k).
  { unfold k. pose proof (Qlt_floor (f * mx)) as H. replace (1 + Qfloor (f * mx))%Z with (Qfloor (f * mx) + 1)%Z by lia. exact H. }
  assert (Hk1 : (1 <= k)%Z).
  { unfold k. assert (0 <= Qfloor (f * mx))%Z; [|lia]. change 0%Z with (Qfloor 0). apply Qfloor_resp_le.
    apply Qmult_le_0_compat; lra. }
  set (k' := if adv c && cb && Z.ltb k 2 then 2%Z else k).
  assert (Hk' : (k <= k')%Z).
  { unfold k'. destruct (adv c && cb && Z.ltb k 2) eqn:E2; [|lia].
    apply andb_true_iff in E2. destruct E2 as [_ E2]. apply Z.ltb_lt in E2. lia. }
  assert (Hq : inject_Z k <= inject_Z k') by (rewrite <- Zle_Qle; exact Hk').
  assert (Hfin : inject_Z k' <= inject_Z (if Qltb 1 s then Qceiling (inject_Z k' * s) else k')).
  { destruct (Qltb 1 s) eqn:Es; [|lra].
    apply Qltb_true in Es.
    pose proof (Qle_ceiling (inject_Z k' * s)) as Hc.
    assert (0 < inject_Z k') by (change 0 with (inject_Z 0); rewrite <- Zlt_Qlt; lia).
    assert (inject_Z k' * 1 <= inject_Z k' * s) by (apply Qmult_le_l; lra).
    lra. }
  assert (Hm : (3 # 2) * mx <= f * mx) by (apply Qmult_le_compat_r; lra).
  split; [lra|].
  intros Hb. assert (Ecb : cb = true).
  { unfold cb. destruct Hb as [Hb|Hb]; rewrite Hb; simpl; auto. apply orb_true_r. }
  unfold f in Hk. rewrite Ecb in Hk. lra.
Qed.

(* THEOREM: whatever the column (any number of cells, any lengths), the number of sub-steps returned for explicit
   multicomponent diffusion keeps the Fourier number per sub-step of every interface at or below 2/3
   (and the doubled boundary number of a constant boundary at or below 4/9) *)
Theorem mcd_substeps_bound_every_interface c dmax s :
  let mx := snd (mcd_maxmix c dmax) in
  let nm := inject_Z (mcd_nmix c mx s) in
  Forall (fun p => fourier (dmax * timest c) (fst p) (snd p) <= (2 # 3) * nm) (interfaces (cells c)) /\
  (bcf c = 1%Z -> bnd_fourier (dmax * timest c) (head_cell (cells c)) <= (4 # 9) * nm) /\
  (bcl c = 1%Z -> bnd_fourier (dmax * timest c) (last_cell (cells c)) <= (4 # 9) * nm).
Proof.
  cbv zeta. destruct (mcd_maxmix_dominates c dmax) as (P & I & B1 & B2).
  set (mx := snd (mcd_maxmix c dmax)) in *.
  destruct (Qeq_dec mx 0) as [Z0|NZ].
  - rewrite (mcd_nmix_zero c mx s Z0).
    split; [|split].
    + eapply Forall_impl; [|exact I]. intros p Hp. simpl in Hp. change (inject_Z 0) with 0. lra.
    + intros E. specialize (B1 E). change (inject_Z 0) with 0. lra.
    + intros E. specialize (B2 E). change (inject_Z 0) with 0. lra.
  - destruct (mcd_nmix_big c mx s P NZ) as [G1 G2].
    split; [|split].
    + eapply Forall_impl; [|exact I]. intros p Hp. simpl in Hp. lra.
    + intros E. specialize (B1 E). specialize (G2 (or_introl E)). lra.
    + intros E. specialize (B2 E). specialize (G2 (or_intror E)). lra.
Qed.

(* executable form used on the implementation's reports: reported nmix = model nmix *)
Definition check_mcd_nmix (c : cfg) (dmax s : Q) (reported : Z) : bool :=
  Z.eqb (mcd_nmix (read_bc c) (snd (mcd_maxmix (read_bc c) dmax)) s) reported.

Lemma check_mcd_nmix_sound c dmax s r : check_mcd_nmix c dmax s r = true ->
  Forall (fun p => fourier (dmax * timest c) (fst p) (snd p) <= (2 # 3) * inject_Z r) (interfaces (cells c)).
Proof.
  unfold check_mcd_nmix. intros H. apply Z.eqb_eq in H. rewrite <- H.
  exact (proj1 (mcd_substeps_bound_every_interface (read_bc c) dmax s)).
Qed.

Example mcd_fine_last_interface :
  (* lengths 1 1 1 1 0.2 0.2, closed, diffusion only: the last interface (lav = 0.2) dictates the count *)
  let c := mkCfg [mkCell 1 0; mkCell 1 0; mkCell 1 0; mkCell 1 0; mkCell (1 # 5) 0; mkCell (1 # 5) 0] 0 200000000 0 2 2 false in
  mcd_nmix c (snd (mcd_maxmix c (2 # 1000000000))) 1 = 16%Z.
Proof. vm_compute. reflexivity. Qed.
