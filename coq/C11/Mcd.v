(* C11 — bookkeeping of multicomponent diffusion (transport.cpp: Phreeqc::multi_D, steps 2-3 and the
   "check for negative conc's" block; Phreeqc::fill_m_s, explicit branch).
   The species fluxes J_ij themselves (find_J) are an oracle: arbitrary rationals.
   Modelled: how a flux is booked on the element totals of the two cells, and how a negative
   total is repaired from other redox states of the same element.  `totals` is cxxNameDouble:
   keys like "Ca", "S(6)", "S(-2)" in iteration order. *)
From Coq Require Import QArith ZArith List Bool String Ascii Lqa.
Import ListNotations.
Open Scope Q_scope.

Definition totals := list (string * Q).

(* strcspn(key, "(") characters of the key *)
Fixpoint base (s : string) : string :=
  match s with
  | EmptyString => EmptyString
  | String c r => if Ascii.eqb c "("%char then EmptyString else String c (base r)
  end.

(* sum of the redox states of element b *)
Fixpoint fsum (b : string) (t : totals) : Q :=
  match t with
  | [] => 0
  | (k, v) :: r => (if String.eqb (base k) b then v else 0) + fsum b r
  end.

(* ------------------------------------------------------------------ booking a flux (step 3)

   for (it = totals.begin(); ...) { if (strncmp(m_s[l].name, it->first, length) == 0 && length == length2)
        { it->second -= m_s[l].tot1; break; } }
   if (it == end) totals[m_s[l].name] = -m_s[l].tot1;
   (the insertion position in the std::map does not matter for any sum) *)
Fixpoint book (name : string) (amount : Q) (t : totals) : totals :=
  match t with
  | [] => [(name, amount)]
  | (k, v) :: r => if String.eqb (base k) name then (k, v + amount) :: r else (k, v) :: book name amount r
  end.

(* m_s: per element (name, tot1, tot2) *)
Definition m_s := list (string * (Q * Q)).

Definition book_out (ms : m_s) (t : totals) : totals :=
  fold_left (fun acc e => book (fst e) (- fst (snd e)) acc) ms t.
Definition book_in (ms : m_s) (t : totals) : totals :=
  fold_left (fun acc e => book (fst e) (snd (snd e)) acc) ms t.

(* ------------------------------------------------------------------ fill_m_s (explicit branch)

   a species flux (tot1 leaves icell, tot2 enters jcell) is spread over its elements with the
   stoichiometric coefficients; "X" is skipped; H and O go to separate accumulators which are
   booked on total_h / total_o the same way, so they are ordinary entries here *)
Record jflux := mkJ { j_elts : list (string * Q); j_tot1 : Q; j_tot2 : Q }.

Fixpoint add_ms (name : string) (d1 d2 : Q) (ms : m_s) : m_s :=
  match ms with
  | [] => [(name, (d1, d2))]
  | (n, (a, b)) :: r => if String.eqb n name then (n, (a + d1, b + d2)) :: r else (n, (a, b)) :: add_ms name d1 d2 r
  end.

Definition fill_one (ms : m_s) (f : jflux) : m_s :=
  fold_left (fun acc ec =>
               if String.eqb (fst ec) "X" then acc
               else add_ms (fst ec) (snd ec * j_tot1 f) (snd ec * j_tot2 f) acc) (j_elts f) ms.

Definition fill_m_s (js : list jflux) : m_s := fold_left fill_one js [].

(* ------------------------------------------------------------------ repair of negative totals

   for every key `it` with moles < 0 (H(0), O(0) skipped):
     temp = moles; it->second = 0;
     for (kit = begin; kit != end; kit++) if (same it kit) { temp += kit->second;
          if (temp < 0) kit->second = 0; else { kit->second = temp; break; } }
   `same` is the test that decides whether kit is a redox state of it's element. *)
Definition Qneg (x : Q) : bool := negb (Qle_bool 0 x).

Fixpoint spread (same : string -> bool) (temp : Q) (t : totals) : totals * Q :=
  match t with
  | [] => ([], temp)
  | (k, v) :: r =>
      if same k then
        let t1 := temp + v in
        if Qneg t1 then let '(r', tf) := spread same t1 r in ((k, 0) :: r', tf)
        else ((k, t1) :: r, 0)
      else let '(r', tf) := spread same temp r in ((k, v) :: r', tf)
  end.

Fixpoint set_zero (i : nat) (t : totals) : totals :=
  match t, i with
  | [], _ => []
  | (k, _) :: r, O => (k, 0) :: r
  | p :: r, S j => p :: set_zero j r
  end.

Definition skip_key (k : string) : bool := String.eqb k "H(0)" || String.eqb k "O(0)".

(* handle the i-th key; returns the new totals and the (non-negative) amount that had to be added *)
Definition repair_at (same : string -> string -> bool) (i : nat) (t : totals) : totals * Q :=
  match nth_error t i with
  | Some (k, v) =>
      if skip_key k || negb (Qneg v) then (t, 0)
      else let '(t', tf) := spread (same k) v (set_zero i t) in (t', - tf)
  | None => (t, 0)
  end.

Fixpoint repair_from (same : string -> string -> bool) (fuel i : nat) (t : totals) (added : list (string * Q))
  : totals * list (string * Q) :=
  match fuel with
  | O => (t, added)
  | S f =>
      match nth_error t i with
      | None => (t, added)
      | Some (k, _) =>
          let '(t', a) := repair_at same i t in
          repair_from same f (S i) t' (if Qeq_bool a 0 then added else (base k, a) :: added)
      end
  end.

Definition repair (same : string -> string -> bool) (t : totals) : totals * list (string * Q) :=
  repair_from same (List.length t) 0 t [].

(* the test of the current source (after commit 8a017ddf):
     !strncmp(it->first, kit->first, length2) && length2 == strcspn(it->first, "(")    with length2 = strcspn(kit->first, "(")
   i.e. base(kit) is a prefix of it's key and has the length of base(it): the two bases are equal *)
Definition same_element (it kit : string) : bool := String.eqb (base it) (base kit).

(* the test before the repair: only  !strncmp(it->first, kit->first, length2) : base(kit) is a prefix of it's key *)
Definition same_prefix (it kit : string) : bool := String.prefix (base kit) it.
