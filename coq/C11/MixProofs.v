(* C11 — generic facts about one mix run, the advective shift and their iteration
   (no reference to how init_mix computes the factors). *)
From Coq Require Import QArith Qround ZArith List Bool Lia Lqa.
From IPV.C11 Require Import Transport.
Import ListNotations.
Open Scope Q_scope.
Arguments Qred : simpl never.
Arguments Qplus : simpl never.
Arguments Qmult : simpl never.
Arguments Qminus : simpl never.
Arguments Qdiv : simpl never.

(* ------------------------------------------------------------------ predicates *)

Definition convex1 (p : Q * Q) : Prop := 0 <= fst p /\ 0 <= snd p /\ fst p + snd p <= 1.
Definition convex (ms : list (Q * Q)) : Prop := Forall convex1 ms.
Definition within (lo hi : Q) (x : Q) : Prop := lo <= x /\ x <= hi.
Definition in_range (lo hi : Q) (cs : list Q) : Prop := Forall (within lo hi) cs.

(* ------------------------------------------------------------------ iteration *)

Lemma iter_inv {A} (P : A -> Prop) (f : A -> A) :
  (forall x, P x -> P (f x)) -> forall n x, P x -> P (iter n f x).
Proof.
  intros Hf n; induction n as [|n IH]; intros x Hx; simpl; auto.
Qed.

Lemma iter_plus {A} (f : A -> A) : forall a b x, iter (a + b) f x = iter b f (iter a f x).
Proof.
  induction a as [|a IH]; intros b x; simpl; auto.
Qed.

(* ------------------------------------------------------------------ maximum principle for one mix run *)

Lemma convex_combination_within lo hi m m1 a b c :
  convex1 (m, m1) -> within lo hi a -> within lo hi b -> within lo hi c ->
  within lo hi (m * a + (1 - m - m1) * b + m1 * c).
Proof.
  unfold convex1, within; simpl. intros (Hm & Hm1 & Hs) (Ha1 & Ha2) (Hb1 & Hb2) (Hc1 & Hc2).
  split.
  - assert (H1 : 0 <= m * (a - lo)) by (apply Qmult_le_0_compat; lra).
    assert (H2 : 0 <= (1 - m - m1) * (b - lo)) by (apply Qmult_le_0_compat; lra).
    assert (H3 : 0 <= m1 * (c - lo)) by (apply Qmult_le_0_compat; lra).
    assert (E : m * a + (1 - m - m1) * b + m1 * c - lo ==
                m * (a - lo) + (1 - m - m1) * (b - lo) + m1 * (c - lo)) by ring.
    lra.
  - assert (H1 : 0 <= m * (hi - a)) by (apply Qmult_le_0_compat; lra).
    assert (H2 : 0 <= (1 - m - m1) * (hi - b)) by (apply Qmult_le_0_compat; lra).
    assert (H3 : 0 <= m1 * (hi - c)) by (apply Qmult_le_0_compat; lra).
    assert (E : hi - (m * a + (1 - m - m1) * b + m1 * c) ==
                m * (hi - a) + (1 - m - m1) * (hi - b) + m1 * (hi - c)) by ring.
    lra.
Qed.

Lemma within_Qred lo hi x : within lo hi x -> within lo hi (Qred x).
Proof. unfold within. rewrite (Qred_correct x). auto. Qed.

Lemma mix_aux_range lo hi cR : within lo hi cR ->
  forall ms prev cs, convex ms -> within lo hi prev -> in_range lo hi cs ->
  in_range lo hi (mix_aux prev ms cs cR).
Proof.
  intros HR ms; induction ms as [|[m m1] ms IH]; intros prev cs Hms Hp Hcs; simpl.
  - constructor.
  - destruct cs as [|c cs']; [constructor|].
    inversion Hms as [|? ? Hm Hms']; subst. inversion Hcs as [|? ? Hc Hcs']; subst.
    constructor.
    + apply within_Qred. apply convex_combination_within; auto.
      destruct cs' as [|c' cs'']; auto. inversion Hcs'; auto.
    + apply IH; auto.
Qed.

Lemma mix_step_range lo hi ms cL cR cs :
  convex ms -> within lo hi cL -> within lo hi cR -> in_range lo hi cs ->
  in_range lo hi (mix_step ms cL cR cs).
Proof. intros; unfold mix_step; apply mix_aux_range; auto. Qed.

(* ------------------------------------------------------------------ the advective shift *)

Lemma removelast_Forall {A} (P : A -> Prop) : forall l, Forall P l -> Forall P (removelast l).
Proof.
  induction l as [|a l IH]; intros H; simpl; auto.
  destruct l as [|b l']; [constructor|].
  inversion H; subst. constructor; auto.
Qed.

Lemma advect_range lo hi sh cL cR cs :
  within lo hi cL -> within lo hi cR -> in_range lo hi cs -> in_range lo hi (advect sh cL cR cs).
Proof.
  intros HL HR Hcs. unfold advect. destruct cs as [|c cs']; [constructor|].
  destruct (Z.eqb sh 0); auto. destruct (Z.ltb 0 sh).
  - unfold shift_fwd. apply (removelast_Forall (within lo hi) (cL :: c :: cs')). constructor; auto.
  - unfold shift_bwd. simpl. apply Forall_app. split.
    + inversion Hcs; auto.
    + constructor; auto.
Qed.

(* with pure advection the content of cell i after the shift is the previous content of its upstream neighbour *)
Lemma removelast_nth {A} (d : A) : forall (l : list A) i, (S i < length l)%nat -> nth i (removelast l) d = nth i l d.
Proof.
  induction l as [|a l IH]; intros i Hi; simpl in *; [lia|].
  destruct l as [|b l']; simpl in *; [lia|].
  destruct i as [|i]; auto. apply IH. simpl. lia.
Qed.

Lemma shift_fwd_nth cL cs i d : (i < length cs)%nat -> nth i (shift_fwd cL cs) d = nth i (cL :: cs) d.
Proof. intros Hi. unfold shift_fwd. apply removelast_nth. simpl. lia. Qed.

Lemma shift_bwd_nth cs cR i d : (i < length cs)%nat -> nth i (shift_bwd cs cR) d = nth (S i) (cs ++ [cR]) d.
Proof.
  intros Hi. unfold shift_bwd. destruct cs as [|c cs']; simpl in *; [lia|]. reflexivity.
Qed.

Lemma removelast_len {A} : forall (l : list A), length (removelast l) = pred (length l).
Proof.
  induction l as [|a l IH]; simpl; auto.
  destruct l as [|b l']; simpl in *; auto.
Qed.

Lemma advect_length sh cL cR cs : length (advect sh cL cR cs) = length cs.
Proof.
  unfold advect. destruct cs as [|c cs']; auto.
  destruct (Z.eqb sh 0); auto. destruct (Z.ltb 0 sh).
  - unfold shift_fwd. rewrite removelast_len. simpl. lia.
  - unfold shift_bwd. rewrite app_length. simpl. lia.
Qed.

(* ------------------------------------------------------------------ one transport step, whole run *)

Lemma one_shift_range lo hi c n ms cL cR cs :
  convex ms -> within lo hi cL -> within lo hi cR -> in_range lo hi cs ->
  in_range lo hi (one_shift c n ms cL cR cs).
Proof.
  intros Hms HL HR Hcs. unfold one_shift.
  apply (iter_inv (in_range lo hi)); [intros; apply mix_step_range; auto|].
  apply advect_range; auto.
  apply (iter_inv (in_range lo hi)); [intros; apply mix_step_range; auto|]. auto.
Qed.

(* ------------------------------------------------------------------ inventory of one mix run *)

(* the factor of cell i with its upper neighbour equals the factor of cell i+1 with its lower neighbour *)
Fixpoint chain (ms : list (Q * Q)) : Prop :=
  match ms with
  | p :: (q :: _) as tl => snd p == fst q /\ chain tl
  | _ => True
  end.

Lemma total_cons x l : total (x :: l) = x + total l.
Proof. reflexivity. Qed.

Lemma mix_aux_length : forall ms prev cs cR, length ms = length cs -> length (mix_aux prev ms cs cR) = length cs.
Proof.
  induction ms as [|[m m1] ms IH]; intros prev cs cR H; destruct cs as [|c cs']; simpl in *; try lia.
  f_equal. apply IH. lia.
Qed.

(* change of the column inventory in one mix run = what crosses the two ends *)
Lemma mix_aux_total : forall ms prev cs cR,
  length ms = length cs -> chain ms -> ms <> [] ->
  total (mix_aux prev ms cs cR) ==
  total cs + fst (hd (0, 0) ms) * (prev - hd 0 cs) + snd (last ms (0, 0)) * (cR - last cs 0).
Proof.
  induction ms as [|[m m1] ms IH]; intros prev cs cR Hlen Hch Hne; [congruence|].
  destruct cs as [|c cs']; [simpl in Hlen; lia|].
  destruct ms as [|[m' m1'] ms'].
  - destruct cs' as [|? ?]; [|simpl in Hlen; lia].
    simpl. rewrite (Qred_correct _). ring.
  - destruct cs' as [|c' cs'']; [simpl in Hlen; lia|].
    destruct Hch as [Hs Hch]. simpl in Hs.
    assert (Hlen' : length ((m', m1') :: ms') = length (c' :: cs'')) by (simpl in *; lia).
    specialize (IH c (c' :: cs'') cR Hlen' Hch ltac:(congruence)).
    change (mix_aux prev ((m, m1) :: (m', m1') :: ms') (c :: c' :: cs'') cR)
      with (Qred (m * prev + (1 - m - m1) * c + m1 * c') :: mix_aux c ((m', m1') :: ms') (c' :: cs'') cR).
    rewrite total_cons. rewrite IH. rewrite (Qred_correct _).
    change (hd (0, 0) ((m', m1') :: ms')) with (m', m1').
    change (hd (0, 0) ((m, m1) :: (m', m1') :: ms')) with (m, m1).
    change (hd 0 (c' :: cs'')) with c'. change (hd 0 (c :: c' :: cs'')) with c.
    change (last ((m, m1) :: (m', m1') :: ms') (0, 0)) with (last ((m', m1') :: ms') (0, 0)).
    change (last (c :: c' :: cs'') 0) with (last (c' :: cs'') 0).
    rewrite !total_cons. simpl fst. simpl snd.
    setoid_replace m1 with m' by exact Hs. ring.
Qed.

Lemma mix_step_total : forall (ms : list (Q * Q)) (cL : Q) (cs : list Q) (cR : Q),
  length ms = length cs -> chain ms -> ms <> [] ->
  total (mix_step ms cL cR cs) ==
  total cs + fst (hd (0, 0) ms) * (cL - hd 0 cs) + snd (last ms (0, 0)) * (cR - last cs 0).
Proof. intros; unfold mix_step; apply mix_aux_total; auto. Qed.

(* closed ends: the inventory does not change *)
Definition closed_ends (ms : list (Q * Q)) : Prop :=
  fst (hd (0, 0) ms) == 0 /\ snd (last ms (0, 0)) == 0.

Lemma mix_step_conserves ms cL cR cs :
  length ms = length cs -> chain ms -> closed_ends ms -> total (mix_step ms cL cR cs) == total cs.
Proof.
  intros Hlen Hch [H1 H2]. unfold mix_step.
  destruct ms as [|p ms'].
  - destruct cs; [reflexivity|simpl in Hlen; lia].
  - rewrite mix_aux_total by (auto; congruence). rewrite H1, H2. ring.
Qed.

Lemma iter_mix_conserves ms cL cR : chain ms -> closed_ends ms ->
  forall n cs, length ms = length cs ->
  total (iter n (mix_step ms cL cR) cs) == total cs /\ length (iter n (mix_step ms cL cR) cs) = length cs.
Proof.
  intros Hch Hcl n; induction n as [|n IH]; intros cs Hlen; simpl.
  - split; reflexivity.
  - assert (Hl : length (mix_step ms cL cR cs) = length cs) by (apply mix_aux_length; auto).
    destruct (IH (mix_step ms cL cR cs)) as [E L]; [lia|].
    split; [rewrite E; apply mix_step_conserves; auto | lia].
Qed.
