(* C11 — T-gen tie: the leaf expressions and the guard shape regenerated from the CURRENT source of
   Phreeqc::init_mix (coq/Gen/Gen_C11_initmix.v, written by translator/c11_initmix.py on every run)
   are compared with the hand-written model (Transport.v): formulas semantically (ring/field on
   arbitrary arguments), control structure against the shape the model was transcribed from. *)
From Coq Require Import QArith Qround ZArith String List Bool Lia Lqa.
From IPV.Gen Require Import Gen_C11_initmix.
From IPV.C11 Require Import Transport InitMixProofs.
Import ListNotations.
Open Scope Q_scope.

(* environment: the values of the C++ variables a leaf reads (canonical names, see the Gen file) *)
Definition env (l : list (string * Q)) : string -> Q :=
  fun s => match find (fun p => String.eqb (fst p) s) l with Some p => snd p | None => 0 end.

(* ------------------------------------------------------------------ control structure *)

(* statement kinds / targets and their enclosing guards, in source order, as transcribed into
   Transport.v (canonical local names: v01 dav, v02 mf12, v03 maxmix, v04 corr_disp, v05 diffc_here,
   v07 warning, v08 i, v09 l_nmix, v10 m, v11 m1, v13 temp_mix) *)
Definition expected_shape : list (string * list string) := [
  ("assign v01 := L_v01_1"%string, []);
  ("assign v07 := L_v07_1"%string, []);
  ("alloc v10"%string, []);
  ("call malloc_error"%string, ["(v10==NULL)"%string]);
  ("alloc v11"%string, []);
  ("call malloc_error"%string, ["(v11==NULL)"%string]);
  ("assign v10[v08] := L_v10_v08_1"%string, ["for((v08=0);(v08<(count_cells+1));++(v08))"%string]);
  ("assign v11[v08] := L_v11_v08_1"%string, ["for((v08=0);(v08<(count_cells+1));++(v08))"%string]);
  ("assign v04 := L_v04_1"%string, []);
  ("assign v04 := L_v04_2"%string, ["((correct_disp==1)&&(ishift!=0))"%string; "(bcon_first==3)"%string]);
  ("assign v04 := L_v04_3"%string, ["((correct_disp==1)&&(ishift!=0))"%string; "(bcon_last==3)"%string]);
  ("assign v03 := L_v03_1"%string, []);
  ("assign v05 := L_v05_1"%string, ["!nz(multi_Dflag)"%string]);
  ("assign v01 := L_v01_2"%string, ["!nz(multi_Dflag)"%string; "for((v08=1);(v08<=count_cells);++(v08))"%string; "(v08<count_cells)"%string; "(ishift!=0)"%string; "nz(disp[v08])"%string]);
  ("assign v01 := L_v01_3"%string, ["!nz(multi_Dflag)"%string; "for((v08=1);(v08<=count_cells);++(v08))"%string; "(v08<count_cells)"%string; "(ishift!=0)"%string; "nz(disp[v08+1])"%string]);
  ("assign v11[v08] := L_v11_v08_2"%string, ["!nz(multi_Dflag)"%string; "for((v08=1);(v08<=count_cells);++(v08))"%string; "(v08<count_cells)"%string; "(ishift!=0)"%string; "nz(v01)"%string]);
  ("assign v11[v08] := L_v11_v08_3"%string, ["!nz(multi_Dflag)"%string; "for((v08=1);(v08<=count_cells);++(v08))"%string; "(v08<count_cells)"%string]);
  ("assign v11[v08] := L_v11_v08_4"%string, ["!nz(multi_Dflag)"%string; "for((v08=1);(v08<=count_cells);++(v08))"%string; "(v08<count_cells)"%string]);
  ("assign v01 := L_v01_4"%string, ["!nz(multi_Dflag)"%string; "for((v08=1);(v08<=count_cells);++(v08))"%string; "(1<v08)"%string; "(ishift!=0)"%string; "nz(disp[v08])"%string]);
  ("assign v01 := L_v01_5"%string, ["!nz(multi_Dflag)"%string; "for((v08=1);(v08<=count_cells);++(v08))"%string; "(1<v08)"%string; "(ishift!=0)"%string; "nz(disp[v08-1])"%string]);
  ("assign v10[v08] := L_v10_v08_2"%string, ["!nz(multi_Dflag)"%string; "for((v08=1);(v08<=count_cells);++(v08))"%string; "(1<v08)"%string; "(ishift!=0)"%string; "nz(v01)"%string]);
  ("assign v10[v08] := L_v10_v08_3"%string, ["!nz(multi_Dflag)"%string; "for((v08=1);(v08<=count_cells);++(v08))"%string; "(1<v08)"%string]);
  ("assign v10[v08] := L_v10_v08_4"%string, ["!nz(multi_Dflag)"%string; "for((v08=1);(v08<=count_cells);++(v08))"%string; "(1<v08)"%string]);
  ("call warning_msg"%string, ["!nz(multi_Dflag)"%string; "for((v08=1);(v08<=count_cells);++(v08))"%string; "(1<v08)"%string; "(((v10[v08]!=v11[v08-1])&&!(v07))&&(!(nz(v01))||(10000100000000001/10000000000000000<(v10[v08]/(2/v01)))))"%string]);
  ("assign v07 := L_v07_2"%string, ["!nz(multi_Dflag)"%string; "for((v08=1);(v08<=count_cells);++(v08))"%string; "(1<v08)"%string; "(((v10[v08]!=v11[v08-1])&&!(v07))&&(!(nz(v01))||(10000100000000001/10000000000000000<(v10[v08]/(2/v01)))))"%string]);
  ("assign v02 := L_v02_1"%string, ["!nz(multi_Dflag)"%string; "for((v08=1);(v08<=count_cells);++(v08))"%string]);
  ("assign v03 := L_v03_2"%string, ["!nz(multi_Dflag)"%string; "for((v08=1);(v08<=count_cells);++(v08))"%string; "(v03<v02)"%string]);
  ("assign v10[1] := L_v10_1_1"%string, ["!nz(multi_Dflag)"%string; "(bcon_first==1)"%string]);
  ("assign v10[1] := L_v10_1_2"%string, ["!nz(multi_Dflag)"%string; "(bcon_first==1)"%string; "(ishift!=0)"%string]);
  ("assign v02 := L_v02_2"%string, ["!nz(multi_Dflag)"%string; "(bcon_first==1)"%string]);
  ("assign v03 := L_v03_3"%string, ["!nz(multi_Dflag)"%string; "(bcon_first==1)"%string; "(v03<v02)"%string]);
  ("assign v11[count_cells] := L_v11_count_cells_1"%string, ["!nz(multi_Dflag)"%string; "(bcon_last==1)"%string]);
  ("assign v11[count_cells] := L_v11_count_cells_2"%string, ["!nz(multi_Dflag)"%string; "(bcon_last==1)"%string; "(ishift!=0)"%string]);
  ("assign v02 := L_v02_3"%string, ["!nz(multi_Dflag)"%string; "(bcon_last==1)"%string]);
  ("assign v03 := L_v03_4"%string, ["!nz(multi_Dflag)"%string; "(bcon_last==1)"%string; "(v03<v02)"%string]);
  ("assign v09 := L_v09_1"%string, ["!nz(multi_Dflag)"%string; "(v03==0)"%string]);
  ("alloc v10"%string, ["!nz(multi_Dflag)"%string; "!(v03==0)"%string; "(2147483647<(3/2*v03))"%string]);
  ("alloc v11"%string, ["!nz(multi_Dflag)"%string; "!(v03==0)"%string; "(2147483647<(3/2*v03))"%string]);
  ("call snprintf"%string, ["!nz(multi_Dflag)"%string; "!(v03==0)"%string; "(2147483647<(3/2*v03))"%string]);
  ("call error_msg"%string, ["!nz(multi_Dflag)"%string; "!(v03==0)"%string; "(2147483647<(3/2*v03))"%string]);
  ("assign v09 := L_v09_2"%string, ["!nz(multi_Dflag)"%string; "!(v03==0)"%string]);
  ("assign v09 := L_v09_3"%string, ["!nz(multi_Dflag)"%string; "!(v03==0)"%string; "((ishift!=0)&&((bcon_first==1)||(bcon_last==1)))"%string; "(v09<2)"%string]);
  ("assign v10[v08] := L_v10_v08_5"%string, ["!nz(multi_Dflag)"%string; "!(v03==0)"%string; "for((v08=1);(v08<=count_cells);++(v08))"%string]);
  ("assign v11[v08] := L_v11_v08_5"%string, ["!nz(multi_Dflag)"%string; "!(v03==0)"%string; "for((v08=1);(v08<=count_cells);++(v08))"%string]);
  ("call v13.Set_n_user(v08)"%string, ["!nz(multi_Dflag)"%string; "!(v03==0)"%string; "for((v08=1);(v08<=count_cells);++(v08))"%string]);
  ("call v13.Set_n_user_end(v08)"%string, ["!nz(multi_Dflag)"%string; "!(v03==0)"%string; "for((v08=1);(v08<=count_cells);++(v08))"%string]);
  ("call v13.Add(v08-1,L_v13_Add_arg1_1)"%string, ["!nz(multi_Dflag)"%string; "!(v03==0)"%string; "for((v08=1);(v08<=count_cells);++(v08))"%string]);
  ("call v13.Add(v08+1,L_v13_Add_arg1_2)"%string, ["!nz(multi_Dflag)"%string; "!(v03==0)"%string; "for((v08=1);(v08<=count_cells);++(v08))"%string]);
  ("call v13.Add(v08,L_v13_Add_arg1_3)"%string, ["!nz(multi_Dflag)"%string; "!(v03==0)"%string; "for((v08=1);(v08<=count_cells);++(v08))"%string]);
  ("store Dispersion_mix_map[v08] := v13"%string, ["!nz(multi_Dflag)"%string; "!(v03==0)"%string; "for((v08=1);(v08<=count_cells);++(v08))"%string]);
  ("alloc v10"%string, ["!nz(multi_Dflag)"%string]);
  ("alloc v11"%string, ["!nz(multi_Dflag)"%string]);
  ("return L_return_1"%string, ["!nz(multi_Dflag)"%string])
].

Lemma shape_ok : shape = expected_shape.
Proof. vm_compute. reflexivity. Qed.

(* ------------------------------------------------------------------ formulas *)

Arguments Qplus : simpl never.
Arguments Qmult : simpl never.
Arguments Qminus : simpl never.
Arguments Qdiv : simpl never.
Arguments Qopp : simpl never.
Arguments Qfloor : simpl never.
Arguments inject_Z : simpl never.

Ltac leaf := cbv [env find fst snd String.eqb Ascii.eqb Bool.eqb]; cbv beta iota.

(* semantic comparison of two rational expressions with divisions: denominators that are equal as
   polynomials are first made syntactically equal (so reordering commutative terms in the source is
   harmless), then `ring` with 1/d as an atom; no side conditions (x/0 = 0 on both sides) *)
Ltac unify_dens := repeat match goal with
  | |- context [ Qdiv _ ?d1 ] =>
      match goal with
      | |- context [ Qdiv _ ?d2 ] =>
          tryif constr_eq d1 d2 then fail else (setoid_replace d2 with d1 by ring)
      end
  end.
Ltac qsem := try reflexivity; unify_dens; unfold Qdiv; ring.

(* corr_disp = 1.; if (correct_disp && ishift != 0) { if (bcon_first == 3) corr_disp += 1./count_cells; if (bcon_last == 3) ... } *)
Lemma gen_corr_disp : forall c : cfg,
  corr_disp c ==
  (let n := inject_Z (ncells c) in
   let x0 := L_v04_1 (env []) in
   if corrd c && adv c then
     let x1 := if Z.eqb (bcf c) 3 then L_v04_2 (env [("v04"%string, x0); ("count_cells"%string, n)]) else x0 in
     if Z.eqb (bcl c) 3 then L_v04_3 (env [("v04"%string, x1); ("count_cells"%string, n)]) else x1
   else x0).
Proof.
  intros c. unfold corr_disp, L_v04_1, L_v04_2, L_v04_3. leaf.
  destruct (corrd c && adv c); [|reflexivity].
  destruct (Z.eqb (bcf c) 3), (Z.eqb (bcl c) 3); leaf; qsem.
Qed.

(* diffc_here = 2 * diffc_tr * timest *)
Lemma gen_diffc_here : forall cs d t sh b1 b2 cd,
  diffc_here (mkCfg cs d t sh b1 b2 cd) == L_v05_1 (env [("diffc_tr"%string, d); ("timest"%string, t)]).
Proof. intros. unfold diffc_here, L_v05_1. leaf. simpl. qsem. Qed.

(* the two conditional updates of dav, towards the higher and towards the lower neighbour *)
Lemma gen_dav_up : forall dav a b,
  dav_upd dav a b ==
  (let E := fun d => env [("v01"%string, d); ("length[v08]"%string, len a); ("disp[v08]"%string, disp a);
                           ("length[v08+1]"%string, len b); ("disp[v08+1]"%string, disp b)] in
   let d1 := if Qnz (disp a) then L_v01_2 (E dav) else dav in
   if Qnz (disp b) then L_v01_3 (E d1) else d1).
Proof.
  intros. unfold dav_upd, L_v01_2, L_v01_3. leaf.
  destruct (Qnz (disp a)), (Qnz (disp b)); qsem.
Qed.

Lemma gen_dav_lo : forall dav a b,
  dav_upd dav a b ==
  (let E := fun d => env [("v01"%string, d); ("length[v08]"%string, len a); ("disp[v08]"%string, disp a);
                           ("length[v08-1]"%string, len b); ("disp[v08-1]"%string, disp b)] in
   let d1 := if Qnz (disp a) then L_v01_4 (E dav) else dav in
   if Qnz (disp b) then L_v01_5 (E d1) else d1).
Proof.
  intros. unfold dav_upd, L_v01_4, L_v01_5. leaf.
  destruct (Qnz (disp a)), (Qnz (disp b)); qsem.
Qed.

(* m1[i]: zero-initialised; = 2/dav (if ishift != 0 and dav); += diffc_here/(l_i*l_i + l_i*l_{i+1}); *= corr_disp *)
Lemma gen_factor_up : forall a corr dh dav cur nx,
  fst (half_factor a corr dh dav cur nx) ==
  (let dav' := snd (half_factor a corr dh dav cur nx) in
   let E := fun m => env [("v11[v08]"%string, m); ("v01"%string, dav'); ("v05"%string, dh); ("v04"%string, corr);
                           ("length[v08]"%string, len cur); ("length[v08+1]"%string, len nx)] in
   let m0 := L_v11_v08_1 (E 0) in
   let m1 := if a && Qnz dav' then L_v11_v08_2 (E m0) else m0 in
   let m2 := L_v11_v08_3 (E m1) in
   L_v11_v08_4 (E m2)).
Proof.
  intros. unfold half_factor, disp_part, diff_part, L_v11_v08_1, L_v11_v08_2, L_v11_v08_3, L_v11_v08_4.
  cbv [fst snd]. leaf. cbv [len].
  destruct a; [destruct (Qnz (dav_upd dav cur nx))|]; cbv [andb]; qsem.
Qed.

Lemma gen_factor_lo : forall a corr dh dav cur pv,
  fst (half_factor a corr dh dav cur pv) ==
  (let dav' := snd (half_factor a corr dh dav cur pv) in
   let E := fun m => env [("v10[v08]"%string, m); ("v01"%string, dav'); ("v05"%string, dh); ("v04"%string, corr);
                           ("length[v08]"%string, len cur); ("length[v08-1]"%string, len pv)] in
   let m0 := L_v10_v08_1 (E 0) in
   let m1 := if a && Qnz dav' then L_v10_v08_2 (E m0) else m0 in
   let m2 := L_v10_v08_3 (E m1) in
   L_v10_v08_4 (E m2)).
Proof.
  intros. unfold half_factor, disp_part, diff_part, L_v10_v08_1, L_v10_v08_2, L_v10_v08_3, L_v10_v08_4.
  cbv [fst snd]. leaf. cbv [len].
  destruct a; [destruct (Qnz (dav_upd dav cur pv))|]; cbv [andb]; qsem.
Qed.

(* constant boundaries: m[1] = diffc_here/(l_1*l_1) [+ disp_1/l_1 if ishift != 0]; same for m1[count_cells] *)
Lemma gen_bnd_first : forall a dh c,
  bnd_factor a dh c ==
  (let E := fun m => env [("v10[1]"%string, m); ("v05"%string, dh); ("length[1]"%string, len c); ("disp[1]"%string, disp c)] in
   let m0 := L_v10_1_1 (E 0) in if a then L_v10_1_2 (E m0) else m0).
Proof. intros. unfold bnd_factor, L_v10_1_1, L_v10_1_2. leaf. destruct a; qsem. Qed.

Lemma gen_bnd_last : forall a dh c,
  bnd_factor a dh c ==
  (let E := fun m => env [("v11[count_cells]"%string, m); ("v05"%string, dh); ("length[count_cells]"%string, len c);
                           ("disp[count_cells]"%string, disp c)] in
   let m0 := L_v11_count_cells_1 (E 0) in if a then L_v11_count_cells_2 (E m0) else m0).
Proof. intros. unfold bnd_factor, L_v11_count_cells_1, L_v11_count_cells_2. leaf. destruct a; qsem. Qed.

Lemma Qltb_compat a b c : a == b -> Qltb c a = Qltb c b.
Proof.
  intros H. unfold Qltb. f_equal.
  destruct (Qle_bool a c) eqn:A; destruct (Qle_bool b c) eqn:B; auto.
  - apply Qle_bool_iff in A. rewrite H in A. apply Qle_bool_iff in A. congruence.
  - apply Qle_bool_iff in B. rewrite <- H in B. apply Qle_bool_iff in B. congruence.
Qed.

Lemma Qltb_compat_l a b c : a == b -> Qltb a c = Qltb b c.
Proof.
  intros H. unfold Qltb. f_equal.
  destruct (Qle_bool c a) eqn:A; destruct (Qle_bool c b) eqn:B; auto.
  - apply Qle_bool_iff in A. rewrite H in A. apply Qle_bool_iff in A. congruence.
  - apply Qle_bool_iff in B. rewrite <- H in B. apply Qle_bool_iff in B. congruence.
Qed.

Lemma upmax_compat mx s mf v : mf == s -> v == s -> upmax mx s == (if Qltb mx mf then v else mx).
Proof.
  intros H1 H2. unfold upmax. rewrite (Qltb_compat mf s mx H1).
  destruct (Qltb mx s); [symmetry; exact H2 | reflexivity].
Qed.

(* mf12 = m[.] + m1[.];  if (mf12 > maxmix) maxmix = mf12;   (three places)   maxmix starts at 0 *)
Lemma gen_maxmix : forall mx m m1,
  L_v03_1 (env []) == 0 /\
  upmax mx (sum2 (m, m1)) ==
    (let mf := L_v02_1 (env [("v10[v08]"%string, m); ("v11[v08]"%string, m1)]) in
     if Qltb mx mf then L_v03_2 (env [("v02"%string, mf)]) else mx) /\
  upmax mx (sum2 (m, m1)) ==
    (let mf := L_v02_2 (env [("v10[1]"%string, m); ("v11[1]"%string, m1)]) in
     if Qltb mx mf then L_v03_3 (env [("v02"%string, mf)]) else mx) /\
  upmax mx (sum2 (m, m1)) ==
    (let mf := L_v02_3 (env [("v10[count_cells]"%string, m); ("v11[count_cells]"%string, m1)]) in
     if Qltb mx mf then L_v03_4 (env [("v02"%string, mf)]) else mx).
Proof.
  intros. cbv zeta.
  split; [unfold L_v03_1; leaf; qsem|].
  split; [|split]; apply upmax_compat;
    unfold sum2, L_v02_1, L_v02_2, L_v02_3, L_v03_2, L_v03_3, L_v03_4; leaf; qsem.
Qed.

Lemma Qltb_inject_Z k : Qltb (inject_Z k) (2 # 1) = Z.ltb k 2.
Proof.
  unfold Qltb. destruct (Z.ltb k 2) eqn:E.
  - apply Z.ltb_lt in E. destruct (Qle_bool (2 # 1) (inject_Z k)) eqn:E2; auto.
    apply Qle_bool_iff in E2. change (2 # 1) with (inject_Z 2) in E2. rewrite <- Zle_Qle in E2. lia.
  - apply Z.ltb_ge in E. assert (H : Qle_bool (2 # 1) (inject_Z k) = true); [|rewrite H; reflexivity].
    apply Qle_bool_iff. change (2 # 1) with (inject_Z 2). rewrite <- Zle_Qle. lia.
Qed.

(* l_nmix: 0 if maxmix == 0, else 1 + (int) floor(1.5 * maxmix), raised to 2 for advective runs with a constant boundary *)
Lemma gen_nmix : forall c mx,
  inject_Z (nmix_of c mx) ==
  (if Qeq_bool mx 0 then L_v09_1 (env [])
   else let k := L_v09_2 (env [("v03"%string, mx)]) in
        if adv c && (Z.eqb (bcf c) 1 || Z.eqb (bcl c) 1) && Qltb k (2 # 1) then L_v09_3 (env []) else k).
Proof.
  intros. unfold nmix_of. cbv zeta.
  destruct (Qeq_bool mx 0); [unfold L_v09_1; leaf; qsem|].
  assert (K : L_v09_2 (env [("v03"%string, mx)]) == inject_Z (1 + Qfloor ((3 # 2) * mx))).
  { unfold L_v09_2. leaf. rewrite inject_Z_plus.
    match goal with
    | |- context [ Qfloor ?t ] => try (setoid_replace t with ((3 # 2) * mx) by ring)
    end.
    qsem. }
  rewrite (Qltb_compat_l _ _ (2 # 1) K), Qltb_inject_Z.
  destruct (adv c && (Z.eqb (bcf c) 1 || Z.eqb (bcl c) 1) && Z.ltb (1 + Qfloor ((3 # 2) * mx)) 2).
  - unfold L_v09_3. leaf. qsem.
  - symmetry. exact K.
Qed.

(* m[i] /= l_nmix; m1[i] /= l_nmix; the mix structure is { i-1: m[i], i+1: m1[i], i: 1 - m[i] - m1[i] } *)
Lemma gen_divide : forall m n,
  m / n == L_v10_v08_5 (env [("v10[v08]"%string, m); ("v09"%string, n)]) /\
  m / n == L_v11_v08_5 (env [("v11[v08]"%string, m); ("v09"%string, n)]) /\
  L_return_1 (env [("v09"%string, n)]) == n.
Proof. intros. unfold L_v10_v08_5, L_v11_v08_5, L_return_1. leaf. repeat split; qsem. Qed.

Lemma gen_mix_coefficients : forall m m1 prev c next,
  m * prev + (1 - m - m1) * c + m1 * next ==
  (let E := env [("v10[v08]"%string, m); ("v11[v08]"%string, m1)] in
   L_v13_Add_arg1_1 E * prev + L_v13_Add_arg1_3 E * c + L_v13_Add_arg1_2 E * next).
Proof. intros. unfold L_v13_Add_arg1_1, L_v13_Add_arg1_2, L_v13_Add_arg1_3. leaf. qsem. Qed.

(* ------------------------------------------------------------------ multi_D: the element-name tests

   The three places of Phreeqc::multi_D that decide which key of a solution's totals belongs to which
   element (regenerated: Gen_C11_mcd.name_tests).  1, 2: booking a flux of element m_s[l].name on the
   first key whose base name (up to "(") is that name - Mcd.book: String.eqb (base k) name;
   3: the negative-total repair looks for keys of the same element - Mcd.same_element:
   strncmp(it, kit, |base kit|) == 0 and |base kit| == |base it|  <->  base it = base kit. *)
From IPV.Gen Require Import Gen_C11_mcd.

Definition expected_name_tests : list (string * list string) := [
  ("((strncmp(m_s[x0].name,x1.first.c_str(),x2)==0)&&(x2==x3))"%string,
   ["(x0=0)"%string; "(x2=strlen(m_s[x0].name))"%string; "(x3=strcspn(x1.first.c_str(),'('))"%string]);
  ("((strncmp(m_s[x0].name,x1.first.c_str(),x2)==0)&&(x2==x3))"%string,
   ["(x0=0)"%string; "(x2=strlen(m_s[x0].name))"%string; "(x3=strcspn(x1.first.c_str(),'('))"%string]);
  ("(!(strncmp(x0.first.c_str(),x1.first.c_str(),x2))&&(x2==strcspn(x0.first.c_str(),'(')))"%string,
   ["(x2=strcspn(x1.first.c_str(),'('))"%string])
].

Lemma name_tests_ok : name_tests = expected_name_tests.
Proof. vm_compute. reflexivity. Qed.


(* ------------------------------------------------------------------ init_mix, multicomponent-diffusion branch

   canonical local names as above (v00 lav, v01 dav, v02 mf12, v03 maxmix, v04 corr_disp, v06 mD, v08 i, v09 l_nmix,
   v10 m, v11 m1); transcribed into McdMix.v (explicit part; the implicit sub-branch is in the shape only) *)
From IPV.C11 Require Import McdMix.

Definition expected_shape_mcd : list (string * list string) := [
  ("assign dV_dcell := D_dV_dcell_1"%string, ["nz(multi_Dflag)"%string; "nz(dV_dcell)"%string]);
  ("assign v00 := D_v00_1"%string, ["nz(multi_Dflag)"%string; "for((v08=1);(v08<=count_cells);++(v08))"%string; "(v08<count_cells)"%string]);
  ("assign v06 := D_v06_1"%string, ["nz(multi_Dflag)"%string; "for((v08=1);(v08<=count_cells);++(v08))"%string; "(v08<count_cells)"%string]);
  ("assign v03 := D_v03_1"%string, ["nz(multi_Dflag)"%string; "for((v08=1);(v08<=count_cells);++(v08))"%string; "(v08<count_cells)"%string; "(v03<v06)"%string]);
  ("assign v01 := D_v01_1"%string, ["nz(multi_Dflag)"%string; "for((v08=1);(v08<=count_cells);++(v08))"%string; "(ishift!=0)"%string; "(v08<count_cells)"%string; "nz(disp[v08])"%string]);
  ("assign v01 := D_v01_2"%string, ["nz(multi_Dflag)"%string; "for((v08=1);(v08<=count_cells);++(v08))"%string; "(ishift!=0)"%string; "(v08<count_cells)"%string; "nz(disp[v08+1])"%string]);
  ("assign v11[v08] := D_v11_v08_1"%string, ["nz(multi_Dflag)"%string; "for((v08=1);(v08<=count_cells);++(v08))"%string; "(ishift!=0)"%string; "(v08<count_cells)"%string; "nz(v01)"%string]);
  ("assign v01 := D_v01_3"%string, ["nz(multi_Dflag)"%string; "for((v08=1);(v08<=count_cells);++(v08))"%string; "(ishift!=0)"%string; "(1<v08)"%string; "nz(disp[v08])"%string]);
  ("assign v01 := D_v01_4"%string, ["nz(multi_Dflag)"%string; "for((v08=1);(v08<=count_cells);++(v08))"%string; "(ishift!=0)"%string; "(1<v08)"%string; "nz(disp[v08-1])"%string]);
  ("assign v10[v08] := D_v10_v08_1"%string, ["nz(multi_Dflag)"%string; "for((v08=1);(v08<=count_cells);++(v08))"%string; "(ishift!=0)"%string; "(1<v08)"%string; "nz(v01)"%string]);
  ("assign v02 := D_v02_1"%string, ["nz(multi_Dflag)"%string; "for((v08=1);(v08<=count_cells);++(v08))"%string; "(ishift!=0)"%string]);
  ("assign v03 := D_v03_2"%string, ["nz(multi_Dflag)"%string; "for((v08=1);(v08<=count_cells);++(v08))"%string; "(ishift!=0)"%string; "(v03<v02)"%string]);
  ("assign v06 := D_v06_2"%string, ["nz(multi_Dflag)"%string; "(bcon_first==1)"%string]);
  ("assign v03 := D_v03_3"%string, ["nz(multi_Dflag)"%string; "(bcon_first==1)"%string; "(v03<v06)"%string]);
  ("assign v10[1] := D_v10_1_1"%string, ["nz(multi_Dflag)"%string; "(bcon_first==1)"%string; "(ishift!=0)"%string]);
  ("assign v02 := D_v02_2"%string, ["nz(multi_Dflag)"%string; "(bcon_first==1)"%string; "(ishift!=0)"%string]);
  ("assign v03 := D_v03_4"%string, ["nz(multi_Dflag)"%string; "(bcon_first==1)"%string; "(ishift!=0)"%string; "(v03<v02)"%string]);
  ("assign v06 := D_v06_3"%string, ["nz(multi_Dflag)"%string; "(bcon_last==1)"%string]);
  ("assign v03 := D_v03_5"%string, ["nz(multi_Dflag)"%string; "(bcon_last==1)"%string; "(v03<v06)"%string]);
  ("assign v11[count_cells] := D_v11_count_cells_1"%string, ["nz(multi_Dflag)"%string; "(bcon_last==1)"%string; "(ishift!=0)"%string]);
  ("assign v02 := D_v02_3"%string, ["nz(multi_Dflag)"%string; "(bcon_last==1)"%string; "(ishift!=0)"%string]);
  ("assign v03 := D_v03_6"%string, ["nz(multi_Dflag)"%string; "(bcon_last==1)"%string; "(ishift!=0)"%string; "(v03<v02)"%string]);
  ("assign v09 := D_v09_1"%string, ["nz(multi_Dflag)"%string; "(v03==0)"%string]);
  ("assign v09 := D_v09_2"%string, ["nz(multi_Dflag)"%string; "(v03==0)"%string; "((1<mcd_substeps)&&(0<stag_data.count_stag))"%string]);
  ("assign v09 := D_v09_3"%string, ["nz(multi_Dflag)"%string; "!(v03==0)"%string; "nz(implicit)"%string]);
  ("assign v09 := D_v09_4"%string, ["nz(multi_Dflag)"%string; "!(v03==0)"%string; "nz(implicit)"%string; "(max_mixf<v03)"%string]);
  ("assign v09 := D_v09_5"%string, ["nz(multi_Dflag)"%string; "!(v03==0)"%string; "nz(implicit)"%string; "((ishift!=0)&&((bcon_first==1)||(bcon_last==1)))"%string; "(v09<2)"%string]);
  ("assign v09 := D_v09_6"%string, ["nz(multi_Dflag)"%string; "!(v03==0)"%string; "nz(implicit)"%string; "(1<mcd_substeps)"%string]);
  ("alloc v10"%string, ["nz(multi_Dflag)"%string; "!(v03==0)"%string; "!nz(implicit)"%string; "(2147483647<((9/4*v03)+1))"%string]);
  ("alloc v11"%string, ["nz(multi_Dflag)"%string; "!(v03==0)"%string; "!nz(implicit)"%string; "(2147483647<((9/4*v03)+1))"%string]);
  ("call snprintf"%string, ["nz(multi_Dflag)"%string; "!(v03==0)"%string; "!nz(implicit)"%string; "(2147483647<((9/4*v03)+1))"%string]);
  ("call error_msg"%string, ["nz(multi_Dflag)"%string; "!(v03==0)"%string; "!nz(implicit)"%string; "(2147483647<((9/4*v03)+1))"%string]);
  ("assign v09 := D_v09_7"%string, ["nz(multi_Dflag)"%string; "!(v03==0)"%string; "!nz(implicit)"%string; "((bcon_first==1)||(bcon_last==1))"%string]);
  ("assign v09 := D_v09_8"%string, ["nz(multi_Dflag)"%string; "!(v03==0)"%string; "!nz(implicit)"%string; "!((bcon_first==1)||(bcon_last==1))"%string]);
  ("assign v09 := D_v09_9"%string, ["nz(multi_Dflag)"%string; "!(v03==0)"%string; "!nz(implicit)"%string; "((ishift!=0)&&((bcon_first==1)||(bcon_last==1)))"%string; "(v09<2)"%string]);
  ("assign v09 := D_v09_10"%string, ["nz(multi_Dflag)"%string; "!(v03==0)"%string; "!nz(implicit)"%string; "(1<mcd_substeps)"%string]);
  ("assign v10[v08] := D_v10_v08_2"%string, ["nz(multi_Dflag)"%string; "for((v08=1);(v08<=count_cells);++(v08))"%string]);
  ("assign v11[v08] := D_v11_v08_2"%string, ["nz(multi_Dflag)"%string; "for((v08=1);(v08<=count_cells);++(v08))"%string]);
  ("call v13.Set_n_user(v08)"%string, ["nz(multi_Dflag)"%string; "for((v08=1);(v08<=count_cells);++(v08))"%string]);
  ("call v13.Set_n_user_end(v08)"%string, ["nz(multi_Dflag)"%string; "for((v08=1);(v08<=count_cells);++(v08))"%string]);
  ("call v13.Add(v08-1,D_v13_Add_arg1_1)"%string, ["nz(multi_Dflag)"%string; "for((v08=1);(v08<=count_cells);++(v08))"%string]);
  ("call v13.Add(v08+1,D_v13_Add_arg1_2)"%string, ["nz(multi_Dflag)"%string; "for((v08=1);(v08<=count_cells);++(v08))"%string]);
  ("call v13.Add(v08,D_v13_Add_arg1_3)"%string, ["nz(multi_Dflag)"%string; "for((v08=1);(v08<=count_cells);++(v08))"%string]);
  ("store Dispersion_mix_map[v08] := v13"%string, ["nz(multi_Dflag)"%string; "for((v08=1);(v08<=count_cells);++(v08))"%string]);
  ("alloc v10"%string, ["nz(multi_Dflag)"%string]);
  ("alloc v11"%string, ["nz(multi_Dflag)"%string]);
  ("return D_return_1"%string, ["nz(multi_Dflag)"%string])
].

Lemma shape_mcd_ok : shape_mcd = expected_shape_mcd.
Proof. vm_compute. reflexivity. Qed.

(* lav = (length[i+1] + length[i]) / 2; mD = diffc_max * timest / (lav * lav) *)
Lemma gen_mcd_fourier : forall dmax t a b,
  fourier (dmax * t) a b ==
  (let lv := D_v00_1 (env [("length[v08+1]"%string, len b); ("length[v08]"%string, len a)]) in
   D_v06_1 (env [("diffc_max"%string, dmax); ("timest"%string, t); ("v00"%string, lv)])).
Proof. intros. unfold fourier, lav, D_v00_1, D_v06_1. leaf. qsem. Qed.

(* constant boundaries: mD = 2 * diffc_max * timest / (length * length) *)
Lemma gen_mcd_bnd_fourier : forall dmax t c,
  bnd_fourier (dmax * t) c == D_v06_2 (env [("diffc_max"%string, dmax); ("timest"%string, t); ("length[1]"%string, len c)]) /\
  bnd_fourier (dmax * t) c == D_v06_3 (env [("diffc_max"%string, dmax); ("timest"%string, t); ("length[count_cells]"%string, len c)]).
Proof. intros. unfold bnd_fourier, D_v06_2, D_v06_3. leaf. split; qsem. Qed.

(* dispersive factors of the MCD branch: dav as in the other branch; if (dav) m = 2 * corr_disp / dav; boundary 2 * disp / length * corr_disp *)
Lemma gen_mcd_disp : forall corr dav cur other,
  snd (mcd_disp corr dav cur other) ==
    (let E := fun d => env [("v01"%string, d); ("length[v08]"%string, len cur); ("disp[v08]"%string, disp cur);
                             ("length[v08+1]"%string, len other); ("disp[v08+1]"%string, disp other)] in
     let d1 := if Qnz (disp cur) then D_v01_1 (E dav) else dav in
     if Qnz (disp other) then D_v01_2 (E d1) else d1) /\
  snd (mcd_disp corr dav cur other) ==
    (let E := fun d => env [("v01"%string, d); ("length[v08]"%string, len cur); ("disp[v08]"%string, disp cur);
                             ("length[v08-1]"%string, len other); ("disp[v08-1]"%string, disp other)] in
     let d1 := if Qnz (disp cur) then D_v01_3 (E dav) else dav in
     if Qnz (disp other) then D_v01_4 (E d1) else d1) /\
  fst (mcd_disp corr dav cur other) ==
    (let dav' := snd (mcd_disp corr dav cur other) in
     if Qnz dav' then D_v11_v08_1 (env [("v04"%string, corr); ("v01"%string, dav')]) else 0) /\
  fst (mcd_disp corr dav cur other) ==
    (let dav' := snd (mcd_disp corr dav cur other) in
     if Qnz dav' then D_v10_v08_1 (env [("v04"%string, corr); ("v01"%string, dav')]) else 0).
Proof.
  intros. unfold mcd_disp, dav_upd, D_v01_1, D_v01_2, D_v01_3, D_v01_4, D_v11_v08_1, D_v10_v08_1. cbv [fst snd]. leaf.
  split; [|split; [|split]].
  - destruct (Qnz (disp cur)), (Qnz (disp other)); qsem.
  - destruct (Qnz (disp cur)), (Qnz (disp other)); qsem.
  - match goal with |- context [Qnz ?d] => destruct (Qnz d) end; qsem.
  - match goal with |- context [Qnz ?d] => destruct (Qnz d) end; qsem.
Qed.

Lemma gen_mcd_bnd_disp : forall corr c,
  bnd_disp corr c == D_v10_1_1 (env [("v04"%string, corr); ("disp[1]"%string, disp c); ("length[1]"%string, len c)]) /\
  bnd_disp corr c == D_v11_count_cells_1 (env [("v04"%string, corr); ("disp[count_cells]"%string, disp c); ("length[count_cells]"%string, len c)]).
Proof. intros. unfold bnd_disp, D_v10_1_1, D_v11_count_cells_1. leaf. split; qsem. Qed.

(* maxmix is raised to mD / mf12 exactly where the model applies upmax *)
Lemma gen_mcd_maxmix : forall mx v m m1,
  upmax mx v == (if Qltb mx v then D_v03_1 (env [("v06"%string, v)]) else mx) /\
  upmax mx v == (if Qltb mx v then D_v03_3 (env [("v06"%string, v)]) else mx) /\
  upmax mx v == (if Qltb mx v then D_v03_5 (env [("v06"%string, v)]) else mx) /\
  upmax mx (m + m1) == (let mf := D_v02_1 (env [("v10[v08]"%string, m); ("v11[v08]"%string, m1)]) in
                        if Qltb mx mf then D_v03_2 (env [("v02"%string, mf)]) else mx) /\
  upmax mx (sum2 (m, m1)) == (let mf := D_v02_2 (env [("v10[1]"%string, m); ("v11[1]"%string, m1)]) in
                        if Qltb mx mf then D_v03_4 (env [("v02"%string, mf)]) else mx) /\
  upmax mx (sum2 (m, m1)) == (let mf := D_v02_3 (env [("v10[count_cells]"%string, m); ("v11[count_cells]"%string, m1)]) in
                        if Qltb mx mf then D_v03_6 (env [("v02"%string, mf)]) else mx).
Proof.
  intros. cbv zeta.
  split; [|split; [|split; [|split; [|split]]]]; apply upmax_compat;
    unfold sum2, D_v03_1, D_v03_2, D_v03_3, D_v03_4, D_v03_5, D_v03_6, D_v02_1, D_v02_2, D_v02_3; leaf; qsem.
Qed.

(* explicit branch: l_nmix = 1 + floor(2.25 maxmix) with a constant boundary, else 1 + floor(1.5 maxmix); at least 2 for
   advection with a constant boundary; ceil(l_nmix * mcd_substeps) when mcd_substeps > 1; 0 when maxmix == 0 *)
Lemma gen_mcd_nmix : forall c mx s,
  inject_Z (mcd_nmix c mx s) ==
  (if Qeq_bool mx 0 then D_v09_1 (env [])
   else let cb := Z.eqb (bcf c) 1 || Z.eqb (bcl c) 1 in
        let k := if cb then D_v09_7 (env [("v03"%string, mx)]) else D_v09_8 (env [("v03"%string, mx)]) in
        let k' := if adv c && cb && Qltb k (2 # 1) then D_v09_9 (env []) else k in
        if Qltb 1 s then D_v09_10 (env [("v09"%string, k'); ("mcd_substeps"%string, s)]) else k').
Proof.
  intros. unfold mcd_nmix. cbv zeta.
  destruct (Qeq_bool mx 0); [unfold D_v09_1; leaf; qsem|].
  set (cb := Z.eqb (bcf c) 1 || Z.eqb (bcl c) 1).
  set (f := if cb then 9 # 4 else 3 # 2).
  assert (K : (if cb then D_v09_7 (env [("v03"%string, mx)]) else D_v09_8 (env [("v03"%string, mx)]))
              == inject_Z (1 + Qfloor (f * mx))).
  { unfold f. destruct cb; unfold D_v09_7, D_v09_8; leaf; rewrite inject_Z_plus;
      match goal with
      | |- context [ Qfloor ?t ] => first [ setoid_replace t with ((9 # 4) * mx) by ring | setoid_replace t with ((3 # 2) * mx) by ring | idtac ]
      end; qsem. }
  rewrite (Qltb_compat_l _ _ (2 # 1) K), Qltb_inject_Z.
  set (kz := (1 + Qfloor (f * mx))%Z) in *.
  destruct (adv c && cb && Z.ltb kz 2).
  - assert (K2 : D_v09_9 (env []) == inject_Z 2) by (unfold D_v09_9; leaf; qsem).
    destruct (Qltb 1 s).
    + unfold D_v09_10. leaf.
      match goal with |- context [ Qceiling ?t ] => setoid_replace t with (inject_Z 2 * s) by (rewrite K2; ring) end. reflexivity.
    + symmetry. exact K2.
  - destruct (Qltb 1 s).
    + unfold D_v09_10. leaf.
      match goal with |- context [ Qceiling ?t ] => setoid_replace t with (inject_Z kz * s) by (rewrite K; ring) end. reflexivity.
    + symmetry. exact K.
Qed.


(* ------------------------------------------------------------------ read_transport: the cell set-up

   statements of Phreeqc::read_transport that determine max_cells, fill cell_data[].length / .disp and turn closed into flux
   boundaries for advective runs (regenerated: Gen_C11_setup).  Canonical local names: v00 count_length, v01 count_disp,
   v02 i, v03 length (the list read from -lengths), v04 i (size_t), v05 disp (the list read from -dispersivities).
   Transcribed into Setup.v (max_cells, fill with defaults 1 and 0 for ALL cells 1..max_cells when the column has grown,
   given values then the last one repeated) and Transport.read_bc. *)
From IPV.Gen Require Import Gen_C11_setup.
From IPV.C11 Require Import Setup.

Definition expected_shape_setup : list (string * list string) := [
  ("assign max_cells := S_max_cells_1"%string, []);
  ("assign max_cells := S_max_cells_2"%string, ["(max_cells<v00)"%string]);
  ("assign max_cells := S_max_cells_3"%string, ["(max_cells<v01)"%string]);
  ("assign error_string := call sformatf"%string, ["(v00==0)"%string; "(old_cells<max_cells)"%string]);
  ("call warning_msg"%string, ["(v00==0)"%string; "(old_cells<max_cells)"%string]);
  ("assign cell.length[v02] := S_cell_length_v02_1"%string, ["(v00==0)"%string; "(old_cells<max_cells)"%string; "for((v02=1);(v02<=max_cells);++(v02))"%string]);
  ("assign cell.length[v02] := S_cell_length_v02_2"%string, ["!(v00==0)"%string; "for((v02=1);(v02<=v00);++(v02))"%string]);
  ("assign error_string := call sformatf"%string, ["!(v00==0)"%string; "(v00<max_cells)"%string]);
  ("call warning_msg"%string, ["!(v00==0)"%string; "(v00<max_cells)"%string]);
  ("assign cell.length[v04+1] := S_cell_length_v04_1_1"%string, ["!(v00==0)"%string; "(v00<max_cells)"%string; "for((v04=v00);(v04<=max_cells);++(v04))"%string]);
  ("assign error_string := call sformatf"%string, ["(v01==0)"%string; "(old_cells<max_cells)"%string]);
  ("call warning_msg"%string, ["(v01==0)"%string; "(old_cells<max_cells)"%string]);
  ("assign cell.disp[v02] := S_cell_disp_v02_1"%string, ["(v01==0)"%string; "(old_cells<max_cells)"%string; "for((v02=1);(v02<=max_cells);++(v02))"%string]);
  ("assign cell.disp[v02] := S_cell_disp_v02_2"%string, ["!(v01==0)"%string; "for((v02=1);(v02<=v01);++(v02))"%string]);
  ("assign error_string := call sformatf"%string, ["!(v01==0)"%string; "(v01<max_cells)"%string]);
  ("call warning_msg"%string, ["!(v01==0)"%string; "(v01<max_cells)"%string]);
  ("assign cell.disp[v02+1] := S_cell_disp_v02_1_1"%string, ["!(v01==0)"%string; "(v01<max_cells)"%string; "for((v02=v01);(v02<=max_cells);++(v02))"%string]);
  ("call warning_msg"%string, ["((ishift!=0)&&((bcon_first==2)||(bcon_last==2)))"%string]);
  ("assign bcon_first := S_bcon_first_1"%string, ["((ishift!=0)&&((bcon_first==2)||(bcon_last==2)))"%string; "(bcon_first==2)"%string]);
  ("assign bcon_last := S_bcon_last_1"%string, ["((ishift!=0)&&((bcon_first==2)||(bcon_last==2)))"%string; "(bcon_last==2)"%string])
].

Lemma shape_setup_ok : shape_setup = expected_shape_setup.
Proof. vm_compute. reflexivity. Qed.

(* the values written: default length 1, default dispersivity 0, given values, last given value; closed -> flux = 3 *)
Lemma gen_setup_values : forall (gl gd : nat -> Q) (i cl cd : Q),
  S_cell_length_v02_1 (env []) == 1 /\ S_cell_disp_v02_1 (env []) == 0 /\
  S_cell_length_v02_2 (env [("v03[v02-1]"%string, i)]) == i /\ S_cell_disp_v02_2 (env [("v05[v02-1]"%string, i)]) == i /\
  S_cell_length_v04_1_1 (env [("v03[v00-1]"%string, cl)]) == cl /\ S_cell_disp_v02_1_1 (env [("v05[v01-1]"%string, cd)]) == cd /\
  S_bcon_first_1 (env []) == 3 /\ S_bcon_last_1 (env []) == 3.
Proof.
  intros. unfold S_cell_length_v02_1, S_cell_disp_v02_1, S_cell_length_v02_2, S_cell_disp_v02_2, S_cell_length_v04_1_1,
    S_cell_disp_v02_1_1, S_bcon_first_1, S_bcon_last_1. leaf. repeat split; reflexivity.
Qed.

(* max_cells = count_cells, raised to count_length and count_disp *)
Lemma gen_setup_max_cells : forall (cc : nat) (gl gd : list Q),
  inject_Z (Z.of_nat (max_cells cc gl gd)) ==
  (let c := inject_Z (Z.of_nat cc) in let nl := inject_Z (Z.of_nat (length gl)) in let nd := inject_Z (Z.of_nat (length gd)) in
   let m0 := S_max_cells_1 (env [("count_cells"%string, c)]) in
   let m1 := if Qltb m0 nl then S_max_cells_2 (env [("v00"%string, nl)]) else m0 in
   if Qltb m1 nd then S_max_cells_3 (env [("v01"%string, nd)]) else m1).
Proof.
  intros. unfold S_max_cells_1, S_max_cells_2, S_max_cells_3, max_cells. leaf.
  assert (Q1 : forall a b : nat, Qltb (inject_Z (Z.of_nat a)) (inject_Z (Z.of_nat b)) = Nat.ltb a b).
  { intros a b. unfold Qltb. destruct (Nat.ltb a b) eqn:E.
    - apply Nat.ltb_lt in E. destruct (Qle_bool (inject_Z (Z.of_nat b)) (inject_Z (Z.of_nat a))) eqn:E2; auto.
      apply Qle_bool_iff in E2. rewrite <- Zle_Qle in E2. lia.
    - apply Nat.ltb_ge in E. assert (H : Qle_bool (inject_Z (Z.of_nat b)) (inject_Z (Z.of_nat a)) = true); [|rewrite H; reflexivity].
      apply Qle_bool_iff. rewrite <- Zle_Qle. lia. }
  rewrite Q1. destruct (Nat.ltb cc (length gl)) eqn:E1; rewrite Q1.
  - apply Nat.ltb_lt in E1. destruct (Nat.ltb (length gl) (length gd)) eqn:E2.
    + apply Nat.ltb_lt in E2. replace (Nat.max cc (Nat.max (length gl) (length gd))) with (length gd) by lia. reflexivity.
    + apply Nat.ltb_ge in E2. replace (Nat.max cc (Nat.max (length gl) (length gd))) with (length gl) by lia. reflexivity.
  - apply Nat.ltb_ge in E1. destruct (Nat.ltb cc (length gd)) eqn:E2.
    + apply Nat.ltb_lt in E2. replace (Nat.max cc (Nat.max (length gl) (length gd))) with (length gd) by lia. reflexivity.
    + apply Nat.ltb_ge in E2. replace (Nat.max cc (Nat.max (length gl) (length gd))) with cc by lia. reflexivity.
Qed.
