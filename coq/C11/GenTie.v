(* C11 — T-gen tie: the leaf expressions and the guard shape regenerated from the CURRENT source of
   Phreeqc::init_mix (coq/Gen/Gen_C11_initmix.v, written by translator/c11_initmix.py on every run)
   are compared with the hand-written model (Transport.v): formulas semantically (ring/field on
   arbitrary arguments), control structure against the shape the model was transcribed from. *)
From Coq Require Import QArith Qround ZArith String List Bool Lia Lqa.
From IPV.Gen Require Import Gen_C11_initmix.
From IPV.C11 Require Import Transport InitMixProofs.
Import ListNotations.
Open Scope Q_scope.

(* environment: the values of the C++ variables a leaf reads (canonical names, see the Gen file) *)
Definition env (l : list (string * Q)) : string -> Q :=
  fun s => match find (fun p => String.eqb (fst p) s) l with Some p => snd p | None => 0 end.

(* ------------------------------------------------------------------ control structure *)

(* statement kinds / targets and their enclosing guards, in source order, as transcribed into
   Transport.v (canonical local names: v01 dav, v02 mf12, v03 maxmix, v04 corr_disp, v05 diffc_here,
   v07 warning, v08 i, v09 l_nmix, v10 m, v11 m1, v13 temp_mix) *)
Definition expected_shape : list (string * list string) := [
  ("assign v01 := L_v01_1"%string, []);
  ("assign v07 := L_v07_1"%string, []);
  ("alloc v10"%string, []);
  ("call malloc_error"%string, ["(v10==NULL)"%string]);
  ("alloc v11"%string, []);
  ("call malloc_error"%string, ["(v11==NULL)"%string]);
  ("assign v10[v08] := L_v10_v08_1"%string, ["for((v08=0);(v08<(count_cells+1));++(v08))"%string]);
  ("assign v11[v08] := L_v11_v08_1"%string, ["for((v08=0);(v08<(count_cells+1));++(v08))"%string]);
  ("assign v04 := L_v04_1"%string, []);
  ("assign v04 := L_v04_2"%string, ["((correct_disp==1)&&(ishift!=0))"%string; "(bcon_first==3)"%string]);
  ("assign v04 := L_v04_3"%string, ["((correct_disp==1)&&(ishift!=0))"%string; "(bcon_last==3)"%string]);
  ("assign v03 := L_v03_1"%string, []);
  ("assign v05 := L_v05_1"%string, ["!nz(multi_Dflag)"%string]);
  ("assign v01 := L_v01_2"%string, ["!nz(multi_Dflag)"%string; "for((v08=1);(v08<=count_cells);++(v08))"%string; "(v08<count_cells)"%string; "(ishift!=0)"%string; "nz(disp[v08])"%string]);
  ("assign v01 := L_v01_3"%string, ["!nz(multi_Dflag)"%string; "for((v08=1);(v08<=count_cells);++(v08))"%string; "(v08<count_cells)"%string; "(ishift!=0)"%string; "nz(disp[v08+1])"%string]);
  ("assign v11[v08] := L_v11_v08_2"%string, ["!nz(multi_Dflag)"%string; "for((v08=1);(v08<=count_cells);++(v08))"%string; "(v08<count_cells)"%string; "(ishift!=0)"%string; "nz(v01)"%string]);
  ("assign v11[v08] := L_v11_v08_3"%string, ["!nz(multi_Dflag)"%string; "for((v08=1);(v08<=count_cells);++(v08))"%string; "(v08<count_cells)"%string]);
  ("assign v11[v08] := L_v11_v08_4"%string, ["!nz(multi_Dflag)"%string; "for((v08=1);(v08<=count_cells);++(v08))"%string; "(v08<count_cells)"%string]);
  ("assign v01 := L_v01_4"%string, ["!nz(multi_Dflag)"%string; "for((v08=1);(v08<=count_cells);++(v08))"%string; "(1<v08)"%string; "(ishift!=0)"%string; "nz(disp[v08])"%string]);
  ("assign v01 := L_v01_5"%string, ["!nz(multi_Dflag)"%string; "for((v08=1);(v08<=count_cells);++(v08))"%string; "(1<v08)"%string; "(ishift!=0)"%string; "nz(disp[v08-1])"%string]);
  ("assign v10[v08] := L_v10_v08_2"%string, ["!nz(multi_Dflag)"%string; "for((v08=1);(v08<=count_cells);++(v08))"%string; "(1<v08)"%string; "(ishift!=0)"%string; "nz(v01)"%string]);
  ("assign v10[v08] := L_v10_v08_3"%string, ["!nz(multi_Dflag)"%string; "for((v08=1);(v08<=count_cells);++(v08))"%string; "(1<v08)"%string]);
  ("assign v10[v08] := L_v10_v08_4"%string, ["!nz(multi_Dflag)"%string; "for((v08=1);(v08<=count_cells);++(v08))"%string; "(1<v08)"%string]);
  ("call warning_msg"%string, ["!nz(multi_Dflag)"%string; "for((v08=1);(v08<=count_cells);++(v08))"%string; "(1<v08)"%string; "(((v10[v08]!=v11[v08-1])&&!(v07))&&(!(nz(v01))||(10000100000000001/10000000000000000<(v10[v08]/(2/v01)))))"%string]);
  ("assign v07 := L_v07_2"%string, ["!nz(multi_Dflag)"%string; "for((v08=1);(v08<=count_cells);++(v08))"%string; "(1<v08)"%string; "(((v10[v08]!=v11[v08-1])&&!(v07))&&(!(nz(v01))||(10000100000000001/10000000000000000<(v10[v08]/(2/v01)))))"%string]);
  ("assign v02 := L_v02_1"%string, ["!nz(multi_Dflag)"%string; "for((v08=1);(v08<=count_cells);++(v08))"%string]);
  ("assign v03 := L_v03_2"%string, ["!nz(multi_Dflag)"%string; "for((v08=1);(v08<=count_cells);++(v08))"%string; "(v03<v02)"%string]);
  ("assign v10[1] := L_v10_1_1"%string, ["!nz(multi_Dflag)"%string; "(bcon_first==1)"%string]);
  ("assign v10[1] := L_v10_1_2"%string, ["!nz(multi_Dflag)"%string; "(bcon_first==1)"%string; "(ishift!=0)"%string]);
  ("assign v02 := L_v02_2"%string, ["!nz(multi_Dflag)"%string; "(bcon_first==1)"%string]);
  ("assign v03 := L_v03_3"%string, ["!nz(multi_Dflag)"%string; "(bcon_first==1)"%string; "(v03<v02)"%string]);
  ("assign v11[count_cells] := L_v11_count_cells_1"%string, ["!nz(multi_Dflag)"%string; "(bcon_last==1)"%string]);
  ("assign v11[count_cells] := L_v11_count_cells_2"%string, ["!nz(multi_Dflag)"%string; "(bcon_last==1)"%string; "(ishift!=0)"%string]);
  ("assign v02 := L_v02_3"%string, ["!nz(multi_Dflag)"%string; "(bcon_last==1)"%string]);
  ("assign v03 := L_v03_4"%string, ["!nz(multi_Dflag)"%string; "(bcon_last==1)"%string; "(v03<v02)"%string]);
  ("assign v09 := L_v09_1"%string, ["!nz(multi_Dflag)"%string; "(v03==0)"%string]);
  ("alloc v10"%string, ["!nz(multi_Dflag)"%string; "!(v03==0)"%string; "(2147483647<(3/2*v03))"%string]);
  ("alloc v11"%string, ["!nz(multi_Dflag)"%string; "!(v03==0)"%string; "(2147483647<(3/2*v03))"%string]);
  ("call snprintf"%string, ["!nz(multi_Dflag)"%string; "!(v03==0)"%string; "(2147483647<(3/2*v03))"%string]);
  ("call error_msg"%string, ["!nz(multi_Dflag)"%string; "!(v03==0)"%string; "(2147483647<(3/2*v03))"%string]);
  ("assign v09 := L_v09_2"%string, ["!nz(multi_Dflag)"%string; "!(v03==0)"%string]);
  ("assign v09 := L_v09_3"%string, ["!nz(multi_Dflag)"%string; "!(v03==0)"%string; "((ishift!=0)&&((bcon_first==1)||(bcon_last==1)))"%string; "(v09<2)"%string]);
  ("assign v10[v08] := L_v10_v08_5"%string, ["!nz(multi_Dflag)"%string; "!(v03==0)"%string; "for((v08=1);(v08<=count_cells);++(v08))"%string]);
  ("assign v11[v08] := L_v11_v08_5"%string, ["!nz(multi_Dflag)"%string; "!(v03==0)"%string; "for((v08=1);(v08<=count_cells);++(v08))"%string]);
  ("call v13.Set_n_user(v08)"%string, ["!nz(multi_Dflag)"%string; "!(v03==0)"%string; "for((v08=1);(v08<=count_cells);++(v08))"%string]);
  ("call v13.Set_n_user_end(v08)"%string, ["!nz(multi_Dflag)"%string; "!(v03==0)"%string; "for((v08=1);(v08<=count_cells);++(v08))"%string]);
  ("call v13.Add(v08-1,L_v13_Add_arg1_1)"%string, ["!nz(multi_Dflag)"%string; "!(v03==0)"%string; "for((v08=1);(v08<=count_cells);++(v08))"%string]);
  ("call v13.Add(v08+1,L_v13_Add_arg1_2)"%string, ["!nz(multi_Dflag)"%string; "!(v03==0)"%string; "for((v08=1);(v08<=count_cells);++(v08))"%string]);
  ("call v13.Add(v08,L_v13_Add_arg1_3)"%string, ["!nz(multi_Dflag)"%string; "!(v03==0)"%string; "for((v08=1);(v08<=count_cells);++(v08))"%string]);
  ("store Dispersion_mix_map[v08] := v13"%string, ["!nz(multi_Dflag)"%string; "!(v03==0)"%string; "for((v08=1);(v08<=count_cells);++(v08))"%string]);
  ("alloc v10"%string, ["!nz(multi_Dflag)"%string]);
  ("alloc v11"%string, ["!nz(multi_Dflag)"%string]);
  ("return L_return_1"%string, ["!nz(multi_Dflag)"%string])
].

Lemma shape_ok : shape = expected_shape.
Proof. vm_compute. reflexivity. Qed.

(* ------------------------------------------------------------------ formulas *)

Arguments Qplus : simpl never.
Arguments Qmult : simpl never.
Arguments Qminus : simpl never.
Arguments Qdiv : simpl never.
Arguments Qopp : simpl never.
Arguments Qfloor : simpl never.
Arguments inject_Z : simpl never.

Ltac leaf := cbv [env find fst snd String.eqb Ascii.eqb Bool.eqb]; cbv beta iota.

(* semantic comparison of two rational expressions with divisions: denominators that are equal as
   polynomials are first made syntactically equal (so reordering commutative terms in the source is
   harmless), then `ring` with 1/d as an atom; no side conditions (x/0 = 0 on both sides) *)
Ltac unify_dens := repeat match goal with
  | |- context [ Qdiv _ ?d1 ] =>
      match goal with
      | |- context [ Qdiv _ ?d2 ] =>
          tryif constr_eq d1 d2 then fail else (setoid_replace d2 with d1 by ring)
      end
  end.
Ltac qsem := try reflexivity; unify_dens; unfold Qdiv; ring.

(* corr_disp = 1.; if (correct_disp && ishift != 0) { if (bcon_first == 3) corr_disp += 1./count_cells; if (bcon_last == 3) ... } *)
Lemma gen_corr_disp : forall c : cfg,
  corr_disp c ==
  (let n := inject_Z (ncells c) in
   let x0 := L_v04_1 (env []) in
   if corrd c && adv c then
     let x1 := if Z.eqb (bcf c) 3 then L_v04_2 (env [("v04"%string, x0); ("count_cells"%string, n)]) else x0 in
     if Z.eqb (bcl c) 3 then L_v04_3 (env [("v04"%string, x1); ("count_cells"%string, n)]) else x1
   else x0).
Proof.
  intros c. unfold corr_disp, L_v04_1, L_v04_2, L_v04_3. leaf.
  destruct (corrd c && adv c); [|reflexivity].
  destruct (Z.eqb (bcf c) 3), (Z.eqb (bcl c) 3); leaf; qsem.
Qed.

(* diffc_here = 2 * diffc_tr * timest *)
Lemma gen_diffc_here : forall cs d t sh b1 b2 cd,
  diffc_here (mkCfg cs d t sh b1 b2 cd) == L_v05_1 (env [("diffc_tr"%string, d); ("timest"%string, t)]).
Proof. intros. unfold diffc_here, L_v05_1. leaf. simpl. qsem. Qed.

(* the two conditional updates of dav, towards the higher and towards the lower neighbour *)
Lemma gen_dav_up : forall dav a b,
  dav_upd dav a b ==
  (let E := fun d => env [("v01"%string, d); ("length[v08]"%string, len a); ("disp[v08]"%string, disp a);
                           ("length[v08+1]"%string, len b); ("disp[v08+1]"%string, disp b)] in
   let d1 := if Qnz (disp a) then L_v01_2 (E dav) else dav in
   if Qnz (disp b) then L_v01_3 (E d1) else d1).
Proof.
  intros. unfold dav_upd, L_v01_2, L_v01_3. leaf.
  destruct (Qnz (disp a)), (Qnz (disp b)); qsem.
Qed.

Lemma gen_dav_lo : forall dav a b,
  dav_upd dav a b ==
  (let E := fun d => env [("v01"%string, d); ("length[v08]"%string, len a); ("disp[v08]"%string, disp a);
                           ("length[v08-1]"%string, len b); ("disp[v08-1]"%string, disp b)] in
   let d1 := if Qnz (disp a) then L_v01_4 (E dav) else dav in
   if Qnz (disp b) then L_v01_5 (E d1) else d1).
Proof.
  intros. unfold dav_upd, L_v01_4, L_v01_5. leaf.
  destruct (Qnz (disp a)), (Qnz (disp b)); qsem.
Qed.

(* m1[i]: zero-initialised; = 2/dav (if ishift != 0 and dav); += diffc_here/(l_i*l_i + l_i*l_{i+1}); *= corr_disp *)
Lemma gen_factor_up : forall a corr dh dav cur nx,
  fst (half_factor a corr dh dav cur nx) ==
  (let dav' := snd (half_factor a corr dh dav cur nx) in
   let E := fun m => env [("v11[v08]"%string, m); ("v01"%string, dav'); ("v05"%string, dh); ("v04"%string, corr);
                           ("length[v08]"%string, len cur); ("length[v08+1]"%string, len nx)] in
   let m0 := L_v11_v08_1 (E 0) in
   let m1 := if a && Qnz dav' then L_v11_v08_2 (E m0) else m0 in
   let m2 := L_v11_v08_3 (E m1) in
   L_v11_v08_4 (E m2)).
Proof.
  intros. unfold half_factor, disp_part, diff_part, L_v11_v08_1, L_v11_v08_2, L_v11_v08_3, L_v11_v08_4.
  cbv [fst snd]. leaf. cbv [len].
  destruct a; [destruct (Qnz (dav_upd dav cur nx))|]; cbv [andb]; qsem.
Qed.

Lemma gen_factor_lo : forall a corr dh dav cur pv,
  fst (half_factor a corr dh dav cur pv) ==
  (let dav' := snd (half_factor a corr dh dav cur pv) in
   let E := fun m => env [("v10[v08]"%string, m); ("v01"%string, dav'); ("v05"%string, dh); ("v04"%string, corr);
                           ("length[v08]"%string, len cur); ("length[v08-1]"%string, len pv)] in
   let m0 := L_v10_v08_1 (E 0) in
   let m1 := if a && Qnz dav' then L_v10_v08_2 (E m0) else m0 in
   let m2 := L_v10_v08_3 (E m1) in
   L_v10_v08_4 (E m2)).
Proof.
  intros. unfold half_factor, disp_part, diff_part, L_v10_v08_1, L_v10_v08_2, L_v10_v08_3, L_v10_v08_4.
  cbv [fst snd]. leaf. cbv [len].
  destruct a; [destruct (Qnz (dav_upd dav cur pv))|]; cbv [andb]; qsem.
Qed.

(* constant boundaries: m[1] = diffc_here/(l_1*l_1) [+ disp_1/l_1 if ishift != 0]; same for m1[count_cells] *)
Lemma gen_bnd_first : forall a dh c,
  bnd_factor a dh c ==
  (let E := fun m => env [("v10[1]"%string, m); ("v05"%string, dh); ("length[1]"%string, len c); ("disp[1]"%string, disp c)] in
   let m0 := L_v10_1_1 (E 0) in if a then L_v10_1_2 (E m0) else m0).
Proof. intros. unfold bnd_factor, L_v10_1_1, L_v10_1_2. leaf. destruct a; qsem. Qed.

Lemma gen_bnd_last : forall a dh c,
  bnd_factor a dh c ==
  (let E := fun m => env [("v11[count_cells]"%string, m); ("v05"%string, dh); ("length[count_cells]"%string, len c);
                           ("disp[count_cells]"%string, disp c)] in
   let m0 := L_v11_count_cells_1 (E 0) in if a then L_v11_count_cells_2 (E m0) else m0).
Proof. intros. unfold bnd_factor, L_v11_count_cells_1, L_v11_count_cells_2. leaf. destruct a; qsem. Qed.

Lemma Qltb_compat a b c : a == b -> Qltb c a = Qltb c b.
Proof.
  intros H. unfold Qltb. f_equal.
  destruct (Qle_bool a c) eqn:A; destruct (Qle_bool b c) eqn:B; auto.
  - apply Qle_bool_iff in A. rewrite H in A. apply Qle_bool_iff in A. congruence.
  - apply Qle_bool_iff in B. rewrite <- H in B. apply Qle_bool_iff in B. congruence.
Qed.

Lemma Qltb_compat_l a b c : a == b -> Qltb a c = Qltb b c.
Proof.
  intros H. unfold Qltb. f_equal.
  destruct (Qle_bool c a) eqn:A; destruct (Qle_bool c b) eqn:B; auto.
  - apply Qle_bool_iff in A. rewrite H in A. apply Qle_bool_iff in A. congruence.
  - apply Qle_bool_iff in B. rewrite <- H in B. apply Qle_bool_iff in B. congruence.
Qed.

Lemma upmax_compat mx s mf v : mf == s -> v == s -> upmax mx s == (if Qltb mx mf then v else mx).
Proof.
  intros H1 H2. unfold upmax. rewrite (Qltb_compat mf s mx H1).
  destruct (Qltb mx s); [symmetry; exact H2 | reflexivity].
Qed.

(* mf12 = m[.] + m1[.];  if (mf12 > maxmix) maxmix = mf12;   (three places)   maxmix starts at 0 *)
Lemma gen_maxmix : forall mx m m1,
  L_v03_1 (env []) == 0 /\
  upmax mx (sum2 (m, m1)) ==
    (let mf := L_v02_1 (env [("v10[v08]"%string, m); ("v11[v08]"%string, m1)]) in
     if Qltb mx mf then L_v03_2 (env [("v02"%string, mf)]) else mx) /\
  upmax mx (sum2 (m, m1)) ==
    (let mf := L_v02_2 (env [("v10[1]"%string, m); ("v11[1]"%string, m1)]) in
     if Qltb mx mf then L_v03_3 (env [("v02"%string, mf)]) else mx) /\
  upmax mx (sum2 (m, m1)) ==
    (let mf := L_v02_3 (env [("v10[count_cells]"%string, m); ("v11[count_cells]"%string, m1)]) in
     if Qltb mx mf then L_v03_4 (env [("v02"%string, mf)]) else mx).
Proof.
  intros. cbv zeta.
  split; [unfold L_v03_1; leaf; qsem|].
  split; [|split]; apply upmax_compat;
    unfold sum2, L_v02_1, L_v02_2, L_v02_3, L_v03_2, L_v03_3, L_v03_4; leaf; qsem.
Qed.

Lemma Qltb_inject_Z k : Qltb (inject_Z k) (2 # 1) = Z.ltb k 2.
Proof.
  unfold Qltb. destruct (Z.ltb k 2) eqn:E.
  - apply Z.ltb_lt in E. destruct (Qle_bool (2 # 1) (inject_Z k)) eqn:E2; auto.
    apply Qle_bool_iff in E2. change (2 # 1) with (inject_Z 2) in E2. rewrite <- Zle_Qle in E2. lia.
  - apply Z.ltb_ge in E. assert (H : Qle_bool (2 # 1) (inject_Z k) = true); [|rewrite H; reflexivity].
    apply Qle_bool_iff. change (2 # 1) with (inject_Z 2). rewrite <- Zle_Qle. lia.
Qed.

(* l_nmix: 0 if maxmix == 0, else 1 + (int) floor(1.5 * maxmix), raised to 2 for advective runs with a constant boundary *)
Lemma gen_nmix : forall c mx,
  inject_Z (nmix_of c mx) ==
  (if Qeq_bool mx 0 then L_v09_1 (env [])
   else let k := L_v09_2 (env [("v03"%string, mx)]) in
        if adv c && (Z.eqb (bcf c) 1 || Z.eqb (bcl c) 1) && Qltb k (2 # 1) then L_v09_3 (env []) else k).
Proof.
  intros. unfold nmix_of. cbv zeta.
  destruct (Qeq_bool mx 0); [unfold L_v09_1; leaf; qsem|].
  assert (K : L_v09_2 (env [("v03"%string, mx)]) == inject_Z (1 + Qfloor ((3 # 2) * mx))).
  { unfold L_v09_2. leaf. rewrite inject_Z_plus.
    match goal with
    | |- context [ Qfloor ?t ] => try (setoid_replace t with ((3 # 2) * mx) by ring)
    end.
    qsem. }
  rewrite (Qltb_compat_l _ _ (2 # 1) K), Qltb_inject_Z.
  destruct (adv c && (Z.eqb (bcf c) 1 || Z.eqb (bcl c) 1) && Z.ltb (1 + Qfloor ((3 # 2) * mx)) 2).
  - unfold L_v09_3. leaf. qsem.
  - symmetry. exact K.
Qed.

(* m[i] /= l_nmix; m1[i] /= l_nmix; the mix structure is { i-1: m[i], i+1: m1[i], i: 1 - m[i] - m1[i] } *)
Lemma gen_divide : forall m n,
  m / n == L_v10_v08_5 (env [("v10[v08]"%string, m); ("v09"%string, n)]) /\
  m / n == L_v11_v08_5 (env [("v11[v08]"%string, m); ("v09"%string, n)]) /\
  L_return_1 (env [("v09"%string, n)]) == n.
Proof. intros. unfold L_v10_v08_5, L_v11_v08_5, L_return_1. leaf. repeat split; qsem. Qed.

Lemma gen_mix_coefficients : forall m m1 prev c next,
  m * prev + (1 - m - m1) * c + m1 * next ==
  (let E := env [("v10[v08]"%string, m); ("v11[v08]"%string, m1)] in
   L_v13_Add_arg1_1 E * prev + L_v13_Add_arg1_3 E * c + L_v13_Add_arg1_2 E * next).
Proof. intros. unfold L_v13_Add_arg1_1, L_v13_Add_arg1_2, L_v13_Add_arg1_3. leaf. qsem. Qed.

(* ------------------------------------------------------------------ multi_D: the element-name tests

   The three places of Phreeqc::multi_D that decide which key of a solution's totals belongs to which
   element (regenerated: Gen_C11_mcd.name_tests).  1, 2: booking a flux of element m_s[l].name on the
   first key whose base name (up to "(") is that name - Mcd.book: String.eqb (base k) name;
   3: the negative-total repair looks for keys of the same element - Mcd.same_element:
   strncmp(it, kit, |base kit|) == 0 and |base kit| == |base it|  <->  base it = base kit. *)
From IPV.Gen Require Import Gen_C11_mcd.

Definition expected_name_tests : list (string * list string) := [
  ("((strncmp(m_s[x0].name,x1.first.c_str(),x2)==0)&&(x2==x3))"%string,
   ["(x0=0)"%string; "(x2=strlen(m_s[x0].name))"%string; "(x3=strcspn(x1.first.c_str(),'('))"%string]);
  ("((strncmp(m_s[x0].name,x1.first.c_str(),x2)==0)&&(x2==x3))"%string,
   ["(x0=0)"%string; "(x2=strlen(m_s[x0].name))"%string; "(x3=strcspn(x1.first.c_str(),'('))"%string]);
  ("(!(strncmp(x0.first.c_str(),x1.first.c_str(),x2))&&(x2==strcspn(x0.first.c_str(),'(')))"%string,
   ["(x2=strcspn(x1.first.c_str(),'('))"%string])
].

Lemma name_tests_ok : name_tests = expected_name_tests.
Proof. vm_compute. reflexivity. Qed.
