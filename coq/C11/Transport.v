(* C11 — executable model over Q of the single-diffusion-coefficient (non multi_D) column
   transport of PHREEQC:
     /repo/src/phreeqcpp/transport.cpp : Phreeqc::init_mix   (branch "multi_D false")
     /repo/src/phreeqcpp/transport.cpp : Phreeqc::transport  (shift loop: pre-mixes, advective copy,
                                                              remaining mixes; run_reactions(i, DISP) =
                                                              mix with Dispersion_mix_map[i], Jacobi order)
     /repo/src/phreeqcpp/advection.cpp : Phreeqc::advection  (whole-solution copy)
   A "tracer" is the amount (moles) of one element / of charge per cell; solutions are mixed
   extensively by step.cpp:add_mix/add_solution, i.e. linearly in those amounts.
   Floating-point rounding is not modelled: all numbers are exact rationals. *)
From Coq Require Import QArith Qround ZArith List Bool.
Import ListNotations.
Open Scope Q_scope.

(* ------------------------------------------------------------------ configuration *)

Record cell := mkCell { len : Q; disp : Q }.

Record cfg := mkCfg {
  cells   : list cell;      (* cell_data[1..count_cells].length / .disp *)
  diffc   : Q;              (* diffc_tr *)
  timest  : Q;              (* timest *)
  ishift  : Z;              (* 1 forward, -1 backward, 0 diffusion_only *)
  bcf     : Z;              (* bcon_first: 1 constant, 2 closed, 3 flux *)
  bcl     : Z;              (* bcon_last *)
  corrd   : bool            (* correct_disp *)
}.

Definition Qnz (x : Q) : bool := negb (Qeq_bool x 0).
Definition Qltb (a b : Q) : bool := negb (Qle_bool b a).
(* C++:  if (mf12 > maxmix) maxmix = mf12; *)
Definition upmax (maxmix mf12 : Q) : Q := if Qltb maxmix mf12 then mf12 else maxmix.

Definition adv (c : cfg) : bool := negb (Z.eqb (ishift c) 0).
Definition ncells (c : cfg) : Z := Z.of_nat (length (cells c)).

(* corr_disp = 1.; if (correct_disp == TRUE && ishift != 0) { if (bcon_first == 3) corr_disp += 1. / count_cells; ... } *)
Definition corr_disp (c : cfg) : Q :=
  if corrd c && adv c then
    1 + (if Z.eqb (bcf c) 3 then 1 / inject_Z (ncells c) else 0)
      + (if Z.eqb (bcl c) 3 then 1 / inject_Z (ncells c) else 0)
  else 1.

(* diffc_here = 2 * diffc_tr * timest; *)
Definition diffc_here (c : cfg) : Q := 2 * diffc c * timest c.

(* if (cell_data[i].disp) dav = cell_data[i].length / cell_data[i].disp;
   if (cell_data[j].disp) dav += cell_data[j].length / cell_data[j].disp;       (dav is NOT reset) *)
Definition dav_upd (dav : Q) (a b : cell) : Q :=
  let d1 := if Qnz (disp a) then len a / disp a else dav in
  if Qnz (disp b) then d1 + len b / disp b else d1.

(* the dispersive part  "if (dav) m = 2 / dav"  on a zero-initialised m *)
Definition disp_part (dav : Q) : Q := if Qnz dav then 2 / dav else 0.
(* the diffusive part "diffc_here / (length_i * length_i + length_i * length_j)" *)
Definition diff_part (dh : Q) (cur other : cell) : Q :=
  dh / (len cur * len cur + len cur * len other).

(* one of the two "find mix with neighbour" blocks; returns (factor, new dav) *)
Definition half_factor (a : bool) (corr dh dav : Q) (cur other : cell) : Q * Q :=
  let dav' := if a then dav_upd dav cur other else dav in
  let base := if a then disp_part dav' else 0 in
  ((base + diff_part dh cur other) * corr, dav').

(* for (i = 1; i <= count_cells; i++) { if (i < count_cells) {...m1[i]...} if (i > 1) {...m[i]...} }
   up_factor: the block for the higher numbered neighbour (absent for the last cell),
   lo_factor: the block for the lower numbered neighbour (absent for the first cell);
   both return (factor, dav after the block). *)
Definition up_factor (a : bool) (corr dh dav : Q) (cur : cell) (rest : list cell) : Q * Q :=
  match rest with
  | nx :: _ => half_factor a corr dh dav cur nx
  | [] => (0, dav)
  end.

Definition lo_factor (a : bool) (corr dh dav : Q) (cur : cell) (prev : option cell) : Q * Q :=
  match prev with
  | Some pv => half_factor a corr dh dav cur pv
  | None => (0, dav)
  end.

Fixpoint inner (a : bool) (corr dh : Q) (prev : option cell) (cs : list cell) (dav : Q)
  : list (Q * Q) :=
  match cs with
  | [] => []
  | cur :: rest =>
      let u := up_factor a corr dh dav cur rest in
      let l := lo_factor a corr dh (snd u) cur prev in
      (fst l, fst u) :: inner a corr dh (Some cur) rest (snd l)
  end.

Definition sum2 (p : Q * Q) : Q := fst p + snd p.

(* maxmix after the inner loop *)
Definition maxmix_of (raw : list (Q * Q)) (m0 : Q) : Q :=
  fold_left (fun mx p => upmax mx (sum2 p)) raw m0.

(* boundary value for a constant boundary:
   diffc_here / (length * length) [+ disp / length  if ishift != 0] *)
Definition bnd_factor (a : bool) (dh : Q) (c : cell) : Q :=
  dh / (len c * len c) + (if a then disp c / len c else 0).

Definition set_first_m (raw : list (Q * Q)) (v : Q) : list (Q * Q) :=
  match raw with
  | [] => []
  | (_, m1) :: r => (v, m1) :: r
  end.

Fixpoint set_last_m1 (raw : list (Q * Q)) (v : Q) : list (Q * Q) :=
  match raw with
  | [] => []
  | [(m, _)] => [(m, v)]
  | p :: r => p :: set_last_m1 r v
  end.

Definition head_cell (l : list cell) : cell := hd (mkCell 1 0) l.
Definition last_cell (l : list cell) : cell := last l (mkCell 1 0).

(* raw (undivided) factors and maxmix, exactly in the order of the code *)
Definition raw_mix (c : cfg) : list (Q * Q) * Q :=
  let a := adv c in
  let dh := diffc_here c in
  let raw0 := inner a (corr_disp c) dh None (cells c) 0 in
  let mx0 := maxmix_of raw0 0 in
  let raw1 := if Z.eqb (bcf c) 1 then set_first_m raw0 (bnd_factor a dh (head_cell (cells c))) else raw0 in
  let mx1 := if Z.eqb (bcf c) 1 then upmax mx0 (sum2 (hd (0, 0) raw1)) else mx0 in
  let raw2 := if Z.eqb (bcl c) 1 then set_last_m1 raw1 (bnd_factor a dh (last_cell (cells c))) else raw1 in
  let mx2 := if Z.eqb (bcl c) 1 then upmax mx1 (sum2 (last raw2 (0, 0))) else mx1 in
  (raw2, mx2).

(* l_nmix *)
Definition nmix_of (c : cfg) (maxmix : Q) : Z :=
  if Qeq_bool maxmix 0 then 0%Z
  else
    let k := (1 + Qfloor ((3 # 2) * maxmix))%Z in
    if adv c && (Z.eqb (bcf c) 1 || Z.eqb (bcl c) 1) && Z.ltb k 2 then 2%Z else k.

(* result of init_mix: (nmix, Dispersion_mix_map as list of (m[i], m1[i])) *)
Definition mixf (c : cfg) : Z * list (Q * Q) :=
  let '(raw, mx) := raw_mix c in
  let n := nmix_of c mx in
  if Z.eqb n 0 then (0%Z, raw)
  else (n, map (fun p => (Qred (fst p / inject_Z n), Qred (snd p / inject_Z n))) raw).

(* ------------------------------------------------------------------ one mix run (Jacobi) *)

(* run_reactions(i, DISP): new_i = m_i * c_{i-1} + (1 - m_i - m1_i) * c_i + m1_i * c_{i+1};
   every cell uses the OLD neighbours (results parked in solution -2 and copied back one cell late).
   Qred only normalises the representation of the rational (Qred x == x); it keeps evaluation fast. *)
Fixpoint mix_aux (prev : Q) (ms : list (Q * Q)) (cs : list Q) (cR : Q) : list Q :=
  match ms, cs with
  | (m, m1) :: ms', c :: cs' =>
      let next := match cs' with [] => cR | c' :: _ => c' end in
      Qred (m * prev + (1 - m - m1) * c + m1 * next) :: mix_aux c ms' cs' cR
  | _, _ => []
  end.

Definition mix_step (ms : list (Q * Q)) (cL cR : Q) (cs : list Q) : list Q := mix_aux cL ms cs cR.

(* ------------------------------------------------------------------ advective shift *)

(* for (i = last_c; i != first_c - ishift; i -= ishift) Rxn_copy(i - ishift, i) *)
Definition shift_fwd (cL : Q) (cs : list Q) : list Q := removelast (cL :: cs).
Definition shift_bwd (cs : list Q) (cR : Q) : list Q := tl cs ++ [cR].

Definition advect (sh : Z) (cL cR : Q) (cs : list Q) : list Q :=
  match cs with
  | [] => []
  | _ => if Z.eqb sh 0 then cs else if Z.ltb 0 sh then shift_fwd cL cs else shift_bwd cs cR
  end.

(* ------------------------------------------------------------------ one transport step and a run *)

Fixpoint iter {A} (n : nat) (f : A -> A) (x : A) : A :=
  match n with O => x | S k => iter k f (f x) end.

(* b_c == 1 : half of the mixes (floor(nmix/2)) happen before the advective step *)
Definition pre_mixes (c : cfg) (nmix : Z) : nat :=
  if Z.eqb (ishift c) 0 || Z.eqb (bcf c) 1 || Z.eqb (bcl c) 1 then Z.to_nat (nmix / 2) else O.

Definition one_shift (c : cfg) (nmix : Z) (ms : list (Q * Q)) (cL cR : Q) (cs : list Q) : list Q :=
  let pre := pre_mixes c nmix in
  let cs1 := iter pre (mix_step ms cL cR) cs in
  let cs2 := advect (ishift c) cL cR cs1 in
  iter (Z.to_nat nmix - pre) (mix_step ms cL cR) cs2.

(* readtr.cpp: read_transport, "Check boundary conditions":
   if ((ishift != 0) && ((bcon_first == 2) || (bcon_last == 2))) { closed -> flux } *)
Definition fix_bc (a : bool) (b : Z) : Z := if a && Z.eqb b 2 then 3%Z else b.
Definition read_bc (c : cfg) : cfg :=
  mkCfg (cells c) (diffc c) (timest c) (ishift c) (fix_bc (adv c) (bcf c)) (fix_bc (adv c) (bcl c)) (corrd c).

(* state after k shifts *)
Definition transport (c : cfg) (cL cR : Q) (k : nat) (cs : list Q) : list Q :=
  let c' := read_bc c in
  let '(n, ms) := mixf c' in iter k (one_shift c' n ms cL cR) cs.

(* column inventory of a tracer *)
Definition total (cs : list Q) : Q := fold_right Qplus 0 cs.

(* ------------------------------------------------------------------ well-formed set-ups *)

Definition cell_ok (x : cell) : Prop := 0 < len x /\ 0 <= disp x.
Definition cfg_ok (c : cfg) : Prop :=
  Forall cell_ok (cells c) /\ 0 <= diffc c /\ 0 <= timest c /\ cells c <> [].

Definition cell_okb (x : cell) : bool := Qltb 0 (len x) && Qle_bool 0 (disp x).
Definition cfg_okb (c : cfg) : bool :=
  forallb cell_okb (cells c) && Qle_bool 0 (diffc c) && Qle_bool 0 (timest c)
  && negb (Nat.eqb (length (cells c)) 0).
