(* C11 — executable checker that compares what the implementation reported for one transport
   step with the exact model, and its soundness. Run by `Eval vm_compute` on generated cases. *)
From Coq Require Import QArith Qabs Qround ZArith List Bool Lia Lqa.
From IPV.C11 Require Import Transport MixProofs InitMixProofs.
Import ListNotations.
Open Scope Q_scope.

(* |obs_i - exp_i| <= tol_i for every cell, all three lists of the same length *)
Fixpoint close_listb (exp obs tol : list Q) : bool :=
  match exp, obs, tol with
  | [], [], [] => true
  | e :: exp', o :: obs', t :: tol' => Qle_bool (Qabs (o - e)) t && close_listb exp' obs' tol'
  | _, _, _ => false
  end.

Inductive close_list : list Q -> list Q -> list Q -> Prop :=
| close_nil : close_list [] [] []
| close_cons e o t exp obs tol :
    Qabs (o - e) <= t -> close_list exp obs tol -> close_list (e :: exp) (o :: obs) (t :: tol).

Lemma close_listb_sound : forall exp obs tol, close_listb exp obs tol = true -> close_list exp obs tol.
Proof.
  induction exp as [|e exp IH]; intros [|o obs] [|t tol] H; simpl in H; try discriminate.
  - constructor.
  - apply andb_true_iff in H. destruct H as [H1 H2]. constructor; auto. apply Qle_bool_iff; auto.
Qed.

Fixpoint eq_listb (a b : list Q) : bool :=
  match a, b with
  | [], [] => true
  | x :: a', y :: b' => Qeq_bool x y && eq_listb a' b'
  | _, _ => false
  end.

Fixpoint eq_pairsb (a b : list (Q * Q)) : bool :=
  match a, b with
  | [], [] => true
  | (x1, x2) :: a', (y1, y2) :: b' => Qeq_bool x1 y1 && Qeq_bool x2 y2 && eq_pairsb a' b'
  | _, _ => false
  end.

(* one observed transport step of one tracer: boundary amounts, state before, state after as
   reported, per-cell tolerance; o_mirror = what the python mirror of the model predicted
   (checked to be exactly the model's value; [] = not supplied) *)
Record obs_shift := mkObs {
  o_cL : Q; o_cR : Q; o_prev : list Q; o_obs : list Q; o_tol : list Q; o_mirror : list Q }.

Definition check_shift (c : cfg) (n : Z) (ms : list (Q * Q)) (d : obs_shift) : bool :=
  let e := one_shift c n ms (o_cL d) (o_cR d) (o_prev d) in
  close_listb e (o_obs d) (o_tol d) &&
  match o_mirror d with [] => true | m => eq_listb e m end.

(* whole case: set-up inside the theorems' premises, number of mixes as reported by the
   implementation, mirror factors identical, every observed step close to the model *)
Definition check_case (c : cfg) (nmix_reported : Z) (mirror_ms : list (Q * Q)) (ds : list obs_shift) : bool :=
  cfg_okb c &&
  (let c' := read_bc c in
   let nm := mixf c' in
   Z.eqb (fst nm) nmix_reported &&
   match mirror_ms with [] => true | m => eq_pairsb (snd nm) m end &&
   forallb (check_shift c' (fst nm) (snd nm)) ds).

Lemma cell_okb_sound x : cell_okb x = true -> cell_ok x.
Proof.
  unfold cell_okb, cell_ok. intros H. apply andb_true_iff in H. destruct H as [H1 H2].
  split; [apply Qltb_true; auto | apply Qle_bool_iff; auto].
Qed.

Lemma cfg_okb_sound c : cfg_okb c = true -> cfg_ok c.
Proof.
  unfold cfg_okb, cfg_ok. intros H.
  apply andb_true_iff in H. destruct H as [H H4].
  apply andb_true_iff in H. destruct H as [H H3].
  apply andb_true_iff in H. destruct H as [H1 H2].
  repeat split.
  - apply Forall_forall. intros x Hx. apply cell_okb_sound. rewrite forallb_forall in H1. auto.
  - apply Qle_bool_iff; auto.
  - apply Qle_bool_iff; auto.
  - intros E. rewrite E in H4. discriminate.
Qed.

(* soundness: an accepted case is one in which the set-up satisfies the premises of the
   theorems, the implementation used the model's number of mixes, and after every recorded
   step every cell is within the stated tolerance of the exact model (transport ... 1 ...) *)
Theorem check_case_sound c r mm ds :
  check_case c r mm ds = true ->
  cfg_ok c /\ fst (mixf (read_bc c)) = r /\
  forall d, In d ds -> close_list (transport c (o_cL d) (o_cR d) 1 (o_prev d)) (o_obs d) (o_tol d).
Proof.
  unfold check_case. intros H.
  apply andb_true_iff in H. destruct H as [Hok H].
  apply andb_true_iff in H. destruct H as [H Hds].
  apply andb_true_iff in H. destruct H as [Hn _].
  split; [apply cfg_okb_sound; auto|]. split; [apply Z.eqb_eq; auto|].
  intros d Hd. rewrite forallb_forall in Hds. specialize (Hds d Hd).
  unfold check_shift in Hds. apply andb_true_iff in Hds. destruct Hds as [Hc _].
  apply close_listb_sound in Hc. unfold transport.
  destruct (mixf (read_bc c)) as [n ms]. simpl in *. exact Hc.
Qed.

(* range check used on the implementation's reports (bounded mixing, single coefficient) *)
Definition in_rangeb (lo hi : Q) (cs : list Q) : bool := forallb (fun x => Qle_bool lo x && Qle_bool x hi) cs.

Lemma in_rangeb_sound lo hi cs : in_rangeb lo hi cs = true -> in_range lo hi cs.
Proof.
  unfold in_rangeb, in_range. intros H. apply Forall_forall. intros x Hx.
  rewrite forallb_forall in H. specialize (H x Hx). apply andb_true_iff in H. destruct H as [H1 H2].
  split; apply Qle_bool_iff; auto.
Qed.

(* ------------------------------------------------------------------ documentation by computation *)

(* unequal cell lengths with a single diffusion coefficient: the inventory is NOT conserved
   (this is why the property restricts the claim to equal lengths or multicomponent diffusion) *)
Definition unequal_cfg : cfg :=
  mkCfg [mkCell 1 0; mkCell 2 0] (1 # 4) 1 0 2 2 false.

Example unequal_lengths_lose_mass :
  ~ total (transport unequal_cfg 0 0 1 [1; 0]) == total [1; 0].
Proof. vm_compute. discriminate. Qed.

Lemma unequal_lengths_refute :
  exists c cs, bcf c = 2%Z /\ bcl c = 2%Z /\ ishift c = 0%Z /\ ~ total (transport c 0 0 1 cs) == total cs.
Proof. exists unequal_cfg, [1; 0]. repeat split; try reflexivity. exact unequal_lengths_lose_mass. Qed.

(* the hypotheses of the theorems are satisfiable: a 3-cell forward column with flux boundaries *)
Definition sample_cfg : cfg :=
  mkCfg [mkCell (1 # 10) (2 # 100); mkCell (1 # 10) (2 # 100); mkCell (1 # 10) (2 # 100)] (3 # 10000000000) 1000 1 3 3 false.

Example sample_cfg_ok : cfg_ok sample_cfg.
Proof. apply cfg_okb_sound. vm_compute. reflexivity. Qed.

Example sample_run :
  transport sample_cfg 1 0 2 [0; 0; 0] = [9599879991 # 10000000000; 7199760027 # 10000000000; 1600179991 # 5000000000].
Proof. vm_compute. reflexivity. Qed.

Definition closed_cfg : cfg :=
  mkCfg [mkCell (1 # 2) 0; mkCell (1 # 2) 0; mkCell (1 # 2) 0] (1 # 8) 1 0 2 3 true.

Example closed_cfg_conserves : total (transport closed_cfg 5 7 3 [1; 0; 2]) == 3.
Proof. vm_compute. reflexivity. Qed.
