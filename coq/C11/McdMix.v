(* C11 - model of the multicomponent-diffusion branch of Phreeqc::init_mix (transport.cpp, `if (multi_Dflag)`),
   explicit diffusion (implicit == false), no stagnant zones, no electrical field:
   how many diffusive sub-steps ("mixruns", l_nmix) a shift is split into.
   diffc_max (largest species diffusion coefficient x tortuosity, found by fill_spec) is a parameter. *)
From Coq Require Import QArith Qround ZArith List Bool.
From IPV.C11 Require Import Transport.
Import ListNotations.
Open Scope Q_scope.

(* lav = (length[i+1] + length[i]) / 2;  mD = diffc_max * timest / (lav * lav);     dt = diffc_max * timest *)
Definition lav (a b : cell) : Q := (len b + len a) / 2.
Definition fourier (dt : Q) (a b : cell) : Q := dt / (lav a b * lav a b).

(* dispersive factor of the MCD branch: dav updated as in the other branch (never reset); if (dav) m = 2 * corr_disp / dav *)
Definition mcd_disp (corr dav : Q) (cur other : cell) : Q * Q :=
  let dav' := dav_upd dav cur other in
  ((if Qnz dav' then 2 * corr / dav' else 0), dav').

(* for (i = 1; i <= count_cells; i++) { if (i < count_cells) {lav, mD, maxmix}  if (ishift != 0) { m1[i], m[i], mf12, maxmix } }
   returns ((m[i], m1[i]) list, maxmix) *)
Fixpoint mcd_loop (a : bool) (corr dt : Q) (prev : option cell) (cs : list cell) (dav mx : Q)
  : list (Q * Q) * Q :=
  match cs with
  | [] => ([], mx)
  | cur :: rest =>
      let mx1 := match rest with nx :: _ => upmax mx (fourier dt cur nx) | [] => mx end in
      let u := if a then match rest with nx :: _ => mcd_disp corr dav cur nx | [] => (0, dav) end else (0, dav) in
      let l := if a then match prev with Some pv => mcd_disp corr (snd u) cur pv | None => (0, snd u) end else (0, snd u) in
      let mx2 := if a then upmax mx1 (fst l + fst u) else mx1 in
      let r := mcd_loop a corr dt (Some cur) rest (snd l) mx2 in
      ((fst l, fst u) :: fst r, snd r)
  end.

(* constant boundaries: mD = 2 * diffc_max * timest / (length * length); with advection m = 2 * disp / length * corr_disp *)
Definition bnd_fourier (dt : Q) (c : cell) : Q := 2 * dt / (len c * len c).
Definition bnd_disp (corr : Q) (c : cell) : Q := 2 * disp c / len c * corr.

Definition mcd_maxmix (c : cfg) (dmax : Q) : list (Q * Q) * Q :=
  let a := adv c in
  let corr := corr_disp c in
  let dt := dmax * timest c in
  let r0 := mcd_loop a corr dt None (cells c) 0 0 in
  let mxa := if Z.eqb (bcf c) 1 then upmax (snd r0) (bnd_fourier dt (head_cell (cells c))) else snd r0 in
  let raw1 := if Z.eqb (bcf c) 1 && a then set_first_m (fst r0) (bnd_disp corr (head_cell (cells c))) else fst r0 in
  let mx1 := if Z.eqb (bcf c) 1 && a then upmax mxa (sum2 (hd (0, 0) raw1)) else mxa in
  let mxb := if Z.eqb (bcl c) 1 then upmax mx1 (bnd_fourier dt (last_cell (cells c))) else mx1 in
  let raw2 := if Z.eqb (bcl c) 1 && a then set_last_m1 raw1 (bnd_disp corr (last_cell (cells c))) else raw1 in
  let mx2 := if Z.eqb (bcl c) 1 && a then upmax mxb (sum2 (last raw2 (0, 0))) else mxb in
  (raw2, mx2).

(* explicit branch:  l_nmix = 1 + floor((bcon == 1 ? 2.25 : 1.5) * maxmix);  raised to 2 for advection with a constant
   boundary;  if (mcd_substeps > 1) l_nmix = ceil(l_nmix * mcd_substeps);   0 when maxmix == 0 *)
Definition mcd_nmix (c : cfg) (maxmix substeps : Q) : Z :=
  if Qeq_bool maxmix 0 then 0%Z
  else
    let cb := Z.eqb (bcf c) 1 || Z.eqb (bcl c) 1 in
    let k := (1 + Qfloor ((if cb then 9 # 4 else 3 # 2) * maxmix))%Z in
    let k' := if adv c && cb && Z.ltb k 2 then 2%Z else k in
    if Qltb 1 substeps then Qceiling (inject_Z k' * substeps) else k'.

Fixpoint interfaces (cs : list cell) : list (cell * cell) :=
  match cs with
  | a :: ((b :: _) as r) => (a, b) :: interfaces r
  | _ => []
  end.
