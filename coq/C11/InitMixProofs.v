(* C11 — facts about the mixing factors computed by the model of init_mix (Transport.mixf)
   and the resulting theorems about whole transport runs. *)
From Coq Require Import QArith Qround ZArith List Bool Lia Lqa.
From IPV.C11 Require Import Transport MixProofs.
Import ListNotations.
Open Scope Q_scope.
Arguments Qred : simpl never.
Arguments Qplus : simpl never.
Arguments Qmult : simpl never.
Arguments Qminus : simpl never.
Arguments Qdiv : simpl never.
Arguments half_factor : simpl never.
Arguments bnd_factor : simpl never.
Arguments up_factor : simpl never.
Arguments lo_factor : simpl never.

(* ------------------------------------------------------------------ boolean tests *)

Lemma Qnz_true x : Qnz x = true -> ~ x == 0.
Proof. unfold Qnz. intros H E. apply Qeq_bool_iff in E. rewrite E in H. discriminate. Qed.

Lemma Qnz_false x : Qnz x = false -> x == 0.
Proof. unfold Qnz. intros H. apply Qeq_bool_iff. destruct (Qeq_bool x 0); auto; discriminate. Qed.

Lemma Qltb_true a b : Qltb a b = true -> a < b.
Proof.
  unfold Qltb. intros H. apply Qnot_le_lt. intros E. apply Qle_bool_iff in E. rewrite E in H. discriminate.
Qed.

Lemma Qltb_false a b : Qltb a b = false -> b <= a.
Proof. unfold Qltb. intros H. apply Qle_bool_iff. destruct (Qle_bool b a); auto; discriminate. Qed.

Lemma Qdiv_nonneg a b : 0 <= a -> 0 <= b -> 0 <= a / b.
Proof. intros. unfold Qdiv. apply Qmult_le_0_compat; auto. apply Qinv_le_0_compat; auto. Qed.

Lemma Qplus_nonneg a b : 0 <= a -> 0 <= b -> 0 <= a + b.
Proof. intros. lra. Qed.

Lemma upmax_ge_l a b : a <= upmax a b.
Proof. unfold upmax. destruct (Qltb a b) eqn:E; [apply Qltb_true in E; lra | lra]. Qed.

Lemma upmax_ge_r a b : b <= upmax a b.
Proof. unfold upmax. destruct (Qltb a b) eqn:E; [lra | apply Qltb_false in E; lra]. Qed.

(* ------------------------------------------------------------------ the factors are non-negative *)

Definition nonneg2 (p : Q * Q) : Prop := 0 <= fst p /\ 0 <= snd p.
Definition le_sum (mx : Q) (p : Q * Q) : Prop := sum2 p <= mx.

Lemma dav_upd_nonneg dav a b : 0 <= dav -> cell_ok a -> cell_ok b -> 0 <= dav_upd dav a b.
Proof.
  intros Hd [Ha1 Ha2] [Hb1 Hb2]. unfold dav_upd.
  assert (H1 : 0 <= len a / disp a) by (apply Qdiv_nonneg; lra).
  assert (H2 : 0 <= len b / disp b) by (apply Qdiv_nonneg; lra).
  destruct (Qnz (disp a)), (Qnz (disp b)); try apply Qplus_nonneg; auto.
Qed.

Lemma disp_part_nonneg dav : 0 <= dav -> 0 <= disp_part dav.
Proof. intros. unfold disp_part. destruct (Qnz dav); [apply Qdiv_nonneg; lra | lra]. Qed.

Lemma diff_part_nonneg dh a b : 0 <= dh -> cell_ok a -> cell_ok b -> 0 <= diff_part dh a b.
Proof.
  intros Hd [Ha1 Ha2] [Hb1 Hb2]. unfold diff_part. apply Qdiv_nonneg; auto.
  apply Qplus_nonneg; apply Qmult_le_0_compat; lra.
Qed.

Lemma half_factor_nonneg a corr dh dav cur other :
  0 <= corr -> 0 <= dh -> 0 <= dav -> cell_ok cur -> cell_ok other ->
  0 <= fst (half_factor a corr dh dav cur other) /\ 0 <= snd (half_factor a corr dh dav cur other).
Proof.
  intros Hc Hh Hd Hcur Hoth. unfold half_factor. simpl fst; simpl snd.
  assert (Hd' : 0 <= (if a then dav_upd dav cur other else dav))
    by (destruct a; auto; apply dav_upd_nonneg; auto).
  split; auto.
  apply Qmult_le_0_compat; auto. apply Qplus_nonneg.
  - destruct a; [apply disp_part_nonneg; auto | lra].
  - apply diff_part_nonneg; auto.
Qed.

Lemma inner_cons a corr dh prev cur rest dav :
  inner a corr dh prev (cur :: rest) dav =
  (fst (lo_factor a corr dh (snd (up_factor a corr dh dav cur rest)) cur prev), fst (up_factor a corr dh dav cur rest))
  :: inner a corr dh (Some cur) rest (snd (lo_factor a corr dh (snd (up_factor a corr dh dav cur rest)) cur prev)).
Proof. reflexivity. Qed.

Lemma up_factor_nonneg a corr dh dav cur rest :
  0 <= corr -> 0 <= dh -> 0 <= dav -> cell_ok cur -> Forall cell_ok rest ->
  0 <= fst (up_factor a corr dh dav cur rest) /\ 0 <= snd (up_factor a corr dh dav cur rest).
Proof.
  intros Hc Hh Hd Hcur Hrest. unfold up_factor. destruct rest as [|nx r].
  - simpl; split; lra.
  - inversion Hrest; subst. apply half_factor_nonneg; auto.
Qed.

Lemma lo_factor_nonneg a corr dh dav cur prev :
  0 <= corr -> 0 <= dh -> 0 <= dav -> cell_ok cur -> (forall pv, prev = Some pv -> cell_ok pv) ->
  0 <= fst (lo_factor a corr dh dav cur prev) /\ 0 <= snd (lo_factor a corr dh dav cur prev).
Proof.
  intros Hc Hh Hd Hcur Hprev. unfold lo_factor. destruct prev as [pv|].
  - apply half_factor_nonneg; auto.
  - simpl; split; lra.
Qed.

Lemma inner_nonneg a corr dh : 0 <= corr -> 0 <= dh ->
  forall cs prev dav, Forall cell_ok cs -> (forall pv, prev = Some pv -> cell_ok pv) -> 0 <= dav ->
  Forall nonneg2 (inner a corr dh prev cs dav).
Proof.
  intros Hc Hh cs; induction cs as [|cur rest IH]; intros prev dav Hcs Hprev Hdav; [constructor|].
  inversion Hcs as [|? ? Hcur Hrest]; subst. rewrite inner_cons.
  destruct (up_factor_nonneg a corr dh dav cur rest Hc Hh Hdav Hcur Hrest) as [U1 U2].
  destruct (lo_factor_nonneg a corr dh (snd (up_factor a corr dh dav cur rest)) cur prev Hc Hh U2 Hcur Hprev) as [L1 L2].
  constructor; [split; simpl; auto|].
  apply IH; auto. intros ? Heq; inversion Heq; subst; auto.
Qed.

Lemma inner_length a corr dh : forall cs prev dav, length (inner a corr dh prev cs dav) = length cs.
Proof.
  induction cs as [|cur rest IH]; intros prev dav; [reflexivity|].
  rewrite inner_cons. simpl length. f_equal. apply IH.
Qed.

(* ------------------------------------------------------------------ maxmix dominates every m[i] + m1[i] *)

Lemma maxmix_of_ge : forall raw m0,
  m0 <= maxmix_of raw m0 /\ Forall (le_sum (maxmix_of raw m0)) raw.
Proof.
  induction raw as [|p raw IH]; intros m0; unfold maxmix_of in *; simpl.
  - split; [lra | constructor].
  - destruct (IH (upmax m0 (sum2 p))) as [H1 H2]. split.
    + pose proof (upmax_ge_l m0 (sum2 p)). lra.
    + constructor; auto. unfold le_sum. pose proof (upmax_ge_r m0 (sum2 p)). lra.
Qed.

Lemma Forall_le_sum_mono mx mx' raw : mx <= mx' -> Forall (le_sum mx) raw -> Forall (le_sum mx') raw.
Proof. intros H. apply Forall_impl. unfold le_sum. intros; lra. Qed.

Lemma set_first_Forall (P : Q * Q -> Prop) raw v :
  Forall P raw -> P (hd (0, 0) (set_first_m raw v)) -> Forall P (set_first_m raw v).
Proof.
  destruct raw as [|[m m1] r]; simpl; auto. intros H Hp. inversion H; subst. constructor; auto.
Qed.

Lemma set_last_Forall (P : Q * Q -> Prop) v : forall raw,
  Forall P raw -> P (last (set_last_m1 raw v) (0, 0)) -> Forall P (set_last_m1 raw v).
Proof.
  induction raw as [|[m x] r IH]; intros H Hp; [constructor|].
  inversion H as [|? ? Hh Hr]; subst.
  destruct r as [|[m' x'] r'].
  - simpl in *. constructor; auto.
  - change (set_last_m1 ((m, x) :: (m', x') :: r') v) with ((m, x) :: set_last_m1 ((m', x') :: r') v) in *.
    constructor; auto. apply IH; auto.
    destruct r' as [|q r'']; simpl in *; auto.
Qed.

Lemma hd_set_first raw v : raw <> [] -> hd (0, 0) (set_first_m raw v) = (v, snd (hd (0, 0) raw)).
Proof. destruct raw as [|[m m1] r]; [congruence|reflexivity]. Qed.

Lemma last_set_last v : forall raw, raw <> [] ->
  last (set_last_m1 raw v) (0, 0) = (fst (last raw (0, 0)), v).
Proof.
  induction raw as [|[m x] r IH]; intros Hne; [congruence|].
  destruct r as [|[m' x'] r']; [reflexivity|].
  change (set_last_m1 ((m, x) :: (m', x') :: r') v) with ((m, x) :: set_last_m1 ((m', x') :: r') v).
  change (last ((m, x) :: (m', x') :: r') (0, 0)) with (last ((m', x') :: r') (0, 0)).
  rewrite <- IH by congruence.
  destruct r' as [|q r'']; reflexivity.
Qed.

Lemma Forall_hd {A} (P : A -> Prop) d l : l <> [] -> Forall P l -> P (hd d l).
Proof. destruct l; [congruence|]. intros _ H; inversion H; auto. Qed.

Lemma Forall_last {A} (P : A -> Prop) d : forall l, l <> [] -> Forall P l -> P (last l d).
Proof.
  induction l as [|a l IH]; intros Hne H; [congruence|]. inversion H; subst.
  destruct l as [|b l']; auto. apply IH; auto; congruence.
Qed.

Lemma set_first_length raw v : length (set_first_m raw v) = length raw.
Proof. destruct raw as [|[m m1] r]; reflexivity. Qed.

Lemma set_last_length v : forall raw, length (set_last_m1 raw v) = length raw.
Proof.
  induction raw as [|[m x] r IH]; auto. destruct r as [|q r']; auto.
  change (set_last_m1 ((m, x) :: q :: r') v) with ((m, x) :: set_last_m1 (q :: r') v).
  simpl length in *. f_equal. exact IH.
Qed.

Lemma corr_disp_ge1 c : 1 <= corr_disp c.
Proof.
  unfold corr_disp.
  assert (H : 0 <= 1 / inject_Z (ncells c)).
  { apply Qdiv_nonneg; [lra|]. unfold ncells. change 0 with (inject_Z 0). rewrite <- Zle_Qle. lia. }
  destruct (corrd c && adv c); [|lra].
  destruct (Z.eqb (bcf c) 3), (Z.eqb (bcl c) 3); lra.
Qed.

Lemma bnd_factor_nonneg a dh x : 0 <= dh -> cell_ok x -> 0 <= bnd_factor a dh x.
Proof.
  intros Hd [H1 H2]. unfold bnd_factor. apply Qplus_nonneg.
  - apply Qdiv_nonneg; auto. apply Qmult_le_0_compat; lra.
  - destruct a; [apply Qdiv_nonneg; lra | lra].
Qed.

Lemma diffc_here_nonneg c : cfg_ok c -> 0 <= diffc_here c.
Proof.
  intros (_ & Hd & Ht & _). unfold diffc_here.
  apply Qmult_le_0_compat; auto. apply Qmult_le_0_compat; auto. lra.
Qed.

Lemma head_cell_ok l : Forall cell_ok l -> cell_ok (head_cell l).
Proof.
  unfold head_cell. destruct l; simpl; [intros _; split; simpl; lra|]. intros H; inversion H; auto.
Qed.

Lemma last_cell_ok l : Forall cell_ok l -> cell_ok (last_cell l).
Proof.
  unfold last_cell. intros H. destruct l as [|a l']; [split; simpl; lra|].
  apply Forall_last; auto; congruence.
Qed.

Lemma raw_mix_props c : cfg_ok c ->
  Forall nonneg2 (fst (raw_mix c)) /\ Forall (le_sum (snd (raw_mix c))) (fst (raw_mix c)) /\
  0 <= snd (raw_mix c) /\ length (fst (raw_mix c)) = length (cells c).
Proof.
  intros Hok. pose proof Hok as (Hcells & Hd & Ht & Hne).
  pose proof (diffc_here_nonneg c Hok) as Hdh.
  pose proof (corr_disp_ge1 c) as Hcorr.
  unfold raw_mix.
  set (a := adv c). set (dh := diffc_here c) in *.
  set (raw0 := inner a (corr_disp c) dh None (cells c) 0).
  assert (N0 : Forall nonneg2 raw0).
  { apply inner_nonneg; auto; try lra. intros ? E; discriminate. }
  assert (L0 : length raw0 = length (cells c)) by apply inner_length.
  destruct (maxmix_of_ge raw0 0) as [M0 S0].
  set (mx0 := maxmix_of raw0 0) in *.
  set (v1 := bnd_factor a dh (head_cell (cells c))).
  assert (Hv1 : 0 <= v1) by (apply bnd_factor_nonneg; auto; apply head_cell_ok; auto).
  set (raw1 := if Z.eqb (bcf c) 1 then set_first_m raw0 v1 else raw0).
  set (mx1 := if Z.eqb (bcf c) 1 then upmax mx0 (sum2 (hd (0, 0) raw1)) else mx0).
  assert (P1 : Forall nonneg2 raw1 /\ Forall (le_sum mx1) raw1 /\ mx0 <= mx1 /\ length raw1 = length raw0).
  { unfold raw1, mx1. destruct (Z.eqb (bcf c) 1).
    - pose proof (upmax_ge_l mx0 (sum2 (hd (0, 0) (set_first_m raw0 v1)))) as G1.
      pose proof (upmax_ge_r mx0 (sum2 (hd (0, 0) (set_first_m raw0 v1)))) as G2.
      split; [|split; [|split]].
      + apply set_first_Forall; auto.
        destruct raw0 as [|[m m1] r]; [split; simpl; lra|].
        inversion N0 as [|? ? [Hn1 Hn2] ?]; subst. split; simpl in *; auto.
      + apply set_first_Forall; [apply (Forall_le_sum_mono mx0); auto | exact G2].
      + exact G1.
      + apply set_first_length.
    - split; [|split; [|split]]; auto; lra. }
  destruct P1 as (N1 & S1 & M1 & L1).
  set (v2 := bnd_factor a dh (last_cell (cells c))).
  assert (Hv2 : 0 <= v2) by (apply bnd_factor_nonneg; auto; apply last_cell_ok; auto).
  set (raw2 := if Z.eqb (bcl c) 1 then set_last_m1 raw1 v2 else raw1).
  set (mx2 := if Z.eqb (bcl c) 1 then upmax mx1 (sum2 (last raw2 (0, 0))) else mx1).
  simpl fst; simpl snd.
  unfold raw2, mx2. destruct (Z.eqb (bcl c) 1).
  - pose proof (upmax_ge_l mx1 (sum2 (last (set_last_m1 raw1 v2) (0, 0)))) as G1.
    pose proof (upmax_ge_r mx1 (sum2 (last (set_last_m1 raw1 v2) (0, 0)))) as G2.
    split; [|split; [|split]].
    + apply set_last_Forall; auto.
      destruct raw1 as [|p r] eqn:E1; [split; simpl; lra|].
      rewrite last_set_last by congruence. split; simpl; auto.
      assert (Hl : nonneg2 (last (p :: r) (0, 0))) by (apply Forall_last; auto; congruence).
      destruct Hl; auto.
    + apply set_last_Forall; [apply (Forall_le_sum_mono mx1); auto | exact G2].
    + unfold raw2. lra.
    + rewrite set_last_length. lia.
  - split; [|split; [|split]]; auto; try lra; lia.
Qed.

(* ------------------------------------------------------------------ the number of mixes *)

Lemma nmix_of_zero c mx : mx == 0 -> nmix_of c mx = 0%Z.
Proof. intros H. unfold nmix_of. apply Qeq_bool_iff in H. rewrite H. reflexivity. Qed.

Lemma nmix_of_big c mx : 0 <= mx -> ~ mx == 0 ->
  (3 # 2) * mx < inject_Z (nmix_of c mx) /\ (1 <= nmix_of c mx)%Z.
Proof.
  intros Hpos Hnz. unfold nmix_of.
  destruct (Qeq_bool mx 0) eqn:E; [apply Qeq_bool_iff in E; contradiction|].
  set (k := (1 + Qfloor ((3 # 2) * mx))%Z).
  assert (Hk : (3 # 2) * mx < inject_Z k).
  { unfold k. pose proof (Qlt_floor ((3 # 2) * mx)) as H. replace (1 + Qfloor ((3 # 2) * mx))%Z
      with (Qfloor ((3 # 2) * mx) + 1)%Z by lia. exact H. }
  assert (Hk1 : (1 <= k)%Z).
  { unfold k. assert (0 <= Qfloor ((3 # 2) * mx))%Z; [|lia].
    change 0%Z with (Qfloor 0). apply Qfloor_resp_le. lra. }
  destruct (adv c && (Z.eqb (bcf c) 1 || Z.eqb (bcl c) 1) && Z.ltb k 2) eqn:E2.
  - split; [|lia].
    apply andb_true_iff in E2. destruct E2 as [_ E2]. apply Z.ltb_lt in E2.
    assert (inject_Z k <= inject_Z 2) by (rewrite <- Zle_Qle; lia). lra.
  - split; auto.
Qed.

(* ------------------------------------------------------------------ THEOREM mixf_convex *)

Definition stable1 (p : Q * Q) : Prop := 0 <= fst p /\ 0 <= snd p /\ fst p + snd p <= 2 # 3.

Theorem mixf_convex c : cfg_ok c -> Forall stable1 (snd (mixf c)).
Proof.
  intros Hok. destruct (raw_mix_props c Hok) as (N & S & M & _).
  unfold mixf. destruct (raw_mix c) as [raw mx]. simpl fst in *; simpl snd in *.
  destruct (Z.eqb (nmix_of c mx) 0) eqn:En; simpl snd.
  - (* no mixing at all: maxmix = 0, every factor is 0 *)
    assert (Hmx : mx == 0).
    { destruct (Qeq_dec mx 0) as [|Hn]; auto.
      destruct (nmix_of_big c mx M Hn) as [_ H1]. apply Z.eqb_eq in En. lia. }
    rewrite Forall_forall in *. intros p Hp. destruct (N p Hp) as [H1 H2].
    specialize (S p Hp). unfold le_sum, sum2 in S. unfold stable1. repeat split; auto. lra.
  - assert (Hn : ~ mx == 0).
    { intros H. rewrite (nmix_of_zero c mx H) in En. discriminate. }
    destruct (nmix_of_big c mx M Hn) as [Hbig H1].
    set (n := nmix_of c mx) in *.
    assert (Hn0 : 0 < inject_Z n) by (change 0 with (inject_Z 0); rewrite <- Zlt_Qlt; lia).
    rewrite Forall_forall in *. intros q Hq. apply in_map_iff in Hq. destruct Hq as (p & Hpq & Hp). subst q.
    destruct (N p Hp) as [H2 H3]. specialize (S p Hp). unfold le_sum, sum2 in S.
    unfold stable1. simpl fst; simpl snd. rewrite !Qred_correct.
    repeat split; try (apply Qdiv_nonneg; lra).
    assert (E : fst p / inject_Z n + snd p / inject_Z n == (fst p + snd p) / inject_Z n)
      by (field; lra).
    rewrite E. apply Qle_shift_div_r; auto. lra.
Qed.

Lemma stable_convex ms : Forall stable1 ms -> convex ms.
Proof. apply Forall_impl. unfold stable1, convex1. intros p (H1 & H2 & H3). repeat split; auto; lra. Qed.

Lemma read_bc_ok c : cfg_ok c -> cfg_ok (read_bc c).
Proof. unfold cfg_ok, read_bc; simpl; auto. Qed.

(* ------------------------------------------------------------------ THEOREM bounded_mixing *)

Theorem bounded_mixing c lo hi cL cR k cs :
  cfg_ok c -> within lo hi cL -> within lo hi cR -> in_range lo hi cs ->
  in_range lo hi (transport c cL cR k cs).
Proof.
  intros Hok HL HR Hcs. unfold transport.
  pose proof (stable_convex _ (mixf_convex _ (read_bc_ok c Hok))) as Hcv.
  destruct (mixf (read_bc c)) as [n ms]. simpl snd in Hcv.
  apply (iter_inv (in_range lo hi)); auto.
  intros x Hx. apply one_shift_range; auto.
Qed.

(* ------------------------------------------------------------------ equal cell lengths, no advection *)

Section EqualLengths.
Variable L corr dh : Q.
Let F := (0 + dh / (L * L + L * L)) * corr.
Let eqL (x : cell) : Prop := len x == L.

Lemma half_factor_noadv dav cur other :
  eqL cur -> eqL other -> fst (half_factor false corr dh dav cur other) == F.
Proof.
  unfold eqL, half_factor, diff_part, F. simpl fst. intros H1 H2. rewrite H1, H2. reflexivity.
Qed.

Lemma inner_noadv_chain : forall cs prev dav,
  Forall eqL cs -> (forall pv, prev = Some pv -> eqL pv) -> cs <> [] ->
  let r := inner false corr dh prev cs dav in
  chain r /\ snd (last r (0, 0)) == 0 /\
  (prev = None -> fst (hd (0, 0) r) == 0) /\ (prev <> None -> fst (hd (0, 0) r) == F).
Proof.
  induction cs as [|cur rest IH]; intros prev dav Hcs Hprev Hne; [congruence|].
  inversion Hcs as [|? ? Hcur Hrest]; subst.
  cbv zeta. rewrite inner_cons.
  set (u := up_factor false corr dh dav cur rest).
  set (l := lo_factor false corr dh (snd u) cur prev).
  assert (Hl0 : prev = None -> fst l == 0).
  { intros E. unfold l, lo_factor. rewrite E. simpl. reflexivity. }
  assert (HlF : prev <> None -> fst l == F).
  { intros E. unfold l, lo_factor. destruct prev as [pv|]; [|congruence]. apply half_factor_noadv; auto. }
  destruct rest as [|nx rest'].
  - simpl inner. simpl. repeat split; auto.
  - inversion Hrest as [|? ? Hnx Hrest']; subst.
    assert (HuF : fst u == F) by (unfold u, up_factor; apply half_factor_noadv; auto).
    destruct (IH (Some cur) (snd l) Hrest) as (C & Lz & _ & Hh); [intros ? E; inversion E; subst; auto | congruence |].
    specialize (Hh ltac:(congruence)).
    pose proof (inner_length false corr dh (nx :: rest') (Some cur) (snd l)) as Hlen.
    destruct (inner false corr dh (Some cur) (nx :: rest') (snd l)) as [|q t] eqn:Eq; [simpl in Hlen; lia|].
    simpl hd in Hh.
    split; [|split; [|split]].
    + simpl. split; auto. apply (Qeq_trans _ F); [exact HuF | apply Qeq_sym; exact Hh].
    + change (last ((fst l, fst u) :: q :: t) (0, 0)) with (last (q :: t) (0, 0)). exact Lz.
    + intros E. simpl. auto.
    + intros E. simpl. auto.
Qed.
End EqualLengths.

Lemma chain_map_div (g : Q * Q -> Q * Q) :
  (forall p q, snd p == fst q -> snd (g p) == fst (g q)) ->
  forall ms, chain ms -> chain (map g ms).
Proof.
  intros Hg. induction ms as [|p ms IH]; intros H; simpl; auto.
  destruct ms as [|q ms']; simpl; auto.
  destruct H as [H1 H2]. split; auto. apply (IH H2).
Qed.

Lemma last_map_ne {A B} (g : A -> B) d d' : forall l, l <> [] -> last (map g l) d' = g (last l d).
Proof.
  induction l as [|a l IH]; intros Hne; [congruence|].
  destruct l as [|b l']; [reflexivity|].
  change (last (map g (a :: b :: l')) d') with (last (map g (b :: l')) d').
  change (last (a :: b :: l') d) with (last (b :: l') d). apply IH. congruence.
Qed.

(* for a closed, diffusion-only column of equal cells the factors form a symmetric chain with closed ends *)
Lemma mixf_equal_closed c L :
  ishift c = 0%Z -> bcf c <> 1%Z -> bcl c <> 1%Z -> Forall (fun x => len x == L) (cells c) -> cells c <> [] ->
  chain (snd (mixf c)) /\ closed_ends (snd (mixf c)) /\ length (snd (mixf c)) = length (cells c).
Proof.
  intros Hs Hf Hl HL Hne.
  assert (Ha : adv c = false) by (unfold adv; rewrite Hs; reflexivity).
  assert (Ef : Z.eqb (bcf c) 1 = false) by (apply Z.eqb_neq; auto).
  assert (El : Z.eqb (bcl c) 1 = false) by (apply Z.eqb_neq; auto).
  unfold mixf, raw_mix. rewrite Ha, Ef, El.
  set (raw := inner false (corr_disp c) (diffc_here c) None (cells c) 0).
  destruct (inner_noadv_chain L (corr_disp c) (diffc_here c) (cells c) None 0 HL) as (C & Lz & Hz & _);
    [intros ? E; discriminate | auto |]. fold raw in C, Lz, Hz. specialize (Hz eq_refl).
  assert (Hlen : length raw = length (cells c)) by apply inner_length.
  assert (Hrne : raw <> []) by (intros E; rewrite E in Hlen; destruct (cells c); simpl in *; [congruence | lia]).
  destruct (Z.eqb (nmix_of c (maxmix_of raw 0)) 0); simpl snd.
  - repeat split; auto.
  - set (n := inject_Z (nmix_of c (maxmix_of raw 0))).
    set (g := fun p : Q * Q => (Qred (fst p / n), Qred (snd p / n))).
    split; [|split].
    + apply chain_map_div; auto. intros p q H. unfold g. simpl. rewrite !Qred_correct, H. reflexivity.
    + unfold closed_ends. split.
      * destruct raw as [|p r]; [congruence|]. simpl in *. rewrite Qred_correct, Hz. unfold Qdiv. ring.
      * rewrite (last_map_ne g (0, 0)) by auto. unfold g. simpl. rewrite Qred_correct, Lz. unfold Qdiv. ring.
    + rewrite map_length. auto.
Qed.

(* ------------------------------------------------------------------ THEOREM diffusion_conserves *)

Theorem diffusion_conserves c L cL cR k cs :
  ishift c = 0%Z -> bcf c <> 1%Z -> bcl c <> 1%Z ->
  Forall (fun x => len x == L) (cells c) -> cells c <> [] -> length cs = length (cells c) ->
  total (transport c cL cR k cs) == total cs.
Proof.
  intros Hs Hf Hl HL Hne Hlen. unfold transport.
  assert (Ha : adv c = false) by (unfold adv; rewrite Hs; reflexivity).
  assert (Hrb : read_bc c = mkCfg (cells c) (diffc c) (timest c) (ishift c) (bcf c) (bcl c) (corrd c))
    by (unfold read_bc, fix_bc; rewrite Ha; reflexivity).
  set (c' := read_bc c) in *.
  assert (Hs' : ishift c' = 0%Z) by (rewrite Hrb; exact Hs).
  destruct (mixf_equal_closed c' L) as (C & Cl & Len); try (rewrite Hrb; simpl; auto; fail).
  assert (Hcells : cells c' = cells c) by (rewrite Hrb; reflexivity).
  destruct (mixf c') as [n ms]. simpl snd in *.
  assert (G : forall j x, length ms = length x ->
              total (iter j (one_shift c' n ms cL cR) x) == total x).
  { induction j as [|j IH]; intros x Hx; simpl; [reflexivity|].
    assert (Hone : total (one_shift c' n ms cL cR x) == total x /\ length (one_shift c' n ms cL cR x) = length x).
    { unfold one_shift.
      destruct (iter_mix_conserves ms cL cR C Cl (pre_mixes c' n) x Hx) as [E1 L1].
      set (x1 := iter (pre_mixes c' n) (mix_step ms cL cR) x) in *.
      assert (Hadv : advect (ishift c') cL cR x1 = x1).
      { unfold advect. rewrite Hs'. destruct x1; reflexivity. }
      rewrite Hadv.
      destruct (iter_mix_conserves ms cL cR C Cl (Z.to_nat n - pre_mixes c' n) x1 ltac:(lia)) as [E2 L2].
      split; [rewrite E2; exact E1 | lia]. }
    destruct Hone as [E1 L1]. rewrite IH by lia. exact E1. }
  apply G. rewrite Len, Hcells. auto.
Qed.

(* ------------------------------------------------------------------ pure advection *)

(* no dispersivity and no diffusion: init_mix returns nmix = 0 *)
Lemma half_factor_zero a corr dh cur other :
  dh == 0 -> disp cur == 0 -> disp other == 0 ->
  snd (half_factor a corr dh 0 cur other) = 0 /\ fst (half_factor a corr dh 0 cur other) == 0.
Proof.
  intros Hd H1 H2. unfold half_factor, dav_upd, disp_part, diff_part. simpl fst; simpl snd.
  assert (N1 : Qnz (disp cur) = false) by (unfold Qnz; apply Qeq_bool_iff in H1; rewrite H1; reflexivity).
  assert (N2 : Qnz (disp other) = false) by (unfold Qnz; apply Qeq_bool_iff in H2; rewrite H2; reflexivity).
  rewrite N1, N2.
  assert (N0 : Qnz 0 = false) by reflexivity.
  destruct a; rewrite ?N0; split; auto; rewrite Hd; unfold Qdiv; ring.
Qed.

Definition zero2 (p : Q * Q) : Prop := fst p == 0 /\ snd p == 0.

Lemma inner_zero a corr dh : dh == 0 ->
  forall cs prev, Forall (fun x => disp x == 0) cs -> (forall pv, prev = Some pv -> disp pv == 0) ->
  Forall zero2 (inner a corr dh prev cs 0).
Proof.
  intros Hd cs; induction cs as [|cur rest IH]; intros prev Hcs Hprev; [constructor|].
  inversion Hcs as [|? ? Hcur Hrest]; subst. rewrite inner_cons.
  assert (U : snd (up_factor a corr dh 0 cur rest) = 0 /\ fst (up_factor a corr dh 0 cur rest) == 0).
  { unfold up_factor. destruct rest as [|nx r]; [simpl; split; reflexivity|].
    inversion Hrest; subst. apply half_factor_zero; auto. }
  destruct U as [U1 U2]. rewrite U1.
  assert (Lo : snd (lo_factor a corr dh 0 cur prev) = 0 /\ fst (lo_factor a corr dh 0 cur prev) == 0).
  { unfold lo_factor. destruct prev as [pv|]; [|simpl; split; reflexivity].
    apply half_factor_zero; auto. }
  destruct Lo as [L1 L2]. rewrite L1.
  constructor; [split; simpl; auto|].
  apply IH; auto. intros ? Heq; inversion Heq; subst; auto.
Qed.

Lemma maxmix_zero : forall raw, Forall zero2 raw -> maxmix_of raw 0 = 0.
Proof.
  unfold maxmix_of. induction raw as [|p raw IH]; intros H; simpl; auto.
  inversion H as [|? ? [H1 H2] H']; subst.
  assert (E : upmax 0 (sum2 p) = 0).
  { unfold upmax. destruct (Qltb 0 (sum2 p)) eqn:E; auto. apply Qltb_true in E. unfold sum2 in E. lra. }
  rewrite E. auto.
Qed.

Lemma pure_advection_nmix0 c :
  diffc c * timest c == 0 -> Forall (fun x => disp x == 0) (cells c) -> bcf c <> 1%Z -> bcl c <> 1%Z ->
  fst (mixf c) = 0%Z.
Proof.
  intros Hd Hz Hf Hl.
  assert (Hdh : diffc_here c == 0) by (unfold diffc_here; rewrite <- Qmult_assoc, Hd; ring).
  assert (Ef : Z.eqb (bcf c) 1 = false) by (apply Z.eqb_neq; auto).
  assert (El : Z.eqb (bcl c) 1 = false) by (apply Z.eqb_neq; auto).
  unfold mixf, raw_mix. rewrite Ef, El.
  rewrite (maxmix_zero _ (inner_zero (adv c) (corr_disp c) (diffc_here c) Hdh (cells c) None Hz
                            ltac:(intros ? E; discriminate))).
  reflexivity.
Qed.

Lemma one_shift_nmix0 c ms cL cR cs : one_shift c 0 ms cL cR cs = advect (ishift c) cL cR cs.
Proof.
  unfold one_shift, pre_mixes. simpl.
  destruct (Z.eqb (ishift c) 0 || Z.eqb (bcf c) 1 || Z.eqb (bcl c) 1); reflexivity.
Qed.

(* ------------------------------------------------------------------ THEOREM advection_is_exact_shift *)

Theorem advection_is_exact_shift c cL cR cs i :
  diffc c * timest c == 0 -> Forall (fun x => disp x == 0) (cells c) -> bcf c <> 1%Z -> bcl c <> 1%Z ->
  (i < length cs)%nat ->
  (ishift c = 1%Z -> nth i (transport c cL cR 1 cs) 0 = nth i (cL :: cs) 0) /\
  (ishift c = (-1)%Z -> nth i (transport c cL cR 1 cs) 0 = nth (S i) (cs ++ [cR]) 0).
Proof.
  intros Hd Hz Hf Hl Hi. unfold transport.
  assert (Hf' : bcf (read_bc c) <> 1%Z).
  { unfold read_bc, fix_bc; simpl. destruct (adv c && Z.eqb (bcf c) 2); [discriminate | auto]. }
  assert (Hl' : bcl (read_bc c) <> 1%Z).
  { unfold read_bc, fix_bc; simpl. destruct (adv c && Z.eqb (bcl c) 2); [discriminate | auto]. }
  pose proof (pure_advection_nmix0 (read_bc c) Hd Hz Hf' Hl') as Hn.
  destruct (mixf (read_bc c)) as [n ms]. simpl in Hn. subst n. simpl iter.
  rewrite one_shift_nmix0. change (ishift (read_bc c)) with (ishift c).
  unfold advect. destruct cs as [|x cs']; [simpl in Hi; lia|].
  split; intros Hs; rewrite Hs; simpl Z.eqb; cbv iota.
  - apply shift_fwd_nth; auto.
  - apply shift_bwd_nth; auto.
Qed.
