(* C11 - the cell set-up of a TRANSPORT run: readtr.cpp, Phreeqc::read_transport, blocks "Determine number of cells",
   "Fill in data for lengths", "Fill in data for dispersivities".  cell_data persists between TRANSPORT runs of one
   instance: `prev` is what the previous run left in cell_data[1..], `old_cells` its number of cells (0 for the first run). *)
From Coq Require Import QArith ZArith List Bool Arith.
From IPV.C11 Require Import Transport.
Import ListNotations.
Open Scope Q_scope.

(* max_cells = count_cells; if (count_length > max_cells) max_cells = count_length; if (count_disp > max_cells) ... *)
Definition max_cells (count_cells : nat) (gl gd : list Q) : nat :=
  Nat.max count_cells (Nat.max (length gl) (length gd)).

(* if (count == 0) { if (old_cells < max_cells) all cells 1..max_cells get the default;  else the former values stay }
   else { the given values, the last one repeated up to max_cells } *)
Definition fill (dflt : Q) (old_cells mx : nat) (prev given : list Q) : list Q :=
  match given with
  | [] => if Nat.ltb old_cells mx then repeat dflt mx else firstn mx prev
  | _ => firstn mx given ++ repeat (last given 0) (mx - length given)
  end.

Definition mk_cells (ls ds : list Q) : list cell := map (fun p => mkCell (fst p) (snd p)) (combine ls ds).

(* lengths default 1 m, dispersivities default 0 *)
Definition setup_cells (old_cells count_cells : nat) (prevL prevD gl gd : list Q) : list cell :=
  let mx := max_cells count_cells gl gd in
  mk_cells (fill 1 old_cells mx prevL gl) (fill 0 old_cells mx prevD gd).

Definition setup_cfg (old_cells count_cells : nat) (prevL prevD gl gd : list Q)
           (dc ts : Q) (sh b1 b2 : Z) (cd : bool) : cfg :=
  mkCfg (setup_cells old_cells count_cells prevL prevD gl gd) dc ts sh b1 b2 cd.
