(* C11 - a column that relies on the default cell lengths / dispersivities really gets them for ALL its cells *)
From Coq Require Import QArith ZArith List Bool Arith Lia Lqa.
From IPV.C11 Require Import Transport MixProofs InitMixProofs Setup.
Import ListNotations.
Open Scope Q_scope.

Lemma fill_default dflt old mx prev : (old < mx)%nat -> fill dflt old mx prev [] = repeat dflt mx.
Proof. intros H. unfold fill. apply Nat.ltb_lt in H. rewrite H. reflexivity. Qed.

Lemma fill_length_grown dflt old mx prev given :
  (old < mx)%nat -> (length given <= mx)%nat -> length (fill dflt old mx prev given) = mx.
Proof.
  intros H Hg. destruct given as [|g r].
  - rewrite fill_default by auto. apply repeat_length.
  - unfold fill. rewrite app_length, firstn_length, repeat_length. lia.
Qed.

Lemma mk_cells_len (P : Q -> Prop) : forall ls ds, Forall P ls -> Forall (fun x => P (len x)) (mk_cells ls ds).
Proof.
  unfold mk_cells. induction ls as [|l ls IH]; intros ds H; [constructor|].
  destruct ds as [|d ds]; [constructor|]. inversion H; subst. simpl. constructor; auto.
Qed.

Lemma mk_cells_disp (P : Q -> Prop) : forall ls ds, Forall P ds -> Forall (fun x => P (disp x)) (mk_cells ls ds).
Proof.
  unfold mk_cells. induction ls as [|l ls IH]; intros ds H; [constructor|].
  destruct ds as [|d ds]; [constructor|]. inversion H; subst. simpl. constructor; auto.
Qed.

Lemma mk_cells_length ls ds : length ls = length ds -> length (mk_cells ls ds) = length ls.
Proof. intros H. unfold mk_cells. rewrite map_length, combine_length. lia. Qed.

Lemma repeat_Forall {A} (P : A -> Prop) x n : P x -> Forall P (repeat x n).
Proof. intros H. induction n; simpl; constructor; auto. Qed.

(* no -lengths, the column has grown: EVERY cell has length 1 *)
Lemma setup_default_lengths old cc prevL prevD gd :
  (old < max_cells cc [] gd)%nat ->
  Forall (fun x => len x == 1) (setup_cells old cc prevL prevD [] gd) /\
  length (setup_cells old cc prevL prevD [] gd) = max_cells cc [] gd.
Proof.
  intros H. unfold setup_cells. rewrite fill_default by auto. split.
  - apply (mk_cells_len (fun q => q == 1)). apply repeat_Forall. reflexivity.
  - rewrite mk_cells_length; rewrite repeat_length; auto.
    symmetry. apply fill_length_grown; auto. unfold max_cells. lia.
Qed.

(* no -dispersivities, the column has grown: EVERY cell has dispersivity 0 *)
Lemma setup_default_disps old cc prevL prevD gl :
  (old < max_cells cc gl [])%nat ->
  Forall (fun x => disp x == 0) (setup_cells old cc prevL prevD gl []).
Proof.
  intros H. unfold setup_cells. rewrite (fill_default 0) by auto.
  apply (mk_cells_disp (fun q => q == 0)). apply repeat_Forall. reflexivity.
Qed.

(* THEOREM: a later TRANSPORT run with more cells and no -lengths is a column of equal cells: closed diffusion conserves *)
Theorem grown_column_default_lengths_conserves old cc prevL prevD gd dc ts b1 b2 cd cL cR k cs :
  (old < max_cells cc [] gd)%nat -> b1 <> 1%Z -> b2 <> 1%Z ->
  length cs = max_cells cc [] gd ->
  let c := setup_cfg old cc prevL prevD [] gd dc ts 0 b1 b2 cd in
  total (transport c cL cR k cs) == total cs.
Proof.
  intros H Hb1 Hb2 Hlen c. destruct (setup_default_lengths old cc prevL prevD gd H) as [F L].
  apply (diffusion_conserves c 1); auto.
  - unfold c, setup_cfg; simpl. intros E. rewrite E in L. simpl in L. lia.
  - unfold c, setup_cfg; simpl. lia.
Qed.

(* THEOREM: a later TRANSPORT run with more cells, no -dispersivities and no diffusion is a pure shift *)
Theorem grown_column_default_disp_exact_shift old cc prevL prevD gl dc ts sh b1 b2 cd cL cR cs i :
  (old < max_cells cc gl [])%nat -> dc * ts == 0 -> b1 <> 1%Z -> b2 <> 1%Z -> (i < length cs)%nat ->
  let c := setup_cfg old cc prevL prevD gl [] dc ts sh b1 b2 cd in
  (sh = 1%Z -> nth i (transport c cL cR 1 cs) 0 = nth i (cL :: cs) 0) /\
  (sh = (-1)%Z -> nth i (transport c cL cR 1 cs) 0 = nth (S i) (cs ++ [cR]) 0).
Proof.
  intros H Hd Hb1 Hb2 Hi c.
  apply (advection_is_exact_shift c cL cR cs i); auto.
  unfold c, setup_cfg; simpl. apply setup_default_disps; auto.
Qed.

Example second_run_grows :
  (* first run: 3 cells of 0.25 m with dispersivity 0.5; second run: 5 cells, no -lengths, no -dispersivities *)
  setup_cells 3 5 [1 # 4; 1 # 4; 1 # 4] [1 # 2; 1 # 2; 1 # 2] [] [] =
  [mkCell 1 0; mkCell 1 0; mkCell 1 0; mkCell 1 0; mkCell 1 0].
Proof. reflexivity. Qed.

Example second_run_retains :
  (* same number of cells, nothing given: "Column data retained from former run" *)
  setup_cells 3 3 [1 # 4; 1 # 4; 1 # 4] [1 # 2; 1 # 2; 1 # 2] [] [] = [mkCell (1 # 4) (1 # 2); mkCell (1 # 4) (1 # 2); mkCell (1 # 4) (1 # 2)].
Proof. reflexivity. Qed.

Example short_list_repeats_last :
  setup_cells 0 4 [] [] [2; 3] [1 # 10] = [mkCell 2 (1 # 10); mkCell 3 (1 # 10); mkCell 3 (1 # 10); mkCell 3 (1 # 10)].
Proof. reflexivity. Qed.
