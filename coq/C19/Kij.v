(* C19 -- the table of binary interaction parameters stays SYMMETRIC under any sequence of (re)definitions.
   calc_PR looks k_ij up as (name_i, name_j) inside a double loop over the components, so a_ij = a_ji needs
   table(i,j) = table(j,i).  Model of read.cpp: read_gas_binary_parameters: every input line `gas1 gas2 d` executes the
   REGENERATED stores  gas_binary_parameters[(x, y)] = v  (operator[] + assignment = overwrite) in source order. *)
From Coq Require Import QArith List String Bool.
From IPV Require Import Gen.Gen_C19_gases.
Import ListNotations.
Local Open Scope string_scope.

Definition key : Type := (string * string)%type.
Definition key_eqb (a b : key) : bool := String.eqb (fst a) (fst b) && String.eqb (snd a) (snd b).
Definition table : Type := key -> option Q.
Definition empty : table := fun _ => None.
Definition set (t : table) (k : key) (v : Q) : table := fun k' => if key_eqb k' k then Some v else t k'.

(* one definition line: gas1 gas2 d *)
Definition defn : Type := (string * string * Q)%type.
(* a generated store (x, y, v): x, y are the C++ variables gas1 / gas2 of the line, v must be the value d of the line *)
Definition interp (d : defn) (x : string) : string :=
  if String.eqb x "gas1" then fst (fst d) else if String.eqb x "gas2" then snd (fst d) else x.
Definition apply_store (d : defn) (t : table) (s : string * string * string) : table :=
  set t (interp d (fst (fst s)), interp d (snd (fst s))) (snd d).
Definition apply_def (stores : list (string * string * string)) (t : table) (d : defn) : table :=
  fold_left (apply_store d) stores t.
Definition read_all (stores : list (string * string * string)) (ds : list defn) : table :=
  fold_left (apply_def stores) ds empty.

(* shape the regenerated reader must have: exactly the two orderings, both storing the line's value, nothing else mutates *)
Definition s3_eqb (a b : string * string * string) : bool :=
  String.eqb (fst (fst a)) (fst (fst b)) && String.eqb (snd (fst a)) (snd (fst b)) && String.eqb (snd a) (snd b).
Definition stores_ok (stores : list (string * string * string)) (other : list string) : bool :=
  match stores, other with
  | [a; b], [] => (s3_eqb a ("gas1", "gas2", "d") && s3_eqb b ("gas2", "gas1", "d"))
                  || (s3_eqb a ("gas2", "gas1", "d") && s3_eqb b ("gas1", "gas2", "d"))
  | _, _ => false
  end.

Lemma s3_eqb_eq : forall a b, s3_eqb a b = true -> a = b.
Proof.
  intros [[a1 a2] a3] [[b1 b2] b3] H. unfold s3_eqb in H. simpl in H.
  apply andb_prop in H. destruct H as [H H3]. apply andb_prop in H. destruct H as [H1 H2].
  apply String.eqb_eq in H1, H2, H3. subst. reflexivity.
Qed.

Definition symmetric (t : table) : Prop := forall a b, t (a, b) = t (b, a).

Lemma set_both_symmetric : forall t g1 g2 v, symmetric t ->
  symmetric (set (set t (g1, g2) v) (g2, g1) v) /\ symmetric (set (set t (g2, g1) v) (g1, g2) v).
Proof.
  intros t g1 g2 v S. split; intros a b; unfold set, key_eqb; simpl;
    destruct (String.eqb_spec a g1), (String.eqb_spec b g2), (String.eqb_spec a g2), (String.eqb_spec b g1);
    subst; simpl; try reflexivity; try apply S; try congruence.
Qed.

Lemma apply_def_cases : forall stores other, stores_ok stores other = true ->
  forall t g1 g2 v,
    apply_def stores t (g1, g2, v) = set (set t (g1, g2) v) (g2, g1) v \/
    apply_def stores t (g1, g2, v) = set (set t (g2, g1) v) (g1, g2) v.
Proof.
  intros stores other H t g1 g2 v. unfold stores_ok in H.
  destruct stores as [|a [|b [|c r]]]; try discriminate. destruct other; try discriminate.
  apply orb_prop in H. destruct H as [H | H]; apply andb_prop in H; destruct H as [Ha Hb];
    apply s3_eqb_eq in Ha, Hb; subst a b; [left | right]; reflexivity.
Qed.

Theorem table_symmetric : forall stores other, stores_ok stores other = true ->
  forall ds, symmetric (read_all stores ds).
Proof.
  intros stores other H ds. unfold read_all.
  assert (G : forall ds t, symmetric t -> symmetric (fold_left (apply_def stores) ds t)).
  { induction ds0 as [|[[g1 g2] v] ds0 IH]; intros t S; simpl; [exact S |].
    apply IH. destruct (apply_def_cases stores other H t g1 g2 v) as [E | E]; rewrite E;
      [apply (proj1 (set_both_symmetric t g1 g2 v S)) | apply (proj2 (set_both_symmetric t g1 g2 v S))]. }
  apply G. intros a b. reflexivity.
Qed.

(* the LAST definition of a pair is the one in force, in both orderings *)
Theorem last_definition_wins : forall stores other, stores_ok stores other = true ->
  forall ds g1 g2 v, let t := read_all stores (ds ++ [(g1, g2, v)]) in t (g1, g2) = Some v /\ t (g2, g1) = Some v.
Proof.
  intros stores other H ds g1 g2 v.
  assert (E0 : read_all stores (ds ++ [(g1, g2, v)]) = apply_def stores (read_all stores ds) (g1, g2, v)).
  { unfold read_all. rewrite fold_left_app. reflexivity. }
  cbv zeta. rewrite E0.
  destruct (apply_def_cases stores other H (read_all stores ds) g1 g2 v) as [E | E]; rewrite E; unfold set, key_eqb; simpl;
    rewrite !String.eqb_refl; simpl; split; try reflexivity;
    repeat match goal with |- context[if ?c then _ else _] => destruct c end; reflexivity.
Qed.

Lemma reader_generated_ok : stores_ok bip_reader_stores bip_reader_other_mutations = true.
Proof. vm_compute. reflexivity. Qed.

(* non-vacuity: redefinition in the other ordering *)
Example redefinition_example :
  let t := read_all bip_reader_stores [("H2O(g)", "CO2(g)", 19 # 100); ("CO2(g)", "H2O(g)", 5 # 100)] in
  t ("H2O(g)", "CO2(g)") = Some (5 # 100) /\ t ("CO2(g)", "H2O(g)") = Some (5 # 100).
Proof. vm_compute. split; reflexivity. Qed.
