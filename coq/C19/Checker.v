(* C19 -- executable verified checkers applied to what the implementation REPORTS for a gas phase
   (USER_PUNCH GAS, GAS_P, GAS_VM, PR_P, PR_PHI, SI, TK and SELECTED_OUTPUT -gases with -high_precision; every double is
   transmitted as its exact dyadic rational) together with the critical constants / binary interaction parameters the
   DATABASE TEXT gives (independent parser in props/c19.py).  Independent of the generated files: when a regenerated
   formula no longer proves, these checkers still run and look for a concrete failing input.

   check_eos     : |P_PR(T, V/n, x; Tc, Pc, omega, k_ij) - P| <= 1e-4 |P|            (Peng-Robinson, mixture)
   check_ideal   : |n R T / V - P| <= 1e-4 |P|                                        (no critical constants)
   check_phi     : |exp(ln phi_PR,i) - PR_PHI_i| <= 1e-6 |PR_PHI_i|                   (exact sqrt 2 in the formula)
   check_clamped : the unclamped PR value lies outside (-4.6, 4.44) (or Z <= B)       (legitimately clamped phi)
   check_partial : |x_i P - PR_P_i| <= tol |PR_P_i| ;  check_psum : |sum PR_P_i - P| <= tol |P|
   check_fug     : |PR_PHI_i PR_P_i - 10^SI_i| <= tol 10^SI_i
   check_three_roots : the cubic in V_m at the reported P, T has three real roots      (two-phase region: excluded)
   All by interval arithmetic (Base.IntervalEval, 80 bits). *)
From Coq Require Import Reals ZArith QArith Qreals List Lra Bool.
From IPV Require Import Base.RExpr Base.IntervalEval C19.Spec.
Import ListNotations.
Local Open Scope R_scope.

(* ------------------------------------------------------------------ inputs *)
(* one gas component: reported moles in the gas, and Tc, Pc, omega of the database *)
Record gcomp : Type := mkG { g_n : Q; g_tc : Q; g_pc : Q; g_om : Q }.

(* binary interaction FACTORS (1 - k_ij) as a matrix of rationals; missing entries = 1 *)
Definition kfq (m : list (list Q)) (i j : nat) : Q := nth j (nth i m []) 1%Q.
Definition kfR (m : list (list Q)) (i j : nat) : R := Q2R (kfq m i j).

(* a component as four real expressions: x, a, alpha, b *)
Record cexp : Type := mkCE { e_x : rexpr; e_a : rexpr; e_al : rexpr; e_b : rexpr }.
Definition comp_of (env : nat -> R) (c : cexp) : comp :=
  mkComp (evalR env (e_x c)) (evalR env (e_a c)) (evalR env (e_al c)) (evalR env (e_b c)).

Fixpoint sum_expr (l : list rexpr) : rexpr :=
  match l with [] => Const 0 | e :: r => Add e (sum_expr r) end.

Lemma Q2R_0 : Q2R 0 = 0.
Proof. unfold Q2R. simpl. lra. Qed.
Lemma Q2R_1 : Q2R 1 = 1.
Proof. unfold Q2R. simpl. lra. Qed.
Lemma Q2R_2 : Q2R 2 = 2.
Proof. unfold Q2R. simpl. lra. Qed.
Lemma Q2R_3 : Q2R 3 = 3.
Proof. unfold Q2R. simpl. lra. Qed.

Lemma sum_expr_ok : forall env l, evalR env (sum_expr l) = sumR (map (evalR env) l).
Proof. induction l as [|e l IH]; simpl; [apply Q2R_0 | rewrite IH; reflexivity]. Qed.

(* ------------------------------------------------------------------ mixing rules as expressions *)
Definition bmix_expr (cs : list cexp) : rexpr := sum_expr (map (fun c => Mul (e_x c) (e_b c)) cs).

Definition across_expr (m : list (list Q)) (i j : nat) (ci cj : cexp) : rexpr :=
  Mul (Sqrt (Mul (Mul (Mul (e_a ci) (e_al ci)) (e_a cj)) (e_al cj))) (Const (kfq m i j)).

Fixpoint s2_expr_from (m : list (list Q)) (i : nat) (ci : cexp) (j : nat) (cs : list cexp) : rexpr :=
  match cs with
  | [] => Const 0
  | cj :: r => Add (Mul (e_x cj) (across_expr m i j ci cj)) (s2_expr_from m i ci (S j) r)
  end.
Definition s2_expr (m : list (list Q)) (cs : list cexp) (i : nat) (ci : cexp) : rexpr := s2_expr_from m i ci 0 cs.

Fixpoint amix_expr_from (m : list (list Q)) (all : list cexp) (i : nat) (cs : list cexp) : rexpr :=
  match cs with
  | [] => Const 0
  | ci :: r => Add (Mul (e_x ci) (s2_expr m all i ci)) (amix_expr_from m all (S i) r)
  end.
Definition amix_expr (m : list (list Q)) (cs : list cexp) : rexpr := amix_expr_from m cs 0 cs.

Lemma bmix_expr_ok : forall env cs, evalR env (bmix_expr cs) = b_mix (map (comp_of env) cs).
Proof.
  intros env cs. unfold bmix_expr, b_mix. rewrite sum_expr_ok, !map_map. reflexivity.
Qed.

Lemma s2_expr_from_ok : forall env m i ci cs j,
  evalR env (s2_expr_from m i ci j cs) = s2_from (kfR m) i (comp_of env ci) j (map (comp_of env) cs).
Proof.
  induction cs as [|cj cs IH]; intros j; simpl; [apply Q2R_0 | rewrite IH; reflexivity].
Qed.

Lemma amix_expr_from_ok : forall env m all cs i,
  evalR env (amix_expr_from m all i cs) = a_mix_from (kfR m) (map (comp_of env) all) i (map (comp_of env) cs).
Proof.
  induction cs as [|ci cs IH]; intros i; simpl; [apply Q2R_0 |].
  rewrite IH. unfold s2_expr, s2_of. rewrite s2_expr_from_ok. reflexivity.
Qed.

Lemma amix_expr_ok : forall env m cs, evalR env (amix_expr m cs) = a_mix (kfR m) (map (comp_of env) cs).
Proof. intros. unfold amix_expr, a_mix. apply amix_expr_from_ok. Qed.

(* ------------------------------------------------------------------ components from the data *)
Definition cQ (q : Q) : rexpr := Const q.
Definition ntot_expr (cs : list gcomp) : rexpr := sum_expr (map (fun c => cQ (g_n c)) cs).
Definition ntot_R (cs : list gcomp) : R := sumR (map (fun c => Q2R (g_n c)) cs).

Definition a_expr (Rg : Q) (c : gcomp) : rexpr :=
  Div (Mul (Mul (Const (457235 # 1000000)) (Mul (cQ Rg) (cQ (g_tc c)))) (Mul (cQ Rg) (cQ (g_tc c)))) (cQ (g_pc c)).
Definition b_expr (Rg : Q) (c : gcomp) : rexpr :=
  Div (Mul (Mul (Const (77796 # 1000000)) (cQ Rg)) (cQ (g_tc c))) (cQ (g_pc c)).
Definition kappa_expr (c : gcomp) : rexpr :=
  Sub (Add (Const (37464 # 100000)) (Mul (Const (154226 # 100000)) (cQ (g_om c))))
      (Mul (Const (26992 # 100000)) (Mul (cQ (g_om c)) (cQ (g_om c)))).
Definition alpha_expr (T : Q) (c : gcomp) : rexpr :=
  let f := Add (Const 1) (Mul (kappa_expr c) (Sub (Const 1) (Sqrt (Div (cQ T) (cQ (g_tc c)))))) in Mul f f.

Definition cexp_of (Rg T : Q) (cs : list gcomp) (c : gcomp) : cexp :=
  mkCE (Div (cQ (g_n c)) (ntot_expr cs)) (a_expr Rg c) (alpha_expr T c) (b_expr Rg c).

Definition comp_R (Rg T : Q) (cs : list gcomp) (c : gcomp) : comp :=
  mkComp (Q2R (g_n c) / ntot_R cs) (pr_a (Q2R Rg) (Q2R (g_tc c)) (Q2R (g_pc c)))
         (pr_alpha (Q2R T) (Q2R (g_tc c)) (Q2R (g_om c))) (pr_b (Q2R Rg) (Q2R (g_tc c)) (Q2R (g_pc c))).

Lemma ntot_expr_ok : forall env cs, evalR env (ntot_expr cs) = ntot_R cs.
Proof. intros. unfold ntot_expr, ntot_R. rewrite sum_expr_ok, map_map. reflexivity. Qed.

Lemma comp_of_cexp_of : forall env Rg T cs c, comp_of env (cexp_of Rg T cs c) = comp_R Rg T cs c.
Proof.
  intros env Rg T cs c. unfold comp_of, cexp_of, comp_R. cbn [e_x e_a e_al e_b].
  assert (E1 : evalR env (Div (cQ (g_n c)) (ntot_expr cs)) = Q2R (g_n c) / ntot_R cs)
    by (cbn [evalR]; rewrite ntot_expr_ok; reflexivity).
  assert (E2 : evalR env (alpha_expr T c) = pr_alpha (Q2R T) (Q2R (g_tc c)) (Q2R (g_om c)))
    by (unfold alpha_expr, pr_alpha, pr_kappa, kappa_expr, cQ; cbn [evalR]; rewrite Q2R_1; reflexivity).
  rewrite E1, E2. reflexivity.
Qed.

Definition comps_R (Rg T : Q) (cs : list gcomp) : list comp := map (comp_R Rg T cs) cs.
Definition cexps (Rg T : Q) (cs : list gcomp) : list cexp := map (cexp_of Rg T cs) cs.

Lemma comps_of_cexps : forall env Rg T cs, map (comp_of env) (cexps Rg T cs) = comps_R Rg T cs.
Proof.
  intros. unfold cexps, comps_R. rewrite map_map. apply map_ext. intros c. apply comp_of_cexp_of.
Qed.

(* ------------------------------------------------------------------ the quantities of the equation of state *)
Definition RT_expr (Rg T : Q) : rexpr := Mul (cQ Rg) (cQ T).
Definition Vm_expr (V : Q) (cs : list gcomp) : rexpr := Div (cQ V) (ntot_expr cs).

Definition P_eos_expr (Rg T V : Q) (m : list (list Q)) (cs : list gcomp) : rexpr :=
  let RT := RT_expr Rg T in let Vm := Vm_expr V cs in
  let b := bmix_expr (cexps Rg T cs) in let a := amix_expr m (cexps Rg T cs) in
  Sub (Div RT (Sub Vm b)) (Div a (Sub (Add (Mul Vm Vm) (Mul (Mul (Const 2) b) Vm)) (Mul b b))).

(* the Peng-Robinson pressure of the reported state *)
Definition P_eos_R (Rg T V : Q) (m : list (list Q)) (cs : list gcomp) : R :=
  pr_pressure (Q2R Rg * Q2R T) (Q2R V / ntot_R cs) (b_mix (comps_R Rg T cs)) (a_mix (kfR m) (comps_R Rg T cs)).

Lemma P_eos_expr_ok : forall env Rg T V m cs, evalR env (P_eos_expr Rg T V m cs) = P_eos_R Rg T V m cs.
Proof.
  intros. unfold P_eos_expr, P_eos_R, pr_pressure, RT_expr, Vm_expr, cQ. cbn [evalR].
  rewrite bmix_expr_ok, amix_expr_ok, comps_of_cexps, ntot_expr_ok, Q2R_2. reflexivity.
Qed.

Definition tol_eos : Q := 1 # 10000.
Definition tol_phi : Q := 1 # 1000000.

Definition check_eos (Rg T P V : Q) (m : list (list Q)) (cs : list gcomp) : bool :=
  check_rel_within_Q prec80 [] (P_eos_expr Rg T V m cs) (cQ P) tol_eos.

Theorem check_eos_sound : forall Rg T P V m cs, check_eos Rg T P V m cs = true ->
  Rabs (P_eos_R Rg T V m cs - Q2R P) <= / 10000 * Rabs (Q2R P).
Proof.
  intros Rg T P V m cs H. apply check_rel_within_Q_sound in H. rewrite P_eos_expr_ok in H.
  unfold cQ in H. cbn [evalR] in H. replace (Q2R tol_eos) with (/ 10000) in H by (unfold tol_eos; rewrite Q2R_make; lra).
  exact H.
Qed.

(* the two admitted values of the gas constant: the code's R_LITER_ATM and CODATA R / 101.325 rounded *)
Definition R_code : Q := 820597 # 10000000.
Definition R_codata : Q := 820574 # 10000000.

Definition check_eos_any (T P V : Q) (m : list (list Q)) (cs : list gcomp) : bool :=
  check_eos R_code T P V m cs || check_eos R_codata T P V m cs.

Theorem check_eos_any_sound : forall T P V m cs, check_eos_any T P V m cs = true ->
  exists Rg, (Rg = R_code \/ Rg = R_codata) /\ Rabs (P_eos_R Rg T V m cs - Q2R P) <= / 10000 * Rabs (Q2R P).
Proof.
  intros T P V m cs H. unfold check_eos_any in H. apply orb_prop in H. destruct H as [H | H].
  - exists R_code. split; [left; reflexivity | apply check_eos_sound; exact H].
  - exists R_codata. split; [right; reflexivity | apply check_eos_sound; exact H].
Qed.

(* ideal gas *)
Definition P_ideal_expr (Rg T V : Q) (cs : list gcomp) : rexpr :=
  Div (Mul (Mul (ntot_expr cs) (cQ Rg)) (cQ T)) (cQ V).
Definition check_ideal (Rg T P V : Q) (cs : list gcomp) : bool :=
  check_rel_within_Q prec80 [] (P_ideal_expr Rg T V cs) (cQ P) tol_eos.
Theorem check_ideal_sound : forall Rg T P V cs, check_ideal Rg T P V cs = true ->
  Rabs (ideal_pressure (Q2R Rg) (Q2R T) (Q2R V) (ntot_R cs) - Q2R P) <= / 10000 * Rabs (Q2R P).
Proof.
  intros Rg T P V cs H. apply check_rel_within_Q_sound in H. unfold P_ideal_expr, cQ in H. cbn [evalR] in H.
  rewrite ntot_expr_ok in H. replace (Q2R tol_eos) with (/ 10000) in H by (unfold tol_eos; rewrite Q2R_make; lra).
  exact H.
Qed.
Definition check_ideal_any (T P V : Q) (cs : list gcomp) : bool :=
  check_ideal R_code T P V cs || check_ideal R_codata T P V cs.
Theorem check_ideal_any_sound : forall T P V cs, check_ideal_any T P V cs = true ->
  exists Rg, (Rg = R_code \/ Rg = R_codata) /\
    Rabs (ideal_pressure (Q2R Rg) (Q2R T) (Q2R V) (ntot_R cs) - Q2R P) <= / 10000 * Rabs (Q2R P).
Proof.
  intros T P V cs H. unfold check_ideal_any in H. apply orb_prop in H. destruct H as [H | H].
  - exists R_code. split; [left; reflexivity | apply check_ideal_sound; exact H].
  - exists R_codata. split; [right; reflexivity | apply check_ideal_sound; exact H].
Qed.

(* ------------------------------------------------------------------ fugacity coefficient of component k *)
Definition sqrt2 : rexpr := Sqrt (Const 2).

Definition lnphi_expr (Rg T P V : Q) (m : list (list Q)) (cs : list gcomp) (k : nat) (ck : gcomp) : rexpr :=
  let RT := RT_expr Rg T in let Vm := Vm_expr V cs in
  let ces := cexps Rg T cs in
  let b := bmix_expr ces in let a := amix_expr m ces in
  let Z := Div (Mul (cQ P) Vm) RT in
  let A := Div (Mul a (cQ P)) (Mul RT RT) in
  let B := Div (Mul b (cQ P)) RT in
  let Br := Div (b_expr Rg ck) b in
  let s2 := s2_expr m ces k (cexp_of Rg T cs ck) in
  Sub (Sub (Mul Br (Sub Z (Const 1))) (Ln (Sub Z B)))
      (Mul (Mul (Div A (Mul (Mul (Const 2) sqrt2) B)) (Sub (Div (Mul (Const 2) s2) a) Br))
           (Ln (Div (Add Z (Mul (Add (Const 1) sqrt2) B)) (Sub Z (Mul (Sub sqrt2 (Const 1)) B))))).

Definition lnphi_R (Rg T P V : Q) (m : list (list Q)) (cs : list gcomp) (k : nat) (ck : gcomp) : R :=
  let RT := Q2R Rg * Q2R T in let Vm := Q2R V / ntot_R cs in
  let cR := comps_R Rg T cs in
  let b := b_mix cR in let a := a_mix (kfR m) cR in
  ln_phi_PR (Q2R P * Vm / RT) (a * Q2R P / (RT * RT)) (b * Q2R P / RT)
            (pr_b (Q2R Rg) (Q2R (g_tc ck)) (Q2R (g_pc ck)) / b)
            (s2_of (kfR m) cR k (comp_R Rg T cs ck)) a.

Lemma lnphi_expr_ok : forall env Rg T P V m cs k ck,
  evalR env (lnphi_expr Rg T P V m cs k ck) = lnphi_R Rg T P V m cs k ck.
Proof.
  intros. unfold lnphi_expr, lnphi_R, ln_phi_PR, ln_phi_gen, RT_expr, Vm_expr, sqrt2, s2_expr, s2_of, cQ. cbn [evalR].
  rewrite s2_expr_from_ok, bmix_expr_ok, amix_expr_ok, comps_of_cexps, comp_of_cexp_of, ntot_expr_ok, Q2R_2, Q2R_1.
  reflexivity.
Qed.

Definition check_phi (Rg T P V : Q) (m : list (list Q)) (cs : list gcomp) (k : nat) (ck : gcomp) (phi : Q) : bool :=
  check_rel_within_Q prec80 [] (Exp (lnphi_expr Rg T P V m cs k ck)) (cQ phi) tol_phi.

Theorem check_phi_sound : forall Rg T P V m cs k ck phi, check_phi Rg T P V m cs k ck phi = true ->
  Rabs (exp (lnphi_R Rg T P V m cs k ck) - Q2R phi) <= / 1000000 * Rabs (Q2R phi).
Proof.
  intros Rg T P V m cs k ck phi H. apply check_rel_within_Q_sound in H. unfold cQ in H. cbn [evalR] in H.
  rewrite lnphi_expr_ok in H. replace (Q2R tol_phi) with (/ 1000000) in H by (unfold tol_phi; rewrite Q2R_make; lra).
  exact H.
Qed.

(* phi "matches the equation of state" at the reported P, T, x: there is a molar volume (witness V, found by an untrusted
   Newton iteration next to the reported V) that satisfies the equation of state at the reported pressure to tolw, and the
   reported phi is the Peng-Robinson value there.  (The engine's total pressure and mole numbers can be one iteration apart;
   recomputing phi from the reported V/n directly would amplify that difference by |b_i/b - 1|.) *)
Definition check_eos_tol (tolw : Q) (Rg T P V : Q) (m : list (list Q)) (cs : list gcomp) : bool :=
  check_rel_within_Q prec80 [] (P_eos_expr Rg T V m cs) (cQ P) tolw.
Theorem check_eos_tol_sound : forall tolw Rg T P V m cs, check_eos_tol tolw Rg T P V m cs = true ->
  Rabs (P_eos_R Rg T V m cs - Q2R P) <= Q2R tolw * Rabs (Q2R P).
Proof.
  intros tolw Rg T P V m cs H. apply check_rel_within_Q_sound in H. rewrite P_eos_expr_ok in H.
  unfold cQ in H. cbn [evalR] in H. exact H.
Qed.
Definition check_phi_at (tolw : Q) (Rg T P Vw : Q) (m : list (list Q)) (cs : list gcomp) (k : nat) (ck : gcomp) (phi : Q) : bool :=
  check_eos_tol tolw Rg T P Vw m cs && check_phi Rg T P Vw m cs k ck phi.
Theorem check_phi_at_sound : forall tolw Rg T P Vw m cs k ck phi, check_phi_at tolw Rg T P Vw m cs k ck phi = true ->
  Rabs (P_eos_R Rg T Vw m cs - Q2R P) <= Q2R tolw * Rabs (Q2R P) /\
  Rabs (exp (lnphi_R Rg T P Vw m cs k ck) - Q2R phi) <= / 1000000 * Rabs (Q2R phi).
Proof.
  intros tolw Rg T P Vw m cs k ck phi H. unfold check_phi_at in H. apply andb_prop in H. destruct H as [H1 H2].
  split; [apply check_eos_tol_sound; exact H1 | apply check_phi_sound; exact H2].
Qed.

(* a reported phi that sits at a clamp value is legitimate when the unclamped value is beyond it *)
Definition check_clamped_hi (Rg T P V : Q) (m : list (list Q)) (cs : list gcomp) (k : nat) (ck : gcomp) : bool :=
  check_le0_Q prec80 [] (Sub (Const (444 # 100)) (lnphi_expr Rg T P V m cs k ck)).
Definition check_clamped_lo (Rg T P V : Q) (m : list (list Q)) (cs : list gcomp) (k : nat) (ck : gcomp) : bool :=
  check_le0_Q prec80 [] (Sub (lnphi_expr Rg T P V m cs k ck) (Neg (Const (46 # 10)))).
Theorem check_clamped_sound : forall Rg T P V m cs k ck,
  (check_clamped_hi Rg T P V m cs k ck = true -> 4.44 <= lnphi_R Rg T P V m cs k ck) /\
  (check_clamped_lo Rg T P V m cs k ck = true -> lnphi_R Rg T P V m cs k ck <= -4.6).
Proof.
  intros. split; intros H; apply check_le0_Q_sound in H; destruct H as [_ H]; cbn [evalR] in H;
    rewrite lnphi_expr_ok in H; rewrite Q2R_make in H; lra.
Qed.

(* ------------------------------------------------------------------ partial pressures, fugacity *)
Definition check_partial (tol : Q) (P : Q) (cs : list gcomp) (ck : gcomp) (p : Q) : bool :=
  check_rel_within_Q prec80 [] (Mul (Div (cQ (g_n ck)) (ntot_expr cs)) (cQ P)) (cQ p) tol.
Theorem check_partial_sound : forall tol P cs ck p, check_partial tol P cs ck p = true ->
  Rabs (Q2R (g_n ck) / ntot_R cs * Q2R P - Q2R p) <= Q2R tol * Rabs (Q2R p).
Proof.
  intros tol P cs ck p H. apply check_rel_within_Q_sound in H. unfold cQ in H. cbn [evalR] in H.
  rewrite ntot_expr_ok in H. exact H.
Qed.

Definition check_psum (tol : Q) (P : Q) (ps : list Q) : bool :=
  check_rel_within_Q prec80 [] (sum_expr (map cQ ps)) (cQ P) tol.
Theorem check_psum_sound : forall tol P ps, check_psum tol P ps = true ->
  Rabs (sumR (map Q2R ps) - Q2R P) <= Q2R tol * Rabs (Q2R P).
Proof.
  intros tol P ps H. apply check_rel_within_Q_sound in H. rewrite sum_expr_ok, map_map in H.
  unfold cQ in H. cbn [evalR] in H. exact H.
Qed.

(* phi * p = 10^SI *)
Definition check_fug (tol : Q) (phi p si : Q) : bool :=
  check_rel_within_Q prec80 [] (Mul (cQ phi) (cQ p)) (Pow (Const 10) (cQ si)) tol.
Lemma Q2R_10 : Q2R 10 = 10.
Proof. unfold Q2R. simpl. lra. Qed.
Theorem check_fug_sound : forall tol phi p si, check_fug tol phi p si = true ->
  Rabs (Q2R phi * Q2R p - Rpower 10 (Q2R si)) <= Q2R tol * Rabs (Rpower 10 (Q2R si)).
Proof.
  intros tol phi p si H. apply check_rel_within_Q_sound in H. unfold cQ in H. cbn [evalR] in H.
  rewrite Q2R_10 in H. exact H.
Qed.

(* the same with an absolute floor: |phi p - 10^SI| <= tol * P   (trace components: partial fugacity below 1e-6 of the total) *)
Definition check_fug_floor (tol : Q) (phi p si P : Q) : bool :=
  check_le0_Q prec80 [] (Sub (Abs (Sub (Mul (cQ phi) (cQ p)) (Pow (Const 10) (cQ si)))) (Mul (cQ tol) (cQ P))).
Theorem check_fug_floor_sound : forall tol phi p si P, check_fug_floor tol phi p si P = true ->
  Rabs (Q2R phi * Q2R p - Rpower 10 (Q2R si)) <= Q2R tol * Q2R P.
Proof.
  intros tol phi p si P H. apply check_le0_Q_sound in H. destruct H as [_ H]. unfold cQ in H. cbn [evalR] in H.
  rewrite Q2R_10 in H. lra.
Qed.
Definition check_partial_floor (tol : Q) (P : Q) (cs : list gcomp) (ck : gcomp) (p : Q) : bool :=
  check_le0_Q prec80 [] (Sub (Abs (Sub (Mul (Div (cQ (g_n ck)) (ntot_expr cs)) (cQ P)) (cQ p))) (Mul (cQ tol) (cQ P))).
Theorem check_partial_floor_sound : forall tol P cs ck p, check_partial_floor tol P cs ck p = true ->
  Rabs (Q2R (g_n ck) / ntot_R cs * Q2R P - Q2R p) <= Q2R tol * Q2R P.
Proof.
  intros tol P cs ck p H. apply check_le0_Q_sound in H. destruct H as [_ H]. unfold cQ in H. cbn [evalR] in H.
  rewrite ntot_expr_ok in H. lra.
Qed.

(* sum_i 10^SI_i / phi_i  >= P (1 - tol): the fixed pressure is reached by the equilibrium partial pressures *)
Definition peq_sum_expr (l : list (Q * Q)) : rexpr :=
  sum_expr (map (fun t => Div (Pow (Const 10) (cQ (fst t))) (cQ (snd t))) l).
Definition peq_sum_R (l : list (Q * Q)) : R := sumR (map (fun t => Rpower 10 (Q2R (fst t)) / Q2R (snd t)) l).
Lemma peq_sum_expr_ok : forall env l, evalR env (peq_sum_expr l) = peq_sum_R l.
Proof.
  intros. unfold peq_sum_expr, peq_sum_R. rewrite sum_expr_ok, map_map. apply f_equal. apply map_ext.
  intros t. unfold cQ. cbn [evalR]. rewrite Q2R_10. reflexivity.
Qed.
Definition check_reaches (tol : Q) (P : Q) (l : list (Q * Q)) : bool :=
  check_le0_Q prec80 [] (Sub (Mul (cQ P) (Sub (Const 1) (cQ tol))) (peq_sum_expr l)).
Theorem check_reaches_sound : forall tol P l, check_reaches tol P l = true ->
  Q2R P * (1 - Q2R tol) <= peq_sum_R l.
Proof.
  intros tol P l H. apply check_le0_Q_sound in H. destruct H as [_ H]. unfold cQ in H. cbn [evalR] in H.
  rewrite peq_sum_expr_ok, Q2R_1 in H. lra.
Qed.
(* ... and the converse used when the gas phase is absent: sum_i 10^SI_i / phi_i <= P (1 + tol) *)
Definition check_below (tol : Q) (P : Q) (l : list (Q * Q)) : bool :=
  check_le0_Q prec80 [] (Sub (peq_sum_expr l) (Mul (cQ P) (Add (Const 1) (cQ tol)))).
Theorem check_below_sound : forall tol P l, check_below tol P l = true ->
  peq_sum_R l <= Q2R P * (1 + Q2R tol).
Proof.
  intros tol P l H. apply check_le0_Q_sound in H. destruct H as [_ H]. unfold cQ in H. cbn [evalR] in H.
  rewrite peq_sum_expr_ok, Q2R_1 in H. lra.
Qed.

(* ------------------------------------------------------------------ two-phase region: three real roots of the cubic *)
(* the pressure at which the cubic is examined is an expression: the reported pressure, or the Peng-Robinson pressure of the
   reported molar volume (the engine replaces the latter by the spinodal pressure inside the two-phase region) *)
Definition disc_expr_g (Rg T : Q) (Pe : rexpr) (m : list (list Q)) (cs : list gcomp) : rexpr :=
  let RT := RT_expr Rg T in
  let b := bmix_expr (cexps Rg T cs) in let a := amix_expr m (cexps Rg T cs) in
  let r1 := Sub b (Div RT Pe) in
  let r2 := Add (Mul (Neg (Const 3)) (Mul b b)) (Div (Sub a (Mul (Mul (Const 2) RT) b)) Pe) in
  let r3 := Add (Mul (Mul b b) b) (Div (Sub (Mul RT (Mul b b)) (Mul a b)) Pe) in
  Sub (Sub (Add (Sub (Mul (Mul (Mul (Const 18) r1) r2) r3) (Mul (Mul (Const 4) (Mul (Mul r1 r1) r1)) r3))
                (Mul (Mul (Mul r1 r1) r2) r2))
           (Mul (Const 4) (Mul (Mul r2 r2) r2)))
      (Mul (Const 27) (Mul r3 r3)).

Definition disc_Rg (Rg T : Q) (P : R) (m : list (list Q)) (cs : list gcomp) : R :=
  let RT := Q2R Rg * Q2R T in
  let b := b_mix (comps_R Rg T cs) in let a := a_mix (kfR m) (comps_R Rg T cs) in
  cubic_disc (pr_r1 RT P b a) (pr_r2 RT P b a) (pr_r3 RT P b a).
Definition disc_R (Rg T P : Q) (m : list (list Q)) (cs : list gcomp) : R := disc_Rg Rg T (Q2R P) m cs.

Lemma disc_expr_g_ok : forall env Rg T Pe m cs, evalR env (disc_expr_g Rg T Pe m cs) = disc_Rg Rg T (evalR env Pe) m cs.
Proof.
  intros. unfold disc_expr_g, disc_Rg, cubic_disc, pr_r1, pr_r2, pr_r3, RT_expr, cQ. cbn [evalR].
  rewrite bmix_expr_ok, amix_expr_ok, comps_of_cexps, Q2R_2, Q2R_3.
  replace (Q2R 18) with 18 by (unfold Q2R; simpl; lra). replace (Q2R 4) with 4 by (unfold Q2R; simpl; lra).
  replace (Q2R 27) with 27 by (unfold Q2R; simpl; lra). reflexivity.
Qed.

Definition check_three_roots (Rg T P : Q) (m : list (list Q)) (cs : list gcomp) : bool :=
  check_lt0 prec80 [] (Neg (disc_expr_g Rg T (cQ P) m cs)).
Theorem check_three_roots_sound : forall Rg T P m cs, check_three_roots Rg T P m cs = true ->
  0 < disc_R Rg T P m cs.
Proof.
  intros Rg T P m cs H. unfold check_three_roots in H.
  apply (check_lt0_sound prec80 [] (env_of_Q [])) in H; [| apply (ienv_of_Q_contained prec80 [])].
  destruct H as [_ H]. cbn [evalR] in H. rewrite disc_expr_g_ok in H. unfold disc_R. unfold cQ in H. cbn [evalR] in H. lra.
Qed.

(* the same at the Peng-Robinson pressure of the reported volume, or that pressure is not even positive *)
Definition check_three_roots_at_V (Rg T V : Q) (m : list (list Q)) (cs : list gcomp) : bool :=
  check_lt0 prec80 [] (Neg (disc_expr_g Rg T (P_eos_expr Rg T V m cs) m cs)).
Theorem check_three_roots_at_V_sound : forall Rg T V m cs, check_three_roots_at_V Rg T V m cs = true ->
  0 < disc_Rg Rg T (P_eos_R Rg T V m cs) m cs.
Proof.
  intros Rg T V m cs H. unfold check_three_roots_at_V in H.
  apply (check_lt0_sound prec80 [] (env_of_Q [])) in H; [| apply (ienv_of_Q_contained prec80 [])].
  destruct H as [_ H]. cbn [evalR] in H. rewrite disc_expr_g_ok, P_eos_expr_ok in H. lra.
Qed.
Definition check_nonpositive_pressure_at_V (Rg T V : Q) (m : list (list Q)) (cs : list gcomp) : bool :=
  check_le0_Q prec80 [] (P_eos_expr Rg T V m cs).
Theorem check_nonpositive_pressure_at_V_sound : forall Rg T V m cs, check_nonpositive_pressure_at_V Rg T V m cs = true ->
  P_eos_R Rg T V m cs <= 0.
Proof.
  intros Rg T V m cs H. apply check_le0_Q_sound in H. destruct H as [_ H]. rewrite P_eos_expr_ok in H. exact H.
Qed.
