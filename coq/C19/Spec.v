(* C19 — textbook definitions: Peng-Robinson equation of state (Peng & Robinson 1976), van der Waals one-fluid
   mixing rules with binary interaction factors, fugacity coefficient of a component in a mixture, ideal gas.
   Everything over Coq's real numbers; nothing here depends on the generated files. *)
From Coq Require Import Reals List Lra.
Import ListNotations.
Local Open Scope R_scope.

(* pure-component constants:  a = 0.457235 (R Tc)^2 / Pc,  b = 0.077796 R Tc / Pc,
   alpha = (1 + kappa (1 - sqrt(T/Tc)))^2,  kappa = 0.37464 + 1.54226 w - 0.26992 w^2 *)
Definition pr_a (Rg Tc Pc : R) : R := 0.457235 * (Rg * Tc) * (Rg * Tc) / Pc.
Definition pr_b (Rg Tc Pc : R) : R := 0.077796 * Rg * Tc / Pc.
Definition pr_kappa (w : R) : R := 0.37464 + 1.54226 * w - 0.26992 * (w * w).
Definition pr_alpha (T Tc w : R) : R :=
  (1 + pr_kappa w * (1 - sqrt (T / Tc))) * (1 + pr_kappa w * (1 - sqrt (T / Tc))).

(* P(V_m) with RT = R*T, mixture co-volume b and attraction a (already multiplied by alpha) *)
Definition pr_pressure (RT V b a : R) : R := RT / (V - b) - a / (V * V + 2 * b * V - b * b).

(* the cubic in V_m obtained by clearing denominators and dividing by P *)
Definition pr_cubic (RT P b a V : R) : R :=
  V * V * V + (b - RT / P) * (V * V) + (- 3 * (b * b) + (a - 2 * RT * b) / P) * V
  + (b * b * b + (RT * (b * b) - a * b) / P).

Definition pr_r1 (RT P b a : R) : R := b - RT / P.
Definition pr_r2 (RT P b a : R) : R := - 3 * (b * b) + (a - 2 * RT * b) / P.
Definition pr_r3 (RT P b a : R) : R := b * b * b + (RT * (b * b) - a * b) / P.
Lemma pr_cubic_coeffs : forall RT P b a V,
  pr_cubic RT P b a V = V * V * V + pr_r1 RT P b a * (V * V) + pr_r2 RT P b a * V + pr_r3 RT P b a.
Proof. intros. unfold pr_cubic, pr_r1, pr_r2, pr_r3. ring. Qed.

(* discriminant of  x^3 + r1 x^2 + r2 x + r3 : three distinct real roots iff > 0 *)
Definition cubic_disc (r1 r2 r3 : R) : R :=
  18 * r1 * r2 * r3 - 4 * (r1 * r1 * r1) * r3 + r1 * r1 * r2 * r2 - 4 * (r2 * r2 * r2) - 27 * (r3 * r3).

(* fugacity coefficient of component i:  Z = P V/(RT), A = a P/(RT)^2, B = b P/(RT), Br = b_i/b,
   s2 = sum_j x_j a_ij.  c1 c2 c3 stand for 2 sqrt 2, 1 + sqrt 2, sqrt 2 - 1 *)
Definition ln_phi_gen (c1 c2 c3 Z A B Br s2 a : R) : R :=
  Br * (Z - 1) - ln (Z - B) - A / (c1 * B) * (2 * s2 / a - Br) * ln ((Z + c2 * B) / (Z - c3 * B)).
Definition ln_phi_PR (Z A B Br s2 a : R) : R :=
  ln_phi_gen (2 * sqrt 2) (1 + sqrt 2) (sqrt 2 - 1) Z A B Br s2 a.

(* ideal gas *)
Definition ideal_pressure (Rg T V n : R) : R := n * Rg * T / V.

(* the gas constant in L atm / (K mol): 8.314462618 J/(K mol) / 101.325 J/(L atm) *)
Definition R_gas : R := 8.314462618 / 101.325.

(* ---- mixtures as lists ---- *)
Fixpoint sumR (l : list R) : R := match l with [] => 0 | x :: r => x + sumR r end.

Lemma sumR_app : forall a b, sumR (a ++ b) = sumR a + sumR b.
Proof. induction a as [|x a IH]; intros b; simpl; [lra | rewrite IH; lra]. Qed.

Lemma sumR_map_mul_r : forall (l : list R) c, sumR (map (fun x => x * c) l) = sumR l * c.
Proof. induction l as [|x l IH]; intros c; simpl; [lra | rewrite IH; lra]. Qed.

Lemma sumR_map_div : forall (l : list R) c, sumR (map (fun x => x / c) l) = sumR l / c.
Proof. intros l c. unfold Rdiv. apply sumR_map_mul_r. Qed.

(* mole fractions and partial pressures of a list of mole numbers *)
Definition fractions (ns : list R) : list R := map (fun n => n / sumR ns) ns.
Definition partials (ns : list R) (P : R) : list R := map (fun x => x * P) (fractions ns).

(* a component: mole fraction, a_i, alpha_i, b_i;  kf i j = 1 - k_ij (binary interaction factor) *)
Record comp : Type := mkComp { c_x : R; c_a : R; c_al : R; c_b : R }.
Definition b_mix (cs : list comp) : R := sumR (map (fun c => c_x c * c_b c) cs).
Definition a_cross (kf : nat -> nat -> R) (i j : nat) (ci cj : comp) : R :=
  sqrt (c_a ci * c_al ci * c_a cj * c_al cj) * kf i j.
(* s2_i = sum_j x_j a_ij *)
Fixpoint s2_from (kf : nat -> nat -> R) (i : nat) (ci : comp) (j : nat) (cs : list comp) : R :=
  match cs with
  | [] => 0
  | cj :: r => c_x cj * a_cross kf i j ci cj + s2_from kf i ci (S j) r
  end.
Definition s2_of (kf : nat -> nat -> R) (cs : list comp) (i : nat) (ci : comp) : R := s2_from kf i ci 0 cs.
(* a_mix = sum_i sum_j x_i x_j a_ij *)
Fixpoint a_mix_from (kf : nat -> nat -> R) (all : list comp) (i : nat) (cs : list comp) : R :=
  match cs with
  | [] => 0
  | ci :: r => c_x ci * s2_of kf all i ci + a_mix_from kf all (S i) r
  end.
Definition a_mix (kf : nat -> nat -> R) (cs : list comp) : R := a_mix_from kf cs 0 cs.
