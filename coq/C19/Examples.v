(* C19 -- non-vacuity: the hypotheses of the theorems are satisfiable and the checkers accept a real reported state. *)
From Coq Require Import Reals QArith Qreals List String Lra.
From IPV Require Import Base.RExpr Base.IntervalEval C19.BExpr C19.Spec C19.PRProofs C19.Cardano C19.Mix C19.Checker Gen.Gen_C19_gases.
Import ListNotations.
Local Open Scope R_scope.

(* the cube-root oracle of Cardano.v exists: with one3 = 1/3, Rpower x (1/3) is a real cube root on positive arguments *)
Example cube_root_oracle_exists :
  exists (cr : R -> R) (one3 : R), (forall x, cr x * cr x * cr x = x) /\ (forall x, 0 < x -> Rpower x one3 = cr x).
Proof.
  set (pc := fun x : R => Rpower x (1 / 3)).
  assert (PC : forall x, 0 < x -> pc x * pc x * pc x = x).
  { intros x Hx. unfold pc. rewrite <- !Rpower_plus. replace (1 / 3 + 1 / 3 + 1 / 3) with 1 by field. apply Rpower_1. exact Hx. }
  exists (fun x => match Rlt_dec 0 x with
                   | left _ => pc x
                   | right _ => match Rlt_dec x 0 with left _ => - pc (- x) | right _ => 0 end
                   end), (1 / 3).
  split.
  - intros x. destruct (Rlt_dec 0 x) as [H | H]; [apply PC; exact H |].
    destruct (Rlt_dec x 0) as [H' | H'].
    + assert (E : pc (- x) * pc (- x) * pc (- x) = - x) by (apply PC; lra).
      replace (- pc (- x) * - pc (- x) * - pc (- x)) with (- (pc (- x) * pc (- x) * pc (- x))) by ring. rewrite E. ring.
    + assert (x = 0) by lra. subst x. ring.
  - intros x Hx. destruct (Rlt_dec 0 x) as [H | H]; [reflexivity | contradiction].
Qed.

(* a state reported by the unchanged implementation (phreeqc.dat, fixed volume 1 L, 50 C, CO2/CH4/N2/H2O, 36.4 atm):
   accepted by the equation-of-state checker and by the fugacity-coefficient checker *)
Definition ex_cs : list gcomp :=
  [ mkG (9282942493047379 # 10000000000000000) (3042 # 10) (7286 # 100) (225 # 1000);
    mkG (4098363558464671 # 10000000000000000) (1906 # 10) (454 # 10) (8 # 1000);
    mkG (19157492958947128 # 100000000000000000) (1262 # 10) (335 # 10) (39 # 1000);
    mkG (6505518761878425 # 1000000000000000000) (6473 # 10) (2176 # 10) (344 # 1000) ].
Definition ex_kf : list (list Q) :=
  [ [1; 1; 1; 81 # 100]; [1; 1; 1; 51 # 100]; [1; 1; 1; 51 # 100]; [81 # 100; 51 # 100; 51 # 100; 1] ]%Q.
Example checker_accepts_reported_state :
  check_eos_any (32315 # 100) (36430854393134716 # 1000000000000000) 1 ex_kf ex_cs = true /\
  check_phi R_code (32315 # 100) (36430854393134716 # 1000000000000000) 1 ex_kf ex_cs 0
            (mkG (9282942493047379 # 10000000000000000) (3042 # 10) (7286 # 100) (225 # 1000))
            (8549374645014243 # 10000000000000000) = true /\
  check_fug (1 # 10000) (8549374645014243 # 10000000000000000) (22014262007358028 # 1000000000000000)
            (12746384798804122 # 10000000000000000) = true.
Proof. split; [| split]; vm_compute; reflexivity. Qed.

(* ... and rejects a wrong one (the checker is not trivially true) *)
Example checker_rejects_wrong_pressure :
  check_eos_any (32315 # 100) (37 # 1) 1 ex_kf ex_cs = false.
Proof. vm_compute. reflexivity. Qed.

(* the clamp and the existence guard take both branches *)
Example clamp_examples :
  evalC (env_of [5]) p_lnphi_clamp (evalR (env_of [5]) (Const (111 # 25))) /\
  evalC (env_of [1]) p_lnphi_clamp 1.
Proof.
  unfold p_lnphi_clamp. split.
  - apply evalC_T; [cbn [evalB evalR env_of nth]; rewrite Q2R_make; lra | apply evalC_E].
  - apply evalC_F; [cbn [evalB evalR env_of nth]; rewrite Q2R_make; lra |].
    apply evalC_F; [cbn [evalB evalR env_of nth]; rewrite Q2R_make; lra |].
    apply (evalC_E (env_of [1]) (Var 0)).
Qed.

Example existence_guard_examples :
  evalB (env_of [2; 1; 0; 1 / 10]) mb_gas_in_guard /\ ~ evalB (env_of [1; 1; 0; 1 / 10]) mb_gas_in_guard.
Proof.
  split; [apply (proj2 (mb_gases_guard 2 1 0 (1 / 10))); left; lra
         | intro H; apply (proj1 (mb_gases_guard 1 1 0 (1 / 10))) in H; destruct H; lra].
Qed.

(* side conditions of cubic_equivalent are satisfiable: CO2-like numbers *)
Example cubic_side_conditions : let RT := 24 in let P := 10 in let b := 0.027 in let V := 2.3 in
  P <> 0 /\ V - b <> 0 /\ V * V + 2 * b * V - b * b <> 0.
Proof. simpl. repeat split; lra. Qed.
