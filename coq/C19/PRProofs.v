(* C19 -- the REGENERATED right-hand sides of calc_PR (prep.cpp copy: prefix p_ ; gases.cpp copy: prefix g_ ) are the Peng-Robinson
   formulas of C19/Spec.v.  All comparisons are semantic (field / lra over the reals). *)
From Coq Require Import Reals QArith Qreals List String Lra Lia.
From Interval Require Import Tactic.
From IPV Require Import Base.RExpr C19.BExpr C19.Spec Gen.Gen_C19_gases.
Import ListNotations.
Local Open Scope R_scope.

Ltac ev := unfold_evalR; cbn [powerRZ]; repeat match goal with |- context[Pos.to_nat ?p] => let n := eval compute in (Pos.to_nat p) in change (Pos.to_nat p) with n end; cbn [pow]; unfold Rdiv.

(* ---------------------------------------------------------------- constants a, b, alpha *)
Definition constants_ok (e_a e_b e_al0 e_al1 : rexpr) : Prop :=
  (forall Rg Tc Pc, Pc <> 0 -> evalR (env_of [Rg; Tc; Pc]) e_a = pr_a Rg Tc Pc) /\
  (forall Rg Tc Pc, Pc <> 0 -> evalR (env_of [Rg; Tc; Pc]) e_b = pr_b Rg Tc Pc) /\
  (forall T Tc w, Tc <> 0 -> evalR (env_of [T; Tc; w]) e_al0 = pr_alpha T Tc w) /\
  (forall T Tc w, Tc <> 0 -> evalR (env_of [T; Tc; w]) e_al1 = pr_alpha T Tc w).

Lemma p_constants : constants_ok p_pr_a p_pr_b p_alpha0 p_alpha1.
Proof.
  repeat split; intros;
    [ unfold p_pr_a, pr_a | unfold p_pr_b, pr_b | unfold p_alpha0, pr_alpha, pr_kappa | unfold p_alpha1, pr_alpha, pr_kappa ];
    ev; field; assumption.
Qed.
Lemma g_constants : constants_ok g_pr_a g_pr_b g_alpha0 g_alpha1.
Proof.
  repeat split; intros;
    [ unfold g_pr_a, pr_a | unfold g_pr_b, pr_b | unfold g_alpha0, pr_alpha, pr_kappa | unfold g_alpha1, pr_alpha, pr_kappa ];
    ev; field; assumption.
Qed.

(* the gas constant the code uses is the physical one to 3e-5 relative (inside the property's 1e-4) *)
Lemma R_code_close : forall e, e = p_R \/ e = g_R ->
  Rabs (evalR (env_of []) e - R_gas) <= 3 / 100000 * R_gas.
Proof.
  intros e [-> | ->]; [unfold p_R | unfold g_R]; ev; unfold R_gas; apply Rabs_le; split; lra.
Qed.

(* ---------------------------------------------------------------- pressure from molar volume *)
Definition pressure_ok (e : rexpr) : Prop :=
  forall RT V b a, V - b <> 0 -> V * (V + 2 * b) - b * b <> 0 ->
    evalR (env_of [RT; V; b; a]) e = pr_pressure RT V b a.

Lemma p_pressure : pressure_ok p_P /\ pressure_ok p_P_v1.
Proof.
  split; intros RT V b a H1 H2; [unfold p_P | unfold p_P_v1]; unfold pr_pressure; ev; field;
    (split; [ intro E; apply H2; rewrite <- E; ring | assumption ]).
Qed.
Lemma g_pressure : pressure_ok g_P /\ pressure_ok g_P_v1.
Proof.
  split; intros RT V b a H1 H2; [unfold g_P | unfold g_P_v1]; unfold pr_pressure; ev; field;
    (split; [ intro E; apply H2; rewrite <- E; ring | assumption ]).
Qed.

(* ---------------------------------------------------------------- the cubic *)
Lemma pr_cubic_identity : forall RT P b a V, P <> 0 -> V - b <> 0 -> V * V + 2 * b * V - b * b <> 0 ->
  pr_cubic RT P b a V = (P - pr_pressure RT V b a) * ((V - b) * (V * V + 2 * b * V - b * b) / P).
Proof. intros. unfold pr_cubic, pr_pressure. field. repeat split; assumption. Qed.

Lemma pr_cubic_equivalent : forall RT P b a V, P <> 0 -> V - b <> 0 -> V * V + 2 * b * V - b * b <> 0 ->
  (P = pr_pressure RT V b a <-> pr_cubic RT P b a V = 0).
Proof.
  intros RT P b a V HP H1 H2. rewrite pr_cubic_identity by assumption. split.
  - intros ->. ring.
  - intros H. apply Rmult_integral in H. destruct H as [H | H]; [lra |].
    exfalso. unfold Rdiv in H. apply Rmult_integral in H. destruct H as [H | H].
    + apply Rmult_integral in H. destruct H; contradiction.
    + apply (Rinv_neq_0_compat P HP). exact H.
Qed.

Definition cubic_coeffs_ok (e1 e2 e3 : rexpr) : Prop :=
  forall RT P b a V, P <> 0 ->
    let env := env_of [b; RT; a; P] in
    V * V * V + evalR env e1 * (V * V) + evalR env e2 * V + evalR env e3 = pr_cubic RT P b a V.

Lemma p_cubic_coeffs : cubic_coeffs_ok p_r31_v p_r32_v p_r33_v /\ cubic_coeffs_ok p_r31_p p_r32_p p_r33_p.
Proof.
  split; intros RT P b a V HP env; subst env;
    [unfold p_r31_v, p_r32_v, p_r33_v | unfold p_r31_p, p_r32_p, p_r33_p]; unfold pr_cubic; ev; field; assumption.
Qed.
Lemma g_cubic_coeffs : cubic_coeffs_ok g_r31_v g_r32_v g_r33_v /\ cubic_coeffs_ok g_r31_p g_r32_p g_r33_p.
Proof.
  split; intros RT P b a V HP env; subst env;
    [unfold g_r31_v, g_r32_v, g_r33_v | unfold g_r31_p, g_r32_p, g_r33_p]; unfold pr_cubic; ev; field; assumption.
Qed.

Lemma cubic_equivalent_for : forall e1 e2 e3, cubic_coeffs_ok e1 e2 e3 ->
  forall RT P b a V, P <> 0 -> V - b <> 0 -> V * V + 2 * b * V - b * b <> 0 ->
    let env := env_of [b; RT; a; P] in
    (P = pr_pressure RT V b a <-> V * V * V + evalR env e1 * (V * V) + evalR env e2 * V + evalR env e3 = 0).
Proof.
  intros e1 e2 e3 H RT P b a V HP H1 H2 env. subst env. rewrite (H RT P b a V HP).
  apply pr_cubic_equivalent; assumption.
Qed.

(* discriminant and depressed cubic *)
Definition disc_ok (e : rexpr) : Prop :=
  forall r1 r2 r3, evalR (env_of [r1; r2; r3]) e = cubic_disc r1 r2 r3.
Lemma p_g_disc : disc_ok p_disct /\ disc_ok g_disct.
Proof. split; intros r1 r2 r3; [unfold p_disct | unfold g_disct]; unfold cubic_disc; ev; field. Qed.

Definition depressed_ok (e_rp e_rq : rexpr) : Prop :=
  forall r1 r2 r3 V, let env := env_of [r1; r2; r3] in let t := V + r1 / 3 in
    V * V * V + r1 * (V * V) + r2 * V + r3 = t * t * t + evalR env e_rp * t + evalR env e_rq.
Lemma p_g_depressed : depressed_ok p_rp p_rq /\ depressed_ok g_rp g_rq.
Proof.
  split; intros r1 r2 r3 V env t; subst env t; [unfold p_rp, p_rq | unfold g_rp, g_rq]; ev; field.
Qed.

(* Cardano, branch `ri + rq/2 > 0`:  with u the (exact) cube root  u^3 = -(sqrt(rz) + rq/2),
   t = u - rp/(3u) solves t^3 + rp t + rq = 0.  The code's pow(x, 0.33333333333333333) is the oracle for u. *)
Definition cardano2_ok (e_rz e_V : rexpr) : Prop :=
  forall rp rq r1 u, u <> 0 ->
    let rz := evalR (env_of [rp; rq]) e_rz in
    0 <= rz -> u * u * u = - (sqrt rz + rq / 2) ->
    let V := evalR (env_of [u; rp; r1]) e_V in let t := V + r1 / 3 in
    t * t * t + rp * t + rq = 0.
Lemma p_g_cardano2 : cardano2_ok p_rzc p_Vm_card2 /\ cardano2_ok g_rzc g_Vm_card2.
Proof.
  assert (K : forall rp rq u s, u <> 0 -> s * s = rq * rq / 4 + rp * rp * rp / 27 -> u * u * u = - (s + rq / 2) ->
              let t := u - rp / (3 * u) in t * t * t + rp * t + rq = 0).
  { intros rp rq u s Hu Hs Hc t. subst t.
    assert (E : (u - rp / (3 * u)) * (u - rp / (3 * u)) * (u - rp / (3 * u)) + rp * (u - rp / (3 * u)) + rq
                = (u * u * u * (u * u * u) + rq * (u * u * u) - rp * rp * rp / 27) / (u * u * u)) by (field; assumption).
    rewrite E, Hc.
    replace (- (s + rq / 2) * - (s + rq / 2) + rq * - (s + rq / 2) - rp * rp * rp / 27)
      with (s * s - (rq * rq / 4 + rp * rp * rp / 27)) by field.
    rewrite Hs. unfold Rdiv. ring. }
  split; intros rp rq r1 u Hu rz Hrz Hc V t; subst V t;
    [ assert (EV : evalR (env_of [u; rp; r1]) p_Vm_card2 + r1 / 3 = u - rp / (3 * u)) by (unfold p_Vm_card2; ev; field; assumption)
    | assert (EV : evalR (env_of [u; rp; r1]) g_Vm_card2 + r1 / 3 = u - rp / (3 * u)) by (unfold g_Vm_card2; ev; field; assumption) ];
    rewrite EV; apply (K rp rq u (sqrt rz) Hu); try assumption;
    rewrite sqrt_sqrt by assumption; subst rz; [unfold p_rzc | unfold g_rzc]; ev; field.
Qed.

Lemma one_third_literal : forall e, e = p_one_3 \/ e = g_one_3 ->
  Rabs (evalR (env_of []) e - 1 / 3) <= 1 / 100000000000000000.
Proof. intros e [-> | ->]; [unfold p_one_3 | unfold g_one_3]; ev; apply Rabs_le; split; lra. Qed.

(* ---------------------------------------------------------------- fugacity coefficient *)
Definition lnphi_ok (e : rexpr) : Prop :=
  exists c1 c2 c3 : R,
    Rabs (c1 - 2 * sqrt 2) <= 3 / 10 ^ 7 /\ Rabs (c2 - (1 + sqrt 2)) <= 1 / 10 ^ 8 /\ Rabs (c3 - (sqrt 2 - 1)) <= 1 / 10 ^ 8 /\
    forall P V RT b a bi s2, RT <> 0 -> b <> 0 -> a <> 0 -> P <> 0 ->
      let Z := P * V / RT in let B := b * P / RT in
      Z - c3 * B <> 0 ->
      evalR (env_of [P; V; RT; b; a; bi; s2]) e = ln_phi_gen c1 c2 c3 Z (a * P / (RT * RT)) B (bi / b) s2 a.

Ltac lnphi_tac :=
  exists (2828427 / 1000000), (241421356 / 100000000), (41421356 / 100000000);
  split; [interval | split; [interval | split; [interval |]]];
  intros P V RT b a bi s2 HRT Hb Ha HP Z B HZ; subst Z B; unfold ln_phi_gen; ev.

Lemma p_lnphi_ok : lnphi_ok p_lnphi.
Proof.
  unfold p_lnphi. lnphi_tac.
  replace (60355339 * / 25000000) with (241421356 * / 100000000) by lra.
  replace (10355339 * / 25000000) with (41421356 * / 100000000) by lra.
  field. repeat split; try assumption; lra.
Qed.
Lemma g_lnphi_ok : lnphi_ok g_lnphi.
Proof.
  unfold g_lnphi. lnphi_tac.
  replace (60355339 * / 25000000) with (241421356 * / 100000000) by lra.
  replace (10355339 * / 25000000) with (41421356 * / 100000000) by lra.
  field. repeat split; try assumption; lra.
Qed.

(* Z, A, B as reported *)
Definition zab_ok (eZ eA eB : rexpr) : Prop :=
  (forall P V RT, RT <> 0 -> evalR (env_of [P; V; RT]) eZ = P * V / RT) /\
  (forall a P RT, RT <> 0 -> evalR (env_of [a; P; RT]) eA = a * P / (RT * RT)) /\
  (forall b P RT, RT <> 0 -> evalR (env_of [b; P; RT]) eB = b * P / RT).
Lemma p_g_zab : zab_ok p_Z p_A p_B /\ zab_ok g_Z g_A g_B.
Proof.
  split; (split; [| split]); intros;
    [unfold p_Z | unfold p_A | unfold p_B | unfold g_Z | unfold g_A | unfold g_B]; ev; field; assumption.
Qed.

(* the clamp: ln phi is cut to [-4.6, 4.44], i.e. 0.01 <= phi <= 85 *)
Definition clamp_ok (c : cexpr) : Prop :=
  forall x r, evalC (env_of [x]) c r -> r = Rmax (-4.6) (Rmin 4.44 x).
Lemma clamp_generic : forall (lo hi : Q) c,
  c = CIte (BGt (Var 0) (Const hi)) (CE (Const hi)) (CIte (BLt (Var 0) (Const lo)) (CE (Const lo)) (CE (Var 0))) ->
  (Q2R lo = -4.6) -> (Q2R hi = 4.44) -> clamp_ok c.
Proof.
  intros lo hi c -> Hlo Hhi x r H.
  apply evalC_Ite_inv in H. destruct H as [[Hc H] | [Hc H]].
  - apply evalC_E_inv in H. cbn [evalB evalR env_of nth] in *. rewrite Hhi in *. subst r.
    unfold Rmax, Rmin. repeat destruct Rle_dec; lra.
  - apply evalC_Ite_inv in H. destruct H as [[Hc2 H] | [Hc2 H]]; apply evalC_E_inv in H;
      cbn [evalB evalR env_of nth] in *; rewrite ?Hhi, ?Hlo in *; subst r;
      unfold Rmax, Rmin; repeat destruct Rle_dec; lra.
Qed.

Lemma clamp_neg_form : forall (hi lo : Q) c,
  c = CIte (BGt (Var 0) (Const hi)) (CE (Const hi)) (CIte (BLt (Var 0) (Neg (Const lo))) (CE (Neg (Const lo))) (CE (Var 0))) ->
  (Q2R lo = 4.6) -> (Q2R hi = 4.44) -> clamp_ok c.
Proof.
  intros hi lo c -> Hlo Hhi x r H.
  apply evalC_Ite_inv in H. destruct H as [[Hc H] | [Hc H]].
  - apply evalC_E_inv in H. cbn [evalB evalR env_of nth] in *. rewrite Hhi in *. subst r.
    unfold Rmax, Rmin. repeat destruct Rle_dec; lra.
  - apply evalC_Ite_inv in H. destruct H as [[Hc2 H] | [Hc2 H]]; apply evalC_E_inv in H;
      cbn [evalB evalR env_of nth] in *; rewrite ?Hhi, ?Hlo in *; subst r;
      unfold Rmax, Rmin; repeat destruct Rle_dec; lra.
Qed.

Lemma p_g_clamp : clamp_ok p_lnphi_clamp /\ clamp_ok g_lnphi_clamp.
Proof.
  split; (eapply clamp_neg_form; [reflexivity | rewrite Q2R_make; lra | rewrite Q2R_make; lra]).
Qed.

(* below the clamp / when Z <= B the code sets ln phi = -4.6; pr_phi = exp(ln phi); pr_si_f = ln phi / ln 10 = log10 phi *)
Definition phi_out_ok (e_else e_phi e_sif : rexpr) : Prop :=
  evalR (env_of []) e_else = -4.6 /\
  (forall l, evalR (env_of [l]) e_phi = exp l) /\
  (forall l, evalR (env_of [l; ln 10]) e_sif = ln (exp l) / ln 10).
Lemma p_g_phi_out : phi_out_ok p_lnphi_else p_pr_phi p_si_f /\ phi_out_ok g_lnphi_else g_pr_phi g_si_f.
Proof.
  split; (split; [| split]); intros;
    [unfold p_lnphi_else | unfold p_pr_phi | unfold p_si_f | unfold g_lnphi_else | unfold g_pr_phi | unfold g_si_f];
    ev; rewrite ?ln_exp; try reflexivity; lra.
Qed.

(* the guard Z > B of the logarithm *)
Definition guard_ok (g : bexpr) : Prop :=
  forall P V RT b, RT <> 0 -> (evalB (env_of [P; V; RT; b]) g <-> P * V / RT > b * P / RT).
Lemma p_g_guard : guard_ok p_lnphi_guard /\ guard_ok g_lnphi_guard.
Proof. split; intros P V RT b H; [unfold p_lnphi_guard | unfold g_lnphi_guard]; cbn [evalB]; ev; tauto. Qed.

(* every store to pr_phi / pr_si_f / pr_p is either the x_i = 0 default or the formula above (no third site) *)
Lemma p_g_store_shape :
  p_pr_phi_site_conds = [["phase_ptr->fraction_x == 0.0"%string]; []] /\
  p_pr_si_f_site_conds = [["phase_ptr->fraction_x == 0.0"%string]; []] /\
  p_pr_p_site_conds = [["phase_ptr->fraction_x == 0.0"%string]; []] /\
  g_pr_phi_site_conds = [["phase_ptr->fraction_x == 0.0"%string]; []] /\
  g_pr_si_f_site_conds = [["phase_ptr->fraction_x == 0.0"%string]; []] /\
  g_pr_p_site_conds = [["phase_ptr->fraction_x == 0.0"%string]; []].
Proof. repeat split; reflexivity. Qed.

(* alpha(T) is refreshed exactly when the stored temperature differs from the current one, and the temperature it was
   computed for is stored in both places where alpha is computed *)
Lemma p_g_alpha_refresh :
  (forall tk T, evalB (env_of [tk; T]) p_alpha_refresh_guard <-> tk <> T) /\
  (forall tk T, evalB (env_of [tk; T]) g_alpha_refresh_guard <-> tk <> T) /\
  map snd p_pr_tk_stores = ["TK"%string; "TK"%string] /\ map snd g_pr_tk_stores = ["TK"%string; "TK"%string].
Proof.
  unfold p_alpha_refresh_guard, g_alpha_refresh_guard.
  split; [| split; [| split; reflexivity]]; intros; cbn [evalB]; ev; tauto.
Qed.
