(* C19 -- list-level model of the loops of calc_PR / calc_gas_pressures built from the REGENERATED increments, and the
   bookkeeping theorems (for mixtures of ANY number of components, by induction):
   mixing rules, mole fractions / partial pressures, fugacity = 10^SI, ideal-gas law of the non-PR branch,
   the existence test of a fixed-pressure gas phase. *)
From Coq Require Import Reals QArith Qreals List String Lra.
From IPV Require Import Base.RExpr C19.BExpr C19.Spec Gen.Gen_C19_gases.
Import ListNotations.
Local Open Scope R_scope.

Ltac ev := unfold_evalR; unfold Rdiv.

(* ---------------------------------------------------------------- the loops, with the generated right-hand sides *)
Section Loops.
  (* the regenerated leaves of one copy of calc_PR *)
  Variables (e_binc e_aa e_ainc e_a2inc : rexpr).
  Variable kf : nat -> nat -> R.

  (* for (i...) b_sum += x_i * b_i *)
  Definition b_loop (cs : list comp) : R :=
    fold_left (fun acc c => acc + evalR (env_of [c_x c; c_b c]) e_binc) cs 0.

  (* a_aa for the pair (i, j) *)
  Definition aa_of (i j : nat) (ci cj : comp) : R :=
    evalR (env_of [c_a ci; c_al ci; c_a cj; c_al cj; kf i j]) e_aa.

  (* inner loop over j: `if (x_j == 0) continue;  a_aa_sum += x_i x_j a_aa;  a_aa_sum2 += x_j a_aa`
     state = (a_aa_sum, a_aa_sum2) *)
  Fixpoint inner (i : nat) (ci : comp) (j : nat) (cs : list comp) (st : R * R) : R * R :=
    match cs with
    | [] => st
    | cj :: r =>
        let st' := if Req_EM_T (c_x cj) 0 then st
                   else (fst st + evalR (env_of [c_x ci; c_x cj; aa_of i j ci cj]) e_ainc,
                         snd st + evalR (env_of [c_x cj; aa_of i j ci cj]) e_a2inc) in
        inner i ci (S j) r st'
    end.

  (* outer loop over i: a_aa_sum2 = 0; inner loop; pr_aa_sum2_i = a_aa_sum2.  Result: (a_aa_sum, list of pr_aa_sum2_i) *)
  Fixpoint outer (all : list comp) (i : nat) (cs : list comp) (asum : R) : R * list R :=
    match cs with
    | [] => (asum, [])
    | ci :: r =>
        let st := inner i ci 0 all (asum, 0) in
        let rest := outer all (S i) r (fst st) in
        (fst rest, snd st :: snd rest)
    end.
  Definition a_loop (cs : list comp) : R * list R := outer cs 0 cs 0.

  Hypothesis H_binc : forall x b, evalR (env_of [x; b]) e_binc = x * b.
  Hypothesis H_aa : forall ai ali aj alj k, evalR (env_of [ai; ali; aj; alj; k]) e_aa = sqrt (ai * ali * aj * alj) * k.
  Hypothesis H_ainc : forall xi xj aa, evalR (env_of [xi; xj; aa]) e_ainc = xi * xj * aa.
  Hypothesis H_a2inc : forall xj aa, evalR (env_of [xj; aa]) e_a2inc = xj * aa.

  Lemma b_loop_acc : forall cs acc,
    fold_left (fun acc c => acc + evalR (env_of [c_x c; c_b c]) e_binc) cs acc = acc + b_mix cs.
  Proof.
    induction cs as [|c cs IH]; intros acc; simpl.
    - unfold b_mix; simpl; lra.
    - rewrite IH, H_binc. unfold b_mix. simpl. lra.
  Qed.
  Lemma b_loop_is_b_mix : forall cs, b_loop cs = b_mix cs.
  Proof. intros. unfold b_loop. rewrite b_loop_acc. lra. Qed.

  Lemma inner_spec : forall i ci cs j st,
    inner i ci j cs st = (fst st + c_x ci * s2_from kf i ci j cs, snd st + s2_from kf i ci j cs).
  Proof.
    induction cs as [|cj cs IH]; intros j st; simpl.
    - destruct st; simpl; f_equal; lra.
    - rewrite IH. unfold aa_of. destruct (Req_EM_T (c_x cj) 0) as [E | E]; simpl.
      + unfold a_cross. rewrite E. f_equal; lra.
      + rewrite H_ainc, H_a2inc, H_aa. unfold a_cross. f_equal; lra.
  Qed.

  Lemma outer_spec : forall all cs i asum,
    fst (outer all i cs asum) = asum + a_mix_from kf all i cs /\
    snd (outer all i cs asum) = map (fun p => s2_of kf all (fst p) (snd p)) (combine (seq i (List.length cs)) cs).
  Proof.
    induction cs as [|ci cs IH]; intros i asum; simpl.
    - split; [lra | reflexivity].
    - rewrite inner_spec. simpl. destruct (IH (S i) (asum + c_x ci * s2_from kf i ci 0 all)) as [E1 E2].
      split.
      + rewrite E1. unfold s2_of. lra.
      + rewrite E2. unfold s2_of. f_equal. lra.
  Qed.

  (* the double loop computes the van der Waals one-fluid mixing rule, and stores s2_i = sum_j x_j a_ij per component *)
  Theorem a_loop_is_a_mix : forall cs,
    fst (a_loop cs) = a_mix kf cs /\
    snd (a_loop cs) = map (fun p => s2_of kf cs (fst p) (snd p)) (combine (seq 0 (List.length cs)) cs).
  Proof.
    intros cs. unfold a_loop, a_mix. destruct (outer_spec cs cs 0%nat 0) as [E1 E2]. split; [rewrite E1; lra | exact E2].
  Qed.
End Loops.

Definition mixing_leaves_ok (e_binc e_aa e_ainc e_a2inc e_store : rexpr) : Prop :=
  (forall x b, evalR (env_of [x; b]) e_binc = x * b) /\
  (forall ai ali aj alj k, evalR (env_of [ai; ali; aj; alj; k]) e_aa = sqrt (ai * ali * aj * alj) * k) /\
  (forall xi xj aa, evalR (env_of [xi; xj; aa]) e_ainc = xi * xj * aa) /\
  (forall xj aa, evalR (env_of [xj; aa]) e_a2inc = xj * aa) /\
  (forall s, evalR (env_of [s]) e_store = s).

Lemma p_mixing_leaves : mixing_leaves_ok p_bsum_inc p_aa p_aasum_inc p_aasum2_inc p_aasum2_store.
Proof.
  unfold mixing_leaves_ok, p_bsum_inc, p_aa, p_aasum_inc, p_aasum2_inc, p_aasum2_store.
  repeat split; intros; ev; reflexivity.
Qed.
Lemma g_mixing_leaves : mixing_leaves_ok g_bsum_inc g_aa g_aasum_inc g_aasum2_inc g_aasum2_store.
Proof.
  unfold mixing_leaves_ok, g_bsum_inc, g_aa, g_aasum_inc, g_aasum2_inc, g_aasum2_store.
  repeat split; intros; ev; reflexivity.
Qed.

Theorem p_mixing_rules : forall kf cs,
  b_loop p_bsum_inc cs = b_mix cs /\
  fst (a_loop p_aa p_aasum_inc p_aasum2_inc kf cs) = a_mix kf cs /\
  snd (a_loop p_aa p_aasum_inc p_aasum2_inc kf cs) = map (fun p => s2_of kf cs (fst p) (snd p)) (combine (seq 0 (List.length cs)) cs).
Proof.
  intros kf cs. destruct p_mixing_leaves as (H1 & H2 & H3 & H4 & _).
  split; [apply b_loop_is_b_mix; exact H1 | apply a_loop_is_a_mix; assumption].
Qed.
Theorem g_mixing_rules : forall kf cs,
  b_loop g_bsum_inc cs = b_mix cs /\
  fst (a_loop g_aa g_aasum_inc g_aasum2_inc kf cs) = a_mix kf cs /\
  snd (a_loop g_aa g_aasum_inc g_aasum2_inc kf cs) = map (fun p => s2_of kf cs (fst p) (snd p)) (combine (seq 0 (List.length cs)) cs).
Proof.
  intros kf cs. destruct g_mixing_leaves as (H1 & H2 & H3 & H4 & _).
  split; [apply b_loop_is_b_mix; exact H1 | apply a_loop_is_a_mix; assumption].
Qed.

(* binary interaction factor: the table entry k_ij enters as (1 - k_ij); default 1 *)
Lemma bip_leaves : (forall k, evalR (env_of [k]) bip_from_table = 1 - k) /\ evalR (env_of []) bip_default = 1.
Proof. unfold bip_from_table, bip_default. split; intros; ev; lra. Qed.

(* ---------------------------------------------------------------- mole fractions and partial pressures *)
Lemma sum_fractions : forall ns, sumR ns <> 0 -> sumR (fractions ns) = 1.
Proof. intros ns H. unfold fractions. rewrite sumR_map_div. field. exact H. Qed.

Theorem partials_sum : forall ns P, sumR ns <> 0 -> sumR (partials ns P) = P.
Proof.
  intros ns P H. unfold partials. rewrite sumR_map_mul_r, sum_fractions by exact H. lra.
Qed.

Definition partial_leaves_ok (e_x e_p : rexpr) : Prop :=
  (forall n m, evalR (env_of [n; m]) e_x = n / m) /\ (forall x P, evalR (env_of [x; P]) e_p = x * P).
Lemma p_g_partial_leaves : partial_leaves_ok p_x_frac p_pr_p /\ partial_leaves_ok g_x_frac g_pr_p.
Proof. unfold partial_leaves_ok, p_x_frac, p_pr_p, g_x_frac, g_pr_p. repeat split; intros; ev; reflexivity. Qed.

(* the model of the two loops `fraction_x = moles / m_sum` ... `pr_p = fraction_x * P` *)
Definition pr_p_loop (e_x e_p : rexpr) (ns : list R) (P : R) : list R :=
  map (fun n => evalR (env_of [evalR (env_of [n; sumR ns]) e_x; P]) e_p) ns.

Theorem partial_pressures_sum_for : forall e_x e_p, partial_leaves_ok e_x e_p ->
  forall ns P, sumR ns <> 0 ->
    pr_p_loop e_x e_p ns P = map (fun n => n / sumR ns * P) ns /\ sumR (pr_p_loop e_x e_p ns P) = P.
Proof.
  intros e_x e_p [Hx Hp] ns P H.
  assert (E : pr_p_loop e_x e_p ns P = partials ns P).
  { unfold pr_p_loop, partials, fractions. rewrite map_map. apply map_ext. intros n. rewrite Hx, Hp. reflexivity. }
  split.
  - rewrite E. unfold partials, fractions. rewrite map_map. reflexivity.
  - rewrite E. apply partials_sum. exact H.
Qed.

(* ---------------------------------------------------------------- equilibrium partial pressure and fugacity *)
(* lp = -lk + sum la_k * coef_k  (= log10 IAP - log10 K = SI);  p_soln = exp(LOG_10 (lp - pr_si_f)),  pr_si_f = ln(phi)/LOG_10 *)
Definition lp_loop (e0 einc : rexpr) (lk : R) (toks : list (R * R)) : R :=
  fold_left (fun acc t => acc + evalR (env_of [fst t; snd t]) einc) toks (evalR (env_of [lk]) e0).

Lemma lp_loop_is_SI : forall e0 einc, (forall lk, evalR (env_of [lk]) e0 = - lk) ->
  (forall la c, evalR (env_of [la; c]) einc = la * c) ->
  forall lk toks, lp_loop e0 einc lk toks = sumR (map (fun t => fst t * snd t) toks) - lk.
Proof.
  intros e0 einc H0 Hi lk toks. unfold lp_loop. rewrite H0.
  assert (G : forall toks acc, fold_left (fun acc t => acc + evalR (env_of [fst t; snd t]) einc) toks acc
                               = acc + sumR (map (fun t => fst t * snd t) toks)).
  { induction toks0 as [|t toks0 IH]; intros acc; simpl; [lra | rewrite IH, Hi; lra]. }
  rewrite G. lra.
Qed.

Definition fugacity_ok (e_sif e_psoln : rexpr) : Prop :=
  forall lp lnphi,
    let sif := evalR (env_of [lnphi; ln 10]) e_sif in
    let p := evalR (env_of [ln 10; lp; sif]) e_psoln in
    exp lnphi * p = Rpower 10 lp.

Lemma ln10_pos : 0 < ln 10.
Proof. rewrite <- ln_1. apply ln_increasing; lra. Qed.

Lemma fugacity_generic : forall e_sif e_psoln,
  (forall l L, evalR (env_of [l; L]) e_sif = l / L) ->
  (forall L lp s, evalR (env_of [L; lp; s]) e_psoln = exp (L * (lp - s))) ->
  fugacity_ok e_sif e_psoln.
Proof.
  intros e_sif e_psoln H1 H2 lp lnphi sif p. subst sif p. rewrite H1, H2. unfold Rpower.
  rewrite <- exp_plus. f_equal. pose proof ln10_pos. field. lra.
Qed.

Lemma si_f_leaves : (forall l L, evalR (env_of [l; L]) p_si_f = l / L) /\ (forall l L, evalR (env_of [l; L]) g_si_f = l / L).
Proof. unfold p_si_f, g_si_f. split; intros; ev; reflexivity. Qed.
Lemma p_soln_leaves :
  (forall L lp s, evalR (env_of [L; lp; s]) cg_p_soln = exp (L * (lp - s))) /\
  (forall L lp s, evalR (env_of [L; lp; s]) fv_p_soln = exp (L * (lp - s))).
Proof. unfold cg_p_soln, fv_p_soln. split; intros; ev; reflexivity. Qed.
Lemma lp_leaves :
  (forall lk, evalR (env_of [lk]) cg_lp0 = - lk) /\ (forall la c, evalR (env_of [la; c]) cg_lp_inc = la * c) /\
  (forall lk, evalR (env_of [lk]) fv_lp0 = - lk) /\ (forall la c, evalR (env_of [la; c]) fv_lp_inc = la * c).
Proof. unfold cg_lp0, cg_lp_inc, fv_lp0, fv_lp_inc. repeat split; intros; ev; reflexivity. Qed.

(* ---------------------------------------------------------------- moles from equilibrium partial pressures *)
(* fixed pressure: n_i = p_i n_tot / P, x_i = p_i / P;  fixed volume, PR: n_i = p_i / P * V / V_m, V_m = V / n_tot *)
Lemma moles_leaves :
  (forall p n P, evalR (env_of [p; n; P]) cg_moles_fp = p * n / P) /\
  (forall p n P, n <> 0 -> P <> 0 -> evalR (env_of [p; n; P]) cg_frac_fp = p / P) /\
  (forall p P V Vm, evalR (env_of [p; P; V; Vm]) cg_moles_pr_fv = p / P * V / Vm) /\
  (forall p P V Vm, evalR (env_of [p; P; V; Vm]) fv_moles_pr = p / P * V / Vm) /\
  (forall V n, evalR (env_of [V; n]) cg_Vm0 = V / n).
Proof.
  unfold cg_moles_fp, cg_frac_fp, cg_moles_pr_fv, fv_moles_pr, cg_Vm0.
  repeat split; intros; ev; try reflexivity. field. split; assumption.
Qed.

(* ideal branch (no critical constants): loop over the gases  n_i = p_i V / (R T);  P += p_i.  Ideal gas law for the sums. *)
Definition ideal_loop (e_n e_P : rexpr) (V T : R) (ps : list R) : R * R :=
  fold_left (fun st p => (evalR (env_of [fst st; p]) e_P, snd st + evalR (env_of [p; V; T]) e_n)) ps (0, 0).

Theorem ideal_gas_law_for : forall e_n e_P Rg,
  (forall p V T, evalR (env_of [p; V; T]) e_n = p * V / (Rg * T)) ->
  (forall P p, evalR (env_of [P; p]) e_P = P + p) ->
  forall V T ps, Rg * T <> 0 ->
    let st := ideal_loop e_n e_P V T ps in
    fst st = sumR ps /\ fst st * V = snd st * Rg * T.
Proof.
  intros e_n e_P Rg Hn HP V T ps HRT st. subst st. unfold ideal_loop.
  assert (HR : Rg <> 0) by (intro E; apply HRT; rewrite E; ring).
  assert (HT : T <> 0) by (intro E; apply HRT; rewrite E; ring).
  assert (G : forall ps P0 n0, P0 * V = n0 * Rg * T ->
     let st := fold_left (fun st p => (evalR (env_of [fst st; p]) e_P, snd st + evalR (env_of [p; V; T]) e_n)) ps (P0, n0) in
     fst st = P0 + sumR ps /\ fst st * V = snd st * Rg * T).
  { induction ps0 as [|p ps0 IH]; intros P0 n0 H0; simpl.
    - split; lra.
    - destruct (IH (evalR (env_of [P0; p]) e_P) (n0 + evalR (env_of [p; V; T]) e_n)) as [E1 E2].
      + rewrite HP, Hn. replace ((n0 + p * V / (Rg * T)) * Rg * T) with (n0 * Rg * T + p * V) by (field; split; assumption). lra.
      + split; [rewrite E1, HP; lra | exact E2]. }
  destruct (G ps 0 0) as [E1 E2]; [lra |]. split; [rewrite E1; lra | exact E2].
Qed.

Lemma ideal_leaves :
  (forall p V T, evalR (env_of [p; V; T]) cg_moles_ideal = p * V / (820597 / 10000000 * T)) /\
  (forall P p, evalR (env_of [P; p]) cg_totp_ideal = P + p) /\
  (forall p V T, evalR (env_of [p; V; T]) fv_moles_ideal = p * V / (820597 / 10000000 * T)) /\
  (forall P p, evalR (env_of [P; p]) fv_totp_ideal = P + p).
Proof. unfold cg_moles_ideal, cg_totp_ideal, fv_moles_ideal, fv_totp_ideal. repeat split; intros; ev; reflexivity. Qed.

(* ---------------------------------------------------------------- existence of a fixed-pressure gas phase (mb_gases) *)
Theorem mb_gases_guard : forall f P moles min_total,
  evalB (env_of [f; P; moles; min_total]) mb_gas_in_guard <-> (f > P + 1 / 10000000 \/ moles > min_total).
Proof.
  intros. unfold mb_gas_in_guard. cbn [evalB]. ev.
  replace (1 * / 10000000) with (1 / 10000000) by (unfold Rdiv; reflexivity). tauto.
Qed.
Lemma mb_gases_shape : mb_gas_in_initially_false = true /\ mb_gas_in_sites_fixed_pressure = 1%nat.
Proof. split; reflexivity. Qed.

(* ---------------------------------------------------------------- initial mole numbers (tidy_gas_phase) *)
(* without critical constants: n_i = p_i V / R / T, P = sum p_i  =>  P V = n R T;
   with Peng-Robinson: x_i = p_i / P, n_i = x_i V / V_m with V_m the root returned by calc_PR  =>  sum n_i = V / V_m *)
Lemma tidy_leaves :
  (forall p V T, evalR (env_of [p; V; T]) td_moles_ideal_fp = p * V / (820597 / 10000000) / T) /\
  (forall p V T, evalR (env_of [p; V; T]) td_moles_ideal_fv = p * V / (820597 / 10000000) / T) /\
  (forall p, evalR (env_of [p]) td_P_inc_fp = p) /\ (forall p, evalR (env_of [p]) td_P_inc_fv = p) /\
  (forall p P, evalR (env_of [p; P]) td_x = p / P) /\
  (forall x V Vm, evalR (env_of [x; V; Vm]) td_moles_pr = x * V / Vm).
Proof.
  unfold td_moles_ideal_fp, td_moles_ideal_fv, td_P_inc_fp, td_P_inc_fv, td_x, td_moles_pr.
  repeat split; intros; ev; reflexivity.
Qed.

Definition init_ideal (e_n e_P : rexpr) (V T : R) (ps : list R) : R * R :=
  fold_left (fun st p => (fst st + evalR (env_of [p]) e_P, snd st + evalR (env_of [p; V; T]) e_n)) ps (0, 0).
Definition init_pr (e_x e_n : rexpr) (V Vm : R) (ps : list R) : list R :=
  map (fun p => evalR (env_of [evalR (env_of [p; sumR ps]) e_x; V; Vm]) e_n) ps.

Theorem initial_ideal_for : forall e_n e_P Rg,
  (forall p V T, evalR (env_of [p; V; T]) e_n = p * V / Rg / T) -> (forall p, evalR (env_of [p]) e_P = p) ->
  forall V T ps, Rg <> 0 -> T <> 0 ->
    let st := init_ideal e_n e_P V T ps in fst st = sumR ps /\ fst st * V = snd st * Rg * T.
Proof.
  intros e_n e_P Rg Hn HP V T ps HR HT st. subst st. unfold init_ideal.
  assert (G : forall ps P0 n0, P0 * V = n0 * Rg * T ->
     let st := fold_left (fun st p => (fst st + evalR (env_of [p]) e_P, snd st + evalR (env_of [p; V; T]) e_n)) ps (P0, n0) in
     fst st = P0 + sumR ps /\ fst st * V = snd st * Rg * T).
  { induction ps0 as [|p ps0 IH]; intros P0 n0 H0; simpl.
    - split; lra.
    - destruct (IH (P0 + evalR (env_of [p]) e_P) (n0 + evalR (env_of [p; V; T]) e_n)) as [E1 E2].
      + rewrite HP, Hn. replace ((n0 + p * V / Rg / T) * Rg * T) with (n0 * Rg * T + p * V) by (field; split; assumption). lra.
      + split; [rewrite E1, HP; lra | exact E2]. }
  destruct (G ps 0 0) as [E1 E2]; [lra |]. split; [rewrite E1; lra | exact E2].
Qed.

Theorem initial_pr_for : forall e_x e_n,
  (forall p P, evalR (env_of [p; P]) e_x = p / P) -> (forall x V Vm, evalR (env_of [x; V; Vm]) e_n = x * V / Vm) ->
  forall V Vm ps, sumR ps <> 0 -> Vm <> 0 ->
    init_pr e_x e_n V Vm ps = map (fun p => p / sumR ps * V / Vm) ps /\ sumR (init_pr e_x e_n V Vm ps) = V / Vm.
Proof.
  intros e_x e_n Hx Hn V Vm ps HP HV.
  assert (E : init_pr e_x e_n V Vm ps = map (fun p => p / sumR ps * V / Vm) ps).
  { unfold init_pr. apply map_ext. intros p. rewrite Hx, Hn. reflexivity. }
  split; [exact E |]. rewrite E.
  replace (map (fun p => p / sumR ps * V / Vm) ps) with (map (fun x => x * (V / Vm)) (map (fun p => p / sumR ps) ps))
    by (rewrite map_map; apply map_ext; intros; unfold Rdiv; ring).
  rewrite sumR_map_mul_r, sumR_map_div. field. split; assumption.
Qed.

Lemma initial_moles_all :
  (forall V T ps, T <> 0 ->
     let st := init_ideal td_moles_ideal_fp td_P_inc_fp V T ps in
     fst st = sumR ps /\ fst st * V = snd st * (820597 / 10000000) * T) /\
  (forall V T ps, T <> 0 ->
     let st := init_ideal td_moles_ideal_fv td_P_inc_fv V T ps in
     fst st = sumR ps /\ fst st * V = snd st * (820597 / 10000000) * T) /\
  (forall V Vm ps, sumR ps <> 0 -> Vm <> 0 ->
     init_pr td_x td_moles_pr V Vm ps = map (fun p => p / sumR ps * V / Vm) ps /\ sumR (init_pr td_x td_moles_pr V Vm ps) = V / Vm).
Proof.
  destruct tidy_leaves as (T1 & T2 & T3 & T4 & T5 & T6).
  assert (HR : 820597 / 10000000 <> 0) by lra.
  exact (conj (fun V T ps HT => initial_ideal_for _ _ _ T1 T3 V T ps HR HT)
        (conj (fun V T ps HT => initial_ideal_for _ _ _ T2 T4 V T ps HR HT)
              (initial_pr_for _ _ T5 T6))).
Qed.

(* ---------------------------------------------------------------- (re)initialisation of a phase (structures.cpp) *)
(* A PHASES block that redefines an existing gas goes through phase_store -> phase_init on the EXISTING record.  Everything the
   gas-pressure code caches in that record must be reset there: pr_si_f (= log10 phi, which calc_gas_pressures subtracts for
   ideal gases too: see cg_p_soln), pr_phi, pr_p, pr_tk (so that alpha is recomputed), pr_a / pr_b (computed only when zero),
   the critical constants themselves and the per-calculation values p_soln_x, moles_x, fraction_x. *)
Definition pi_has (l : list (string * Q)) (f : string) (q : Q) : bool :=
  existsb (fun p => andb (String.eqb (fst p) f) (Qeq_bool (snd p) q)) l.
Definition reset_to_zero : list string :=
  ["pr_si_f"; "pr_p"; "pr_tk"; "pr_a"; "pr_b"; "pr_alpha"; "pr_aa_sum2"; "t_c"; "p_c"; "omega"; "p_soln_x"; "moles_x"; "fraction_x"; "lk"; "in"]%string.
Definition phase_reinit_ok (consts : list (string * Q)) (others : list (string * string))
           (store_calls : list (list string * string)) (alloc_calls : nat) : bool :=
  forallb (fun f => pi_has consts f 0) reset_to_zero && pi_has consts "pr_phi" 1 &&
  existsb (fun p => andb (String.eqb (fst p) "pr_in") (String.eqb (snd p) "false")) others &&
  existsb (fun c => String.eqb (snd c) "phase_init(phase_ptr)") store_calls && Nat.leb 1 alloc_calls.

Lemma phase_reinit_sound : forall consts others sc ac, phase_reinit_ok consts others sc ac = true ->
  (forall f, In f reset_to_zero -> exists q, In (f, q) consts /\ (q == 0)%Q) /\
  (exists q, In ("pr_phi"%string, q) consts /\ (q == 1)%Q) /\ In ("pr_in"%string, "false"%string) others /\
  (exists c, In (c, "phase_init(phase_ptr)"%string) sc) /\ (1 <= ac)%nat.
Proof.
  intros consts others sc ac H. unfold phase_reinit_ok in H.
  apply andb_prop in H; destruct H as [H H5]. apply andb_prop in H; destruct H as [H H4].
  apply andb_prop in H; destruct H as [H H3]. apply andb_prop in H; destruct H as [H H2].
  assert (HAS : forall f q, pi_has consts f q = true -> exists q', In (f, q') consts /\ (q' == q)%Q).
  { intros f q E. unfold pi_has in E. apply existsb_exists in E. destruct E as [[f' q'] [I E]]. simpl in E.
    apply andb_prop in E. destruct E as [E1 E2]. apply String.eqb_eq in E1. apply Qeq_bool_iff in E2. subst f'.
    exists q'. split; assumption. }
  split; [| split; [| split; [| split]]].
  - intros f I. rewrite forallb_forall in H. apply HAS. apply H. exact I.
  - apply HAS. assumption.
  - apply existsb_exists in H3; destruct H3 as [[a b] [I E]].
    simpl in *. apply andb_prop in E. destruct E as [E1 E2]. apply String.eqb_eq in E1. apply String.eqb_eq in E2. subst. exact I.
  - apply existsb_exists in H4; destruct H4 as [[a b] [I E]].
    simpl in *. apply String.eqb_eq in E. subst. exists a. exact I.
  - apply Nat.leb_le. assumption.
Qed.

Lemma phase_reinit_generated :
  phase_reinit_ok phase_init_consts phase_init_others phase_store_reinit_calls phase_alloc_init_calls = true.
Proof. vm_compute. reflexivity. Qed.

(* ---------------------------------------------------------------- caller-side cache of the fugacity coefficient (prep.cpp) *)
(* adjust_setup_pure_phases / adjust_setup_solution reuse the phi cached on the phase (pr_phi, pr_si_f) without calling calc_PR
   ONLY when the cache is marked valid and was computed for the same pressure AND the same temperature. *)
Definition cache_guard_ok (g : bexpr) : Prop :=
  forall pr_in p pr_p t pr_tk,
    evalB (env_of [pr_in; p; pr_p; t; pr_tk]) g <-> (pr_in = 0 \/ p <> pr_p \/ t <> pr_tk).

Lemma cache_guard_generic : forall g,
  g = BOr (BOr (BNot (BNe (Var 0) (Const (0 # 1)))) (BNe (Var 1) (Var 2))) (BNe (Var 3) (Var 4)) -> cache_guard_ok g.
Proof.
  intros g -> pr_in p pr_p t pr_tk. cbn [evalB evalR env_of nth]. rewrite Q2R_make.
  replace (0 / 1) with 0 by field. split.
  - intros [[H | H] | H]; [left | right; left; exact H | right; right; exact H].
    destruct (Req_dec pr_in 0) as [E | E]; [exact E | contradiction].
  - intros [H | [H | H]]; [left; left; intro N; apply N; exact H | left; right; exact H | right; exact H].
Qed.

Lemma phi_cache_guards :
  cache_guard_ok pp_phi_cache_guard /\ cache_guard_ok sb_phi_cache_guard /\
  pp_calc_PR_call = "calc_PR(phase_ptrs, p, t, 0)"%string /\ sb_calc_PR_call = "calc_PR(phase_ptrs, p, t, 0)"%string.
Proof. repeat split; try reflexivity; apply cache_guard_generic; reflexivity. Qed.
