(* C19 — guards and conditional (clamped) real expressions over Base.RExpr, for the regenerated
   `x > hi ? hi : (x < lo ? lo : x)` clamp of ln(phi) in calc_PR and the gas_in test of mb_gases.
   Pure syntax + Coq-Reals meaning; the translator (translator/c19_gen.py) only transliterates. *)
From Coq Require Import Reals List.
From IPV Require Import Base.RExpr.
Import ListNotations.
Local Open Scope R_scope.

Inductive bexpr : Type :=
| BLt (a b : rexpr) | BLe (a b : rexpr) | BGt (a b : rexpr) | BGe (a b : rexpr)
| BEq (a b : rexpr) | BNe (a b : rexpr)
| BAnd (p q : bexpr) | BOr (p q : bexpr) | BNot (p : bexpr).

Fixpoint evalB (env : nat -> R) (b : bexpr) : Prop :=
  match b with
  | BLt x y => evalR env x < evalR env y
  | BLe x y => evalR env x <= evalR env y
  | BGt x y => evalR env x > evalR env y
  | BGe x y => evalR env x >= evalR env y
  | BEq x y => evalR env x = evalR env y
  | BNe x y => evalR env x <> evalR env y
  | BAnd p q => evalB env p /\ evalB env q
  | BOr p q => evalB env p \/ evalB env q
  | BNot p => ~ evalB env p
  end.

(* conditional real expression: C's  c ? a : b *)
Inductive cexpr : Type :=
| CE (e : rexpr)
| CIte (c : bexpr) (a b : cexpr).

(* relational meaning (no decidability of real comparisons needed) *)
Inductive evalC (env : nat -> R) : cexpr -> R -> Prop :=
| evalC_E : forall e, evalC env (CE e) (evalR env e)
| evalC_T : forall c a b r, evalB env c -> evalC env a r -> evalC env (CIte c a b) r
| evalC_F : forall c a b r, ~ evalB env c -> evalC env b r -> evalC env (CIte c a b) r.

Lemma evalC_E_inv : forall env e r, evalC env (CE e) r -> r = evalR env e.
Proof. intros env e r H. inversion H; subst; reflexivity. Qed.

Lemma evalC_Ite_inv : forall env c a b r, evalC env (CIte c a b) r ->
  (evalB env c /\ evalC env a r) \/ (~ evalB env c /\ evalC env b r).
Proof. intros env c a b r H. inversion H; subst; [left | right]; split; assumption. Qed.
