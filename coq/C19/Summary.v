(* C19 -- the statements of Props/Properties_C19.v with their (short) derivations from the lemmas of PRProofs.v, Mix.v,
   Checker.v; Props/ only contains `exact`. *)
From Coq Require Import Reals QArith Qreals List String Lra.
From IPV Require Import Base.RExpr Base.IntervalEval C19.BExpr C19.Spec C19.PRProofs C19.Cardano C19.Mix C19.Kij C19.Checker C19.Examples Gen.Gen_C19_gases.
Import ListNotations.
Local Open Scope R_scope.

Lemma T_pr_constants :
  ((forall Rg Tc Pc, Pc <> 0 -> evalR (env_of [Rg; Tc; Pc]) p_pr_a = pr_a Rg Tc Pc) /\
   (forall Rg Tc Pc, Pc <> 0 -> evalR (env_of [Rg; Tc; Pc]) p_pr_b = pr_b Rg Tc Pc) /\
   (forall T Tc w, Tc <> 0 -> evalR (env_of [T; Tc; w]) p_alpha0 = pr_alpha T Tc w) /\
   (forall T Tc w, Tc <> 0 -> evalR (env_of [T; Tc; w]) p_alpha1 = pr_alpha T Tc w)) /\
  ((forall Rg Tc Pc, Pc <> 0 -> evalR (env_of [Rg; Tc; Pc]) g_pr_a = pr_a Rg Tc Pc) /\
   (forall Rg Tc Pc, Pc <> 0 -> evalR (env_of [Rg; Tc; Pc]) g_pr_b = pr_b Rg Tc Pc) /\
   (forall T Tc w, Tc <> 0 -> evalR (env_of [T; Tc; w]) g_alpha0 = pr_alpha T Tc w) /\
   (forall T Tc w, Tc <> 0 -> evalR (env_of [T; Tc; w]) g_alpha1 = pr_alpha T Tc w)).
Proof. exact (conj p_constants g_constants). Qed.

Lemma T_alpha_refreshed_when_temperature_changes :
  (forall tk T, evalB (env_of [tk; T]) p_alpha_refresh_guard <-> tk <> T) /\
  (forall tk T, evalB (env_of [tk; T]) g_alpha_refresh_guard <-> tk <> T) /\
  map snd p_pr_tk_stores = ["TK"%string; "TK"%string] /\ map snd g_pr_tk_stores = ["TK"%string; "TK"%string].
Proof. exact p_g_alpha_refresh. Qed.

Lemma T_gas_constant_within_tolerance :
  Rabs (evalR (env_of []) p_R - R_gas) <= 3 / 100000 * R_gas /\ Rabs (evalR (env_of []) g_R - R_gas) <= 3 / 100000 * R_gas.
Proof. exact (conj (R_code_close p_R (or_introl eq_refl)) (R_code_close g_R (or_intror eq_refl))). Qed.

Lemma T_pressure_formula_is_PR :
  (forall RT V b a, V - b <> 0 -> V * (V + 2 * b) - b * b <> 0 -> evalR (env_of [RT; V; b; a]) p_P = pr_pressure RT V b a) /\
  (forall RT V b a, V - b <> 0 -> V * (V + 2 * b) - b * b <> 0 -> evalR (env_of [RT; V; b; a]) p_P_v1 = pr_pressure RT V b a) /\
  (forall RT V b a, V - b <> 0 -> V * (V + 2 * b) - b * b <> 0 -> evalR (env_of [RT; V; b; a]) g_P = pr_pressure RT V b a) /\
  (forall RT V b a, V - b <> 0 -> V * (V + 2 * b) - b * b <> 0 -> evalR (env_of [RT; V; b; a]) g_P_v1 = pr_pressure RT V b a).
Proof. exact (conj (proj1 p_pressure) (conj (proj2 p_pressure) (conj (proj1 g_pressure) (proj2 g_pressure)))). Qed.

Lemma T_cubic_equivalent :
  forall RT P b a V, P <> 0 -> V - b <> 0 -> V * V + 2 * b * V - b * b <> 0 ->
    let env := env_of [b; RT; a; P] in
    (P = pr_pressure RT V b a <-> V * V * V + evalR env p_r31_p * (V * V) + evalR env p_r32_p * V + evalR env p_r33_p = 0) /\
    (P = pr_pressure RT V b a <-> V * V * V + evalR env p_r31_v * (V * V) + evalR env p_r32_v * V + evalR env p_r33_v = 0) /\
    (P = pr_pressure RT V b a <-> V * V * V + evalR env g_r31_p * (V * V) + evalR env g_r32_p * V + evalR env g_r33_p = 0) /\
    (P = pr_pressure RT V b a <-> V * V * V + evalR env g_r31_v * (V * V) + evalR env g_r32_v * V + evalR env g_r33_v = 0).
Proof.
  intros RT P b a V HP H1 H2 env.
  exact (conj (cubic_equivalent_for _ _ _ (proj2 p_cubic_coeffs) RT P b a V HP H1 H2)
        (conj (cubic_equivalent_for _ _ _ (proj1 p_cubic_coeffs) RT P b a V HP H1 H2)
        (conj (cubic_equivalent_for _ _ _ (proj2 g_cubic_coeffs) RT P b a V HP H1 H2)
              (cubic_equivalent_for _ _ _ (proj1 g_cubic_coeffs) RT P b a V HP H1 H2)))).
Qed.

Lemma T_cubic_discriminant_and_depressed_form :
  (forall r1 r2 r3, evalR (env_of [r1; r2; r3]) p_disct = cubic_disc r1 r2 r3) /\
  (forall r1 r2 r3, evalR (env_of [r1; r2; r3]) g_disct = cubic_disc r1 r2 r3) /\
  (forall r1 r2 r3 V, let env := env_of [r1; r2; r3] in let t := V + r1 / 3 in
     V * V * V + r1 * (V * V) + r2 * V + r3 = t * t * t + evalR env p_rp * t + evalR env p_rq) /\
  (forall r1 r2 r3 V, let env := env_of [r1; r2; r3] in let t := V + r1 / 3 in
     V * V * V + r1 * (V * V) + r2 * V + r3 = t * t * t + evalR env g_rp * t + evalR env g_rq).
Proof. exact (conj (proj1 p_g_disc) (conj (proj2 p_g_disc) (conj (proj1 p_g_depressed) (proj2 p_g_depressed)))). Qed.

Lemma T_cardano_branch_root_partial :
  (forall rp rq r1 u, u <> 0 -> let rz := evalR (env_of [rp; rq]) p_rzc in
     0 <= rz -> u * u * u = - (sqrt rz + rq / 2) ->
     let V := evalR (env_of [u; rp; r1]) p_Vm_card2 in let t := V + r1 / 3 in t * t * t + rp * t + rq = 0) /\
  (forall rp rq r1 u, u <> 0 -> let rz := evalR (env_of [rp; rq]) g_rzc in
     0 <= rz -> u * u * u = - (sqrt rz + rq / 2) ->
     let V := evalR (env_of [u; rp; r1]) g_Vm_card2 in let t := V + r1 / 3 in t * t * t + rp * t + rq = 0) /\
  Rabs (evalR (env_of []) p_one_3 - 1 / 3) <= 1 / 100000000000000000 /\ Rabs (evalR (env_of []) g_one_3 - 1 / 3) <= 1 / 100000000000000000.
Proof.
  exact (conj (proj1 p_g_cardano2) (conj (proj2 p_g_cardano2)
        (conj (one_third_literal p_one_3 (or_introl eq_refl)) (one_third_literal g_one_3 (or_intror eq_refl))))).
Qed.

Lemma T_phi_formula_is_PR :
  (exists c1 c2 c3 : R,
    Rabs (c1 - 2 * sqrt 2) <= 3 / 10 ^ 7 /\ Rabs (c2 - (1 + sqrt 2)) <= 1 / 10 ^ 8 /\ Rabs (c3 - (sqrt 2 - 1)) <= 1 / 10 ^ 8 /\
    forall P V RT b a bi s2, RT <> 0 -> b <> 0 -> a <> 0 -> P <> 0 ->
      let Z := P * V / RT in let B := b * P / RT in Z - c3 * B <> 0 ->
      evalR (env_of [P; V; RT; b; a; bi; s2]) p_lnphi = ln_phi_gen c1 c2 c3 Z (a * P / (RT * RT)) B (bi / b) s2 a) /\
  (exists c1 c2 c3 : R,
    Rabs (c1 - 2 * sqrt 2) <= 3 / 10 ^ 7 /\ Rabs (c2 - (1 + sqrt 2)) <= 1 / 10 ^ 8 /\ Rabs (c3 - (sqrt 2 - 1)) <= 1 / 10 ^ 8 /\
    forall P V RT b a bi s2, RT <> 0 -> b <> 0 -> a <> 0 -> P <> 0 ->
      let Z := P * V / RT in let B := b * P / RT in Z - c3 * B <> 0 ->
      evalR (env_of [P; V; RT; b; a; bi; s2]) g_lnphi = ln_phi_gen c1 c2 c3 Z (a * P / (RT * RT)) B (bi / b) s2 a).
Proof. exact (conj p_lnphi_ok g_lnphi_ok). Qed.

Lemma T_phi_guard_clamp_and_outputs :
  ((forall P V RT, RT <> 0 -> evalR (env_of [P; V; RT]) p_Z = P * V / RT) /\
   (forall a P RT, RT <> 0 -> evalR (env_of [a; P; RT]) p_A = a * P / (RT * RT)) /\
   (forall b P RT, RT <> 0 -> evalR (env_of [b; P; RT]) p_B = b * P / RT)) /\
  ((forall P V RT, RT <> 0 -> evalR (env_of [P; V; RT]) g_Z = P * V / RT) /\
   (forall a P RT, RT <> 0 -> evalR (env_of [a; P; RT]) g_A = a * P / (RT * RT)) /\
   (forall b P RT, RT <> 0 -> evalR (env_of [b; P; RT]) g_B = b * P / RT)) /\
  (forall P V RT b, RT <> 0 -> (evalB (env_of [P; V; RT; b]) p_lnphi_guard <-> P * V / RT > b * P / RT)) /\
  (forall P V RT b, RT <> 0 -> (evalB (env_of [P; V; RT; b]) g_lnphi_guard <-> P * V / RT > b * P / RT)) /\
  (forall x r, evalC (env_of [x]) p_lnphi_clamp r -> r = Rmax (-4.6) (Rmin 4.44 x)) /\
  (forall x r, evalC (env_of [x]) g_lnphi_clamp r -> r = Rmax (-4.6) (Rmin 4.44 x)) /\
  (evalR (env_of []) p_lnphi_else = -4.6 /\ (forall l, evalR (env_of [l]) p_pr_phi = exp l) /\
   (forall l, evalR (env_of [l; ln 10]) p_si_f = ln (exp l) / ln 10)) /\
  (evalR (env_of []) g_lnphi_else = -4.6 /\ (forall l, evalR (env_of [l]) g_pr_phi = exp l) /\
   (forall l, evalR (env_of [l; ln 10]) g_si_f = ln (exp l) / ln 10)) /\
  (p_pr_phi_site_conds = [["phase_ptr->fraction_x == 0.0"%string]; []] /\
   p_pr_si_f_site_conds = [["phase_ptr->fraction_x == 0.0"%string]; []] /\
   p_pr_p_site_conds = [["phase_ptr->fraction_x == 0.0"%string]; []] /\
   g_pr_phi_site_conds = [["phase_ptr->fraction_x == 0.0"%string]; []] /\
   g_pr_si_f_site_conds = [["phase_ptr->fraction_x == 0.0"%string]; []] /\
   g_pr_p_site_conds = [["phase_ptr->fraction_x == 0.0"%string]; []]).
Proof.
  exact (conj (proj1 p_g_zab) (conj (proj2 p_g_zab) (conj (proj1 p_g_guard) (conj (proj2 p_g_guard)
        (conj (proj1 p_g_clamp) (conj (proj2 p_g_clamp) (conj (proj1 p_g_phi_out) (conj (proj2 p_g_phi_out) p_g_store_shape)))))))).
Qed.

Lemma T_mixing_rules : forall (kf : nat -> nat -> R) (cs : list comp),
  (b_loop p_bsum_inc cs = b_mix cs /\
   fst (a_loop p_aa p_aasum_inc p_aasum2_inc kf cs) = a_mix kf cs /\
   snd (a_loop p_aa p_aasum_inc p_aasum2_inc kf cs) = map (fun p => s2_of kf cs (fst p) (snd p)) (combine (seq 0 (List.length cs)) cs)) /\
  (b_loop g_bsum_inc cs = b_mix cs /\
   fst (a_loop g_aa g_aasum_inc g_aasum2_inc kf cs) = a_mix kf cs /\
   snd (a_loop g_aa g_aasum_inc g_aasum2_inc kf cs) = map (fun p => s2_of kf cs (fst p) (snd p)) (combine (seq 0 (List.length cs)) cs)) /\
  (forall s, evalR (env_of [s]) p_aasum2_store = s) /\ (forall s, evalR (env_of [s]) g_aasum2_store = s) /\
  (forall k, evalR (env_of [k]) bip_from_table = 1 - k) /\ evalR (env_of []) bip_default = 1.
Proof.
  intros kf cs.
  exact (conj (p_mixing_rules kf cs) (conj (g_mixing_rules kf cs)
        (conj (proj2 (proj2 (proj2 (proj2 p_mixing_leaves)))) (conj (proj2 (proj2 (proj2 (proj2 g_mixing_leaves))))
        (conj (proj1 bip_leaves) (proj2 bip_leaves)))))).
Qed.

Lemma T_partial_pressures_sum : forall (ns : list R) (P : R), sumR ns <> 0 ->
  (pr_p_loop p_x_frac p_pr_p ns P = map (fun n => n / sumR ns * P) ns /\ sumR (pr_p_loop p_x_frac p_pr_p ns P) = P) /\
  (pr_p_loop g_x_frac g_pr_p ns P = map (fun n => n / sumR ns * P) ns /\ sumR (pr_p_loop g_x_frac g_pr_p ns P) = P).
Proof.
  intros ns P H.
  exact (conj (partial_pressures_sum_for _ _ (proj1 p_g_partial_leaves) ns P H)
              (partial_pressures_sum_for _ _ (proj2 p_g_partial_leaves) ns P H)).
Qed.

Lemma T_fugacity_is_10_pow_SI :
  (forall lp lnphi, let sif := evalR (env_of [lnphi; ln 10]) p_si_f in
     exp lnphi * evalR (env_of [ln 10; lp; sif]) cg_p_soln = Rpower 10 lp) /\
  (forall lp lnphi, let sif := evalR (env_of [lnphi; ln 10]) g_si_f in
     exp lnphi * evalR (env_of [ln 10; lp; sif]) fv_p_soln = Rpower 10 lp) /\
  (forall lp lnphi, let sif := evalR (env_of [lnphi; ln 10]) p_si_f in
     exp lnphi * evalR (env_of [ln 10; lp; sif]) fv_p_soln = Rpower 10 lp) /\
  (forall lk toks, lp_loop cg_lp0 cg_lp_inc lk toks = sumR (map (fun t => fst t * snd t) toks) - lk) /\
  (forall lk toks, lp_loop fv_lp0 fv_lp_inc lk toks = sumR (map (fun t => fst t * snd t) toks) - lk).
Proof.
  destruct lp_leaves as (A1 & A2 & A3 & A4).
  exact (conj (fugacity_generic _ _ (proj1 si_f_leaves) (proj1 p_soln_leaves))
        (conj (fugacity_generic _ _ (proj2 si_f_leaves) (proj2 p_soln_leaves))
        (conj (fugacity_generic _ _ (proj1 si_f_leaves) (proj2 p_soln_leaves))
        (conj (lp_loop_is_SI _ _ A1 A2) (lp_loop_is_SI _ _ A3 A4))))).
Qed.

Lemma T_moles_from_partial_pressures_and_ideal_gas_law :
  ((forall p n P, evalR (env_of [p; n; P]) cg_moles_fp = p * n / P) /\
   (forall p n P, n <> 0 -> P <> 0 -> evalR (env_of [p; n; P]) cg_frac_fp = p / P) /\
   (forall p P V Vm, evalR (env_of [p; P; V; Vm]) cg_moles_pr_fv = p / P * V / Vm) /\
   (forall p P V Vm, evalR (env_of [p; P; V; Vm]) fv_moles_pr = p / P * V / Vm) /\
   (forall V n, evalR (env_of [V; n]) cg_Vm0 = V / n)) /\
  (forall V T ps, 820597 / 10000000 * T <> 0 ->
     let st := ideal_loop cg_moles_ideal cg_totp_ideal V T ps in
     fst st = sumR ps /\ fst st * V = snd st * (820597 / 10000000) * T) /\
  (forall V T ps, 820597 / 10000000 * T <> 0 ->
     let st := ideal_loop fv_moles_ideal fv_totp_ideal V T ps in
     fst st = sumR ps /\ fst st * V = snd st * (820597 / 10000000) * T).
Proof.
  destruct ideal_leaves as (I1 & I2 & I3 & I4).
  exact (conj moles_leaves (conj (ideal_gas_law_for _ _ _ I1 I2) (ideal_gas_law_for _ _ _ I3 I4))).
Qed.

Lemma T_initial_moles_from_partial_pressures :
  (forall V T ps, T <> 0 ->
     let st := init_ideal td_moles_ideal_fp td_P_inc_fp V T ps in
     fst st = sumR ps /\ fst st * V = snd st * (820597 / 10000000) * T) /\
  (forall V T ps, T <> 0 ->
     let st := init_ideal td_moles_ideal_fv td_P_inc_fv V T ps in
     fst st = sumR ps /\ fst st * V = snd st * (820597 / 10000000) * T) /\
  (forall V Vm ps, sumR ps <> 0 -> Vm <> 0 ->
     init_pr td_x td_moles_pr V Vm ps = map (fun p => p / sumR ps * V / Vm) ps /\ sumR (init_pr td_x td_moles_pr V Vm ps) = V / Vm).
Proof. exact initial_moles_all. Qed.

Lemma T_fixed_pressure_exists_iff : forall f P moles min_total,
  (evalB (env_of [f; P; moles; min_total]) mb_gas_in_guard <-> (f > P + 1 / 10000000 \/ moles > min_total)) /\
  mb_gas_in_initially_false = true /\ mb_gas_in_sites_fixed_pressure = 1%nat.
Proof. intros. exact (conj (mb_gases_guard f P moles min_total) mb_gases_shape). Qed.

Lemma T_check_gas_sound :
  (forall T P V m cs, check_eos_any T P V m cs = true ->
     exists Rg, (Rg = R_code \/ Rg = R_codata) /\ Rabs (P_eos_R Rg T V m cs - Q2R P) <= / 10000 * Rabs (Q2R P)) /\
  (forall T P V cs, check_ideal_any T P V cs = true ->
     exists Rg, (Rg = R_code \/ Rg = R_codata) /\
       Rabs (ideal_pressure (Q2R Rg) (Q2R T) (Q2R V) (ntot_R cs) - Q2R P) <= / 10000 * Rabs (Q2R P)) /\
  (forall Rg T P V m cs k ck phi, check_phi Rg T P V m cs k ck phi = true ->
     Rabs (exp (lnphi_R Rg T P V m cs k ck) - Q2R phi) <= / 1000000 * Rabs (Q2R phi)) /\
  (forall tolw Rg T P Vw m cs k ck phi, check_phi_at tolw Rg T P Vw m cs k ck phi = true ->
     Rabs (P_eos_R Rg T Vw m cs - Q2R P) <= Q2R tolw * Rabs (Q2R P) /\
     Rabs (exp (lnphi_R Rg T P Vw m cs k ck) - Q2R phi) <= / 1000000 * Rabs (Q2R phi)) /\
  (forall Rg T P V m cs k ck,
     (check_clamped_hi Rg T P V m cs k ck = true -> 4.44 <= lnphi_R Rg T P V m cs k ck) /\
     (check_clamped_lo Rg T P V m cs k ck = true -> lnphi_R Rg T P V m cs k ck <= -4.6)) /\
  (forall tol P cs ck p, check_partial tol P cs ck p = true ->
     Rabs (Q2R (g_n ck) / ntot_R cs * Q2R P - Q2R p) <= Q2R tol * Rabs (Q2R p)) /\
  (forall tol P cs ck p, check_partial_floor tol P cs ck p = true ->
     Rabs (Q2R (g_n ck) / ntot_R cs * Q2R P - Q2R p) <= Q2R tol * Q2R P) /\
  (forall tol P ps, check_psum tol P ps = true -> Rabs (sumR (map Q2R ps) - Q2R P) <= Q2R tol * Rabs (Q2R P)) /\
  (forall tol phi p si, check_fug tol phi p si = true ->
     Rabs (Q2R phi * Q2R p - Rpower 10 (Q2R si)) <= Q2R tol * Rabs (Rpower 10 (Q2R si))) /\
  (forall tol phi p si P, check_fug_floor tol phi p si P = true ->
     Rabs (Q2R phi * Q2R p - Rpower 10 (Q2R si)) <= Q2R tol * Q2R P) /\
  (forall tol P l, check_reaches tol P l = true -> Q2R P * (1 - Q2R tol) <= peq_sum_R l) /\
  (forall tol P l, check_below tol P l = true -> peq_sum_R l <= Q2R P * (1 + Q2R tol)) /\
  (forall Rg T P m cs, check_three_roots Rg T P m cs = true -> 0 < disc_R Rg T P m cs) /\
  (forall Rg T V m cs, check_three_roots_at_V Rg T V m cs = true -> 0 < disc_Rg Rg T (P_eos_R Rg T V m cs) m cs) /\
  (forall Rg T V m cs, check_nonpositive_pressure_at_V Rg T V m cs = true -> P_eos_R Rg T V m cs <= 0).
Proof.
  exact ((conj check_eos_any_sound (conj check_ideal_any_sound (conj check_phi_sound (conj check_phi_at_sound (conj check_clamped_sound (conj check_partial_sound (conj check_partial_floor_sound (conj check_psum_sound (conj check_fug_sound (conj check_fug_floor_sound (conj check_reaches_sound (conj check_below_sound (conj check_three_roots_sound (conj check_three_roots_at_V_sound check_nonpositive_pressure_at_V_sound))))))))))))))).
Qed.

Lemma T_cardano_and_trigonometric_roots_partial :
  forall (cr : R -> R) (one3 : R), (forall x, cr x * cr x * cr x = x) -> (forall x, 0 < x -> Rpower x one3 = cr x) ->
  (forall rp rq r1, let rz := evalR (env_of [rp; rq]) p_rzc in
     0 <= rz -> 0 < sqrt rz - rq / 2 -> 0 < - sqrt rz - rq / 2 ->
     let V := evalR (env_of [sqrt rz; rq; r1; one3]) p_Vm_card1 in let t := V + r1 / 3 in t * t * t + rp * t + rq = 0) /\
  (forall rp rq r1, let rz := evalR (env_of [rp; rq]) g_rzc in
     0 <= rz -> 0 < sqrt rz - rq / 2 -> 0 < - sqrt rz - rq / 2 ->
     let V := evalR (env_of [sqrt rz; rq; r1; one3]) g_Vm_card1 in let t := V + r1 / 3 in t * t * t + rp * t + rq = 0) /\
  (forall rp rq r1 th, rp < 0 -> let ri := evalR (env_of [rp]) p_ri_trig in
     cos th = evalR (env_of [rq; ri]) p_acos_arg ->
     let V := evalR (env_of [ri; one3; th; r1]) p_Vm_trig in let t := V + r1 / 3 in t * t * t + rp * t + rq = 0) /\
  (forall rp rq r1 th, rp < 0 -> let ri := evalR (env_of [rp]) g_ri_trig in
     cos th = evalR (env_of [rq; ri]) g_acos_arg ->
     let V := evalR (env_of [ri; one3; th; r1]) g_Vm_trig in let t := V + r1 / 3 in t * t * t + rp * t + rq = 0).
Proof.
  intros cr one3 H1 H2.
  exact (conj (proj1 (p_g_cardano1 cr one3 H1 H2)) (conj (proj2 (p_g_cardano1 cr one3 H1 H2))
        (conj (proj1 (p_g_trig cr one3 H1 H2)) (proj2 (p_g_trig cr one3 H1 H2))))).
Qed.

Lemma T_phase_redefinition_resets_cached_gas_state :
  (forall f, In f ["pr_si_f"; "pr_p"; "pr_tk"; "pr_a"; "pr_b"; "pr_alpha"; "pr_aa_sum2"; "t_c"; "p_c"; "omega"; "p_soln_x"; "moles_x";
                   "fraction_x"; "lk"; "in"]%string -> exists q, In (f, q) phase_init_consts /\ (q == 0)%Q) /\
  (exists q, In ("pr_phi"%string, q) phase_init_consts /\ (q == 1)%Q) /\ In ("pr_in"%string, "false"%string) phase_init_others /\
  (exists c, In (c, "phase_init(phase_ptr)"%string) phase_store_reinit_calls) /\ (1 <= phase_alloc_init_calls)%nat.
Proof. exact (phase_reinit_sound _ _ _ _ phase_reinit_generated). Qed.

Lemma T_binary_parameter_table_symmetric :
  (forall ds a b, read_all bip_reader_stores ds (a, b) = read_all bip_reader_stores ds (b, a)) /\
  (forall ds g1 g2 v, let t := read_all bip_reader_stores (ds ++ [(g1, g2, v)]) in t (g1, g2) = Some v /\ t (g2, g1) = Some v) /\
  bip_reader_other_mutations = [].
Proof.
  split; [| split].
  - intros ds a b. apply (table_symmetric _ _ reader_generated_ok).
  - intros ds g1 g2 v. apply (last_definition_wins _ _ reader_generated_ok).
  - reflexivity.
Qed.

Lemma T_cached_phi_reused_only_for_same_pressure_and_temperature :
  (forall pr_in p pr_p t pr_tk,
     evalB (env_of [pr_in; p; pr_p; t; pr_tk]) pp_phi_cache_guard <-> (pr_in = 0 \/ p <> pr_p \/ t <> pr_tk)) /\
  (forall pr_in p pr_p t pr_tk,
     evalB (env_of [pr_in; p; pr_p; t; pr_tk]) sb_phi_cache_guard <-> (pr_in = 0 \/ p <> pr_p \/ t <> pr_tk)) /\
  pp_calc_PR_call = "calc_PR(phase_ptrs, p, t, 0)"%string /\ sb_calc_PR_call = "calc_PR(phase_ptrs, p, t, 0)"%string.
Proof. exact phi_cache_guards. Qed.
