(* C19 -- the closed-form solution of the depressed cubic  t^3 + rp t + rq = 0  in calc_PR (pressure given, V_m wanted):
   Cardano's formula (one real root, two sub-branches) and the trigonometric formula (three real roots, largest one).
   The regenerated right-hand sides are roots PROVIDED the library functions are exact: the section variables below are
   the oracle for `pow(x, 0.33333333333333333)` (an exact real cube root on positive arguments) and, in the trigonometric
   branch, the angle th returned by acos (cos th = argument).  Rounding, and the 1e-17 error of the literal 1/3, are not
   modelled; the implementation's roots are checked on every case by the verified checker (check_eos). *)
From Coq Require Import Reals QArith Qreals List String Lra Lia.
From IPV Require Import Base.RExpr C19.BExpr C19.Spec Gen.Gen_C19_gases.
Import ListNotations.
Local Open Scope R_scope.

Ltac ev := unfold_evalR; cbn [powerRZ]; repeat match goal with |- context[Pos.to_nat ?p] => let n := eval compute in (Pos.to_nat p) in change (Pos.to_nat p) with n end; cbn [pow]; unfold Rdiv.

Ltac norm1 := repeat match goal with |- context[?n * / 1] => replace (n * / 1) with n by field end.

Lemma cube_lt : forall x y, x < y -> x * x * x < y * y * y.
Proof.
  intros x y H.
  assert (E : y * y * y - x * x * x = (y - x) * ((y + x / 2) * (y + x / 2) + 3 / 4 * (x * x))) by field.
  assert (P : 0 < (y + x / 2) * (y + x / 2) + 3 / 4 * (x * x)).
  { destruct (Req_dec x 0) as [Z | NZ].
    - subst x. assert (0 < y) by lra. nra.
    - assert (0 < x * x) by (destruct (Rtotal_order x 0) as [L | [L | L]]; nra). nra. }
  assert (0 < (y - x) * ((y + x / 2) * (y + x / 2) + 3 / 4 * (x * x))) by (apply Rmult_lt_0_compat; lra).
  lra.
Qed.

Lemma cube_inj : forall x y, x * x * x = y * y * y -> x = y.
Proof.
  intros x y H. destruct (Rtotal_order x y) as [L | [E | L]]; [| exact E |].
  - apply cube_lt in L. lra.
  - apply cube_lt in L. lra.
Qed.

Lemma cos_3a : forall a, cos (3 * a) = 4 * (cos a * cos a * cos a) - 3 * cos a.
Proof.
  intros a. replace (3 * a) with (a + 2 * a) by ring. rewrite cos_plus, cos_2a_cos, sin_2a.
  assert (S : sin a * sin a = 1 - cos a * cos a) by (pose proof (sin2_cos2 a) as H; unfold Rsqr in H; lra).
  replace (sin a * (2 * sin a * cos a)) with (2 * (sin a * sin a) * cos a) by ring. rewrite S. ring.
Qed.

Section Roots.
  (* oracle for pow(x, one_3): an exact cube root on positive arguments *)
  Variable cr : R -> R.
  Variable one3 : R.
  Hypothesis cr_cube : forall x, cr x * cr x * cr x = x.
  Hypothesis pow_is_cr : forall x, 0 < x -> Rpower x one3 = cr x.

  (* ---- Cardano, both cube roots real:  sqrt(rz) + rq/2 < 0 *)
  Definition cardano1_ok (e_rz e_V : rexpr) : Prop :=
    forall rp rq r1,
      let rz := evalR (env_of [rp; rq]) e_rz in
      0 <= rz -> 0 < sqrt rz - rq / 2 -> 0 < - sqrt rz - rq / 2 ->
      let V := evalR (env_of [sqrt rz; rq; r1; one3]) e_V in let t := V + r1 / 3 in
      t * t * t + rp * t + rq = 0.

  Lemma cardano1_core : forall rp rq s u1 u2, 0 <= s * s -> s * s = rq * rq / 4 + rp * rp * rp / 27 ->
    u1 * u1 * u1 = s - rq / 2 -> u2 * u2 * u2 = - s - rq / 2 ->
    let t := u1 + u2 in t * t * t + rp * t + rq = 0.
  Proof.
    intros rp rq s u1 u2 _ Hs H1 H2 t. subst t.
    assert (P : u1 * u2 = - rp / 3).
    { apply cube_inj.
      replace (u1 * u2 * (u1 * u2) * (u1 * u2)) with ((u1 * u1 * u1) * (u2 * u2 * u2)) by ring.
      rewrite H1, H2. replace ((s - rq / 2) * (- s - rq / 2)) with (rq * rq / 4 - s * s) by field.
      rewrite Hs. field. }
    replace ((u1 + u2) * (u1 + u2) * (u1 + u2)) with (u1 * u1 * u1 + u2 * u2 * u2 + 3 * (u1 * u2) * (u1 + u2)) by ring.
    rewrite H1, H2, P. field.
  Qed.

  Lemma p_g_cardano1 : cardano1_ok p_rzc p_Vm_card1 /\ cardano1_ok g_rzc g_Vm_card1.
  Proof.
    split; intros rp rq r1 rz Hrz Hp1 Hp2 V t; subst V t.
    - assert (EV : evalR (env_of [sqrt rz; rq; r1; one3]) p_Vm_card1 + r1 / 3 = cr (sqrt rz - rq / 2) + cr (- sqrt rz - rq / 2)).
      { unfold p_Vm_card1. ev. norm1.
        repeat match goal with |- context[Rpower ?a one3] => rewrite (pow_is_cr a) by (unfold Rdiv in *; lra) end.
        unfold Rdiv. field. }
      rewrite EV. apply (cardano1_core rp rq (sqrt rz)); try apply cr_cube.
      + apply Rle_0_sqr.
      + rewrite sqrt_sqrt by assumption. subst rz. unfold p_rzc. ev. field.
    - assert (EV : evalR (env_of [sqrt rz; rq; r1; one3]) g_Vm_card1 + r1 / 3 = cr (sqrt rz - rq / 2) + cr (- sqrt rz - rq / 2)).
      { unfold g_Vm_card1. ev. norm1.
        repeat match goal with |- context[Rpower ?a one3] => rewrite (pow_is_cr a) by (unfold Rdiv in *; lra) end.
        unfold Rdiv. field. }
      rewrite EV. apply (cardano1_core rp rq (sqrt rz)); try apply cr_cube.
      + apply Rle_0_sqr.
      + rewrite sqrt_sqrt by assumption. subst rz. unfold g_rzc. ev. field.
  Qed.

  (* ---- trigonometric branch (rz < 0, hence rp < 0): largest of the three real roots *)
  Definition trig_ok (e_ri e_arg e_V : rexpr) : Prop :=
    forall rp rq r1 th, rp < 0 ->
      let ri := evalR (env_of [rp]) e_ri in
      cos th = evalR (env_of [rq; ri]) e_arg ->
      let V := evalR (env_of [ri; one3; th; r1]) e_V in let t := V + r1 / 3 in
      t * t * t + rp * t + rq = 0.

  Lemma trig_core : forall rp rq ri u th, rp < 0 -> 0 < ri -> ri * ri = - (rp * rp * rp) / 27 -> u * u * u = ri ->
    cos th = - rq / 2 / ri ->
    let t := 2 * u * cos (th / 3) in t * t * t + rp * t + rq = 0.
  Proof.
    intros rp rq ri u th Hrp Hri Hri2 Hu Hc t. subst t.
    assert (U2 : u * u = - rp / 3).
    { apply cube_inj. replace (u * u * (u * u) * (u * u)) with ((u * u * u) * (u * u * u)) by ring.
      rewrite Hu, Hri2. field. }
    set (c := cos (th / 3)).
    assert (C3 : 4 * (c * c * c) - 3 * c = - rq / 2 / ri).
    { unfold c. rewrite <- cos_3a. replace (3 * (th / 3)) with th by field. exact Hc. }
    replace (2 * u * c * (2 * u * c) * (2 * u * c) + rp * (2 * u * c) + rq)
      with (2 * (u * u * u) * (4 * (c * c * c)) + 2 * rp * u * c + rq) by ring.
    replace rp with (- 3 * (u * u)) at 1 by lra.
    replace (2 * (u * u * u) * (4 * (c * c * c)) + 2 * (- 3 * (u * u)) * u * c + rq)
      with (2 * (u * u * u) * (4 * (c * c * c) - 3 * c) + rq) by ring.
    rewrite C3, Hu. field. lra.
  Qed.

  Lemma p_g_trig : trig_ok p_ri_trig p_acos_arg p_Vm_trig /\ trig_ok g_ri_trig g_acos_arg g_Vm_trig.
  Proof.
    assert (K : forall rp, rp < 0 -> 0 < sqrt (- (rp * rp * rp) / 27) /\
                  sqrt (- (rp * rp * rp) / 27) * sqrt (- (rp * rp * rp) / 27) = - (rp * rp * rp) / 27).
    { intros rp H. assert (0 < - (rp * rp * rp) / 27).
      { assert (0 < rp * rp) by nra. assert (rp * rp * rp < 0) by nra. lra. }
      split; [apply sqrt_lt_R0; assumption | apply sqrt_sqrt; lra]. }
    split; intros rp rq r1 th Hrp ri Hc V t; subst V t.
    - assert (Eri : ri = sqrt (- (rp * rp * rp) / 27)) by (subst ri; unfold p_ri_trig; ev; norm1; reflexivity).
      destruct (K rp Hrp) as [Kp Ks]. rewrite <- Eri in Kp, Ks.
      assert (EV : evalR (env_of [ri; one3; th; r1]) p_Vm_trig + r1 / 3 = 2 * cr ri * cos (th / 3)).
      { unfold p_Vm_trig. ev. norm1. rewrite (pow_is_cr _ Kp). unfold Rdiv. field. }
      rewrite EV. apply (trig_core rp rq ri (cr ri) th Hrp Kp Ks (cr_cube ri)).
      rewrite Hc. unfold p_acos_arg. ev. field. lra.
    - assert (Eri : ri = sqrt (- (rp * rp * rp) / 27)) by (subst ri; unfold g_ri_trig; ev; norm1; reflexivity).
      destruct (K rp Hrp) as [Kp Ks]. rewrite <- Eri in Kp, Ks.
      assert (EV : evalR (env_of [ri; one3; th; r1]) g_Vm_trig + r1 / 3 = 2 * cr ri * cos (th / 3)).
      { unfold g_Vm_trig. ev. norm1. rewrite (pow_is_cr _ Kp). unfold Rdiv. field. }
      rewrite EV. apply (trig_core rp rq ri (cr ri) th Hrp Kp Ks (cr_cube ri)).
      rewrite Hc. unfold g_acos_arg. ev. field. lra.
  Qed.
End Roots.
