(** C06 — classification of every variable with static storage that the compiler emitted into the library
    (sections B b D d of `nm`, regenerated on every run into Gen/Gen_C06.v), and the lock / determinism
    obligations over the regenerated inventory. *)
From Coq Require Import List String Bool Arith.
Import ListNotations.
Local Open Scope string_scope.

Definition mem (s : string) (l : list string) : bool := existsb (String.eqb s) l.
Fixpoint ends (suf s : string) : bool :=
  if String.eqb suf s then true else match s with EmptyString => false | String _ t => ends suf t end.

(** guarded: every access is inside map_lock (see [registry_accesses_guarded]) *)
Definition guarded : list string := ["IPhreeqc::Instances"; "IPhreeqc::InstancesIndex"].

(** init-only: written during static initialisation only (the locks themselves, constant tables) *)
Definition init_only (s : string) : bool :=
  mem s ["map_lock"; "qsort_lock"; "IPhreeqc::Version"; "PBasic::command_tokens"; "Keywords::phreeqc_keywords"; "Keywords::phreeqc_keyword_names";
         "Phreeqc::iso_defaults"; "temp_keyword_names"; "temp_keywords"; "temp_tokens"; "temp_vopts"; "std::__ioinit"; "CParser::check_units()::units"]
  || ends "::vopts" s.

(** finding F3 (KNOWN_FINDINGS.json): file-scope working state of transport.cpp shared by all instances *)
Definition f3_transport_globals : list string :=
  ["F_Re3"; "tk_x2"; "dV_dcell"; "find_current"; "token"; "dif_spec_names"; "dif_els_names"; "neg_moles"; "els"; "Ct2"; "l_tk_x2"; "A"; "LU";
   "mixf"; "mixf_stag"; "mixf_comp_size"; "current_cells"; "sum_R"; "sum_Rd"; "ct"; "cell_J_ij"; "moles_added"; "count_moles_added"].

Inductive cls := Guarded | InitOnly | KnownF3 | Unclassified.
Definition classify (s : string) : cls :=
  if mem s guarded then Guarded else if init_only s then InitOnly else if mem s f3_transport_globals then KnownF3 else Unclassified.

Definition unclassified (syms : list string) : list string :=
  filter (fun s => match classify s with Unclassified => true | _ => false end) syms.

(** no shared mutable state beyond the guarded registry, init-only tables and the recorded finding F3 *)
Definition no_new_shared_state (syms : list string) : bool := match unclassified syms with [] => true | _ => false end.

(** every access to the registry in the current sources is made with map_lock held *)
Definition registry_accesses_guarded (acc : list (string * string * string * bool)) : bool :=
  forallb (fun a => snd a) acc && negb (Nat.eqb (List.length acc) 0).

(** the C library sort is only reached through the locking macro *)
Definition qsort_ok (macro_locks : bool) (bypass : list string) : bool := macro_locks && match bypass with [] => true | _ => false end.

(** nothing result-producing reads the clock or a random source: only the elapsed-time banner uses clock() *)
Definition time_allow : list string := ["Phreeqc.cpp:clock"; "mainsubs.cpp:clock"; "utilities.cpp:clock"].
Definition no_time_dependence (uses : list string) : bool := forallb (fun u => mem u time_allow) uses.
