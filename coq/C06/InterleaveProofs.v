(** Theorems about thread interleavings over the registry model.  (C06) *)
From Coq Require Import List ZArith String Bool Lia Sorted Permutation.
From IPV.Wrapper Require Import Registry RegistryProofs.
From IPV.C06 Require Import Interleave.
Import ListNotations.
Local Open Scope list_scope.
Local Open Scope Z_scope.

(** * list helpers *)

Lemma upd_split : forall A (l1 : list A) (a x : A) l2,
  upd (List.length l1) x (l1 ++ a :: l2) = l1 ++ x :: l2.
Proof.
  intros A l1 a x l2. induction l1 as [|h l1 IH]; simpl.
  - reflexivity.
  - rewrite IH. reflexivity.
Qed.

Lemma nth_upd_same : forall A (l : list A) i a x, nth_error l i = Some a -> nth_error (upd i x l) i = Some x.
Proof.
  intros A l. induction l as [|h l IH]; intros i a x H.
  - destruct i; discriminate H.
  - destruct i as [|i]; simpl.
    + reflexivity.
    + simpl in H. eapply IH. exact H.
Qed.

Lemma nth_upd_other : forall A (l : list A) i j x, i <> j -> nth_error (upd j x l) i = nth_error l i.
Proof.
  intros A l. induction l as [|h l IH]; intros i j x Hne.
  - destruct j; reflexivity.
  - destruct j as [|j]; destruct i as [|i]; simpl; try reflexivity.
    + exfalso. apply Hne. reflexivity.
    + apply IH. intros e. apply Hne. f_equal. exact e.
Qed.

Lemma nodup_app_l : forall (l1 l2 : list Z), NoDup (l1 ++ l2) -> NoDup l1.
Proof.
  intros l1 l2. induction l1 as [|a l1 IH]; simpl; intros H.
  - constructor.
  - inversion H as [|x l Hnotin Hnd]. subst x l. constructor.
    + intros Hin. apply Hnotin. apply in_or_app. left. exact Hin.
    + apply IH. exact Hnd.
Qed.

Lemma nodup_app_r : forall (l1 l2 : list Z), NoDup (l1 ++ l2) -> NoDup l2.
Proof.
  intros l1 l2. induction l1 as [|a l1 IH]; simpl; intros H.
  - exact H.
  - inversion H as [|x l Hnotin Hnd]. subst x l. apply IH. exact Hnd.
Qed.

Lemma nodup_app_disj : forall (l1 l2 : list Z) z, NoDup (l1 ++ l2) -> In z l1 -> In z l2 -> False.
Proof.
  intros l1 l2 z. induction l1 as [|a l1 IH]; simpl; intros H H1 H2.
  - contradiction.
  - inversion H as [|x l Hnotin Hnd]. subst x l. destruct H1 as [H1|H1].
    + subst a. apply Hnotin. apply in_or_app. right. exact H2.
    + apply IH; assumption.
Qed.

Lemma nth_error_snoc : forall (l : list Z) z k a, nth_error (l ++ [z]) k = Some a ->
  ((k < List.length l)%nat /\ nth_error l k = Some a) \/ (k = List.length l /\ a = z).
Proof.
  intros l z k a H. destruct (Nat.lt_ge_cases k (List.length l)) as [Hlt|Hge].
  - left. split; [exact Hlt|]. rewrite nth_error_app1 in H by exact Hlt. exact H.
  - right. rewrite nth_error_app2 in H by exact Hge.
    destruct (k - List.length l)%nat as [|m] eqn:E.
    + simpl in H. injection H as H. split; [lia | symmetry; exact H].
    + simpl in H. destruct m; discriminate H.
Qed.

(** * ids handed out *)

Lemma all_ids_split : forall l1 t l2, all_ids (l1 ++ t :: l2) = all_ids l1 ++ myids t ++ all_ids l2.
Proof. intros l1 t l2. unfold all_ids. rewrite flat_map_app. reflexivity. Qed.

Lemma in_all_ids : forall ts i t z, nth_error ts i = Some t -> In z (myids t) -> In z (all_ids ts).
Proof.
  intros ts i t z Hn Hin. unfold all_ids. apply in_flat_map. exists t. split; [|exact Hin].
  eapply nth_error_In. exact Hn.
Qed.

Lemma threads_disjoint : forall ts i j t u z, NoDup (all_ids ts) ->
  nth_error ts i = Some t -> nth_error ts j = Some u -> i <> j -> In z (myids t) -> In z (myids u) -> False.
Proof.
  intros ts. induction ts as [|h ts IH]; intros i j t u z Hnd Hi Hj Hne Hzt Hzu.
  - destruct i; discriminate Hi.
  - change (all_ids (h :: ts)) with (myids h ++ all_ids ts) in Hnd.
    destruct i as [|i]; destruct j as [|j]; simpl in Hi, Hj.
    + apply Hne. reflexivity.
    + injection Hi as Hi. subst h. eapply nodup_app_disj; [exact Hnd | exact Hzt |].
      eapply in_all_ids; [exact Hj | exact Hzu].
    + injection Hj as Hj. subst h. eapply nodup_app_disj; [exact Hnd | exact Hzu |].
      eapply in_all_ids; [exact Hi | exact Hzt].
    + apply (IH i j t u z); try assumption.
      * eapply nodup_app_r. exact Hnd.
      * intros e. apply Hne. f_equal. exact e.
Qed.

Lemma thread_nodup : forall ts i t, NoDup (all_ids ts) -> nth_error ts i = Some t -> NoDup (myids t).
Proof.
  intros ts. induction ts as [|h ts IH]; intros i t Hnd Hi.
  - destruct i; discriminate Hi.
  - change (all_ids (h :: ts)) with (myids h ++ all_ids ts) in Hnd.
    destruct i as [|i]; simpl in Hi.
    + injection Hi as Hi. subst h. eapply nodup_app_l. exact Hnd.
    + eapply IH; [|exact Hi]. eapply nodup_app_r. exact Hnd.
Qed.

(** * shape of one thread step *)

Lemma tstep_shape : forall st t st' t', tstep st t = (st', t') ->
  (st' = st \/ exists c, st' = fst (api st c)) /\
  (myids t' = myids t \/ (myids t' = myids t ++ [next st] /\ next st' = next st + 1)).
Proof.
  intros st t st' t' H. unfold tstep in H.
  destruct (prog t) as [|[|k c|k] rest].
  - injection H as H1 H2. subst st' t'. split; left; reflexivity.
  - simpl in H. injection H as H1 H2. subst st' t'. simpl. split.
    + right. exists Create. reflexivity.
    + right. split; [reflexivity | lia].
  - destruct (nth_error (myids t) k) as [z|].
    + destruct (api st (CCall z c)) as [s o] eqn:E. injection H as H1 H2. subst st' t'. simpl. split.
      * right. exists (CCall z c). rewrite E. reflexivity.
      * left. reflexivity.
    + injection H as H1 H2. subst st' t'. simpl. split; left; reflexivity.
  - destruct (nth_error (myids t) k) as [z|].
    + destruct (api st (Destroy z)) as [s o] eqn:E. injection H as H1 H2. subst st' t'. simpl. split.
      * right. exists (Destroy z). rewrite E. reflexivity.
      * left. reflexivity.
    + injection H as H1 H2. subst st' t'. simpl. split; left; reflexivity.
Qed.

(** * global invariant of an interleaved run *)

Definition GI (st : sys) (ts : list tstate) : Prop :=
  RInv st /\ (forall z, In z (all_ids ts) -> 0 <= z < next st) /\ NoDup (all_ids ts).

Lemma all_ids_start : forall progs, all_ids (start progs) = [].
Proof.
  intros progs. induction progs as [|p progs IH].
  - reflexivity.
  - unfold start, all_ids in *. simpl. exact IH.
Qed.

Lemma GI_init : forall progs, GI sys0 (start progs).
Proof.
  intros progs. unfold GI. rewrite all_ids_start. split; [exact rinv_init|]. split.
  - intros z [].
  - constructor.
Qed.

Lemma GI_step : forall st ts i t st' t', GI st ts -> nth_error ts i = Some t -> tstep st t = (st', t') ->
  GI st' (upd i t' ts).
Proof.
  intros st ts i t st' t' [HI [Hb Hnd]] Hn Hs.
  destruct (tstep_shape st t st' t' Hs) as [Hst Hids].
  assert (HI' : RInv st').
  { destruct Hst as [Hst|[c Hst]]; subst st'; [exact HI | apply rinv_step; exact HI]. }
  assert (Hmono : next st <= next st').
  { destruct Hst as [Hst|[c Hst]]; subst st'; [lia | apply api_next_mono]. }
  destruct (nth_error_split ts i Hn) as [l1 [l2 [Hts Hlen]]].
  subst i. rewrite Hts. rewrite upd_split. rewrite Hts in Hb, Hnd.
  rewrite all_ids_split in Hb, Hnd. unfold GI. rewrite all_ids_split.
  split; [exact HI'|].
  destruct Hids as [Hids|[Hids Hnext]]; rewrite Hids.
  - split; [|exact Hnd]. intros z Hz. apply Hb in Hz. lia.
  - assert (Hperm : Permutation (next st :: all_ids l1 ++ myids t ++ all_ids l2)
                                (all_ids l1 ++ (myids t ++ [next st]) ++ all_ids l2)).
    { replace (all_ids l1 ++ (myids t ++ [next st]) ++ all_ids l2)
        with ((all_ids l1 ++ myids t) ++ next st :: all_ids l2).
      - replace (all_ids l1 ++ myids t ++ all_ids l2) with ((all_ids l1 ++ myids t) ++ all_ids l2).
        + apply Permutation_middle.
        + rewrite <- app_assoc. reflexivity.
      - rewrite <- !app_assoc. reflexivity. }
    split.
    + intros z Hz. apply (Permutation_in z (Permutation_sym Hperm)) in Hz.
      destruct Hz as [Hz|Hz].
      * subst z. destruct HI as [H0 _]. lia.
      * apply Hb in Hz. lia.
    + apply (Permutation_NoDup Hperm). constructor; [|exact Hnd].
      intros Hin. apply Hb in Hin. lia.
Qed.

Lemma GI_run : forall sched st ts, GI st ts ->
  GI (fst (run_sched st ts sched)) (snd (run_sched st ts sched)).
Proof.
  intros sched. induction sched as [|i rest IH]; intros st ts HG; simpl.
  - exact HG.
  - destruct (nth_error ts i) as [t|] eqn:En.
    + destruct (tstep st t) as [st' t'] eqn:Es. apply IH. eapply GI_step; eassumption.
    + apply IH. exact HG.
Qed.

(* every id handed out to any thread, under ANY schedule, is distinct from every other *)
Theorem ids_unique_all_schedules : forall progs sched,
  NoDup (all_ids (snd (run_sched sys0 (start progs) sched))).
Proof.
  intros progs sched. apply (GI_run sched sys0 (start progs) (GI_init progs)).
Qed.

(* the registry invariant holds after any schedule *)
Theorem rinv_all_schedules : forall progs sched, RInv (fst (run_sched sys0 (start progs) sched)).
Proof.
  intros progs sched. apply (GI_run sched sys0 (start progs) (GI_init progs)).
Qed.

(** * isolation: simulation between the interleaved run and the solo run of thread i *)

(* the id-independent part of an instance ([i_sw] compared pointwise: no functional extensionality) *)
Definition core_eq (a b : inst) : Prop :=
  (forall s, i_sw a s = i_sw b s) /\ i_cur a = i_cur b /\ i_self a = i_self b /\ i_sels a = i_sels b.

Lemma core_eq_new : forall a b, core_eq (new_inst a) (new_inst b).
Proof. intros a b. unfold core_eq. simpl. repeat split; reflexivity. Qed.

(* an id_free call reads and writes only the core *)
Lemma istep_core : forall a b c, id_free c = true -> core_eq a b ->
  core_eq (fst (istep a c)) (fst (istep b c)) /\ snd (istep a c) = snd (istep b c).
Proof.
  intros a b c Hf [Hsw [Hcur [Hself Hsels]]].
  destruct c as [s v|s|n v|n|n| |v| |v| |v| | | |ns]; simpl in Hf; try discriminate Hf;
    unfold core_eq; simpl; try (destruct (0 <=? n)); simpl;
    rewrite ?Hcur, ?Hself, ?Hsels, ?Hsw;
    (split; [split; [intros t; rewrite ?Hsw; reflexivity | repeat split; reflexivity] | reflexivity]).
Qed.

Definition rel (st sa : sys) (z za : Z) : Prop :=
  match alookup z (insts st), alookup za (insts sa) with
  | Some x, Some y => core_eq x y
  | None, None => True
  | _, _ => False
  end.

(* the k-th instance of the thread in the interleaved run and the k-th instance in the solo run are both live
   with the same core, or both not live *)
Definition aligned (st sa : sys) (l la : list Z) : Prop :=
  List.length l = List.length la /\
  forall k z za, nth_error l k = Some z -> nth_error la k = Some za -> rel st sa z za.

Lemma aligned_frame : forall st sa st' sa' l la, aligned st sa l la ->
  (forall a, In a l -> alookup a (insts st') = alookup a (insts st)) ->
  (forall b, In b la -> alookup b (insts sa') = alookup b (insts sa)) ->
  aligned st' sa' l la.
Proof.
  intros st sa st' sa' l la [Hlen Hrel] H1 H2. split; [exact Hlen|].
  intros k z za Hz Hza. unfold rel.
  rewrite (H1 z (nth_error_In _ _ Hz)), (H2 za (nth_error_In _ _ Hza)).
  exact (Hrel k z za Hz Hza).
Qed.

Lemma nodup_nth_neq : forall (l : list Z) k k' a z, NoDup l -> nth_error l k = Some z -> nth_error l k' = Some a ->
  k' <> k -> a <> z.
Proof.
  intros l k k' a z Hnd Hz Ha Hne e. subst a. apply Hne.
  apply (proj1 (NoDup_nth_error l) Hnd k' k).
  - apply nth_error_Some. rewrite Ha. discriminate.
  - rewrite Ha, Hz. reflexivity.
Qed.

Lemma aligned_update : forall st sa st' sa' l la k z za, aligned st sa l la -> NoDup l -> NoDup la ->
  nth_error l k = Some z -> nth_error la k = Some za ->
  (forall a, a <> z -> alookup a (insts st') = alookup a (insts st)) ->
  (forall b, b <> za -> alookup b (insts sa') = alookup b (insts sa)) ->
  rel st' sa' z za -> aligned st' sa' l la.
Proof.
  intros st sa st' sa' l la k z za [Hlen Hrel] Hnd Hnda Hz Hza H1 H2 Hnew. split; [exact Hlen|].
  intros k' a b Ha Hb. destruct (Nat.eq_dec k' k) as [e|ne].
  - subst k'. rewrite Hz in Ha. rewrite Hza in Hb. injection Ha as Ha. injection Hb as Hb. subst a b. exact Hnew.
  - pose proof (nodup_nth_neq l k k' a z Hnd Hz Ha ne) as Hne1.
    pose proof (nodup_nth_neq la k k' b za Hnda Hza Hb ne) as Hne2.
    unfold rel. rewrite (H1 a Hne1), (H2 b Hne2). exact (Hrel k' a b Ha Hb).
Qed.

Lemma aligned_snoc : forall st sa l la z za, aligned st sa l la -> rel st sa z za ->
  aligned st sa (l ++ [z]) (la ++ [za]).
Proof.
  intros st sa l la z za [Hlen Hrel] Hnew. split.
  - rewrite !app_length. simpl. rewrite Hlen. reflexivity.
  - intros k a b Ha Hb. apply nth_error_snoc in Ha. apply nth_error_snoc in Hb.
    destruct Ha as [[Hlt Ha]|[Hk Ha]]; destruct Hb as [[Hlt' Hb]|[Hk' Hb]].
    + eapply Hrel; eassumption.
    + exfalso. lia.
    + exfalso. lia.
    + subst a b. exact Hnew.
Qed.

Lemma nth_len_mismatch : forall (l la : list Z) k z, List.length l = List.length la ->
  nth_error l k = Some z -> nth_error la k = None -> False.
Proof.
  intros l la k z Hlen Hz Hn. apply nth_error_None in Hn.
  assert (Hlt : (k < List.length l)%nat). { apply nth_error_Some. rewrite Hz. discriminate. }
  lia.
Qed.

Lemma create_frame : forall st a, a <> next st ->
  alookup a (insts (fst (api st Create))) = alookup a (insts st).
Proof.
  intros st a Hne. simpl. rewrite alookup_app1. destruct (alookup a (insts st)); [reflexivity|].
  apply Z.eqb_neq in Hne. rewrite Hne. reflexivity.
Qed.

Lemma api_Destroy : forall st id, 0 <= id -> api st (Destroy id) =
  match alookup id (insts st) with
  | Some _ => (mkSys (next st) (aremove id (insts st)), OInt IPQ_OK)
  | None => (st, OInt IPQ_BADINSTANCE)
  end.
Proof.
  intros st id H. simpl. apply Z.ltb_ge in H. rewrite H. reflexivity.
Qed.

(* what relates thread i in the interleaved run (st, t) to the same thread running alone (sa, ta) *)
Definition TR (st : sys) (t : tstate) (sa : sys) (ta : tstate) : Prop :=
  prog t = prog ta /\ outs t = outs ta /\ aligned st sa (myids t) (myids ta) /\ forallb top_ok (prog t) = true.

(* thread i moves: it moves the same way in both runs *)
Lemma sim_own_step : forall st t sa ta st' t' sa' ta',
  RInv st -> RInv sa ->
  (forall z, In z (myids t) -> 0 <= z < next st) -> (forall z, In z (myids ta) -> 0 <= z < next sa) ->
  NoDup (myids t) -> NoDup (myids ta) ->
  TR st t sa ta -> tstep st t = (st', t') -> tstep sa ta = (sa', ta') -> TR st' t' sa' ta'.
Proof.
  intros st t sa ta st' t' sa' ta' HI HIa Hb Hba Hnd Hnda HTR Hs Hsa.
  pose proof HTR as [Hp [Ho [Hal Hok]]].
  unfold tstep in Hs, Hsa. rewrite <- Hp in Hsa.
  destruct (prog t) as [|[|k c|k] rest] eqn:Ep.
  - injection Hs as Hs1 Hs2. injection Hsa as Hsa1 Hsa2. subst st' t' sa' ta'. exact HTR.
  - simpl in Hs, Hsa. injection Hs as Hs1 Hs2. injection Hsa as Hsa1 Hsa2. subst st' t' sa' ta'.
    unfold TR. simpl. split; [reflexivity|]. split; [|split].
    + rewrite Ho. rewrite (proj1 Hal). reflexivity.
    + apply aligned_snoc.
      * eapply aligned_frame; [exact Hal | |].
        -- intros a Ha. apply (create_frame st a). apply Hb in Ha. lia.
        -- intros a Ha. apply (create_frame sa a). apply Hba in Ha. lia.
      * unfold rel. simpl. rewrite !alookup_app1.
        rewrite (fresh_id_not_live st HI), (fresh_id_not_live sa HIa). rewrite !Z.eqb_refl.
        apply core_eq_new.
    + simpl in Hok. exact Hok.
  - simpl in Hok. apply andb_prop in Hok. destruct Hok as [Hfree Hok].
    destruct (nth_error (myids t) k) as [z|] eqn:Ez; destruct (nth_error (myids ta) k) as [za|] eqn:Eza.
    + assert (Hz0 : 0 <= z). { apply nth_error_In in Ez. apply Hb in Ez. lia. }
      assert (Hza0 : 0 <= za). { apply nth_error_In in Eza. apply Hba in Eza. lia. }
      rewrite api_CCall in Hs, Hsa. rewrite (live_of st z Hz0) in Hs. rewrite (live_of sa za Hza0) in Hsa.
      pose proof (proj2 Hal k z za Ez Eza) as Hr. unfold rel in Hr.
      destruct (alookup z (insts st)) as [x|] eqn:Ex; destruct (alookup za (insts sa)) as [y|] eqn:Ey;
        try contradiction.
      * injection Hs as Hs1 Hs2. injection Hsa as Hsa1 Hsa2. subst st' t' sa' ta'.
        destruct (istep_core x y c Hfree Hr) as [Hc1 Hc2].
        unfold TR. simpl. split; [reflexivity|]. split; [|split].
        -- rewrite Ho, Hc2. reflexivity.
        -- eapply (aligned_update st sa _ _ (myids t) (myids ta) k z za); try eassumption.
           ++ intros a Ha. simpl. apply alookup_aset_other. exact Ha.
           ++ intros a Ha. simpl. apply alookup_aset_other. exact Ha.
           ++ unfold rel. simpl. rewrite !alookup_aset_same. exact Hc1.
        -- exact Hok.
      * injection Hs as Hs1 Hs2. injection Hsa as Hsa1 Hsa2. subst st' t' sa' ta'.
        unfold TR. simpl. split; [reflexivity|]. split; [|split].
        -- rewrite Ho. reflexivity.
        -- exact Hal.
        -- exact Hok.
    + exfalso. eapply (nth_len_mismatch (myids t) (myids ta)); [exact (proj1 Hal) | exact Ez | exact Eza].
    + exfalso. eapply (nth_len_mismatch (myids ta) (myids t)); [symmetry; exact (proj1 Hal) | exact Eza | exact Ez].
    + injection Hs as Hs1 Hs2. injection Hsa as Hsa1 Hsa2. subst st' t' sa' ta'.
      unfold TR. simpl. split; [reflexivity|]. split; [|split].
      * rewrite Ho. reflexivity.
      * exact Hal.
      * exact Hok.
  - simpl in Hok.
    destruct (nth_error (myids t) k) as [z|] eqn:Ez; destruct (nth_error (myids ta) k) as [za|] eqn:Eza.
    + assert (Hz0 : 0 <= z). { apply nth_error_In in Ez. apply Hb in Ez. lia. }
      assert (Hza0 : 0 <= za). { apply nth_error_In in Eza. apply Hba in Eza. lia. }
      rewrite (api_Destroy st z Hz0) in Hs. rewrite (api_Destroy sa za Hza0) in Hsa.
      pose proof (proj2 Hal k z za Ez Eza) as Hr. unfold rel in Hr.
      destruct (alookup z (insts st)) as [x|] eqn:Ex; destruct (alookup za (insts sa)) as [y|] eqn:Ey;
        try contradiction.
      * injection Hs as Hs1 Hs2. injection Hsa as Hsa1 Hsa2. subst st' t' sa' ta'.
        unfold TR. simpl. split; [reflexivity|]. split; [|split].
        -- rewrite Ho. reflexivity.
        -- eapply (aligned_update st sa _ _ (myids t) (myids ta) k z za); try eassumption.
           ++ intros a Ha. simpl. apply alookup_aremove_other. exact Ha.
           ++ intros a Ha. simpl. apply alookup_aremove_other. exact Ha.
           ++ unfold rel. simpl.
              rewrite (alookup_aremove_same _ z (insts st) (proj1 (proj2 HI))).
              rewrite (alookup_aremove_same _ za (insts sa) (proj1 (proj2 HIa))). exact I.
        -- exact Hok.
      * injection Hs as Hs1 Hs2. injection Hsa as Hsa1 Hsa2. subst st' t' sa' ta'.
        unfold TR. simpl. split; [reflexivity|]. split; [|split].
        -- rewrite Ho. reflexivity.
        -- exact Hal.
        -- exact Hok.
    + exfalso. eapply (nth_len_mismatch (myids t) (myids ta)); [exact (proj1 Hal) | exact Ez | exact Eza].
    + exfalso. eapply (nth_len_mismatch (myids ta) (myids t)); [symmetry; exact (proj1 Hal) | exact Eza | exact Ez].
    + injection Hs as Hs1 Hs2. injection Hsa as Hsa1 Hsa2. subst st' t' sa' ta'.
      unfold TR. simpl. split; [reflexivity|]. split; [|split].
      * rewrite Ho. reflexivity.
      * exact Hal.
      * exact Hok.
Qed.

(* another thread moves: it touches none of the instances it was not handed *)
Lemma tstep_frame : forall st u st' u' a, tstep st u = (st', u') -> a <> next st -> ~ In a (myids u) ->
  alookup a (insts st') = alookup a (insts st).
Proof.
  intros st u st' u' a Hs Hne Hnotin. unfold tstep in Hs.
  destruct (prog u) as [|[|k c|k] rest].
  - injection Hs as Hs1 Hs2. subst st'. reflexivity.
  - simpl in Hs. injection Hs as Hs1 Hs2. subst st'. apply (create_frame st a Hne).
  - destruct (nth_error (myids u) k) as [z|] eqn:Ez.
    + destruct (api st (CCall z c)) as [s o] eqn:E. injection Hs as Hs1 Hs2. subst st'.
      replace s with (fst (api st (CCall z c))) by (rewrite E; reflexivity).
      apply instance_frame. intros e. subst a. apply Hnotin. eapply nth_error_In. exact Ez.
    + injection Hs as Hs1 Hs2. subst st'. reflexivity.
  - destruct (nth_error (myids u) k) as [z|] eqn:Ez.
    + destruct (api st (Destroy z)) as [s o] eqn:E. injection Hs as Hs1 Hs2. subst st'.
      replace s with (fst (api st (Destroy z))) by (rewrite E; reflexivity).
      simpl. destruct (z <? 0); [reflexivity|]. destruct (alookup z (insts st)); [|reflexivity].
      simpl. apply alookup_aremove_other. intros e. subst a. apply Hnotin. eapply nth_error_In. exact Ez.
    + injection Hs as Hs1 Hs2. subst st'. reflexivity.
Qed.

Lemma GI_single : forall sa ta, GI sa [ta] ->
  RInv sa /\ (forall z, In z (myids ta) -> 0 <= z < next sa) /\ NoDup (myids ta).
Proof.
  intros sa ta HG. unfold GI, all_ids in HG. simpl in HG. rewrite app_nil_r in HG. exact HG.
Qed.

Lemma sim : forall i sched st ts sa ta t,
  GI st ts -> GI sa [ta] -> nth_error ts i = Some t -> TR st t sa ta ->
  forall t', nth_error (snd (run_sched st ts sched)) i = Some t' ->
  outs t' = outs (snd (run_alone sa ta (count_occ Nat.eq_dec sched i))) /\
  prog t' = prog (snd (run_alone sa ta (count_occ Nat.eq_dec sched i))).
Proof.
  intros i sched. induction sched as [|j rest IH]; intros st ts sa ta t HG HGa Hn HTR t' Ht'.
  - simpl in Ht'. rewrite Hn in Ht'. injection Ht' as Ht'. subst t'. simpl.
    destruct HTR as [Hp [Ho _]]. split; assumption.
  - destruct (Nat.eq_dec j i) as [e|ne].
    + subst j. rewrite count_occ_cons_eq by reflexivity.
      simpl in Ht'. rewrite Hn in Ht'. simpl.
      destruct (tstep st t) as [st' t1] eqn:Es. destruct (tstep sa ta) as [sa' ta'] eqn:Esa.
      pose proof (GI_step st ts i t st' t1 HG Hn Es) as HG'.
      pose proof (GI_step sa [ta] 0%nat ta sa' ta' HGa eq_refl Esa) as HGa'. simpl in HGa'.
      apply (IH st' (upd i t1 ts) sa' ta' t1 HG' HGa'); [eapply nth_upd_same; exact Hn | | exact Ht'].
      destruct HG as [HI [Hb Hnd]]. destruct (GI_single sa ta HGa) as [HIa [Hba Hnda]].
      eapply (sim_own_step st t sa ta); try eassumption.
      * intros z Hz. apply Hb. exact (in_all_ids ts i t z Hn Hz).
      * eapply thread_nodup; eassumption.
    + rewrite count_occ_cons_neq by exact ne. simpl in Ht'.
      destruct (nth_error ts j) as [u|] eqn:Ej.
      * destruct (tstep st u) as [st' u'] eqn:Es.
        pose proof (GI_step st ts j u st' u' HG Ej Es) as HG'.
        apply (IH st' (upd j u' ts) sa ta t HG' HGa); [| | exact Ht'].
        -- rewrite nth_upd_other by (intros e; apply ne; symmetry; exact e). exact Hn.
        -- destruct HG as [HI [Hb Hnd]]. destruct HTR as [Hp [Ho [Hal Hok]]].
           unfold TR. split; [exact Hp|]. split; [exact Ho|]. split; [|exact Hok].
           eapply aligned_frame; [exact Hal | | intros b _; reflexivity].
           intros a Ha. eapply tstep_frame; [exact Es | |].
           ++ pose proof (in_all_ids ts i t a Hn Ha) as Hin.
              apply Hb in Hin. lia.
           ++ intros Hau. eapply (threads_disjoint ts i j t u a); eassumption || (intros e; apply ne; symmetry; exact e).
      * apply (IH st ts sa ta t HG HGa Hn HTR). exact Ht'.
Qed.

(* ISOLATION: what thread i observes under any schedule is what it observes running alone for the same number of
   its own steps (programs whose calls do not expose the id itself: top_ok) *)
Theorem isolation_all_schedules : forall progs sched i p,
  nth_error progs i = Some p -> forallb (fun q => forallb top_ok q) progs = true ->
  forall t, nth_error (snd (run_sched sys0 (start progs) sched)) i = Some t ->
  outs t = outs (snd (run_alone sys0 (mkT p [] []) (count_occ Nat.eq_dec sched i))) /\
  prog t = prog (snd (run_alone sys0 (mkT p [] []) (count_occ Nat.eq_dec sched i))).
Proof.
  intros progs sched i p Hp Hok t Ht.
  apply (sim i sched sys0 (start progs) sys0 (mkT p [] []) (mkT p [] [])); try assumption.
  - apply GI_init.
  - apply (GI_init [p]).
  - unfold start. apply (map_nth_error (fun p => mkT p [] []) i progs Hp).
  - unfold TR. simpl. split; [reflexivity|]. split; [reflexivity|]. split.
    + split; [reflexivity|]. intros k z za Hz. destruct k; discriminate Hz.
    + rewrite forallb_forall in Hok. apply Hok. eapply nth_error_In. exact Hp.
Qed.

(* deterministic: the result of a schedule is a function of the schedule (trivially, run_sched is a function);
   the non-trivial statement is that a thread's observations do not depend on the schedule at all *)
Corollary observations_schedule_independent : forall progs s1 s2 i p t1 t2,
  nth_error progs i = Some p -> forallb (fun q => forallb top_ok q) progs = true ->
  count_occ Nat.eq_dec s1 i = count_occ Nat.eq_dec s2 i ->
  nth_error (snd (run_sched sys0 (start progs) s1)) i = Some t1 ->
  nth_error (snd (run_sched sys0 (start progs) s2)) i = Some t2 ->
  outs t1 = outs t2.
Proof.
  intros progs s1 s2 i p t1 t2 Hp Hok Hc H1 H2.
  destruct (isolation_all_schedules progs s1 i p Hp Hok t1 H1) as [Ho1 _].
  destruct (isolation_all_schedules progs s2 i p Hp Hok t2 H2) as [Ho2 _].
  rewrite Ho1, Ho2, Hc. reflexivity.
Qed.

(* what the lock buys: without it (Create = read; write) two threads can obtain the same id *)
Theorem racy_duplicate_ids : exists l, rgot (rrun l) = [(1%nat, 0); (0%nat, 0)].
Proof.
  exists [RRead 0; RRead 1; RWrite 0; RWrite 1]. vm_compute. reflexivity.
Qed.

Print Assumptions ids_unique_all_schedules.
Print Assumptions rinv_all_schedules.
Print Assumptions isolation_all_schedules.
Print Assumptions observations_schedule_independent.
Print Assumptions racy_duplicate_ids.
