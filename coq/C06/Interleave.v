(** C06 — N threads, each creating, using and destroying ITS OWN instances through the registry, under
    every interleaving.  The registry operations are the atomic steps of Wrapper/Registry.v ([api]): the
    T-gen obligation (Gen/Gen_C06.v, [registry_accesses_guarded]) checks on every run that each access to
    IPhreeqc::Instances / InstancesIndex in the current sources lies between mutex_lock(&map_lock) and
    mutex_unlock(&map_lock), which is what makes one [api] call one atomic step.
    A schedule is the list of thread indices in the order in which they take their next step. *)
From Coq Require Import List ZArith String Bool Lia.
From IPV.Wrapper Require Import Registry.
Import ListNotations.
Local Open Scope list_scope.
Local Open Scope Z_scope.

(** a step of a thread program; instances are named by the thread-local creation index k *)
Inductive top :=
| TCreate
| TUse (k : nat) (c : icall)
| TDestroy (k : nat).

(** calls whose result does not expose the (schedule dependent) id: everything except the name getters/setters and GetId *)
Definition id_free (c : icall) : bool :=
  match c with
  | SetSw _ _ | GetSw _ | SetCur _ | GetCur | SetSelFile _ | GetSelFile | SetSelString _ | GetSelString => true
  | _ => false
  end.
Definition top_ok (t : top) : bool := match t with TUse _ c => id_free c | _ => true end.

Record tstate := mkT { prog : list top; myids : list Z; outs : list out }.

(** one step of a thread on the shared registry. Create reports the LOCAL index (the global id depends on the schedule). *)
Definition tstep (st : sys) (t : tstate) : sys * tstate :=
  match prog t with
  | [] => (st, t)
  | TCreate :: rest =>
      let (st', o) := api st Create in
      match o with
      | OInt z => (st', mkT rest (myids t ++ [z]) (outs t ++ [OInt (Z.of_nat (List.length (myids t)))]))
      | _ => (st', mkT rest (myids t) (outs t ++ [o]))
      end
  | TUse k c :: rest =>
      match nth_error (myids t) k with
      | Some i => let (st', o) := api st (CCall i c) in (st', mkT rest (myids t) (outs t ++ [o]))
      | None => (st, mkT rest (myids t) (outs t ++ [ONotLive]))
      end
  | TDestroy k :: rest =>
      match nth_error (myids t) k with
      | Some i => let (st', o) := api st (Destroy i) in (st', mkT rest (myids t) (outs t ++ [o]))
      | None => (st, mkT rest (myids t) (outs t ++ [ONotLive]))
      end
  end.

Fixpoint upd {A} (n : nat) (x : A) (l : list A) : list A :=
  match l, n with
  | [], _ => []
  | _ :: t, O => x :: t
  | h :: t, S m => h :: upd m x t
  end.

(** run a schedule: [sched] lists which thread moves next; an index out of range is a no-op *)
Fixpoint run_sched (st : sys) (ts : list tstate) (sched : list nat) : sys * list tstate :=
  match sched with
  | [] => (st, ts)
  | i :: rest =>
      match nth_error ts i with
      | Some t => let (st', t') := tstep st t in run_sched st' (upd i t' ts) rest
      | None => run_sched st ts rest
      end
  end.

Definition start (progs : list (list top)) : list tstate := map (fun p => mkT p [] []) progs.

(** thread i alone, for n steps *)
Fixpoint run_alone (st : sys) (t : tstate) (n : nat) : sys * tstate :=
  match n with O => (st, t) | S m => let (st', t') := tstep st t in run_alone st' t' m end.

(** all ids handed out to all threads *)
Definition all_ids (ts : list tstate) : list Z := flat_map myids ts.

(** ------------------------------------------------------------------------------------------------
    The lock-free variant, kept as documentation of what the lock buys: Create split into a read of
    InstancesIndex and a write.  [racy_duplicate_ids] exhibits the two-thread schedule that hands out
    the same id twice. *)
Inductive rstep := RRead (t : nat) | RWrite (t : nat).
Record rsys := mkR { rnext : Z; rreg : list (nat * Z); rgot : list (nat * Z) }.   (* per-thread register, ids obtained *)
Fixpoint rlookup (t : nat) (m : list (nat * Z)) : Z := match m with [] => 0 | (k, v) :: r => if Nat.eqb t k then v else rlookup t r end.
Definition rrun1 (s : rsys) (x : rstep) : rsys :=
  match x with
  | RRead t => mkR (rnext s) ((t, rnext s) :: rreg s) (rgot s)
  | RWrite t => mkR (rlookup t (rreg s) + 1) (rreg s) ((t, rlookup t (rreg s)) :: rgot s)
  end.
Definition rrun (l : list rstep) : rsys := fold_left rrun1 l (mkR 0 [] []).
