(* IPV.Base.IntervalEval — executable, verified interval evaluation of [RExpr.rexpr].

   [F] / [I] are the Interval library's arbitrary-precision radix-2 floats on [BigZ] and the
   interval arithmetic over them (the instantiation [Interval.Tactic] uses when primitive floats
   are not requested).  Everything here is evaluated by [vm_compute].

     evalI  : prec -> list I.type -> rexpr -> I.type
     evalI_sound_X : variables contained  ->  contains (evalI …) (evalX …)
     evalI_sound   : variables contained, result not NaI  ->  evalX defined  /\  contains (evalI …) (Xreal (evalR …))

   Checkers (all [bool], all with a soundness lemma; [true] also certifies that [evalX] is defined,
   i.e. no division by zero / ln of a non-positive number occurred):

     check_le0  prec ienv e           : evalR env e <= 0
     check_lt0  prec ienv e           : evalR env e <  0
     check_eq_within  prec ienv a b tol     : |evalR a - evalR b| <= Q2R tol
     check_rel_within prec ienv a b tol     : |evalR a - evalR b| <= Q2R tol * |evalR b|
     check_in   prec ienv e lo hi     : Q2R lo <= evalR env e <= Q2R hi

   Variables given by exact rationals (the dyadic values of reported doubles):
     ienv_of_Q prec (l : list Q) : list I.type      env_of_Q l : nat -> R
     check_*_Q variants take [list Q] and conclude about [env_of_Q l].

   Default precision [prec80 = F.PtoP 80]. *)

From Coq Require Import Reals ZArith QArith Qreals List Lra Bool.
From Interval Require Import Xreal Interval Float Float_full Specific_bigint Specific_ops Basic Sig.
From IPV Require Import Base.RExpr.
Import ListNotations.

Module F := SpecificFloat BigIntRadix2.
Module I := FloatIntervalFull F.

Definition prec := F.precision.
Definition prec53  : prec := F.PtoP 53.
Definition prec80  : prec := F.PtoP 80.
Definition prec120 : prec := F.PtoP 120.

Definition I_of_Z (p : prec) (z : Z) : I.type := I.fromZ p z.
Definition I_of_Q (p : prec) (q : Q) : I.type :=
  I.div p (I.fromZ p (Qnum q)) (I.fromZ p (Zpos (Qden q))).

Definition ilookup (ienv : list I.type) (n : nat) : I.type := nth n ienv I.nai.

Definition Ilog10 (p : prec) (x : I.type) : I.type := I.div p (I.ln p x) (I.ln p (I.fromZ p 10)).
Definition Ipow (p : prec) (x y : I.type) : I.type := I.exp p (I.mul p y (I.ln p x)).
Definition Isinh (p : prec) (x : I.type) : I.type :=
  I.div p (I.sub p (I.exp p x) (I.exp p (I.neg x))) (I.fromZ p 2).
Definition Icosh (p : prec) (x : I.type) : I.type :=
  I.div p (I.add p (I.exp p x) (I.exp p (I.neg x))) (I.fromZ p 2).

Fixpoint evalI (p : prec) (ienv : list I.type) (e : rexpr) : I.type :=
  match e with
  | Var n     => ilookup ienv n
  | Const q   => I_of_Q p q
  | Add a b   => I.add p (evalI p ienv a) (evalI p ienv b)
  | Sub a b   => I.sub p (evalI p ienv a) (evalI p ienv b)
  | Mul a b   => I.mul p (evalI p ienv a) (evalI p ienv b)
  | Div a b   => I.div p (evalI p ienv a) (evalI p ienv b)
  | Neg a     => I.neg (evalI p ienv a)
  | Abs a     => I.abs (evalI p ienv a)
  | Sqrt a    => I.sqrt p (evalI p ienv a)
  | Exp a     => I.exp p (evalI p ienv a)
  | Ln a      => I.ln p (evalI p ienv a)
  | Log10 a   => Ilog10 p (evalI p ienv a)
  | Pow a b   => Ipow p (evalI p ienv a) (evalI p ienv b)
  | PowZ a n  => I.power_int p (evalI p ienv a) n
  | Sinh a    => Isinh p (evalI p ienv a)
  | Cosh a    => Icosh p (evalI p ienv a)
  | Sin a     => I.sin p (evalI p ienv a)
  | Cos a     => I.cos p (evalI p ienv a)
  | Atan a    => I.atan p (evalI p ienv a)
  | Pi        => I.pi p
  end.

(* "every variable's real value is contained in its interval" *)
Definition env_contained (ienv : list I.type) (env : nat -> R) : Prop :=
  forall n, contains (I.convert (ilookup ienv n)) (Xreal (env n)).

Lemma I_of_Q_correct_X : forall p q,
  contains (I.convert (I_of_Q p q)) (Xdiv (Xreal (IZR (Qnum q))) (Xreal (IZR (Zpos (Qden q))))).
Proof.
  intros p q. unfold I_of_Q. apply I.div_correct; apply I.fromZ_correct.
Qed.

Lemma Q2R_X : forall q, Xdiv (Xreal (IZR (Qnum q))) (Xreal (IZR (Zpos (Qden q)))) = Xreal (Q2R q).
Proof.
  intros q. simpl. unfold Xdiv'.
  destruct (is_zero_spec (IZR (Zpos (Qden q)))) as [H|_].
  - exfalso. apply eq_IZR_R0 in H. discriminate.
  - reflexivity.
Qed.

Lemma I_of_Q_correct : forall p q, contains (I.convert (I_of_Q p q)) (Xreal (Q2R q)).
Proof. intros p q. rewrite <- Q2R_X. apply I_of_Q_correct_X. Qed.

Theorem evalI_sound_X : forall p ienv env e,
  env_contained ienv env ->
  contains (I.convert (evalI p ienv e)) (evalX env e).
Proof.
  intros p ienv env e Henv; induction e; simpl.
  - apply Henv.
  - apply I_of_Q_correct_X.
  - apply I.add_correct; assumption.
  - apply I.sub_correct; assumption.
  - apply I.mul_correct; assumption.
  - apply I.div_correct; assumption.
  - apply I.neg_correct; assumption.
  - apply I.abs_correct; assumption.
  - apply I.sqrt_correct; assumption.
  - apply I.exp_correct; assumption.
  - apply I.ln_correct; assumption.
  - unfold Ilog10, Xlog10. apply I.div_correct.
    + apply I.ln_correct; assumption.
    + apply I.ln_correct. apply I.fromZ_correct.
  - unfold Ipow, Xpow. apply I.exp_correct. apply I.mul_correct; [assumption|].
    apply I.ln_correct; assumption.
  - apply I.power_int_correct; assumption.
  - unfold Isinh, Xsinh. apply I.div_correct; [|apply (I.fromZ_correct p 2)].
    apply I.sub_correct; apply I.exp_correct; [assumption|]. apply I.neg_correct; assumption.
  - unfold Icosh, Xcosh. apply I.div_correct; [|apply (I.fromZ_correct p 2)].
    apply I.add_correct; apply I.exp_correct; [assumption|]. apply I.neg_correct; assumption.
  - apply I.sin_correct; assumption.
  - apply I.cos_correct; assumption.
  - apply I.atan_correct; assumption.
  - apply I.pi_correct.
Qed.

(* result interval is a proper interval (possibly half-bounded), not NaI *)
Definition not_nai (xi : I.type) : bool := I.real xi.

Lemma not_nai_defined : forall xi x, not_nai xi = true -> contains (I.convert xi) x -> x <> Xnan.
Proof.
  intros xi x H C. unfold not_nai in H. rewrite I.real_correct in H.
  destruct (I.convert xi); [discriminate|]. destruct x; [destruct C|discriminate].
Qed.

Theorem evalI_sound : forall p ienv env e,
  env_contained ienv env ->
  not_nai (evalI p ienv e) = true ->
  evalX env e = Xreal (evalR env e) /\
  contains (I.convert (evalI p ienv e)) (Xreal (evalR env e)).
Proof.
  intros p ienv env e Henv Hn.
  pose proof (evalI_sound_X p ienv env e Henv) as C.
  pose proof (not_nai_defined _ _ Hn C) as D.
  apply evalX_defined in D. rewrite D in C. split; assumption.
Qed.

(* ---------------------------------------------------------------------------------------- *)
(* checkers *)

Definition sign_le0 (xi : I.type) : bool :=
  match I.sign_large xi with Xlt | Xeq => true | _ => false end.
Definition sign_lt0 (xi : I.type) : bool :=
  match I.sign_strict xi with Xlt => true | _ => false end.

Lemma sign_le0_correct : forall xi x, sign_le0 xi = true -> contains (I.convert xi) x ->
  x = Xreal (proj_val x) /\ (proj_val x <= 0)%R.
Proof.
  intros xi x H C. unfold sign_le0 in H. pose proof (I.sign_large_correct xi) as S.
  destruct (I.sign_large xi); try discriminate.
  - rewrite (S x C). simpl. split; [reflexivity|lra].
  - apply S; assumption.
Qed.

Lemma sign_lt0_correct : forall xi x, sign_lt0 xi = true -> contains (I.convert xi) x ->
  x = Xreal (proj_val x) /\ (proj_val x < 0)%R.
Proof.
  intros xi x H C. unfold sign_lt0 in H. pose proof (I.sign_strict_correct xi) as S.
  destruct (I.sign_strict xi); try discriminate. apply S; assumption.
Qed.

Definition check_le0 (p : prec) (ienv : list I.type) (e : rexpr) : bool := sign_le0 (evalI p ienv e).
Definition check_lt0 (p : prec) (ienv : list I.type) (e : rexpr) : bool := sign_lt0 (evalI p ienv e).

Theorem check_le0_sound : forall p ienv env e,
  env_contained ienv env -> check_le0 p ienv e = true ->
  evalX env e = Xreal (evalR env e) /\ (evalR env e <= 0)%R.
Proof.
  intros p ienv env e Henv H.
  destruct (sign_le0_correct _ _ H (evalI_sound_X p ienv env e Henv)) as [D L].
  assert (E : evalR env e = proj_val (evalX env e)) by (apply evalX_real; exact D).
  rewrite E. split; assumption.
Qed.

Theorem check_lt0_sound : forall p ienv env e,
  env_contained ienv env -> check_lt0 p ienv e = true ->
  evalX env e = Xreal (evalR env e) /\ (evalR env e < 0)%R.
Proof.
  intros p ienv env e Henv H.
  destruct (sign_lt0_correct _ _ H (evalI_sound_X p ienv env e Henv)) as [D L].
  assert (E : evalR env e = proj_val (evalX env e)) by (apply evalX_real; exact D).
  rewrite E. split; assumption.
Qed.

Definition eq_within_expr (a b : rexpr) (tol : Q) : rexpr := Sub (Abs (Sub a b)) (Const tol).
Definition rel_within_expr (a b : rexpr) (tol : Q) : rexpr := Sub (Abs (Sub a b)) (Mul (Const tol) (Abs b)).

Definition check_eq_within (p : prec) (ienv : list I.type) (a b : rexpr) (tol : Q) : bool :=
  check_le0 p ienv (eq_within_expr a b tol).
Definition check_rel_within (p : prec) (ienv : list I.type) (a b : rexpr) (tol : Q) : bool :=
  check_le0 p ienv (rel_within_expr a b tol).
Definition check_in (p : prec) (ienv : list I.type) (e : rexpr) (lo hi : Q) : bool :=
  check_le0 p ienv (Sub (Const lo) e) && check_le0 p ienv (Sub e (Const hi)).

Theorem check_eq_within_sound : forall p ienv env a b tol,
  env_contained ienv env -> check_eq_within p ienv a b tol = true ->
  (Rabs (evalR env a - evalR env b) <= Q2R tol)%R.
Proof.
  intros p ienv env a b tol Henv H.
  destruct (check_le0_sound _ _ _ _ Henv H) as [_ L]. simpl in L. lra.
Qed.

(* the same check also certifies that both sides are defined (no x/0, no ln of x <= 0) *)
Theorem check_eq_within_defined : forall p ienv env a b tol,
  env_contained ienv env -> check_eq_within p ienv a b tol = true ->
  evalX env a = Xreal (evalR env a) /\ evalX env b = Xreal (evalR env b).
Proof.
  intros p ienv env a b tol Henv H.
  destruct (check_le0_sound _ _ _ _ Henv H) as [D _]. simpl in D.
  destruct (evalX env a) as [|xa] eqn:Ea; [discriminate|].
  destruct (evalX env b) as [|xb] eqn:Eb; [discriminate|].
  split; f_equal; symmetry; apply evalX_real; assumption.
Qed.

Theorem check_rel_within_sound : forall p ienv env a b tol,
  env_contained ienv env -> check_rel_within p ienv a b tol = true ->
  (Rabs (evalR env a - evalR env b) <= Q2R tol * Rabs (evalR env b))%R.
Proof.
  intros p ienv env a b tol Henv H.
  destruct (check_le0_sound _ _ _ _ Henv H) as [_ L]. simpl in L. lra.
Qed.

Theorem check_in_sound : forall p ienv env e lo hi,
  env_contained ienv env -> check_in p ienv e lo hi = true ->
  (Q2R lo <= evalR env e <= Q2R hi)%R.
Proof.
  intros p ienv env e lo hi Henv H. unfold check_in in H. apply andb_prop in H. destruct H as [H1 H2].
  destruct (check_le0_sound _ _ _ _ Henv H1) as [_ L1].
  destruct (check_le0_sound _ _ _ _ Henv H2) as [_ L2]. simpl in L1, L2. lra.
Qed.

(* ---------------------------------------------------------------------------------------- *)
(* environments given by exact rationals (e.g. the dyadic values of doubles reported by the
   implementation, printed by translator/leaf.py: q_of_hex / coq_Q_of_hex) *)

Definition env_of_Q (l : list Q) : nat -> R := fun n => Q2R (nth n l 0%Q).
Definition ienv_of_Q (p : prec) (l : list Q) : list I.type := map (I_of_Q p) l.

Lemma ienv_of_Q_contained : forall p l, env_contained (ienv_of_Q p l) (env_of_Q l).
Proof.
  intros p l n. unfold ilookup, ienv_of_Q, env_of_Q. revert n.
  induction l as [|q l IH]; intros [|n]; simpl.
  - exact Logic.I.
  - exact Logic.I.
  - apply I_of_Q_correct.
  - apply IH.
Qed.

Lemma env_of_Q_env_of : forall l n, env_of_Q l n = env_of (map Q2R l) n.
Proof.
  intros l n. unfold env_of_Q, env_of. revert n.
  induction l as [|q l IH]; intros [|n]; simpl; try apply IH; try reflexivity; apply RMicromega.Q2R_0.
Qed.

Definition check_le0_Q (p : prec) (vals : list Q) (e : rexpr) : bool := check_le0 p (ienv_of_Q p vals) e.
Definition check_eq_within_Q (p : prec) (vals : list Q) (a b : rexpr) (tol : Q) : bool :=
  check_eq_within p (ienv_of_Q p vals) a b tol.
Definition check_rel_within_Q (p : prec) (vals : list Q) (a b : rexpr) (tol : Q) : bool :=
  check_rel_within p (ienv_of_Q p vals) a b tol.

Theorem check_le0_Q_sound : forall p vals e, check_le0_Q p vals e = true ->
  evalX (env_of_Q vals) e = Xreal (evalR (env_of_Q vals) e) /\ (evalR (env_of_Q vals) e <= 0)%R.
Proof. intros p vals e. apply check_le0_sound, ienv_of_Q_contained. Qed.

Theorem check_eq_within_Q_sound : forall p vals a b tol, check_eq_within_Q p vals a b tol = true ->
  (Rabs (evalR (env_of_Q vals) a - evalR (env_of_Q vals) b) <= Q2R tol)%R.
Proof. intros p vals a b tol. apply check_eq_within_sound, ienv_of_Q_contained. Qed.

Theorem check_rel_within_Q_sound : forall p vals a b tol, check_rel_within_Q p vals a b tol = true ->
  (Rabs (evalR (env_of_Q vals) a - evalR (env_of_Q vals) b) <= Q2R tol * Rabs (evalR (env_of_Q vals) b))%R.
Proof. intros p vals a b tol. apply check_rel_within_sound, ienv_of_Q_contained. Qed.

(* printable bounds of an interval (decimal, outward rounded) for diagnostics in cases.v files *)
Definition show (xi : I.type) := I.output true xi.

(* ---------------------------------------------------------------------------------------- *)
(* self-test: sqrt(2)^2 = 2 within 1e-20, ln(exp 1) = 1, 1/0 rejected, ln(-1) rejected *)
Example selftest_1 :
  check_eq_within_Q prec80 [2#1] (Mul (Sqrt (Var 0)) (Sqrt (Var 0))) (Var 0) (1 # 100000000000000000000) = true.
Proof. vm_compute. reflexivity. Qed.
Example selftest_2 :
  check_eq_within_Q prec80 [] (Ln (Exp (Const 1))) (Const 1) (1 # 100000000000000000000) = true.
Proof. vm_compute. reflexivity. Qed.
Example selftest_3 : check_eq_within_Q prec80 [0#1] (Div (Const 1) (Var 0)) (Const 1) 1000 = false.
Proof. vm_compute. reflexivity. Qed.
Example selftest_4 : check_le0_Q prec80 [(-1)#1] (Ln (Var 0)) = false.
Proof. vm_compute. reflexivity. Qed.
Example selftest_5 :   (* 10^0.5 via exp(y ln x) and log10 *)
  check_eq_within_Q prec80 [] (Log10 (Pow (Const 10) (Const (1#2)))) (Const (1#2)) (1 # 100000000000000000000) = true.
Proof. vm_compute. reflexivity. Qed.
Example selftest_6 : check_eq_within_Q prec80 [1#3] (Sinh (Var 0)) (Const (3395405572#10000000000)) (1#1000000000) = true.
Proof. vm_compute. reflexivity. Qed.
Example selftest_sound : (Rabs (sqrt 2 * sqrt 2 - 2) <= 1 / 100000000000000000000)%R.
Proof.
  pose proof (check_eq_within_Q_sound _ _ _ _ _ selftest_1) as H.
  cbv [evalR env_of_Q nth] in H. rewrite !Q2R_make in H.
  replace (2 / 1)%R with 2%R in H by lra. exact H.
Qed.
