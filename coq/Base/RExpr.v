(* IPV.Base.RExpr — deep embedding of real-valued expressions (the right-hand sides that
   translator/leaf.py extracts from the C++ sources).

   Two semantics:

   * [evalR : (nat -> R) -> rexpr -> R]          total, plain Coq Reals.  This is the meaning used in
     theorems ("the regenerated right-hand side equals the textbook formula"): after
     [cbn [evalR]] / [unfold evalR] a goal is an ordinary real expression and [field] / [lra] /
     [nra] / [ring] apply.
     TOTALISATION (Coq's conventions, nothing of ours):
        x / 0        = x * / 0       ([/ 0] is an unspecified real; [field] asks for [y <> 0])
        ln x         = 0             for x <= 0                      (Coq's [ln])
        sqrt x       = 0             for x < 0                       (Coq's [sqrt])
        Rpower x y   = exp (y * ln x)   hence = exp 0 = 1 for x <= 0 (Coq's [Rpower])
        powerRZ x n  for n < 0 uses [/ (x ^ n)]                      (Coq's [powerRZ])
        log10 x      = ln x / ln 10
   * [evalX : (nat -> R) -> rexpr -> ExtendedR]  partial: [Xnan] as soon as a division by zero,
     the logarithm of a non-positive number or a negative integer power of zero is met (the
     semantics of Interval's [Xreal] layer).  [evalX_real]: whenever [evalX] is defined it agrees
     with [evalR].  The interval evaluator of [IPV.Base.IntervalEval] is proved sound w.r.t.
     [evalX]; a non-NaN result interval therefore ALSO proves that no totalisation convention was
     used in [evalR].

   Variables are de Bruijn-style indices into an environment [nat -> R]; [env_of] builds one from a
   list ([env_of [x;y;z] 1 = y], 0 beyond the end).  Constants are exact rationals [Q]. *)

From Coq Require Import Reals ZArith QArith Qreals List Lra.
From Interval Require Import Xreal.
Import ListNotations.

Inductive rexpr : Type :=
| Var   : nat -> rexpr
| Const : Q -> rexpr                      (* exact rational constant *)
| Add   : rexpr -> rexpr -> rexpr
| Sub   : rexpr -> rexpr -> rexpr
| Mul   : rexpr -> rexpr -> rexpr
| Div   : rexpr -> rexpr -> rexpr
| Neg   : rexpr -> rexpr
| Abs   : rexpr -> rexpr
| Sqrt  : rexpr -> rexpr
| Exp   : rexpr -> rexpr
| Ln    : rexpr -> rexpr
| Log10 : rexpr -> rexpr                  (* ln x / ln 10 *)
| Pow   : rexpr -> rexpr -> rexpr         (* x^y := exp (y * ln x)   (C's pow for x > 0) *)
| PowZ  : rexpr -> Z -> rexpr             (* integer power *)
| Sinh  : rexpr -> rexpr                  (* (exp x - exp (-x)) / 2 *)
| Cosh  : rexpr -> rexpr                  (* (exp x + exp (-x)) / 2 *)
| Sin   : rexpr -> rexpr
| Cos   : rexpr -> rexpr
| Atan  : rexpr -> rexpr
| Pi    : rexpr.

Definition env_of (l : list R) : nat -> R := fun n => nth n l 0%R.

Local Open Scope R_scope.

Fixpoint evalR (env : nat -> R) (e : rexpr) : R :=
  match e with
  | Var n     => env n
  | Const q   => Q2R q
  | Add a b   => evalR env a + evalR env b
  | Sub a b   => evalR env a - evalR env b
  | Mul a b   => evalR env a * evalR env b
  | Div a b   => evalR env a / evalR env b
  | Neg a     => - evalR env a
  | Abs a     => Rabs (evalR env a)
  | Sqrt a    => sqrt (evalR env a)
  | Exp a     => exp (evalR env a)
  | Ln a      => ln (evalR env a)
  | Log10 a   => ln (evalR env a) / ln 10
  | Pow a b   => Rpower (evalR env a) (evalR env b)
  | PowZ a n  => powerRZ (evalR env a) n
  | Sinh a    => sinh (evalR env a)
  | Cosh a    => cosh (evalR env a)
  | Sin a     => sin (evalR env a)
  | Cos a     => cos (evalR env a)
  | Atan a    => atan (evalR env a)
  | Pi        => PI
  end.

(* partial semantics *)
Definition Xlog10 (x : ExtendedR) : ExtendedR := Xdiv (Xln x) (Xln (Xreal 10)).
Definition Xpow (x y : ExtendedR) : ExtendedR := Xexp (Xmul y (Xln x)).
Definition Xsinh (x : ExtendedR) : ExtendedR := Xdiv (Xsub (Xexp x) (Xexp (Xneg x))) (Xreal 2).
Definition Xcosh (x : ExtendedR) : ExtendedR := Xdiv (Xadd (Xexp x) (Xexp (Xneg x))) (Xreal 2).

Fixpoint evalX (env : nat -> R) (e : rexpr) : ExtendedR :=
  match e with
  | Var n     => Xreal (env n)
  | Const q   => Xdiv (Xreal (IZR (Qnum q))) (Xreal (IZR (Zpos (Qden q))))
  | Add a b   => Xadd (evalX env a) (evalX env b)
  | Sub a b   => Xsub (evalX env a) (evalX env b)
  | Mul a b   => Xmul (evalX env a) (evalX env b)
  | Div a b   => Xdiv (evalX env a) (evalX env b)
  | Neg a     => Xneg (evalX env a)
  | Abs a     => Xabs (evalX env a)
  | Sqrt a    => Xsqrt (evalX env a)
  | Exp a     => Xexp (evalX env a)
  | Ln a      => Xln (evalX env a)
  | Log10 a   => Xlog10 (evalX env a)
  | Pow a b   => Xpow (evalX env a) (evalX env b)
  | PowZ a n  => Xpower_int (evalX env a) n
  | Sinh a    => Xsinh (evalX env a)
  | Cosh a    => Xcosh (evalX env a)
  | Sin a     => Xsin (evalX env a)
  | Cos a     => Xcos (evalX env a)
  | Atan a    => Xatan (evalX env a)
  | Pi        => Xreal PI
  end.

(* ---------------------------------------------------------------------------------------- *)

Lemma Xdiv'_real : forall x y r, Xdiv' x y = Xreal r -> r = x / y.
Proof.
  intros x y r. unfold Xdiv'. destruct (is_zero y); intros H; inversion H; reflexivity.
Qed.

Lemma Xln'_real : forall x r, Xln' x = Xreal r -> r = ln x.
Proof.
  intros x r. unfold Xln'. destruct (is_positive x); intros H; inversion H; reflexivity.
Qed.

Lemma Xpower_int'_real : forall x n r, Xpower_int' x n = Xreal r -> r = powerRZ x n.
Proof.
  intros x n r. unfold Xpower_int', powerRZ. destruct n.
  - intros H; inversion H; reflexivity.
  - intros H; inversion H; reflexivity.
  - destruct (is_zero x); intros H; inversion H; reflexivity.
Qed.

Lemma ln10_pos : 0 < ln 10.
Proof. rewrite <- ln_1. apply ln_increasing; lra. Qed.

Lemma Xln_10 : Xln (Xreal 10) = Xreal (ln 10).
Proof.
  simpl. unfold Xln'. destruct (is_positive_spec 10) as [_|H]; [reflexivity|lra].
Qed.

Lemma Q2R_num_den : forall q, Q2R q = IZR (Qnum q) / IZR (Zpos (Qden q)).
Proof. intros q. reflexivity. Qed.

(* Whenever the partial semantics is defined, it is the total one. *)
Ltac evx1 env e IH H :=
  destruct (evalX env e) as [|?x]; [ try discriminate H | specialize (IH _ eq_refl); subst ].

Theorem evalX_real : forall env e r, evalX env e = Xreal r -> evalR env e = r.
Proof.
  intros env e; induction e; intros r H; simpl in H |- *.
  - inversion H; reflexivity.
  - apply Xdiv'_real in H. subst. apply Q2R_num_den.
  - evx1 env e1 IHe1 H. evx1 env e2 IHe2 H. inversion H; reflexivity.
  - evx1 env e1 IHe1 H. evx1 env e2 IHe2 H. inversion H; reflexivity.
  - evx1 env e1 IHe1 H. evx1 env e2 IHe2 H. inversion H; reflexivity.
  - evx1 env e1 IHe1 H. evx1 env e2 IHe2 H. simpl in H. apply Xdiv'_real in H. auto.
  - evx1 env e IHe H. inversion H; reflexivity.
  - evx1 env e IHe H. inversion H; reflexivity.
  - evx1 env e IHe H. inversion H; reflexivity.
  - evx1 env e IHe H. inversion H; reflexivity.
  - evx1 env e IHe H. simpl in H. apply Xln'_real in H. auto.
  - unfold Xlog10 in H. rewrite Xln_10 in H. evx1 env e IHe H. simpl in H.
    destruct (Xln' (evalR env e)) as [|l] eqn:E; [discriminate|].
    apply Xln'_real in E. simpl in H. apply Xdiv'_real in H. subst. reflexivity.
  - unfold Xpow in H. evx1 env e1 IHe1 H.
    + destruct (evalX env e2); discriminate H.
    + evx1 env e2 IHe2 H. simpl in H.
      destruct (Xln' (evalR env e1)) as [|l] eqn:E; [discriminate|].
      apply Xln'_real in E. simpl in H. inversion H. subst. reflexivity.
  - evx1 env e IHe H. simpl in H. apply Xpower_int'_real in H. auto.
  - unfold Xsinh in H. evx1 env e IHe H. simpl in H. apply Xdiv'_real in H. subst. reflexivity.
  - unfold Xcosh in H. evx1 env e IHe H. simpl in H. apply Xdiv'_real in H. subst. reflexivity.
  - evx1 env e IHe H. inversion H; reflexivity.
  - evx1 env e IHe H. inversion H; reflexivity.
  - evx1 env e IHe H. inversion H; reflexivity.
  - inversion H; reflexivity.
Qed.

Corollary evalX_defined : forall env e, evalX env e <> Xnan -> evalX env e = Xreal (evalR env e).
Proof.
  intros env e H. destruct (evalX env e) as [|r] eqn:E; [congruence|].
  f_equal. symmetry. apply evalX_real; assumption.
Qed.

(* ---------------------------------------------------------------------------------------- *)
(* Small conveniences for statements about regenerated expressions. *)

(* number of the largest variable index + 1 *)
Fixpoint nvars (e : rexpr) : nat :=
  match e with
  | Var n => S n
  | Const _ | Pi => 0
  | Add a b | Sub a b | Mul a b | Div a b | Pow a b => Nat.max (nvars a) (nvars b)
  | Neg a | Abs a | Sqrt a | Exp a | Ln a | Log10 a | PowZ a _ | Sinh a | Cosh a | Sin a | Cos a | Atan a => nvars a
  end.

(* evalR only looks at the variables below [nvars e] *)
Lemma evalR_ext : forall env1 env2 e,
  (forall n, (n < nvars e)%nat -> env1 n = env2 n) -> evalR env1 e = evalR env2 e.
Proof.
  intros env1 env2 e; induction e; intros H; simpl in *;
    try (rewrite IHe1, IHe2; [reflexivity| |]; intros n Hn; apply H;
         [apply Nat.lt_le_trans with (1:=Hn), Nat.le_max_r | apply Nat.lt_le_trans with (1:=Hn), Nat.le_max_l]);
    try (rewrite IHe; [reflexivity|assumption]);
    try reflexivity.
  apply H. apply Nat.lt_succ_diag_r.
Qed.

(* Constants print as [Q2R (n # d)]; this rewrites them into the form [field]/[lra] like. *)
Lemma Q2R_make : forall n d, Q2R (n # d) = IZR n / IZR (Zpos d).
Proof. reflexivity. Qed.

(* Tactic: expose the real expression behind [evalR (env_of [...]) <closed rexpr term>]. *)
Ltac unfold_evalR :=
  cbv [evalR env_of nth]; rewrite ?Q2R_make.

Example evalR_example : forall x y : R,
  evalR (env_of [x; y]) (Add (Mul (Var 0) (Const (3 # 10))) (Sqrt (Var 1))) = x * (3 / 10) + sqrt y.
Proof. intros. unfold_evalR. reflexivity. Qed.
