(* C10 -- proofs: reading a dump returns the dumped record (one nesting level, components abstract;
   the levels are stacked in RawLevels.v). *)
From Coq Require Import String List Ascii Bool Arith Lia.
Require Import IPV.C10.Raw IPV.C10.RawSpec.
Import ListNotations.
Open Scope string_scope.
Open Scope list_scope.

Lemma status_eqb_eq : forall a b, status_eqb a b = true <-> a = b.
Proof. destruct a, b; simpl; split; intro H; try reflexivity; try discriminate. Qed.

Lemma mem_str_In : forall x l, mem_str x l = true <-> In x l.
Proof.
  intros x l. unfold mem_str. rewrite existsb_exists. split.
  - intros [y [Hy He]]. apply String.eqb_eq in He. subst. assumption.
  - intro H. exists x. split; [assumption | apply String.eqb_refl].
Qed.

Section Proofs.
  Variable cres : Type.
  Variable cread : string -> list line -> result (cres * list line).
  Variable crec : Type.
  Variable cdump : string -> crec -> list line.
  Variable child_ok : string -> bool.
  Variable cstop_opt : string -> string -> bool.
  Variable cwf : string -> crec -> Prop.
  Variable cintended : string -> crec -> cres.

  Definition cstops (c : string) (rest : list line) : Prop :=
    match rest with
    | [] => True
    | LOpt n _ :: _ => cstop_opt c n = true
    | LData _ :: _ => False
    end.

  (* what is assumed of the component readers one level down (discharged in RawLevels.v) *)
  Hypothesis Hchild : forall c x rest,
      child_ok c = true -> cwf c x -> cstops c rest ->
      cread c (cdump c x ++ rest) = Ok (cintended c x, rest).

  Notation item_status := (item_status child_ok cstop_opt).
  Notation wf_item := (wf_item crec cwf).
  Notation wf_items := (wf_items child_ok cstop_opt crec cwf).
  Notation kept_item := (kept_item crec cres cintended).
  Notation kept_items := (kept_items child_ok cstop_opt crec cres cintended).
  Notation req_sets := (req_sets child_ok cstop_opt).
  Notation read_loop := (read_loop cres cread).
  Notation dump_item := (dump_item crec cdump).
  Notation dump_items := (dump_items crec cdump).
  Notation event := (event cres).

  (* ---------------------------------------------------------------- argument extraction *)
  Lemma take_args_ok : forall w r l,
      args_compat w r = true -> typed_args w l ->
      take_args cres r l = Some (mk_events cres r l).
  Proof.
    induction w as [|[wm wk] w IH]; intros r l Hc Ht.
    - destruct r; simpl in Hc; [|discriminate]. inversion Ht. reflexivity.
    - destruct r as [|[rm rk] r]; simpl in Hc; [discriminate|].
      apply andb_prop in Hc. destruct Hc as [Hc1 Hc3]. apply andb_prop in Hc1. destruct Hc1 as [_ Hc2].
      inversion Ht as [|a t w' l' Hk Hrest]; subst. simpl in Hk.
      simpl. rewrite Hk, Hc2. rewrite (IH r l' Hc3 Hrest). reflexivity.
  Qed.

  Lemma take_keys_ok : forall w r l,
      kinds_compat w r = true -> typed_keys w l -> take_keys r l = Some l.
  Proof.
    induction w as [|wk w IH]; intros r l Hc Ht.
    - destruct r; simpl in Hc; [|discriminate]. inversion Ht. reflexivity.
    - destruct r as [|rk r]; simpl in Hc; [discriminate|].
      apply andb_prop in Hc. destruct Hc as [Hc1 Hc2].
      inversion Ht as [|a t w' l' Hk Hrest]; subst.
      simpl. rewrite Hc1. rewrite (IH r l' Hc2 Hrest). reflexivity.
  Qed.

  Lemma take_while_all : forall rk wk row,
      accepts rk wk = true -> Forall (fun t => tkind t = wk) row -> take_while rk row = row.
  Proof.
    intros rk wk row Ha Hf. induction Hf as [|t row Ht Hf IH]; simpl; [reflexivity|].
    rewrite Ht, Ha, IH. reflexivity.
  Qed.

  Lemma read_row_ok : forall s w r row,
      spec_compat w r = true -> row_ok s w row -> read_row r row = RowOk row.
  Proof.
    intros s w r row Hc [Hne Hty]. destruct w as [wks|wk], r as [rks|rk]; simpl in Hc; try discriminate.
    - apply andb_prop in Hc. destruct Hc as [Hc _]. simpl.
      destruct row as [|t row]; [contradiction|]. rewrite (take_keys_ok _ _ _ Hc Hty). reflexivity.
    - simpl. rewrite (take_while_all _ _ _ Hc Hty). destruct row; [contradiction | reflexivity].
  Qed.

  Lemma read_row_nil : forall r, read_row r [] = RowNone.
  Proof. destruct r; reflexivity. Qed.

  (* ---------------------------------------------------------------- opt_save bookkeeping *)
  Lemma lookup_case_In : forall i cs c, lookup_case i cs = Some c -> In (i, c) cs.
  Proof.
    induction cs as [|[j d] cs IH]; simpl; intros c H; [discriminate|].
    destruct (Nat.eqb i j) eqn:E.
    - inversion H; subst. apply Nat.eqb_eq in E. subst. left; reflexivity.
    - right. apply IH. assumption.
  Qed.

  Definition keeps_none (s : schema) (o o' : option nat) : Prop := never_saves s = true -> o = None -> o' = None.

  Lemma never_saves_case : forall s i c o,
      lookup_case i (scases s) = Some c ->
      keeps_none s o (apply_post (cpost c) (apply_post (spre s) o)).
  Proof.
    intros s i c o Hl Hn Ho. subst o. unfold never_saves in Hn.
    apply andb_prop in Hn. destruct Hn as [Hn _]. apply andb_prop in Hn. destruct Hn as [Hpre Hcs].
    rewrite forallb_forall in Hcs. specialize (Hcs _ (lookup_case_In _ _ _ Hl)). simpl in Hcs.
    destruct (cpost c) as [[j|]|]; simpl in *; try discriminate; try reflexivity.
    destruct (spre s) as [[j|]|]; simpl in *; try discriminate; reflexivity.
  Qed.

  Lemma never_saves_pre : forall s o, keeps_none s o (apply_post (spre s) o).
  Proof.
    intros s o Hn Ho. subst. unfold never_saves in Hn.
    apply andb_prop in Hn. destruct Hn as [Hn _]. apply andb_prop in Hn. destruct Hn as [Hpre _].
    destruct (spre s) as [[j|]|]; simpl in *; try discriminate; reflexivity.
  Qed.

  Lemma never_saves_default : forall s c o,
      sdefault s = Some c -> keeps_none s o (apply_post (cpost c) (apply_post (spre s) o)).
  Proof.
    intros s c o Hd Hn Ho. subst o. unfold never_saves in Hn.
    apply andb_prop in Hn. destruct Hn as [Hn Hdf]. apply andb_prop in Hn. destruct Hn as [Hpre _].
    rewrite Hd in Hdf.
    destruct (cpost c) as [[j|]|]; simpl in *; try discriminate; try reflexivity.
    destruct (spre s) as [[j|]|]; simpl in *; try discriminate; reflexivity.
  Qed.

  (* ---------------------------------------------------------------- the simulation statement *)
  (* Reading the lines [ls] (then [rest]) takes [k] iterations, appends [evs] and at least the flags [fs] *)
  Definition sim (s : schema) (k : nat) (ls : list line) (evs : list event) (fs : list string) : Prop :=
    forall n osave flags acc rest,
      (never_saves s = true -> osave = None) ->
      exists osave' flags',
        (never_saves s = true -> osave' = None) /\ incl flags flags' /\ incl fs flags' /\
        read_loop (k + n) s osave flags acc (ls ++ rest) = read_loop n s osave' flags' (rev evs ++ acc) rest.

  Lemma sim_nil : forall s, sim s 0 [] [] [].
  Proof.
    intros s n osave flags acc rest Ho. exists osave, flags. repeat split; auto using incl_refl.
    intros x Hx; inversion Hx.
  Qed.

  Lemma sim_app : forall s k1 k2 l1 l2 e1 e2 f1 f2,
      sim s k1 l1 e1 f1 -> sim s k2 l2 e2 f2 -> sim s (k1 + k2) (l1 ++ l2) (e1 ++ e2) (f1 ++ f2).
  Proof.
    intros s k1 k2 l1 l2 e1 e2 f1 f2 H1 H2 n osave flags acc rest Ho.
    destruct (H1 (k2 + n) osave flags acc (l2 ++ rest) Ho) as [o1 [fl1 [Ho1 [Hi1 [Hf1 E1]]]]].
    destruct (H2 n o1 fl1 (rev e1 ++ acc) rest Ho1) as [o2 [fl2 [Ho2 [Hi2 [Hf2 E2]]]]].
    exists o2, fl2. repeat split; auto.
    - eapply incl_tran; eassumption.
    - apply incl_app; [eapply incl_tran; eassumption | assumption].
    - rewrite <- app_assoc, <- Nat.add_assoc, E1, E2. rewrite rev_app_distr, <- app_assoc. reflexivity.
  Qed.

  Lemma sim_weaken : forall s k ls evs fs fs', sim s k ls evs fs -> incl fs' fs -> sim s k ls evs fs'.
  Proof.
    intros s k ls evs fs fs' H Hi n osave flags acc rest Ho.
    destruct (H n osave flags acc rest Ho) as [o [fl [A [B [C D]]]]].
    exists o, fl. repeat split; auto. eapply incl_tran; eassumption.
  Qed.

  (* one option line dispatched to case c (no nested reader) *)
  Lemma sim_opt_line : forall s opt i c args evs,
      find_option opt (svopts s) = Some i ->
      lookup_case i (scases s) = Some c ->
      match cact c with
      | RIgnore => evs = []
      | RArgs sp => take_args cres sp args = Some evs
      | RRow m spec => match read_row spec args with RowNone => evs = [] | RowOk r => evs = [(m, FRow r)] | RowErr => False end
      | RSub _ _ _ => False
      end ->
      sim s 1 [LOpt opt args] evs (csets c).
  Proof.
    intros s opt i c args evs Hf Hl Hact n osave flags acc rest Ho.
    exists (apply_post (cpost c) (apply_post (spre s) osave)), (csets c ++ flags).
    split; [intro Hn; apply (never_saves_case s i c osave Hl Hn); auto|].
    split; [apply incl_appr, incl_refl|]. split; [apply incl_appl, incl_refl|].
    simpl. rewrite Hf, Hl.
    destruct (cact c) as [sp|m spec|m ch kk|].
    - rewrite Hact. reflexivity.
    - destruct (read_row spec args); [subst; reflexivity | subst; reflexivity | contradiction].
    - contradiction.
    - subst. reflexivity.
  Qed.

  (* an option line whose table entry has no case: the switch does nothing *)
  Lemma sim_opt_nocase : forall s opt i args,
      find_option opt (svopts s) = Some i ->
      lookup_case i (scases s) = None ->
      sim s 1 [LOpt opt args] [] [].
  Proof.
    intros s opt i args Hf Hl n osave flags acc rest Ho.
    exists (apply_post (spre s) osave), flags.
    split; [intro Hn; apply (never_saves_pre s osave Hn); auto|].
    split; [apply incl_refl|]. split; [intros x Hx; inversion Hx|].
    simpl. rewrite Hf, Hl. reflexivity.
  Qed.

  (* ---------------------------------------------------------------- WLines *)
  Lemma sim_lines_faithful : forall s opt wargs i c rargs ls,
      find_option opt (svopts s) = Some i ->
      lookup_case i (scases s) = Some c ->
      cact c = RArgs rargs ->
      args_compat wargs rargs = true ->
      Forall (typed_args wargs) ls ->
      sim s (length ls) (map (LOpt opt) ls) (flat_map (mk_events cres rargs) ls)
          (match ls with [] => [] | _ => csets c end).
  Proof.
    intros s opt wargs i c rargs ls Hf Hl Ha Hc Hty.
    induction Hty as [|l ls Hl1 Hty IH].
    - apply sim_nil.
    - simpl map. simpl flat_map. change (length (l :: ls)) with (1 + length ls).
      eapply sim_weaken.
      + apply (sim_app s 1 (length ls) [LOpt opt l] (map (LOpt opt) ls)).
        * apply (sim_opt_line s opt i c l (mk_events cres rargs l) Hf Hl).
          rewrite Ha. apply (take_args_ok wargs); assumption.
        * exact IH.
      + apply incl_appl, incl_refl.
  Qed.

  Lemma sim_lines_dropped : forall s opt ls,
      (exists i, find_option opt (svopts s) = Some i /\
                 (lookup_case i (scases s) = None \/ exists c, lookup_case i (scases s) = Some c /\ cact c = RIgnore)) ->
      sim s (length ls) (map (LOpt opt) ls) [] [].
  Proof.
    intros s opt ls [i [Hf Hc]]. induction ls as [|l ls IH].
    - apply sim_nil.
    - simpl map. change (length (l :: ls)) with (1 + length ls).
      change (@nil event) with (@nil event ++ @nil event).
      eapply sim_weaken.
      + apply (sim_app s 1 (length ls) [LOpt opt l] (map (LOpt opt) ls) [] []); [|exact IH].
        destruct Hc as [Hn | [c [Hl Ha]]].
        * apply (sim_opt_nocase s opt i l Hf Hn).
        * eapply sim_weaken; [apply (sim_opt_line s opt i c l [] Hf Hl); rewrite Ha; reflexivity|].
          intros x Hx; inversion Hx.
      + intros x Hx; inversion Hx.
  Qed.

  (* ---------------------------------------------------------------- data rows *)
  Lemma sim_rows_saved : forall s i c m spec wspec rows,
      suses_save s = true ->
      lookup_case i (scases s) = Some c ->
      cact c = RRow m spec ->
      post_is (cpost c) i = true ->
      spec_compat wspec spec = true ->
      Forall (row_ok s wspec) rows ->
      forall n flags acc rest,
      exists flags', incl flags flags' /\
        read_loop (length rows + n) s (Some i) flags acc (map LData rows ++ rest)
        = read_loop n s (Some i) flags' (rev (map (fun r => (m, FRow r)) rows) ++ acc) rest.
  Proof.
    intros s i c m spec wspec rows Hu Hl Ha Hp Hc Hrows.
    assert (Hpost : forall o, apply_post (cpost c) o = Some i).
    { intro o. destruct (cpost c) as [[j|]|]; simpl in Hp; try discriminate.
      apply Nat.eqb_eq in Hp. subst. reflexivity. }
    induction Hrows as [|row rows Hr Hrows IH]; intros n flags acc rest.
    - exists flags. split; [apply incl_refl | reflexivity].
    - destruct (IH n (csets c ++ flags) ((m, FRow row) :: acc) rest) as [fl [Hi E]].
      exists fl. split; [eapply incl_tran; [|exact Hi]; apply incl_appr, incl_refl|].
      simpl map. change (length (row :: rows) + n) with (S (length rows + n)).
      simpl. destruct row as [|t row']; [destruct Hr as [[] _]|].
      destruct Hr as [Hex Hty].
      simpl. rewrite Hex, Hu, Hl, Ha.
      rewrite (read_row_ok s wspec spec (t :: row') Hc (conj Hex Hty)).
      rewrite Hpost. rewrite E. simpl. rewrite <- app_assoc. reflexivity.
  Qed.

  Lemma sim_block_faithful : forall s opt i c m spec wspec rows,
      find_option opt (svopts s) = Some i ->
      suses_save s = true ->
      lookup_case i (scases s) = Some c ->
      cact c = RRow m spec ->
      post_is (cpost c) i = true ->
      spec_compat wspec spec = true ->
      Forall (row_ok s wspec) rows ->
      sim s (S (length rows)) (LOpt opt [] :: map LData rows) (map (fun r => (m, FRow r)) rows) (csets c).
  Proof.
    intros s opt i c m spec wspec rows Hf Hu Hl Ha Hp Hc Hrows n osave flags acc rest Ho.
    assert (Hpost : forall o, apply_post (cpost c) o = Some i).
    { intro o. destruct (cpost c) as [[j|]|]; simpl in Hp; try discriminate.
      apply Nat.eqb_eq in Hp. subst. reflexivity. }
    destruct (sim_rows_saved s i c m spec wspec rows Hu Hl Ha Hp Hc Hrows n (csets c ++ flags) acc rest) as [fl [Hi E]].
    exists (Some i), fl.
    split.
    { intro Hn. exfalso. unfold never_saves in Hn.
      apply andb_prop in Hn. destruct Hn as [Hn _]. apply andb_prop in Hn. destruct Hn as [_ Hcs].
      rewrite forallb_forall in Hcs. specialize (Hcs _ (lookup_case_In _ _ _ Hl)). simpl in Hcs.
      destruct (cpost c) as [[j|]|]; simpl in *; discriminate. }
    split; [eapply incl_tran; [|exact Hi]; apply incl_appr, incl_refl|].
    split; [eapply incl_tran; [|exact Hi]; apply incl_appl, incl_refl|].
    change (S (length rows) + n) with (S (length rows + n)).
    simpl. rewrite Hf, Hl, Ha, read_row_nil, Hpost. exact E.
  Qed.

  Lemma sim_block_header_only : forall s opt i c m spec,
      find_option opt (svopts s) = Some i ->
      lookup_case i (scases s) = Some c ->
      cact c = RRow m spec ->
      sim s 1 [LOpt opt []] [] (csets c).
  Proof.
    intros s opt i c m spec Hf Hl Ha.
    apply (sim_opt_line s opt i c [] [] Hf Hl). rewrite Ha, read_row_nil. reflexivity.
  Qed.

  (* header-less rows read by an explicit `case OPT_DEFAULT` (cxxMix) *)
  Lemma sim_rows_default : forall s c m spec wspec rows,
      never_saves s = true ->
      sdefault s = Some c ->
      cact c = RRow m spec ->
      spec_compat wspec spec = true ->
      Forall (row_ok s wspec) rows ->
      sim s (length rows) (map LData rows) (map (fun r => (m, FRow r)) rows) [].
  Proof.
    intros s c m spec wspec rows Hns Hd Ha Hc Hrows.
    induction Hrows as [|row rows Hr Hrows IH].
    - apply sim_nil.
    - simpl map. change (length (row :: rows)) with (1 + length rows).
      change (@nil string) with (@nil string ++ @nil string).
      apply (sim_app s 1 (length rows) [LData row] (map LData rows) [(m, FRow row)]); [|exact IH].
      intros n osave flags acc rest Ho. specialize (Ho Hns). subst osave.
      exists (apply_post (cpost c) (apply_post (spre s) None)), (csets c ++ flags).
      split; [intro Hn; apply (never_saves_default s c None Hd Hn); reflexivity|].
      split; [apply incl_appr, incl_refl|]. split; [intros x Hx; inversion Hx|].
      destruct row as [|t row']; [destruct Hr as [[] _]|]. destruct Hr as [Hex Hty].
      simpl. rewrite Hex.
      assert (Hres : (if suses_save s then DispDefault (t :: row') else DispDefault (t :: row')) = DispDefault (t :: row'))
        by (destruct (suses_save s); reflexivity).
      rewrite Hres, Hd, Ha.
      rewrite (read_row_ok s wspec spec (t :: row') Hc (conj Hex Hty)). reflexivity.
  Qed.

  (* ---------------------------------------------------------------- nested components *)
  Lemma sim_subs : forall s opt i c m child wk rk comps (after : list line -> Prop),
      find_option opt (svopts s) = Some i ->
      lookup_case i (scases s) = Some c ->
      cact c = RSub m child rk ->
      kinds_compat wk rk = true ->
      child_ok child = true ->
      cstop_opt child opt = true ->
      Forall (fun kc => typed_keys wk (fst kc) /\ cwf child (snd kc)) comps ->
      (* [after rest]: whatever follows the last component makes the component reader return *)
      (forall rest, after rest -> cstops child rest) ->
      forall n osave flags acc rest,
        after rest ->
        (never_saves s = true -> osave = None) ->
        exists osave' flags',
          (never_saves s = true -> osave' = None) /\ incl flags flags' /\
          (comps <> [] -> incl (csets c) flags') /\
          read_loop (length comps + n) s osave flags acc
                    (flat_map (fun kc => LOpt opt (fst kc) :: cdump child (snd kc)) comps ++ rest)
          = read_loop n s osave' flags'
                      (rev (map (fun kc => (m, FSub (fst kc) (cintended child (snd kc)))) comps) ++ acc) rest.
  Proof.
    intros s opt i c m child wk rk comps after Hf Hl Ha Hk Hok Hself Hcomps Hafter.
    induction Hcomps as [|[key x] comps [Hty Hwf] Hcomps IH]; intros n osave flags acc rest Hrest Ho.
    - exists osave, flags. repeat split; auto using incl_refl. intro H; contradiction H; reflexivity.
    - simpl fst in *. simpl snd in *.
      destruct (IH n (apply_post (cpost c) (apply_post (spre s) osave)) (csets c ++ flags)
                   ((m, FSub key (cintended child x)) :: acc) rest Hrest) as [o' [fl [Ho' [Hi [_ E]]]]].
      { intro Hn. apply (never_saves_case s i c osave Hl Hn); auto. }
      exists o', fl. split; [assumption|].
      split; [eapply incl_tran; [|exact Hi]; apply incl_appr, incl_refl|].
      split; [intros _; eapply incl_tran; [|exact Hi]; apply incl_appl, incl_refl|].
      change (length ((key, x) :: comps) + n) with (S (length comps + n)).
      simpl flat_map. simpl. rewrite Hf, Hl, Ha.
      rewrite (take_keys_ok wk rk key Hk Hty).
      rewrite <- app_assoc.
      rewrite (Hchild child x _ Hok Hwf).
      + rewrite E. simpl. rewrite <- app_assoc. reflexivity.
      + destruct comps as [|[key2 x2] comps'].
        * simpl. apply Hafter. assumption.
        * simpl. exact Hself.
  Qed.

  (* ---------------------------------------------------------------- what follows a component block *)
  Lemma follow_cons : forall it tl,
      follow (it :: tl) =
      match it with
      | WLines o _ One => ([o], true)
      | WBlock o _ _ false => ([o], true)
      | WRows _ _ => ([], false)
      | _ => (witem_opt it :: fst (follow tl), snd (follow tl))
      end.
  Proof.
    intros it tl. simpl. destruct (follow tl) as [n c].
    destruct it as [o a m|o me sp g|me sp|o me ch kk]; reflexivity.
  Qed.

  Lemma head_follow : forall s its vs rest,
      wf_items s its vs -> snd (follow its) = true ->
      exists n args more, dump_items its vs ++ rest = LOpt n args :: more /\ In n (fst (follow its)).
  Proof.
    intros s its. induction its as [|it tl IH]; intros vs rest Hwf Hcl.
    - simpl in Hcl. discriminate.
    - destruct vs as [|v vs']; [destruct Hwf|]. destruct Hwf as [Hw Hwf'].
      rewrite follow_cons in Hcl |- *. simpl dump_items.
      assert (Hrec : snd (follow tl) = true -> exists n args more,
                 dump_items tl vs' ++ rest = LOpt n args :: more /\ In n (fst (follow tl))).
      { intro Hfc. apply (IH vs' rest Hwf' Hfc). }
      destruct it as [opt args m|opt mem spec g|mem spec|opt mem child kk]; destruct v as [ls|p rows|comps];
        try (destruct Hw; fail).
      + (* WLines *)
        destruct Hw as [H1 [H2 [H3 H4]]].
        destruct m.
        * specialize (H1 eq_refl). destruct ls as [|l [|l2 ls]]; simpl in H1; try discriminate.
          simpl. exists opt, l, (dump_items tl vs' ++ rest). split; [reflexivity | left; reflexivity].
        * simpl in Hcl. destruct ls as [|l ls].
          -- simpl. destruct (Hrec Hcl) as [n [a [more [E Hin]]]]. exists n, a, more. split; [exact E | right; exact Hin].
          -- simpl. eexists opt, l, _. split; [reflexivity | left; reflexivity].
        * simpl in Hcl. destruct ls as [|l ls].
          -- simpl. destruct (Hrec Hcl) as [n [a [more [E Hin]]]]. exists n, a, more. split; [exact E | right; exact Hin].
          -- simpl. eexists opt, l, _. split; [reflexivity | left; reflexivity].
      + (* WBlock *)
        destruct Hw as [H1 [H2 [H3 [H4 H5]]]].
        destruct g.
        * simpl in Hcl. destruct p.
          -- simpl. eexists opt, [], _. split; [reflexivity | left; reflexivity].
          -- simpl. destruct (Hrec Hcl) as [n [a [more [E Hin]]]]. exists n, a, more. split; [exact E | right; exact Hin].
        * rewrite (H1 eq_refl). simpl. eexists opt, [], _. split; [reflexivity | left; reflexivity].
      + (* WRows *) simpl in Hcl. discriminate.
      + (* WSubs *)
        simpl in Hcl. destruct comps as [|[key x] comps].
        * simpl. destruct (Hrec Hcl) as [n [a [more [E Hin]]]]. exists n, a, more. split; [exact E | right; exact Hin].
        * simpl. eexists opt, key, _. split; [reflexivity | left; reflexivity].
  Qed.

  (* ---------------------------------------------------------------- one item *)
  Definition sets_if_present (s : schema) (it : witem) (v : wval crec) : list string :=
    match steps_item crec it v with 0 => [] | _ => item_sets s it end.

  Lemma item_case_unfold : forall s opt i oc,
      item_case s opt = Some (i, oc) -> find_option opt (svopts s) = Some i /\ lookup_case i (scases s) = oc.
  Proof.
    unfold item_case. intros s opt i oc H. destruct (find_option opt (svopts s)); [|discriminate].
    inversion H; subst. split; reflexivity.
  Qed.

  Lemma subs_status_inv : forall s fol opt mem child kk,
      item_status s fol (WSubs opt mem child kk) = Broken \/
      (item_status s fol (WSubs opt mem child kk) = Faithful /\
       exists i c kk', find_option opt (svopts s) = Some i /\ lookup_case i (scases s) = Some c /\
                       cact c = RSub mem child kk' /\ kinds_compat kk kk' = true /\ child_ok child = true /\
                       snd fol = true /\ cstop_opt child opt = true /\
                       forallb (cstop_opt child) (fst fol) = true).
  Proof.
    intros s fol opt mem child kk. unfold item_status.
    destruct (item_case s opt) as [[i [c|]]|] eqn:Ecase; auto.
    destruct (item_case_unfold _ _ _ _ Ecase) as [Hf Hl].
    destruct (cact c) as [rargs|m' sp|m' ch kk'|] eqn:Eact; auto.
    destruct (String.eqb mem m' && String.eqb child ch && kinds_compat kk kk' && child_ok child
              && snd fol && forallb (cstop_opt child) (opt :: fst fol)) eqn:E; auto.
    right. split; [reflexivity|].
    repeat (apply andb_prop in E; let H := fresh "Hc" in destruct E as [E H]).
    apply String.eqb_eq in E. apply String.eqb_eq in Hc3. subst m' ch.
    simpl in Hc. apply andb_prop in Hc. destruct Hc as [Hself Hfol].
    exists i, c, kk'. repeat split; assumption.
  Qed.

  Lemma sim_item : forall s it tl v vs',
      wf_item s (item_status s (follow tl) it) it v ->
      wf_items s tl vs' ->
      forall n osave flags acc rest,
        (never_saves s = true -> osave = None) ->
        exists osave' flags',
          (never_saves s = true -> osave' = None) /\ incl flags flags' /\
          incl (if negb (status_eqb (item_status s (follow tl) it) Broken) then sets_if_present s it v else []) flags' /\
          read_loop (steps_item crec it v + n) s osave flags acc (dump_item it v ++ (dump_items tl vs' ++ rest))
          = read_loop n s osave' flags'
                      (rev (kept_item s (item_status s (follow tl) it) it v) ++ acc) (dump_items tl vs' ++ rest).
  Proof.
    intros s it tl v vs' Hw Hwtl n osave flags acc rest Ho.
    (* a generic way to finish from a [sim] fact *)
    assert (Hfin : forall k ls evs fs,
               sim s k ls evs fs ->
               exists osave' flags',
                 (never_saves s = true -> osave' = None) /\ incl flags flags' /\ incl fs flags' /\
                 read_loop (k + n) s osave flags acc (ls ++ (dump_items tl vs' ++ rest))
                 = read_loop n s osave' flags' (rev evs ++ acc) (dump_items tl vs' ++ rest)).
    { intros k ls evs fs Hs. apply (Hs n osave flags acc _ Ho). }
    destruct it as [opt args m|opt mem spec g|mem spec|opt mem child kk]; destruct v as [ls|p rows|comps];
      try (destruct Hw; fail).
    - (* WLines *)
      destruct Hw as [H1 [H2 [H3 H4]]].
      unfold sets_if_present, item_sets. simpl witem_opt. simpl steps_item. simpl dump_item.
      simpl item_status in *.
      destruct (item_case s opt) as [[i [c|]]|] eqn:Ecase.
      + destruct (item_case_unfold _ _ _ _ Ecase) as [Hf Hl].
        destruct (cact c) as [rargs|m' sp|m' ch kk'|] eqn:Eact.
        * destruct (args_compat args rargs) eqn:Ecompat.
          -- (* Faithful *)
             simpl kept_item. unfold reader_args. rewrite Ecase, Eact.
             destruct (Hfin _ _ _ _ (sim_lines_faithful s opt args i c rargs ls Hf Hl Eact Ecompat H3))
               as [o' [fl [A [B [C D]]]]].
             exists o', fl. repeat split; auto. simpl. destruct ls; simpl in *; auto.
          -- rewrite (H4 eq_refl). simpl. exists osave, flags. repeat split; auto using incl_refl.
             intros x Hx; inversion Hx.
        * rewrite (H4 eq_refl). simpl. exists osave, flags. repeat split; auto using incl_refl.
          intros x Hx; inversion Hx.
        * rewrite (H4 eq_refl). simpl. exists osave, flags. repeat split; auto using incl_refl.
          intros x Hx; inversion Hx.
        * (* Dropped through RIgnore: flags of the case are still set *)
          simpl kept_item.
          assert (Hs : sim s (length ls) (map (LOpt opt) ls) [] (match ls with [] => [] | _ => csets c end)).
          { clear -Hf Hl Eact. induction ls as [|l ls IH]; [apply sim_nil|].
            simpl map. change (length (l :: ls)) with (1 + length ls).
            change (@nil event) with (@nil event ++ @nil event).
            eapply sim_weaken.
            - apply (sim_app s 1 (length ls) [LOpt opt l] (map (LOpt opt) ls) [] []); [|exact IH].
              apply (sim_opt_line s opt i c l [] Hf Hl). rewrite Eact. reflexivity.
            - apply incl_appl, incl_refl. }
          destruct (Hfin _ _ _ _ Hs) as [o' [fl [A [B [C D]]]]].
          exists o', fl. repeat split; auto. simpl. destruct ls; simpl in *; auto.
      + (* Dropped: no case *)
        destruct (item_case_unfold _ _ _ _ Ecase) as [Hf Hl].
        simpl kept_item.
        destruct (Hfin _ _ _ _ (sim_lines_dropped s opt ls (ex_intro _ i (conj Hf (or_introl Hl)))))
          as [o' [fl [A [B [C D]]]]].
        exists o', fl. repeat split; auto. simpl. destruct (length ls); intros x Hx; inversion Hx.
      + rewrite (H4 eq_refl). simpl. exists osave, flags. repeat split; auto using incl_refl.
        intros x Hx; inversion Hx.
    - (* WBlock *)
      destruct Hw as [H1 [H2 [H3 [H4 H5]]]].
      unfold sets_if_present, item_sets. simpl witem_opt.
      simpl item_status in *.
      destruct (item_case s opt) as [[i [c|]]|] eqn:Ecase;
        try (rewrite (H4 eq_refl); simpl; exists osave, flags; repeat split; auto using incl_refl;
             intros x Hx; inversion Hx; fail).
      destruct (item_case_unfold _ _ _ _ Ecase) as [Hf Hl].
      destruct (cact c) as [rargs|m' sp|m' ch kk'|] eqn:Eact;
        try (rewrite (H4 eq_refl); simpl; exists osave, flags; repeat split; auto using incl_refl;
             intros x Hx; inversion Hx; fail).
      destruct (String.eqb mem m' && spec_compat spec sp) eqn:Ecompat;
        try (rewrite (H4 eq_refl); simpl; exists osave, flags; repeat split; auto using incl_refl;
             intros x Hx; inversion Hx; fail).
      apply andb_prop in Ecompat. destruct Ecompat as [Em Esp]. apply String.eqb_eq in Em. subst m'.
      destruct (suses_save s && post_is (cpost c) i) eqn:Esave.
      + (* Faithful *)
        apply andb_prop in Esave. destruct Esave as [Hu Hp].
        destruct p.
        * simpl steps_item. simpl dump_item. simpl kept_item.
          destruct (Hfin _ _ _ _ (sim_block_faithful s opt i c mem sp spec rows Hf Hu Hl Eact Hp Esp H3))
            as [o' [fl [A [B [C D]]]]].
          exists o', fl. repeat split; auto.
        * rewrite (H2 eq_refl). simpl. exists osave, flags. repeat split; auto using incl_refl.
          intros x Hx; inversion Hx.
      + (* RowsLost *)
        rewrite (H5 eq_refl) in *. destruct p.
        * simpl steps_item. simpl dump_item. simpl kept_item.
          destruct (Hfin _ _ _ _ (sim_block_header_only s opt i c mem sp Hf Hl Eact)) as [o' [fl [A [B [C D]]]]].
          exists o', fl. repeat split; auto.
        * simpl. exists osave, flags. repeat split; auto using incl_refl. intros x Hx; inversion Hx.
    - (* WRows *)
      destruct Hw as [H3 H4].
      unfold sets_if_present, item_sets. simpl steps_item. simpl dump_item.
      simpl item_status in *.
      assert (Hnil : forall (b : bool) fl, incl (if b then match length rows with 0 => [] | S _ => @nil string end else []) fl).
      { intros b fl x Hx. destruct b; [destruct (length rows)|]; inversion Hx. }
      destruct (sdefault s) as [c|] eqn:Ed;
        try (rewrite (H4 ltac:(discriminate)); simpl; exists osave, flags; repeat split; auto using incl_refl;
             intros x Hx; inversion Hx; fail).
      destruct (cact c) as [rargs|m' sp|m' ch kk'|] eqn:Eact;
        try (rewrite (H4 ltac:(discriminate)); simpl; exists osave, flags; repeat split; auto using incl_refl;
             intros x Hx; inversion Hx; fail).
      destruct (String.eqb mem m' && spec_compat spec sp && never_saves s) eqn:Ecompat;
        try (rewrite (H4 ltac:(discriminate)); simpl; exists osave, flags; repeat split; auto using incl_refl;
             intros x Hx; inversion Hx; fail).
      apply andb_prop in Ecompat. destruct Ecompat as [Ecompat Hns].
      apply andb_prop in Ecompat. destruct Ecompat as [Em Esp]. apply String.eqb_eq in Em. subst m'.
      simpl kept_item.
      destruct (Hfin _ _ _ _ (sim_rows_default s c mem sp spec rows Hns Ed Eact Esp H3)) as [o' [fl [A [B [C D]]]]].
      exists o', fl. repeat split; auto.
    - (* WSubs *)
      destruct Hw as [H3 H4].
      unfold sets_if_present. simpl steps_item. simpl dump_item.
      destruct (subs_status_inv s (follow tl) opt mem child kk) as [Hst | [Hst [i [c [kk' [Hf [Hl [Eact [Hc2 [Hc1 [Hc0 [Hself Hfol]]]]]]]]]]]];
        rewrite Hst in *.
      + rewrite (H4 eq_refl). simpl. exists osave, flags. repeat split; auto using incl_refl.
        intros x Hx; inversion Hx.
      + simpl kept_item.
        destruct (sim_subs s opt i c mem child kk kk' comps
                           (fun r => exists n a more, r = LOpt n a :: more /\ In n (fst (follow tl)))
                           Hf Hl Eact Hc2 Hc1 Hself H3) with (n := n) (osave := osave) (flags := flags) (acc := acc)
                           (rest := dump_items tl vs' ++ rest) as [o' [fl [A [B [C D]]]]].
        * intros r [nm [a [more [Er Hin]]]]. subst r. simpl.
          rewrite forallb_forall in Hfol. apply Hfol. exact Hin.
        * apply (head_follow s tl vs' rest Hwtl Hc0).
        * exact Ho.
        * exists o', fl. repeat split; auto.
          simpl. unfold item_sets, item_case. simpl witem_opt. rewrite Hf, Hl.
          destruct comps; [intros x Hx; inversion Hx|]. apply C. discriminate.
  Qed.

  (* ---------------------------------------------------------------- all items *)
  Lemma sim_items : forall s its vs,
      wf_items s its vs ->
      no_mandatory_broken child_ok cstop_opt s its = true ->
      forall n osave flags acc rest,
        (never_saves s = true -> osave = None) ->
        exists osave' flags',
          incl flags flags' /\ incl (req_sets s its) flags' /\
          read_loop (steps_items crec its vs + n) s osave flags acc (dump_items its vs ++ rest)
          = read_loop n s osave' flags' (rev (kept_items s its vs) ++ acc) rest.
  Proof.
    intros s its. induction its as [|it tl IH]; intros vs Hwf Hnb n osave flags acc rest Ho.
    - destruct vs; [|destruct Hwf]. simpl. exists osave, flags. repeat split; auto using incl_refl.
      intros x Hx; inversion Hx.
    - destruct vs as [|v vs']; [destruct Hwf|]. destruct Hwf as [Hw Hwtl].
      simpl in Hnb. apply andb_prop in Hnb. destruct Hnb as [Hnb1 Hnb2].
      destruct (sim_item s it tl v vs' Hw Hwtl (steps_items crec tl vs' + n) osave flags acc rest Ho)
        as [o1 [fl1 [Ho1 [Hi1 [Hs1 E1]]]]].
      destruct (IH vs' Hwtl Hnb2 n o1 fl1 (rev (kept_item s (item_status s (follow tl) it) it v) ++ acc) rest Ho1)
        as [o2 [fl2 [Hi2 [Hs2 E2]]]].
      exists o2, fl2. split; [eapply incl_tran; eassumption|]. split.
      + simpl req_sets. apply incl_app; [|exact Hs2].
        destruct (mandatory it) eqn:Em; simpl; [|intros x Hx; inversion Hx].
        destruct (status_eqb (item_status s (follow tl) it) Broken) eqn:Eb; simpl in *; [discriminate|].
        eapply incl_tran; [|exact Hi2].
        eapply incl_tran; [|exact Hs1].
        (* a mandatory item is always present *)
        unfold sets_if_present.
        destruct it as [opt args m|opt mem spec g|mem spec|opt mem child kk]; simpl in Em; try discriminate;
          destruct v as [ls|p rows|comps]; try (destruct Hw; fail).
        * destruct m; try discriminate. destruct Hw as [H1 _]. specialize (H1 eq_refl).
          simpl. rewrite H1. apply incl_refl.
        * destruct g; try discriminate. destruct Hw as [H1 _]. rewrite (H1 eq_refl). simpl. apply incl_refl.
      + simpl steps_items. simpl dump_items. simpl kept_items.
        rewrite <- app_assoc, <- Nat.add_assoc, E1, E2.
        rewrite rev_app_distr, <- app_assoc. reflexivity.
  Qed.

  Lemma steps_le_lines : forall its vs, steps_items crec its vs <= length (dump_items its vs).
  Proof.
    induction its as [|it tl IH]; intros vs; [simpl; lia|].
    destruct vs as [|v vs']; [simpl; lia|]. simpl. rewrite app_length. specialize (IH vs').
    assert (steps_item crec it v <= length (dump_item it v)); [|lia].
    destruct it, v; simpl; try lia.
    - rewrite map_length. lia.
    - destruct present; simpl; [rewrite map_length|]; lia.
    - rewrite map_length. lia.
    - induction comps as [|kc comps IHc]; simpl; [lia|]. rewrite app_length. lia.
  Qed.

  (* ---------------------------------------------------------------- the round trip *)
  Definition stops (s : schema) (rest : list line) : Prop :=
    match rest with
    | [] => True
    | LOpt n _ :: _ => squiet s = true /\ find_option n (svopts s) = None
    | LData _ :: _ => False
    end.

  Theorem raw_roundtrip_level : forall s,
      schema_ok child_ok cstop_opt s = true ->
      forall vs rest,
        wf child_ok cstop_opt crec cwf s vs -> stops s rest ->
        read_top cres cread s (dump crec cdump s vs ++ rest) = Ok (kept child_ok cstop_opt crec cres cintended s vs, rest).
  Proof.
    intros s Hok vs rest Hwf Hstop.
    unfold schema_ok in Hok. apply andb_prop in Hok. destruct Hok as [Hnb Hfl].
    unfold read_top, read_class, dump, kept, wf in *.
    pose (k := steps_items crec (swriter s) vs).
    assert (Hk : k <= length (dump_items (swriter s) vs)) by apply steps_le_lines.
    remember (S (length (dump_items (swriter s) vs ++ rest)) - k) as n eqn:En.
    assert (Efuel : S (length (dump_items (swriter s) vs ++ rest)) = k + n).
    { rewrite app_length in *. lia. }
    assert (Hn : n = S (n - 1)) by (rewrite app_length in *; lia).
    rewrite Efuel.
    destruct (sim_items s (swriter s) vs Hwf Hnb n None [] [] rest (fun _ => eq_refl)) as [o' [fl [_ [Hreq E]]]].
    fold k in E. rewrite E. rewrite app_nil_r.
    assert (Hflags : forallb (fun r => mem_str r fl) (srequired s) = true).
    { unfold flags_ok in Hfl. rewrite forallb_forall in *. intros r Hr. specialize (Hfl r Hr).
      apply mem_str_In. apply Hreq. apply mem_str_In. exact Hfl. }
    rewrite Hn. destruct rest as [|l rest'].
    - simpl. rewrite rev_involutive, Hflags. reflexivity.
    - destruct l as [nm a|toks]; [|destruct Hstop]. destruct Hstop as [Hq Hno].
      simpl. rewrite Hno, Hq. rewrite rev_involutive, Hflags. reflexivity.
  Qed.

  (* nothing is lost when every item is Faithful: [kept] then lists every written value *)
  Definition all_faithful (s : schema) : Prop :=
    forallb (fun st => status_eqb st Faithful) (items_status child_ok cstop_opt s (swriter s)) = true.
End Proofs.
