(* C10 -- the baseline of the unchanged tree, spelled out again in the theorem statements of
   Props/Properties_C10.v.  No proofs here, so the check can always evaluate these lists. *)
From Coq Require Import String List.
Import ListNotations.
Open Scope string_scope.

(* classes for which NO record can be read back (schema_ok fails) *)
Definition known_not_ok : list string := ["cxxSolutionIsotope"].

(* every writer item that is not restored faithfully *)
Definition known_defects : list (string * string * string) :=
  [ ("cxxSolutionIsotope", "-ratio_uncertainty", "broken");
    ("cxxSolutionIsotope", "required:ratio_defined", "never-set");
    ("cxxSolution", "-Isotope", "broken");
    ("cxxGasComp", "-p", "dropped");
    ("cxxExchange", "-totals", "rows-unreadable");
    ("cxxSurface", "-totals", "rows-unreadable") ].

(* members written by dump_raw that Serialize does not push *)
Definition known_copy_defects : list (string * string * string) :=
  [ ("cxxSolution", "serialize:viscos_0", "not-copied") ].

(* members pushed by Serialize that the RAW text does not carry (workspace / definition flags) *)
Definition known_dump_defects : list (string * string * string) :=
  [ ("cxxSolution", "dump:new_def", "not-dumped");
    ("cxxKineticsComp", "dump:moles_of_reaction", "not-dumped") ].
