(* C10 -- the generic theorems applied to the schemas GENERATED from /repo (Gen_C10_schemas.v).
   Everything below that mentions S_cxx... / schemas_level* is re-checked against the current source. *)
From Coq Require Import String List Ascii Bool Arith Lia.
Require Import IPV.C10.Raw IPV.C10.RawSpec IPV.C10.RawProofs IPV.C10.RawLevels IPV.C10.Serial IPV.C10.Copy IPV.C10.Known.
Require Import IPV.Gen.Gen_C10_schemas.
Import ListNotations.
Open Scope string_scope.
Open Scope list_scope.

Notation L0 := schemas_level0.
Notation L1 := schemas_level1.
Notation L2 := schemas_level2.

Lemma names_ok_gen : names_ok L0 L1 = true.
Proof. vm_compute. reflexivity. Qed.

Lemma not_ok_known : inclb (classes_not_ok L0 L1 L2) known_not_ok = true.
Proof. vm_compute. reflexivity. Qed.

Lemma defects_known : incl3b (all_defects L0 L1 L2) known_defects = true.
Proof. vm_compute. reflexivity. Qed.

Lemma filter_negb_nil : forall (f : schema -> bool) l known,
    inclb (map sname (filter (fun s => negb (f s)) l)) known = true ->
    forall s, In s l -> ~ In (sname s) known -> f s = true.
Proof.
  intros f l known H s Hin Hk. destruct (f s) eqn:E; [reflexivity|]. exfalso. apply Hk.
  unfold inclb in H. rewrite forallb_forall in H. apply mem_str_In. apply H.
  apply in_map. apply filter_In. split; [assumption | rewrite E; reflexivity].
Qed.

Lemma inclb_app : forall a b k, inclb (a ++ b) k = true -> inclb a k = true /\ inclb b k = true.
Proof. intros a b k H. unfold inclb in *. rewrite forallb_app in H. apply andb_prop in H. exact H. Qed.

Lemma ok0_gen : forall s, In s L0 -> ~ In (sname s) known_not_ok -> ok0 s = true.
Proof.
  pose proof not_ok_known as H. unfold classes_not_ok in H.
  apply inclb_app in H. destruct H as [H _]. exact (filter_negb_nil ok0 L0 known_not_ok H).
Qed.

Lemma ok1_gen : forall s, In s L1 -> ~ In (sname s) known_not_ok -> ok1 L0 s = true.
Proof.
  pose proof not_ok_known as H. unfold classes_not_ok in H.
  apply inclb_app in H. destruct H as [_ H]. apply inclb_app in H. destruct H as [H _].
  exact (filter_negb_nil (ok1 L0) L1 known_not_ok H).
Qed.

Lemma ok2_gen : forall s, In s L2 -> ~ In (sname s) known_not_ok -> ok2 L0 L1 s = true.
Proof.
  pose proof not_ok_known as H. unfold classes_not_ok in H.
  apply inclb_app in H. destruct H as [_ H]. apply inclb_app in H. destruct H as [_ H].
  exact (filter_negb_nil (ok2 L0 L1) L2 known_not_ok H).
Qed.

(* reading the dump of ANY well-formed record of ANY generated class gives the record back *)
Theorem roundtrip_gen0 : forall s, In s L0 -> ~ In (sname s) known_not_ok ->
    forall r, wf0 s r -> read0 s (dump0 s r) = Ok (kept0 s r, []).
Proof.
  intros s Hin Hk r Hwf. rewrite <- (app_nil_r (dump0 s r)).
  apply roundtrip0; [apply ok0_gen; assumption | assumption | exact I].
Qed.

Theorem roundtrip_gen1 : forall s, In s L1 -> ~ In (sname s) known_not_ok ->
    forall r, wf1 L0 s r -> read1 L0 s (dump1 L0 s r) = Ok (kept1 L0 s r, []).
Proof.
  intros s Hin Hk r Hwf. rewrite <- (app_nil_r (dump1 L0 s r)).
  apply roundtrip1; [apply ok1_gen; assumption | assumption | exact I].
Qed.

Theorem roundtrip_gen2 : forall s, In s L2 -> ~ In (sname s) known_not_ok ->
    forall r, wf2 L0 L1 s r -> read2 L0 L1 s (dump2 L0 L1 s r) = Ok (kept2 L0 L1 s r, []).
Proof.
  intros s Hin Hk r Hwf. rewrite <- (app_nil_r (dump2 L0 L1 s r)).
  apply roundtrip2; [apply ok2_gen; assumption | assumption | exact I].
Qed.

(* ---------------------------------------------------------------- non-vacuity *)
Definition n (t : string) := Tok KNum t.
Definition w (t : string) := Tok KStr t.
Definition b (t : string) := Tok KBool t.
Definition i (t : string) := Tok KInt t.

(* a gas phase with one component, as cxxGasPhase::dump_raw writes it *)
Definition ex_gascomp : rec0 :=
  [ VLines [[n "0.01"]]; VLines [[n "0"]]; VLines [[n "0.01"]]; VLines [[n "0.03"]]; VLines [[n "1"]]; VLines [[n "0.03"]] ].
Definition ex_gasphase : rec1 :=
  [ VLines [[i "0"]]; VLines [[n "1"]]; VLines [[n "1.5"]];
    VSubs [([w "CO2(g)"], ex_gascomp)];
    VLines [[b "0"]]; VLines [[b "0"]]; VLines [[i "-999"]]; VLines [[n "25"]];
    VLines [[n "0.01"]]; VLines [[n "24.4"]]; VLines [[b "0"]];
    VBlock true [[w "C"; n "0.01"]; [w "O"; n "0.02"]] ].

Example ex_gasphase_wf : wf1 L0 S_cxxGasPhase ex_gasphase.
Proof.
  unfold wf1, wf, ex_gasphase, ex_gascomp. cbv -[find_exact typed_args typed_keys].
  repeat split; try discriminate; try lia; auto;
    repeat (first [ apply Forall_cons | apply Forall_nil | apply Forall2_cons | apply Forall2_nil | split
                  | reflexivity | discriminate ]).
Qed.

Example ex_gasphase_roundtrip :
  read1 L0 S_cxxGasPhase (dump1 L0 S_cxxGasPhase ex_gasphase) = Ok (kept1 L0 S_cxxGasPhase ex_gasphase, []).
Proof. vm_compute. reflexivity. Qed.

(* the dump really contains the nested block, and the dropped -p is the only thing not restored *)
Example ex_gasphase_lines : length (dump1 L0 S_cxxGasPhase ex_gasphase) = 20.
Proof. vm_compute. reflexivity. Qed.

(* ---------------------------------------------------------------- Serialize / Deserialize *)
Lemma serial_all_ok : forallb serial_ok all_serial = true.
Proof. vm_compute. reflexivity. Qed.

Theorem serialize_roundtrip_gen :
  forall (X : Type) (enc : string -> X -> list BinNums.Z * list QArith_base.Q)
         (dec : string -> list BinNums.Z -> list QArith_base.Q -> option (X * list BinNums.Z * list QArith_base.Q)),
    (forall t x iz dq, dec t (fst (enc t x) ++ iz) (snd (enc t x) ++ dq) = Some (x, iz, dq)) ->
    forall cls ser des, In (cls, ser, des) all_serial ->
    forall r, Forall2 (typed X) (map to_op ser) r ->
      deserialize X dec (map to_op des) (fst (serialize X enc (map to_op ser) r)) (snd (serialize X enc (map to_op ser) r)) = Some r.
Proof.
  intros X enc dec Hde cls ser des Hin r Ht.
  apply (serialize_roundtrip X enc dec Hde); [|assumption].
  pose proof serial_all_ok as H. rewrite forallb_forall in H. exact (H _ Hin).
Qed.

(* ---------------------------------------------------------------- copy path covers the dump *)
Lemma copy_defects_known : incl3b (copy_defects all_schemas all_serial) known_copy_defects = true.
Proof. vm_compute. reflexivity. Qed.

Lemma dump_defects_known : incl3b (dump_defects key_members all_schemas all_serial) known_dump_defects = true.
Proof. vm_compute. reflexivity. Qed.
