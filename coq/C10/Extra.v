(* C10 -- small facts about the option matcher (the model of CParser::find_option) and about what a read can touch
   (the *_MODIFY use of read_raw: only members named in the text are assigned). *)
From Coq Require Import String List Ascii Bool Arith Lia.
Require Import IPV.C10.Raw IPV.C10.RawSpec.
Import ListNotations.
Open Scope string_scope.
Open Scope list_scope.

Lemma find_idx_spec : forall {A} (p : A -> bool) l k i,
    find_idx p l k = Some i ->
    k <= i /\ (exists x, nth_error l (i - k) = Some x /\ p x = true)
    /\ forall j x, j < i - k -> nth_error l j = Some x -> p x = false.
Proof.
  intros A p l. induction l as [|a l IH]; intros k i H; simpl in H; [discriminate|].
  destruct (p a) eqn:E.
  - inversion H; subst. split; [lia|]. rewrite Nat.sub_diag. split.
    + exists a. split; [reflexivity | assumption].
    + intros j x Hj. lia.
  - destruct (IH (S k) i H) as [Hle [[x [Hn Hp]] Hall]].
    split; [lia|]. split.
    + exists x. split; [|assumption]. replace (i - k) with (S (i - S k)) by lia. exact Hn.
    + intros j y Hj Hy. destruct j as [|j]; simpl in Hy.
      * inversion Hy; subst. assumption.
      * apply (Hall j y); [lia | assumption].
Qed.

Lemma find_idx_none : forall {A} (p : A -> bool) l k,
    find_idx p l k = None -> forall x, In x l -> p x = false.
Proof.
  intros A p l. induction l as [|a l IH]; intros k H x Hin; [inversion Hin|].
  simpl in H. destruct (p a) eqn:E; [discriminate|].
  destruct Hin as [Hx|Hx]; [subst; assumption | apply (IH (S k) H x Hx)].
Qed.

(* CParser::find_option(item, &n, list, false): n is the FIRST entry that starts with the lower-cased item *)
Theorem find_option_first_match : forall item vopts i,
    find_option item vopts = Some i ->
    (exists e, nth_error vopts i = Some e /\ String.prefix (lower item) e = true)
    /\ forall j e, j < i -> nth_error vopts j = Some e -> String.prefix (lower item) e = false.
Proof.
  intros item vopts i H. unfold find_option in H.
  destruct (find_idx_spec _ _ _ _ H) as [_ [Hex Hall]]. rewrite Nat.sub_0_r in *. split; assumption.
Qed.

Theorem find_option_none : forall item vopts,
    find_option item vopts = None -> forall e, In e vopts -> String.prefix (lower item) e = false.
Proof. intros item vopts H. exact (find_idx_none _ _ _ H). Qed.
