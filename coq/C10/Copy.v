(* C10 -- the binary copy path must carry every member the RAW text carries:
   members written by dump_raw (generated writer schema) vs. members pushed by Serialize (generated op list). *)
From Coq Require Import String List Ascii Bool.
Require Import IPV.C10.Raw IPV.C10.RawSpec.
Import ListNotations.
Open Scope string_scope.
Open Scope list_scope.

(* "capacitance[0]" -> "capacitance", "g_map#2" -> "g_map", "steps.size" -> "steps" *)
Fixpoint base_name (m : string) : string :=
  match m with
  | EmptyString => EmptyString
  | String c r =>
      if Ascii.eqb c "["%char || Ascii.eqb c "#"%char || Ascii.eqb c "."%char then EmptyString
      else String c (base_name r)
  end.

Definition writer_members (s : schema) : list string :=
  flat_map (fun it =>
              match it with
              | WLines _ args _ => map (fun a => base_name (fst a)) (filter (fun a => negb (String.prefix "<" (fst a))) args)
              | WBlock _ m _ _ => [m]
              | WRows m _ => [m]
              | WSubs _ m _ _ => [m]
              end) (swriter s).

Definition ser_missing (s : schema) (ser : list (string * string)) : list string :=
  filter (fun m => negb (mem_str m (map (fun p => base_name (snd p)) ser))) (writer_members s).

Definition copy_defects (all : list schema) (serial : list (string * list (string * string) * list (string * string)))
  : list (string * string * string) :=
  flat_map (fun p =>
              match lookup_schema (fst (fst p)) all with
              | Some s => map (fun m => (sname s, String.append "serialize:" m, "not-copied")) (ser_missing s (snd (fst p)))
              | None => [(fst (fst p), "serialize", "class-without-schema")]
              end) serial.

(* if nothing is missing, every member the writer prints is pushed by Serialize *)
Lemma ser_missing_nil : forall s ser, ser_missing s ser = [] ->
  forall m, In m (writer_members s) -> In m (map (fun p => base_name (snd p)) ser).
Proof.
  intros s ser H m Hin. unfold ser_missing in H.
  destruct (mem_str m (map (fun p => base_name (snd p)) ser)) eqn:E.
  - unfold mem_str in E. apply existsb_exists in E. destruct E as [y [Hy He]].
    apply String.eqb_eq in He. subst. exact Hy.
  - exfalso. assert (Hf : In m (filter (fun m => negb (mem_str m (map (fun p => base_name (snd p)) ser))) (writer_members s))).
    { apply filter_In. split; [assumption | rewrite E; reflexivity]. }
    rewrite H in Hf. inversion Hf.
Qed.

(* the other direction: every member the binary copy carries is also carried by the RAW text -- written by
   dump_raw, or stored by a reader case (options written with a literal), or the component key the
   parent block writes (generated [key_members]), or the user number in the header line *)
Definition reader_members (s : schema) : list string :=
  flat_map (fun ic => match cact (snd ic) with
                      | RArgs a => map (fun x => base_name (fst x)) a
                      | RRow m _ => [m]
                      | RSub m _ _ => [m]
                      | RIgnore => []
                      end) (scases s).

Definition ser_members (ser : list (string * string)) : list string :=
  map (fun p => base_name (snd p)) (filter (fun p => negb (String.prefix "<" (snd p))) ser).

Definition not_dumped (keys : list (string * string)) (s : schema) (ser : list (string * string)) : list string :=
  filter (fun m => negb (mem_str m (writer_members s) || String.eqb m "n_user"
                         || (mem_str m (reader_members s)
                             && negb (existsb (fun it => mem_str m (match it with WLines _ a _ => map (fun x => base_name (fst x)) a | _ => [] end)) (swriter s))
                             && existsb (fun it => match it with WLines _ a _ => existsb (fun x => String.prefix "<literal" (fst x)) a | _ => false end) (swriter s))
                         || existsb (fun k => String.eqb (fst k) (sname s) && String.eqb (snd k) m) keys))
         (ser_members ser).

Definition dump_defects (keys : list (string * string)) (all : list schema)
           (serial : list (string * list (string * string) * list (string * string)))
  : list (string * string * string) :=
  flat_map (fun p =>
              match lookup_schema (fst (fst p)) all with
              | Some s => map (fun m => (sname s, String.append "dump:" m, "not-dumped")) (not_dumped keys s (snd (fst p)))
              | None => []
              end) serial.
