(* C10 -- model of cxxNameDouble::merge_redox (NameDouble.cxx), used by cxxSolution::read_raw for the
   -totals of SOLUTION_RAW and SOLUTION_MODIFY: an entry named by ELEMENT ("Fe") replaces every
   valence-state entry of that element ("Fe(2)", "Fe(3)"), an entry named by valence state replaces the
   element entry.

   The map (std::map<std::string,double>) is an association list with unique keys; the theorems speak
   about [lookup], so the order is irrelevant.  Modelled literally:
     * the "remove all redox" loop:   while (deleted) { scan from begin(); erase the FIRST key that starts
       with "elt("; restart }                                  -> [scan] with explicit fuel, [erase_first]
     * elt_name = redox_name.substr(0, pos) in the valence-state branch (pos = index of "(")  -> [redox_elt_name]
       (before the repair: substr(0, pos - 1), one character short: "Fe(2)" -> "F"  -> [redox_elt_name_old],
        kept below as the refuted old behaviour)
   The tie is a correspondence: harness/c10_nd.cpp calls the real cxxNameDouble::merge_redox on generated
   maps and the result is compared with [merge_redox] evaluated by Coq (props/c10.py). *)
From Coq Require Import String List Ascii Bool Arith Lia.
Import ListNotations.
Open Scope string_scope.
Open Scope list_scope.

Section MR.
  Variable V : Type.
  Definition ndmap := list (string * V).

  Fixpoint lookup (k : string) (m : ndmap) : option V :=
    match m with [] => None | (k', v) :: r => if String.eqb k k' then Some v else lookup k r end.

  Definition remove_if (p : string -> bool) (m : ndmap) : ndmap := filter (fun kv => negb (p (fst kv))) m.
  Definition remove_key (k : string) (m : ndmap) : ndmap := remove_if (String.eqb k) m.
  (* this->operator[](k) = v *)
  Definition set (k : string) (v : V) (m : ndmap) : ndmap := (k, v) :: remove_key k m.

  (* ---- the restart-scan loop of the element branch, literally *)
  Fixpoint erase_first (p : string -> bool) (m : ndmap) : option ndmap :=
    match m with
    | [] => None
    | kv :: r => if p (fst kv) then Some r else option_map (cons kv) (erase_first p r)
    end.

  Fixpoint scan (fuel : nat) (p : string -> bool) (m : ndmap) : ndmap :=
    match fuel with
    | O => m
    | S f => match erase_first p m with Some m' => scan f p m' | None => m end
    end.

  Lemma erase_first_some : forall p m m', erase_first p m = Some m' ->
      remove_if p m' = remove_if p m /\ S (length m') = length m.
  Proof.
    induction m as [|kv r IH]; intros m' H; simpl in H; [discriminate|].
    destruct (p (fst kv)) eqn:E.
    - inversion H; subst. unfold remove_if. simpl. rewrite E. simpl. split; reflexivity.
    - destruct (erase_first p r) as [r'|] eqn:Er; [|discriminate]. inversion H; subst.
      destruct (IH r' eq_refl) as [A B]. unfold remove_if in *. simpl. rewrite E. simpl. rewrite A, B. split; reflexivity.
  Qed.

  Lemma erase_first_none : forall p m, erase_first p m = None -> remove_if p m = m.
  Proof.
    induction m as [|kv r IH]; intros H; [reflexivity|]. simpl in H.
    destruct (p (fst kv)) eqn:E; [discriminate|].
    destruct (erase_first p r) eqn:Er; [discriminate|].
    unfold remove_if in *. simpl. rewrite E. simpl. rewrite (IH eq_refl). reflexivity.
  Qed.

  (* the restart-scan loop removes exactly the matching keys, whatever their position and number *)
  Theorem scan_is_filter : forall fuel p m, length m <= fuel -> scan fuel p m = remove_if p m.
  Proof.
    induction fuel as [|f IH]; intros p m Hl.
    - destruct m; [reflexivity | simpl in Hl; lia].
    - simpl. destruct (erase_first p m) as [m'|] eqn:E.
      + destruct (erase_first_some p m m' E) as [A B]. rewrite IH; [exact A | lia].
      + symmetry. apply erase_first_none. exact E.
  Qed.

  (* ---- names *)
  Fixpoint index_paren (s : string) : option nat :=
    match s with
    | EmptyString => None
    | String c r => if Ascii.eqb c "("%char then Some 0 else option_map S (index_paren r)
    end.

  (* redox_name.substr(0, pos): the element name in front of "(" *)
  Definition redox_elt_name (k : string) (pos : nat) : string := String.substring 0 pos k.

  (* what the code did before the repair (commit "fix: merge_redox strips one character too many"):
     redox_name.substr(0, pos - 1), ONE CHARACTER SHORT -- for "Fe(2)" it is "F" (for pos = 0 the unsigned
     pos - 1 is npos: the whole string) *)
  Definition redox_elt_name_old (k : string) (pos : nat) : string :=
    match pos with O => k | S q => String.substring 0 q k end.

  Definition merge1 (m : ndmap) (kv : string * V) : ndmap :=
    let (k, v) := kv in
    match index_paren k with
    | Some pos => set k v (remove_key (redox_elt_name k pos) m)
    | None => set k v (scan (length m) (String.prefix (k ++ "(")) m)
    end.

  Definition merge_redox (m src : ndmap) : ndmap := fold_left merge1 src m.

  (* ---- lookups *)
  Lemma lookup_remove_if_hit : forall p k m, p k = true -> lookup k (remove_if p m) = None.
  Proof.
    induction m as [|[k' v] r IH]; intros H; [reflexivity|]. unfold remove_if in *. simpl.
    destruct (p k') eqn:E; simpl; [apply IH; assumption|].
    destruct (String.eqb k k') eqn:Ek; [|apply IH; assumption].
    apply String.eqb_eq in Ek. subst. rewrite H in E. discriminate.
  Qed.

  Lemma lookup_remove_if_miss : forall p k m, p k = false -> lookup k (remove_if p m) = lookup k m.
  Proof.
    induction m as [|[k' v] r IH]; intros H; [reflexivity|]. unfold remove_if in *. simpl.
    destruct (p k') eqn:E; simpl.
    - destruct (String.eqb k k') eqn:Ek; [|apply IH; assumption].
      apply String.eqb_eq in Ek. subst. rewrite H in E. discriminate.
    - destruct (String.eqb k k'); [reflexivity | apply IH; assumption].
  Qed.

  Lemma lookup_set_same : forall k v m, lookup k (set k v m) = Some v.
  Proof. intros. unfold set. simpl. rewrite String.eqb_refl. reflexivity. Qed.

  Lemma lookup_set_other : forall k k' v m, k' <> k -> lookup k' (set k v m) = lookup k' m.
  Proof.
    intros k k' v m H. unfold set. simpl. destruct (String.eqb k' k) eqn:E.
    - apply String.eqb_eq in E. contradiction.
    - unfold remove_key. apply lookup_remove_if_miss. destruct (String.eqb k k') eqn:E2; [|reflexivity].
      apply String.eqb_eq in E2. subst. contradiction H. reflexivity.
  Qed.

  Lemma prefix_paren_neq : forall k, String.prefix (k ++ "(") k = false.
  Proof.
    induction k as [|c r IH]; [reflexivity|]. simpl.
    destruct (ascii_dec c c) as [_|n]; [exact IH | contradiction n; reflexivity].
  Qed.

  (* THE specification of the element branch: merging a total named by element
     (1) stores it, (2) leaves no valence-state entry "elt(...)" of that element, (3) changes nothing else *)
  Theorem merge_element_total : forall m k v,
      index_paren k = None ->
      lookup k (merge1 m (k, v)) = Some v
      /\ (forall k', String.prefix (k ++ "(") k' = true -> lookup k' (merge1 m (k, v)) = None)
      /\ (forall k', k' <> k -> String.prefix (k ++ "(") k' = false -> lookup k' (merge1 m (k, v)) = lookup k' m).
  Proof.
    intros m k v Hk. unfold merge1. rewrite Hk. rewrite scan_is_filter by lia.
    split; [apply lookup_set_same|]. split.
    - intros k' Hp. rewrite lookup_set_other.
      + apply lookup_remove_if_hit. exact Hp.
      + intro E. subst k'. rewrite prefix_paren_neq in Hp. discriminate.
    - intros k' Hne Hp. rewrite lookup_set_other by exact Hne. apply lookup_remove_if_miss. exact Hp.
  Qed.

  (* the valence-state branch stores the entry, removes the total named by the element ([redox_elt_name]),
     changes nothing else *)
  Theorem merge_redox_state : forall m k v pos,
      index_paren k = Some pos ->
      lookup k (merge1 m (k, v)) = Some v
      /\ (forall k', k' <> k -> k' <> redox_elt_name k pos -> lookup k' (merge1 m (k, v)) = lookup k' m)
      /\ (redox_elt_name k pos <> k -> lookup (redox_elt_name k pos) (merge1 m (k, v)) = None).
  Proof.
    intros m k v pos Hk. unfold merge1. rewrite Hk.
    split; [apply lookup_set_same|]. split.
    - intros k' H1 H2. rewrite lookup_set_other by exact H1. unfold remove_key. apply lookup_remove_if_miss.
      destruct (String.eqb (redox_elt_name k pos) k') eqn:E; [|reflexivity].
      apply String.eqb_eq in E. subst. contradiction H2. reflexivity.
    - intro Hne. rewrite lookup_set_other by exact Hne. unfold remove_key. apply lookup_remove_if_hit. apply String.eqb_refl.
  Qed.
End MR.

Arguments lookup {V}. Arguments merge1 {V}. Arguments merge_redox {V}. Arguments scan {V}. Arguments remove_if {V}.

(* the valence-state branch now removes the ELEMENT total and leaves fluoride alone *)
Example redox_branch_removes_element_total :
  let m := [("F", 5); ("Fe", 7); ("Na", 1)] in
  lookup "F" (merge_redox m [("Fe(2)", 3)]) = Some 5
  /\ lookup "Fe" (merge_redox m [("Fe(2)", 3)]) = None
  /\ lookup "Fe(2)" (merge_redox m [("Fe(2)", 3)]) = Some 3.
Proof. vm_compute. repeat split. Qed.

(* the OLD code (finding restore:SOLUTION_RAW:-totals:F, repaired): merging Fe(2) removed the fluoride total F *)
Definition merge1_old {V} (m : ndmap V) (kv : string * V) : ndmap V :=
  let (k, v) := kv in
  match index_paren k with
  | Some pos => set V k v (remove_key V (redox_elt_name_old k pos) m)
  | None => merge1 m kv
  end.

Example old_redox_branch_refuted :
  let m := [("F", 5); ("Fe", 7); ("Na", 1)] in
  lookup "F" (fold_left merge1_old [("Fe(2)", 3)] m) = None
  /\ lookup "Fe" (fold_left merge1_old [("Fe(2)", 3)] m) = Some 7.
Proof. vm_compute. repeat split. Qed.

Example element_branch_example :
  let m := [("Fe(2)", 1); ("N(-3)", 2); ("Fe(3)", 3); ("F", 4); ("N(0)", 5); ("N(3)", 6); ("N(5)", 7)] in
  merge_redox m [("Fe", 10); ("N", 20)] = [("N", 20); ("Fe", 10); ("F", 4)].
Proof. vm_compute. reflexivity. Qed.
