(* C10 -- stacking the one-level round trip (RawProofs.raw_roundtrip_level) three times:
   level 0 = classes without nested components, level 1 = classes whose components are level 0,
   level 2 = classes whose components are level 1 (cxxSSassemblage -> cxxSS -> cxxSScomp).
   The section variables L0 L1 L2 are instantiated with the GENERATED lists in Props. *)
From Coq Require Import String List Ascii Bool Arith Lia.
Require Import IPV.C10.Raw IPV.C10.RawSpec IPV.C10.RawProofs.
Import ListNotations.
Open Scope string_scope.
Open Scope list_scope.

Definition stop_in (l : list schema) (c n : string) : bool :=
  match lookup_schema c l with
  | Some cs => squiet cs && match find_option n (svopts cs) with None => true | Some _ => false end
  | None => false
  end.

Lemma stop_in_stops : forall l c cs rest,
    lookup_schema c l = Some cs -> cstops (stop_in l) c rest -> stops cs rest.
Proof.
  intros l c cs rest Hl H. destruct rest as [|[n a|t] rest]; simpl in *; auto.
  unfold stop_in in H. rewrite Hl in H. apply andb_prop in H. destruct H as [Hq Hf].
  split; [assumption|]. destruct (find_option n (svopts cs)); [discriminate | reflexivity].
Qed.

Section Stack.
  Variables L0 L1 L2 : list schema.

  (* ------------------------------------------------------------ level 0 *)
  Definition res0 : Type := list (event Empty_set).
  Definition rec0 : Type := list (wval Empty_set).
  Definition cread_none : string -> list line -> result (Empty_set * list line) := fun _ _ => Err "no component classes".
  Definition cdump_none : string -> Empty_set -> list line := fun _ e => match e with end.
  Definition nok : string -> bool := fun _ => false.
  Definition nstop : string -> string -> bool := fun _ _ => false.
  Definition nwf : string -> Empty_set -> Prop := fun _ _ => False.
  Definition nint : string -> Empty_set -> Empty_set := fun _ e => e.

  Definition ok0 (s : schema) : bool := schema_ok nok nstop s.
  Definition defects0 (s : schema) := defects nok nstop s.
  Definition read0 (s : schema) (ls : list line) : result (res0 * list line) := read_top Empty_set cread_none s ls.
  Definition dump0 (s : schema) (r : rec0) : list line := dump Empty_set cdump_none s r.
  Definition wf0 (s : schema) (r : rec0) : Prop := wf nok nstop Empty_set nwf s r.
  Definition kept0 (s : schema) (r : rec0) : res0 := kept nok nstop Empty_set Empty_set nint s r.

  Theorem roundtrip0 : forall s, ok0 s = true -> forall r rest, wf0 s r -> stops s rest ->
      read0 s (dump0 s r ++ rest) = Ok (kept0 s r, rest).
  Proof.
    intros s Hok r rest Hwf Hst.
    apply (raw_roundtrip_level Empty_set cread_none Empty_set cdump_none nok nstop nwf nint); auto.
    intros c x; destruct x.
  Qed.

  (* ------------------------------------------------------------ level 1 *)
  Definition res1 : Type := list (event res0).
  Definition rec1 : Type := list (wval rec0).
  Definition cread1 (c : string) (ls : list line) : result (res0 * list line) :=
    match lookup_schema c L0 with Some cs => read0 cs ls | None => Err "unknown component class" end.
  Definition cdump1 (c : string) (x : rec0) : list line :=
    match lookup_schema c L0 with Some cs => dump0 cs x | None => [] end.
  Definition cok1 (c : string) : bool := match lookup_schema c L0 with Some cs => ok0 cs | None => false end.
  Definition cwf1 (c : string) (x : rec0) : Prop := match lookup_schema c L0 with Some cs => wf0 cs x | None => False end.
  Definition cint1 (c : string) (x : rec0) : res0 := match lookup_schema c L0 with Some cs => kept0 cs x | None => [] end.

  Definition ok1 (s : schema) : bool := schema_ok cok1 (stop_in L0) s.
  Definition defects1 (s : schema) := defects cok1 (stop_in L0) s.
  Definition read1 (s : schema) (ls : list line) : result (res1 * list line) := read_top res0 cread1 s ls.
  Definition dump1 (s : schema) (r : rec1) : list line := dump rec0 cdump1 s r.
  Definition wf1 (s : schema) (r : rec1) : Prop := wf cok1 (stop_in L0) rec0 cwf1 s r.
  Definition kept1 (s : schema) (r : rec1) : res1 := kept cok1 (stop_in L0) rec0 res0 cint1 s r.

  Lemma child1 : forall c x rest, cok1 c = true -> cwf1 c x -> cstops (stop_in L0) c rest ->
      cread1 c (cdump1 c x ++ rest) = Ok (cint1 c x, rest).
  Proof.
    intros c x rest Hok Hwf Hst. unfold cok1, cwf1, cread1, cdump1, cint1 in *.
    destruct (lookup_schema c L0) as [cs|] eqn:El; [|discriminate].
    apply roundtrip0; auto. eapply stop_in_stops; eassumption.
  Qed.

  Theorem roundtrip1 : forall s, ok1 s = true -> forall r rest, wf1 s r -> stops s rest ->
      read1 s (dump1 s r ++ rest) = Ok (kept1 s r, rest).
  Proof.
    intros s Hok r rest Hwf Hst.
    apply (raw_roundtrip_level res0 cread1 rec0 cdump1 cok1 (stop_in L0) cwf1 cint1 child1); auto.
  Qed.

  (* ------------------------------------------------------------ level 2 *)
  Definition res2 : Type := list (event res1).
  Definition rec2 : Type := list (wval rec1).
  Definition cread2 (c : string) (ls : list line) : result (res1 * list line) :=
    match lookup_schema c L1 with Some cs => read1 cs ls | None => Err "unknown component class" end.
  Definition cdump2 (c : string) (x : rec1) : list line :=
    match lookup_schema c L1 with Some cs => dump1 cs x | None => [] end.
  Definition cok2 (c : string) : bool := match lookup_schema c L1 with Some cs => ok1 cs | None => false end.
  Definition cwf2 (c : string) (x : rec1) : Prop := match lookup_schema c L1 with Some cs => wf1 cs x | None => False end.
  Definition cint2 (c : string) (x : rec1) : res1 := match lookup_schema c L1 with Some cs => kept1 cs x | None => [] end.

  Definition ok2 (s : schema) : bool := schema_ok cok2 (stop_in L1) s.
  Definition defects2 (s : schema) := defects cok2 (stop_in L1) s.
  Definition read2 (s : schema) (ls : list line) : result (res2 * list line) := read_top res1 cread2 s ls.
  Definition dump2 (s : schema) (r : rec2) : list line := dump rec1 cdump2 s r.
  Definition wf2 (s : schema) (r : rec2) : Prop := wf cok2 (stop_in L1) rec1 cwf2 s r.
  Definition kept2 (s : schema) (r : rec2) : res2 := kept cok2 (stop_in L1) rec1 res1 cint2 s r.

  Lemma child2 : forall c x rest, cok2 c = true -> cwf2 c x -> cstops (stop_in L1) c rest ->
      cread2 c (cdump2 c x ++ rest) = Ok (cint2 c x, rest).
  Proof.
    intros c x rest Hok Hwf Hst. unfold cok2, cwf2, cread2, cdump2, cint2 in *.
    destruct (lookup_schema c L1) as [cs|] eqn:El; [|discriminate].
    apply roundtrip1; auto. eapply stop_in_stops; eassumption.
  Qed.

  Theorem roundtrip2 : forall s, ok2 s = true -> forall r rest, wf2 s r -> stops s rest ->
      read2 s (dump2 s r ++ rest) = Ok (kept2 s r, rest).
  Proof.
    intros s Hok r rest Hwf Hst.
    apply (raw_roundtrip_level res1 cread2 rec1 cdump2 cok2 (stop_in L1) cwf2 cint2 child2); auto.
  Qed.

  (* ------------------------------------------------------------ summary over all classes *)
  Definition all_defects : list (string * string * string) :=
    flat_map (fun s => map (fun d => (sname s, fst d, snd d)) (defects0 s)) L0
    ++ flat_map (fun s => map (fun d => (sname s, fst d, snd d)) (defects1 s)) L1
    ++ flat_map (fun s => map (fun d => (sname s, fst d, snd d)) (defects2 s)) L2.

  Definition classes_not_ok : list string :=
    map sname (filter (fun s => negb (ok0 s)) L0) ++ map sname (filter (fun s => negb (ok1 s)) L1)
    ++ map sname (filter (fun s => negb (ok2 s)) L2).

  (* every class name is found again by the look-up the nested readers use (no duplicate names) *)
  Definition names_ok : bool :=
    forallb (fun s => match lookup_schema (sname s) L0 with Some s' => String.eqb (sname s') (sname s) | None => false end) L0
    && forallb (fun s => match lookup_schema (sname s) L1 with Some s' => String.eqb (sname s') (sname s) | None => false end) L1.
End Stack.

Definition str3_eqb (a b : string * string * string) : bool :=
  String.eqb (fst (fst a)) (fst (fst b)) && String.eqb (snd (fst a)) (snd (fst b)) && String.eqb (snd a) (snd b).
Definition incl3b (a b : list (string * string * string)) : bool :=
  forallb (fun x => existsb (str3_eqb x) b) a.
Definition inclb (a b : list string) : bool := forallb (fun x => mem_str x b) a.
