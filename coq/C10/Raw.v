(* C10 -- executable model of the RAW text writers/readers of /repo/src/phreeqcpp (dump_raw / read_raw).

   What is modelled (file:function):
     * common/Parser.cxx: CParser::find_option     -> [find_option] / [find_exact]
         (lower-case the token; FIRST table entry that starts with it; exact compare for lines
          that do not start with '-')
     * common/Parser.cxx: CParser::get_option (pos_type overload) + the
         `if (opt == OPT_DEFAULT) opt = opt_save;` idiom of every read_raw   -> [resolve]
     * <Class>.cxx: cxx<Class>::read_raw : the for(;;) { get_option; switch } loop, the per-case
         extraction, `opt_save` bookkeeping, `*_defined` flags and the final `if (check)` block,
         nested component readers that return quietly at the first option they do not know
         (`useLastLine = true` in the parent)                               -> [read_loop], [read_class]
     * <Class>.cxx: cxx<Class>::dump_raw : the ordered option lines, blocks and nested component
         dumps                                                              -> [dump_item], [dump_items]
   The per-class data ([schema]) is GENERATED from the C++ (coq/Gen/Gen_C10_schemas.v).

   Abstractions: a line is already split into whitespace separated tokens; a token carries the
   lexical class of what was printed ([kind]); number formatting/parsing (14 significant digits) is
   not modelled -- values are opaque tokens.  Comment lines and blank lines are not modelled (the
   parser drops them before get_option sees them).  On the first error the model stops with [Err]
   (the C++ continues with OT_CONTINUE and counts the error); this only matters for runs the
   theorems exclude. *)
From Coq Require Import String List Ascii Bool Arith Lia.
Import ListNotations.
Open Scope string_scope.
Open Scope list_scope.

(* ------------------------------------------------------------------ tokens, lines *)
Inductive kind := KNum | KInt | KBool | KStr.

Definition kind_eqb (a b : kind) : bool :=
  match a, b with KNum, KNum | KInt, KInt | KBool, KBool | KStr, KStr => true | _, _ => false end.

(* can `stream >> (variable of kind rk)` consume a token printed from a value of kind wk ? *)
Definition accepts (rk wk : kind) : bool :=
  match rk, wk with
  | KStr, _ => true
  | KNum, (KNum | KInt | KBool) => true
  | KInt, (KInt | KBool) => true
  | KBool, KBool => true
  | _, _ => false
  end.

Record token := Tok { tkind : kind; ttext : string }.

Inductive line :=
| LOpt (name : string) (args : list token)     (* "-name a b c" *)
| LData (toks : list token).                    (* anything else *)

(* ------------------------------------------------------------------ option matching *)
Definition lower_ascii (c : ascii) : ascii :=
  let n := nat_of_ascii c in
  if andb (65 <=? n)%nat (n <=? 90)%nat then ascii_of_nat (n + 32) else c.

Fixpoint lower (s : string) : string :=
  match s with EmptyString => EmptyString | String c r => String (lower_ascii c) (lower r) end.

Fixpoint find_idx {A} (p : A -> bool) (l : list A) (i : nat) : option nat :=
  match l with [] => None | x :: r => if p x then Some i else find_idx p r (S i) end.

(* CParser::find_option(item, &n, list, false): first entry that starts with lower(item) *)
Definition find_option (item : string) (vopts : list string) : option nat :=
  find_idx (fun e => String.prefix (lower item) e) vopts 0.
(* CParser::find_option(item, &n, list, true) *)
Definition find_exact (item : string) (vopts : list string) : option nat :=
  find_idx (fun e => String.eqb (lower item) e) vopts 0.

(* ------------------------------------------------------------------ schemas *)
Inductive rowspec := RowFixed (ks : list kind) | RowMany (k : kind).
Inductive mult := One | Opt | Many.

Inductive witem :=
| WLines (opt : string) (args : list (string * kind)) (m : mult)
| WBlock (opt : string) (mem : string) (spec : rowspec) (guarded : bool)
| WRows (mem : string) (spec : rowspec)
| WSubs (opt : string) (mem : string) (child : string) (keyk : list kind).

Inductive raction :=
| RArgs (args : list (string * kind))
| RRow (mem : string) (spec : rowspec)
| RSub (mem : string) (child : string) (keyk : list kind)
| RIgnore.

Record rcase := mkCase { cact : raction; cpost : option (option nat); csets : list string }.

Record schema := {
  sname : string;
  svopts : list string;
  scases : list (nat * rcase);
  swriter : list witem;
  squiet : bool;                       (* unknown option: return quietly to the parent (true) / error (false) *)
  spre : option (option nat);          (* assignment to opt_save made before the switch on every iteration *)
  suses_save : bool;                   (* `if (opt == OPT_DEFAULT) opt = opt_save;` present *)
  sdefault : option rcase;             (* an explicit `case OPT_DEFAULT:` that reads data (cxxMix) *)
  srequired : list string              (* flags demanded by the final `if (check)` block *)
}.

Fixpoint lookup_case (i : nat) (cs : list (nat * rcase)) : option rcase :=
  match cs with [] => None | (j, c) :: r => if Nat.eqb i j then Some c else lookup_case i r end.

Fixpoint lookup_schema (n : string) (l : list schema) : option schema :=
  match l with [] => None | s :: r => if String.eqb n (sname s) then Some s else lookup_schema n r end.

Definition witem_opt (it : witem) : string :=
  match it with WLines o _ _ | WBlock o _ _ _ | WSubs o _ _ _ => o | WRows _ _ => "" end.

(* ------------------------------------------------------------------ results *)
Inductive result (A : Type) := Ok (a : A) | Err (msg : string) | OutOfFuel.
Arguments Ok {A}. Arguments Err {A}. Arguments OutOfFuel {A}.

(* ------------------------------------------------------------------ reading one line *)
Inductive resolved := Disp (i : nat) (args : list token) | DispDefault (args : list token) | Unknown.

Definition resolve (s : schema) (osave : option nat) (l : line) : resolved :=
  match l with
  | LOpt n args => match find_option n (svopts s) with Some i => Disp i args | None => Unknown end
  | LData toks =>
      match toks with
      | t :: rest =>
          match find_exact (ttext t) (svopts s) with
          | Some i => Disp i rest
          | None => if suses_save s then match osave with Some i => Disp i toks | None => DispDefault toks end
                    else DispDefault toks
          end
      | [] => DispDefault []
      end
  end.

Definition apply_post (p : option (option nat)) (cur : option nat) : option nat :=
  match p with None => cur | Some x => x end.

Section Level.
  (* nested component classes, one level down *)
  Variable cres : Type.                                                   (* what a component reader returns *)
  Variable cread : string -> list line -> result (cres * list line).      (* component reader by class name *)

  Inductive fval := FTok (t : token) | FRow (r : list token) | FSub (key : list token) (c : cres).
  Definition event : Type := string * fval.

  Fixpoint take_args (spec : list (string * kind)) (args : list token) : option (list event) :=
    match spec with
    | [] => Some []
    | (m, k) :: sp =>
        match args with
        | [] => None
        | t :: ts => if accepts k (tkind t) then option_map (cons (m, FTok t)) (take_args sp ts) else None
        end
    end.

  Fixpoint take_keys (ks : list kind) (args : list token) : option (list token) :=
    match ks with
    | [] => Some []
    | k :: ks' =>
        match args with
        | [] => None
        | t :: ts => if accepts k (tkind t) then option_map (cons t) (take_keys ks' ts) else None
        end
    end.

  Fixpoint take_while (k : kind) (args : list token) : list token :=
    match args with [] => [] | t :: ts => if accepts k (tkind t) then t :: take_while k ts else [] end.

  Inductive rowres := RowNone | RowOk (r : list token) | RowErr.

  Definition read_row (spec : rowspec) (args : list token) : rowres :=
    match spec with
    | RowFixed ks =>
        match args with
        | [] => RowNone                                   (* PARSER_OK on an empty remainder / peek_token == TT_EMPTY *)
        | _ => match take_keys ks args with Some r => RowOk r | None => RowErr end
        end
    | RowMany k => match take_while k args with [] => RowNone | r => RowOk r end
    end.

  Fixpoint read_loop (fuel : nat) (s : schema) (osave : option nat) (flags : list string)
           (acc : list event) (ls : list line) {struct fuel}
    : result (list event * list string * list line) :=
    match fuel with
    | O => OutOfFuel
    | S f =>
        match ls with
        | [] => Ok (rev acc, flags, [])
        | l :: tl =>
            let run_case (c : rcase) (args : list token) :=
              let osave' := apply_post (cpost c) (apply_post (spre s) osave) in
              let flags' := csets c ++ flags in
              match cact c with
              | RIgnore => read_loop f s osave' flags' acc tl
              | RArgs sp =>
                  match take_args sp args with
                  | Some evs => read_loop f s osave' flags' (rev evs ++ acc) tl
                  | None => Err "Expected value"
                  end
              | RRow m spec =>
                  match read_row spec args with
                  | RowNone => read_loop f s osave' flags' acc tl
                  | RowOk r => read_loop f s osave' flags' ((m, FRow r) :: acc) tl
                  | RowErr => Err "Expected row"
                  end
              | RSub m child keyk =>
                  match take_keys keyk args with
                  | None => Err "Expected component name"
                  | Some key =>
                      match cread child tl with
                      | Ok (cr, rest) => read_loop f s osave' flags' ((m, FSub key cr) :: acc) rest
                      | Err e => Err e
                      | OutOfFuel => OutOfFuel
                      end
                  end
              end in
            match resolve s osave l with
            | Unknown => if squiet s then Ok (rev acc, flags, ls) else Err "Unknown input"
            | Disp i args =>
                match lookup_case i (scases s) with
                | Some c => run_case c args
                | None => read_loop f s (apply_post (spre s) osave) flags acc tl
                end
            | DispDefault args =>
                match sdefault s with
                | Some c => run_case c args
                | None => if squiet s then Ok (rev acc, flags, ls) else Err "Unknown input"
                end
            end
        end
    end.

  Definition mem_str (x : string) (l : list string) : bool := existsb (String.eqb x) l.

  (* read_raw(parser, check = true) *)
  Definition read_class (fuel : nat) (s : schema) (ls : list line) : result (list event * list line) :=
    match read_loop fuel s None [] [] ls with
    | Ok (evs, flags, rest) =>
        if forallb (fun r => mem_str r flags) (srequired s) then Ok (evs, rest) else Err "member not defined"
    | Err e => Err e
    | OutOfFuel => OutOfFuel
    end.

  Definition read_top (s : schema) (ls : list line) : result (list event * list line) :=
    read_class (S (length ls)) s ls.

  (* ---------------------------------------------------------------- writing *)
  Variable crec : Type.                                   (* component records *)
  Variable cdump : string -> crec -> list line.

  Inductive wval :=
  | VLines (ls : list (list token))                       (* the argument tokens of each line written *)
  | VBlock (present : bool) (rows : list (list token))
  | VSubs (comps : list (list token * crec)).

  Definition dump_item (it : witem) (v : wval) : list line :=
    match it, v with
    | WLines opt _ _, VLines ls => map (LOpt opt) ls
    | WBlock opt _ _ _, VBlock true rows => LOpt opt [] :: map LData rows
    | WRows _ _, VBlock _ rows => map LData rows
    | WSubs opt _ child _, VSubs comps => flat_map (fun kc => LOpt opt (fst kc) :: cdump child (snd kc)) comps
    | _, _ => []
    end.

  Fixpoint dump_items (its : list witem) (vs : list wval) : list line :=
    match its, vs with
    | it :: its', v :: vs' => dump_item it v ++ dump_items its' vs'
    | _, _ => []
    end.

  Definition dump (s : schema) (vs : list wval) : list line := dump_items (swriter s) vs.
End Level.

Arguments FTok {cres}. Arguments FRow {cres}. Arguments FSub {cres}.
Arguments VLines {crec}. Arguments VBlock {crec}. Arguments VSubs {crec}.
