(* C10 -- the decidable agreement predicate between a class's writer and reader ([schema_ok]),
   the per-item classification ([item_status]), the domain of records ([wf_items]) and what a
   read of a dump must return ([kept_items]).  Everything here is executable; proofs are in
   RawProofs.v. *)
From Coq Require Import String List Ascii Bool Arith Lia.
Require Import IPV.C10.Raw.
Import ListNotations.
Open Scope string_scope.
Open Scope list_scope.

Inductive status := Faithful | Dropped | RowsLost | Broken.
Definition status_eqb (a b : status) : bool :=
  match a, b with Faithful, Faithful | Dropped, Dropped | RowsLost, RowsLost | Broken, Broken => true | _, _ => false end.

Definition label_compat (w r : string) : bool := String.eqb w r || String.prefix "<literal" w.

Fixpoint args_compat (w r : list (string * kind)) : bool :=
  match w, r with
  | [], [] => true
  | (wm, wk) :: w', (rm, rk) :: r' => label_compat wm rm && accepts rk wk && args_compat w' r'
  | _, _ => false
  end.

Fixpoint kinds_compat (w r : list kind) : bool :=
  match w, r with
  | [], [] => true
  | wk :: w', rk :: r' => accepts rk wk && kinds_compat w' r'
  | _, _ => false
  end.

Definition spec_compat (w r : rowspec) : bool :=
  match w, r with
  | RowFixed a, RowFixed b => kinds_compat a b && negb (Nat.eqb (length a) 0)
  | RowMany a, RowMany b => accepts b a
  | _, _ => false
  end.

Definition item_case (s : schema) (opt : string) : option (nat * option rcase) :=
  match find_option opt (svopts s) with
  | Some i => Some (i, lookup_case i (scases s))
  | None => None
  end.

Definition post_is (p : option (option nat)) (i : nat) : bool :=
  match p with Some (Some j) => Nat.eqb i j | _ => false end.

Definition post_saves (p : option (option nat)) : bool :=
  match p with Some (Some _) => true | _ => false end.

(* opt_save never receives a case index: it stays OPT_DEFAULT for the whole read (cxxMix) *)
Definition never_saves (s : schema) : bool :=
  negb (post_saves (spre s))
  && forallb (fun ic => negb (post_saves (cpost (snd ic)))) (scases s)
  && match sdefault s with Some c => negb (post_saves (cpost c)) | None => true end.

(* option names that can start the line following a nested component block; the flag says whether a
   line is certain to follow (a mandatory item exists further down) *)
Fixpoint follow (its : list witem) : list string * bool :=
  match its with
  | [] => ([], false)
  | it :: tl =>
      let (n, c) := follow tl in
      match it with
      | WLines o _ One => ([o], true)
      | WBlock o _ _ false => ([o], true)
      | WRows _ _ => ([], false)
      | _ => (witem_opt it :: n, c)
      end
  end.

Definition mandatory (it : witem) : bool :=
  match it with WLines _ _ One => true | WBlock _ _ _ false => true | _ => false end.

Section Spec.
  Variable child_ok : string -> bool.                (* component class whose own round trip is established *)
  Variable cstop_opt : string -> string -> bool.     (* component class c returns quietly at option n *)

  Definition item_status (s : schema) (fol : list string * bool) (it : witem) : status :=
    match it with
    | WLines opt args m =>
        match item_case s opt with
        | None => Broken
        | Some (i, None) => Dropped
        | Some (i, Some c) =>
            match cact c with
            | RArgs r => if args_compat args r then Faithful else Broken
            | RIgnore => Dropped
            | _ => Broken
            end
        end
    | WBlock opt mem spec g =>
        match item_case s opt with
        | Some (i, Some c) =>
            match cact c with
            | RRow mem' spec' =>
                if String.eqb mem mem' && spec_compat spec spec'
                then (if suses_save s && post_is (cpost c) i then Faithful else RowsLost)
                else Broken
            | _ => Broken
            end
        | _ => Broken
        end
    | WRows mem spec =>
        match sdefault s with
        | Some c =>
            match cact c with
            | RRow mem' spec' => if String.eqb mem mem' && spec_compat spec spec' && never_saves s then Faithful else Broken
            | _ => Broken
            end
        | None => Broken
        end
    | WSubs opt mem child keyk =>
        match item_case s opt with
        | Some (i, Some c) =>
            match cact c with
            | RSub mem' child' keyk' =>
                if String.eqb mem mem' && String.eqb child child' && kinds_compat keyk keyk'
                   && child_ok child && snd fol && forallb (cstop_opt child) (opt :: fst fol)
                then Faithful else Broken
            | _ => Broken
            end
        | _ => Broken
        end
    end.

  Fixpoint items_status (s : schema) (its : list witem) : list status :=
    match its with
    | [] => []
    | it :: tl => item_status s (follow tl) it :: items_status s tl
    end.

  (* flags set by the case an item's (header) line is dispatched to *)
  Definition item_sets (s : schema) (it : witem) : list string :=
    match it with
    | WRows _ _ => []
    | _ => match item_case s (witem_opt it) with Some (_, Some c) => csets c | _ => [] end
    end.

  Fixpoint req_sets (s : schema) (its : list witem) : list string :=
    match its with
    | [] => []
    | it :: tl =>
        (if mandatory it && negb (status_eqb (item_status s (follow tl) it) Broken) then item_sets s it else [])
          ++ req_sets s tl
    end.

  Fixpoint no_mandatory_broken (s : schema) (its : list witem) : bool :=
    match its with
    | [] => true
    | it :: tl => negb (mandatory it && status_eqb (item_status s (follow tl) it) Broken) && no_mandatory_broken s tl
    end.

  Definition flags_ok (s : schema) : bool :=
    forallb (fun r => mem_str r (req_sets s (swriter s))) (srequired s).

  (* THE agreement predicate: every record the writer can produce without using a Broken item is
     read back without error *)
  Definition schema_ok (s : schema) : bool := no_mandatory_broken s (swriter s) && flags_ok s.

  (* the strict version: nothing is lost either *)
  Definition schema_faithful (s : schema) : bool :=
    schema_ok s && forallb (fun st => status_eqb st Faithful) (items_status s (swriter s)).

  (* diagnostics: the items that are not Faithful, and unmet flags *)
  Definition status_name (st : status) : string :=
    match st with Faithful => "faithful" | Dropped => "dropped" | RowsLost => "rows-unreadable" | Broken => "broken" end.

  Fixpoint defects_items (s : schema) (its : list witem) : list (string * string) :=
    match its with
    | [] => []
    | it :: tl =>
        let st := item_status s (follow tl) it in
        (if status_eqb st Faithful then [] else [(String.append "-" (witem_opt it), status_name st)]) ++ defects_items s tl
    end.

  Definition defects (s : schema) : list (string * string) :=
    defects_items s (swriter s)
    ++ map (fun r => (String.append "required:" r, "never-set")) (filter (fun r => negb (mem_str r (req_sets s (swriter s)))) (srequired s)).

  (* ---------------------------------------------------------------- records *)
  Variable crec : Type.
  Variable cres : Type.
  Variable cwf : string -> crec -> Prop.
  Variable cintended : string -> crec -> cres.

  Definition typed_args (args : list (string * kind)) (l : list token) : Prop :=
    Forall2 (fun a t => tkind t = snd a) args l.
  Definition typed_keys (ks : list kind) (l : list token) : Prop :=
    Forall2 (fun k t => tkind t = k) ks l.

  Definition row_ok (s : schema) (spec : rowspec) (row : list token) : Prop :=
    match row with
    | [] => False
    | t :: _ => find_exact (ttext t) (svopts s) = None
    end
    /\ match spec with RowFixed ks => typed_keys ks row | RowMany k => Forall (fun t => tkind t = k) row end.

  Definition wf_item (s : schema) (st : status) (it : witem) (v : wval crec) : Prop :=
    match it, v with
    | WLines opt args m, VLines ls =>
        (m = One -> length ls = 1) /\ (m = Opt -> length ls <= 1)
        /\ Forall (typed_args args) ls /\ (st = Broken -> ls = [])
    | WBlock opt mem spec g, VBlock p rows =>
        (g = false -> p = true) /\ (p = false -> rows = []) /\ Forall (row_ok s spec) rows
        /\ (st = Broken -> p = false) /\ (st = RowsLost -> rows = [])
    | WRows mem spec, VBlock p rows =>
        Forall (row_ok s spec) rows /\ (st <> Faithful -> rows = [])
    | WSubs opt mem child keyk, VSubs comps =>
        Forall (fun kc => typed_keys keyk (fst kc) /\ cwf child (snd kc)) comps /\ (st = Broken -> comps = [])
    | _, _ => False
    end.

  Fixpoint wf_items (s : schema) (its : list witem) (vs : list (wval crec)) : Prop :=
    match its, vs with
    | [], [] => True
    | it :: tl, v :: vs' => wf_item s (item_status s (follow tl) it) it v /\ wf_items s tl vs'
    | _, _ => False
    end.

  Definition wf (s : schema) (vs : list (wval crec)) : Prop := wf_items s (swriter s) vs.

  (* what reading the dump must deliver: (member stored into, value) in reading order *)
  Definition mk_events (r : list (string * kind)) (l : list token) : list (event cres) :=
    map (fun p => (fst (fst p), FTok (snd p))) (combine r l).

  Definition reader_args (s : schema) (opt : string) : list (string * kind) :=
    match item_case s opt with
    | Some (_, Some c) => match cact c with RArgs r => r | _ => [] end
    | _ => []
    end.

  Definition kept_item (s : schema) (st : status) (it : witem) (v : wval crec) : list (event cres) :=
    match st with
    | Faithful =>
        match it, v with
        | WLines opt _ _, VLines ls => flat_map (mk_events (reader_args s opt)) ls
        | WBlock _ mem _ _, VBlock _ rows => map (fun r => (mem, FRow r)) rows
        | WRows mem _, VBlock _ rows => map (fun r => (mem, FRow r)) rows
        | WSubs _ mem child _, VSubs comps => map (fun kc => (mem, FSub (fst kc) (cintended child (snd kc)))) comps
        | _, _ => []
        end
    | _ => []
    end.

  Fixpoint kept_items (s : schema) (its : list witem) (vs : list (wval crec)) : list (event cres) :=
    match its, vs with
    | it :: tl, v :: vs' => kept_item s (item_status s (follow tl) it) it v ++ kept_items s tl vs'
    | _, _ => []
    end.

  Definition kept (s : schema) (vs : list (wval crec)) : list (event cres) := kept_items s (swriter s) vs.

  (* number of loop iterations the reader spends on an item *)
  Definition steps_item (it : witem) (v : wval crec) : nat :=
    match it, v with
    | WLines _ _ _, VLines ls => length ls
    | WBlock _ _ _ _, VBlock true rows => S (length rows)
    | WRows _ _, VBlock _ rows => length rows
    | WSubs _ _ _ _, VSubs comps => length comps
    | _, _ => 0
    end.

  Fixpoint steps_items (its : list witem) (vs : list (wval crec)) : nat :=
    match its, vs with
    | it :: tl, v :: vs' => steps_item it v + steps_items tl vs'
    | _, _ => 0
    end.
End Spec.
