(* C10 -- the writer of every name/value row of the RAW text: cxxNameDouble::dump_raw (NameDouble.cxx)
   with Utilities::pad_right (common/Utils.cxx), modelled on characters:

     s_oss << indent0;
     if (name.size() < 29 - indent0.size())  s_oss << pad_right(name, 29 - indent0.size()) << value << "\n";
     else                                    s_oss << pad_right(name, name.size() + indent0.size()) << " " << value << "\n";

   and the reader's view of the line: whitespace separated tokens ([tokens]).  Theorem [nd_row_tokens]:
   for EVERY name (of any length) and value without blanks, the written row tokenises back to exactly
   [name; value] -- there is always at least one blank between them.  (indent0 is `indent` copies of
   Utilities::INDENT = two blanks; 29 - indent0.size() is unsigned in the C++: the theorem assumes
   indent0.size() <= 29, nesting is at most 3.)
   Tie: correspondence -- harness/c10_nd.cpp prints what the real dump_raw writes for generated names of
   0..40 characters at every indentation; props/c10.py compares it with [nd_row] evaluated by Coq. *)
From Coq Require Import String List Ascii Bool Arith Lia.
Import ListNotations.
Open Scope list_scope.
Open Scope string_scope.

Fixpoint spaces (n : nat) : string := match n with O => "" | S k => String " " (spaces k) end.

(* Utilities::pad_right *)
Definition pad_right (s : string) (l : nat) : string := s ++ spaces (l - String.length s).

Definition nd_row (indent : nat) (name value : string) : string :=
  let ind := spaces (2 * indent) in
  let w := 29 - String.length ind in
  ind ++ (if Nat.ltb (String.length name) w
          then pad_right name w ++ value
          else pad_right name (String.length name + String.length ind) ++ " " ++ value).

(* whitespace separated tokens of a line (operator>> on std::string / CParser::copy_token) *)
Definition is_blank (c : ascii) : bool := Ascii.eqb c " "%char.

Fixpoint tokens_aux (cur : string) (s : string) : list string :=
  match s with
  | EmptyString => if String.eqb cur "" then [] else [cur]
  | String c r =>
      if is_blank c then (if String.eqb cur "" then tokens_aux "" r else cur :: tokens_aux "" r)
      else tokens_aux (cur ++ String c "") r
  end.
Definition tokens (s : string) : list string := tokens_aux "" s.

Fixpoint no_blank (s : string) : bool :=
  match s with EmptyString => true | String c r => negb (is_blank c) && no_blank r end.

Lemma app_assoc_s : forall a b c : string, (a ++ b) ++ c = a ++ (b ++ c).
Proof. induction a; intros; simpl; [reflexivity | rewrite IHa; reflexivity]. Qed.

Lemma app_nil_r_s : forall a : string, a ++ "" = a.
Proof. induction a; simpl; [reflexivity | rewrite IHa; reflexivity]. Qed.

Lemma length_spaces : forall n, String.length (spaces n) = n.
Proof. induction n; simpl; [reflexivity | rewrite IHn; reflexivity]. Qed.

Lemma tokens_aux_spaces : forall n r, tokens_aux "" (spaces n ++ r) = tokens_aux "" r.
Proof. induction n; intros; simpl; [reflexivity | apply IHn]. Qed.

Lemma tokens_aux_word : forall w cur r, no_blank w = true ->
    tokens_aux cur (w ++ r) = tokens_aux (cur ++ w) r.
Proof.
  induction w as [|c w IH]; intros cur r H; simpl.
  - rewrite app_nil_r_s. reflexivity.
  - simpl in H. apply andb_prop in H. destruct H as [Hc Hw].
    destruct (is_blank c); [discriminate|]. rewrite IH by assumption.
    rewrite app_assoc_s. reflexivity.
Qed.

Lemma eqb_empty_false : forall w, w <> "" -> String.eqb w "" = false.
Proof. intros w H. destruct w; [contradiction H; reflexivity | reflexivity]. Qed.

(* blanks, a word, at least one blank, a word: two tokens *)
Lemma tokens_two : forall a b name value,
    no_blank name = true -> no_blank value = true -> name <> "" -> value <> "" ->
    tokens (spaces a ++ name ++ spaces (S b) ++ value) = [name; value].
Proof.
  intros a b name value Hn Hv Hne Hve. unfold tokens.
  rewrite tokens_aux_spaces. rewrite tokens_aux_word by assumption. simpl.
  rewrite (eqb_empty_false name Hne). rewrite tokens_aux_spaces.
  rewrite <- (app_nil_r_s value) at 1. rewrite tokens_aux_word by assumption. simpl.
  rewrite (eqb_empty_false value Hve). reflexivity.
Qed.

Lemma spaces_add : forall a b, spaces a ++ spaces b = spaces (a + b).
Proof. induction a; intros; simpl; [reflexivity | rewrite IHa; reflexivity]. Qed.

Theorem nd_row_tokens : forall indent name value,
    (2 * indent <= 29)%nat ->
    no_blank name = true -> no_blank value = true -> name <> "" -> value <> "" ->
    tokens (nd_row indent name value) = [name; value].
Proof.
  intros indent name value Hi Hn Hv Hne Hve. unfold nd_row. rewrite length_spaces.
  destruct (Nat.ltb (String.length name) (29 - 2 * indent)) eqn:E.
  - apply Nat.ltb_lt in E. unfold pad_right.
    destruct (29 - 2 * indent - String.length name) as [|k] eqn:Ek; [lia|].
    rewrite app_assoc_s. apply tokens_two; assumption.
  - unfold pad_right.
    replace (String.length name + 2 * indent - String.length name) with (2 * indent) by lia.
    rewrite app_assoc_s.
    change (" " ++ value) with (spaces 1 ++ value).
    rewrite <- (app_assoc_s (spaces (2 * indent)) (spaces 1) value). rewrite spaces_add.
    replace (2 * indent + 1) with (S (2 * indent)) by lia.
    apply tokens_two; assumption.
Qed.

(* the collapsed writer `pad_right(name, 29 - indent) << value` (seeded change C10-b) fuses long names with
   the value: refuted *)
Definition nd_row_collapsed (indent : nat) (name value : string) : string :=
  let ind := spaces (2 * indent) in ind ++ pad_right name (29 - String.length ind) ++ value.

Example collapsed_writer_refuted :
  tokens (nd_row_collapsed 4 "Ca0.165Al2.33Si3.67O10(OH)2" "1") = ["Ca0.165Al2.33Si3.67O10(OH)21"]
  /\ tokens (nd_row 4 "Ca0.165Al2.33Si3.67O10(OH)2" "1") = ["Ca0.165Al2.33Si3.67O10(OH)2"; "1"].
Proof. vm_compute. split; reflexivity. Qed.
