(* C10 -- binary copies: cxx<Class>::Serialize / Deserialize (used by Serializer.cxx for the
   MPI / in-memory copies).  Serialize appends to two streams (ints, doubles); Deserialize consumes
   them with two cursors.  The generated data (Gen_C10_schemas.v: ser_<class>, des_<class>) is the
   ordered list of (stream tag, member) of the pushes and of the reads.

   Model: an op is a scalar int push/read, a scalar double push/read, or a CHUNK (a nested object's
   own Serialize/Deserialize, or one statement inside a counted loop); chunks are abstract codecs
   (section variables [enc]/[dec]) that are only assumed to be self-delimiting ([dec_enc]).
   [ops_match] is the decidable agreement of the two op lists; [serialize_roundtrip] says that it
   implies Deserialize (Serialize r) = r for every record. *)
From Coq Require Import String List Bool ZArith QArith Lia.
Import ListNotations.
Open Scope string_scope.
Open Scope list_scope.

Inductive sop := OI (m : string) | OD (m : string) | OX (tag m : string).

Definition anonymous (m : string) : bool := String.prefix "<" m.

Definition name_match (a b : string) : bool := String.eqb a b || anonymous a || anonymous b.

Definition op_match (a b : sop) : bool :=
  match a, b with
  | OI x, OI y => name_match x y
  | OD x, OD y => name_match x y
  | OX t x, OX u y => String.eqb t u
  | _, _ => false
  end.

Fixpoint ops_match (a b : list sop) : bool :=
  match a, b with
  | [], [] => true
  | x :: a', y :: b' => op_match x y && ops_match a' b'
  | _, _ => false
  end.

Definition to_op (p : string * string) : sop :=
  let (tag, m) := p in
  if String.eqb tag "I" then OI m else if String.eqb tag "D" then OD m else OX tag m.

Section Ser.
  Variable X : Type.
  Variable enc : string -> X -> list Z * list Q.
  Variable dec : string -> list Z -> list Q -> option (X * list Z * list Q).
  (* a chunk is self-delimiting: its reader consumes exactly what its writer produced; the codec is
     selected by the stream tag only, which is what [ops_match] compares *)
  Hypothesis dec_enc : forall t x iz dq,
      dec t (fst (enc t x) ++ iz) (snd (enc t x) ++ dq) = Some (x, iz, dq).

  Inductive sval := VI (z : Z) | VD (q : Q) | VX (x : X).

  Definition typed (o : sop) (v : sval) : Prop :=
    match o, v with OI _, VI _ | OD _, VD _ | OX _ _, VX _ => True | _, _ => False end.

  Fixpoint serialize (ops : list sop) (r : list sval) : list Z * list Q :=
    match ops, r with
    | o :: ops', v :: r' =>
        let (iz, dq) := serialize ops' r' in
        match o, v with
        | OI _, VI z => (z :: iz, dq)
        | OD _, VD q => (iz, q :: dq)
        | OX t _, VX x => (fst (enc t x) ++ iz, snd (enc t x) ++ dq)
        | _, _ => (iz, dq)
        end
    | _, _ => ([], [])
    end.

  Fixpoint deserialize (ops : list sop) (iz : list Z) (dq : list Q) : option (list sval) :=
    match ops with
    | [] => Some []
    | OI _ :: ops' => match iz with z :: iz' => option_map (cons (VI z)) (deserialize ops' iz' dq) | [] => None end
    | OD _ :: ops' => match dq with q :: dq' => option_map (cons (VD q)) (deserialize ops' iz dq') | [] => None end
    | OX t _ :: ops' =>
        match dec t iz dq with
        | Some (x, iz', dq') => option_map (cons (VX x)) (deserialize ops' iz' dq')
        | None => None
        end
    end.

  Theorem serialize_roundtrip : forall ser des r,
      ops_match ser des = true -> Forall2 typed ser r ->
      deserialize des (fst (serialize ser r)) (snd (serialize ser r)) = Some r.
  Proof.
    induction ser as [|o ser IH]; intros des r Hm Ht.
    - destruct des; [|discriminate]. inversion Ht. reflexivity.
    - destruct des as [|o' des]; [discriminate|]. simpl in Hm. apply andb_prop in Hm. destruct Hm as [Ho Hm].
      inversion Ht as [|o1 v ser1 r' Hv Hr]; subst.
      specialize (IH des r' Hm Hr).
      simpl. destruct (serialize ser r') as [iz dq] eqn:Es. simpl in IH.
      destruct o as [m|m|t m], v as [z|q|x]; simpl in Hv; try contradiction;
        destruct o' as [m'|m'|t' m']; simpl in Ho; try discriminate; simpl.
      + rewrite IH. reflexivity.
      + rewrite IH. reflexivity.
      + apply String.eqb_eq in Ho. subst t'. rewrite dec_enc. rewrite IH. reflexivity.
  Qed.
End Ser.

Definition serial_ok (p : string * list (string * string) * list (string * string)) : bool :=
  ops_match (map to_op (snd (fst p))) (map to_op (snd p)).
