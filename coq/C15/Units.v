(* C15: specification side of the unit conversion and a clean (hand written) model of
   Phreeqc::convert_units for the per-kilogram-water family.

   - [unit], [unit_string]: the nine per-kgw unit spellings in the canonical form produced by
     Phreeqc::check_units (read.cpp): Mol/kgw mMol/kgw uMol/kgw g/kgw mg/kgw ug/kgw eq/kgw meq/kgw ueq/kgw
   - [describe u m g]: the number a user writes to describe m mol/kgw of a constituent of
     formula weight g in unit u (this is the *specification* of the unit, independent of the code)
   - [gfw_src]: where the formula weight comes from (-gfw number, `as` formula, default = master species)
   - [comp_record]: the cxxISolutionComp that read_solution builds for such a line
   - [convert_model]: clean model of the whole conversion (sorted map of description -> moles)  *)
From Coq Require Import QArith List String Ascii ZArith Bool Permutation.
Require Import IPV.C15.Ir.
Import ListNotations.
Open Scope string_scope.
Open Scope Q_scope.

Inductive prefix := PNone | PMilli | PMicro.
Inductive kind := KMol | KGram | KEq.
Record unit := mkUnit { upre : prefix; ukind : kind }.

Definition prefix_string (p : prefix) : string :=
  match p with PNone => "" | PMilli => "m" | PMicro => "u" end.
Definition kind_string (k : kind) : string :=
  match k with KMol => "Mol" | KGram => "g" | KEq => "eq" end.
Definition unit_string (u : unit) : string :=
  prefix_string (upre u) ++ kind_string (ukind u) ++ "/kgw".

Definition all_units : list unit :=
  [mkUnit PNone KMol; mkUnit PMilli KMol; mkUnit PMicro KMol;
   mkUnit PNone KGram; mkUnit PMilli KGram; mkUnit PMicro KGram;
   mkUnit PNone KEq; mkUnit PMilli KEq; mkUnit PMicro KEq].

(* how many of the unit make one base unit: 1 mol = 1000 mmol = 1e6 umol *)
Definition per_base (p : prefix) : Q :=
  match p with PNone => 1 | PMilli => 1000 | PMicro => 1000000 end.

(* the number written in the input to describe m (mol or eq)/kgw with formula weight g *)
Definition describe (u : unit) (m g : Q) : Q :=
  match ukind u with
  | KGram => m * g * per_base (upre u)
  | _ => m * per_base (upre u)
  end.

Inductive gfw_src :=
| GExplicit (g : Q)            (* -gfw g *)
| GAs (formula : string)       (* as formula *)
| GDefault.                    (* formula weight of the master species *)

Definition src_gfw_field (s : gfw_src) : Q := match s with GExplicit g => g | _ => 0 end.
Definition src_as_field (s : gfw_src) : string := match s with GAs f => f | _ => "" end.

(* the formula weight the specification prescribes *)
Definition spec_gfw (o : oracles) (d : string) (s : gfw_src) : option Q :=
  match s with
  | GExplicit g => Some g
  | GAs f =>
      match gfw_of o f with
      | Some g => Some (if str_eqb d "Alkalinity" && str_eqb f "CaCO3" then g / 2 else g)
      | None => None
      end
  | GDefault => match master_of o (first_token d) with Some (g, _) => Some g | None => None end
  end.

Definition comp_record (d : string) (u : string) (s : gfw_src) (c : Q) : record :=
  [(pair_first, VS d);
   (("cxxISolutionComp", "description"), VS d);
   (("cxxISolutionComp", "units"), VS u);
   (("cxxISolutionComp", "as"), VS (src_as_field s));
   (("cxxISolutionComp", "input_conc"), VQ c);
   (("cxxISolutionComp", "gfw"), VQ (src_gfw_field s))].

(* ------------------------------------------------------------------ clean model *)

(* one constituent line of a SOLUTION block *)
Record line := mkLine { l_desc : string; l_unit : unit; l_src : gfw_src; l_conc : Q }.

Definition line_record (l : line) : record :=
  comp_record (l_desc l) (unit_string (l_unit l)) (l_src l) (l_conc l).

(* moles per kg water described by a line (None: formula weight not available) *)
Definition line_molality (o : oracles) (l : line) : option Q :=
  match spec_gfw o (l_desc l) (l_src l) with
  | Some g =>
      Some (match ukind (l_unit l) with
            | KGram => l_conc l / per_base (upre (l_unit l)) / g
            | _ => l_conc l / per_base (upre (l_unit l))
            end)
  | None => None
  end.

(* key-sorted association list with overwrite: std::map<std::string,double> / cxxNameDouble *)
Fixpoint nd_put (k : string) (v : Q) (l : list (string * Q)) : list (string * Q) :=
  match l with
  | [] => [(k, v)]
  | (k', v') :: r =>
      match String.compare k k' with
      | Datatypes.Eq => (k, v) :: r
      | Datatypes.Lt => (k, v) :: (k', v') :: r
      | Datatypes.Gt => (k', v') :: nd_put k v r
      end
  end.

Fixpoint nd_get (k : string) (l : list (string * Q)) : option Q :=
  match l with
  | [] => None
  | (k', v) :: r => if String.eqb k k' then Some v else nd_get k r
  end.

Definition nd_of_list (l : list (string * Q)) : list (string * Q) :=
  fold_left (fun acc kv => nd_put (fst kv) (snd kv) acc) l [].

Definition nd_scale (f : Q) (l : list (string * Q)) : list (string * Q) :=
  map (fun kv => (fst kv, snd kv * f)) l.

(* the comps of a solution: a std::map keyed by description, filled line by line *)
Definition lines_molalities (o : oracles) (ls : list line) : option (list (string * Q)) :=
  fold_right (fun l acc =>
                match acc, line_molality o l with
                | Some a, Some m => Some ((l_desc l, m) :: a)
                | _, _ => None
                end) (Some []) ls.

(* clean model of convert_units on a per-kgw solution with `water` kg of water *)
Definition convert_model (o : oracles) (water : Q) (ls : list line) : option (list (string * Q)) :=
  match lines_molalities o ls with
  | Some ms => Some (nd_scale water (nd_of_list ms))
  | None => None
  end.

(* equality of numeric maps up to Qeq on the values *)
Definition nd_equiv (a b : list (string * Q)) : Prop :=
  Forall2 (fun x y => fst x = fst y /\ snd x == snd y) a b.
