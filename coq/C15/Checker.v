(* C15: the verified checker applied to what the implementation reports.
   [close x y]: x and y agree to relative 1e-8 (the tolerance the property states);
   [pair_ok k a b]: executable test that the transformed run's value a agrees with k times the
   base run's value b (k = 1 for intensive quantities, k = water factor for extensive ones). *)
From Coq Require Import QArith Qabs Lqa.
Open Scope Q_scope.

Definition tol : Q := 1 # 100000000.

Definition qmax (x y : Q) : Q := if Qle_bool x y then y else x.

Definition close (x y : Q) : Prop :=
  Qabs (x - y) <= tol * Qabs x \/ Qabs (x - y) <= tol * Qabs y.

Definition pair_ok (k a b : Q) : bool :=
  Qle_bool (Qabs (a - k * b)) (tol * qmax (Qabs a) (Qabs (k * b))).

Lemma pair_ok_sound k a b : pair_ok k a b = true -> close a (k * b).
Proof.
  unfold pair_ok, close, qmax. intros H. apply Qle_bool_iff in H.
  destruct (Qle_bool (Qabs a) (Qabs (k * b))); [right|left]; exact H.
Qed.

Lemma pair_ok_complete k a b : close a (k * b) -> pair_ok k a b = true.
Proof.
  unfold pair_ok, close, qmax. intros H. apply Qle_bool_iff.
  destruct (Qle_bool (Qabs a) (Qabs (k * b))) eqn:E.
  - apply Qle_bool_iff in E. destruct H as [H|H]; [|exact H].
    eapply Qle_trans; [exact H|]. apply Qmult_le_l; [reflexivity|assumption].
  - assert (E' : Qabs (k * b) <= Qabs a).
    { destruct (Qlt_le_dec (Qabs a) (Qabs (k * b))) as [L|L]; [|exact L].
      apply Qlt_le_weak in L. apply Qle_bool_iff in L. congruence. }
    destruct H as [H|H]; [exact H|].
    eapply Qle_trans; [exact H|]. apply Qmult_le_l; [reflexivity|assumption].
Qed.

(* identical values always pass, whatever their size (non-vacuity of the test) *)
Example pair_ok_refl_example : pair_ok 1 (12345 # 1000) (12345 # 1000) = true /\ pair_ok 1 (1 # 1) (1000001 # 1000000) = false.
Proof. split; vm_compute; reflexivity. Qed.
