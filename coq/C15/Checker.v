(* C15: the verified checker applied to what the implementation reports.
   [close x y]: x and y agree to relative 1e-8 (the tolerance the property states);
   [pair_ok k a b]: executable test that the transformed run's value a agrees with k times the
   base run's value b (k = 1 for intensive quantities, k = water factor for extensive ones). *)
From Coq Require Import QArith Qabs Lqa Bool ZArith.
Open Scope Q_scope.

(* exact value of a binary64 number m * 2^e as shipped by the harness *)
Definition D (m e : Z) : Q :=
  match e with
  | Z0 => m # 1
  | Zpos p => (m * 2 ^ (Zpos p)) # 1
  | Zneg p => m # (2 ^ p)
  end.

Definition tol : Q := 1 # 100000000.

Definition qmax (x y : Q) : Q := if Qle_bool x y then y else x.

Definition close (x y : Q) : Prop :=
  Qabs (x - y) <= tol * Qabs x \/ Qabs (x - y) <= tol * Qabs y.

Definition pair_ok (k a b : Q) : bool :=
  Qle_bool (Qabs (a - k * b)) (tol * qmax (Qabs a) (Qabs (k * b))).

Lemma pair_ok_sound k a b : pair_ok k a b = true -> close a (k * b).
Proof.
  unfold pair_ok, close, qmax. intros H. apply Qle_bool_iff in H.
  destruct (Qle_bool (Qabs a) (Qabs (k * b))); [right|left]; exact H.
Qed.

Lemma pair_ok_complete k a b : close a (k * b) -> pair_ok k a b = true.
Proof.
  unfold pair_ok, close, qmax. intros H. apply Qle_bool_iff.
  destruct (Qle_bool (Qabs a) (Qabs (k * b))) eqn:E.
  - apply Qle_bool_iff in E. destruct H as [H|H]; [|exact H].
    eapply Qle_trans; [exact H|]. apply Qmult_le_l; [reflexivity|assumption].
  - assert (E' : Qabs (k * b) <= Qabs a).
    { destruct (Qlt_le_dec (Qabs a) (Qabs (k * b))) as [L|L]; [|exact L].
      apply Qlt_le_weak in L. apply Qle_bool_iff in L. congruence. }
    destruct H as [H|H]; [exact H|].
    eapply Qle_trans; [exact H|]. apply Qmult_le_l; [reflexivity|assumption].
Qed.

(* Saturation indices and log activities are base-10 logarithms of the intensive quantity (the
   saturation ratio IAP/K, the activity); they vanish at equilibrium, where "relative to the value
   of the logarithm" is meaningless.  For these columns agreement of the underlying ratio to relative
   1e-8 is accepted as well, tested as |a - b| <= 4.3429e-9 (a rational lower bound of 1e-8 / ln 10;
   first order in the difference; this bound itself is not derived in Coq). *)
Definition log_tol : Q := 43429 # 10000000000000.

Definition log_ok (a b : Q) : bool := Qle_bool (Qabs (a - b)) log_tol.

Definition cell_ok (is_log : bool) (k a b : Q) : bool :=
  pair_ok k a b || (is_log && log_ok a b).

Lemma cell_ok_sound l k a b : cell_ok l k a b = true -> close a (k * b) \/ (l = true /\ Qabs (a - b) <= log_tol).
Proof.
  unfold cell_ok. intros H. apply Bool.orb_true_iff in H as [H|H].
  - left. apply pair_ok_sound; exact H.
  - right. apply Bool.andb_true_iff in H as [H1 H2]. split; [exact H1|].
    apply Qle_bool_iff in H2. exact H2.
Qed.

Lemma pair_ok_refl a : pair_ok 1 a a = true.
Proof.
  apply pair_ok_complete. left.
  assert (E : a - 1 * a == 0) by ring. rewrite E. simpl.
  apply Qmult_le_0_compat; [discriminate|apply Qabs_nonneg].
Qed.

(* identical values always pass, whatever their size (non-vacuity of the test) *)
Example pair_ok_refl_example : pair_ok 1 (12345 # 1000) (12345 # 1000) = true /\ pair_ok 1 (1 # 1) (1000001 # 1000000) = false.
Proof. split; vm_compute; reflexivity. Qed.
