(* C15: reading one SOLUTION block (read_solution in read.cpp, cxxISolutionComp::read, and the fix-up loop
   at the end of read_solution / spread_row_to_solution).  A block is a sequence of items in the order of
   the input text: a `units` declaration or a constituent line, which may or may not carry its own units.
   A constituent line stores its own units only; the units of the block are supplied to the lines that have
   none AFTER the whole block has been read.  Theorem: the resolved units (and amounts) of every constituent
   do not depend on the order of the items -- in particular not on whether `units` precedes or follows the
   lines that rely on it. *)
From Coq Require Import QArith List String Permutation Bool Lia.
Require Import IPV.C15.Store IPV.C15.ExecLemmas.
Import ListNotations.
Open Scope string_scope.

Inductive item :=
| IUnits (u : string)
| ILine (d : string) (own : option string) (c : Q).

Definition smap := list (string * (option string * Q)).
Definition sput := put string (option string * Q) String.compare.
Definition sget := get string (option string * Q) String.eqb.

Record blk := mkBlk { b_units : string; b_lines : smap }.

Definition default_units := "mMol/kgw".     (* cxxISolution constructor default *)

Definition read_item (b : blk) (it : item) : blk :=
  match it with
  | IUnits u => mkBlk u (b_lines b)
  | ILine d own c => mkBlk (b_units b) (sput d (own, c) (b_lines b))
  end.

Definition read_block (items : list item) : blk := fold_left read_item items (mkBlk default_units []).

(* the fix-up after the block: a line without own units takes the units of the block *)
Definition resolved (b : blk) (d : string) : option (string * Q) :=
  match sget d (b_lines b) with
  | Some (Some u, c) => Some (u, c)
  | Some (None, c) => Some (b_units b, c)
  | None => None
  end.

Definition units_of (items : list item) : list string :=
  flat_map (fun it => match it with IUnits u => [u] | _ => [] end) items.
Definition lines_of (items : list item) : smap :=
  flat_map (fun it => match it with ILine d o c => [(d, (o, c))] | _ => [] end) items.

Lemma read_block_from b items :
  fold_left read_item items b =
  mkBlk (last (units_of items) (b_units b))
        (fold_left (fun acc kv => sput (fst kv) (snd kv) acc) (lines_of items) (b_lines b)).
Proof.
  revert b. induction items as [|it items IH]; intros b; simpl.
  - destruct b; reflexivity.
  - rewrite IH. destruct it as [u|d o c]; simpl.
    + f_equal. destruct (units_of items) as [|u' r] eqn:E; simpl; [reflexivity|].
      (* last of a non-empty list does not depend on the default *)
      clear. revert u'. induction r as [|x r IHr]; intros u'; simpl; [reflexivity|]. apply IHr.
    + reflexivity.
Qed.

Lemma perm_short {A} (l l' : list A) : Permutation l l' -> (List.length l <= 1)%nat -> l = l'.
Proof.
  intros HP Hl. destruct l as [|a [|b r]]; simpl in Hl; try lia.
  - apply Permutation_nil in HP; subst; reflexivity.
  - apply Permutation_length_1_inv in HP; subst; reflexivity.
Qed.

Theorem block_read_order_independent : forall items items',
  Permutation items items' ->
  (List.length (units_of items) <= 1)%nat ->
  NoDup (map fst (lines_of items)) ->
  forall d, resolved (read_block items) d = resolved (read_block items') d.
Proof.
  intros items items' HP Hu Hnd d. unfold read_block. rewrite !read_block_from. simpl.
  assert (PU : Permutation (units_of items) (units_of items')) by (apply Permutation_flat_map; exact HP).
  assert (PL : Permutation (lines_of items) (lines_of items')) by (apply Permutation_flat_map; exact HP).
  rewrite <- (perm_short _ _ PU Hu).
  unfold resolved; simpl.
  pose proof (of_list_perm string (option string * Q) String.compare String.eqb
                String.compare_eq_iff string_compare_refl String.eqb_eq _ _ PL Hnd d) as G.
  unfold of_list in G. unfold sget, sput. rewrite G. reflexivity.
Qed.

(* `units mg/kgw` after the line that relies on it, versus before it *)
Example block_example :
  resolved (read_block [ILine "Ca" None (4008 # 100); IUnits "mg/kgw"]) "Ca" = Some ("mg/kgw", 4008 # 100) /\
  resolved (read_block [IUnits "mg/kgw"; ILine "Ca" None (4008 # 100)]) "Ca" = Some ("mg/kgw", 4008 # 100).
Proof. split; reflexivity. Qed.
