(* C15: the mini language into which translator/c15_cxx2coq.py transliterates
   Phreeqc::convert_units (prep.cpp), Phreeqc::add_solution and Phreeqc::add_mix (step.cpp),
   and its executable semantics over Q.

   The translator only renders syntax; everything about meaning is here.
   - numbers are exact rationals (floating-point rounding is not modelled);
   - a division by zero, an unknown call, an opaque node, an uninitialised variable give the
     poison value VX; a condition on VX (or an opaque statement) makes execution stuck (None);
   - objects are identified by their class: field (T,f) is "the f of the T object in scope";
   - containers (std::map) are lists of records in key order; iterating binds the record's
     fields, runs the body and reads the fields back (so `it->second = ...` and setters on the
     element persist), exactly what iterating a std::map by reference does. *)
From Coq Require Import QArith List String Ascii ZArith Bool.
Import ListNotations.
Open Scope string_scope.
Open Scope Q_scope.

Inductive binop := Add | Sub | Mul | Div | Lt | Le | Gt | Ge | Eq | Ne | And | Or.

Inductive expr : Type :=
| ENum (q : Q)
| EStr (s : string)
| EChr (c : Z)
| ENull
| ELoc (x : string)
| EThis (x : string)
| EFld (t f : string)
| EBin (op : binop) (a b : expr)
| ENot (a : expr)
| ENeg (a : expr)
| EStrStr (a b : expr)
| EStrCmp (a b : expr)
| EIdx (a i : expr)
| EGet (a k : expr)
| ESize (a : expr)
| ECall (f : string) (args : list expr)
| EAddr (a : expr)
| EOpaque (what : string).

Inductive stmt : Type :=
| SLoc (x : string) (e : expr)
| SThis (x : string) (e : expr)
| SFld (t f : string) (e : expr)
| SPut (t f : string) (k v : expr)
| SIf (c : expr) (a b : list stmt)
| SFor (t f : string) (body : list stmt)
| SWhile (c : expr) (body : list stmt)     (* general while loop: outside the executable subset, kept for analyses *)
| SCall (f : string) (args : list expr)
| SContinue
| SReturn (e : expr)
| SOpaque (what : string).

(* ------------------------------------------------------------------ values and state *)

Inductive val := VQ (q : Q) | VS (s : string) | VP (nonnull : bool) | VX.

Definition fkey := (string * string)%type.
Definition fkey_eqb (a b : fkey) : bool := String.eqb (fst a) (fst b) && String.eqb (snd a) (snd b).

Definition record := list (fkey * val).

Record state := mkState {
  loc  : list (string * val);           (* locals and parameters *)
  this : list (string * val);           (* data members of Phreeqc *)
  fld  : record;                        (* fields of the objects in scope, by class *)
  conts : list (fkey * list record)     (* containers, e.g. ("cxxSolution","totals") *)
}.

Fixpoint alookup (k : string) (l : list (string * val)) : val :=
  match l with
  | [] => VX
  | (k', v) :: r => if String.eqb k k' then v else alookup k r
  end.

Fixpoint flookup (k : fkey) (l : record) : option val :=
  match l with
  | [] => None
  | (k', v) :: r => if fkey_eqb k k' then Some v else flookup k r
  end.

Fixpoint clookup (k : fkey) (l : list (fkey * list record)) : option (list record) :=
  match l with
  | [] => None
  | (k', v) :: r => if fkey_eqb k k' then Some v else clookup k r
  end.

Fixpoint cset (k : fkey) (v : list record) (l : list (fkey * list record)) : list (fkey * list record) :=
  match l with
  | [] => [(k, v)]
  | (k', v') :: r => if fkey_eqb k k' then (k, v) :: r else (k', v') :: cset k v r
  end.

Definition set_loc (x : string) (v : val) (st : state) : state :=
  mkState ((x, v) :: loc st) (this st) (fld st) (conts st).
Definition set_this (x : string) (v : val) (st : state) : state :=
  mkState (loc st) ((x, v) :: this st) (fld st) (conts st).
Definition set_fld (k : fkey) (v : val) (st : state) : state :=
  mkState (loc st) (this st) ((k, v) :: fld st) (conts st).
Definition set_cont (k : fkey) (v : list record) (st : state) : state :=
  mkState (loc st) (this st) (fld st) (cset k v (conts st)).

(* ------------------------------------------------------------------ expressions *)

Definition truth (v : val) : option bool :=
  match v with
  | VQ q => Some (negb (Qeq_bool q 0))
  | VP b => Some b
  | _ => None
  end.

Definition ofb (b : bool) : val := VQ (if b then 1 else 0).

Definition arith (op : binop) (a b : Q) : val :=
  match op with
  | Add => VQ (a + b)
  | Sub => VQ (a - b)
  | Mul => VQ (a * b)
  | Div => if Qeq_bool b 0 then VX else VQ (a / b)
  | Lt => ofb (negb (Qle_bool b a))
  | Le => ofb (Qle_bool a b)
  | Gt => ofb (negb (Qle_bool a b))
  | Ge => ofb (Qle_bool b a)
  | Eq => ofb (Qeq_bool a b)
  | Ne => ofb (negb (Qeq_bool a b))
  | And => ofb (negb (Qeq_bool a 0) && negb (Qeq_bool b 0))
  | Or => ofb (negb (Qeq_bool a 0) || negb (Qeq_bool b 0))
  end.

(* string comparison of program values (kept apart from the String.eqb used for variable lookup so
   that proofs can treat comparisons of symbolic strings abstractly) *)
Definition str_eqb (a b : string) : bool := String.eqb a b.

Definition logic (op : binop) (a b : val) : val :=
  match truth a, truth b with
  | Some x, Some y => match op with And => ofb (x && y) | Or => ofb (x || y) | _ => VX end
  (* C short circuit: a false left operand of && / a true left operand of || decides *)
  | Some false, None => match op with And => ofb false | _ => VX end
  | Some true, None => match op with Or => ofb true | _ => VX end
  | _, _ => VX
  end.

Definition binval (op : binop) (a b : val) : val :=
  match op with
  | And | Or => logic op a b
  | _ =>
    match a, b with
    | VQ x, VQ y => arith op x y
    | VP x, VP y =>
        (* only comparisons against the null pointer are meaningful *)
        match op with
        | Eq => if x && y then VX else ofb (Bool.eqb x y)
        | Ne => if x && y then VX else ofb (negb (Bool.eqb x y))
        | _ => VX
        end
    | VS x, VS y =>
        match op with
        | Eq => ofb (str_eqb x y)
        | Ne => ofb (negb (str_eqb x y))
        | _ => VX
        end
    | _, _ => VX
    end
  end.

Definition char_at (s : string) (i : Q) : val :=
  match Qnum i, Qden i with
  | Z0, 1%positive => match s with String c _ => VQ (Z.of_N (N_of_ascii c) # 1) | EmptyString => VQ 0 end
  | _, _ => VX
  end.

Definition strstr_val (a b : string) : val :=
  match String.index 0 b a with Some _ => VP true | None => VP false end.

Fixpoint eval (st : state) (e : expr) : val :=
  match e with
  | ENum q => VQ q
  | EStr s => VS s
  | EChr c => VQ (c # 1)
  | ENull => VP false
  | ELoc x => alookup x (loc st)
  | EThis x => alookup x (this st)
  | EFld t f => match flookup (t, f) (fld st) with Some v => v | None => VX end
  | EBin op a b => binval op (eval st a) (eval st b)
  | ENot a => match truth (eval st a) with Some b => ofb (negb b) | None => VX end
  | ENeg a => match eval st a with VQ q => VQ (- q) | _ => VX end
  | EStrStr a b => match eval st a, eval st b with VS x, VS y => strstr_val x y | _, _ => VX end
  | EStrCmp a b => match eval st a, eval st b with VS x, VS y => ofb (negb (str_eqb x y)) | _, _ => VX end
  | EIdx a i => match eval st a, eval st i with VS x, VQ n => char_at x n | _, _ => VX end
  | EGet _ _ => VX
  | ESize a =>
      match a with
      | EFld t f =>
          match flookup (t, f) (fld st) with
          | Some (VS s) => VQ (Z.of_nat (String.length s) # 1)
          | Some _ => VX
          | None => match clookup (t, f) (conts st) with Some l => VQ (Z.of_nat (List.length l) # 1) | None => VX end
          end
      | _ => match eval st a with VS s => VQ (Z.of_nat (String.length s) # 1) | _ => VX end
      end
  | ECall _ _ => VX
  | EAddr _ => VX
  | EOpaque _ => VX
  end.

(* ------------------------------------------------------------------ the environment the code runs in *)

(* What the rest of the engine provides to the three functions (all oracles; the theorems
   quantify over them):
   gfw_of f      : compute_gfw(f, &out) succeeds with this formula weight, or fails
   master_of n   : master_bsearch(n): (gfw, minor_isotope) of the master species, or NULL
   primary_of n  : master_bsearch_primary(n): name of the primary master species, or NULL
   solution_of k : Rxn_find(Rxn_solution_map, k): the fields of that cxxSolution and its totals *)
Record oracles := mkOracles {
  gfw_of : string -> option Q;
  master_of : string -> option (Q * Q);
  primary_of : string -> option string;
  solution_of : Q -> option (record * list record)
}.

Definition first_token (s : string) : string :=
  match String.index 0 " " s with Some n => String.substring 0 n s | None => s end.

Definition pair_first : fkey := ("pair", "first").
Definition pair_second : fkey := ("pair", "second").
Definition master_totals : fkey := ("Phreeqc", "master_totals").
Definition cur_master := "$cur_master".

(* key-ordered insertion into a std::map<std::string, double> modelled as a list of records *)
Definition rec_key (r : record) : option string :=
  match flookup pair_first r with Some (VS s) => Some s | _ => None end.

Fixpoint map_put (k : string) (v : val) (l : list record) : list record :=
  match l with
  | [] => [[(pair_first, VS k); (pair_second, v)]]
  | r :: rest =>
      match rec_key r with
      | Some k' =>
          match String.compare k k' with
          | Datatypes.Eq => [(pair_first, VS k); (pair_second, v)] :: rest
          | Datatypes.Lt => [(pair_first, VS k); (pair_second, v)] :: r :: rest
          | Datatypes.Gt => r :: map_put k v rest
          end
      | None => r :: map_put k v rest
      end
  end.

Fixpoint map_get (k : string) (l : list record) : option val :=
  match l with
  | [] => None
  | r :: rest =>
      match rec_key r with
      | Some k' => if String.eqb k k' then flookup pair_second r else map_get k rest
      | None => map_get k rest
      end
  end.

Definition assign_lv (lv : expr) (v : val) (st : state) : option state :=
  match lv with
  | ELoc x => Some (set_loc x v st)
  | EThis x => Some (set_this x v st)
  | EFld t f => Some (set_fld (t, f) v st)
  | _ => None
  end.

(* value and effect of a call that occurs as a whole right-hand side / statement *)
Definition call_sem (o : oracles) (f : string) (args : list expr) (st : state) : option (val * state) :=
  if String.eqb f "compute_gfw" then
    match args with
    | [s; EAddr lv] =>
        match eval st s with
        | VS str =>
            match gfw_of o str with
            | Some g => match assign_lv lv (VQ g) st with Some st' => Some (VQ 1, st') | None => None end
            | None => Some (VQ 0, st)
            end
        | _ => match assign_lv lv VX st with Some st' => Some (VX, st') | None => None end
        end
    | _ => None
    end
  else if String.eqb f "master_bsearch" then
    match args with
    | [s] =>
        match eval st s with
        | VS str =>
            match master_of o str with
            | Some (g, mi) => Some (VP true, set_fld ("master", "gfw") (VQ g) (set_fld ("master", "minor_isotope") (VQ mi) st))
            | None => Some (VP false, st)
            end
        | _ => Some (VX, st)
        end
    | _ => None
    end
  else if String.eqb f "master_bsearch_primary" then
    match args with
    | [s] =>
        match eval st s with
        | VS str =>
            match primary_of o str with
            | Some p =>
                let cur := match clookup master_totals (conts st) with Some l => l | None => [] end in
                let t := match map_get p cur with Some v => v | None => VQ 0 end in
                Some (VP true, set_fld ("master", "total") t (set_this cur_master (VS p) st))
            | None => Some (VP false, st)
            end
        | _ => Some (VX, st)
        end
    | _ => None
    end
  else if String.eqb f "copy_token" then
    match args with
    | [tok; EAddr p] =>
        match eval st p with
        | VS str => match assign_lv tok (VS (first_token str)) st with Some st' => Some (VQ 1, st') | None => None end
        | _ => None
        end
    | _ => None
    end
  else if String.eqb f "Rxn_find" then
    match args with
    | [_; k] =>
        match eval st k with
        | VQ n =>
            match solution_of o n with
            | Some (flds, tots) =>
                Some (VP true, set_cont ("cxxSolution", "totals") tots
                                 (mkState (loc st) (this st) (flds ++ fld st)%list (conts st)))
            | None => Some (VP false, st)
            end
        | _ => Some (VX, st)
        end
    | _ => None
    end
  else Some (VX, st).

(* ------------------------------------------------------------------ statements *)

Inductive flow := FNormal | FContinue | FReturn.

Definition result := option (flow * state).

Definition bind_record (r : record) (st : state) : state :=
  mkState (loc st) (this st) (r ++ fld st)%list (conts st).

Definition read_back (r : record) (st : state) : record :=
  map (fun kv => (fst kv, match flookup (fst kv) (fld st) with Some v => v | None => snd kv end)) r.

(* a user function called from the code (add_mix calls add_solution) *)
Definition callee := string -> option (list val -> state -> option state).

(* iterate a container in key order: bind the element, run the body, read the element back.
   (A body that stores into the iterated container itself is outside the subset: its stores are
   overwritten when the loop ends.) *)
Fixpoint for_loop (run : state -> result) (k : fkey) (todo done : list record) (st : state) {struct todo} : result :=
  match todo with
  | [] => Some (FNormal, set_cont k (rev done) st)
  | r :: rest =>
      match run (bind_record r st) with
      | Some (FReturn, st') => Some (FReturn, st')
      | Some (_, st') => for_loop run k rest (read_back r st' :: done) st'
      | None => None
      end
  end.

Section Exec.
Variable o : oracles.
Variable funs : callee.

Fixpoint exec (s : stmt) (st : state) {struct s} : result :=
  let exec_list :=
    (fix go (l : list stmt) (st : state) {struct l} : result :=
       match l with
       | [] => Some (FNormal, st)
       | s :: r =>
           match exec s st with
           | Some (FNormal, st') => go r st'
           | other => other
           end
       end) in
  match s with
  | SLoc x (ECall f args) =>
      match call_sem o f args st with Some (v, st') => Some (FNormal, set_loc x v st') | None => None end
  | SThis x (ECall f args) =>
      match call_sem o f args st with Some (v, st') => Some (FNormal, set_this x v st') | None => None end
  | SLoc x e => Some (FNormal, set_loc x (eval st e) st)
  | SThis x e => Some (FNormal, set_this x (eval st e) st)
  | SFld t f e =>
      let v := eval st e in
      let st1 := set_fld (t, f) v st in
      (* master_ptr->total is the accumulator of the master species found last *)
      if fkey_eqb (t, f) ("master", "total") then
        match alookup cur_master (this st) with
        | VS p =>
            let cur := match clookup master_totals (conts st) with Some l => l | None => [] end in
            Some (FNormal, set_cont master_totals (map_put p v cur) st1)
        | _ => None
        end
      else Some (FNormal, st1)
  | SPut t f k v =>
      match eval st k with
      | VS key =>
          let cur := match clookup (t, f) (conts st) with Some l => l | None => [] end in
          Some (FNormal, set_cont (t, f) (map_put key (eval st v) cur) st)
      | _ => None
      end
  | SIf c a b =>
      match truth (eval st c) with
      | Some true => exec_list a st
      | Some false => exec_list b st
      | None => None
      end
  | SFor t f body =>
      match clookup (t, f) (conts st) with
      | None => None
      | Some rs => for_loop (fun st' => exec_list body st') (t, f) rs [] st
      end
  | SCall f args =>
      match funs f with
      | Some g =>
          match g (map (eval st) args) st with
          | Some st' => Some (FNormal, st')
          | None => None
          end
      | None =>
          match call_sem o f args st with Some (_, st') => Some (FNormal, st') | None => None end
      end
  | SWhile _ _ => None
  | SContinue => Some (FContinue, st)
  | SReturn _ => Some (FReturn, st)
  | SOpaque _ => None
  end.

Fixpoint exec_list (l : list stmt) (st : state) {struct l} : result :=
  match l with
  | [] => Some (FNormal, st)
  | s :: r =>
      match exec s st with
      | Some (FNormal, st') => exec_list r st'
      | other => other
      end
  end.

End Exec.

Definition no_funs : callee := fun _ => None.

(* run a function body with positional parameters; the caller's locals are restored afterwards *)
Definition run_fun (o : oracles) (funs : callee) (params : list string) (body : list stmt)
           (args : list val) (st : state) : option state :=
  let st0 := mkState (combine params args) (this st) (fld st) (conts st) in
  match exec_list o funs body st0 with
  | Some (_, st') => Some (mkState (loc st) (this st') (fld st') (conts st'))
  | None => None
  end.

(* helpers for building states and reading results *)
Definition num_record (k : string) (v : Q) : record := [(pair_first, VS k); (pair_second, VQ v)].

Definition totals_key : fkey := ("cxxSolution", "totals").

Definition get_map (k : fkey) (st : state) : list record :=
  match clookup k (conts st) with Some l => l | None => [] end.

Fixpoint map_to_list (l : list record) : list (string * val) :=
  match l with
  | [] => []
  | r :: rest =>
      match rec_key r, flookup pair_second r with
      | Some k, Some v => (k, v) :: map_to_list rest
      | _, _ => map_to_list rest
      end
  end.
