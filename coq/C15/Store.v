(* C15: order-independent storage.  cxxNameDouble / std::map<std::string,...> (constituents of a
   block) and the numbered entity maps (Rxn_solution_map, ...: std::map<int, T>) are key-ordered maps
   with overwrite.  Model: insertion into a key-ordered association list, generic in the key type.
   Results are stated extensionally (what a lookup returns), which is all the engine can observe
   apart from the iteration order (and sums over Q do not depend on that order). *)
From Coq Require Import List Permutation ZArith String Bool.
Import ListNotations.

Section KeyedMap.
Variables (K V : Type) (cmp : K -> K -> comparison) (eqb : K -> K -> bool).
Hypothesis cmp_eq : forall a b, cmp a b = Eq -> a = b.
Hypothesis cmp_refl : forall a, cmp a a = Eq.
Hypothesis eqb_spec : forall a b, eqb a b = true <-> a = b.

Fixpoint put (k : K) (v : V) (l : list (K * V)) : list (K * V) :=
  match l with
  | [] => [(k, v)]
  | (k', v') :: r =>
      match cmp k k' with
      | Eq => (k, v) :: r
      | Lt => (k, v) :: (k', v') :: r
      | Gt => (k', v') :: put k v r
      end
  end.

Fixpoint get (k : K) (l : list (K * V)) : option V :=
  match l with
  | [] => None
  | (k', v) :: r => if eqb k k' then Some v else get k r
  end.

(* reading a sequence of definitions in order; a later definition of the same key replaces *)
Definition of_list (l : list (K * V)) : list (K * V) :=
  fold_left (fun acc kv => put (fst kv) (snd kv) acc) l [].

Lemma eqb_refl a : eqb a a = true.
Proof. apply eqb_spec; reflexivity. Qed.

Lemma eqb_false a b : a <> b -> eqb a b = false.
Proof. intros H. destruct (eqb a b) eqn:E; [apply eqb_spec in E; contradiction|reflexivity]. Qed.

Lemma get_put k k' v l : get k (put k' v l) = if eqb k k' then Some v else get k l.
Proof.
  induction l as [|[k2 v2] l IH]; simpl.
  - reflexivity.
  - destruct (cmp k' k2) eqn:E; simpl.
    + apply cmp_eq in E; subst k2. destruct (eqb k k'); reflexivity.
    + reflexivity.
    + rewrite IH. destruct (eqb k k2) eqn:E2; [|reflexivity].
      apply eqb_spec in E2; subst k2.
      destruct (eqb k k') eqn:E3; [|reflexivity].
      apply eqb_spec in E3; subst k'. rewrite cmp_refl in E; discriminate.
Qed.

(* repeating an identical definition changes nothing *)
Lemma put_put_same k v v0 l : put k v (put k v0 l) = put k v l.
Proof.
  induction l as [|[k2 v2] l IH]; simpl.
  - rewrite cmp_refl; reflexivity.
  - destruct (cmp k k2) eqn:E; simpl.
    + rewrite cmp_refl; reflexivity.
    + rewrite cmp_refl; reflexivity.
    + rewrite E, IH; reflexivity.
Qed.

Lemma put_idempotent k v l : put k v (put k v l) = put k v l.
Proof. apply put_put_same. Qed.

(* two definitions of different keys commute (extensionally) *)
Lemma put_comm_get k1 v1 k2 v2 l k : k1 <> k2 ->
  get k (put k1 v1 (put k2 v2 l)) = get k (put k2 v2 (put k1 v1 l)).
Proof.
  intros H. rewrite !get_put.
  destruct (eqb k k1) eqn:E1; destruct (eqb k k2) eqn:E2; try reflexivity.
  apply eqb_spec in E1, E2. congruence.
Qed.

Definition from (acc l : list (K * V)) := fold_left (fun acc kv => put (fst kv) (snd kv) acc) l acc.

Lemma from_cons acc k v l : from acc ((k, v) :: l) = from (put k v acc) l.
Proof. reflexivity. Qed.

Lemma get_from_notin k acc l : ~ In k (map fst l) -> get k (from acc l) = get k acc.
Proof.
  revert acc. induction l as [|[k' v'] l IH]; intros acc H; [reflexivity|].
  rewrite from_cons, IH.
  - rewrite get_put. rewrite eqb_false; [reflexivity|]. intros ->. apply H; left; reflexivity.
  - intros Hin. apply H; right; exact Hin.
Qed.

Lemma get_from_in k v acc l : NoDup (map fst l) -> In (k, v) l -> get k (from acc l) = Some v.
Proof.
  revert acc. induction l as [|[k' v'] l IH]; intros acc Hnd Hin; [destruct Hin|].
  rewrite from_cons.
  inversion Hnd as [|? ? Hni Hnd']; subst. destruct Hin as [E|Hin].
  - injection E as -> ->. rewrite (get_from_notin k (put k v acc) l Hni).
    rewrite get_put, eqb_refl; reflexivity.
  - apply (IH (put k' v' acc) Hnd' Hin).
Qed.

(* ORDER INDEPENDENCE: the definitions of distinct keys can be read in any order *)
Theorem of_list_perm l1 l2 : Permutation l1 l2 -> NoDup (map fst l1) ->
  forall k, get k (of_list l1) = get k (of_list l2).
Proof.
  intros HP Hnd k. unfold of_list.
  assert (Hnd2 : NoDup (map fst l2)) by (eapply Permutation_NoDup; [apply Permutation_map; exact HP|exact Hnd]).
  destruct (in_dec (fun a b => match bool_dec (eqb a b) true with
                               | left e => left (proj1 (eqb_spec a b) e)
                               | right n => right (fun e => n (proj2 (eqb_spec a b) e)) end) k (map fst l1)) as [Hin|Hni].
  - apply in_map_iff in Hin as [[k' v] [E Hin]]. simpl in E; subst k'.
    pose proof (get_from_in k v [] l1 Hnd Hin) as G1.
    pose proof (get_from_in k v [] l2 Hnd2 (Permutation_in _ HP Hin)) as G2.
    unfold from in G1, G2. rewrite G1, G2; reflexivity.
  - pose proof (get_from_notin k [] l1 Hni) as G1.
    assert (Hni2 : ~ In k (map fst l2)).
    { intros H. apply Hni. eapply Permutation_in; [apply Permutation_sym, Permutation_map; exact HP|exact H]. }
    pose proof (get_from_notin k [] l2 Hni2) as G2.
    unfold from in G1, G2. rewrite G1, G2; reflexivity.
Qed.

(* a repeated identical definition (anywhere later in the input) changes nothing observable *)
Theorem of_list_repeat l k v : In (k, v) l -> NoDup (map fst l) ->
  forall k', get k' (of_list (l ++ [(k, v)])) = get k' (of_list l).
Proof.
  intros Hin Hnd k'. unfold of_list. rewrite fold_left_app. simpl. rewrite get_put.
  destruct (eqb k' k) eqn:E; [|reflexivity].
  apply eqb_spec in E; subst k'.
  pose proof (get_from_in k v [] l Hnd Hin) as G. unfold from in G. rewrite G; reflexivity.
Qed.

End KeyedMap.

(* RENUMBERING: reading the same definitions under an injective renumbering of the keys gives the
   renumbered store *)
Section Renumber.
Variables (V : Type).
Variable sigma : Z -> Z.
Hypothesis sigma_inj : forall a b, sigma a = sigma b -> a = b.

Definition zput := put Z V Z.compare.
Definition zget := get Z V Z.eqb.
Definition zof_list := of_list Z V Z.compare.

Lemma zcmp_eq a b : Z.compare a b = Eq -> a = b.
Proof. apply Z.compare_eq. Qed.

Theorem renumber_commutes (l : list (Z * V)) n :
  zget (sigma n) (zof_list (map (fun kv => (sigma (fst kv), snd kv)) l)) = zget n (zof_list l).
Proof.
  unfold zof_list, of_list.
  assert (G : forall acc acc', (forall m, zget (sigma m) acc' = zget m acc) ->
     zget (sigma n) (fold_left (fun a kv => put Z V Z.compare (fst kv) (snd kv) a) (map (fun kv => (sigma (fst kv), snd kv)) l) acc')
     = zget n (fold_left (fun a kv => put Z V Z.compare (fst kv) (snd kv) a) l acc)).
  { induction l as [|[k v] l IH]; intros acc acc' H; simpl; [apply H|].
    apply IH. intros m. unfold zget.
    rewrite !(get_put Z V Z.compare Z.eqb zcmp_eq Z.compare_refl Z.eqb_eq).
    destruct (Z.eqb m k) eqn:E.
    - apply Z.eqb_eq in E; subst m. rewrite Z.eqb_refl; reflexivity.
    - assert (E' : Z.eqb (sigma m) (sigma k) = false).
      { destruct (Z.eqb (sigma m) (sigma k)) eqn:E2; [|reflexivity].
        apply Z.eqb_eq in E2. apply sigma_inj in E2. subst. rewrite Z.eqb_refl in E; discriminate. }
      rewrite E'. apply H. }
  apply G. intros m; reflexivity.
Qed.
End Renumber.
