(* C15: clean model of Phreeqc::add_mix / add_solution (step.cpp) for mixes whose fractions are all
   positive: every solution contributes its extensive content times its fraction, and its intensive
   properties with weight (fraction * water) / sum (fraction * water).
   Theorems: the mixture does not depend on the order of the components (mix_commutes), listing a
   solution twice is the same as listing it once with the summed fraction (self_mix), a single
   component with fraction 1 is the solution itself (self_mix_identity), scaling every solution by
   k scales the extensive content by k and leaves the intensive properties alone (mix_water_scaling). *)
From Coq Require Import QArith List Permutation String Lqa.
Import ListNotations.
Open Scope Q_scope.

Record msol := mkMsol {
  m_water : Q;                 (* kg water        (extensive) *)
  m_cb : Q;                    (* charge balance  (extensive) *)
  m_th : Q;                    (* total H         (extensive) *)
  m_to : Q;                    (* total O         (extensive) *)
  m_tot : string -> Q;         (* moles of each element (extensive) *)
  m_tc : Q;                    (* temperature     (intensive) *)
  m_ph : Q                     (* pH guess        (intensive) *)
}.

Definition comp := (Q * msol)%type.      (* (mixing fraction, solution) *)

Fixpoint sumf (g : comp -> Q) (cs : list comp) : Q :=
  match cs with
  | [] => 0
  | c :: r => g c + sumf g r
  end.

Definition fw (c : comp) : Q := fst c * m_water (snd c).

Record mixed := mkMixed {
  x_water : Q; x_cb : Q; x_th : Q; x_to : Q; x_tot : string -> Q; x_tc : Q; x_ph : Q
}.

Definition mix (cs : list comp) : mixed :=
  let sfw := sumf fw cs in
  mkMixed (sumf fw cs)
          (sumf (fun c => fst c * m_cb (snd c)) cs)
          (sumf (fun c => fst c * m_th (snd c)) cs)
          (sumf (fun c => fst c * m_to (snd c)) cs)
          (fun e => sumf (fun c => fst c * m_tot (snd c) e) cs)
          (sumf (fun c => m_tc (snd c) * (fw c / sfw)) cs)
          (sumf (fun c => m_ph (snd c) * (fw c / sfw)) cs).

Definition mixed_equiv (a b : mixed) : Prop :=
  x_water a == x_water b /\ x_cb a == x_cb b /\ x_th a == x_th b /\ x_to a == x_to b /\
  (forall e, x_tot a e == x_tot b e) /\ x_tc a == x_tc b /\ x_ph a == x_ph b.

Definition scale_sol (k : Q) (s : msol) : msol :=
  mkMsol (k * m_water s) (k * m_cb s) (k * m_th s) (k * m_to s) (fun e => k * m_tot s e) (m_tc s) (m_ph s).

Lemma sumf_perm g cs cs' : Permutation cs cs' -> sumf g cs == sumf g cs'.
Proof.
  induction 1; simpl.
  - reflexivity.
  - rewrite IHPermutation; reflexivity.
  - ring.
  - rewrite IHPermutation1; exact IHPermutation2.
Qed.

Lemma sumf_ext g h cs : (forall c, g c == h c) -> sumf g cs == sumf h cs.
Proof. intros H. induction cs as [|c r IH]; simpl; [reflexivity|]. rewrite H, IH; reflexivity. Qed.

Lemma sumf_scale g k cs : sumf (fun c => g c * k) cs == sumf g cs * k.
Proof. induction cs as [|c r IH]; simpl; [ring|]. rewrite IH; ring. Qed.

(* intensive weights written with the common denominator outside *)
Lemma weighted g cs d : sumf (fun c => g c * (fw c / d)) cs == sumf (fun c => g c * fw c) cs / d.
Proof.
  unfold Qdiv. rewrite <- sumf_scale. apply sumf_ext. intros c. ring.
Qed.

Theorem mix_commutes cs cs' : Permutation cs cs' -> mixed_equiv (mix cs) (mix cs').
Proof.
  intros HP. unfold mixed_equiv, mix; simpl.
  repeat split; try (apply sumf_perm; exact HP).
  - intros e. apply sumf_perm; exact HP.
  - rewrite !weighted. rewrite (sumf_perm fw _ _ HP). rewrite (sumf_perm _ _ _ HP). reflexivity.
  - rewrite !weighted. rewrite (sumf_perm fw _ _ HP). rewrite (sumf_perm _ _ _ HP). reflexivity.
Qed.

Theorem self_mix f1 f2 s cs :
  mixed_equiv (mix ((f1, s) :: (f2, s) :: cs)) (mix ((f1 + f2, s) :: cs)).
Proof.
  unfold mixed_equiv, mix; simpl. unfold fw; simpl.
  repeat split; try ring.
  - intros e; ring.
  - rewrite !weighted. unfold fw; simpl.
    assert (E : f1 * m_water s + (f2 * m_water s + sumf fw cs) == (f1 + f2) * m_water s + sumf fw cs) by ring.
    unfold fw in E. rewrite E. unfold Qdiv. ring.
  - rewrite !weighted. unfold fw; simpl.
    assert (E : f1 * m_water s + (f2 * m_water s + sumf fw cs) == (f1 + f2) * m_water s + sumf fw cs) by ring.
    unfold fw in E. rewrite E. unfold Qdiv. ring.
Qed.

Theorem self_mix_identity s : ~ m_water s == 0 ->
  let x := mix [(1, s)] in
  x_water x == m_water s /\ x_cb x == m_cb s /\ x_th x == m_th s /\ x_to x == m_to s /\
  (forall e, x_tot x e == m_tot s e) /\ x_tc x == m_tc s /\ x_ph x == m_ph s.
Proof.
  intros Hw. unfold mix; simpl. unfold fw; simpl.
  repeat split; try ring; try (intros e; ring); field; lra.
Qed.

Definition scale_comps (k : Q) (cs : list comp) : list comp :=
  map (fun c => (fst c, scale_sol k (snd c))) cs.

Lemma sumf_map_scale k (g h : comp -> Q) cs :
  (forall c, h (fst c, scale_sol k (snd c)) == k * g c) ->
  sumf h (scale_comps k cs) == k * sumf g cs.
Proof.
  intros H. induction cs as [|c r IH]; simpl; [ring|].
  rewrite H, IH. ring.
Qed.

Theorem mix_water_scaling k cs : ~ k == 0 -> ~ sumf fw cs == 0 ->
  let a := mix (scale_comps k cs) in
  let b := mix cs in
  x_water a == k * x_water b /\ x_cb a == k * x_cb b /\ x_th a == k * x_th b /\ x_to a == k * x_to b /\
  (forall e, x_tot a e == k * x_tot b e) /\ x_tc a == x_tc b /\ x_ph a == x_ph b.
Proof.
  intros Hk Hs. unfold mix; simpl.
  assert (W : sumf fw (scale_comps k cs) == k * sumf fw cs).
  { apply sumf_map_scale. intros c. unfold fw; simpl. ring. }
  repeat split.
  - exact W.
  - apply sumf_map_scale. intros c; simpl; ring.
  - apply sumf_map_scale. intros c; simpl; ring.
  - apply sumf_map_scale. intros c; simpl; ring.
  - intros e. apply sumf_map_scale. intros c; simpl; ring.
  - rewrite !weighted. rewrite W.
    rewrite (sumf_map_scale k (fun c => m_tc (snd c) * fw c)); [|intros c; unfold fw; simpl; ring].
    field. split; assumption.
  - rewrite !weighted. rewrite W.
    rewrite (sumf_map_scale k (fun c => m_ph (snd c) * fw c)); [|intros c; unfold fw; simpl; ring].
    field. split; assumption.
Qed.

(* non-vacuity: two different solutions, fractions 0.25 and 0.75 *)
Example mix_example :
  let s1 := mkMsol 1 (1#1000) 111 (111#2) (fun _ => 1#100) 25 7 in
  let s2 := mkMsol 2 0 222 111 (fun _ => 3#100) 10 8 in
  x_water (mix [(1#4, s1); (3#4, s2)]) == 7#4 /\ x_tc (mix [(1#4, s1); (3#4, s2)]) == 85#7.
Proof. vm_compute. split; reflexivity. Qed.
