(* C15: the whole regenerated Phreeqc::convert_units (prelude, constituent loop, water scaling) against
   the clean model Units.convert_model on concrete solutions (closed computation). *)
From Coq Require Import QArith List String ZArith Bool Lqa.
Require Import IPV.C15.Ir IPV.C15.Units IPV.C15.Convert IPV.C15.Corr.
Import ListNotations.
Open Scope string_scope.
Open Scope Q_scope.

(* agreement of the regenerated code with the clean model on concrete solutions (closed computation) *)
Definition unit_of_string (s : string) : option unit :=
  find (fun u => String.eqb (unit_string u) s) all_units.

Definition sample_lines : list (list line * Q) :=
  [ ([mkLine "Ca" (mkUnit PMilli KGram) GDefault (4008 # 1); mkLine "Alkalinity" (mkUnit PMilli KGram) (GAs "CaCO3") 100;
      mkLine "Na" (mkUnit PMicro KMol) GDefault 5; mkLine "S(6)" (mkUnit PNone KGram) (GAs "SO4") (96 # 1000)], 2);
    ([mkLine "Cl" (mkUnit PMicro KGram) (GExplicit 35) (7 # 2); mkLine "Alkalinity" (mkUnit PMilli KEq) GDefault 3;
      mkLine "K" (mkUnit PNone KMol) GDefault (1 # 1000)], 1 # 4) ].

Definition sample_gf : list (string * Q) := [("CaCO3", 10009 # 100); ("SO4", 9606 # 100)].
Definition sample_ms : list (string * Q) := [("Ca", 4008 # 100); ("Na", 2299 # 100); ("S(6)", 9606 # 100); ("Cl", 35453 # 1000); ("K", 391 # 10); ("Alkalinity", 5005 # 100)].

Definition gen_matches_model (ls : list line) (w : Q) : bool :=
  let o := table_oracles sample_gf sample_ms in
  match run_convert o (sol_case "mMol/kgw" w (map line_record ls)), convert_model o w ls with
  | Some (_, st), Some t =>
      let tots := totals_of st in
      Nat.eqb (List.length tots) (List.length t) &&
      forallb (fun kv => match alookup (fst kv) tots with VQ q => Qeq_bool q (snd kv) | _ => false end) t
  | _, _ => false
  end.

Theorem gen_convert_units_agrees_on_samples :
  forallb (fun s => gen_matches_model (fst s) (snd s)) sample_lines = true.
Proof. vm_compute. reflexivity. Qed.
