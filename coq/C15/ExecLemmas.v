(* C15: generic facts about Ir.exec and the symbolic-execution tactic used by the proofs about the
   regenerated code. *)
From Coq Require Import QArith List String Ascii ZArith Bool Lqa NArith.
Require Import IPV.C15.Ir.
Import ListNotations.
Open Scope string_scope.
Open Scope Q_scope.

Section S.
Variable o : oracles.
Variable fs : callee.
Notation XL := (exec_list o fs).
Notation X := (exec o fs).

Lemma xl_cons s r st : XL (s :: r) st = match X s st with Some (FNormal, st') => XL r st' | other => other end.
Proof. reflexivity. Qed.

Lemma xl_app a r st : XL (a ++ r)%list st = match XL a st with Some (FNormal, st') => XL r st' | other => other end.
Proof.
  revert st. induction a as [|s a IH]; intros st; [reflexivity|].
  change ((s :: a) ++ r)%list with (s :: (a ++ r))%list. rewrite !xl_cons.
  destruct (X s st) as [[[| |] st']|]; auto.
Qed.

Lemma x_if c a b st : X (SIf c a b) st = match truth (eval st c) with Some true => XL a st | Some false => XL b st | None => None end.
Proof. reflexivity. Qed.

Lemma x_for t f body st :
  X (SFor t f body) st = match clookup (t, f) (conts st) with None => None | Some rs => for_loop (fun st' => XL body st') (t, f) rs [] st end.
Proof. reflexivity. Qed.

Lemma xl_if_true c a b r st : truth (eval st c) = Some true -> XL (SIf c a b :: r) st = XL (a ++ r)%list st.
Proof. intros H. rewrite xl_cons, x_if, H, xl_app. reflexivity. Qed.
Lemma xl_if_false c a b r st : truth (eval st c) = Some false -> XL (SIf c a b :: r) st = XL (b ++ r)%list st.
Proof. intros H. rewrite xl_cons, x_if, H, xl_app. reflexivity. Qed.
Lemma xl_simple s r st st1 : X s st = Some (FNormal, st1) -> XL (s :: r) st = XL r st1.
Proof. intros H. rewrite xl_cons, H. reflexivity. Qed.
End S.

Lemma fkey_eqb_refl k : fkey_eqb k k = true.
Proof. destruct k; unfold fkey_eqb; simpl; rewrite !String.eqb_refl; reflexivity. Qed.

Lemma fkey_eqb_eq a b : fkey_eqb a b = true -> a = b.
Proof.
  destruct a, b; unfold fkey_eqb; simpl; intros H.
  apply andb_true_iff in H as [H1 H2]. apply String.eqb_eq in H1, H2. subst; reflexivity.
Qed.

Lemma clookup_cset_same k v l : clookup k (cset k v l) = Some v.
Proof.
  induction l as [|[k' v'] l IH]; simpl.
  - rewrite fkey_eqb_refl; reflexivity.
  - destruct (fkey_eqb k k') eqn:E; simpl; [rewrite fkey_eqb_refl|rewrite E]; auto.
Qed.

Lemma clookup_cset_other k k' v l : fkey_eqb k k' = false -> clookup k (cset k' v l) = clookup k l.
Proof.
  intros Hk. induction l as [|[k2 v2] l IH]; simpl.
  - rewrite Hk; reflexivity.
  - destruct (fkey_eqb k' k2) eqn:E; simpl.
    + apply fkey_eqb_eq in E; subst k2. rewrite Hk; reflexivity.
    + destruct (fkey_eqb k k2); auto.
Qed.

Lemma cset_cset k v v' l : cset k v (cset k v' l) = cset k v l.
Proof.
  induction l as [|[k2 v2] l IH]; simpl.
  - rewrite fkey_eqb_refl; reflexivity.
  - destruct (fkey_eqb k k2) eqn:E; simpl; [rewrite fkey_eqb_refl|rewrite E, IH]; reflexivity.
Qed.

Lemma ascii_compare_refl c : Ascii.compare c c = Datatypes.Eq.
Proof. unfold Ascii.compare. apply N.compare_refl. Qed.

Lemma string_compare_refl s : String.compare s s = Datatypes.Eq.
Proof. induction s as [|c s IH]; simpl; [reflexivity|]. rewrite ascii_compare_refl; exact IH. Qed.

Lemma rec_key_mk k v : rec_key [(pair_first, VS k); (pair_second, v)] = Some k.
Proof. reflexivity. Qed.

Lemma map_put_nil k v : map_put k v [] = [[(pair_first, VS k); (pair_second, v)]].
Proof. reflexivity. Qed.

Lemma map_put_cons k v r T :
  map_put k v (r :: T) =
  match rec_key r with
  | Some k' =>
      match String.compare k k' with
      | Datatypes.Eq => [(pair_first, VS k); (pair_second, v)] :: T
      | Datatypes.Lt => [(pair_first, VS k); (pair_second, v)] :: r :: T
      | Datatypes.Gt => r :: map_put k v T
      end
  | None => r :: map_put k v T
  end.
Proof. reflexivity. Qed.

Lemma map_put_put k v v0 T : map_put k v (map_put k v0 T) = map_put k v T.
Proof.
  induction T as [|r T IH].
  - rewrite map_put_nil, map_put_cons, rec_key_mk, string_compare_refl. reflexivity.
  - rewrite !(map_put_cons _ _ r T).
    destruct (rec_key r) as [k'|] eqn:Ek.
    + destruct (String.compare k k') eqn:Ec.
      * rewrite map_put_cons, rec_key_mk, string_compare_refl. reflexivity.
      * rewrite map_put_cons, rec_key_mk, string_compare_refl. reflexivity.
      * rewrite map_put_cons, Ek, Ec, IH. reflexivity.
    + rewrite map_put_cons, Ek, IH. reflexivity.
Qed.

(* ---- reduction behaviour for symbolic execution: arithmetic stays folded, tests and lookups
        only compute on closed arguments ---- *)
Global Arguments Qmult : simpl never.
Global Arguments Qdiv : simpl never.
Global Arguments Qplus : simpl never.
Global Arguments Qminus : simpl never.
Global Arguments Qopp : simpl never.
Global Arguments Qinv : simpl never.
Global Arguments Qle_bool !x !y.
Global Arguments Qeq_bool !x !y.
Global Arguments str_eqb !a !b.
Global Arguments strstr_val !a !b.
Global Arguments first_token !s.
Global Arguments map_put k v !l.
Global Arguments map_get k !l.
Global Arguments cset k v !l.
Global Arguments clookup k !l.
Global Arguments alookup k !l.
Global Arguments flookup k !l.
Global Arguments set_loc x v !st /.
Global Arguments set_this x v !st /.
Global Arguments set_fld k v !st /.
Global Arguments set_cont k v !st /.

(* one statement of a statement list; [rw] rewrites the facts known about the symbolic state *)
Ltac step rw :=
  lazymatch goal with
  | |- exec_list _ _ [] _ = _ => reflexivity
  | |- exec_list ?o ?f (SIf ?c ?a ?b :: ?r) ?st = _ =>
      let H := fresh "Hc" in
      let v := fresh "v" in
      evar (v : bool);
      assert (H : truth (eval st c) = Some v) by (cbn; rw; cbn; subst v; reflexivity);
      subst v;
      match type of H with
      | _ = Some true => rewrite (xl_if_true o f c a b r st H)
      | _ = Some false => rewrite (xl_if_false o f c a b r st H)
      end; clear H; cbn [app]
  | |- exec_list ?o ?f (SContinue :: ?r) ?st = _ => reflexivity
  | |- exec_list ?o ?f (SReturn ?e :: ?r) ?st = _ => reflexivity
  | |- exec_list ?o ?f (SFor _ _ _ :: ?r) ?st = _ => fail "loop"
  | |- exec_list ?o ?f (?s :: ?r) ?st = _ =>
      let H := fresh "Hs" in
      let st1 := fresh "st1" in
      evar (st1 : state);
      assert (H : exec o f s st = Some (FNormal, st1)) by (cbn; rw; cbn; subst st1; reflexivity);
      subst st1;
      rewrite (xl_simple o f s r st _ H); clear H
  end.

Lemma Qle_bool_false_of_pos x : 0 < x -> Qle_bool x 0 = false.
Proof.
  intros H. destruct (Qle_bool x 0) eqn:E; [|reflexivity].
  apply Qle_bool_iff in E. lra.
Qed.

Lemma Qeq_bool_false_of_pos x : 0 < x -> Qeq_bool x 0 = false.
Proof.
  intros H. destruct (Qeq_bool x 0) eqn:E; [|reflexivity].
  apply Qeq_bool_iff in E. lra.
Qed.
