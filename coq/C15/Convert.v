(* C15: the pieces of the regenerated Phreeqc::convert_units the theorems talk about.
   Everything here is computed from Gen_C15_engine.gen_convert_units (the transliteration of the
   current prep.cpp); nothing is copied by hand. *)
From Coq Require Import QArith List String ZArith Bool.
Require Import IPV.C15.Ir IPV.C15.Units IPV.Gen.Gen_C15_engine.
Import ListNotations.
Open Scope string_scope.
Open Scope Q_scope.

Definition comps_key : fkey := ("cxxISolution", "comps").

(* first top-level loop over the given container, with what precedes and follows it *)
Fixpoint split_for (k : fkey) (p : list stmt) : option (list stmt * list stmt * list stmt) :=
  match p with
  | [] => None
  | SFor t f b :: r => if fkey_eqb k (t, f) then Some ([], b, r)
                       else match split_for k r with Some (pre, b', post) => Some (SFor t f b :: pre, b', post) | None => None end
  | s :: r => match split_for k r with Some (pre, b', post) => Some (s :: pre, b', post) | None => None end
  end.

Definition cu_split := Eval vm_compute in split_for comps_key gen_convert_units.

Definition cu_prelude : list stmt := match cu_split with Some (a, _, _) => a | None => [] end.
Definition comps_body : list stmt := match cu_split with Some (_, b, _) => b | None => [] end.
Definition cu_tail : list stmt := match cu_split with Some (_, _, c) => c | None => [] end.

(* the loop body is cut where the constituent's input concentration is first read into a local:
   what precedes determines the formula weight, what follows converts the number *)
Fixpoint split_conc (p : list stmt) : option (list stmt * list stmt) :=
  match p with
  | [] => None
  | SLoc x (EFld "cxxISolutionComp" "input_conc") :: r => Some ([], p)
  | s :: r => match split_conc r with Some (a, b) => Some (s :: a, b) | None => None end
  end.

Definition body_split := Eval vm_compute in split_conc comps_body.
Definition body_gfw : list stmt := match body_split with Some (a, _) => a | None => [] end.
Definition body_conv : list stmt := match body_split with Some (_, b) => b | None => [] end.

(* initial state of convert_units for a freshly read per-kgw solution *)
Definition sol_fields (su : string) (ph water dens : Q) : record :=
  [(("cxxSolution", "new_def"), VQ 1);
   (("cxxSolution", "initial_data"), VP true);
   (("cxxSolution", "ph"), VQ ph);
   (("cxxSolution", "mass_water"), VQ water);
   (("cxxSolution", "density"), VQ dens);
   (("cxxISolution", "units"), VS su)].

Definition sol_state (su : string) (ph water dens : Q) (comps : list record) : state :=
  mkState [] [("density_iterations", VQ 0); ("input_error", VQ 0)]
          (sol_fields su ph water dens)
          [(comps_key, comps); (totals_key, [])].

Definition run_convert (o : oracles) (st : state) : option (flow * state) :=
  exec_list o no_funs gen_convert_units st.

Definition totals_of (st : state) : list (string * val) := map_to_list (get_map totals_key st).
