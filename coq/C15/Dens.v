(* C15: the regenerated Phreeqc::calc_dens (basicsubs.cpp).  The density is an intensive quantity: the
   expression assigned to density_x must be homogeneous of degree 0 in (mass of water, total solute mass
   M_T, total solute volume V_solutes); the solution mass is extensive in (M_T, moles of water); the
   solution volume is solution mass / density.  The expressions are taken from the generated code. *)
From Coq Require Import QArith Qpower ZArith List String Bool.
Require Import IPV.C15.Ir IPV.C15.Homog IPV.Gen.Gen_C15_engine.
Import ListNotations.
Open Scope string_scope.
Open Scope Q_scope.

(* the last expression assigned to this->x anywhere in the function (descending into if branches) *)
Fixpoint last_this (x : string) (p : list stmt) (acc : option expr) {struct p} : option expr :=
  match p with
  | [] => acc
  | SThis y e :: r => last_this x r (if String.eqb x y then Some e else acc)
  | SIf _ a b :: r =>
      let acc1 := (fix go (l : list stmt) (acc : option expr) {struct l} : option expr :=
                     match l with
                     | [] => acc
                     | SThis y e :: r' => go r' (if String.eqb x y then Some e else acc)
                     | _ :: r' => go r' acc
                     end) a acc in
      last_this x r acc1
  | _ :: r => last_this x r acc
  end.

Definition oexpr (o : option expr) : expr := match o with Some e => e | None => EOpaque "missing" end.

Definition dens_expr : expr := Eval vm_compute in oexpr (last_this "density_x" gen_calc_dens None).
Definition mass_expr : expr := Eval vm_compute in oexpr (last_this "solution_mass_x" gen_calc_dens None).
Definition vol_expr : expr := Eval vm_compute in oexpr (last_this "solution_volume_x" gen_calc_dens None).

Definition mem (l : list string) (x : string) : bool := existsb (String.eqb x) l.

(* what scales with the amount of solution *)
Definition dens_ext := mem ["mass_water_aq_x"; "M_T"; "V_solutes"].
Definition mass_ext := mem ["M_T"; "species.moles"].
Definition vol_ext := mem ["solution_mass_x"].

Lemma dens_degree : degree dens_ext dens_expr = Some 0%Z.
Proof. vm_compute. reflexivity. Qed.
Lemma mass_degree : degree mass_ext mass_expr = Some 1%Z.
Proof. vm_compute. reflexivity. Qed.
Lemma vol_degree : degree vol_ext vol_expr = Some 1%Z.
Proof. vm_compute. reflexivity. Qed.

(* DENSITY IS INTENSIVE: (W, M_T, V_solutes) -> (cW, cM_T, cV_solutes) leaves the density unchanged *)
Theorem density_scale_invariant : forall (env : string -> Q) c, ~ c == 0 ->
  evalq (scale_env dens_ext c env) dens_expr == evalq env dens_expr.
Proof. intros env c Hc. apply intensive_invariant; [exact Hc|exact dens_degree]. Qed.

Theorem solution_mass_extensive : forall (env : string -> Q) c, ~ c == 0 ->
  evalq (scale_env mass_ext c env) mass_expr == c * evalq env mass_expr.
Proof. intros env c Hc. apply extensive_scales; [exact Hc|exact mass_degree]. Qed.

Theorem solution_volume_extensive : forall (env : string -> Q) c, ~ c == 0 ->
  evalq (scale_env vol_ext c env) vol_expr == c * evalq env vol_expr.
Proof. intros env c Hc. apply extensive_scales; [exact Hc|exact vol_degree]. Qed.

(* the expression is the real one, not a placeholder: 2.5 kg water, 50 g solutes, 20 cm3 solute volume *)
Example density_example :
  let env := fun x => if String.eqb x "rho_0" then 997 # 1000 else if String.eqb x "mass_water_aq_x" then 5 # 2
                      else if String.eqb x "M_T" then 50 else if String.eqb x "V_solutes" then 20 else 0 in
  evalq env dens_expr == (997 # 1000) * (1000 + 20) / ((997 # 1000) * 8 + 1000).
Proof. vm_compute. reflexivity. Qed.
