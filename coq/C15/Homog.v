(* C15: homogeneity analysis of arithmetic expressions of the mini language.
   [degree ext e = Some d] is a syntactic certificate that e is homogeneous of degree d in the
   variables selected by [ext] (the extensive quantities); [degree_sound] turns the certificate into the
   scaling law  e[ext := c * ext] == c^d * e  for every environment and every c <> 0.
   Division is Q's total division (x / 0 = 0), under which the law holds unconditionally; wherever the
   C++ value is defined it coincides with it. *)
From Coq Require Import QArith Qpower ZArith List String Bool Lia.
Require Import IPV.C15.Ir.
Import ListNotations.
Open Scope string_scope.
Open Scope Q_scope.

Definition vname (e : expr) : option string :=
  match e with
  | ELoc x => Some x
  | EThis x => Some x
  | EFld t f => Some (t ++ "." ++ f)
  | _ => None
  end.

Fixpoint evalq (env : string -> Q) (e : expr) : Q :=
  match e with
  | ENum q => q
  | ELoc x => env x
  | EThis x => env x
  | EFld t f => env (t ++ "." ++ f)
  | EBin Add a b => evalq env a + evalq env b
  | EBin Sub a b => evalq env a - evalq env b
  | EBin Mul a b => evalq env a * evalq env b
  | EBin Div a b => evalq env a / evalq env b
  | ENeg a => - evalq env a
  | _ => 0
  end.

Fixpoint degree (ext : string -> bool) (e : expr) : option Z :=
  match e with
  | ENum _ => Some 0%Z
  | ELoc x => Some (if ext x then 1 else 0)%Z
  | EThis x => Some (if ext x then 1 else 0)%Z
  | EFld t f => Some (if ext (t ++ "." ++ f) then 1 else 0)%Z
  | EBin Add a b | EBin Sub a b =>
      match degree ext a, degree ext b with
      | Some x, Some y => if Z.eqb x y then Some x else None
      | _, _ => None
      end
  | EBin Mul a b =>
      match degree ext a, degree ext b with Some x, Some y => Some (x + y)%Z | _, _ => None end
  | EBin Div a b =>
      match degree ext a, degree ext b with Some x, Some y => Some (x - y)%Z | _, _ => None end
  | ENeg a => degree ext a
  | _ => None
  end.

Definition scale_env (ext : string -> bool) (c : Q) (env : string -> Q) : string -> Q :=
  fun x => if ext x then c * env x else env x.

Lemma Qpower_sub c x y : ~ c == 0 -> c ^ (x - y) == c ^ x / c ^ y.
Proof.
  intros Hc. unfold Z.sub. rewrite Qpower_plus by exact Hc. rewrite Qpower_opp. reflexivity.
Qed.

Lemma var_case ext c env x : ~ c == 0 ->
  scale_env ext c env x == c ^ (if ext x then 1 else 0) * env x.
Proof. intros Hc. unfold scale_env. destruct (ext x); simpl; ring. Qed.

Theorem degree_sound : forall ext c env e d, ~ c == 0 ->
  degree ext e = Some d ->
  evalq (scale_env ext c env) e == c ^ d * evalq env e.
Proof.
  intros ext c env e. induction e; intros d Hc Hd; simpl in Hd; try discriminate.
  - injection Hd as <-. simpl. ring.
  - injection Hd as <-. simpl. apply var_case; exact Hc.
  - injection Hd as <-. simpl. apply var_case; exact Hc.
  - injection Hd as <-. simpl. apply var_case; exact Hc.
  - destruct op; try discriminate;
      destruct (degree ext e1) as [x|] eqn:E1; try discriminate;
      destruct (degree ext e2) as [y|] eqn:E2; try discriminate.
    + destruct (Z.eqb x y) eqn:E; [|discriminate]. apply Z.eqb_eq in E; subst y. injection Hd as <-.
      simpl. rewrite (IHe1 x Hc eq_refl), (IHe2 x Hc eq_refl). ring.
    + destruct (Z.eqb x y) eqn:E; [|discriminate]. apply Z.eqb_eq in E; subst y. injection Hd as <-.
      simpl. rewrite (IHe1 x Hc eq_refl), (IHe2 x Hc eq_refl). ring.
    + injection Hd as <-. simpl. rewrite (IHe1 x Hc eq_refl), (IHe2 y Hc eq_refl).
      rewrite Qpower_plus by exact Hc. ring.
    + injection Hd as <-. simpl. rewrite (IHe1 x Hc eq_refl), (IHe2 y Hc eq_refl).
      rewrite Qpower_sub by exact Hc. unfold Qdiv. rewrite Qinv_mult_distr. ring.
  - simpl. rewrite (IHe d Hc Hd). ring.
Qed.

(* degree 0: the value does not change (intensive); degree 1: it scales with c (extensive) *)
Corollary intensive_invariant ext c env e : ~ c == 0 -> degree ext e = Some 0%Z ->
  evalq (scale_env ext c env) e == evalq env e.
Proof. intros Hc Hd. rewrite (degree_sound ext c env e 0 Hc Hd). simpl. ring. Qed.

Corollary extensive_scales ext c env e : ~ c == 0 -> degree ext e = Some 1%Z ->
  evalq (scale_env ext c env) e == c * evalq env e.
Proof. intros Hc Hd. rewrite (degree_sound ext c env e 1 Hc Hd). simpl. ring. Qed.
