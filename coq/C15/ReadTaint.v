(* C15: tie between Block.v and the regenerated cxxISolutionComp::read (ISolutionComp.cxx).
   Block.read_item stores, for a constituent line, only the line's OWN units; that is the premise of
   block_read_order_independent.  On the generated code this is a data-flow fact: no assignment to the
   constituent's units (this->units / Set_units) may depend on the units of the enclosing solution
   (field cxxISolution.units), directly or through locals.  [units_taint_free] computes a flow-insensitive
   taint closure over the locals of the generated function (descending into if / for / while bodies) and
   checks every assignment to the units.  Calls do not propagate taint to their by-reference arguments
   (stated limitation). *)
From Coq Require Import QArith List String Bool.
Require Import IPV.C15.Ir IPV.Gen.Gen_C15_engine.
Import ListNotations.
Open Scope string_scope.

Definition smem (x : string) (l : list string) : bool := existsb (String.eqb x) l.

Section Taint.
Variable src : string -> string -> bool.      (* the tainting field (class, name) *)

Fixpoint reads (tl : list string) (e : expr) {struct e} : bool :=
  match e with
  | ELoc x => smem x tl
  | EFld t f => src t f
  | EBin _ a b | EStrStr a b | EStrCmp a b | EIdx a b | EGet a b => reads tl a || reads tl b
  | ENot a | ENeg a | ESize a | EAddr a => reads tl a
  | ECall _ args => (fix any (l : list expr) : bool := match l with [] => false | a :: r => reads tl a || any r end) args
  | _ => false
  end.

End Taint.

(* all statements of a function, nested bodies flattened (order is irrelevant for a flow-insensitive analysis) *)
Fixpoint flat1 (s : stmt) {struct s} : list stmt :=
  let fl := (fix fl (l : list stmt) : list stmt := match l with [] => [] | x :: r => (flat1 x ++ fl r)%list end) in
  match s with
  | SIf _ a b => (s :: fl a ++ fl b)%list
  | SFor _ _ b => s :: fl b
  | SWhile _ b => s :: fl b
  | _ => [s]
  end.

Definition flatten (p : list stmt) : list stmt := flat_map flat1 p.

(* one round: locals assigned from an expression that reads the source or an already tainted local *)
Fixpoint grow (src : string -> string -> bool) (tl : list string) (p : list stmt) : list string :=
  match p with
  | [] => tl
  | SLoc x e :: r => grow src (if reads src tl e && negb (smem x tl) then x :: tl else tl) r
  | _ :: r => grow src tl r
  end.

Fixpoint closure (src : string -> string -> bool) (n : nat) (tl : list string) (p : list stmt) : list string :=
  match n with O => tl | S k => closure src k (grow src tl p) p end.

(* an assignment to the constituent's units whose right-hand side is tainted *)
Definition bad_units_assign (src : string -> string -> bool) (tl : list string) (s : stmt) : bool :=
  match s with
  | SThis "units" e => reads src tl e
  | SFld "cxxISolutionComp" "units" e => reads src tl e
  | _ => false
  end.

Definition block_units (t f : string) : bool := String.eqb t "cxxISolution" && String.eqb f "units".

Definition units_taint_free (p : list stmt) : bool :=
  let fp := flatten p in
  let tl := closure block_units (List.length fp) [] fp in
  negb (existsb (bad_units_assign block_units tl) fp).

(* the function is really there and does assign the units from the line's own token *)
Definition assigns_units (p : list stmt) : bool :=
  existsb (fun s => match s with SThis "units" _ => true | SFld "cxxISolutionComp" "units" _ => true | _ => false end) (flatten p).

Theorem isc_read_units_own_only :
  assigns_units gen_isc_read = true /\ units_taint_free gen_isc_read = true.
Proof. split; vm_compute; reflexivity. Qed.

(* the analysis does reject the eager assignment  `default = sol.units; ...; this->units = default` *)
Example taint_detects_eager_assignment :
  units_taint_free [SLoc "dflt" (EFld "cxxISolution" "units");
                    SIf (ENum 1) [SThis "units" (ELoc "dflt")] [];
                    SThis "units" (ELoc "token1")] = false.
Proof. vm_compute. reflexivity. Qed.
