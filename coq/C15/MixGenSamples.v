(* C15: the regenerated Phreeqc::add_mix (calling the regenerated add_solution) against the clean model
   Mix.mix on concrete mixes (closed computation).  Kept apart from MixGen.v so that a change of add_mix
   only fails the theorem that depends on it. *)
From Coq Require Import QArith List String ZArith Bool Lqa.
Require Import IPV.C15.Ir IPV.C15.Mix IPV.Gen.Gen_C15_engine.
Import ListNotations.
Open Scope string_scope.
Open Scope Q_scope.

(* ---- the generated add_mix against the clean model, on concrete mixes ---- *)

Record sdata := mkSdata { sd_n : Z; sd_frac : Q; sd_sol : msol; sd_elems : list string }.

Definition sol_fields_of (s : msol) : record :=
  [(("cxxSolution", "mass_water"), VQ (m_water s)); (("cxxSolution", "cb"), VQ (m_cb s));
   (("cxxSolution", "total_h"), VQ (m_th s)); (("cxxSolution", "total_o"), VQ (m_to s));
   (("cxxSolution", "tc"), VQ (m_tc s)); (("cxxSolution", "ph"), VQ (m_ph s));
   (("cxxSolution", "patm"), VQ 1); (("cxxSolution", "pe"), VQ 4); (("cxxSolution", "mu"), VQ 0);
   (("cxxSolution", "ah2o"), VQ 1); (("cxxSolution", "viscosity"), VQ 1); (("cxxSolution", "viscos_0"), VQ 1);
   (("cxxSolution", "density"), VQ 1)].

Definition sol_totals_of (s : msol) (els : list string) : list record :=
  fold_left (fun acc e => map_put e (VQ (m_tot s e)) acc) els [].

Definition mix_oracles (ds : list sdata) : oracles :=
  mkOracles (fun _ => None) (fun _ => None) (fun e => Some e)
            (fun n => match find (fun d => Qeq_bool (sd_n d # 1) n) ds with
                      | Some d => Some (sol_fields_of (sd_sol d), sol_totals_of (sd_sol d) (sd_elems d))
                      | None => None
                      end).

Definition zero_this : list (string * val) :=
  map (fun n => (n, VQ 0))
      ["tc_x"; "ph_x"; "patm_x"; "solution_pe_x"; "mu_x"; "ah2o_x"; "viscos"; "viscos_0"; "density_x";
       "total_h_x"; "total_o_x"; "cb_x"; "mass_water_aq_x"; "pitzer_model"; "sit_model"; "input_error"].

Definition mix_state (ds : list sdata) : state :=
  mkState (combine gen_add_mix_params [VP true]) zero_this []
          [(("cxxMix", "mixComps"), map (fun d => [(pair_first, VQ (sd_n d # 1)); (pair_second, VQ (sd_frac d))]) ds);
           (("cxxSolution", "master_activity"), []); (("cxxSolution", "species_gamma"), []);
           (totals_key, []); (master_totals, [])].

Definition run_gen_mix (ds : list sdata) : option state :=
  let o := mix_oracles ds in
  let funs : callee := fun f => if String.eqb f "add_solution"
                                then Some (run_fun o no_funs gen_add_solution_params gen_add_solution) else None in
  match exec_list o funs gen_add_mix (mix_state ds) with
  | Some (_, st) => Some st
  | None => None
  end.

Definition qof (v : val) : option Q := match v with VQ q => Some q | _ => None end.

Definition agrees (ds : list sdata) (els : list string) : bool :=
  match run_gen_mix ds with
  | None => false
  | Some st =>
      let m := mix (map (fun d => (sd_frac d, sd_sol d)) ds) in
      let eqv (name : string) (x : Q) := match qof (alookup name (this st)) with Some q => Qeq_bool q x | None => false end in
      eqv "mass_water_aq_x" (x_water m) && eqv "cb_x" (x_cb m) && eqv "total_h_x" (x_th m) && eqv "total_o_x" (x_to m)
      && eqv "tc_x" (x_tc m) && eqv "ph_x" (x_ph m)
      && forallb (fun e => match map_get e (get_map master_totals st) with
                           | Some (VQ q) => Qeq_bool q (x_tot m e)
                           | None => Qeq_bool 0 (x_tot m e)      (* element absent from every solution *)
                           | _ => false
                           end) els
  end.

Definition tot1 (e : string) : Q := if String.eqb e "Ca" then 1 # 100 else if String.eqb e "Cl" then 2 # 100 else 0.
Definition tot2 (e : string) : Q := if String.eqb e "Ca" then 5 # 1000 else if String.eqb e "Na" then 7 # 100 else 0.
Definition sA := mkMsol 1 (1 # 1000) 111 (111 # 2) tot1 25 7.
Definition sB := mkMsol (5 # 2) ((-3) # 1000) 277 (277 # 2) tot2 10 (17 # 2).
Definition sC := mkMsol (1 # 2) 0 55 (55 # 2) tot1 40 6.

Definition samples : list (list sdata) :=
  [ [mkSdata 1 1 sA ["Ca"; "Cl"]];
    [mkSdata 1 (1 # 4) sA ["Ca"; "Cl"]; mkSdata 2 (3 # 4) sB ["Ca"; "Na"]];
    [mkSdata 3 (3 # 2) sB ["Ca"; "Na"]; mkSdata 5 (1 # 10) sC ["Ca"; "Cl"]; mkSdata 9 (2 # 5) sA ["Ca"; "Cl"]] ].

Theorem gen_add_mix_agrees_on_samples : forallb (fun ds => agrees ds ["Ca"; "Cl"; "Na"]) samples = true.
Proof. vm_compute. reflexivity. Qed.
