(* C15: model-versus-code correspondence for the regenerated convert_units: the generated code is
   evaluated (vm_compute) on the constituent lines the generator wrote and its mole totals are
   compared with what the engine reports (TOTMOLE of the initial-solution calculation). *)
From Coq Require Import QArith List String Ascii ZArith Bool.
Require Import IPV.C15.Ir IPV.C15.Convert IPV.C15.Checker.
Import ListNotations.
Open Scope string_scope.
Open Scope Q_scope.

Definition cline (d u a : string) (c g : Q) : record :=
  [(pair_first, VS d);
   (("cxxISolutionComp", "description"), VS d);
   (("cxxISolutionComp", "units"), VS u);
   (("cxxISolutionComp", "as"), VS a);
   (("cxxISolutionComp", "input_conc"), VQ c);
   (("cxxISolutionComp", "gfw"), VQ g)].

(* std::map<std::string, cxxISolutionComp>: key order, a repeated key overwrites *)
Fixpoint rec_insert (r : record) (l : list record) : list record :=
  match l with
  | [] => [r]
  | r' :: rest =>
      match rec_key r, rec_key r' with
      | Some k, Some k' =>
          match String.compare k k' with
          | Datatypes.Eq => r :: rest
          | Datatypes.Lt => r :: r' :: rest
          | Datatypes.Gt => r' :: rec_insert r rest
          end
      | _, _ => r' :: rec_insert r rest
      end
  end.

Definition sol_case (su : string) (w : Q) (comps : list record) : state :=
  sol_state su 7 w 1 (fold_left (fun acc r => rec_insert r acc) comps []).

Fixpoint assoc (k : string) (l : list (string * Q)) : option Q :=
  match l with
  | [] => None
  | (k', v) :: r => if String.eqb k k' then Some v else assoc k r
  end.

(* "S(+6)" and "S(6)" name the same master species *)
Fixpoint drop_plus (s : string) : string :=
  match s with
  | EmptyString => EmptyString
  | String c r => if Ascii.eqb c "+"%char then drop_plus r else String c (drop_plus r)
  end.

Definition table_oracles (gf ms : list (string * Q)) : oracles :=
  mkOracles (fun f => assoc f gf)
            (fun e => match assoc (drop_plus e) ms with Some g => Some (g, 0) | None => None end)
            (fun e => Some e)
            (fun _ => None).

Definition corr_ok (gf ms : list (string * Q)) (st : state) (expected : list (string * Q)) : bool :=
  match run_convert (table_oracles gf ms) st with
  | Some (_, st') =>
      let tots := totals_of st' in
      forallb (fun ev =>
                 match alookup (fst ev) tots with
                 | VQ q => pair_ok 1 q (snd ev)
                 | _ => false
                 end) expected
      && match alookup "input_error" (this st') with VQ q => Qeq_bool q 0 | _ => false end
  | None => false
  end.
