(* C15: what the regenerated Phreeqc::add_solution / add_mix (step.cpp) do.
   - add_solution_scalars: for ALL accumulator values, solution properties and factors, the
     straight-line part of the generated add_solution adds `property * extensive` to the extensive
     accumulators (total H, total O, charge balance, mass of water) and `property * intensive` to
     the intensive ones (temperature, pH, pressure, pe, ionic strength, activity of water, density);
   - add_solution_totals_step: one iteration of its totals loop adds `moles * extensive` to the
     accumulator of the element's primary master species;
   - gen_add_mix_agrees_on_samples: the generated add_mix (calling the generated add_solution)
     evaluated on concrete mixes gives exactly the clean model Mix.mix (closed computation). *)
From Coq Require Import QArith List String ZArith Bool Lqa.
Require Import IPV.C15.Ir IPV.C15.ExecLemmas IPV.C15.Mix IPV.Gen.Gen_C15_engine.
Import ListNotations.
Open Scope string_scope.
Open Scope Q_scope.

Inductive qkind := Ext | Int.

(* SPECIFICATION: which global accumulator receives which property of the solution, and whether the
   property is extensive or intensive *)
Definition as_table : list (string * string * qkind) :=
  [("tc_x", "tc", Int); ("ph_x", "ph", Int); ("patm_x", "patm", Int); ("solution_pe_x", "pe", Int);
   ("mu_x", "mu", Int); ("ah2o_x", "ah2o", Int); ("density_x", "density", Int);
   ("total_h_x", "total_h", Ext); ("total_o_x", "total_o", Ext); ("cb_x", "cb", Ext);
   ("mass_water_aq_x", "mass_water", Ext)].

Definition other_acc : list (string * string) := [("viscos", "viscosity"); ("viscos_0", "viscos_0")].

(* the part of add_solution before its first loop *)
Fixpoint before_for (p : list stmt) : list stmt :=
  match p with
  | [] => []
  | SFor _ _ _ :: _ => []
  | s :: r => s :: before_for r
  end.

Definition as_prefix : list stmt := Eval vm_compute in before_for gen_add_solution.

Definition as_state (acc fieldv : string -> Q) (e i : Q) : state :=
  mkState (combine gen_add_solution_params [VP true; VQ e; VQ i])
          (map (fun t => (fst (fst t), VQ (acc (fst (fst t))))) as_table ++ map (fun t => (fst t, VQ (acc (fst t)))) other_acc)%list
          (map (fun t => (("cxxSolution", snd (fst t)), VQ (fieldv (snd (fst t))))) as_table
             ++ map (fun t => (("cxxSolution", snd t), VQ (fieldv (snd t)))) other_acc)%list
          [].

Definition acc_ok (acc fieldv : string -> Q) (e i : Q) (st' : state) (t : string * string * qkind) : Prop :=
  exists q, alookup (fst (fst t)) (this st') = VQ q /\
            q == acc (fst (fst t)) + fieldv (snd (fst t)) * (match snd t with Ext => e | Int => i end).

Theorem add_solution_scalars : forall (o : oracles) acc fieldv e i,
  exists st', exec_list o no_funs as_prefix (as_state acc fieldv e i) = Some (FNormal, st')
    /\ Forall (acc_ok acc fieldv e i st') as_table.
Proof.
  intros o acc fieldv e i. eexists. split.
  - unfold as_prefix, as_state. cbn [map combine app as_table other_acc fst snd gen_add_solution_params].
    repeat (step ltac:(idtac)).
  - unfold as_table. repeat (apply Forall_cons; [eexists; split; [cbn; reflexivity | cbn; ring]|]). apply Forall_nil.
Qed.

(* the totals loop *)
Fixpoint first_for (k : fkey) (p : list stmt) : list stmt :=
  match p with
  | [] => []
  | SFor t f b :: r => if fkey_eqb k (t, f) then b else first_for k r
  | _ :: r => first_for k r
  end.

Definition as_totals_body : list stmt := Eval vm_compute in first_for totals_key gen_add_solution.

Theorem add_solution_totals_step : forall (o : oracles) el p v e old T,
  primary_of o el = Some p ->
  (map_get p T = Some (VQ old) \/ (map_get p T = None /\ old = 0)) ->
  exists st' q,
    exec_list o no_funs as_totals_body
      (mkState (combine gen_add_solution_params [VP true; VQ e; VQ 0]) [("input_error", VQ 0)]
               [(pair_first, VS el); (pair_second, VQ v)] [(master_totals, T)]) = Some (FNormal, st')
    /\ q == old + v * e
    /\ clookup master_totals (conts st') = Some (map_put p (VQ q) T).
Proof.
  intros o el p v e old T Hp HT.
  destruct HT as [HT|[HT ->]].
  all: do 2 eexists; split;
    [ unfold as_totals_body; repeat (step ltac:(rewrite ?Hp, ?HT)) | split; [|cbn; reflexivity] ].
  all: ring.
Qed.
