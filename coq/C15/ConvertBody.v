(* C15: what one iteration of the constituent loop of the regenerated Phreeqc::convert_units does,
   for every constituent of the per-kg-water family, every formula-weight source, every
   description and every positive amount.  Proved by symbolic execution of the generated code. *)
From Coq Require Import QArith List String Ascii ZArith Bool Lqa Lia.
Require Import IPV.C15.Ir IPV.C15.Units IPV.C15.Convert IPV.C15.ExecLemmas IPV.Gen.Gen_C15_engine.
Import ListNotations.
Open Scope string_scope.
Open Scope Q_scope.

Definition k_desc : fkey := ("cxxISolutionComp", "description").
Definition k_units : fkey := ("cxxISolutionComp", "units").
Definition k_as : fkey := ("cxxISolutionComp", "as").
Definition k_conc : fkey := ("cxxISolutionComp", "input_conc").
Definition k_gfw : fkey := ("cxxISolutionComp", "gfw").
Definition k_sunits : fkey := ("cxxISolution", "units").

(* the constituent in scope *)
Definition CompIn (d u : string) (c : Q) (st : state) : Prop :=
  flookup k_desc (fld st) = Some (VS d) /\
  flookup k_units (fld st) = Some (VS u) /\
  flookup k_conc (fld st) = Some (VQ c).

(* the solution in scope: default units su, totals so far T *)
Definition SolIn (su : string) (T : list record) (st : state) : Prop :=
  flookup k_sunits (fld st) = Some (VS su) /\
  clookup totals_key (conts st) = Some T.

(* premises on the constituent's name: a master species that is not a minor isotope, not the
   pseudo elements H(1) / E that the loop skips *)
Definition good_desc (o : oracles) (d : string) : Prop :=
  str_eqb d "H(1)" = false /\ str_eqb d "E" = false /\
  exists gm, master_of o d = Some (gm, 0).

Lemma strlen_pos f : f <> "" -> Qle_bool (Z.of_nat (String.length f) # 1) 0 = false.
Proof.
  intros H. destruct f as [|c f]; [congruence|].
  destruct (Qle_bool _ 0) eqn:E; [|reflexivity].
  apply Qle_bool_iff in E. unfold Qle in E. simpl in E. lia.
Qed.

Section Body.
Variable o : oracles.

(* ---- stage A: the formula weight ---- *)
Lemma stage_gfw : forall st su T d u c src g,
  CompIn d u c st -> SolIn su T st ->
  flookup k_as (fld st) = Some (VS (src_as_field src)) ->
  flookup k_gfw (fld st) = Some (VQ (src_gfw_field src)) ->
  good_desc o d -> 0 < c ->
  spec_gfw o d src = Some g -> 0 < g ->
  (match src with GAs f => f <> "" | _ => True end) ->
  exists st1, exec_list o no_funs body_gfw st = Some (FNormal, st1)
    /\ CompIn d u c st1 /\ SolIn su (map_put d (VQ 0) T) st1
    /\ flookup k_gfw (fld st1) = Some (VQ g).
Proof.
  intros st su T d u c src g (Hd & Hun & Hcn) (Hsu & HT) Has Hgf (H1 & HE & gm & Hm) Hc Hspec Hg Hne.
  destruct st as [L Th F C]; cbn [loc this fld conts] in *.
  unfold k_desc, k_units, k_as, k_conc, k_gfw, k_sunits, totals_key in *.
  pose proof (Qle_bool_false_of_pos c Hc) as Hc0.
  pose proof (Qle_bool_false_of_pos g Hg) as Hg0.
  unfold CompIn, SolIn, k_desc, k_units, k_as, k_conc, k_gfw, k_sunits, totals_key.
  destruct src as [g0|f|]; simpl in Has, Hgf, Hspec.
  - (* -gfw g0 *)
    injection Hspec as ->.
    eexists. split.
    { unfold body_gfw; cbn [body_split].
      repeat (step ltac:(rewrite ?Hd, ?Hun, ?Hcn, ?Hsu, ?HT, ?Has, ?Hgf, ?H1, ?HE, ?Hm, ?Hc0, ?Hg0,
                          ?clookup_cset_same, ?cset_cset, ?map_put_put)). }
    cbn. rewrite ?Hd, ?Hun, ?Hcn, ?Hsu, ?HT, ?Hgf, ?clookup_cset_same. repeat split; reflexivity.
  - (* as f *)
    destruct (gfw_of o f) as [gf|] eqn:Hgf_of; [|discriminate].
    pose proof (strlen_pos f Hne) as Hlen.
    destruct (str_eqb d "Alkalinity") eqn:Ealk; destruct (str_eqb f "CaCO3") eqn:Eca;
      simpl in Hspec; injection Hspec as <-.
    all: eexists; split;
      [ unfold body_gfw; cbn [body_split];
        repeat (step ltac:(rewrite ?Hd, ?Hun, ?Hcn, ?Hsu, ?HT, ?Has, ?Hgf, ?H1, ?HE, ?Hm, ?Hc0, ?Hlen, ?Hgf_of, ?Ealk, ?Eca,
                            ?clookup_cset_same, ?cset_cset, ?map_put_put))
      | cbn; rewrite ?Hd, ?Hun, ?Hcn, ?Hsu, ?HT, ?Hgf, ?clookup_cset_same; repeat split; reflexivity ].
  - (* default: master species *)
    destruct (master_of o (first_token d)) as [[gd mi]|] eqn:Hmd; [|discriminate].
    injection Hspec as ->.
    eexists. split.
    { unfold body_gfw; cbn [body_split].
      repeat (step ltac:(rewrite ?Hd, ?Hun, ?Hcn, ?Hsu, ?HT, ?Has, ?Hgf, ?H1, ?HE, ?Hm, ?Hc0, ?Hmd,
                          ?clookup_cset_same, ?cset_cset, ?map_put_put)). }
    cbn. rewrite ?Hd, ?Hun, ?Hcn, ?Hsu, ?HT, ?Hgf, ?clookup_cset_same. repeat split; reflexivity.
Qed.

(* ---- stage B: the number ---- *)
Lemma stage_conv : forall st su T d u m g,
  CompIn d (unit_string u) (describe u m g) st -> SolIn su T st ->
  flookup k_gfw (fld st) = Some (VQ g) ->
  strstr_val su "/l" = VP false ->
  0 < g ->
  exists fl st2 q, exec_list o no_funs body_conv st = Some (fl, st2)
    /\ fl <> FReturn /\ q == m /\ SolIn su (map_put d (VQ q) T) st2.
Proof.
  intros st su T d u m g (Hd & Hun & Hcn) (Hsu & HT) Hgf Hl Hg.
  destruct st as [L Th F C]; cbn [loc this fld conts] in *.
  unfold k_desc, k_units, k_as, k_conc, k_gfw, k_sunits, totals_key in *.
  pose proof (Qeq_bool_false_of_pos g Hg) as Hg0.
  assert (Hgn : ~ g == 0) by lra.
  unfold SolIn, k_sunits, totals_key.
  destruct u as [[| |] [| |]]; cbn [unit_string prefix_string kind_string upre ukind append] in Hun;
    unfold describe in Hcn; cbn [upre ukind per_base] in Hcn.
  all: do 3 eexists; split;
    [ unfold body_conv; cbn [body_split];
      repeat (step ltac:(rewrite ?Hd, ?Hun, ?Hcn, ?Hsu, ?HT, ?Hgf, ?Hl, ?Hg0,
                          ?clookup_cset_same, ?cset_cset, ?map_put_put))
    | split; [discriminate|];
      cbn; rewrite ?Hsu, ?clookup_cset_same; split; [|split; reflexivity] ].
  all: try (field; exact Hgn); try field.
Qed.

Lemma describe_pos u m g : 0 < m -> 0 < g -> 0 < describe u m g.
Proof.
  intros Hm Hg. destruct u as [[| |] [| |]]; unfold describe; cbn [upre ukind per_base]; nra.
Qed.

Lemma body_split_ok : comps_body = (body_gfw ++ body_conv)%list.
Proof. vm_compute. reflexivity. Qed.

(* one iteration of the loop for a line that describes m mol/kgw *)
Lemma body_ok : forall st su T l m g,
  SolIn su T st -> strstr_val su "/l" = VP false ->
  good_desc o (l_desc l) ->
  spec_gfw o (l_desc l) (l_src l) = Some g -> 0 < g -> 0 < m ->
  l_conc l = describe (l_unit l) m g ->
  (match l_src l with GAs f => f <> "" | _ => True end) ->
  exists fl st' q, exec_list o no_funs comps_body (bind_record (line_record l) st) = Some (fl, st')
    /\ fl <> FReturn /\ q == m /\ SolIn su (map_put (l_desc l) (VQ q) T) st'.
Proof.
  intros st su T [d u src c] m g HS Hl Hgd Hspec Hg Hm Hc Hne. cbn [l_desc l_unit l_src l_conc] in *.
  subst c.
  assert (HA : exists st1, exec_list o no_funs body_gfw (bind_record (line_record (mkLine d u src (describe u m g))) st) = Some (FNormal, st1)
    /\ CompIn d (unit_string u) (describe u m g) st1 /\ SolIn su (map_put d (VQ 0) T) st1
    /\ flookup k_gfw (fld st1) = Some (VQ g)).
  { destruct HS as [H1 H2].
    apply (stage_gfw (bind_record (line_record (mkLine d u src (describe u m g))) st) su T d (unit_string u) (describe u m g) src g).
    - repeat split; reflexivity.
    - split; [|exact H2]. unfold bind_record, line_record, comp_record; cbn. exact H1.
    - reflexivity.
    - reflexivity.
    - exact Hgd.
    - apply describe_pos; assumption.
    - exact Hspec.
    - exact Hg.
    - exact Hne. }
  destruct HA as (st1 & HA & HC1 & HS1 & Hg1).
  destruct (stage_conv st1 su _ d u m g HC1 HS1 Hg1 Hl Hg) as (fl & st2 & q & HB & Hfl & Hq & HS2).
  exists fl, st2, q. split; [|split; [exact Hfl|split; [exact Hq|]]].
  - rewrite body_split_ok, xl_app, HA. exact HB.
  - rewrite map_put_put in HS2. exact HS2.
Qed.

(* two descriptions of the same amount in different units store equal totals *)
Lemma unit_change_gen : forall st su T d src m g u1 u2,
  SolIn su T st -> strstr_val su "/l" = VP false ->
  good_desc o d -> spec_gfw o d src = Some g -> 0 < g -> 0 < m ->
  (match src with GAs f => f <> "" | _ => True end) ->
  exists fl1 st1 q1 fl2 st2 q2,
    exec_list o no_funs comps_body (bind_record (line_record (mkLine d u1 src (describe u1 m g))) st) = Some (fl1, st1) /\
    exec_list o no_funs comps_body (bind_record (line_record (mkLine d u2 src (describe u2 m g))) st) = Some (fl2, st2) /\
    fl1 <> FReturn /\ fl2 <> FReturn /\ q1 == q2 /\
    SolIn su (map_put d (VQ q1) T) st1 /\ SolIn su (map_put d (VQ q2) T) st2.
Proof.
  intros st su T d src m g u1 u2 HS Hl Hgd Hspec Hg Hm Hne.
  destruct (body_ok st su T (mkLine d u1 src (describe u1 m g)) m g HS Hl Hgd Hspec Hg Hm eq_refl Hne)
    as (fl1 & st1 & q1 & H1 & F1 & E1 & S1).
  destruct (body_ok st su T (mkLine d u2 src (describe u2 m g)) m g HS Hl Hgd Hspec Hg Hm eq_refl Hne)
    as (fl2 & st2 & q2 & H2 & F2 & E2 & S2).
  exists fl1, st1, q1, fl2, st2, q2.
  split; [exact H1|]. split; [exact H2|]. split; [exact F1|]. split; [exact F2|].
  split; [rewrite E1, E2; reflexivity|]. split; [exact S1|exact S2].
Qed.

End Body.
