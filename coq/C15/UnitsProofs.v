(* C15: theorems about the clean model of the unit conversion (Units.v) and its agreement with the
   regenerated convert_units on concrete solutions. *)
From Coq Require Import QArith List String ZArith Bool Lqa.
Require Import IPV.C15.Ir IPV.C15.Units.
Import ListNotations.
Open Scope string_scope.
Open Scope Q_scope.

Lemma per_base_nz p : ~ per_base p == 0.
Proof. destruct p; unfold per_base; lra. Qed.

(* the clean model inverts the specification of every unit *)
Theorem describe_inverse : forall o d u src m g,
  spec_gfw o d src = Some g -> ~ g == 0 ->
  exists q, line_molality o (mkLine d u src (describe u m g)) = Some q /\ q == m.
Proof.
  intros o d u src m g Hs Hg. unfold line_molality; simpl. rewrite Hs.
  eexists; split; [reflexivity|].
  pose proof (per_base_nz (upre u)) as Hp.
  unfold describe. destruct (ukind u); field; auto.
Qed.

(* two descriptions of the same amount in any two per-kgw units are the same amount *)
Theorem unit_change_same_molality : forall o d src m g u1 u2,
  spec_gfw o d src = Some g -> ~ g == 0 ->
  exists q1 q2, line_molality o (mkLine d u1 src (describe u1 m g)) = Some q1 /\
                line_molality o (mkLine d u2 src (describe u2 m g)) = Some q2 /\ q1 == q2.
Proof.
  intros o d src m g u1 u2 Hs Hg.
  destruct (describe_inverse o d u1 src m g Hs Hg) as (q1 & H1 & E1).
  destruct (describe_inverse o d u2 src m g Hs Hg) as (q2 & H2 & E2).
  exists q1, q2. repeat split; auto. rewrite E1, E2; reflexivity.
Qed.

Lemma nd_scale_scale k w l : nd_equiv (nd_scale (k * w) l) (nd_scale k (nd_scale w l)).
Proof.
  unfold nd_equiv, nd_scale. induction l as [|[a v] l IH]; simpl; constructor; auto.
  simpl; split; [reflexivity|ring].
Qed.

(* WATER SCALING: k times the water gives k times every mole total; totals per kg water unchanged *)
Theorem water_scaling_model : forall o k w ls t,
  convert_model o w ls = Some t ->
  exists t', convert_model o (k * w) ls = Some t' /\ nd_equiv t' (nd_scale k t).
Proof.
  intros o k w ls t H. unfold convert_model in *.
  destruct (lines_molalities o ls) as [ms|]; [|discriminate].
  injection H as <-. eexists; split; [reflexivity|]. apply nd_scale_scale.
Qed.
