(* C01 — soundness of the executable checkers of C01/Checker.v with respect to C01/Spec.v:
   an accepted report satisfies the property's relations in exact real arithmetic. *)
From Coq Require Import Reals ZArith QArith Qreals Qabs List Lra Bool PArith FMapPositive.
From Interval Require Import Xreal Interval.
From IPV Require Import Base.RExpr Base.IntervalEval C01.Spec C01.Rewrite C01.Checker.
Import ListNotations.
Local Open Scope R_scope.

Definition toR (k : kvec) : kvecR :=
  mkKR (Q2R (k0 k)) (Q2R (kh k)) (Q2R (k1 k)) (Q2R (k2 k)) (Q2R (k3 k)) (Q2R (k4 k)) (Q2R (k5 k)) (Q2R (k6 k)).
Definition toRR (x : Q * Q) : R * R := (Q2R (fst x), Q2R (snd x)).

Lemma Q2R_0' : Q2R 0 = 0. Proof. apply RMicromega.Q2R_0. Qed.
Lemma Q2R_1' : Q2R 1 = 1. Proof. apply RMicromega.Q2R_1. Qed.

(* ---- intervals computed by evalI always contain the TOTAL real value (when they are not NaI this is evalI_sound;
        when the partial value is undefined the interval is NaI and contains everything) *)
Lemma contains_evalR : forall p ienv env e, env_contained ienv env ->
  contains (I.convert (evalI p ienv e)) (Xreal (evalR env e)).
Proof.
  intros p ienv env e H. pose proof (evalI_sound_X p ienv env e H) as C.
  destruct (evalX env e) as [|r] eqn:E.
  - destruct (I.convert (evalI p ienv e)); [exact Logic.I|destruct C].
  - apply evalX_real in E. rewrite E. exact C.
Qed.

Definition vhc (T : R) : R := - ((1 / T - 1 / (29815 / 100)) / (ln 10 * (83147 / 10000000))).
Definition tenv (T : Q) : nat -> R := env_of [Q2R T; vhc (Q2R T); log10 (Q2R T)].

Lemma env1_contained : forall T, env_contained [I_of_Q P T] (env_of [Q2R T]).
Proof.
  intros T n. unfold ilookup, env_of. destruct n as [|n]; cbn [nth]; [apply I_of_Q_correct|].
  destruct n; cbn [nth]; rewrite I.nai_correct; exact Logic.I.
Qed.

Lemma vhc_expr_spec : forall T, evalR (env_of [Q2R T]) vhc_expr = vhc (Q2R T).
Proof.
  intros T. unfold vhc_expr, vhc. cbv [evalR env_of nth]. rewrite Q2R_1'.
  replace (Q2R (29815 # 100)) with (29815 / 100) by (rewrite Q2R_make; reflexivity).
  replace (Q2R (83147 # 10000000)) with (83147 / 10000000) by (rewrite Q2R_make; reflexivity).
  replace (Q2R 10) with 10 by (unfold Q2R; simpl; lra). reflexivity.
Qed.
Lemma l10_expr_spec : forall T, evalR (env_of [Q2R T]) l10_expr = log10 (Q2R T).
Proof. intros. reflexivity. Qed.

Lemma tterms_contained : forall T, env_contained (tterms T) (tenv T).
Proof.
  intros T n. unfold tterms, tenv, ilookup, env_of.
  destruct n as [|[|[|n]]]; cbn [nth].
  - apply I_of_Q_correct.
  - rewrite <- vhc_expr_spec. apply contains_evalR, env1_contained.
  - rewrite <- l10_expr_spec. apply contains_evalR, env1_contained.
  - destruct n; cbn [nth]; rewrite I.nai_correct; exact Logic.I.
Qed.

Lemma kexpr_spec : forall k T, evalR (tenv T) (kexpr k) = logK_T (toR k) (Q2R T).
Proof.
  intros [a0 ah a1 a2 a3 a4 a5 a6] T. unfold kexpr, tenv, toR, logK_T, vant_hoff, analytic, vhc, R_gas, T_ref.
  cbn [k0 kh k1 k2 k3 k4 k5 k6 kr0 krh kr1 kr2 kr3 kr4 kr5 kr6]. cbv [evalR env_of nth].
  unfold Rdiv. ring.
Qed.

Lemma tol_log_val : Q2R tol_log = / 1000000000.
Proof. unfold tol_log, Q2R; simpl. lra. Qed.
Lemma tol_rel_val : Q2R tol_rel = / 10000000.
Proof. unfold tol_rel, Q2R; simpl. lra. Qed.

Theorem check_lin_sound : forall T lin k, check_lin (tterms T) lin k = true ->
  Rabs (Q2R lin - logK_T (toR k) (Q2R T)) <= / 1000000000.
Proof.
  intros T lin k H. unfold check_lin in H.
  apply (check_eq_within_sound _ _ (tenv T)) in H; [|apply tterms_contained].
  rewrite kexpr_spec, tol_log_val in H. exact H.
Qed.

(* ---- exact rational sums are the real sums *)
Lemma Q2R_Qabs : forall q, Q2R (Qabs q) = Rabs (Q2R q).
Proof.
  intros q. apply Qabs_case; intros H; apply Qle_Rle in H; rewrite Q2R_0' in H.
  - rewrite Rabs_pos_eq; [reflexivity|exact H].
  - rewrite Q2R_opp, Rabs_left1; [reflexivity|exact H].
Qed.
Lemma Q2R_dotQ : forall l, Q2R (dotQ l) = dot (map toRR l).
Proof. induction l as [|x l IH]; simpl; [apply Q2R_0'|]. rewrite Q2R_plus, Q2R_mult, IH. reflexivity. Qed.
Lemma Q2R_dot_absQ : forall l, Q2R (dot_absQ l) = dot_abs (map toRR l).
Proof.
  induction l as [|x l IH]; [apply Q2R_0'|]. unfold dot_absQ, dot_abs in *. cbn [fold_right map].
  rewrite Q2R_plus, Q2R_Qabs, Q2R_mult, IH. reflexivity.
Qed.

Theorem check_balance_sound : forall terms reported, check_balance terms reported = true ->
  balance_holds (map toRR terms) (Q2R reported) (/ 10000000).
Proof.
  intros terms rep H. unfold check_balance in H. apply Qle_bool_iff, Qle_Rle in H.
  rewrite Q2R_Qabs, Q2R_minus, Q2R_mult, Q2R_dotQ, Q2R_dot_absQ, tol_rel_val in H. exact H.
Qed.

Theorem check_close_sound : forall a b tol, check_close a b tol = true -> Rabs (Q2R a - Q2R b) <= Q2R tol.
Proof.
  intros a b tol H. unfold check_close in H. apply Qle_bool_iff, Qle_Rle in H.
  rewrite Q2R_Qabs, Q2R_minus in H. exact H.
Qed.

Definition pow10 (y : R) : R := exp (y * ln 10).
Theorem check_pow10_sound : forall x lx, check_pow10 x lx = true ->
  Rabs (Q2R x - pow10 (Q2R lx)) <= / 10000000 * Rabs (pow10 (Q2R lx)).
Proof.
  intros x lx H. unfold check_pow10 in H. apply check_rel_within_Q_sound in H.
  cbv [evalR env_of_Q nth pow10_expr] in H. rewrite tol_rel_val in H.
  replace (Q2R 10) with 10 in H by (unfold Q2R; simpl; lra). exact H.
Qed.

(* ---- the selection rule and the named expressions, semantically *)
Lemma toR_kaddQ_kscaleQ : forall c a b, toR (kaddQ (kscaleQ c a) b) = kadd (kscale (Q2R c) (toR a)) (toR b).
Proof.
  intros c a b. unfold toR, kaddQ, kscaleQ, kadd, kscale. cbn [k0 kh k1 k2 k3 k4 k5 k6 kr0 krh kr1 kr2 kr3 kr4 kr5 kr6].
  rewrite !Q2R_plus, !Q2R_mult. reflexivity.
Qed.

(* value of a list of named-expression references *)
Fixpoint adds_value (get : positive -> option kvec) (adds : list (Q * positive)) (T : R) : R :=
  match adds with
  | [] => 0
  | (c, n) :: r => match get n with Some kn => Q2R c * logK_T (toR kn) T | None => 0 end + adds_value get r T
  end.

Theorem add_named_linear : forall get adds acc k T, add_named get acc adds = Some k ->
  logK_T (toR k) T = logK_T (toR acc) T + adds_value get adds T.
Proof.
  intros get adds. induction adds as [|[c n] r IH]; intros acc k T H; simpl in H.
  - inversion H. simpl. lra.
  - simpl. destruct (get n) as [kn|]; [|discriminate].
    rewrite (IH _ _ T H), toR_kaddQ_kscaleQ, logK_T_linear. lra.
Qed.

Theorem select_spec : forall k T,
  logK_T (toR (select k)) T =
  if is_analytic k then analytic (Q2R (k1 k)) (Q2R (k2 k)) (Q2R (k3 k)) (Q2R (k4 k)) (Q2R (k5 k)) (Q2R (k6 k)) T
  else vant_hoff (Q2R (k0 k)) (Q2R (kh k)) T.
Proof.
  intros k T. unfold select. destruct (is_analytic k); unfold logK_T, toR, vant_hoff, analytic, log10;
    cbn [k0 kh k1 k2 k3 k4 k5 k6 kr0 krh kr1 kr2 kr3 kr4 kr5 kr6]; rewrite ?Q2R_0'; unfold Rdiv; ring.
Qed.

(* log K(T) the database text prescribes for an entry with parameters k and named-expression references adds *)
Theorem combined_spec : forall nd k adds kk T, combined nd k adds = Some kk ->
  logK_T (toR kk) T = logK_T (toR (select k)) T + adds_value (named_k nd 16) adds T.
Proof. intros nd k adds kk T H. apply add_named_linear. exact H. Qed.

(* ---- mass action over a whole database *)
Lemma lookup_terms_spec : forall la eq terms, lookup_terms la eq = Some terms ->
  Forall2 (fun e t => fst t = fst e /\ PositiveMap.find (snd e) la = Some (snd t)) eq terms.
Proof.
  intros la. induction eq as [|[c j] r IH]; intros terms H; simpl in H.
  - inversion H. constructor.
  - destruct (PositiveMap.find j la) as [x|] eqn:Ej; [|discriminate].
    destruct (lookup_terms la r) as [t|]; [|discriminate]. inversion H; subst terms.
    constructor; [split; [reflexivity|exact Ej]|apply IH; reflexivity].
Qed.

Theorem check_one_sound : forall nd T la extra sp, check_one nd (tterms T) la extra sp = Some true ->
  exists terms k, lookup_terms la (sp_eq sp) = Some terms /\ combined nd (sp_k sp) (sp_add sp) = Some k /\
    Rabs (dot (map toRR terms) - Q2R extra - logK_T (toR k) (Q2R T)) <= / 1000000000.
Proof.
  intros nd T la extra sp H. unfold check_one in H.
  destruct (lookup_terms la (sp_eq sp)) as [terms|]; [|discriminate].
  destruct (combined nd (sp_k sp) (sp_add sp)) as [k|]; [|discriminate].
  exists terms, k. repeat split. inversion H as [H1]. apply check_lin_sound in H1.
  rewrite Q2R_minus, Q2R_dotQ in H1. exact H1.
Qed.

(* The verified checker over the database: no failure reported  ==>  every non-exempt species whose reaction
   partners are all present obeys its DATABASE-form mass-action equation with the log K(T) of the database text. *)
Theorem ma_failures_sound : forall nd T la exempt sps, ma_failures nd (tterms T) la exempt sps = [] ->
  forall sp, In sp sps -> mem exempt (sp_id sp) = false ->
  forall terms, lookup_terms la (sp_eq sp) = Some terms ->
  exists k, combined nd (sp_k sp) (sp_add sp) = Some k /\
            mass_action_holds (map toRR terms) (toR k) (Q2R T) (/ 1000000000).
Proof.
  intros nd T la exempt sps. induction sps as [|s r IH]; intros H sp Hin Hex terms Hl; [destruct Hin|].
  simpl in H. destruct Hin as [E|Hin].
  - subst s. rewrite Hex in H.
    destruct (check_one nd (tterms T) la 0 sp) as [[|]|] eqn:C.
    + apply check_one_sound in C. destruct C as [t' [k [L [K B]]]]. rewrite Hl in L. inversion L; subst t'.
      exists k. split; [exact K|]. unfold mass_action_holds. rewrite Q2R_0' in B.
      replace (dot (map toRR terms) - logK_T (toR k) (Q2R T)) with (dot (map toRR terms) - 0 - logK_T (toR k) (Q2R T)) by lra.
      exact B.
    + discriminate.
    + unfold check_one in C. rewrite Hl in C. destruct (combined nd (sp_k sp) (sp_add sp)); discriminate.
  - apply IH; try assumption.
    destruct (mem exempt (sp_id s)); [exact H|].
    destruct (check_one nd (tterms T) la 0 s) as [[|]|]; [exact H|discriminate|exact H].
Qed.

(* saturation indices: SI reported = sum nu*la - log K(T) for every phase whose species are all present *)
Theorem si_failures_sound : forall nd T la obs, si_failures nd (tterms T) la obs = [] ->
  forall ph si, In (ph, si) obs -> forall terms, lookup_terms la (sp_eq ph) = Some terms ->
  exists k, combined nd (sp_k ph) (sp_add ph) = Some k /\
            Rabs (Q2R si - (dot (map toRR terms) - logK_T (toR k) (Q2R T))) <= / 1000000000.
Proof.
  intros nd T la obs. induction obs as [|[p s] r IH]; intros H ph si Hin terms Hl; [destruct Hin|].
  simpl in H. destruct Hin as [E|Hin].
  - inversion E; subst p s.
    destruct (check_one nd (tterms T) la si ph) as [[|]|] eqn:C.
    + apply check_one_sound in C. destruct C as [t' [k [L [K B]]]]. rewrite Hl in L. inversion L; subst t'.
      exists k. split; [exact K|]. rewrite Rabs_minus_sym.
      replace (dot (map toRR terms) - logK_T (toR k) (Q2R T) - Q2R si) with (dot (map toRR terms) - Q2R si - logK_T (toR k) (Q2R T)) by lra.
      exact B.
    + discriminate.
    + unfold check_one in C. rewrite Hl in C. destruct (combined nd (sp_k ph) (sp_add ph)); discriminate.
  - apply (IH) with (ph := ph) (si := si); try assumption.
    destruct (check_one nd (tterms T) la s p) as [[|]|]; [exact H|discriminate|exact H].
Qed.

Theorem balance_failures_sound : forall l, balance_failures l = [] ->
  forall id terms rep, In (id, terms, rep) l -> balance_holds (map toRR terms) (Q2R rep) (/ 10000000).
Proof.
  induction l as [|[[i t] r] l IH]; intros H id terms rep Hin; [destruct Hin|].
  simpl in H. destruct (check_balance t r) eqn:C; [|discriminate].
  destruct Hin as [E|Hin]; [inversion E; subst; apply check_balance_sound; exact C|eapply IH; eauto].
Qed.

Theorem readout_failures_sound : forall l, readout_failures l = [] ->
  forall id la lm lg mol act, In (id, (la, lm, lg, mol, act)) l ->
  Rabs (Q2R la - (Q2R lm + Q2R lg)) <= / 1000000000 /\
  (-40 <= Q2R lm -> Rabs (Q2R mol - pow10 (Q2R lm)) <= / 10000000 * Rabs (pow10 (Q2R lm))) /\
  (-300 <= Q2R la -> Rabs (Q2R act - pow10 (Q2R la)) <= / 10000000 * Rabs (pow10 (Q2R la))).
Proof.
  induction l as [|[i x] l IH]; intros H id la lm lg mol act Hin; [destruct Hin|].
  simpl in H. destruct (readout_ok x) eqn:C; [|discriminate].
  destruct Hin as [E|Hin]; [|eapply IH; eauto].
  inversion E; subst i x. unfold readout_ok in C.
  apply andb_prop in C. destruct C as [C C3]. apply andb_prop in C. destruct C as [C1 C2].
  repeat split.
  - apply check_close_sound in C1. rewrite Q2R_plus, tol_log_val in C1. exact C1.
  - intros Hlm. destruct (Qle_bool (- (40 # 1)) lm) eqn:Q.
    + apply check_pow10_sound. exact C2.
    + exfalso. assert (Qle_bool (- (40 # 1)) lm = true); [|congruence].
      apply Qle_bool_iff. apply Rle_Qle. rewrite Q2R_opp. replace (Q2R (40 # 1)) with 40 by (unfold Q2R; simpl; lra). exact Hlm.
  - intros Hla. destruct (Qle_bool (- (300 # 1)) la) eqn:Q.
    + apply check_pow10_sound. exact C3.
    + exfalso. assert (Qle_bool (- (300 # 1)) la = true); [|congruence].
      apply Qle_bool_iff. apply Rle_Qle. rewrite Q2R_opp. replace (Q2R (300 # 1)) with 300 by (unfold Q2R; simpl; lra). exact Hla.
Qed.

Theorem close_failures_sound : forall l, close_failures l = [] ->
  forall id a b, In (id, a, b) l -> Rabs (Q2R a - Q2R b) <= / 1000000000.
Proof.
  induction l as [|[[i x] y] l IH]; intros H id a b Hin; [destruct Hin|].
  simpl in H. destruct (check_close x y tol_log) eqn:C; [|discriminate].
  destruct Hin as [E|Hin]; [|eapply IH; eauto].
  inversion E; subst. apply check_close_sound in C. rewrite tol_log_val in C. exact C.
Qed.
