(* C01 — executable model of the rewriting of database reactions to master species
   (tidy.cpp: rewrite_eqn_to_secondary / rewrite_eqn_to_primary with trxn_add; prep.cpp: write_mass_action_eqn_x,
   rewrite_master_to_secondary): every non-master species in a reaction is replaced by its own defining reaction,
   coefficient-wise, and the log K vectors are added with the same coefficients.

   A database is a finite map  species id -> defining reaction  "la_s = K_s + sum_j c_j la_j"  (association
   reaction of the database text solved for the defined species).  The constant of a rewritten reaction is kept
   SYMBOLICALLY as a linear combination of the database constants K_j, so that the theorems hold for every
   assignment of constants (hence for K_j(T) at every temperature, k_calc being linear in the log K vector:
   theorem kcalc_linear of KCalcProofs.v). *)
From Coq Require Import Reals QArith Qreals List Lra PArith FMapPositive Bool.
Import ListNotations.
Local Open Scope R_scope.

Definition sid := positive.
Definition lin := list (Q * sid).                 (* sum_j c_j * x_j *)

Record form : Type := mkForm { f_act : lin; f_k : lin }.   (* sum c*la_master  +  sum d*K_species *)

Definition lscale (c : Q) (l : lin) : lin := map (fun x => (Qmult c (fst x), snd x)) l.
Definition fzero : form := mkForm [] [].
Definition fvar (s : sid) : form := mkForm [(1%Q, s)] [].
Definition fadd (a b : form) : form := mkForm (f_act a ++ f_act b) (f_k a ++ f_k b).
Definition fscale (c : Q) (a : form) : form := mkForm (lscale c (f_act a)) (lscale c (f_k a)).
Definition fconst (s : sid) (a : form) : form := mkForm (f_act a) ((1%Q, s) :: f_k a).

Section Rewrite.
  Variable is_stop : sid -> bool.                 (* master species at which rewriting stops *)
  Variable rxn : sid -> option lin.               (* defining reaction of the other species *)

  Fixpoint rw_list (rw : sid -> option form) (r : lin) : option form :=
    match r with
    | [] => Some fzero
    | (c, j) :: r' =>
        match rw j, rw_list rw r' with
        | Some fj, Some fr => Some (fadd (fscale c fj) fr)
        | _, _ => None
        end
    end.

  (* fuel bounds the substitution depth; None = out of fuel or undefined species (excluded in the theorems) *)
  Fixpoint rewrite (fuel : nat) (s : sid) : option form :=
    if is_stop s then Some (fvar s) else
    match fuel with
    | O => None
    | S n =>
        match rxn s with
        | None => None
        | Some r => match rw_list (rewrite n) r with Some f => Some (fconst s f) | None => None end
        end
    end.

  (* ---- meaning *)
  Definition evalL (l : lin) (v : sid -> R) : R := fold_right (fun x acc => Q2R (fst x) * v (snd x) + acc) 0 l.
  Definition evalF (f : form) (la K : sid -> R) : R := evalL (f_act f) la + evalL (f_k f) K.

  Lemma evalL_app : forall a b v, evalL (a ++ b) v = evalL a v + evalL b v.
  Proof. induction a as [|x a IH]; intros; simpl; [lra|]. rewrite IH. lra. Qed.
  Lemma evalL_scale : forall c a v, evalL (lscale c a) v = Q2R c * evalL a v.
  Proof. induction a as [|x a IH]; intros; simpl; [lra|]. rewrite IH, Q2R_mult. lra. Qed.
  Lemma evalF_add : forall a b la K, evalF (fadd a b) la K = evalF a la K + evalF b la K.
  Proof. intros. unfold evalF, fadd; simpl. rewrite !evalL_app. lra. Qed.
  Lemma evalF_scale : forall c a la K, evalF (fscale c a) la K = Q2R c * evalF a la K.
  Proof. intros. unfold evalF, fscale; simpl. rewrite !evalL_scale. lra. Qed.
  Lemma evalF_var : forall s la K, evalF (fvar s) la K = la s.
  Proof. intros. unfold evalF, fvar; simpl. rewrite RMicromega.Q2R_1. lra. Qed.
  Lemma evalF_const : forall s a la K, evalF (fconst s a) la K = K s + evalF a la K.
  Proof. intros. unfold evalF, fconst; simpl. rewrite RMicromega.Q2R_1. lra. Qed.
  Lemma evalF_zero : forall la K, evalF fzero la K = 0.
  Proof. intros. unfold evalF; simpl. lra. Qed.

  (* ---- more fuel never changes a result *)
  Lemma rw_list_mono : forall (rw1 rw2 : sid -> option form),
    (forall s f, rw1 s = Some f -> rw2 s = Some f) ->
    forall r f, rw_list rw1 r = Some f -> rw_list rw2 r = Some f.
  Proof.
    intros rw1 rw2 H. induction r as [|[c j] r IH]; intros f E; simpl in *; [exact E|].
    destruct (rw1 j) as [fj|] eqn:Ej; [|discriminate].
    destruct (rw_list rw1 r) as [fr|] eqn:Er; [|discriminate].
    rewrite (H _ _ Ej), (IH _ eq_refl). exact E.
  Qed.

  Lemma rewrite_mono : forall n s f, rewrite n s = Some f -> rewrite (S n) s = Some f.
  Proof.
    induction n as [|n IH]; intros s f E.
    - simpl in *. destruct (is_stop s); [exact E|discriminate].
    - change (rewrite (S (S n)) s) with
        (if is_stop s then Some (fvar s) else
           match rxn s with None => None
           | Some r => match rw_list (rewrite (S n)) r with Some f => Some (fconst s f) | None => None end end).
      change (rewrite (S n) s) with
        (if is_stop s then Some (fvar s) else
           match rxn s with None => None
           | Some r => match rw_list (rewrite n) r with Some f => Some (fconst s f) | None => None end end) in E.
      destruct (is_stop s); [exact E|].
      destruct (rxn s) as [r|]; [|discriminate].
      destruct (rw_list (rewrite n) r) as [g|] eqn:Eg; [|discriminate].
      rewrite (rw_list_mono _ _ IH _ _ Eg). exact E.
  Qed.

  Lemma rewrite_mono_le : forall n m s f, (n <= m)%nat -> rewrite n s = Some f -> rewrite m s = Some f.
  Proof. intros n m s f H. induction H; intros E; [exact E|]. apply rewrite_mono. auto. Qed.

  (* the value of a rewritten list when every member's rewritten form is known to evaluate to its activity *)
  Lemma rw_list_eval : forall (rw : sid -> option form) la K,
    (forall j fj, rw j = Some fj -> la j = evalF fj la K) ->
    forall r f, rw_list rw r = Some f -> evalF f la K = evalL r la.
  Proof.
    intros rw la K H. induction r as [|[c j] r IH]; intros f E; simpl in *.
    - inversion E. apply evalF_zero.
    - destruct (rw j) as [fj|] eqn:Ej; [|discriminate].
      destruct (rw_list rw r) as [fr|] eqn:Er; [|discriminate].
      inversion E; subst f. rewrite evalF_add, evalF_scale, (IH _ eq_refl), <- (H _ _ Ej). reflexivity.
  Qed.

  (* database form of the mass-action law for the non-master species, master form for all *)
  Definition db_form (la K : sid -> R) : Prop :=
    forall s r, is_stop s = false -> rxn s = Some r -> la s = K s + evalL r la.
  Definition master_form (fuel : nat) (la K : sid -> R) : Prop :=
    forall s f, rewrite fuel s = Some f -> la s = evalF f la K.

  (* (a) rewriting is sound: what holds in database form holds in master form (any depth) *)
  Theorem rewrite_sound : forall la K, db_form la K -> forall fuel, master_form fuel la K.
  Proof.
    intros la K D. induction fuel as [|n IH]; intros s f E; simpl in E.
    - destruct (is_stop s); [|discriminate]. inversion E. rewrite evalF_var. reflexivity.
    - destruct (is_stop s) eqn:Es.
      + inversion E. rewrite evalF_var. reflexivity.
      + destruct (rxn s) as [r|] eqn:Er; [|discriminate].
        destruct (rw_list (rewrite n) r) as [g|] eqn:Eg; [|discriminate].
        inversion E; subst f. rewrite evalF_const.
        rewrite (rw_list_eval (rewrite n) la K IH r g Eg). apply D; assumption.
  Qed.

  (* (b) the direction the property needs: if every species obeys its MASTER-form equation with the combined
     constant (that is what Phreeqc::molalities computes from rxn_x), then every database reaction holds with its own
     constant.  Any database size, any substitution depth; premise: the species is rewritable within the fuel. *)
  Theorem rewrite_preserves_equilibrium : forall fuel la K,
    master_form fuel la K ->
    forall s r f, is_stop s = false -> rxn s = Some r -> rewrite fuel s = Some f ->
    la s = K s + evalL r la.
  Proof.
    intros fuel la K M s r f Es Er E.
    rewrite (M s f E).
    destruct fuel as [|n]; simpl in E; rewrite Es in E; [discriminate|].
    rewrite Er in E. destruct (rw_list (rewrite n) r) as [g|] eqn:Eg; [|discriminate].
    inversion E; subst f. rewrite evalF_const. f_equal.
    apply (rw_list_eval (rewrite n) la K); [|exact Eg].
    intros j fj Ej. apply M. apply rewrite_mono. exact Ej.
  Qed.

  (* (c) conserved quantities (charge, every element): if each database reaction balances the weight w, the
     rewritten reaction balances it too (K := 0 in (a)) *)
  Theorem rewrite_preserves_elements_and_charge : forall (w : sid -> R),
    (forall s r, is_stop s = false -> rxn s = Some r -> w s = evalL r w) ->
    forall fuel s f, rewrite fuel s = Some f -> w s = evalL (f_act f) w.
  Proof.
    intros w B fuel s f E.
    assert (D : db_form w (fun _ => 0)) by (intros s' r' Hs Hr; rewrite (B s' r' Hs Hr); lra).
    pose proof (rewrite_sound w (fun _ => 0) D fuel s f E) as H. unfold evalF in H.
    assert (Z : forall l, evalL l (fun _ : sid => 0) = 0) by (induction l as [|x l IHl]; simpl; [reflexivity|rewrite IHl; lra]).
    rewrite Z in H. lra.
  Qed.

  (* only master species occur in a rewritten reaction *)
  Lemma rw_list_stop : forall (rw : sid -> option form),
    (forall j fj, rw j = Some fj -> forall x, In x (f_act fj) -> is_stop (snd x) = true) ->
    forall r f, rw_list rw r = Some f -> forall x, In x (f_act f) -> is_stop (snd x) = true.
  Proof.
    intros rw H. induction r as [|[c j] r IH]; intros f E x Hx; simpl in *.
    - inversion E; subst f. destruct Hx.
    - destruct (rw j) as [fj|] eqn:Ej; [|discriminate].
      destruct (rw_list rw r) as [fr|] eqn:Er; [|discriminate].
      inversion E; subst f. simpl in Hx. apply in_app_or in Hx. destruct Hx as [Hx|Hx].
      + unfold lscale in Hx. apply in_map_iff in Hx. destruct Hx as [y [Ey Hy]]. subst x. simpl. eapply H; eauto.
      + eapply IH; eauto.
  Qed.

  Theorem rewrite_only_masters : forall fuel s f, rewrite fuel s = Some f ->
    forall x, In x (f_act f) -> is_stop (snd x) = true.
  Proof.
    induction fuel as [|n IH]; intros s f E x Hx; simpl in E.
    - destruct (is_stop s) eqn:Es; [|discriminate]. inversion E; subst f. simpl in Hx. destruct Hx as [Hx|[]]. subst x. exact Es.
    - destruct (is_stop s) eqn:Es.
      + inversion E; subst f. simpl in Hx. destruct Hx as [Hx|[]]. subst x. exact Es.
      + destruct (rxn s) as [r|]; [|discriminate].
        destruct (rw_list (rewrite n) r) as [g|] eqn:Eg; [|discriminate].
        inversion E; subst f. simpl in Hx. eapply rw_list_stop; eauto.
  Qed.
End Rewrite.

(* ---- executable instance on a finite database *)
Definition dbmap := PositiveMap.t lin.
Definition rxn_of (m : dbmap) : sid -> option lin := fun s => PositiveMap.find s m.
Definition stop_of (l : list sid) : sid -> bool :=
  let m := fold_left (fun acc s => PositiveMap.add s tt acc) l (PositiveMap.empty unit) in
  fun s => match PositiveMap.find s m with Some _ => true | None => false end.
Definition db_of_list (l : list (sid * lin)) : dbmap :=
  fold_left (fun acc x => PositiveMap.add (fst x) (snd x) acc) l (PositiveMap.empty lin).

(* coefficient of species j in a linear form (duplicates merged) *)
Definition coef_of (l : lin) (j : sid) : Q :=
  fold_right (fun x acc => if Pos.eqb (snd x) j then Qplus (fst x) acc else acc) 0%Q l.

(* non-vacuity: CO3-2 (1) and H+ (2) masters; HCO3- (3) = CO3-2 + H+; CO2 (4) = HCO3- + H+ - H2O(5, master) *)
Example rewrite_example :
  let db := db_of_list [(3%positive, [(1%Q, 1%positive); (1%Q, 2%positive)]);
                        (4%positive, [(1%Q, 3%positive); (1%Q, 2%positive); ((-1)%Q, 5%positive)])] in
  match rewrite (stop_of [1; 2; 5]%positive) (rxn_of db) 5 4%positive with
  | Some f => Qeq (coef_of (f_act f) 1%positive) 1%Q /\ Qeq (coef_of (f_act f) 2%positive) 2%Q /\
              Qeq (coef_of (f_act f) 5%positive) (-1)%Q /\
              Qeq (coef_of (f_k f) 3%positive) 1%Q /\ Qeq (coef_of (f_k f) 4%positive) 1%Q
  | None => False
  end.
Proof. vm_compute. repeat split; reflexivity. Qed.
