(* C01 — executable verified checker applied to what the implementation REPORTS (every double transmitted as its
   exact dyadic rational) and to the database text as read by the independent parser (exact decimal rationals).
   Soundness theorems are in C01/CheckerProofs.v.

   check_lin     : | lin - log K(T) | <= 1e-9    (interval arithmetic; lin = exact rational combination of reports)
   ma_failures   : species of the database whose mass-action equation (DATABASE form) is violated
   check_balance : | sum c_i m_i - reported | <= 1e-7 * sum |c_i m_i|          (exact rational arithmetic)
   check_close   : | a - b | <= tol                                             (exact)
   check_pow10   : | x - 10^lx | <= 1e-7 * 10^lx                                (interval) *)
From Coq Require Import Reals ZArith QArith Qreals Qabs List Lra Bool PArith FMapPositive.
From IPV Require Import Base.RExpr Base.IntervalEval C01.Spec C01.Rewrite.
Import ListNotations.

(* ---- the log K vector of the database text, selection rule and named expressions *)
Record kvec : Type := mkK { k0 : Q; kh : Q; k1 : Q; k2 : Q; k3 : Q; k4 : Q; k5 : Q; k6 : Q }.
Definition kzero : kvec := mkK 0 0 0 0 0 0 0 0.
Definition kaddQ (a b : kvec) : kvec :=
  mkK (k0 a + k0 b) (kh a + kh b) (k1 a + k1 b) (k2 a + k2 b) (k3 a + k3 b) (k4 a + k4 b) (k5 a + k5 b) (k6 a + k6 b).
Definition kscaleQ (c : Q) (a : kvec) : kvec :=
  mkK (c * k0 a) (c * kh a) (c * k1 a) (c * k2 a) (c * k3 a) (c * k4 a) (c * k5 a) (c * k6 a).
Definition qz (q : Q) : bool := Qeq_bool q 0.
Definition is_analytic (k : kvec) : bool :=
  negb (qz (k1 k) && qz (k2 k) && qz (k3 k) && qz (k4 k) && qz (k5 k) && qz (k6 k)).
(* select_log_k_expression (tidy.cpp): analytical expression if any coefficient is non-zero, else log_k / delta_h *)
Definition select (k : kvec) : kvec :=
  if is_analytic k then mkK 0 0 (k1 k) (k2 k) (k3 k) (k4 k) (k5 k) (k6 k) else mkK (k0 k) (kh k) 0 0 0 0 0 0.

Definition named_db := PositiveMap.t (kvec * list (Q * positive)).

Fixpoint add_named (get : positive -> option kvec) (acc : kvec) (adds : list (Q * positive)) : option kvec :=
  match adds with
  | [] => Some acc
  | (c, n) :: r => match get n with Some kn => add_named get (kaddQ (kscaleQ c kn) acc) r | None => None end
  end.

(* add_logks / add_other_logk (tidy.cpp): named expressions may refer to named expressions (bounded depth) *)
Fixpoint named_k (nd : named_db) (fuel : nat) (n : positive) : option kvec :=
  match fuel with
  | O => None
  | S f => match PositiveMap.find n nd with
           | None => None
           | Some (k, adds) => add_named (named_k nd f) (select k) adds
           end
  end.

Definition combined (nd : named_db) (k : kvec) (adds : list (Q * positive)) : option kvec :=
  add_named (named_k nd 16) (select k) adds.

(* ---- log K(T) by interval arithmetic, temperature terms shared by all species of a solution *)
Definition P := prec80.
Definition vhc_expr : rexpr :=      (* Var 0 = T ;  vant_hoff logk dh T = logk + dh * vhc T *)
  Neg (Div (Sub (Div (Const 1) (Var 0)) (Div (Const 1) (Const (29815 # 100))))
           (Mul (Ln (Const 10)) (Const (83147 # 10000000)))).
Definition l10_expr : rexpr := Log10 (Var 0).
Definition tterms (T : Q) : list I.type :=
  let iT := I_of_Q P T in [iT; evalI P [iT] vhc_expr; evalI P [iT] l10_expr].
(* Var 0 = T, Var 1 = vhc T, Var 2 = log10 T *)
Definition kexpr (k : kvec) : rexpr :=
  Add (Add (Const (k0 k)) (Mul (Const (kh k)) (Var 1)))
      (Add (Add (Add (Add (Add (Const (k1 k)) (Mul (Const (k2 k)) (Var 0))) (Div (Const (k3 k)) (Var 0)))
                     (Mul (Const (k4 k)) (Var 2))) (Div (Const (k5 k)) (Mul (Var 0) (Var 0))))
           (Mul (Const (k6 k)) (Mul (Var 0) (Var 0)))).

Definition tol_log : Q := 1 # 1000000000.
Definition tol_rel : Q := 1 # 10000000.

Definition check_lin (tt : list I.type) (lin : Q) (k : kvec) : bool :=
  check_eq_within P tt (Const lin) (kexpr k) tol_log.

Definition dotQ (l : list (Q * Q)) : Q := fold_right (fun x acc => fst x * snd x + acc) 0 l.
Definition dot_absQ (l : list (Q * Q)) : Q := fold_right (fun x acc => Qabs (fst x * snd x) + acc) 0 l.

(* ---- a solution's reported log activities *)
Definition lamap := PositiveMap.t Q.
Fixpoint lookup_terms (la : lamap) (eq : list (Q * positive)) : option (list (Q * Q)) :=
  match eq with
  | [] => Some []
  | (c, j) :: r => match PositiveMap.find j la, lookup_terms la r with
                   | Some x, Some t => Some ((c, x) :: t)
                   | _, _ => None
                   end
  end.

Record species : Type := mkSp { sp_id : positive; sp_eq : list (Q * positive); sp_k : kvec; sp_add : list (Q * positive) }.

Definition mem (s : PositiveMap.t unit) (x : positive) : bool :=
  match PositiveMap.find x s with Some _ => true | None => false end.

(* one species / phase: Some true = checked and fine, Some false = violated, None = not checkable in this solution
   (a species of its reaction is absent) *)
Definition check_one (nd : named_db) (tt : list I.type) (la : lamap) (extra : Q) (sp : species) : option bool :=
  match lookup_terms la (sp_eq sp) with
  | None => None
  | Some terms => match combined nd (sp_k sp) (sp_add sp) with
                  | None => Some false
                  | Some k => Some (check_lin tt (dotQ terms - extra) k)
                  end
  end.

Fixpoint ma_failures (nd : named_db) (tt : list I.type) (la : lamap) (exempt : PositiveMap.t unit) (sps : list species)
  : list positive :=
  match sps with
  | [] => []
  | sp :: r =>
      let rest := ma_failures nd tt la exempt r in
      if mem exempt (sp_id sp) then rest else
      match check_one nd tt la 0 sp with Some false => sp_id sp :: rest | _ => rest end
  end.

Fixpoint ma_checked (la : lamap) (exempt : PositiveMap.t unit) (sps : list species) : nat :=
  match sps with
  | [] => O
  | sp :: r => if mem exempt (sp_id sp) then ma_checked la exempt r else
               match lookup_terms la (sp_eq sp) with Some _ => S (ma_checked la exempt r) | None => ma_checked la exempt r end
  end.

(* reported log K of a species or phase (LK_SPECIES / LK_PHASE) against the database text *)
Definition check_lk (nd : named_db) (tt : list I.type) (reported : Q) (k : kvec) (adds : list (Q * positive)) : bool :=
  match combined nd k adds with Some kk => check_lin tt reported kk | None => false end.

(* reported saturation index of a phase:  SI = sum nu*la - log K(T) *)
Fixpoint si_failures (nd : named_db) (tt : list I.type) (la : lamap) (obs : list (species * Q)) : list positive :=
  match obs with
  | [] => []
  | (ph, si) :: r =>
      let rest := si_failures nd tt la r in
      match check_one nd tt la si ph with Some false => sp_id ph :: rest | _ => rest end
  end.

(* ---- balances and read-outs *)
Definition check_balance (terms : list (Q * Q)) (reported : Q) : bool :=
  Qle_bool (Qabs (dotQ terms - reported)) (tol_rel * dot_absQ terms).
Definition check_close (a b tol : Q) : bool := Qle_bool (Qabs (a - b)) tol.
Definition pow10_expr : rexpr := Exp (Mul (Var 1) (Ln (Const 10))).
Definition check_pow10 (x lx : Q) : bool := check_rel_within_Q P [x; lx] (Var 0) pow10_expr tol_rel.

Fixpoint balance_failures (l : list (positive * list (Q * Q) * Q)) : list positive :=
  match l with
  | [] => []
  | (id, terms, rep) :: r => if check_balance terms rep then balance_failures r else id :: balance_failures r
  end.

(* per species read-outs: (id, la, lm, lg, mol, act): la = lm + lg, mol = 10^lm (when lm >= -40: PHREEQC censors
   smaller molalities to 0), act = 10^la (when la >= -300: below that 10^la is not a normal binary64 number) *)
Definition readout_ok (x : Q * Q * Q * Q * Q) : bool :=
  let '(la, lm, lg, mol, act) := x in
  check_close la (lm + lg) tol_log &&
  (if Qle_bool (-(40 # 1)) lm then check_pow10 mol lm else true) &&
  (if Qle_bool (-(300 # 1)) la then check_pow10 act la else true).
Fixpoint readout_failures (l : list (positive * (Q * Q * Q * Q * Q))) : list positive :=
  match l with
  | [] => []
  | (id, x) :: r => if readout_ok x then readout_failures r else id :: readout_failures r
  end.

(* ---- master-form data derived with the rewriting model: alkalinity of a species, valence-state content *)
Definition weight_of (f : lin) (w : positive -> Q) : Q := fold_right (fun x acc => fst x * w (snd x) + acc) 0 f.

Definition map_of_list {A} (l : list (positive * A)) : PositiveMap.t A :=
  fold_left (fun acc x => PositiveMap.add (fst x) (snd x) acc) l (PositiveMap.empty A).
Definition set_of_list (l : list positive) : PositiveMap.t unit :=
  fold_left (fun acc x => PositiveMap.add x tt acc) l (PositiveMap.empty unit).

(* reported LK_SPECIES / LK_PHASE of the entries found in the map *)
Fixpoint lk_failures (nd : named_db) (tt : list I.type) (m : PositiveMap.t species) (obs : list (positive * Q)) : list positive :=
  match obs with
  | [] => []
  | (id, lk) :: r =>
      let rest := lk_failures nd tt m r in
      match PositiveMap.find id m with
      | Some sp => if check_lk nd tt lk (sp_k sp) (sp_add sp) then rest else id :: rest
      | None => rest
      end
  end.
Fixpoint si_obs (m : PositiveMap.t species) (obs : list (positive * Q)) : list (species * Q) :=
  match obs with
  | [] => []
  | (id, si) :: r => match PositiveMap.find id m with Some ph => (ph, si) :: si_obs m r | None => si_obs m r end
  end.
Definition species_map (l : list species) : PositiveMap.t species := map_of_list (map (fun sp => (sp_id sp, sp)) l).

(* balances whose coefficients come from the REWRITING MODEL (C01/Rewrite.v): the coefficient of species s is
   w (master-form reaction of s); used for alkalinity (w = sum coef * alk(master)) and valence-state totals
   (w = coef of the valence state's master species * atoms of the element in it) *)
Definition rw_terms (rw : positive -> option form) (w : lin -> Q) (mol : list (positive * Q)) : list (Q * Q) :=
  map (fun x => (match rw (fst x) with Some f => w (f_act f) | None => 0 end, snd x)) mol.
Definition qmap_get (m : PositiveMap.t Q) (x : positive) : Q := match PositiveMap.find x m with Some q => q | None => 0 end.

(* pairs of read-outs that must agree (pH vs -la(H+), pe vs -la(e-), BASIC vs SELECTED_OUTPUT columns) *)
Fixpoint close_failures (l : list (positive * Q * Q)) : list positive :=
  match l with
  | [] => []
  | (id, a, b) :: r => if check_close a b tol_log then close_failures r else id :: close_failures r
  end.

(* self-test / non-vacuity: HCO3- = CO3-2 + H+ with log_k 10.329, delta_h -3.561 kcal, analytic expression of phreeqc.dat *)
Definition ex_k : kvec := mkK (10329 # 1000) ((-3561 # 1000) * (4184 # 1000)) (1078871 # 10000) (3252849 # 100000000) ((-515179) # 100) ((-3892561) # 100000) (56371390 # 100) 0.
Example select_example : k0 (select ex_k) == 0 /\ k1 (select ex_k) == 1078871 # 10000.
Proof. vm_compute. split; reflexivity. Qed.
Example check_lin_example : check_lin (tterms (29815 # 100)) (1032888 # 100000) (select ex_k) = false
                            /\ check_lin (tterms (29815 # 100)) (103288543785 # 10000000000) (select ex_k) = true.
Proof. vm_compute. split; reflexivity. Qed.
Example check_balance_example : check_balance [(1, 1 # 1000); (2, 1 # 1000)] (3 # 1000) = true
                                /\ check_balance [(1, 1 # 1000); (2, 1 # 1000)] (31 # 10000) = false.
Proof. vm_compute. split; reflexivity. Qed.
Example check_pow10_example : check_pow10 (1 # 100) (-2 # 1) = true /\ check_pow10 (101 # 10000) (-2 # 1) = false.
Proof. vm_compute. split; reflexivity. Qed.
