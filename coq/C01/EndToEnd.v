(* C01 — composition: a speciation computed the way Phreeqc::molalities computes it (log molality of every species
   from the MASTER-form reaction, with the constant k_calc gives for the coefficient-wise sum of the log K vectors)
   satisfies every DATABASE reaction with the log K(T) of that reaction's own database entry.

   The two facts about the code that are needed are section hypotheses here; Props/Properties_C01.v discharges them with
   the regenerated k_calc and molalities (theorems kcalc_is_vant_hoff_plus_analytic and molalities_satisfy_mass_action). *)
From Coq Require Import Reals QArith Qreals List Lra.
From IPV Require Import C01.Spec C01.Rewrite.
Import ListNotations.
Local Open Scope R_scope.

Definition kzeroR : kvecR := mkKR 0 0 0 0 0 0 0 0.

(* the log K vector of a rewritten reaction: sum of coefficient * vector of each substituted species (trxn_add) *)
Definition kcomb (l : lin) (kv : sid -> kvecR) : kvecR :=
  fold_right (fun x acc => kadd (kscale (Q2R (fst x)) (kv (snd x))) acc) kzeroR l.

Lemma logK_T_zero : forall T, logK_T kzeroR T = 0.
Proof. intros. unfold logK_T, kzeroR, vant_hoff, analytic. cbn [kr0 krh kr1 kr2 kr3 kr4 kr5 kr6]. unfold Rdiv. ring. Qed.

Lemma logK_T_kcomb : forall l kv T, logK_T (kcomb l kv) T = evalL l (fun j => logK_T (kv j) T).
Proof.
  induction l as [|x l IH]; intros kv T; simpl; [apply logK_T_zero|].
  rewrite logK_T_linear, IH. reflexivity.
Qed.

(* tokens (la of the master species, coefficient) of a master-form reaction *)
Definition tokens (l : lin) (la : sid -> R) : list (R * R) := map (fun x => (la (snd x), Q2R (fst x))) l.

Lemma tokens_sum : forall l la, fold_right (fun t acc => snd t * fst t + acc) 0 (tokens l la) = evalL l la.
Proof. induction l as [|x l IH]; intros la; simpl; [reflexivity|]. rewrite IH. reflexivity. Qed.

Section EndToEnd.
  Variable T : R.
  Variable kc : kvecR -> R.                          (* the code's k_calc at temperature T, 1 atm *)
  Variable lmf : R -> R -> list (R * R) -> R.         (* the code's loop computing lm from lk, lg and the tokens *)
  Hypothesis kc_spec : forall k, kc k = logK_T k T.
  Hypothesis lmf_spec : forall lk lg toks, lmf lk lg toks + lg = lk + fold_right (fun t acc => snd t * fst t + acc) 0 toks.

  Variable is_stop : sid -> bool.
  Variable rxn : sid -> option lin.

  (* every rewritable species has  la = lm + lg  with lm computed by the code's loop from its master-form reaction *)
  Definition computed_like_molalities (fuel : nat) (la lg : sid -> R) (kv : sid -> kvecR) : Prop :=
    forall s f, rewrite is_stop rxn fuel s = Some f ->
      la s = lmf (kc (kcomb (f_k f) kv)) (lg s) (tokens (f_act f) la) + lg s.

  Theorem molalities_give_database_mass_action : forall fuel la lg kv,
    computed_like_molalities fuel la lg kv ->
    forall s r f, is_stop s = false -> rxn s = Some r -> rewrite is_stop rxn fuel s = Some f ->
    la s = logK_T (kv s) T + evalL r la.
  Proof.
    intros fuel la lg kv H s r f Hs Hr Hf.
    apply (rewrite_preserves_equilibrium is_stop rxn fuel la (fun j => logK_T (kv j) T)) with (f := f); try assumption.
    intros s' f' E. rewrite (H s' f' E), lmf_spec, kc_spec, logK_T_kcomb, tokens_sum. unfold evalF. lra.
  Qed.
End EndToEnd.
