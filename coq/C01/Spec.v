(* C01 — specification (nothing here depends on the C++ sources).
   * log K(T) the database text prescribes at 1 atm: van 't Hoff from log_k / delta_h, or the analytical expression;
   * the mass-action law of a database reaction, the balance sums and the read-out relations. *)
From Coq Require Import Reals Lra List.
Import ListNotations.
Local Open Scope R_scope.

Definition log10 (x : R) : R := ln x / ln 10.

(* gas constant in kJ/(K mol) and reference temperature *)
Definition R_gas : R := 83147 / 10000000.
Definition T_ref : R := 29815 / 100.

(* van 't Hoff:  log K(T) = log K(T_ref) - dH/(ln10 R) * (1/T - 1/T_ref)   (dH in kJ/mol, constant) *)
Definition vant_hoff (logk dh T : R) : R := logk - dh / (ln 10 * R_gas) * (1 / T - 1 / T_ref).

(* PHREEQC analytical expression *)
Definition analytic (a1 a2 a3 a4 a5 a6 T : R) : R :=
  a1 + a2 * T + a3 / T + a4 * log10 T + a5 / (T * T) + a6 * (T * T).

(* the eight-component log K vector [log_k; delta_h; A1..A6] *)
Record kvecR : Type := mkKR { kr0 : R; krh : R; kr1 : R; kr2 : R; kr3 : R; kr4 : R; kr5 : R; kr6 : R }.
Definition logK_T (k : kvecR) (T : R) : R :=
  vant_hoff (kr0 k) (krh k) T + analytic (kr1 k) (kr2 k) (kr3 k) (kr4 k) (kr5 k) (kr6 k) T.

Definition kadd (a b : kvecR) : kvecR :=
  mkKR (kr0 a + kr0 b) (krh a + krh b) (kr1 a + kr1 b) (kr2 a + kr2 b) (kr3 a + kr3 b) (kr4 a + kr4 b) (kr5 a + kr5 b) (kr6 a + kr6 b).
Definition kscale (c : R) (a : kvecR) : kvecR :=
  mkKR (c * kr0 a) (c * krh a) (c * kr1 a) (c * kr2 a) (c * kr3 a) (c * kr4 a) (c * kr5 a) (c * kr6 a).

Lemma ln10_pos : 0 < ln 10.
Proof. rewrite <- ln_1. apply ln_increasing; lra. Qed.

Lemma logK_T_linear : forall c a b T, logK_T (kadd (kscale c a) b) T = c * logK_T a T + logK_T b T.
Proof. intros. unfold logK_T, vant_hoff, analytic, kadd, kscale. cbn [kr0 krh kr1 kr2 kr3 kr4 kr5 kr6]. unfold Rdiv. ring. Qed.

Lemma vant_hoff_at_ref : forall logk dh, vant_hoff logk dh T_ref = logk.
Proof. intros. unfold vant_hoff. lra. Qed.

(* weighted sums over a list of (coefficient, value) pairs *)
Definition dot (l : list (R * R)) : R := fold_right (fun x acc => fst x * snd x + acc) 0 l.
Definition dot_abs (l : list (R * R)) : R := fold_right (fun x acc => Rabs (fst x * snd x) + acc) 0 l.

(* mass action of one database reaction: sum nu_j * log a_j = log K(T)  within tol *)
Definition mass_action_holds (terms : list (R * R)) (k : kvecR) (T tol : R) : Prop :=
  Rabs (dot terms - logK_T k T) <= tol.

(* a reported sum equals the weighted sum of the species molalities, relative to the size of the terms *)
Definition balance_holds (terms : list (R * R)) (reported tol : R) : Prop :=
  Rabs (dot terms - reported) <= tol * dot_abs terms.
