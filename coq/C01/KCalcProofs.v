(* C01 — the regenerated right-hand sides of Phreeqc::k_calc, Phreeqc::init (LOG_10), read_delta_h_only, molalities,
   sum_species, log_activity and saturation_index (coq/Gen/Gen_C01_code.v, rewritten from /repo on every run) are the
   textbook formulas of C01/Spec.v.  Proofs are semantic (field / ring / lra), so harmless rewrites of the code pass. *)
From Coq Require Import Reals QArith Qreals List String Lra.
From IPV Require Import Base.RExpr C01.Spec Gen.Gen_C01_code.
Import ListNotations.
Local Open Scope R_scope.
Local Open Scope string_scope.

Definition kenv (k : kvecR) (T L : R) : nat -> R :=
  env_of [kr0 k; krh k; kr1 k; kr2 k; kr3 k; kr4 k; kr5 k; kr6 k; T; L].

(* model of k_calc built from the regenerated pieces: lk initialised, pressure term added iff delta_p > 0 *)
Definition kcalc_model (k : kvecR) (dv T P L : R) : R :=
  let lk := evalR (kenv k T L) kcalc_lk in
  let dp := evalR (env_of [P]) kcalc_dp in
  if Rlt_dec 0 dp then lk + evalR (env_of [dv; dp; T; L]) kcalc_pcorr else lk.

Lemma kcalc_lk_spec : forall k T, 0 < T ->
  evalR (kenv k T (ln 10)) kcalc_lk = logK_T k T.
Proof.
  intros [k0 kh k1 k2 k3 k4 k5 k6] T HT. unfold kenv, kcalc_lk. cbn [kr0 krh kr1 kr2 kr3 kr4 kr5 kr6]. unfold_evalR.
  unfold logK_T, vant_hoff, analytic, log10, R_gas, T_ref. cbn [kr0 krh kr1 kr2 kr3 kr4 kr5 kr6].
  pose proof ln10_pos. field. lra.
Qed.

Lemma kcalc_shape :
  kcalc_lk_vars = ["l_logk[logK_T0]"; "l_logk[delta_h]"; "l_logk[T_A1]"; "l_logk[T_A2]"; "l_logk[T_A3]"; "l_logk[T_A4]";
                   "l_logk[T_A5]"; "l_logk[T_A6]"; "tempk"; "LOG_10"] /\
  kcalc_lk_conds = [] /\ kcalc_lk_site_kinds = ["init"; "compound"] /\
  kcalc_pcorr_conds = ["delta_p > 0"] /\ kcalc_dp_vars = ["presPa"] /\
  kcalc_ret = Var 0 /\ kcalc_ret_vars = ["lk"] /\ kcalc_return_sites = 1%nat.
Proof. repeat split; reflexivity. Qed.

Lemma kcalc_dp_1atm : evalR (env_of [101325]) kcalc_dp = 0.
Proof. unfold kcalc_dp. unfold_evalR. lra. Qed.

Lemma kcalc_model_1atm : forall k dv T, 0 < T ->
  kcalc_model k dv T 101325 (ln 10) = logK_T k T.
Proof.
  intros k dv T HT. unfold kcalc_model. rewrite kcalc_dp_1atm.
  destruct (Rlt_dec 0 0) as [H|_]; [lra|]. apply kcalc_lk_spec; assumption.
Qed.

(* below the reference pressure as well (delta_p <= 0): no pressure term *)
Lemma kcalc_model_low_p : forall k dv T P, 0 < T -> P <= 101325 ->
  kcalc_model k dv T P (ln 10) = logK_T k T.
Proof.
  intros k dv T P HT HP. unfold kcalc_model.
  assert (E : evalR (env_of [P]) kcalc_dp = P - 101325) by (unfold kcalc_dp; unfold_evalR; lra).
  rewrite E. destruct (Rlt_dec 0 (P - 101325)) as [H|_]; [lra|]. apply kcalc_lk_spec; assumption.
Qed.

Lemma kcalc_lk_linear : forall c a b T L,
  evalR (kenv (kadd (kscale c a) b) T L) kcalc_lk = c * evalR (kenv a T L) kcalc_lk + evalR (kenv b T L) kcalc_lk.
Proof.
  intros c [a0 ah a1 a2 a3 a4 a5 a6] [b0 bh b1 b2 b3 b4 b5 b6] T L.
  unfold kenv, kadd, kscale, kcalc_lk. cbn [kr0 krh kr1 kr2 kr3 kr4 kr5 kr6]. unfold_evalR. unfold Rdiv. ring.
Qed.

Lemma kcalc_at_25C_no_analytic : forall k0 kh,
  evalR (kenv (mkKR k0 kh 0 0 0 0 0 0) (29815 / 100) (ln 10)) kcalc_lk = k0.
Proof.
  intros. rewrite kcalc_lk_spec by lra. unfold logK_T, vant_hoff, analytic, T_ref, log10. cbn [kr0 krh kr1 kr2 kr3 kr4 kr5 kr6]. unfold Rdiv. ring.
Qed.

Lemma LOG_10_is_ln10 : evalR (env_of []) c01_LOG_10 = ln 10 /\ c01_LOG_10_vars = [].
Proof. split; [|reflexivity]. unfold c01_LOG_10. unfold_evalR. f_equal. lra. Qed.

(* delta_h units: "/= 1000" unless the unit starts with k; "*= 4.184" when it contains c(al) *)
Lemma delta_h_unit_factors :
  dh_compound_ops = ["/="; "*="] /\
  evalR (env_of []) dh_factor_0 = 1000 /\ evalR (env_of []) dh_factor_1 = 4184 / 1000 /\
  dh_factor_0_vars = [] /\ dh_factor_1_vars = [] /\
  dh_compound_conds = [["j == 4 || j == 5"; "strstr(token, ""k"") != token"];
                       ["j == 4 || j == 5"; "strstr(token, ""c"") != NULL"]].
Proof. repeat split; try reflexivity; unfold dh_factor_0, dh_factor_1; unfold_evalR; lra. Qed.

(* ---- molalities(): lm = lk - lg + sum la*coef   (tokens of rxn_x after the first) *)
Definition lm_model (lk lg : R) (toks : list (R * R)) : R :=      (* (la, coef) *)
  fold_left (fun acc t => acc + evalR (env_of [fst t; snd t]) mol_lm_inc) toks (evalR (env_of [lk; lg]) mol_lm_init).

Lemma fold_left_add_shift : forall (f : R * R -> R) l a, fold_left (fun acc t => acc + f t) l a = a + fold_left (fun acc t => acc + f t) l 0.
Proof. intros f l. induction l as [|x l IH]; intros a; simpl; [lra|]. rewrite IH, (IH (0 + f x)). lra. Qed.

Lemma fold_left_is_sum : forall (f : R * R -> R) l a,
  fold_left (fun acc t => acc + f t) l a = a + fold_right (fun t acc => f t + acc) 0 l.
Proof. intros f l. induction l as [|x l IH]; intros a; simpl; [lra|]. rewrite IH. lra. Qed.

Lemma fold_right_sum_ext : forall (f g : R * R -> R), (forall t, f t = g t) ->
  forall l, fold_right (fun t acc => f t + acc) 0 l = fold_right (fun t acc => g t + acc) 0 l.
Proof. intros f g H l. induction l as [|x l IH]; cbn [fold_right]; [reflexivity|]. rewrite IH, H. reflexivity. Qed.

Lemma inc_is_product : forall t : R * R, evalR (env_of [fst t; snd t]) mol_lm_inc = snd t * fst t.
Proof. intros t. unfold mol_lm_inc. unfold_evalR. lra. Qed.
Lemma iap_inc_is_product : forall t : R * R, evalR (env_of [fst t; snd t]) ro_iap_inc = snd t * fst t.
Proof. intros t. unfold ro_iap_inc. unfold_evalR. lra. Qed.

Lemma molalities_mass_action : forall lk lg toks,
  lm_model lk lg toks + lg = lk + fold_right (fun t acc => snd t * fst t + acc) 0 toks.
Proof.
  intros lk lg toks. unfold lm_model. rewrite fold_left_is_sum.
  replace (evalR (env_of [lk; lg]) mol_lm_init) with (lk - lg) by (unfold mol_lm_init; unfold_evalR; reflexivity).
  rewrite (fold_right_sum_ext _ _ inc_is_product). lra.
Qed.

Lemma molalities_shape :
  mol_lm_site_kinds = ["assign"; "compound:+="] /\ mol_lm_init_vars = ["s_x[i]->lk"; "s_x[i]->lg"] /\
  mol_lm_inc_vars = ["rxn_ptr->s->la"; "rxn_ptr->coef"] /\ mol_lm_init_conds = [] /\ mol_lm_inc_conds = [] /\
  (forall lm lg, evalR (env_of [lm; lg]) mol_master_la = lm + lg).
Proof. repeat split; try reflexivity. Qed.

(* ---- sum_species(): pH, pe, charge balance, alkalinity, valence-state totals *)
Definition sum_model (init inc : rexpr) (l : list (R * R)) : R :=
  fold_left (fun acc t => acc + evalR (env_of [fst t; snd t]) inc) l (evalR (env_of []) init).

Lemma sum_model_dot : forall init inc, evalR (env_of []) init = 0 ->
  (forall t : R * R, evalR (env_of [fst t; snd t]) inc = fst t * snd t) ->
  forall l, sum_model init inc l = dot l.
Proof.
  intros init inc Z P l. unfold sum_model. rewrite fold_left_is_sum, Z, (fold_right_sum_ext _ _ P). unfold dot. lra.
Qed.

Lemma sum_species_sums : forall l,
  sum_model ss_cb_init ss_cb_inc l = dot l /\ sum_model ss_alk_init ss_alk_inc l = dot l /\
  sum_model (Const 0) ss_tot_inc l = dot l.
Proof.
  intros l. repeat split; apply sum_model_dot;
    try (unfold ss_cb_init, ss_alk_init; unfold_evalR; lra);
    intros t; unfold ss_cb_inc, ss_alk_inc, ss_tot_inc; unfold_evalR; lra.
Qed.

Lemma sum_species_ph_pe : forall la,
  evalR (env_of [la]) ss_ph = - la /\ evalR (env_of [la]) ss_pe = - la /\
  ss_ph_vars = ["s_hplus->la"] /\ ss_pe_vars = ["s_eminus->la"] /\ ss_ph_conds = [] /\ ss_pe_conds = [].
Proof. intros. unfold ss_ph, ss_pe. repeat split; unfold_evalR; reflexivity. Qed.

(* ---- read-outs: log a = log m + log gamma ;  SI = log IAP - log K *)
Lemma readout_la : forall lm lg, evalR (env_of [lm; lg]) ro_la = lm + lg /\ ro_la_vars = ["s_ptr->lm"; "s_ptr->lg"].
Proof. intros. unfold ro_la. split; [unfold_evalR|]; reflexivity. Qed.

Definition si_model (lk : R) (toks : list (R * R)) : R :=        (* (la, coef) *)
  evalR (env_of [sum_model ro_iap_init ro_iap_inc toks; lk]) ro_si.

Lemma readout_si : forall lk toks,
  si_model lk toks = fold_right (fun t acc => snd t * fst t + acc) 0 toks - lk.
Proof.
  intros. unfold si_model, sum_model. rewrite fold_left_is_sum.
  replace (evalR (env_of []) ro_iap_init) with 0 by (unfold ro_iap_init; unfold_evalR; lra).
  rewrite (fold_right_sum_ext _ _ iap_inc_is_product). unfold ro_si. unfold_evalR. lra.
Qed.
