(* C01 — definitions and proof scripts that tie the REGENERATED right-hand sides of Phreeqc::k_calc, Phreeqc::init (LOG_10),
   read_delta_h_only, molalities, sum_species, log_activity and saturation_index (coq/Gen/Gen_C01_code.v, rewritten from
   /repo on every run) to the textbook formulas of C01/Spec.v.

   This file contains: the small models built from the regenerated pieces (kcalc_model, lm_model, sum_model, si_model),
   lemmas that do not depend on the generated text, and the proof SCRIPTS (Ltac) that Props/Properties_C01.v runs against
   the current generated text.  The scripts are semantic (field / ring / lra), so harmless rewrites of the code pass;
   keeping them as scripts makes a failure show up at the one theorem of Props/Properties_C01.v it concerns. *)
From Coq Require Import Reals QArith Qreals List String Lra.
From IPV Require Import Base.RExpr C01.Spec Gen.Gen_C01_code.
Import ListNotations.
Local Open Scope R_scope.
Local Open Scope string_scope.

Definition kenv (k : kvecR) (T L : R) : nat -> R :=
  env_of [kr0 k; krh k; kr1 k; kr2 k; kr3 k; kr4 k; kr5 k; kr6 k; T; L].

(* model of k_calc built from the regenerated pieces: lk initialised, pressure term added iff delta_p > 0 *)
Definition kcalc_model (k : kvecR) (dv T P L : R) : R :=
  let lk := evalR (kenv k T L) kcalc_lk in
  let dp := evalR (env_of [P]) kcalc_dp in
  if Rlt_dec 0 dp then lk + evalR (env_of [dv; dp; T; L]) kcalc_pcorr else lk.

(* molalities(): lm = lk - lg + sum la*coef   (tokens of rxn_x after the first; t = (la, coef)) *)
Definition lm_model (lk lg : R) (toks : list (R * R)) : R :=
  fold_left (fun acc t => acc + evalR (env_of [fst t; snd t]) mol_lm_inc) toks (evalR (env_of [lk; lg]) mol_lm_init).

(* sum_species(): an accumulator initialised with init and incremented by inc for every species *)
Definition sum_model (init inc : rexpr) (l : list (R * R)) : R :=
  fold_left (fun acc t => acc + evalR (env_of [fst t; snd t]) inc) l (evalR (env_of []) init).

(* saturation_index(): iap accumulated over the tokens, si = iap - lk *)
Definition si_model (lk : R) (toks : list (R * R)) : R :=
  evalR (env_of [sum_model ro_iap_init ro_iap_inc toks; lk]) ro_si.

(* ---- lemmas independent of the generated text *)
Lemma fold_left_is_sum : forall (f : R * R -> R) l a,
  fold_left (fun acc t => acc + f t) l a = a + fold_right (fun t acc => f t + acc) 0 l.
Proof. intros f l. induction l as [|x l IH]; intros a; simpl; [lra|]. rewrite IH. lra. Qed.

Lemma fold_right_sum_ext : forall (f g : R * R -> R), (forall t, f t = g t) ->
  forall l, fold_right (fun t acc => f t + acc) 0 l = fold_right (fun t acc => g t + acc) 0 l.
Proof. intros f g H l. induction l as [|x l IH]; cbn [fold_right]; [reflexivity|]. rewrite IH, H. reflexivity. Qed.

Lemma sum_model_dot : forall init inc, evalR (env_of []) init = 0 ->
  (forall t : R * R, evalR (env_of [fst t; snd t]) inc = fst t * snd t) ->
  forall l, sum_model init inc l = dot l.
Proof.
  intros init inc Z P l. unfold sum_model. rewrite fold_left_is_sum, Z, (fold_right_sum_ext _ _ P). unfold dot. lra.
Qed.

Lemma sum_model_dot_swapped : forall init inc, evalR (env_of []) init = 0 ->
  (forall t : R * R, evalR (env_of [fst t; snd t]) inc = snd t * fst t) ->
  forall l, sum_model init inc l = fold_right (fun t acc => snd t * fst t + acc) 0 l.
Proof.
  intros init inc Z P l. unfold sum_model. rewrite fold_left_is_sum, Z, (fold_right_sum_ext _ _ P). lra.
Qed.

(* ---- proof scripts run by Props/Properties_C01.v against the current generated text *)
Ltac kproj := cbn [kr0 krh kr1 kr2 kr3 kr4 kr5 kr6].

(* forall k T, 0 < T -> evalR (env_of [kr0 k; ...; T; ln 10]) kcalc_lk = <van 't Hoff + analytic> *)
Ltac c01_kcalc_lk :=
  let k0 := fresh "k0" in let kh := fresh "kh" in let k1 := fresh "k1" in let k2 := fresh "k2" in let k3 := fresh "k3" in
  let k4 := fresh "k4" in let k5 := fresh "k5" in let k6 := fresh "k6" in let T := fresh "T" in let HT := fresh "HT" in
  intros [k0 kh k1 k2 k3 k4 k5 k6] T HT; unfold kcalc_lk; kproj; unfold_evalR;
  pose proof ln10_pos; field; lra.

(* linearity in the log K vector *)
Ltac c01_kcalc_linear :=
  let c := fresh "c" in let T := fresh "T" in let L := fresh "L" in
  intros c [? ? ? ? ? ? ? ?] [? ? ? ? ? ? ? ?] T L; unfold kenv, kadd, kscale, kcalc_lk; kproj; unfold_evalR; unfold Rdiv; ring.

Ltac c01_unfold_all :=
  unfold kcalc_dp, kcalc_pcorr, c01_LOG_10, dh_factor_0, dh_factor_1, mol_lm_init, mol_lm_inc, mol_master_la,
         ss_ph, ss_pe, ss_cb_inc, ss_alk_inc, ss_tot_inc, ss_cb_init, ss_alk_init, ro_la, ro_si, ro_iap_inc, ro_iap_init.

(* closed / pointwise facts about small leaves: unfold, expose the real expression, linear arithmetic *)
Ltac c01_leaf := intros; c01_unfold_all; unfold_evalR; try reflexivity; try lra.
