(* C18 — the element-name limit reaches every valence-state row (for all row lists, all numbers of solutions). *)
From Coq Require Import ZArith QArith List Bool String Lia.
From IPV Require Import C18.Tidy.
Import ListNotations.

Lemma copy_from_all : forall dst src, List.length dst = List.length src -> copy_from false dst src = src.
Proof.
  induction dst as [|d dt IH]; intros [|s st] H; simpl in *; try discriminate; [reflexivity|].
  f_equal. apply IH. congruence.
Qed.

Lemma scan_reaches_all rows prim vals :
  (forall r, In r rows -> List.length (snd r) = List.length vals) ->
  forall r', In r' (scan false false rows prim vals) -> fst r' = prim -> snd r' = vals.
Proof.
  induction rows as [|[p u] rest IH]; intros Hlen r' Hin Hp; simpl in Hin; [contradiction|].
  assert (Hrest : forall r, In r rest -> List.length (snd r) = List.length vals) by (intros r Hr; apply Hlen; right; exact Hr).
  destruct (Z.eqb_spec p prim) as [E|NE].
  - destruct Hin as [<-|Hin].
    + simpl. apply copy_from_all. apply (Hlen (p, u)). left. reflexivity.
    + apply IH; assumption.
  - destruct Hin as [<-|Hin].
    + simpl in Hp. contradiction.
    + apply IH; assumption.
Qed.

Lemma scan_keeps_others rows prim vals :
  forall r', In r' (scan false false rows prim vals) -> fst r' <> prim -> In r' rows.
Proof.
  induction rows as [|[p u] rest IH]; intros r' Hin Hp; simpl in Hin; [contradiction|].
  destruct (Z.eqb_spec p prim) as [E|NE].
  - destruct Hin as [<-|Hin]; [simpl in Hp; contradiction | right; apply IH; assumption].
  - destruct Hin as [<-|Hin]; [left; reflexivity | right; apply IH; assumption].
Qed.

Lemma scan_same_rows rows prim vals : map fst (scan false false rows prim vals) = map fst rows.
Proof.
  induction rows as [|[p u] rest IH]; simpl; [reflexivity|].
  destruct (Z.eqb p prim); simpl; rewrite IH; reflexivity.
Qed.

Lemma scanloop_ok_flags d : scanloop_ok d = true -> sl_exit_after_match d = false /\ sl_inner_exit d = false.
Proof.
  unfold scanloop_ok. rewrite !andb_true_iff. intros [[[[[[[[[_ _] _] H1] _] _] H2] _] _] _].
  split; [destruct (sl_exit_after_match d) | destruct (sl_inner_exit d)]; simpl in *; congruence.
Qed.

Theorem propagation_reaches_every_state d : scanloop_ok d = true ->
  forall rows prim vals, (forall r, In r rows -> List.length (snd r) = List.length vals) ->
  map fst (run d rows prim vals) = map fst rows /\
  (forall r', In r' (run d rows prim vals) -> fst r' = prim -> snd r' = vals) /\
  (forall r', In r' (run d rows prim vals) -> fst r' <> prim -> In r' rows).
Proof.
  intros Hok rows prim vals Hlen. destruct (scanloop_ok_flags d Hok) as [H1 H2].
  unfold run. rewrite H1, H2. split; [apply scan_same_rows | split].
  - apply scan_reaches_all. exact Hlen.
  - apply scan_keeps_others.
Qed.

(* a loop that stops after the first match does NOT have the property (the model can tell) *)
Example early_exit_misses_a_state :
  scan true false [(1%Z, [5#100]); (1%Z, [5#100])] 1%Z [1#100] = [(1%Z, [1#100]); (1%Z, [5#100])].
Proof. reflexivity. Qed.
Example full_scan_reaches_both :
  scan false false [(1%Z, [5#100]); (2%Z, [5#100]); (1%Z, [5#100])] 1%Z [1#100] = [(1%Z, [1#100]); (2%Z, [5#100]); (1%Z, [1#100])].
Proof. reflexivity. Qed.
