(* C18 — specification (Prop level) of "a genuine, admissible mole-balance model" and the proof that
   the executable checker of Check.v is sound and complete for it. *)
From Coq Require Import QArith Qabs List Bool ZArith Lia Lqa.
From IPV Require Import C18.Check.
Import ListNotations.
Open Scope Q_scope.

(* ---------- the relation *)
Definition all_vrows (md : model) (v : vrow) : Prop :=
  In v (m_extra md) \/ exists r, In r (m_rows md) /\ In v (e_states r).

Definition in_range (tolr v lo hi : Q) : Prop :=
  lo - tolr * (1 + Qabs v) <= v /\ v <= hi + tolr * (1 + Qabs v).

Record admissible (pb : problem) (md : model) : Prop := {
  (* every list has the length it must have (number of solutions / of phases) *)
  ad_shape : shape_ok pb md = true;
  (* mole balance of every element:
       | Sum_states Sum_s sg_s (f_s T_{v,s} + eps_{v,s})  +  Sum_p t_p c_{e,p}  +  k_e |  <= tolb
     (k_e: the reported redox mole transfers' share of the row; 0 for element rows) *)
  ad_balance : forall r, In r (m_rows md) -> Qabs (balance_res pb md r) <= p_tolb pb;
  (* every adjustment within its declared uncertainty:  |eps| <= b f + tolu *)
  ad_adjust : forall v, all_vrows md v ->
      forall f e b, In (f, e, b) (zip3 (m_fr md) (v_e v) (v_b v)) -> Qabs e <= b * f + p_tolu pb;
  (* mixing fractions non-negative *)
  ad_fractions : forall f, In f (m_fr md) -> - p_tolu pb <= f;
  (* dissolve-only phases have non-negative, precipitate-only phases non-positive transfers *)
  ad_dissolve : forall c t, In (c, t) (combine (p_cons pb) (m_tr md)) -> (0 < c)%Z -> - p_tolu pb <= t;
  ad_precip : forall c t, In (c, t) (combine (p_cons pb) (m_tr md)) -> (c < 0)%Z -> t <= p_tolu pb;
  (* every value inside its reported range *)
  ad_range : p_range pb = true ->
      forall v lo hi, In (v, (lo, hi)) (combine (m_fr md) (m_frng md) ++ combine (m_tr md) (m_trng md)) ->
      in_range (p_tolr pb) v lo hi
}.

(* ---------- reflection lemmas *)
Lemma adj_item_ok_iff tol f e b : adj_item_ok tol (f, e, b) = true <-> Qabs e <= b * f + tol.
Proof. unfold adj_item_ok. apply Qle_bool_iff. Qed.

Lemma sign_item_ok_iff tol c t :
  sign_item_ok tol (c, t) = true <-> (((0 < c)%Z -> - tol <= t) /\ ((c < 0)%Z -> t <= tol)).
Proof.
  unfold sign_item_ok. destruct c as [|p|p].
  - split; [intros _; split; intro H; inversion H | reflexivity].
  - rewrite Qle_bool_iff. split.
    + intro H; split; [intros _; exact H | intro H0; inversion H0].
    + intros [H _]. apply H. reflexivity.
  - rewrite Qle_bool_iff. split.
    + intro H; split; [intro H0; inversion H0 | intros _; exact H].
    + intros [_ H]. apply H. reflexivity.
Qed.

Lemma rng_item_ok_iff tolr v lo hi : rng_item_ok tolr (v, (lo, hi)) = true <-> in_range tolr v lo hi.
Proof.
  unfold rng_item_ok, in_range. rewrite andb_true_iff, !Qle_bool_iff. reflexivity.
Qed.

Lemma forallb_app {A} (p : A -> bool) l1 l2 : forallb p (l1 ++ l2) = forallb p l1 && forallb p l2.
Proof. induction l1 as [|a l1 IH]; simpl; [reflexivity|]. rewrite IH. apply andb_assoc. Qed.

(* ---------- soundness *)
Theorem check_inverse_sound_lemma pb md : check_inverse_model pb md = true -> admissible pb md.
Proof.
  unfold check_inverse_model. rewrite !andb_true_iff.
  intros [[[[[Hshape Hbal] Hadj] Hfr] Hsg] Hrng].
  constructor.
  - exact Hshape.
  - intros r Hr. unfold balance_ok in Hbal. rewrite forallb_forall in Hbal.
    apply Qle_bool_iff. apply Hbal. exact Hr.
  - intros v Hv f e b Hin. unfold adj_ok in Hadj. rewrite andb_true_iff in Hadj.
    destruct Hadj as [Hrows Hextra].
    assert (Hvok : vrow_adj_ok pb md v = true).
    { destruct Hv as [Hv | [r [Hr Hv]]].
      - rewrite forallb_forall in Hextra. apply Hextra. exact Hv.
      - rewrite forallb_forall in Hrows. specialize (Hrows r Hr).
        rewrite forallb_forall in Hrows. apply Hrows. exact Hv. }
    unfold vrow_adj_ok in Hvok. rewrite forallb_forall in Hvok.
    apply adj_item_ok_iff. apply Hvok. exact Hin.
  - intros f Hf. unfold fractions_ok in Hfr. rewrite forallb_forall in Hfr.
    apply Qle_bool_iff. apply Hfr. exact Hf.
  - intros c t Hin Hc. unfold signs_ok in Hsg. rewrite forallb_forall in Hsg.
    specialize (Hsg (c, t) Hin). apply sign_item_ok_iff in Hsg. apply Hsg. exact Hc.
  - intros c t Hin Hc. unfold signs_ok in Hsg. rewrite forallb_forall in Hsg.
    specialize (Hsg (c, t) Hin). apply sign_item_ok_iff in Hsg. apply Hsg. exact Hc.
  - intros Hr v lo hi Hin. unfold range_ok in Hrng. rewrite Hr in Hrng. simpl in Hrng.
    rewrite <- forallb_app in Hrng. rewrite forallb_forall in Hrng.
    apply rng_item_ok_iff. apply Hrng. exact Hin.
Qed.

(* ---------- completeness: the checker rejects nothing that satisfies the relation *)
Theorem check_inverse_complete_lemma pb md : admissible pb md -> check_inverse_model pb md = true.
Proof.
  intros [Hshape Hbal Hadj Hfr Hdis Hpre Hrng].
  unfold check_inverse_model. rewrite !andb_true_iff. repeat split.
  - exact Hshape.
  - unfold balance_ok. apply forallb_forall. intros r Hr. apply Qle_bool_iff. apply Hbal. exact Hr.
  - unfold adj_ok. apply andb_true_iff. split.
    + apply forallb_forall. intros r Hr. apply forallb_forall. intros v Hv.
      unfold vrow_adj_ok. apply forallb_forall. intros [[f e] b] Hin.
      apply adj_item_ok_iff. apply (Hadj v); [right; exists r; split; assumption | exact Hin].
    + apply forallb_forall. intros v Hv.
      unfold vrow_adj_ok. apply forallb_forall. intros [[f e] b] Hin.
      apply adj_item_ok_iff. apply (Hadj v); [left; exact Hv | exact Hin].
  - unfold fractions_ok. apply forallb_forall. intros f Hf. apply Qle_bool_iff. apply Hfr. exact Hf.
  - unfold signs_ok. apply forallb_forall. intros [c t] Hin. apply sign_item_ok_iff. split.
    + apply Hdis. exact Hin.
    + apply Hpre. exact Hin.
  - unfold range_ok. destruct (p_range pb) eqn:Hr; simpl; [|reflexivity].
    rewrite <- forallb_app. apply forallb_forall. intros [v [lo hi]] Hin.
    apply rng_item_ok_iff. apply Hrng; [reflexivity | exact Hin].
Qed.

(* ---------- shape: what shape_ok says in terms of lengths *)
Lemma lenb_true {A} (l : list A) n : lenb l n = true <-> length l = n.
Proof. unfold lenb. apply Nat.eqb_eq. Qed.

Lemma shape_ok_lengths pb md : shape_ok pb md = true ->
  length (p_sgn pb) = length (m_fr md) /\ length (p_cons pb) = length (m_tr md) /\
  (forall r, In r (m_rows md) -> length (e_c r) = length (m_tr md) /\
     forall v, In v (e_states r) ->
       length (v_T v) = length (m_fr md) /\ length (v_e v) = length (m_fr md) /\ length (v_b v) = length (m_fr md)).
Proof.
  unfold shape_ok. rewrite !andb_true_iff. intros [[[[H1 H2] H3] _] _].
  apply lenb_true in H1. apply lenb_true in H2. repeat split; try assumption.
  - rewrite forallb_forall in H3. specialize (H3 r H). rewrite andb_true_iff in H3.
    apply lenb_true. apply H3.
  - rewrite forallb_forall in H3. specialize (H3 r H). rewrite andb_true_iff in H3.
    destruct H3 as [H3 _]. rewrite forallb_forall in H3. specialize (H3 v H0).
    unfold vrow_shape in H3. rewrite !andb_true_iff in H3. apply lenb_true. apply H3.
  - rewrite forallb_forall in H3. specialize (H3 r H). rewrite andb_true_iff in H3.
    destruct H3 as [H3 _]. rewrite forallb_forall in H3. specialize (H3 v H0).
    unfold vrow_shape in H3. rewrite !andb_true_iff in H3. apply lenb_true. apply H3.
  - rewrite forallb_forall in H3. specialize (H3 r H). rewrite andb_true_iff in H3.
    destruct H3 as [H3 _]. rewrite forallb_forall in H3. specialize (H3 v H0).
    unfold vrow_shape in H3. rewrite !andb_true_iff in H3. apply lenb_true. apply H3.
Qed.

(* ---------- the "delta" form of the statement (what the property text writes) *)
(* Sum_s sg_s f_s (T_s + delta_s) *)
Fixpoint mixd (sg f T d : list Q) : Q :=
  match sg, f, T, d with
  | g :: sg', x :: f', t :: T', y :: d' => g * (x * (t + y)) + mixd sg' f' T' d'
  | _, _, _, _ => 0
  end.

Fixpoint mul2 (a b : list Q) : list Q :=
  match a, b with
  | x :: a', y :: b' => x * y :: mul2 a' b'
  | _, _ => []
  end.

(* if the reported eps are  f * delta  then the residual the checker bounds is exactly the textbook sum *)
Lemma balance_delta_form_lemma : forall sg f T d, mix sg f T (mul2 f d) == mixd sg f T d.
Proof.
  induction sg as [|g sg IH]; intros f T d; [reflexivity|].
  destruct f as [|x f]; [reflexivity|]. destruct T as [|t T]; [reflexivity|].
  destruct d as [|y d]; [reflexivity|]. simpl. rewrite IH. ring.
Qed.

(* |eps| <= b f + tol  with  f > 0  means  |eps / f| <= b + tol / f *)
Lemma adj_delta_form_lemma f e b tol : 0 < f -> Qabs e <= b * f + tol -> Qabs (e / f) <= b + tol / f.
Proof.
  intros Hf H.
  assert (Hf' : ~ f == 0) by (intro E; rewrite E in Hf; apply (Qlt_irrefl 0); exact Hf).
  unfold Qdiv at 1. rewrite Qabs_Qmult.
  assert (Hinv : 0 < / f) by (apply Qinv_lt_0_compat; exact Hf).
  rewrite (Qabs_pos (/ f)) by (apply Qlt_le_weak; exact Hinv).
  apply Qle_trans with ((b * f + tol) * / f).
  - apply Qmult_le_compat_r; [exact H | apply Qlt_le_weak; exact Hinv].
  - apply Qle_lteq. right. field. exact Hf'.
Qed.

(* f = 0 leaves no room for an adjustment beyond the tolerance *)
Lemma adj_zero_fraction_lemma e b tol : Qabs e <= b * 0 + tol -> Qabs e <= tol.
Proof. intro H. apply Qle_trans with (b * 0 + tol); [exact H|]. apply Qle_lteq. right. ring. Qed.

(* ---------- antichain checker *)
Definition subset_mask (a b : Z) : Prop := Z.land a b = a.

Lemma subsetZ_iff a b : subsetZ a b = true <-> subset_mask a b.
Proof. unfold subsetZ, subset_mask. apply Z.eqb_eq. Qed.

Lemma subset_mask_bits a b : subset_mask a b <-> forall i, Z.testbit a i = true -> Z.testbit b i = true.
Proof.
  unfold subset_mask. split.
  - intros H i Ha. rewrite <- H in Ha. rewrite Z.land_spec in Ha. apply andb_true_iff in Ha. apply Ha.
  - intros H. apply Z.bits_inj'. intros i _. rewrite Z.land_spec.
    destruct (Z.testbit a i) eqn:Ha; [|reflexivity]. rewrite (H i Ha). reflexivity.
Qed.

Definition antichain (l : list Z) : Prop :=
  forall a b, In a l -> In b l -> subset_mask a b -> a = b.

Lemma antichain_b_iff_lemma l : antichain_b l = true <-> antichain l.
Proof.
  unfold antichain_b, antichain. split.
  - intros H a b Ha Hb Hsub. rewrite forallb_forall in H. specialize (H a Ha).
    rewrite forallb_forall in H. specialize (H b Hb).
    unfold strict_subsetZ in H. apply subsetZ_iff in Hsub. rewrite Hsub in H. simpl in H.
    rewrite negb_involutive in H. apply Z.eqb_eq. exact H.
  - intros H. apply forallb_forall. intros a Ha. apply forallb_forall. intros b Hb.
    unfold strict_subsetZ. destruct (subsetZ a b) eqn:Hs; [|reflexivity]. simpl.
    rewrite negb_involutive. apply Z.eqb_eq. apply H; try assumption. apply subsetZ_iff. exact Hs.
Qed.

(* ---------- non-vacuity: a small admissible model (calcite dissolution, 1 element Ca, 1 phase) *)
Example ex_pb : problem :=
  {| p_sgn := [1; -1]; p_cons := [1%Z]; p_range := true; p_tolb := 1#1000000; p_tolu := 0; p_tolr := 0 |}.
Example ex_md : model :=
  {| m_fr := [1; 1]; m_tr := [1#2];
     m_rows := [ {| e_states := [ {| v_T := [1; 3#2]; v_e := [1#100; 1#100]; v_b := [1#10; 1#10] |} ]; e_c := [1]; e_k := 0 |} ];
     m_extra := []; m_frng := [(1,1); (1,1)]; m_trng := [(1#4, 3#4)] |}.
Example ex_admissible : admissible ex_pb ex_md.
Proof. apply check_inverse_sound_lemma. vm_compute. reflexivity. Qed.
Example ex_antichain : antichain [5%Z; 6%Z; 3%Z].
Proof. apply antichain_b_iff_lemma. vm_compute. reflexivity. Qed.
