(* C18 — the entry that setup_inverse (inverse.cpp) writes into a candidate phase's column of the
   mole-balance matrix, as an expression of
       rc = rxn_ptr->token[j].coef   (coefficient of the master species in the phase's reaction)
       mc = master_ptr->coef         (atoms of the element per master species: 2 for N2, O2, H2)
   The translator (translator/c18_setup.py) transliterates the straight-line code of the loop body
   (local `coef`, its guard, the assigned product) into [qexpr]; its meaning is [qeval].
   (model file: definitions only) *)
From Coq Require Import QArith.
Open Scope Q_scope.

Inductive qexpr :=
| QRc | QMc
| QConst (q : Q)
| QMul (a b : qexpr) | QDiv (a b : qexpr)
| QIfLe (a b t e : qexpr)      (* if a <= b then t else e *)
| QIfLt (a b t e : qexpr).     (* if a <  b then t else e *)

Fixpoint qeval (x : qexpr) (rc mc : Q) : Q :=
  match x with
  | QRc => rc | QMc => mc
  | QConst q => q
  | QMul a b => qeval a rc mc * qeval b rc mc
  | QDiv a b => qeval a rc mc / qeval b rc mc
  | QIfLe a b t e => if Qle_bool (qeval a rc mc) (qeval b rc mc) then qeval t rc mc else qeval e rc mc
  | QIfLt a b t e => if Qle_bool (qeval b rc mc) (qeval a rc mc) then qeval e rc mc else qeval t rc mc
  end.
