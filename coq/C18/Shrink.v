(* C18 — the sign-constraint vector in shrink() (inverse.cpp).  shrink removes the columns of the phases / solutions
   that are not in the current sub-model and compacts the kept ones in order; the dissolve / precipitate /
   non-negativity constraint of a kept column must travel with it and nothing else may change the vector.
   Model of the column-rewrite loop restricted to the sign vector:
        cur = 0; for i: if keep[i] { if (cur != i) delta[cur] = delta[i]; cur++; }
   (in place; correct because cur <= i, so position i has not been overwritten when it is read). *)
From Coq Require Import List Bool Arith Lia.
Import ListNotations.

(* specification: the kept entries, in order *)
Fixpoint compact {A} (keep : list bool) (v : list A) : list A :=
  match keep, v with
  | true :: k', x :: v' => x :: compact k' v'
  | false :: k', _ :: v' => compact k' v'
  | _, _ => []
  end.

(* the in-place loop: [done] = already compacted prefix (positions < cur), [rest] = positions >= i not yet read *)
Fixpoint inplace {A} (keep : list bool) (done rest : list A) : list A :=
  match keep, rest with
  | true :: k', x :: r' => inplace k' (done ++ [x]) r'
  | false :: k', _ :: r' => inplace k' done r'
  | _, _ => done
  end.

Lemma inplace_compact {A} : forall keep (done rest : list A), inplace keep done rest = done ++ compact keep rest.
Proof.
  induction keep as [|b k IH]; intros done rest; simpl.
  - destruct rest; rewrite app_nil_r; reflexivity.
  - destruct b, rest as [|x r]; simpl; try (rewrite app_nil_r; reflexivity).
    + rewrite IH, <- app_assoc. reflexivity.
    + apply IH.
Qed.

(* the sign handed to cl1 for the j-th kept column is the sign declared for the original column it came from *)
Fixpoint kept_indices (keep : list bool) (i : nat) : list nat :=
  match keep with
  | [] => []
  | true :: k' => i :: kept_indices k' (S i)
  | false :: k' => kept_indices k' (S i)
  end.

Lemma compact_nth {A} (d : A) : forall keep v i0, length keep = length v ->
  compact keep v = map (fun i => nth (i - i0) v d) (kept_indices keep i0).
Proof.
  induction keep as [|b k IH]; intros v i0 Hlen; [reflexivity|].
  destruct v as [|x v']; [discriminate|]. simpl in Hlen. injection Hlen as Hlen.
  assert (Hshift : forall l, (forall i, In i l -> S i0 <= i) -> map (fun i => nth (i - S i0) v' d) l = map (fun i => nth (i - i0) (x :: v') d) l).
  { intros l Hl. apply map_ext_in. intros i Hi. specialize (Hl i Hi). replace (i - i0) with (S (i - S i0)) by lia. reflexivity. }
  assert (Hge : forall k' j i, In i (kept_indices k' j) -> j <= i).
  { induction k' as [|b' k'' IHk]; intros j i Hi; [contradiction|]. destruct b'; simpl in Hi.
    - destruct Hi as [<-|Hi]; [lia | specialize (IHk (S j) i Hi); lia].
    - specialize (IHk (S j) i Hi). lia. }
  destruct b; simpl.
  - rewrite Nat.sub_diag. simpl. f_equal. rewrite (IH v' (S i0) Hlen). apply Hshift. intros i Hi. apply (Hge k (S i0) i Hi).
  - rewrite (IH v' (S i0) Hlen). apply Hshift. intros i Hi. apply (Hge k (S i0) i Hi).
Qed.
