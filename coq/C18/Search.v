(* C18 — executable model of the subset search of solve_inverse / minimal_solve (inverse.cpp) on bit
   masks (model file: definitions only; proofs in SearchProofs.v).

   Masks are non-negative Z: bit i (i < nph) = candidate phase i, bit nph+j = solution j; the final
   solution is the top bit.  What the model contains, line by line from the C++:
     - solve_inverse: the three nested loops (soln_bits descending; model_size descending;
       next_set_phases enumerating the phase subsets of that size in lexicographic order), the
       `quit` / `first` flags, the skip tests subset_bad / subset_minimal / superset_minimal, the
       book-keeping lists good / bad / minimal (save_good, save_bad, save_minimal), the two places
       where a model is reported (print_model + punch_model), count_calls (incl. the 2 cl1 calls per
       active unknown of range());
     - minimal_solve: the sequential removal of bits 0 .. nph+nsol-2, the final re-solve whose
       support is returned.
   What it does NOT contain: the LP.  solve_with_mask (shrink + cl1 + the extraction of the set of
   non-zero unknowns with equal(x,0,TOL)) is the Section variable [solve]; it returns (kode = 0, support).
   The three subset tests are Section variables too; Props instantiates them with the tests
   regenerated from the current source (Gen_C18_bits.v). *)
From Coq Require Import ZArith List Bool.
Import ListNotations.
Open Scope Z_scope.

Section Search.

Variable sup_min_test : Z -> Z -> bool.   (* superset_minimal: loop body test (bits, minimal[i]) *)
Variable sub_bad_test : Z -> Z -> bool.   (* subset_bad:       loop body test (bits, bad[i])     *)
Variable sub_min_test : Z -> Z -> bool.   (* subset_minimal:   loop body test (bits, minimal[i]) *)
Variable solve : Z -> bool * Z.           (* solve_with_mask + support extraction                *)

Variable nph nsol : nat.
Variable minimal_opt : bool.              (* -minimal *)
Variable range_opt : bool.                (* -range   *)
Variable force_mask : Z.                  (* forced phases / solutions (only range() uses it)   *)

Record report := {
  r_mask : Z;        (* mask saved in good[] for the model that is printed            *)
  r_solved : Z;      (* mask of the last solve_with_mask call: its vector is printed  *)
  r_good : list Z; r_bad : list Z; r_minimal : list Z;   (* lists at the time of punch_model *)
  r_calls : Z
}.

Record state := {
  good : list Z; bad : list Z; minimal : list Z;
  calls : Z;
  first : bool;
  reports : list report      (* most recent first *)
}.

(* count_calls starts at nsol: check_solns() makes one cl1 call per solution before the search *)
Definition init : state :=
  {| good := []; bad := []; minimal := []; calls := Z.of_nat nsol; first := true; reports := [] |}.

Definition superset_minimal (st : state) (bits : Z) : bool := existsb (sup_min_test bits) (minimal st).
Definition subset_bad (st : state) (bits : Z) : bool := existsb (sub_bad_test bits) (bad st).
Definition subset_minimal (st : state) (bits : Z) : bool := existsb (sub_min_test bits) (minimal st).

Definition save_good (b : Z) (st : state) : state :=
  {| good := good st ++ [b]; bad := bad st; minimal := minimal st; calls := calls st; first := first st; reports := reports st |}.
Definition save_bad (b : Z) (st : state) : state :=
  {| good := good st; bad := bad st ++ [b]; minimal := minimal st; calls := calls st; first := first st; reports := reports st |}.
Definition save_minimal (b : Z) (st : state) : state :=
  {| good := good st; bad := bad st; minimal := minimal st ++ [b]; calls := calls st; first := first st; reports := reports st |}.
Definition add_calls (n : Z) (st : state) : state :=
  {| good := good st; bad := bad st; minimal := minimal st; calls := calls st + n; first := first st; reports := reports st |}.
Definition set_first (f : bool) (st : state) : state :=
  {| good := good st; bad := bad st; minimal := minimal st; calls := calls st; first := f; reports := reports st |}.

Definition W : Z := Z.of_nat (nph + nsol).

Fixpoint popcount_upto (n : nat) (b : Z) : Z :=
  match n with
  | O => 0
  | S n' => (if Z.testbit b (Z.of_nat n') then 1 else 0) + popcount_upto n' b
  end.

(* range(): forced bits are switched on, then two cl1 calls for every set bit except the final solution *)
Definition range_calls (b : Z) : Z :=
  2 * popcount_upto (nph + nsol - 1) (Z.lor b force_mask).

(* save_good + range + print_model + punch_model *)
Definition report_model (b solved : Z) (st : state) : state :=
  let st1 := save_good b st in
  let st2 := if range_opt then add_calls (range_calls b) st1 else st1 in
  {| good := good st2; bad := bad st2; minimal := minimal st2; calls := calls st2; first := first st2;
     reports := {| r_mask := b; r_solved := solved; r_good := good st2; r_bad := bad st2;
                   r_minimal := minimal st2; r_calls := calls st2 |} :: reports st2 |}.

Definition memZ (x : Z) (l : list Z) : bool := existsb (Z.eqb x) l.

(* ---- minimal_solve *)
Definition min_step (acc : Z * state) (i : nat) : Z * state :=
  let '(mb, st) := acc in
  if negb (Z.testbit mb (Z.of_nat i)) then acc
  else
    let mb' := Z.clearbit mb (Z.of_nat i) in
    if subset_bad st mb' then acc
    else
      let st1 := add_calls 1 st in
      if fst (solve mb') then (mb', st1) else (mb, save_bad mb' st1).

Definition minimal_loop (g : Z) (st : state) : Z * state :=
  fold_left min_step (seq 0 (nph + nsol - 1)) (g, st).

(* returns (actual_bits, mask of the final solve, state) *)
Definition minimal_solve (g : Z) (st : state) : Z * Z * state :=
  let '(mb, st1) := minimal_loop g st in
  (snd (solve mb), mb, add_calls 1 st1).

(* ---- body of the while loop of solve_inverse for one current_bits *)
Inductive outcome := Skipped | Visited | Broke.

Definition visit (st : state) (cur : Z) : state * outcome :=
  if subset_bad st cur || subset_minimal st cur then (st, Skipped)
  else if minimal_opt && superset_minimal st cur then (st, Visited)
  else
    let st0 := add_calls 1 st in
    let '(ok, s) := solve cur in
    if negb ok then
      let st1 := save_bad cur st0 in
      if first st then (st1, Broke) else (st1, Visited)
    else
      let st1 := set_first false st0 in
      let g := Z.land cur s in
      let st2 := if negb (memZ g (good st1)) && negb minimal_opt then report_model g cur st1 else st1 in
      if superset_minimal st2 g then (st2, Visited)
      else
        let '(mb, solved, st3) := minimal_solve g st2 in
        let st4 := if memZ mb (good st3) then st3 else report_model mb solved st3 in
        (save_minimal mb st4, Visited).

(* while (next_set_phases(...)) over the masks of one (soln_bits, model_size); returns (state, quit, broke) *)
Fixpoint run_masks (l : list Z) (st : state) (quit : bool) : state * bool :=
  match l with
  | [] => (st, quit)
  | cur :: l' =>
      match visit st cur with
      | (st', Skipped) => run_masks l' st' quit
      | (st', Visited) => run_masks l' st' false
      | (st', Broke) => (st', true)
      end
  end.

(* next_set_phases: the k-subsets of {0..n-1} in lexicographic order of the index vector now[] *)
Fixpoint combos (k lo n : nat) : list (list nat) :=
  match k with
  | O => [[]]
  | S k' => flat_map (fun a => map (cons a) (combos k' (S a) n)) (seq lo (n - k' - lo))
  end.

Definition bits_of (l : list nat) : Z := fold_right (fun i acc => Z.shiftl 1 (Z.of_nat i) + acc) 0 l.

Definition masks_of_size (soln_bits : Z) (k : nat) : list Z :=
  map (fun c => Z.shiftl soln_bits (Z.of_nat nph) + bits_of c) (combos k 0 nph).

(* for (model_size = nph; model_size >= 0; model_size--) { ...; if (quit) break; } *)
Fixpoint run_sizes (soln_bits : Z) (sizes : list nat) (st : state) : state :=
  match sizes with
  | [] => st
  | k :: rest =>
      let '(st', quit) := run_masks (masks_of_size soln_bits k) st true in
      if quit then st' else run_sizes soln_bits rest st'
  end.

(* soln_bits from 2^nsol - 1 down to 2^(nsol-1) + 1 *)
Definition soln_values : list Z :=
  map (fun i => Z.shiftl 1 (Z.of_nat nsol) - 1 - Z.of_nat i) (seq 0 (Z.to_nat (Z.shiftl 1 (Z.of_nat (nsol - 1)) - 1))).

Definition search : state :=
  fold_left (fun st sb => run_sizes sb (rev (seq 0 (S nph))) st) soln_values init.

End Search.

(* ---- table oracle used by the correspondence run *)
Fixpoint lookup (t : list (Z * (bool * Z))) (m : Z) : bool * Z :=
  match t with
  | [] => (false, 0)
  | (k, v) :: t' => if Z.eqb k m then v else lookup t' m
  end.
