(* C18 — theorems about the subset-search model of Search.v (for ALL oracles, ALL problem sizes,
   ALL visiting orders: induction over the search as implemented). *)
From Coq Require Import ZArith List Bool Lia.
From IPV Require Import C18.Search.
Import ListNotations.
Open Scope Z_scope.

Definition subset (a b : Z) : Prop := forall i, Z.testbit a i = true -> Z.testbit b i = true.
(* strict inclusion, constructively: included and some bit of b is missing in a *)
Definition ssubset (a b : Z) : Prop := subset a b /\ exists i, Z.testbit b i = true /\ Z.testbit a i = false.

Lemma subset_refl a : subset a a.
Proof. intros i H; exact H. Qed.

Lemma subset_trans a b c : subset a b -> subset b c -> subset a c.
Proof. intros H1 H2 i H. apply H2, H1, H. Qed.

Lemma subset_antisym a b : subset a b -> subset b a -> a = b.
Proof.
  intros H1 H2. apply Z.bits_inj'. intros n _.
  destruct (Z.testbit a n) eqn:Ha.
  - symmetry. apply H1. exact Ha.
  - destruct (Z.testbit b n) eqn:Hb; [|reflexivity]. rewrite (H2 n Hb) in Ha. discriminate.
Qed.

Lemma nonzero_has_bit d : d <> 0 -> exists i, Z.testbit d i = true.
Proof.
  intros Hd. destruct (Z_lt_le_dec 0 d) as [Hpos | Hle].
  - exists (Z.log2 d). apply Z.bit_log2. exact Hpos.
  - assert (Hneg : d < 0) by lia.
    exists (Z.log2 (Z.abs d) + 1). apply (Z.bits_iff_neg d); [lia | exact Hneg].
Qed.

(* a included in b: either equal or strictly included (decidable on Z, no classical axiom) *)
Lemma subset_cases a b : subset a b -> a = b \/ ssubset a b.
Proof.
  intros Hab. destruct (Z.eq_dec (Z.ldiff b a) 0) as [E | NE].
  - left. apply subset_antisym; [exact Hab|].
    intros i Hb. destruct (Z.testbit a i) eqn:Ha; [reflexivity|].
    assert (Z.testbit (Z.ldiff b a) i = true) by (rewrite Z.ldiff_spec, Hb, Ha; reflexivity).
    rewrite E, Z.bits_0 in H. discriminate.
  - right. split; [exact Hab|]. destruct (nonzero_has_bit _ NE) as [i Hi].
    rewrite Z.ldiff_spec in Hi. apply andb_true_iff in Hi. destruct Hi as [Hb Ha].
    exists i. split; [exact Hb|]. destruct (Z.testbit a i); [discriminate | reflexivity].
Qed.

Lemma subset_land_l a b : subset (Z.land a b) a.
Proof. intros i H. rewrite Z.land_spec in H. apply andb_true_iff in H. apply H. Qed.

Lemma subset_clearbit a n : subset (Z.clearbit a n) a.
Proof. intros i H. apply Z.clearbit_iff in H. apply H. Qed.

Lemma ForallOrdPairs_snoc {A} (R : A -> A -> Prop) l b :
  ForallOrdPairs R l -> Forall (fun a => R a b) l -> ForallOrdPairs R (l ++ [b]).
Proof.
  induction 1 as [|a l Ha Hl IH]; intros Hb; simpl.
  - constructor; constructor.
  - inversion Hb as [|? ? Hab Hb']; subst. constructor.
    + apply Forall_app. split; [exact Ha | constructor; [exact Hab | constructor]].
    + apply IH. exact Hb'.
Qed.

Lemma memZ_true x l : memZ x l = true <-> In x l.
Proof.
  unfold memZ. rewrite existsb_exists. split.
  - intros [y [Hy E]]. apply Z.eqb_eq in E. subst. exact Hy.
  - intros H. exists x. split; [exact H | apply Z.eqb_refl].
Qed.

(* ---- generic: an invariant preserved by [visit] is preserved by the whole nested search *)
Section Generic.
Variable sup_min_test sub_bad_test sub_min_test : Z -> Z -> bool.
Variable solve : Z -> bool * Z.
Variable nph nsol : nat.
Variable minimal_opt range_opt : bool.
Variable force_mask : Z.
Let visitG := visit sup_min_test sub_bad_test sub_min_test solve nph nsol minimal_opt range_opt force_mask.
Variable P : state -> Prop.
Hypothesis Hvisit : forall st cur, P st -> P (fst (visitG st cur)).

Lemma run_masks_pres l : forall st q, P st ->
  P (fst (run_masks sup_min_test sub_bad_test sub_min_test solve nph nsol minimal_opt range_opt force_mask l st q)).
Proof.
  induction l as [|cur l IH]; intros st q HP; simpl; [exact HP|].
  specialize (Hvisit st cur HP). fold visitG. destruct (visitG st cur) as [st' o]. simpl in Hvisit.
  destruct o; simpl; auto.
Qed.

Lemma run_sizes_pres sb sizes : forall st, P st ->
  P (run_sizes sup_min_test sub_bad_test sub_min_test solve nph nsol minimal_opt range_opt force_mask sb sizes st).
Proof.
  induction sizes as [|k rest IH]; intros st HP; simpl; [exact HP|].
  pose proof (run_masks_pres (masks_of_size nph sb k) st true HP) as H.
  destruct (run_masks sup_min_test sub_bad_test sub_min_test solve nph nsol minimal_opt range_opt force_mask
              (masks_of_size nph sb k) st true) as [st' q]. simpl in H.
  destruct q; auto.
Qed.

Lemma search_pres : P (init nsol) ->
  P (search sup_min_test sub_bad_test sub_min_test solve nph nsol minimal_opt range_opt force_mask).
Proof.
  intros H0. unfold search.
  generalize (soln_values nsol). intros l. revert H0. generalize (init nsol).
  induction l as [|sb l IH]; intros st HP; simpl; [exact HP|].
  apply IH. apply run_sizes_pres. exact HP.
Qed.
End Generic.

Section Proofs.

Variable sup_min_test sub_bad_test sub_min_test : Z -> Z -> bool.
Variable solve : Z -> bool * Z.
Variable nph nsol : nat.
Variable range_opt : bool.
Variable force_mask : Z.

(* the three loop-body tests decide the inclusions their names promise *)
Hypothesis Hsup : forall b m, sup_min_test b m = true <-> subset m b.
Hypothesis Hbad : forall b m, sub_bad_test b m = true <-> subset b m.

(* structural fact about solve_with_mask: unknowns outside the mask are absent from the tableau *)
Hypothesis H_sub : forall m, subset (snd (solve m)) m.

Let Wd := Z.of_nat (nph + nsol).
Let feasible (m : Z) := fst (solve m) = true.

(* all functions below are the -minimal instance of the model *)
Let visitM := visit sup_min_test sub_bad_test sub_min_test solve nph nsol true range_opt force_mask.
Let min_stepM := min_step sub_bad_test solve.
Let min_solveM := minimal_solve sub_bad_test solve nph nsol.
Let reportM := report_model nph nsol range_opt force_mask.
Let searchM := search sup_min_test sub_bad_test sub_min_test solve nph nsol true range_opt force_mask.

Lemma superset_minimal_true st b :
  superset_minimal sup_min_test st b = true <-> exists m, In m (minimal st) /\ subset m b.
Proof.
  unfold superset_minimal. rewrite existsb_exists. split; intros [m [Hm H]]; exists m; split; auto; apply Hsup; exact H.
Qed.

Lemma subset_bad_true st b :
  subset_bad sub_bad_test st b = true <-> exists m, In m (bad st) /\ subset b m.
Proof.
  unfold subset_bad. rewrite existsb_exists. split; intros [m [Hm H]]; exists m; split; auto; apply Hbad; exact H.
Qed.

Lemma report_good b s st : good (reportM b s st) = good st ++ [b].
Proof. unfold reportM, report_model. destruct range_opt; reflexivity. Qed.
Lemma report_bad b s st : bad (reportM b s st) = bad st.
Proof. unfold reportM, report_model. destruct range_opt; reflexivity. Qed.
Lemma report_minimal b s st : minimal (reportM b s st) = minimal st.
Proof. unfold reportM, report_model. destruct range_opt; reflexivity. Qed.

(* ---- minimal_solve, any oracle: the result is inside the starting mask; good / minimal untouched *)
Lemma min_loop_basic g st l :
  let r := fold_left min_stepM l (g, st) in
  subset (fst r) g /\ good (snd r) = good st /\ minimal (snd r) = minimal st.
Proof.
  revert g st. induction l as [|i l IH]; intros g st.
  - simpl. repeat split; auto using subset_refl.
  - cbv zeta. change (fold_left min_stepM (i :: l) (g, st)) with (fold_left min_stepM l (min_stepM (g, st) i)).
    set (r1 := min_stepM (g, st) i).
    assert (H1 : subset (fst r1) g /\ good (snd r1) = good st /\ minimal (snd r1) = minimal st).
    { unfold r1, min_stepM, min_step.
      destruct (negb (Z.testbit g (Z.of_nat i))); simpl; [repeat split; auto using subset_refl|].
      destruct (subset_bad sub_bad_test st (Z.clearbit g (Z.of_nat i))); simpl; [repeat split; auto using subset_refl|].
      destruct (fst (solve (Z.clearbit g (Z.of_nat i)))); simpl; repeat split; auto using subset_refl, subset_clearbit. }
    destruct r1 as [g1 st1]. simpl in H1. destruct H1 as [Ha [Hb Hc]].
    specialize (IH g1 st1). simpl in IH. destruct IH as [Ia [Ib Ic]].
    repeat split.
    + eapply subset_trans; eassumption.
    + congruence.
    + congruence.
Qed.

Lemma min_solve_basic g st :
  let '(a, _, st') := min_solveM g st in
  subset a g /\ good st' = good st /\ minimal st' = minimal st.
Proof.
  unfold min_solveM, minimal_solve, minimal_loop.
  pose proof (min_loop_basic g st (seq 0 (nph + nsol - 1))) as H. simpl in H.
  fold min_stepM. destruct (fold_left min_stepM (seq 0 (nph + nsol - 1)) (g, st)) as [mb st1]. simpl in H.
  destruct H as [Ha [Hb Hc]]. repeat split; auto.
  eapply subset_trans; [apply H_sub | exact Ha].
Qed.

(* ---- T0: for ANY oracle, a model reported later never contains one reported earlier *)
Definition Inv0 (st : state) : Prop :=
  good st = minimal st /\ ForallOrdPairs (fun a b => ~ subset a b) (minimal st).

Lemma visit_inv0 st cur : Inv0 st -> Inv0 (fst (visitM st cur)).
Proof.
  intros [Hgm Hfop]. unfold visitM, visit.
  destruct (subset_bad sub_bad_test st cur || subset_minimal sub_min_test st cur); [split; assumption|].
  simpl andb.
  destruct (superset_minimal sup_min_test st cur); [split; assumption|].
  destruct (solve cur) as [ok s] eqn:Hsolve.
  destruct ok; simpl negb; cbv iota.
  2:{ destruct (first st); simpl; split; assumption. }
  rewrite andb_false_r.
  set (st1 := set_first false (add_calls 1 st)).
  assert (Hg1 : good st1 = good st) by reflexivity.
  assert (Hm1 : minimal st1 = minimal st) by reflexivity.
  destruct (superset_minimal sup_min_test st1 (Z.land cur s)) eqn:Hss.
  { simpl. split; [congruence | rewrite Hm1; exact Hfop]. }
  pose proof (min_solve_basic (Z.land cur s) st1) as Hms. fold min_solveM.
  destruct (min_solveM (Z.land cur s) st1) as [[mb solved] st3].
  destruct Hms as [Hsub [Hg3 Hm3]].
  assert (Hnone : forall a, In a (minimal st) -> ~ subset a mb).
  { intros a Ha Hs. assert (superset_minimal sup_min_test st1 (Z.land cur s) = true).
    { apply superset_minimal_true. exists a. split; [rewrite Hm1; exact Ha | eapply subset_trans; eassumption]. }
    congruence. }
  destruct (memZ mb (good st3)) eqn:Hmem.
  { exfalso. apply memZ_true in Hmem. rewrite Hg3, Hg1, Hgm in Hmem. apply (Hnone mb Hmem). apply subset_refl. }
  simpl. fold reportM. unfold Inv0, save_minimal. cbn [good minimal]. split.
  - rewrite report_good, report_minimal. congruence.
  - rewrite report_minimal, Hm3, Hm1. apply ForallOrdPairs_snoc; [exact Hfop|].
    apply Forall_forall. exact Hnone.
Qed.

Theorem later_model_never_contains_earlier_lemma :
  ForallOrdPairs (fun a b => ~ subset a b) (good searchM).
Proof.
  assert (H : Inv0 searchM).
  { unfold searchM. apply search_pres.
    - intros st cur Hst. apply visit_inv0. exact Hst.
    - split; [reflexivity | constructor]. }
  destruct H as [Hgm Hfop]. rewrite Hgm. exact Hfop.
Qed.

(* ---- T1: with a consistent feasibility oracle the reported models form an antichain *)
Section Consistent.
(* the support is extracted from the first nph+nsol unknowns only *)
Hypothesis H_width : forall m i, Wd <= i -> Z.testbit (snd (solve m)) i = false.
(* adding candidates keeps a feasible problem feasible *)
Hypothesis H_mono : forall a b, feasible a -> subset a b -> feasible b.
(* the non-zero unknowns of a solution suffice for a solution *)
Hypothesis H_supp : forall a, feasible a -> feasible (snd (solve a)).
(* the fraction of the final solution is fixed to 1: it is in every model *)
Hypothesis H_top : forall a, feasible a -> Z.testbit a (Wd - 1) = true.

Definition min_ok (m : Z) : Prop := feasible m /\ forall x, ssubset x m -> ~ feasible x.

Definition Inv1 (st : state) : Prop :=
  incl (good st) (minimal st) /\ (forall b, In b (bad st) -> ~ feasible b) /\ (forall m, In m (minimal st) -> min_ok m).

Lemma min_loop_full g st k :
  (forall b, In b (bad st) -> ~ feasible b) -> feasible g ->
  let r := fold_left min_stepM (seq 0 k) (g, st) in
  feasible (fst r) /\ (forall b, In b (bad (snd r)) -> ~ feasible b) /\
  (forall i, (i < k)%nat -> Z.testbit (fst r) (Z.of_nat i) = true -> ~ feasible (Z.clearbit (fst r) (Z.of_nat i))).
Proof.
  intros Hbad0 Hfg. induction k as [|k IH].
  - simpl. repeat split; auto. intros i Hi. lia.
  - rewrite seq_S, fold_left_app. simpl.
    destruct (fold_left min_stepM (seq 0 k) (g, st)) as [mb st1]. simpl in IH.
    destruct IH as [Hf [Hb Hk]].
    unfold min_stepM, min_step.
    destruct (Z.testbit mb (Z.of_nat k)) eqn:Hbit; simpl.
    2:{ repeat split; auto. intros i Hi Hti. destruct (Nat.eq_dec i k) as [->|Hne]; [congruence|]. apply Hk; [lia | exact Hti]. }
    destruct (subset_bad sub_bad_test st1 (Z.clearbit mb (Z.of_nat k))) eqn:Hsb; simpl.
    { repeat split; auto. intros i Hi Hti. destruct (Nat.eq_dec i k) as [->|Hne].
      - apply subset_bad_true in Hsb. destruct Hsb as [b [Hb1 Hb2]]. intro Hfe. apply (Hb b Hb1). eapply H_mono; eassumption.
      - apply Hk; [lia | exact Hti]. }
    destruct (fst (solve (Z.clearbit mb (Z.of_nat k)))) eqn:Hok; simpl.
    + repeat split; auto.
      intros i Hi Hti. destruct (Nat.eq_dec i k) as [->|Hne].
      { rewrite Z.clearbit_eq in Hti. discriminate. }
      assert (Hti' : Z.testbit mb (Z.of_nat i) = true) by (apply Z.clearbit_iff in Hti; apply Hti).
      intro Hfe. apply (Hk i ltac:(lia) Hti'). eapply H_mono; [exact Hfe|].
      intros j Hj. apply Z.clearbit_iff in Hj. destruct Hj as [Hj1 Hj2].
      apply Z.clearbit_iff in Hj1. destruct Hj1 as [Hj1 Hj3]. apply Z.clearbit_iff. split; assumption.
    + repeat split; auto.
      * intros b Hin. apply in_app_or in Hin. destruct Hin as [Hin | [<- | []]]; [apply Hb; exact Hin|].
        unfold feasible. rewrite Hok. discriminate.
      * intros i Hi Hti. destruct (Nat.eq_dec i k) as [->|Hne].
        -- unfold feasible. rewrite Hok. discriminate.
        -- apply Hk; [lia | exact Hti].
Qed.

Lemma min_solve_full g st :
  (forall b, In b (bad st) -> ~ feasible b) -> feasible g ->
  let '(a, _, st') := min_solveM g st in
  min_ok a /\ (forall b, In b (bad st') -> ~ feasible b).
Proof.
  intros Hbad0 Hfg. unfold min_solveM, minimal_solve, minimal_loop. fold min_stepM.
  pose proof (min_loop_full g st (nph + nsol - 1) Hbad0 Hfg) as H. simpl in H.
  destruct (fold_left min_stepM (seq 0 (nph + nsol - 1)) (g, st)) as [mb st1]. simpl in H.
  destruct H as [Hf [Hb Hk]]. split; [|exact Hb].
  split; [apply H_supp; exact Hf|].
  intros x [Hxa [i [Hai Hxi]]] Hfx.
  assert (Hi0 : 0 <= i).
  { destruct (Z_lt_le_dec i 0) as [Hneg|]; [|assumption]. rewrite (Z.testbit_neg_r _ _ Hneg) in Hai. discriminate. }
  assert (Hmbi : Z.testbit mb i = true) by (apply (H_sub mb); exact Hai).
  destruct (Z_lt_le_dec i (Z.of_nat (nph + nsol - 1))) as [Hlt | Hge].
  - (* a position the loop went through *)
    assert (Hi : i = Z.of_nat (Z.to_nat i)) by (rewrite Z2Nat.id; auto).
    rewrite Hi in Hmbi. apply (Hk (Z.to_nat i)); [lia | exact Hmbi |].
    eapply H_mono; [exact Hfx|]. intros j Hj. apply Z.clearbit_iff. split.
    + apply (H_sub mb). apply Hxa. exact Hj.
    + rewrite <- Hi. intro E. subst j. congruence.
  - destruct (Z.eq_dec i (Wd - 1)) as [E | NE].
    + subst i. rewrite (H_top x Hfx) in Hxi. discriminate.
    + assert (Wd <= i) by (unfold Wd in *; lia).
      rewrite (H_width mb i H) in Hai. discriminate.
Qed.

Lemma visit_inv1 st cur : Inv1 st -> Inv1 (fst (visitM st cur)).
Proof.
  intros [Hincl [Hbadi Hmini]]. unfold visitM, visit.
  destruct (subset_bad sub_bad_test st cur || subset_minimal sub_min_test st cur); [exact (conj Hincl (conj Hbadi Hmini))|].
  simpl andb.
  destruct (superset_minimal sup_min_test st cur); [exact (conj Hincl (conj Hbadi Hmini))|].
  destruct (solve cur) as [ok s] eqn:Hsolve.
  destruct ok; simpl negb; cbv iota.
  2:{ assert (Hnf : ~ feasible cur) by (unfold feasible; rewrite Hsolve; simpl; discriminate).
      assert (Hb' : forall b, In b (bad st ++ [cur]) -> ~ feasible b).
      { intros b Hin; apply in_app_or in Hin; destruct Hin as [Hin | [<- | []]]; auto. }
      destruct (first st); simpl; exact (conj Hincl (conj Hb' Hmini)). }
  rewrite andb_false_r.
  set (st1 := set_first false (add_calls 1 st)).
  destruct (superset_minimal sup_min_test st1 (Z.land cur s)) eqn:Hss.
  { simpl. exact (conj Hincl (conj Hbadi Hmini)). }
  assert (Hfcur : feasible cur) by (unfold feasible; rewrite Hsolve; reflexivity).
  assert (Hs : s = snd (solve cur)) by (rewrite Hsolve; reflexivity).
  assert (Hg : Z.land cur s = s).
  { apply subset_antisym.
    - intros i Hi. rewrite Z.land_spec in Hi. apply andb_true_iff in Hi. apply Hi.
    - intros i Hi. rewrite Z.land_spec, Hi, andb_true_r. rewrite Hs in Hi. apply (H_sub cur). exact Hi. }
  assert (Hfg : feasible (Z.land cur s)) by (rewrite Hg, Hs; apply H_supp; exact Hfcur).
  pose proof (min_solve_full (Z.land cur s) st1 Hbadi Hfg) as Hfull.
  pose proof (min_solve_basic (Z.land cur s) st1) as Hbasic. fold min_solveM.
  destruct (min_solveM (Z.land cur s) st1) as [[mb solved] st3].
  destruct Hfull as [Hok Hbad3]. destruct Hbasic as [Hsub [Hg3 Hm3]].
  destruct (memZ mb (good st3)) eqn:Hmem; simpl; fold reportM; unfold Inv1, save_minimal; cbn [good bad minimal].
  - split; [|split].
    + rewrite Hg3. intros a Ha. apply in_or_app. left. rewrite Hm3. apply Hincl. exact Ha.
    + exact Hbad3.
    + intros m Hm. rewrite Hm3 in Hm. apply in_app_or in Hm. destruct Hm as [Hm | [<- | []]]; [apply Hmini; exact Hm | exact Hok].
  - split; [|split].
    + rewrite report_good, report_minimal, Hg3, Hm3. intros a Ha. apply in_app_or in Ha. apply in_or_app.
      destruct Ha as [Ha | Ha]; [left; apply Hincl; exact Ha | right; exact Ha].
    + rewrite report_bad. exact Hbad3.
    + rewrite report_minimal, Hm3. intros m Hm. apply in_app_or in Hm.
      destruct Hm as [Hm | [<- | []]]; [apply Hmini; exact Hm | exact Hok].
Qed.

Lemma search_inv1 : Inv1 searchM.
Proof.
  unfold searchM. apply search_pres.
  - intros st cur Hst. apply visit_inv1. exact Hst.
  - split; [|split]; simpl.
    + intros a Ha. exact Ha.
    + intros b Hb0. contradiction.
    + intros m Hm0. contradiction.
Qed.

Theorem minimal_models_antichain_lemma :
  forall a b, In a (good searchM) -> In b (good searchM) -> subset a b -> a = b.
Proof.
  intros a b Ha Hb Hab. destruct search_inv1 as [Hincl [_ Hmin]].
  destruct (subset_cases a b Hab) as [E | Hs]; [exact E|].
  exfalso. destruct (Hmin b (Hincl b Hb)) as [_ Hstrict]. destruct (Hmin a (Hincl a Ha)) as [Hfa _].
  apply (Hstrict a Hs Hfa).
Qed.

Theorem reported_models_feasible_lemma : forall a, In a (good searchM) -> feasible a.
Proof.
  intros a Ha. destruct search_inv1 as [Hincl [_ Hmin]]. apply (Hmin a (Hincl a Ha)).
Qed.

End Consistent.
End Proofs.
