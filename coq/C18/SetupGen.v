(* C18 — obligation on the REGENERATED phase-column entry of setup_inverse (Gen_C18_setup.v):
   entry = reaction coefficient x atoms of the element per master species (and the e- guard: a master
   species with coef <= 0 counts once).  Compared semantically (case analysis + ring), so commuted or
   re-associated products pass. *)
From Coq Require Import QArith Qabs Lqa Bool.
From IPV Require Import C18.Setup Gen.Gen_C18_setup.
Open Scope Q_scope.

Ltac q_cases :=
  repeat match goal with
  | |- context [Qle_bool ?a ?b] =>
      let E := fresh "E" in
      destruct (Qle_bool a b) eqn:E;
      [ apply Qle_bool_iff in E
      | assert (~ a <= b) by (let X := fresh in intro X; apply Qle_bool_iff in X; congruence); clear E ]
  end.

Lemma gen_phase_column_entry_ok : forall rc mc,
  (0 < mc -> qeval gen_phase_column_entry rc mc == rc * mc) /\
  (mc <= 0 -> qeval gen_phase_column_entry rc mc == rc).
Proof.
  intros rc mc. unfold gen_phase_column_entry. cbn [qeval]. split; intro H; q_cases; try ring; exfalso; lra.
Qed.
