(* C18 — executable exact checker for ONE reported inverse model (model file: definitions only).

   What it models.  A reported model of INVERSE_MODELING (inverse.cpp: print_model / punch_model print
   the entries of the solution vector inv_delta1 and of min_delta / max_delta) consists of
     - a mixing fraction  f_s  for every solution (the final solution enters with sign -1),
     - a mole transfer    t_p  for every candidate phase,
     - for every analysed quantity (master species v of element e) and solution s an adjustment.
       The solver's unknown is  eps_{v,s} = f_s * delta_{v,s}  (setup_inverse, "mass-balance: epsilons");
       the printed "Delta" is eps/f.  The checker works on eps so that no division is needed; the
       delta form of the statement is derived in CheckProofs.v (balance_delta_form, adj_delta_form).
     - optionally a [min,max] range for every fraction and transfer (-range).

   The *problem* side (totals T_{v,s}, the stoichiometry c_{e,p} of every phase, the declared bound
   b_{v,s} on |delta_{v,s}|, the dissolve/precipitate constraint of each phase) is supplied by the
   caller from sources independent of inverse.cpp (solution totals, the phase formulas).

   All numbers are exact rationals (Q).  Equalities are checked up to the tolerances given in the
   problem record (the run's -tolerance; see notes/C18.md). *)
From Coq Require Import QArith Qabs List Bool ZArith.
Import ListNotations.
Open Scope Q_scope.

(* one analysed quantity (a master species / valence state) *)
Record vrow := {
  v_T : list Q;    (* per solution: analysed total  T_{v,s}                     *)
  v_e : list Q;    (* per solution: reported  eps_{v,s} = f_s * delta_{v,s}      *)
  v_b : list Q     (* per solution: declared bound on |delta_{v,s}|  (>= 0)      *)
}.

(* one element: its valence states and its stoichiometric coefficient in every phase *)
Record erow := {
  e_states : list vrow;
  e_c : list Q;
  e_k : Q       (* known term: contribution of the reported redox mole transfers to this row (water, alkalinity);
                   0 for an element summed over its valence states, where the redox reactions cancel *)
}.

Record problem := {
  p_sgn  : list Q;        (* per solution: +1 initial, -1 final                               *)
  p_cons : list Z;        (* per phase: 1 dissolve only, -1 precipitate only, 0 either        *)
  p_range : bool;         (* -range given: min/max are meaningful                             *)
  p_tolb : Q;             (* tolerance on the mole-balance residual                           *)
  p_tolu : Q;             (* tolerance on inequality constraints                              *)
  p_tolr : Q              (* relative tolerance on range membership                            *)
}.

Record model := {
  m_fr : list Q;                  (* mixing fractions f_s                                     *)
  m_tr : list Q;                  (* phase mole transfers t_p                                 *)
  m_rows : list erow;             (* balanced elements, with the reported adjustments          *)
  m_extra : list vrow;            (* adjusted quantities that are not in a mole balance (pH)   *)
  m_frng : list (Q * Q);          (* [min,max] per solution fraction                           *)
  m_trng : list (Q * Q)           (* [min,max] per phase transfer                              *)
}.

(* ---------- arithmetic helpers *)
Fixpoint dot (a b : list Q) : Q :=
  match a, b with
  | x :: a', y :: b' => x * y + dot a' b'
  | _, _ => 0
  end.

(* Sum_s sg_s * (f_s * T_s + e_s) *)
Fixpoint mix (sg f T e : list Q) : Q :=
  match sg, f, T, e with
  | g :: sg', x :: f', t :: T', d :: e' => g * (x * t + d) + mix sg' f' T' e'
  | _, _, _, _ => 0
  end.

Definition states_sum (sg f : list Q) (vs : list vrow) : Q :=
  fold_right (fun v acc => mix sg f (v_T v) (v_e v) + acc) 0 vs.

(* residual of the mole balance of element r *)
Definition balance_res (pb : problem) (md : model) (r : erow) : Q :=
  states_sum (p_sgn pb) (m_fr md) (e_states r) + dot (m_tr md) (e_c r) + e_k r.

Fixpoint zip3 {A B C} (a : list A) (b : list B) (c : list C) : list (A * B * C) :=
  match a, b, c with
  | x :: a', y :: b', z :: c' => (x, y, z) :: zip3 a' b' c'
  | _, _, _ => []
  end.

(* ---------- the boolean checks *)
Definition lenb {A} (l : list A) (n : nat) : bool := Nat.eqb (length l) n.

Definition vrow_shape (n : nat) (v : vrow) : bool :=
  lenb (v_T v) n && lenb (v_e v) n && lenb (v_b v) n.

Definition shape_ok (pb : problem) (md : model) : bool :=
  let ns := length (m_fr md) in
  let np := length (m_tr md) in
  lenb (p_sgn pb) ns && lenb (p_cons pb) np &&
  forallb (fun r => forallb (vrow_shape ns) (e_states r) && lenb (e_c r) np) (m_rows md) &&
  forallb (vrow_shape ns) (m_extra md) &&
  (negb (p_range pb) || (lenb (m_frng md) ns && lenb (m_trng md) np)).

Definition balance_ok (pb : problem) (md : model) : bool :=
  forallb (fun r => Qle_bool (Qabs (balance_res pb md r)) (p_tolb pb)) (m_rows md).

(* |eps| <= b * f + tol   (i.e. |delta| <= b + tol/f when f > 0; eps ~ 0 when f = 0) *)
Definition adj_item_ok (tol : Q) (x : Q * Q * Q) : bool :=
  let '(f, e, b) := x in Qle_bool (Qabs e) (b * f + tol).

Definition vrow_adj_ok (pb : problem) (md : model) (v : vrow) : bool :=
  forallb (adj_item_ok (p_tolu pb)) (zip3 (m_fr md) (v_e v) (v_b v)).

Definition adj_ok (pb : problem) (md : model) : bool :=
  forallb (fun r => forallb (vrow_adj_ok pb md) (e_states r)) (m_rows md) &&
  forallb (vrow_adj_ok pb md) (m_extra md).

Definition fractions_ok (pb : problem) (md : model) : bool :=
  forallb (fun f => Qle_bool (- p_tolu pb) f) (m_fr md).

Definition sign_item_ok (tol : Q) (x : Z * Q) : bool :=
  let '(c, t) := x in
  match c with
  | Z0 => true
  | Zpos _ => Qle_bool (- tol) t
  | Zneg _ => Qle_bool t tol
  end.

Definition signs_ok (pb : problem) (md : model) : bool :=
  forallb (sign_item_ok (p_tolu pb)) (combine (p_cons pb) (m_tr md)).

(* min - slack <= x <= max + slack,  slack = tolr * (1 + |x|) *)
Definition rng_item_ok (tolr : Q) (x : Q * (Q * Q)) : bool :=
  let '(v, (lo, hi)) := x in
  let s := tolr * (1 + Qabs v) in
  Qle_bool (lo - s) v && Qle_bool v (hi + s).

Definition range_ok (pb : problem) (md : model) : bool :=
  negb (p_range pb) ||
  (forallb (rng_item_ok (p_tolr pb)) (combine (m_fr md) (m_frng md)) &&
   forallb (rng_item_ok (p_tolr pb)) (combine (m_tr md) (m_trng md))).

Definition check_inverse_model (pb : problem) (md : model) : bool :=
  shape_ok pb md && balance_ok pb md && adj_ok pb md && fractions_ok pb md && signs_ok pb md && range_ok pb md.

(* which part failed: used only for diagnostics in the correspondence run *)
Definition check_verdict (pb : problem) (md : model) : list bool :=
  [shape_ok pb md; balance_ok pb md; adj_ok pb md; fractions_ok pb md; signs_ok pb md; range_ok pb md].

(* ---------- set inclusion among reported models (-minimal) on bit masks *)
Definition subsetZ (a b : Z) : bool := Z.eqb (Z.land a b) a.
Definition strict_subsetZ (a b : Z) : bool := subsetZ a b && negb (Z.eqb a b).

Definition antichain_b (l : list Z) : bool :=
  forallb (fun a => forallb (fun b => negb (strict_subsetZ a b)) l) l.

(* support (bit mask) of a reported model: bit i+np for solution i, bit i for phase i; a value is
   "in the model" when |x| > thr (the engine uses TOL = 1e-9 for this purpose) *)
Fixpoint support_bits (thr : Q) (l : list Q) (pos : Z) : Z :=
  match l with
  | [] => 0%Z
  | x :: l' => Z.lor (if Qle_bool (Qabs x) thr then 0%Z else Z.shiftl 1 pos) (support_bits thr l' (Z.succ pos))
  end.

Definition model_support (thr : Q) (md : model) : Z :=
  Z.lor (support_bits thr (m_tr md) 0) (support_bits thr (m_fr md) (Z.of_nat (length (m_tr md)))).
