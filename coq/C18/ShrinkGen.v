(* C18 — obligation on the REGENERATED list of stores into the sign vector of shrink() (Gen_C18_shrink.v):
   the only store is the compaction  delta_l[cur_col] = delta_l[i];  with it (Shrink.inplace_compact, compact_nth)
   the constraint handed to cl1 for the j-th kept column is the one setup_inverse declared for that column. *)
From Coq Require Import String List Bool QArith.
From IPV Require Import C18.Shrink Gen.Gen_C18_shrink.
Import ListNotations.
Open Scope string_scope.

Definition stores_ok (l : list (string * string * string)) : bool :=
  match l with
  | [(idx, op, rhs)] => String.eqb op "=" && String.eqb rhs ("delta_l[" ++ "i" ++ "]") && String.eqb idx "cur_col"
  | _ => false
  end.

Lemma gen_shrink_sign_stores_ok : stores_ok gen_shrink_sign_stores = true.
Proof. vm_compute. reflexivity. Qed.

Lemma shrink_sign_vector_travels : stores_ok gen_shrink_sign_stores = true /\
  forall (keep : list bool) (delta : list Q), List.length keep = List.length delta ->
    inplace keep [] delta = compact keep delta /\
    compact keep delta = map (fun i => nth (i - 0) delta 0%Q) (kept_indices keep 0).
Proof.
  split; [exact gen_shrink_sign_stores_ok|]. intros keep delta Hlen. split.
  - apply (inplace_compact keep [] delta).
  - apply compact_nth. exact Hlen.
Qed.
