(* C18 — model of the loop of tidy.cpp: Phreeqc::tidy_inverse that copies an uncertainty declared under
   -balances by the name of a redox-active ELEMENT (e.g. "S 0.01") onto every valence-state mole-balance
   row of that element:

       for (k = 0; k < count_in; k++)
           if (master_ptr == inv_elts[k].master->elt->primary)
               for (l = 0; l < inverse[i].count_solns; l++)
                   inv_elts[k].uncertainties[l] = inverse[i].elts[j].uncertainties[l];

   The translator (translator/c18_tidy.py) transliterates the loop into a [scanloop] descriptor (bounds,
   key compared, what is copied, whether a break / return leaves either loop early); the semantics
   [run] below is defined for every descriptor, so a changed loop still has a meaning in the model.
   (model file: definitions only; proofs in TidyProofs.v) *)
From Coq Require Import ZArith QArith List Bool String.
Import ListNotations.

Record scanloop := {
  sl_start : Z;                 (* first k                                              *)
  sl_bound : string;            (* k < this                                             *)
  sl_key : string;              (* what is compared with the named element's master     *)
  sl_exit_after_match : bool;   (* a break/return/goto in the matching branch, outer loop *)
  sl_inner_start : Z;           (* first l                                              *)
  sl_inner_bound : string;      (* l < this                                             *)
  sl_inner_exit : bool;         (* a break/continue/return inside the copy loop         *)
  sl_dst : string;              (* assigned location, indices erased                    *)
  sl_src : string;              (* copied location, indices erased                      *)
  sl_indices_ok : bool          (* dst indexed by (k, l), src indexed by l              *)
}.

(* one mole-balance row: (primary element of its master species, uncertainty per solution) *)
Definition row := (Z * list Q)%type.

(* the copy loop over the solutions *)
Fixpoint copy_from (exit1 : bool) (dst src : list Q) : list Q :=
  match dst, src with
  | _ :: dt, s :: st => s :: (if exit1 then dt else copy_from exit1 dt st)
  | _, _ => dst
  end.

(* the scan over the rows *)
Fixpoint scan (exit_after inner_exit : bool) (rows : list row) (prim : Z) (vals : list Q) : list row :=
  match rows with
  | [] => []
  | (p, u) :: rest =>
      if Z.eqb p prim
      then (p, copy_from inner_exit u vals) :: (if exit_after then rest else scan exit_after inner_exit rest prim vals)
      else (p, u) :: scan exit_after inner_exit rest prim vals
  end.

Definition run (d : scanloop) : list row -> Z -> list Q -> list row :=
  scan (sl_exit_after_match d) (sl_inner_exit d).

(* what the descriptor must say for the loop to be the propagation loop *)
Definition scanloop_ok (d : scanloop) : bool :=
  Z.eqb (sl_start d) 0 && String.eqb (sl_bound d) "count_in" &&
  String.eqb (sl_key d) "inv_elts[].master.elt.primary" &&
  negb (sl_exit_after_match d) &&
  Z.eqb (sl_inner_start d) 0 && String.eqb (sl_inner_bound d) "inverse[].count_solns" &&
  negb (sl_inner_exit d) &&
  String.eqb (sl_dst d) "inv_elts[].uncertainties[]" && String.eqb (sl_src d) "inverse[].elts[].uncertainties[]" &&
  sl_indices_ok d.
