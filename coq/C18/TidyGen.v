(* C18 — obligation on the REGENERATED propagation loop of tidy_inverse (Gen_C18_tidy.v). *)
From Coq Require Import ZArith QArith List Bool String.
From IPV Require Import C18.Tidy C18.TidyProofs Gen.Gen_C18_tidy.

Lemma gen_tidy_loop_ok : scanloop_ok gen_tidy_primary_loop = true.
Proof. vm_compute. reflexivity. Qed.

Lemma gen_tidy_reaches_every_state :
  forall rows prim vals, (forall r, In r rows -> List.length (snd r) = List.length vals) ->
  map fst (run gen_tidy_primary_loop rows prim vals) = map fst rows /\
  (forall r', In r' (run gen_tidy_primary_loop rows prim vals) -> fst r' = prim -> snd r' = vals) /\
  (forall r', In r' (run gen_tidy_primary_loop rows prim vals) -> fst r' <> prim -> In r' rows).
Proof. exact (propagation_reaches_every_state gen_tidy_primary_loop gen_tidy_loop_ok). Qed.
