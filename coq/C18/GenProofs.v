(* C18 — obligations on the REGENERATED bit tests (Gen_C18_bits.v, rebuilt from /repo's inverse.cpp on
   every run): each is discharged by computing a 4-entry truth table on the generated term and
   applying the soundness theorem of the classifier (Bits.v).  A harmless rewrite such as
   (bits & m) == m  still passes; a changed meaning does not. *)
From Coq Require Import ZArith List Bool String Lia.
From IPV Require Import C18.Search C18.SearchProofs C18.Bits Gen.Gen_C18_bits.
Import ListNotations.
Open Scope Z_scope.

Definition t_sup : Z -> Z -> bool := btest_eval (lt_test gen_superset_minimal).
Definition t_bad : Z -> Z -> bool := btest_eval (lt_test gen_subset_bad).
Definition t_min : Z -> Z -> bool := btest_eval (lt_test gen_subset_minimal).

Lemma gen_superset_minimal_ok :
  looptest_shape "minimal" "count_minimal" gen_superset_minimal = true /\
  forall bits m, t_sup bits m = true <-> subset m bits.
Proof. split; [vm_compute; reflexivity | apply is_B_subset_A_sound; vm_compute; reflexivity]. Qed.

Lemma gen_subset_bad_ok :
  looptest_shape "bad" "count_bad" gen_subset_bad = true /\
  forall bits b, t_bad bits b = true <-> subset bits b.
Proof. split; [vm_compute; reflexivity | apply is_A_subset_B_sound; vm_compute; reflexivity]. Qed.

Lemma gen_subset_minimal_ok :
  looptest_shape "minimal" "count_minimal" gen_subset_minimal = true /\
  forall bits m, t_min bits m = true <-> subset bits m.
Proof. split; [vm_compute; reflexivity | apply is_A_subset_B_sound; vm_compute; reflexivity]. Qed.

Lemma gen_set_bit_ok : forall bits p, 0 <= p ->
  beval gen_set_bit_value0 bits (Z.shiftl 1 p) = Z.clearbit bits p /\
  beval gen_set_bit_value1 bits (Z.shiftl 1 p) = Z.setbit bits p.
Proof.
  intros bits p Hp. split.
  - apply clears_B_in_A_sound; [vm_compute; reflexivity | exact Hp].
  - apply sets_B_in_A_sound; [vm_compute; reflexivity | exact Hp].
Qed.

(* minimal_solve: removing bit i is Z.clearbit (what Search.min_step does); both "put the bit back"
   expressions restore the word when the bit was set (Search.min_step keeps the old word) *)
Lemma gen_minimal_solve_bits_ok : forall mb i, 0 <= i -> Z.testbit mb i = true ->
  beval gen_ms_clear mb (Z.shiftl 1 i) = Z.clearbit mb i /\
  beval gen_ms_putback_subset_bad mb (Z.shiftl 1 i) = mb /\
  beval gen_ms_putback_infeasible mb (Z.shiftl 1 i) = mb.
Proof.
  intros mb i Hi Hbit.
  assert (Hset : Z.setbit mb i = mb).
  { apply Z.bits_inj'. intros j Hj. rewrite Z.setbit_eqb by exact Hi.
    destruct (Z.eqb_spec i j) as [->|]; [rewrite Hbit; reflexivity | reflexivity]. }
  split; [|split].
  - apply clears_B_in_A_sound; [vm_compute; reflexivity | exact Hi].
  - rewrite <- Hset at 2. apply sets_B_in_A_sound; [vm_compute; reflexivity | exact Hi].
  - rewrite <- Hset at 2. apply sets_B_in_A_sound; [vm_compute; reflexivity | exact Hi].
Qed.

(* ---------- the search theorems instantiated with the regenerated tests *)
Section Inst.
Variable solve : Z -> bool * Z.
Variable nph nsol : nat.
Variable range_opt : bool.
Variable force_mask : Z.
Let searchG := search t_sup t_bad t_min solve nph nsol true range_opt force_mask.
Let Wd := Z.of_nat (nph + nsol).
Let feasible (m : Z) := fst (solve m) = true.

Lemma later_never_contains_earlier_gen :
  (forall m, subset (snd (solve m)) m) ->
  ForallOrdPairs (fun a b => ~ subset a b) (good searchG).
Proof.
  intros H_sub.
  exact (later_model_never_contains_earlier_lemma t_sup t_bad t_min solve nph nsol range_opt force_mask
           (proj2 gen_superset_minimal_ok) H_sub).
Qed.

Lemma minimal_models_antichain_gen :
  (forall m, subset (snd (solve m)) m) ->
  (forall m i, Wd <= i -> Z.testbit (snd (solve m)) i = false) ->
  (forall a b, feasible a -> subset a b -> feasible b) ->
  (forall a, feasible a -> feasible (snd (solve a))) ->
  (forall a, feasible a -> Z.testbit a (Wd - 1) = true) ->
  forall a b, In a (good searchG) -> In b (good searchG) -> subset a b -> a = b.
Proof.
  intros H_sub H_width H_mono H_supp H_top.
  exact (minimal_models_antichain_lemma t_sup t_bad t_min solve nph nsol range_opt force_mask
           (proj2 gen_subset_bad_ok) H_sub H_width H_mono H_supp H_top).
Qed.

Lemma reported_models_feasible_gen :
  (forall m, subset (snd (solve m)) m) ->
  (forall m i, Wd <= i -> Z.testbit (snd (solve m)) i = false) ->
  (forall a b, feasible a -> subset a b -> feasible b) ->
  (forall a, feasible a -> feasible (snd (solve a))) ->
  (forall a, feasible a -> Z.testbit a (Wd - 1) = true) ->
  forall a, In a (good searchG) -> feasible a.
Proof.
  intros H_sub H_width H_mono H_supp H_top.
  exact (reported_models_feasible_lemma t_sup t_bad t_min solve nph nsol range_opt force_mask
           (proj2 gen_subset_bad_ok) H_sub H_width H_mono H_supp H_top).
Qed.
End Inst.

(* ---------- non-vacuity: a consistent oracle exists and the search reports something for it.
   2 phases, 2 solutions (W = 4): a mask is feasible iff it contains phase 0 and the final solution;
   the solution uses exactly those two unknowns. *)
Definition ex_solve (m : Z) : bool * Z := (Z.testbit m 0 && Z.testbit m 3, Z.land m 9).

Lemma land9_bits m i : Z.testbit (Z.land m 9) i = Z.testbit m i && (Z.eqb i 0 || Z.eqb i 3).
Proof.
  rewrite Z.land_spec. f_equal.
  destruct (Z_lt_le_dec i 0) as [Hn|Hp].
  - rewrite Z.testbit_neg_r by exact Hn. destruct (Z.eqb_spec i 0), (Z.eqb_spec i 3); try lia; reflexivity.
  - destruct (Z_lt_le_dec i 4) as [Hlt|Hge].
    + assert (Hc : i = 0 \/ i = 1 \/ i = 2 \/ i = 3) by lia.
      destruct Hc as [E|[E|[E|E]]]; subst i; reflexivity.
    + rewrite Z.bits_above_log2; [|lia|simpl; lia].
      destruct (Z.eqb_spec i 0), (Z.eqb_spec i 3); try lia; reflexivity.
Qed.

Example ex_oracle_consistent :
  (forall m, subset (snd (ex_solve m)) m) /\
  (forall m i, 4 <= i -> Z.testbit (snd (ex_solve m)) i = false) /\
  (forall a b, fst (ex_solve a) = true -> subset a b -> fst (ex_solve b) = true) /\
  (forall a, fst (ex_solve a) = true -> fst (ex_solve (snd (ex_solve a))) = true) /\
  (forall a, fst (ex_solve a) = true -> Z.testbit a (4 - 1) = true).
Proof.
  unfold ex_solve; cbn [fst snd]. split; [|split; [|split; [|split]]].
  - intros m i Hi. rewrite land9_bits in Hi. apply andb_true_iff in Hi. apply Hi.
  - intros m i Hi. rewrite land9_bits. destruct (Z.eqb_spec i 0), (Z.eqb_spec i 3); try lia; try (simpl; apply andb_false_r).
  - intros a b Ha Hab. apply andb_true_iff in Ha. destruct Ha as [H0 H3].
    rewrite (Hab 0 H0), (Hab 3 H3). reflexivity.
  - intros a Ha. apply andb_true_iff in Ha. destruct Ha as [H0 H3].
    rewrite !land9_bits, H0, H3. reflexivity.
  - intros a Ha. apply andb_true_iff in Ha. apply Ha.
Qed.

Example ex_search_reports :
  good (search t_sup t_bad t_min ex_solve 2 2 true true 0) = [9].
Proof. vm_compute. reflexivity. Qed.
