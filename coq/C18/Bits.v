(* C18 — bitwise expressions as they occur in inverse.cpp (superset_minimal, subset_bad, subset_minimal,
   set_bit, minimal_solve) with a verified classifier: a test  lhs == rhs  between bitwise expressions
   over two words (A = the argument `bits`, B = the array element) is decided bit by bit, so its meaning
   for ALL words is determined by a 4-entry truth table that vm_compute can inspect on the regenerated
   term.  The translator (translator/c18_bits.py) only transliterates the C++ expressions into [bexpr]. *)
From Coq Require Import ZArith List Bool String Lia.
From IPV Require Import C18.SearchProofs.
Import ListNotations.
Open Scope Z_scope.

Inductive bexpr :=
| BA | BB                       (* the two words *)
| BZero
| BOr (x y : bexpr) | BAnd (x y : bexpr) | BXor (x y : bexpr)
| BNot (x : bexpr).

Fixpoint beval (e : bexpr) (a b : Z) : Z :=
  match e with
  | BA => a | BB => b | BZero => 0
  | BOr x y => Z.lor (beval x a b) (beval y a b)
  | BAnd x y => Z.land (beval x a b) (beval y a b)
  | BXor x y => Z.lxor (beval x a b) (beval y a b)
  | BNot x => Z.lnot (beval x a b)
  end.

Fixpoint bbit (e : bexpr) (x y : bool) : bool :=
  match e with
  | BA => x | BB => y | BZero => false
  | BOr p q => bbit p x y || bbit q x y
  | BAnd p q => bbit p x y && bbit q x y
  | BXor p q => xorb (bbit p x y) (bbit q x y)
  | BNot p => negb (bbit p x y)
  end.

Lemma beval_bit e a b i : 0 <= i -> Z.testbit (beval e a b) i = bbit e (Z.testbit a i) (Z.testbit b i).
Proof.
  intros Hi. induction e; simpl.
  - reflexivity.
  - reflexivity.
  - apply Z.bits_0.
  - rewrite Z.lor_spec, IHe1, IHe2. reflexivity.
  - rewrite Z.land_spec, IHe1, IHe2. reflexivity.
  - rewrite Z.lxor_spec, IHe1, IHe2. reflexivity.
  - rewrite Z.lnot_spec by exact Hi. rewrite IHe. reflexivity.
Qed.

(* a loop-body test  "lhs == rhs" *)
Definition btest := (bexpr * bexpr)%type.
Definition btest_eval (t : btest) (a b : Z) : bool := Z.eqb (beval (fst t) a b) (beval (snd t) a b).

(* which (bit of A, bit of B) combinations the test tolerates *)
Definition allowed (t : btest) (x y : bool) : bool := Bool.eqb (bbit (fst t) x y) (bbit (snd t) x y).

Lemma btest_eval_bits t a b :
  btest_eval t a b = true <-> forall i, 0 <= i -> allowed t (Z.testbit a i) (Z.testbit b i) = true.
Proof.
  unfold btest_eval, allowed. rewrite Z.eqb_eq. split.
  - intros H i Hi. rewrite <- !beval_bit by exact Hi. rewrite H. apply Bool.eqb_reflx.
  - intros H. apply Z.bits_inj'. intros i Hi. rewrite !beval_bit by exact Hi. apply Bool.eqb_prop. apply H. exact Hi.
Qed.

(* the two meanings that occur *)
Definition is_B_subset_A (t : btest) : bool :=       (* every bit of B is in A:  B included in A *)
  forallb (fun xy => Bool.eqb (allowed t (fst xy) (snd xy)) (implb (snd xy) (fst xy)))
          [(false, false); (false, true); (true, false); (true, true)].
Definition is_A_subset_B (t : btest) : bool :=
  forallb (fun xy => Bool.eqb (allowed t (fst xy) (snd xy)) (implb (fst xy) (snd xy)))
          [(false, false); (false, true); (true, false); (true, true)].

Lemma table4 (f g : bool -> bool -> bool) :
  forallb (fun xy => Bool.eqb (f (fst xy) (snd xy)) (g (fst xy) (snd xy)))
          [(false, false); (false, true); (true, false); (true, true)] = true ->
  forall x y, f x y = g x y.
Proof.
  simpl. rewrite !andb_true_iff. intros [H1 [H2 [H3 [H4 _]]]] x y.
  destruct x, y; apply Bool.eqb_prop; assumption.
Qed.

Lemma subset_neg_trivial a b : (forall i, 0 <= i -> Z.testbit a i = true -> Z.testbit b i = true) -> subset a b.
Proof.
  intros H i Hi. destruct (Z_lt_le_dec i 0) as [Hneg | Hpos].
  - rewrite (Z.testbit_neg_r _ _ Hneg) in Hi. discriminate.
  - apply H; assumption.
Qed.

Theorem is_B_subset_A_sound t : is_B_subset_A t = true -> forall a b, btest_eval t a b = true <-> subset b a.
Proof.
  intros Ht a b. pose proof (table4 (allowed t) (fun x y => implb y x) Ht) as Hall.
  rewrite btest_eval_bits. split.
  - intros H. apply subset_neg_trivial. intros i Hi Hb. specialize (H i Hi). rewrite Hall, Hb in H.
    simpl in H. exact H.
  - intros H i Hi. rewrite Hall. destruct (Z.testbit b i) eqn:Hb; [|reflexivity]. simpl. apply H. exact Hb.
Qed.

Theorem is_A_subset_B_sound t : is_A_subset_B t = true -> forall a b, btest_eval t a b = true <-> subset a b.
Proof.
  intros Ht a b. pose proof (table4 (allowed t) (fun x y => implb x y) Ht) as Hall.
  rewrite btest_eval_bits. split.
  - intros H. apply subset_neg_trivial. intros i Hi Ha. specialize (H i Hi). rewrite Hall, Ha in H.
    simpl in H. exact H.
  - intros H i Hi. rewrite Hall. destruct (Z.testbit a i) eqn:Ha; [|reflexivity]. simpl. apply H. exact Ha.
Qed.

(* ---- the loop functions: for (i = 0; i < count; i++) { if (test(bits, arr[i])) return found; } return notfound; *)
Record looptest := {
  lt_array : string;     (* the vector that is scanned           *)
  lt_count : string;     (* the loop bound                       *)
  lt_test : btest;       (* A = the argument, B = arr[i]          *)
  lt_found : Z;          (* value returned inside the if         *)
  lt_notfound : Z        (* value returned after the loop        *)
}.

Definition loop_eval (lt : looptest) (arr : list Z) (bits : Z) : Z :=
  if existsb (btest_eval (lt_test lt) bits) arr then lt_found lt else lt_notfound lt.

Definition looptest_shape (arr cnt : string) (lt : looptest) : bool :=
  String.eqb (lt_array lt) arr && String.eqb (lt_count lt) cnt && Z.eqb (lt_found lt) 1 && Z.eqb (lt_notfound lt) 0.

(* ---- single-bit updates:  A = the word, B = the one-bit word 1 << position *)
Definition clears_B_in_A (e : bexpr) : bool :=
  forallb (fun xy => Bool.eqb (bbit e (fst xy) (snd xy)) (fst xy && negb (snd xy)))
          [(false, false); (false, true); (true, false); (true, true)].
Definition sets_B_in_A (e : bexpr) : bool :=
  forallb (fun xy => Bool.eqb (bbit e (fst xy) (snd xy)) (fst xy || snd xy))
          [(false, false); (false, true); (true, false); (true, true)].

Lemma shiftl1_bit p i : 0 <= p -> 0 <= i -> Z.testbit (Z.shiftl 1 p) i = Z.eqb p i.
Proof.
  intros Hp Hi. rewrite Z.shiftl_1_l. apply Z.pow2_bits_eqb. exact Hp.
Qed.

Theorem clears_B_in_A_sound e : clears_B_in_A e = true ->
  forall a p, 0 <= p -> beval e a (Z.shiftl 1 p) = Z.clearbit a p.
Proof.
  intros He a p Hp. pose proof (table4 (bbit e) (fun x y => x && negb y) He) as Hall.
  apply Z.bits_inj'. intros i Hi. rewrite beval_bit by exact Hi. rewrite Hall.
  rewrite Z.clearbit_eqb, shiftl1_bit by assumption. reflexivity.
Qed.

Theorem sets_B_in_A_sound e : sets_B_in_A e = true ->
  forall a p, 0 <= p -> beval e a (Z.shiftl 1 p) = Z.setbit a p.
Proof.
  intros He a p Hp. pose proof (table4 (bbit e) (fun x y => x || y) He) as Hall.
  apply Z.bits_inj'. intros i Hi. rewrite beval_bit by exact Hi. rewrite Hall.
  rewrite Z.setbit_eqb, shiftl1_bit by assumption. apply orb_comm.
Qed.
