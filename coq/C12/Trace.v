(* IPV.C12.Trace — step-level correspondence between the model (RK.v instantiated with the REGENERATED
   scheme CK) and the implementation.  A rate program records (M, TOTAL_TIME, TIME) at every call
   (PUT/GET); the first calls of a -runge_kutta 6 run are the six evaluations of the first attempted step
   (h = kin_time) and, when that attempt is rejected, evaluations 2..6 of the retry whose step size must be
   g_h_reject_first applied to the scaled error estimate.  [trace_ok] recomputes all of that in exact
   rational arithmetic from the parameters and compares with the recorded doubles (relative 1e-9). *)
Require Import QArith Qabs List Bool.
Import ListNotations.
Require Import IPV.C12.MiniPrelude IPV.C12.RK IPV.Gen.Gen_C12_Tableau IPV.C12.Inst.
Open Scope Q_scope.

Definition close (a b : Q) : bool :=
  Qle_bool (Qabs (a - b)) ((1 # 1000000000) * Qabs b + (1 # 100000000000000000000)).

(* rate law of the trace runs: consumption lam*m + r1*t *)
Definition trace_rate (lam r1 : Q) : Q -> Q -> Q := fun t m => lam * m + r1 * t.

(* (state, time) handed to the six evaluations of a step.  calc_final_kinetic_reaction never lets a stage ask
   for more than the reactant has (moles > m_temp -> moles := m_temp, m := 0), hence [pos0] around every state;
   when no state is negative this is RK.k1 .. RK.k6 (lemma points_unclamped below). *)
Definition points (S : scheme) (f : Q -> Q -> Q) (t0 hs h m0 : Q) : list (Q * Q) :=
  let a1 := Qred (h * f (t1 S t0 hs h) m0) in
  let m2 := Qred (pos0 (m0 - s2 S a1 0 0 0 0 0)) in let a2 := Qred (h * f (t2 S t0 hs h) m2) in
  let m3 := Qred (pos0 (m0 - s3 S a1 a2 0 0 0 0)) in let a3 := Qred (h * f (t3 S t0 hs h) m3) in
  let m4 := Qred (pos0 (m0 - s4 S a1 a2 a3 0 0 0)) in let a4 := Qred (h * f (t4 S t0 hs h) m4) in
  let m5 := Qred (pos0 (m0 - s5 S a1 a2 a3 a4 0 0)) in let a5 := Qred (h * f (t5 S t0 hs h) m5) in
  let m6 := Qred (pos0 (m0 - s6 S a1 a2 a3 a4 a5 0)) in
  [ (m0, t1 S t0 hs h); (m2, t2 S t0 hs h); (m3, t3 S t0 hs h); (m4, t4 S t0 hs h); (m5, t5 S t0 hs h); (m6, t6 S t0 hs h) ].

Definition all_states_nonneg (S : scheme) (f : Q -> Q -> Q) (t0 hs h m0 : Q) : bool :=
  let a1 := k1 S f t0 hs h m0 in let a2 := k2 S f t0 hs h m0 in let a3 := k3 S f t0 hs h m0 in
  let a4 := k4 S f t0 hs h m0 in let a5 := k5 S f t0 hs h m0 in
  Qle_bool 0 (m0 - s2 S a1 0 0 0 0 0) && Qle_bool 0 (m0 - s3 S a1 a2 0 0 0 0) && Qle_bool 0 (m0 - s4 S a1 a2 a3 0 0 0) &&
  Qle_bool 0 (m0 - s5 S a1 a2 a3 a4 0 0) && Qle_bool 0 (m0 - s6 S a1 a2 a3 a4 a5 0).

Definition rec := (Q * Q * Q)%type.      (* recorded M, TOTAL_TIME, TIME *)
Definition rM (r : rec) := fst (fst r).
Definition rT (r : rec) := snd (fst r).
Definition rH (r : rec) := snd r.

Fixpoint match_points (h : Q) (ps : list (Q * Q)) (rs : list rec) : bool :=
  match ps, rs with
  | [], _ => true
  | _ :: _, [] => false
  | p :: ps', r :: rs' => close (rM r) (fst p) && close (rT r) (snd p) && close (rH r) h && match_points h ps' rs'
  end.

(* the rate evaluations k1..k5 of the (clamped) attempt, as the code stores them in rk_moles *)
Definition kvals (S : scheme) (f : Q -> Q -> Q) (t0 hs h m0 : Q) : list Q :=
  map (fun p => h * f (snd p) (fst p)) (firstn 5 (points S f t0 hs h m0)).

(* first evaluation whose size exceeds moles_max: the code jumps to MOLES_TOO_LARGE right after storing it *)
Fixpoint first_big (l : list Q) (i : nat) : option (nat * Q) :=
  match l with
  | [] => None
  | k :: r => if Qltb g_moles_max (Qabs k) then Some (i, Qabs k) else first_big r (S i)
  end.

Definition trace_ok (lam r1 m0 T tol : Q) (rs : list rec) : bool :=
  let f := trace_rate lam r1 in
  let first := points CK f 0 0 T m0 in
  match first_big (kvals CK f 0 0 T m0) 1 with
  | Some (i, ki) =>
    (* evaluations 1..i were made with h = T; then the step was cut and evaluation 2 of the retry follows *)
    let h' := g_h_reduce T (ki / g_moles_max) in
    match_points T (firstn i first) rs &&
    match nth_error rs i with
    | Some r => close (rH r) h' && match_points h' (firstn 1 (tl (points CK f 0 0 h' m0))) [r]
    | None => true
    end
  | None =>
  let err := Qred (Qabs (step_est CK f 0 0 T m0) / tol) in
  match_points T first rs &&
  if negb (all_states_nonneg CK f 0 0 T m0) then true   (* a stage was clamped: only the six recorded points are compared *)
  else
  match skipn 6 rs with
  | [] => false
  | r7 :: rest =>
    if Qltb g_err_limit err then
      (* rejected: new step size, then evaluations 2..6 of the retry (as far as no further cut occurs) *)
      let h' := rH r7 in
      close h' (g_h_reject_first T err) &&
      match first_big (kvals CK f 0 0 h' m0) 1 with
      | Some (i, _) => match_points h' (firstn (i - 1) (tl (points CK f 0 0 h' m0))) (r7 :: rest)
      | None => match_points h' (tl (points CK f 0 0 h' m0)) (r7 :: rest)
      end
    else
      (* accepted: the next call sees the new amount *)
      close (rM r7) (pos0 (step_m CK f 0 0 T m0))
  end
  end.
