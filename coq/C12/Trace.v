(* IPV.C12.Trace — step-level correspondence between the model (RK.v instantiated with the REGENERATED
   scheme CK) and the implementation.  A rate program records (M, TOTAL_TIME, TIME) at every call
   (PUT/GET); the first calls of a -runge_kutta 6 run are the six evaluations of the first attempted step
   (h = kin_time) and, when that attempt is rejected, evaluations 2..6 of the retry whose step size must be
   g_h_reject_first applied to the scaled error estimate.  [trace_ok] recomputes all of that in exact
   rational arithmetic from the parameters and compares with the recorded doubles (relative 1e-9). *)
Require Import QArith Qabs List Bool.
Import ListNotations.
Require Import IPV.C12.MiniPrelude IPV.C12.RK IPV.Gen.Gen_C12_Tableau IPV.C12.Inst.
Open Scope Q_scope.

Definition close (a b : Q) : bool :=
  Qle_bool (Qabs (a - b)) ((1 # 1000000000) * Qabs b + (1 # 100000000000000000000)).

(* rate law of the trace runs: consumption lam*m + r1*t *)
Definition trace_rate (lam r1 : Q) : Q -> Q -> Q := fun t m => lam * m + r1 * t.

(* (state, time) handed to the six evaluations of a step *)
Definition points (S : scheme) (f : Q -> Q -> Q) (t0 hs h m0 : Q) : list (Q * Q) :=
  let a1 := k1 S f t0 hs h m0 in let a2 := k2 S f t0 hs h m0 in let a3 := k3 S f t0 hs h m0 in
  let a4 := k4 S f t0 hs h m0 in let a5 := k5 S f t0 hs h m0 in
  [ (m0, t1 S t0 hs h);
    (m0 - s2 S a1 0 0 0 0 0, t2 S t0 hs h);
    (m0 - s3 S a1 a2 0 0 0 0, t3 S t0 hs h);
    (m0 - s4 S a1 a2 a3 0 0 0, t4 S t0 hs h);
    (m0 - s5 S a1 a2 a3 a4 0 0, t5 S t0 hs h);
    (m0 - s6 S a1 a2 a3 a4 a5 0, t6 S t0 hs h) ].

Definition rec := (Q * Q * Q)%type.      (* recorded M, TOTAL_TIME, TIME *)
Definition rM (r : rec) := fst (fst r).
Definition rT (r : rec) := snd (fst r).
Definition rH (r : rec) := snd r.

Fixpoint match_points (h : Q) (ps : list (Q * Q)) (rs : list rec) : bool :=
  match ps, rs with
  | [], _ => true
  | _ :: _, [] => false
  | p :: ps', r :: rs' => close (rM r) (fst p) && close (rT r) (snd p) && close (rH r) h && match_points h ps' rs'
  end.

Definition trace_ok (lam r1 m0 T tol : Q) (rs : list rec) : bool :=
  let f := trace_rate lam r1 in
  let first := points CK f 0 0 T m0 in
  let err := Qred (Qabs (step_est CK f 0 0 T m0) / tol) in
  let a1 := k1 CK f 0 0 T m0 in
  if Qltb g_moles_max (Qabs a1) then
    (* first rate larger than moles_max: step reduced at once (MOLES_TOO_LARGE), evaluations 2..6 use the new h *)
    let h' := g_h_reduce T (Qabs a1 / g_moles_max) in
    match rs with
    | [] => false
    | r1 :: rest => close (rM r1) m0 && close (rT r1) 0 && close (rH r1) T && match_points h' (tl (points CK f 0 0 h' m0)) rest
    end
  else
  match_points T first rs &&
  match skipn 6 rs with
  | [] => false
  | r7 :: rest =>
    if Qltb g_err_limit err then
      (* rejected: new step size, then evaluations 2..6 of the retry *)
      let h' := rH r7 in
      close h' (g_h_reject_first T err) && match_points h' (tl (points CK f 0 0 h' m0)) (r7 :: rest)
    else
      (* accepted: the next call sees the new amount *)
      close (rM r7) (step_m CK f 0 0 T m0)
  end.
