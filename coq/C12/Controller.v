(* IPV.C12.Controller — model of the step-size controller of Phreeqc::rk_kinetics (the while loop
   `while (h_sum < kin_time)`), with the six rate evaluations abstracted into an oracle.

   What one pass through the loop body can do (kinetics.cpp):
     - some |k_i| > moles_max, or the solver reports MASS_BALANCE  -> moles_reduction := mr > 1,
       goto MOLES_TOO_LARGE: h := safety*h/(1+mr), retry (NOT counted as a bad step)     [TooLarge mr]
     - all six evaluations done, error_max computed                                    [Evaluated err]
         error_max > 1 : h := h*safety/error_max (first) | h*safety*error_max^-0.25, step_bad++
         otherwise     : h_sum += h; step_ok++; if h_sum < kin_time: grow h, clamp to kin_time - h_sum
     - -runge_kutta 1/2/3 shortcut with equal rates: the whole step is taken and the loop is left;
       only possible in the first pass (afterwards equal_rate is FALSE or the shortcut was taken)  [Exit]
   The formulas for the new h are the REGENERATED g_h_* functions; pow is a section variable.
   The loop has no variant (h may shrink for ever: finding F4), so the model runs on fuel and the
   theorem is conditional on normal return. *)
Require Import QArith Qabs List Lia Lra Lqa Bool.
Import ListNotations.
Require Import IPV.C12.MiniPrelude IPV.Gen.Gen_C12_Tableau.
Open Scope Q_scope.

Inductive attempt := TooLarge (mr : Q) | Evaluated (err : Q) | Exit.

Inductive outcome :=
| Finished (accepted : list (Q * Q)) (n_bad : nat)   (* (h, error_max) of every accepted step, in order *)
| BadStepError                                       (* "Bad RK steps > bad_step_max" *)
| Stuck                                              (* oracle answered something the code cannot produce *)
| OutOfFuel.

Fixpoint qsum_list (l : list Q) : Q := match l with [] => 0 | x :: r => x + qsum_list r end.

Section Loop.
  Variable pw : Q -> Q -> Q.                 (* C pow *)
  Variable att : Q -> Q -> attempt.          (* h_sum -> h -> what the six evaluations gave *)
  Variable T : Q.                            (* kin_time *)
  Variable bad_max : nat.

  Definition next_h_accept (hs' h err : Q) : Q :=
    if Qltb hs' T then
      let hg := if Qltb g_grow_threshold err then g_h_grow_big_err pw h err else g_h_grow_small_err h err in
      if Qltb (g_h_clamp T hs') hg then g_h_clamp T hs' else hg
    else h.

  Fixpoint loop (fuel : nat) (first : bool) (hs h : Q) (ok bad : nat) (acc : list (Q * Q)) : outcome :=
    match fuel with
    | O => OutOfFuel
    | S f =>
      if negb (Qltb hs T) then Finished (rev acc) bad
      else if Nat.ltb bad_max bad then BadStepError
      else match att hs h with
           | Exit => if first then Finished (rev ((h, 0) :: acc)) bad else Stuck
           | TooLarge mr =>
               if Qltb g_reduce_guard mr then loop f false hs (g_h_reduce h mr) ok bad acc else Stuck
           | Evaluated err =>
               if Qltb g_err_limit err then
                 loop f false hs (if Nat.eqb ok 0 then g_h_reject_first h err else g_h_reject_later pw h err) ok (S bad) acc
               else
                 loop f false (hs + h) (next_h_accept (hs + h) h err) (S ok) bad ((h, err) :: acc)
           end
    end.

  Definition rk_loop (fuel : nat) : outcome := loop fuel true 0 T 0 0 [].
End Loop.

(* ---------------------------------------------------------------- facts about the regenerated formulas *)

Lemma Qdiv_pos : forall a b, 0 < a -> 0 < b -> 0 < a / b.
Proof. intros a b Ha Hb. unfold Qdiv. apply Qmult_lt_0_compat; [exact Ha|]. apply Qinv_lt_0_compat. exact Hb. Qed.

Lemma Qdiv_le_self : forall a b, 0 < a -> 1 <= b -> a / b <= a.
Proof.
  intros a b Ha Hb. assert (0 < b) by lra.
  apply Qle_shift_div_r; [assumption|]. nra.
Qed.

Lemma reduce_shrinks : forall h mr, 0 < h -> g_reduce_guard < mr ->
  0 < g_h_reduce h mr /\ g_h_reduce h mr <= h.
Proof.
  unfold g_h_reduce, g_reduce_guard. intros h mr Hh Hm. split.
  - apply Qdiv_pos; lra.
  - apply Qle_shift_div_r; [lra|]. nra.
Qed.

Lemma reject_first_shrinks : forall h err, 0 < h -> g_err_limit < err ->
  0 < g_h_reject_first h err /\ g_h_reject_first h err <= h.
Proof.
  unfold g_h_reject_first, g_err_limit. intros h err Hh He. split.
  - apply Qdiv_pos; lra.
  - apply Qle_shift_div_r; [lra|]. nra.
Qed.

Section PowFacts.
  Variable pw : Q -> Q -> Q.
  Hypothesis pw_pos : forall x e, 0 < x -> 0 < pw x e.
  Hypothesis pw_le1 : forall x e, 1 < x -> e < 0 -> pw x e <= 1.

  Lemma reject_later_shrinks : forall h err, 0 < h -> g_err_limit < err ->
    0 < g_h_reject_later pw h err /\ g_h_reject_later pw h err <= h.
  Proof.
    unfold g_h_reject_later, g_err_limit. intros h err Hh He.
    match goal with |- context [pw err ?e] => pose proof (pw_pos err e ltac:(lra)) as P; pose proof (pw_le1 err e ltac:(lra) ltac:(reflexivity)) as P1; set (p := pw err e) in * end.
    split; nra.
  Qed.

  Lemma grow_pos : forall h err, 0 < h ->
    (g_grow_threshold < err -> 0 < g_h_grow_big_err pw h err) /\ 0 < g_h_grow_small_err h err.
  Proof.
    unfold g_h_grow_big_err, g_h_grow_small_err, g_grow_threshold. intros h err Hh. split.
    - intro He. match goal with |- context [pw err ?e] => pose proof (pw_pos err e ltac:(lra)) as P; set (p := pw err e) in * end. nra.
    - lra.
  Qed.

  Variable att : Q -> Q -> attempt.
  Variable T : Q.
  Variable bad_max : nat.
  Hypothesis T_pos : 0 < T.

  Definition inv (first : bool) (hs h : Q) (acc : list (Q * Q)) : Prop :=
    qsum_list (map fst acc) == hs /\
    Forall (fun he => 0 < fst he /\ snd he <= g_err_limit) acc /\
    (hs == T \/ (0 < h /\ hs + h <= T)) /\
    (first = true -> hs == 0 /\ h == T /\ acc = []).

  Lemma qsum_list_app : forall a b, qsum_list (a ++ b) == qsum_list a + qsum_list b.
  Proof. induction a; intros; simpl; [ring|]. rewrite IHa. ring. Qed.

  Lemma qsum_list_rev : forall a, qsum_list (rev a) == qsum_list a.
  Proof. induction a; simpl; [reflexivity|]. rewrite qsum_list_app, IHa. simpl. ring. Qed.

  Lemma err_limit_nonneg : 0 <= g_err_limit.
  Proof. unfold g_err_limit. lra. Qed.

  Lemma loop_sound : forall fuel first hs h ok bad acc res n_bad,
    inv first hs h acc ->
    loop pw att T bad_max fuel first hs h ok bad acc = Finished res n_bad ->
    qsum_list (map fst res) == T /\ Forall (fun he => 0 < fst he /\ snd he <= g_err_limit) res.
  Proof.
    induction fuel as [|f IH]; intros first hs h ok bad acc res n_bad I E; simpl in E; [discriminate|].
    destruct I as (Isum & Iall & Irange & Ifirst).
    destruct (Qltb hs T) eqn:Hlt; cbn [negb] in E.
    2:{ (* loop left: hs >= T, so hs == T *)
      apply Qltb_false in Hlt. injection E as <- _.
      split.
      - rewrite map_rev, qsum_list_rev, Isum. destruct Irange as [R|[Hh R]]; [exact R|lra].
      - apply Forall_rev. exact Iall. }
    apply Qltb_true in Hlt.
    destruct Irange as [R|[Hh R]]; [lra|].
    destruct (Nat.ltb bad_max bad); [discriminate|].
    destruct (att hs h) as [mr|err|].
    - (* TooLarge *)
      destruct (Qltb g_reduce_guard mr) eqn:G; [|discriminate].
      apply Qltb_true in G. destruct (reduce_shrinks h mr Hh G) as [P1 P2].
      eapply IH; [|exact E]. split; [exact Isum|split; [exact Iall|split; [right; split; lra|discriminate]]].
    - (* Evaluated *)
      destruct (Qltb g_err_limit err) eqn:L.
      + apply Qltb_true in L.
        eapply IH; [|exact E]. split; [exact Isum|split; [exact Iall|split; [|discriminate]]].
        right. destruct (Nat.eqb ok 0).
        * destruct (reject_first_shrinks h err Hh L). split; lra.
        * destruct (reject_later_shrinks h err Hh L). split; lra.
      + apply Qltb_false in L.
        eapply IH; [|exact E]. split; [|split; [|split]].
        * simpl. rewrite Isum. ring.
        * constructor; [split; [exact Hh|exact L]|exact Iall].
        * unfold next_h_accept. destruct (Qltb (hs + h) T) eqn:C.
          -- apply Qltb_true in C. right.
             assert (G : 0 < (if Qltb g_grow_threshold err then g_h_grow_big_err pw h err else g_h_grow_small_err h err)).
             { destruct (grow_pos h err Hh) as [G1 G2]. destruct (Qltb g_grow_threshold err) eqn:Th; [apply G1, Qltb_true, Th|exact G2]. }
             set (hg := if Qltb g_grow_threshold err then _ else _) in *.
             unfold g_h_clamp. destruct (Qltb (T - (hs + h)) hg) eqn:K.
             ++ split; lra.
             ++ apply Qltb_false in K. split; lra.
          -- apply Qltb_false in C. left. lra.
        * discriminate.
    - (* Exit *)
      destruct first; [|discriminate]. destruct (Ifirst eq_refl) as (H0 & HT & Hacc). subst acc.
      injection E as <- _. simpl. split; [lra|].
      constructor; [|constructor]. simpl. split; [lra|apply err_limit_nonneg].
  Qed.

  Theorem controller_sums_to_T_sec : forall fuel acc n_bad,
    rk_loop pw att T bad_max fuel = Finished acc n_bad ->
    qsum_list (map fst acc) == T /\ Forall (fun he => 0 < fst he /\ snd he <= g_err_limit) acc.
  Proof.
    intros fuel acc n_bad E. unfold rk_loop in E. eapply loop_sound; [|exact E].
    split; [reflexivity|split; [constructor|split; [right; split; lra|intros _; repeat split; reflexivity]]].
  Qed.
End PowFacts.

Theorem controller_sums_to_T : forall pw att
  (Hpw : forall x e, 0 < x -> 0 < pw x e) (Hpw1 : forall x e, 1 < x -> e < 0 -> pw x e <= 1)
  T fuel bad_max acc n_bad,
  0 < T -> rk_loop pw att T bad_max fuel = Finished acc n_bad ->
  qsum_list (map fst acc) == T /\
  Forall (fun he => 0 < fst he /\ snd he <= g_err_limit) acc.
Proof. intros. eapply controller_sums_to_T_sec; eassumption. Qed.

(* non-vacuity: a run with one size reduction, one rejected and three accepted steps *)
Definition demo_pw (x e : Q) : Q := if Qltb x 1 then 2 else 1.
Definition demo_att (hs h : Q) : attempt :=
  if Qltb 50 h then TooLarge 3 else if Qeq_bool hs 0 && Qltb 15 h then Evaluated 2 else Evaluated (1#2).
Example controller_example :
  exists acc n, rk_loop demo_pw demo_att 100 5 40 = Finished acc n /\ (1 < length acc)%nat /\ (0 < n)%nat.
Proof. eexists. eexists. split; [vm_compute; reflexivity|]. split; simpl; lia. Qed.
