(* IPV.C12.Inst — the model of RK.v instantiated with what translator/c12_gen.py regenerated from
   Phreeqc::rk_kinetics.  No proofs here: this file (and Trace.v) still compile when a proof breaks. *)
Require Import QArith List.
Require Import IPV.C12.RK IPV.Gen.Gen_C12_Tableau.
Open Scope Q_scope.

(* the scheme the code implements *)
Definition CK : scheme := {|
  s2 := g_stage2; s3 := g_stage3; s4 := g_stage4; s5 := g_stage5; s6 := g_stage6;
  res := g_result; est := g_errest; x1 := g_exit1; x2 := g_exit2; x3 := g_exit3;
  t1 := g_time1; t2 := g_time2; t3 := g_time3; t4 := g_time4; t5 := g_time5; t6 := g_time6 |}.

