(* IPV.C12.Transfer — model of how an integrated amount is handed to the solution:
   Phreeqc::calc_final_kinetic_reaction (kinetics.cpp) followed by the update loop
        Set_m(m_temp[j] - Get_moles()); if (Get_m() < 1.e-30) Set_m(0); Set_moles(0.)
   that follows every final combination in rk_kinetics.
     - a reactant cannot deliver more than it has: if moles > m_temp then moles := m_temp (and m := 0)
     - the element totals handed to the solver are  sum_reactants moles * formula
   Not modelled: limit_rates (only active with -use_kinetics_limiter style switch), the exchange/surface
   "related rate" adjustments. *)
Require Import QArith List Lia Lra Lqa Bool String.
Import ListNotations.
Require Import IPV.C12.MiniPrelude IPV.C12.Controller.
Open Scope Q_scope.

Record kcomp := { kc_formula : list (string * Q); kc_m : Q; kc_moles : Q }.

Definition tiny : Q := 1 # 1000000000000000000000000000000.   (* 1.e-30 *)

Fixpoint coef_of (f : list (string * Q)) (elt : string) : Q :=
  match f with
  | [] => 0
  | (e, c) :: r => (if String.eqb e elt then c else 0) + coef_of r elt
  end.

(* calc_final_kinetic_reaction: clamp, then accumulate totals *)
Definition clamp (c : kcomp) : kcomp :=
  if Qltb (kc_m c) (kc_moles c) then {| kc_formula := kc_formula c; kc_m := kc_m c; kc_moles := kc_m c |} else c.
Definition final_reaction (comps : list kcomp) : list kcomp := map clamp comps.
Definition totals_of (comps : list kcomp) (elt : string) : Q :=
  qsum_list (map (fun c => coef_of (kc_formula c) elt * kc_moles c) comps).

(* the update loop after the solver call *)
Definition update (c : kcomp) : kcomp :=
  let c' := clamp c in
  let m' := kc_m c - kc_moles c' in
  {| kc_formula := kc_formula c; kc_m := if Qltb m' tiny then 0 else m'; kc_moles := 0 |}.
Definition apply_reaction (comps : list kcomp) : list kcomp := map update comps.

(* no reactant ends in the open interval (0, 1e-30) where the code rounds the amount to 0 *)
Definition no_tiny (c : kcomp) : Prop := let m' := kc_m c - kc_moles (clamp c) in m' == 0 \/ tiny <= m'.

Lemma clamp_le : forall c, kc_moles (clamp c) <= kc_m c \/ kc_moles (clamp c) == kc_moles c /\ kc_moles c <= kc_m c.
Proof.
  intro c. unfold clamp. destruct (Qltb (kc_m c) (kc_moles c)) eqn:E.
  - left. simpl. lra.
  - right. apply Qltb_false in E. split; [reflexivity|exact E].
Qed.

Lemma clamp_moles_le_m : forall c, kc_moles (clamp c) <= kc_m c.
Proof. intro c. destruct (clamp_le c) as [H|[H1 H2]]; [exact H|rewrite H1; exact H2]. Qed.

Lemma update_nonneg : forall c, 0 <= kc_m (update c).
Proof.
  intro c. unfold update. cbn [kc_m]. destruct (Qltb (kc_m c - kc_moles (clamp c)) tiny) eqn:E; [lra|].
  pose proof (clamp_moles_le_m c). lra.
Qed.

(* reactant amounts never become negative — whatever the integrator asked for *)
Theorem apply_reaction_nonneg_all : forall comps, Forall (fun c => 0 <= kc_m c) (apply_reaction comps).
Proof. intro comps. unfold apply_reaction. apply Forall_forall. intros x H. apply in_map_iff in H. destruct H as (c & <- & _). apply update_nonneg. Qed.

Theorem apply_reaction_nonneg : forall comps,
  Forall (fun c => 0 <= kc_m c) comps -> Forall (fun c => 0 <= kc_m c) (apply_reaction comps).
Proof. intros comps _. apply apply_reaction_nonneg_all. Qed.

Lemma update_delta : forall c, no_tiny c -> kc_m (update c) - kc_m c == - kc_moles (clamp c).
Proof.
  intros c H. unfold update. cbn [kc_m]. unfold no_tiny in H. cbv zeta in H.
  destruct (Qltb (kc_m c - kc_moles (clamp c)) tiny) eqn:E.
  - apply Qltb_true in E. destruct H as [H|H]; [lra|lra].
  - ring.
Qed.

Lemma clamp_formula : forall c, kc_formula (clamp c) = kc_formula c.
Proof. intro c. unfold clamp. destruct (Qltb _ _); reflexivity. Qed.

(* what the solution receives of element elt = - sum_reactants formula(elt) * (change of the reactant) *)
Theorem transfer_formula_delta : forall comps elt,
  Forall no_tiny comps ->
  totals_of (final_reaction comps) elt ==
  - qsum_list (map (fun p => coef_of (kc_formula (fst p)) elt * (kc_m (snd p) - kc_m (fst p)))
                   (combine comps (apply_reaction comps))).
Proof.
  intros comps elt H. unfold totals_of, final_reaction, apply_reaction.
  induction comps as [|c r IH]; simpl; [ring|].
  inversion H as [|? ? Hc Hr]; subst.
  rewrite IH by assumption. rewrite clamp_formula. rewrite (update_delta c Hc). ring.
Qed.

(* non-vacuity: A has 0.01 mol and is asked for 0.004; B has 0.001 and is asked for 0.002 (clamped) *)
Example transfer_example :
  let comps := [ {| kc_formula := [("Na"%string, 1); ("Cl"%string, 1)]; kc_m := 1#100; kc_moles := 4#1000 |};
                 {| kc_formula := [("Na"%string, 2)]; kc_m := 1#1000; kc_moles := 2#1000 |} ] in
  Forall no_tiny comps /\ totals_of (final_reaction comps) "Na" == 6#1000 /\
  map kc_m (apply_reaction comps) = [(1#100) - (4#1000); 0].
Proof.
  cbv zeta. split; [|split; vm_compute; reflexivity].
  repeat constructor; unfold no_tiny; cbv zeta; vm_compute; intuition congruence.
Qed.
