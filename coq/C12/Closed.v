(* IPV.C12.Closed — the closed-form family used by the correspondence, with proofs that each closed
   form satisfies its rate law (derivative and initial value).  Uniqueness of solutions of linear ODEs
   (Picard-Lindelof) is classical mathematics and is not re-proved here. *)
From Coq Require Import Reals QArith Qreals List Lra.
From IPV Require Import C12.Checker.
Import ListNotations.

(* zero order, rate r (valid until exhaustion m0 - r t >= 0) *)
Definition cf_zero (m0 r : Q) : closed_form := {| cf_c0 := m0; cf_c1 := - r; cf_c2 := 0; cf_terms := [] |}.
(* rate r0 + r1 * TOTAL_TIME *)
Definition cf_ramp (m0 r0 r1 : Q) : closed_form := {| cf_c0 := m0; cf_c1 := - r0; cf_c2 := - r1 / 2; cf_terms := [] |}.
(* first order, rate k m *)
Definition cf_first (m0 k : Q) : closed_form := {| cf_c0 := 0; cf_c1 := 0; cf_c2 := 0; cf_terms := [(m0, k)] |}.
(* reversible A <-> B: A' = -k1 A + k2 B, B' = k1 A - k2 B *)
Definition cf_revA (a0 b0 k1 k2 : Q) : closed_form :=
  let s := k1 + k2 in let aeq := k2 * (a0 + b0) / s in
  {| cf_c0 := aeq; cf_c1 := 0; cf_c2 := 0; cf_terms := [(a0 - aeq, s)] |}.
Definition cf_revB (a0 b0 k1 k2 : Q) : closed_form :=
  let s := k1 + k2 in let beq := k1 * (a0 + b0) / s in
  {| cf_c0 := beq; cf_c1 := 0; cf_c2 := 0; cf_terms := [(b0 - beq, s)] |}.
(* chain A -> B -> : A' = -k1 A, B' = k1 A - k2 B  (k1 <> k2) *)
Definition cf_chainB (a0 b0 k1 k2 : Q) : closed_form :=
  let g := a0 * k1 / (k2 - k1) in
  {| cf_c0 := 0; cf_c1 := 0; cf_c2 := 0; cf_terms := [(b0 - g, k2); (g, k1)] |}.

(* rate k0*M0 + k1*M with M0 the user-defined initial amount m0 (a constant) and m the amount at the start:
   M' = -(k0 m0 + k1 M), M(0) = m *)
Definition cf_m0dep (m0 m k0 k1 : Q) : closed_form :=
  let c := k0 * m0 / k1 in
  {| cf_c0 := - c; cf_c1 := 0; cf_c2 := 0; cf_terms := [(m + c, k1)] |}.

Local Open Scope R_scope.

Ltac q2r := repeat (rewrite ?Q2R_plus, ?Q2R_minus, ?Q2R_mult, ?Q2R_opp, ?RMicromega.Q2R_0).

Lemma Q2R_two : Q2R 2 = 2.
Proof. change (Q2R 2) with (Q2R (2#1)). unfold Q2R. simpl. lra. Qed.

Lemma exp_at_0 : forall r, exp (- (r * 0)) = 1.
Proof. intro r. rewrite Rmult_0_r, Ropp_0. apply exp_0. Qed.

Theorem zero_order_solves : forall m0 r t,
  derivable_pt_lim (cf_R (cf_zero m0 r)) t (- Q2R r) /\ cf_R (cf_zero m0 r) 0 = Q2R m0.
Proof.
  intros m0 r t. split.
  - pose proof (cf_R_derivable (cf_zero m0 r) t) as D.
    replace (- Q2R r) with (cf_R (cf_deriv (cf_zero m0 r)) t); [exact D|].
    unfold cf_R, cf_deriv, cf_zero. simpl. q2r. ring.
  - unfold cf_R, cf_zero. simpl. q2r. ring.
Qed.

Theorem ramp_solves : forall m0 r0 r1 t,
  derivable_pt_lim (cf_R (cf_ramp m0 r0 r1)) t (- (Q2R r0 + Q2R r1 * t)) /\ cf_R (cf_ramp m0 r0 r1) 0 = Q2R m0.
Proof.
  intros m0 r0 r1 t. split.
  - pose proof (cf_R_derivable (cf_ramp m0 r0 r1) t) as D.
    replace (- (Q2R r0 + Q2R r1 * t)) with (cf_R (cf_deriv (cf_ramp m0 r0 r1)) t); [exact D|].
    unfold cf_R, cf_deriv, cf_ramp. simpl. q2r. rewrite Q2R_div by (intro H; discriminate H). q2r. rewrite Q2R_two. field.
  - unfold cf_R, cf_ramp. simpl. q2r. ring.
Qed.

Theorem first_order_solves : forall m0 k t,
  derivable_pt_lim (cf_R (cf_first m0 k)) t (- Q2R k * cf_R (cf_first m0 k) t) /\ cf_R (cf_first m0 k) 0 = Q2R m0.
Proof.
  intros m0 k t. split.
  - pose proof (cf_R_derivable (cf_first m0 k) t) as D.
    replace (- Q2R k * cf_R (cf_first m0 k) t) with (cf_R (cf_deriv (cf_first m0 k)) t); [exact D|].
    unfold cf_R, cf_deriv, cf_first. simpl. q2r. ring.
  - unfold cf_R, cf_first. simpl. rewrite exp_at_0. q2r. ring.
Qed.

Theorem reversible_solves : forall a0 b0 k1 k2 t, ~ (k1 + k2 == 0)%Q ->
  let A := cf_R (cf_revA a0 b0 k1 k2) in let B := cf_R (cf_revB a0 b0 k1 k2) in
  derivable_pt_lim A t (- Q2R k1 * A t + Q2R k2 * B t) /\
  derivable_pt_lim B t (Q2R k1 * A t - Q2R k2 * B t) /\
  A 0 = Q2R a0 /\ B 0 = Q2R b0.
Proof.
  intros a0 b0 k1 k2 t Hs A B.
  assert (HsR : Q2R k1 + Q2R k2 <> 0).
  { intro H. apply Hs. apply eqR_Qeq. q2r. exact H. }
  repeat split.
  - pose proof (cf_R_derivable (cf_revA a0 b0 k1 k2) t) as D.
    replace (- Q2R k1 * A t + Q2R k2 * B t) with (cf_R (cf_deriv (cf_revA a0 b0 k1 k2)) t); [exact D|].
    subst A B. unfold cf_R, cf_deriv, cf_revA, cf_revB. simpl. q2r. rewrite !Q2R_div by exact Hs. q2r. field. exact HsR.
  - pose proof (cf_R_derivable (cf_revB a0 b0 k1 k2) t) as D.
    replace (Q2R k1 * A t - Q2R k2 * B t) with (cf_R (cf_deriv (cf_revB a0 b0 k1 k2)) t); [exact D|].
    subst A B. unfold cf_R, cf_deriv, cf_revA, cf_revB. simpl. q2r. rewrite !Q2R_div by exact Hs. q2r. field. exact HsR.
  - subst A. unfold cf_R, cf_revA. simpl. rewrite exp_at_0. q2r. rewrite !Q2R_div by exact Hs. q2r. field. exact HsR.
  - subst B. unfold cf_R, cf_revB. simpl. rewrite exp_at_0. q2r. rewrite !Q2R_div by exact Hs. q2r. field. exact HsR.
Qed.

Theorem chain_solves : forall a0 b0 k1 k2 t, ~ (k2 - k1 == 0)%Q ->
  let A := cf_R (cf_first a0 k1) in let B := cf_R (cf_chainB a0 b0 k1 k2) in
  derivable_pt_lim B t (Q2R k1 * A t - Q2R k2 * B t) /\ B 0 = Q2R b0.
Proof.
  intros a0 b0 k1 k2 t Hs A B.
  assert (HsR : Q2R k2 - Q2R k1 <> 0).
  { intro H. apply Hs. apply eqR_Qeq. q2r. exact H. }
  split.
  - pose proof (cf_R_derivable (cf_chainB a0 b0 k1 k2) t) as D.
    replace (Q2R k1 * A t - Q2R k2 * B t) with (cf_R (cf_deriv (cf_chainB a0 b0 k1 k2)) t); [exact D|].
    subst A B. unfold cf_R, cf_deriv, cf_chainB, cf_first. simpl. q2r. rewrite !Q2R_div by exact Hs. q2r. field. exact HsR.
  - subst B. unfold cf_R, cf_chainB. simpl. rewrite !exp_at_0. q2r. rewrite !Q2R_div by exact Hs. q2r. field. exact HsR.
Qed.

Theorem m0dep_solves : forall m0 m k0 k1 t, ~ (k1 == 0)%Q ->
  let M := cf_R (cf_m0dep m0 m k0 k1) in
  derivable_pt_lim M t (- (Q2R k0 * Q2R m0 + Q2R k1 * M t)) /\ M 0 = Q2R m.
Proof.
  intros m0 m k0 k1 t Hk M.
  assert (HkR : Q2R k1 <> 0).
  { intro H. apply Hk. apply eqR_Qeq. q2r. exact H. }
  split.
  - pose proof (cf_R_derivable (cf_m0dep m0 m k0 k1) t) as D.
    replace (- (Q2R k0 * Q2R m0 + Q2R k1 * M t)) with (cf_R (cf_deriv (cf_m0dep m0 m k0 k1)) t); [exact D|].
    subst M. unfold cf_R, cf_deriv, cf_m0dep. simpl. q2r. rewrite !Q2R_div by exact Hk. q2r. field. exact HkR.
  - subst M. unfold cf_R, cf_m0dep. simpl. rewrite exp_at_0. q2r. rewrite !Q2R_div by exact Hk. q2r. field. exact HkR.
Qed.
