(* IPV.C12.Checker — verified checker for "the reported amount agrees with the exact solution".

   Every rate law of the closed-form family (zero order until exhaustion, first order, reversible
   first order A <-> B, sequential first order A -> B -> ...) has a solution of the form
        m(t) = c0 + c1 t + c2 t^2 + sum_i a_i exp (- r_i t)    (c0 c1 c2 a_i r_i rational)
   [check_closed] evaluates that expression with the Interval library (80-bit outward-rounded floats,
   IPV.Base.IntervalEval) at the exact rational value of the time and compares it with the exact
   dyadic value of the amount the implementation reported.  It is sound: [true] implies the real
   inequality. *)
From Coq Require Import Reals QArith Qreals List Lra Bool.
From IPV Require Import Base.RExpr Base.IntervalEval.
Import ListNotations.

Record closed_form := { cf_c0 : Q; cf_c1 : Q; cf_c2 : Q; cf_terms : list (Q * Q) }.

(* Var 0 = t, Var 1 = reported amount *)
Definition term_expr (ar : Q * Q) : rexpr := Mul (Const (fst ar)) (Exp (Neg (Mul (Const (snd ar)) (Var 0)))).
Definition cf_expr (cf : closed_form) : rexpr :=
  fold_right (fun ar acc => Add (term_expr ar) acc) (Add (Const (cf_c0 cf)) (Add (Mul (Const (cf_c1 cf)) (Var 0)) (Mul (Const (cf_c2 cf)) (Mul (Var 0) (Var 0))))) (cf_terms cf).

Local Open Scope R_scope.

Definition cf_R (cf : closed_form) (t : R) : R :=
  fold_right (fun ar acc => Q2R (fst ar) * exp (- (Q2R (snd ar) * t)) + acc)
             (Q2R (cf_c0 cf) + (Q2R (cf_c1 cf) * t + Q2R (cf_c2 cf) * (t * t))) (cf_terms cf).

Lemma cf_expr_eval : forall cf env, evalR env (cf_expr cf) = cf_R cf (env 0%nat).
Proof.
  intros [c0 c1 c2 ts] env. unfold cf_expr, cf_R. cbn [cf_c0 cf_c1 cf_c2 cf_terms].
  induction ts as [|ar ts IH]; simpl; [reflexivity|]. rewrite IH. reflexivity.
Qed.

(* |reported - exact(t)| <= bound *)
Definition check_closed (cf : closed_form) (t reported bound : Q) : bool :=
  check_eq_within_Q prec80 [t; reported] (Var 1) (cf_expr cf) bound.

Theorem check_closed_sound : forall cf t reported bound,
  check_closed cf t reported bound = true ->
  Rabs (Q2R reported - cf_R cf (Q2R t)) <= Q2R bound.
Proof.
  intros cf t rep bound H. apply check_eq_within_Q_sound in H.
  rewrite cf_expr_eval in H. exact H.
Qed.

(* two reported amounts agree within a bound (exact rational arithmetic) *)
Definition check_agree (a b bound : Q) : bool := Qle_bool (Qabs.Qabs (a - b)) bound.
Theorem check_agree_sound : forall a b bound, check_agree a b bound = true -> (Qabs.Qabs (a - b) <= bound)%Q.
Proof. intros a b bound H. apply Qle_bool_iff. exact H. Qed.

(* the closed forms really solve the rate laws: derivative of cf_R *)
Definition cf_deriv (cf : closed_form) : closed_form :=
  {| cf_c0 := cf_c1 cf; cf_c1 := (2 * cf_c2 cf)%Q; cf_c2 := 0; cf_terms := map (fun ar => ((- (fst ar) * snd ar)%Q, snd ar)) (cf_terms cf) |}.

Lemma cf_R_derivable : forall cf t, derivable_pt_lim (cf_R cf) t (cf_R (cf_deriv cf) t).
Proof.
  intros [c0 c1 c2 ts] t. unfold cf_R, cf_deriv. cbn [cf_c0 cf_c1 cf_c2 cf_terms].
  induction ts as [|[a r] ts IH].
  - cbn [fold_right map].
    replace (Q2R c1 + (Q2R (2 * c2) * t + Q2R 0 * (t * t))) with (0 + (Q2R c1 * 1 + Q2R c2 * (1 * t + t * 1)))
      by (rewrite Q2R_mult, RMicromega.Q2R_0; change (Q2R 2) with (Q2R (2#1)); rewrite Q2R_make; simpl; field).
    apply derivable_pt_lim_plus; [apply derivable_pt_lim_const|].
    apply (derivable_pt_lim_plus (fun t => Q2R c1 * t) (fun t => Q2R c2 * (t * t))).
    + apply derivable_pt_lim_scal. apply derivable_pt_lim_id.
    + apply derivable_pt_lim_scal. apply (derivable_pt_lim_mult id id); apply derivable_pt_lim_id.
  - cbn [fold_right map fst snd].
    apply (derivable_pt_lim_plus (fun t => Q2R a * exp (- (Q2R r * t)))); [|exact IH].
    rewrite Q2R_mult, Q2R_opp.
    replace (- Q2R a * Q2R r * exp (- (Q2R r * t))) with (Q2R a * (exp (- (Q2R r * t)) * (- (Q2R r * 1)))) by ring.
    apply derivable_pt_lim_scal.
    apply (derivable_pt_lim_comp (fun t => - (Q2R r * t)) exp).
    + apply (derivable_pt_lim_opp (fun t => Q2R r * t)). apply derivable_pt_lim_scal. apply derivable_pt_lim_id.
    + apply derivable_pt_lim_exp.
Qed.

Example selftest_closed :   (* 0.01 exp(-0.01*400) = 1.8315638888734e-4 *)
  check_closed {| cf_c0 := 0; cf_c1 := 0; cf_c2 := 0; cf_terms := [((1#100)%Q, (1#100)%Q)] |} 400 (18315638888734#100000000000000000) (1#10000000000000000) = true
  /\ check_closed {| cf_c0 := 0; cf_c1 := 0; cf_c2 := 0; cf_terms := [((1#100)%Q, (1#100)%Q)] |} 400 (18315638888734#100000000000000000) (1#1000000000000000000) = false.
Proof. split; vm_compute; reflexivity. Qed.
