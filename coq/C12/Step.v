(* IPV.C12.Step — time bookkeeping of KINETICS steps.
   Specification of cxxKinetics::Current_step (src/phreeqcpp/cxxKinetics.cxx) and of how
   Phreeqc::reactions (mainsubs.cpp) uses it:  for reaction_step = 1..count_steps
       kin_time = Current_step(incremental_reactions, reaction_step)
   cumulative mode restarts from the initial state and integrates over kin_time,
   incremental mode continues from the previous step and integrates over kin_time more
   (rate_sim_time_start += kin_time).  *)
Require Import QArith ZArith List Lia Bool.
Import ListNotations.
Require Import IPV.C12.MiniPrelude.
Open Scope Q_scope.

(* -steps t1 t2 ... tn          : eq = false, steps = [t1..tn]
   -steps T in N steps          : eq = true,  steps = [T], cnt = N  *)
Definition current_step_spec (steps : list Q) (cnt : Z) (eq inc : bool) (n : Z) : Q :=
  match steps with
  | [] => 1
  | s0 :: _ =>
    if eq then
      if inc then (if (cnt <? n)%Z then 0 else s0 / inject_Z cnt)
      else (if (cnt <? n)%Z then s0 else inject_Z n * s0 / inject_Z cnt)
    else
      if (sizeZ steps <? n)%Z then nthQ steps (sizeZ steps - 1) else nthQ steps (n - 1)
  end.

(* sum_{k=1..j} f k *)
Fixpoint sumto (f : nat -> Q) (j : nat) : Q :=
  match j with O => 0 | S j' => sumto f j' + f (S j') end.

(* time reached after j incremental steps *)
Definition elapsed_incremental (cs : Z -> Q) (j : nat) : Q := sumto (fun k => cs (Z.of_nat k)) j.

(* running totals of a list of increments: what the user would write in cumulative mode *)
Fixpoint psums_from (acc : Q) (l : list Q) : list Q :=
  match l with [] => [] | x :: r => (acc + x) :: psums_from (acc + x) r end.
Definition psums (l : list Q) : list Q := psums_from 0 l.

Fixpoint sumfirst (k : nat) (l : list Q) : Q :=
  match k, l with
  | O, _ => 0
  | S k', x :: r => x + sumfirst k' r
  | S _, [] => 0
  end.

Lemma psums_from_length : forall l acc, length (psums_from acc l) = length l.
Proof. induction l; intros; simpl; [reflexivity|]. now rewrite IHl. Qed.

Lemma psums_from_nth : forall l acc k, (k < length l)%nat ->
  nth k (psums_from acc l) 0 == acc + sumfirst (S k) l.
Proof.
  induction l as [|x r IH]; intros acc k H; simpl in H; [lia|].
  destruct k as [|k].
  - simpl. destruct r; simpl; ring.
  - simpl psums_from. cbn [nth]. rewrite IH by lia.
    change (sumfirst (S (S k)) (x :: r)) with (x + sumfirst (S k) r). ring.
Qed.

Lemma sumfirst_snoc : forall l k, (k < length l)%nat ->
  sumfirst (S k) l == sumfirst k l + nth k l 0.
Proof.
  induction l as [|x r IH]; intros k H; simpl in H; [lia|].
  destruct k as [|k].
  - simpl. ring.
  - change (sumfirst (S (S k)) (x :: r)) with (x + sumfirst (S k) r).
    rewrite IH by lia. simpl. ring.
Qed.
