(* IPV.C12.TransportTime — how much kinetic time one transport step (shift) of Phreeqc::transport (transport.cpp) hands to
   every cell of the column.  One step is
       [if b_c = 1]  mixing runs j = 1 .. floor(nmix/2)        : run_reactions(cell, kin_time) for every cell
       [if ishift <> 0] advective part:
             before the shift  run_reactions(first_c, kin_time_save/2)   (inflow cell, if it has kinetics and cells > 1)
             shift
             for i = 1 .. cells: run_reactions(i, kin_time)  with kin_time halved for the inflow cell and restored afterwards
       mixing runs (continuing j, or from 1 if b_c <> 1) .. nmix : run_reactions(cell, kin_time) for every cell
   with kin_time = timest/(1+nmix) (advection) or timest/nmix (diffusion only).  All g_tr_* are REGENERATED from the source by
   symbolic execution of exactly these statements.  Not modelled: that every mixing run visits every cell (inner loops
   i = 0 .. cells+1), stagnant zones (mix_stag, stagkin_time). *)
Require Import QArith ZArith List Lia Lra Lqa Bool Field.
Require Import IPV.Gen.Gen_C12_Transport.
Open Scope Q_scope.

(* for (j = a; j <= b; j++): number of passes, value of j afterwards *)
Definition loop_count (a b : Z) : Z := Z.max 0 (b - a + 1).
Definition loop_exit (a b : Z) : Z := Z.max a (b + 1).

(* number of mixing runs of one transport step; None = the counter would be used uninitialised *)
Definition mixruns (b_c nmix : Z) : option Z :=
  let g1 := g_tr_mix1_guard b_c in
  let c1 := if g1 then loop_count g_tr_mix1_first (g_tr_mix1_last nmix) else 0%Z in
  let j1 := if g1 then Some (loop_exit g_tr_mix1_first (g_tr_mix1_last nmix)) else None in
  let j2 := if g_tr_mix2_reset_guard b_c then Some g_tr_mix2_reset_value else j1 in
  match j2 with
  | Some s => Some (c1 + loop_count s (g_tr_mix2_last nmix))%Z
  | None => None
  end.

(* the loop over cells after the shift: kinetic time handed to cell [target]; kt is the loop-carried variable *)
Fixpoint adv_loop (k : nat) (i fc n : Z) (kt save : Q) (target : Z) : Q :=
  match k with
  | O => 0
  | S k' => (if Z.eqb i target then g_tr_loop_time i fc n kt save else 0)
            + adv_loop k' (i + 1) fc n (g_tr_loop_next i fc n kt save) save target
  end.

Definition adv_time (fc n : Z) (kt save : Q) (target : Z) : Q :=
  adv_loop (Z.to_nat (loop_count g_tr_loop_first (g_tr_loop_last n))) g_tr_loop_first fc n kt save target.

(* kinetic time cell c receives during one transport step *)
Definition cell_time (ishift nmix cells bcf bcl : Z) (has_kin : bool) (timest : Q) (c : Z) : option Q :=
  let kt := g_tr_kin_time ishift nmix timest in
  let save := g_tr_kin_time_save ishift nmix timest in
  let fc := g_tr_first_c ishift cells in
  match mixruns (g_tr_b_c ishift bcf bcl) nmix with
  | None => None
  | Some m =>
    Some (inject_Z m * kt +
          (if g_tr_adv_guard ishift then
             (if g_tr_pre_cond has_kin cells && Z.eqb (g_tr_pre_cell fc) c then g_tr_pre_time kt save else 0)
             + adv_time fc cells (g_tr_pre_next has_kin cells kt save) save c
           else 0))
  end.

(* ------------------------------------------------------------------------------------------------ proofs *)
Ltac Zify.zify_post_hook ::= Z.div_mod_to_equations.

Lemma mixruns_total : forall ishift bcf bcl nmix, (0 <= nmix)%Z -> mixruns (g_tr_b_c ishift bcf bcl) nmix = Some nmix.
Proof.
  intros ishift bcf bcl nmix H.
  unfold mixruns, g_tr_b_c, g_tr_mix1_guard, g_tr_mix2_reset_guard, g_tr_mix1_first, g_tr_mix1_last, g_tr_mix2_reset_value, g_tr_mix2_last.
  match goal with |- context [if ?b then 1%Z else 0%Z] => destruct b end; cbn [Z.eqb Pos.eqb negb];
  unfold loop_count, loop_exit; f_equal; lia.
Qed.

Lemma loop_shape : forall i fc n kt save, kt == save ->
  g_tr_loop_time i fc n kt save == (if Z.eqb i fc && Z.ltb 1 n then save / 2 else save) /\
  g_tr_loop_next i fc n kt save == save.
Proof.
  intros i fc n kt save H. unfold g_tr_loop_time, g_tr_loop_next.
  destruct (Z.eqb i fc), (Z.ltb 1 n); cbn [andb]; split; try (rewrite H); try reflexivity; field.
Qed.

Lemma adv_loop_spec : forall k i fc n kt save target, kt == save ->
  adv_loop k i fc n kt save target ==
  if Z.leb i target && Z.ltb target (i + Z.of_nat k) then (if Z.eqb target fc && Z.ltb 1 n then save / 2 else save) else 0.
Proof.
  induction k as [|k IH]; intros i fc n kt save target H.
  - cbn [adv_loop]. destruct (Z.leb i target) eqn:E1, (Z.ltb target (i + Z.of_nat 0)) eqn:E2; cbn [andb]; try reflexivity.
    apply Z.leb_le in E1. apply Z.ltb_lt in E2. lia.
  - cbn [adv_loop]. destruct (loop_shape i fc n kt save H) as [S1 S2].
    rewrite (IH (i + 1)%Z fc n _ save target S2).
    destruct (Z.eqb i target) eqn:E.
    + apply Z.eqb_eq in E. subst target. rewrite S1.
      replace (Z.leb i i) with true by (symmetry; apply Z.leb_le; lia).
      replace (Z.ltb i (i + Z.of_nat (S k))) with true by (symmetry; apply Z.ltb_lt; lia).
      replace (Z.leb (i + 1) i) with false by (symmetry; apply Z.leb_gt; lia).
      cbn [andb]. ring.
    + apply Z.eqb_neq in E.
      destruct (Z.leb (i + 1) target) eqn:E1, (Z.ltb target (i + 1 + Z.of_nat k)) eqn:E2; cbn [andb];
      destruct (Z.leb i target) eqn:E3, (Z.ltb target (i + Z.of_nat (S k))) eqn:E4; cbn [andb]; try ring;
      try apply Z.leb_le in E1; try apply Z.leb_gt in E1; try apply Z.ltb_lt in E2; try apply Z.ltb_ge in E2;
      try apply Z.leb_le in E3; try apply Z.leb_gt in E3; try apply Z.ltb_lt in E4; try apply Z.ltb_ge in E4; lia.
Qed.

Lemma adv_time_spec : forall fc n kt save c, kt == save -> (1 <= c <= n)%Z ->
  adv_time fc n kt save c == if Z.eqb c fc && Z.ltb 1 n then save / 2 else save.
Proof.
  intros fc n kt save c H Hc. unfold adv_time. rewrite adv_loop_spec by exact H.
  unfold g_tr_loop_first, g_tr_loop_last, loop_count.
  replace (Z.leb 1 c) with true by (symmetry; apply Z.leb_le; lia).
  replace (Z.ltb c (1 + Z.of_nat (Z.to_nat (Z.max 0 (n - 1 + 1))))) with true by (symmetry; apply Z.ltb_lt; lia).
  reflexivity.
Qed.

Lemma pre_shape : forall cells kt save, kt == save ->
  g_tr_pre_cond true cells = Z.ltb 1 cells /\ (forall fc, g_tr_pre_cell fc = fc) /\
  g_tr_pre_time kt save == save / 2 /\ g_tr_pre_next true cells kt save == save.
Proof.
  intros cells kt save H. unfold g_tr_pre_cond, g_tr_pre_cell, g_tr_pre_time, g_tr_pre_next. cbn [andb].
  split; [reflexivity|]. split; [intro; reflexivity|]. split; [field|].
  destruct (Z.ltb 1 cells); [reflexivity|exact H].
Qed.

Lemma inject_nz : forall z, (0 <= z)%Z -> ~ 1 + inject_Z z == 0.
Proof. intros z H E. unfold Qeq, Qplus, inject_Z in E. cbn [Qnum Qden] in E. rewrite !Z.mul_1_r in E. lia. Qed.

(* advection (forward or backward), any number of mixing runs, any boundary condition: every cell of the column,
   the inflow cell included, receives exactly one time step per shift *)
Theorem advective_step_integrates_timest : forall ishift nmix cells bcf bcl timest c,
  ishift <> 0%Z -> (0 <= nmix)%Z -> (1 <= c <= cells)%Z ->
  exists t, cell_time ishift nmix cells bcf bcl true timest c = Some t /\ t == timest.
Proof.
  intros ishift nmix cells bcf bcl timest c Hi Hn Hc. unfold cell_time. rewrite mixruns_total by exact Hn.
  eexists. split; [reflexivity|].
  assert (Ek : g_tr_kin_time ishift nmix timest == timest / (1 + inject_Z nmix) /\
               g_tr_kin_time_save ishift nmix timest == timest / (1 + inject_Z nmix) /\ g_tr_adv_guard ishift = true).
  { unfold g_tr_kin_time, g_tr_kin_time_save, g_tr_adv_guard.
    destruct (Z.eqb ishift 0) eqn:E; [apply Z.eqb_eq in E; contradiction|]. cbn [negb]. repeat split; reflexivity. }
  destruct Ek as (K1 & K2 & K3). rewrite K3.
  set (kt := g_tr_kin_time ishift nmix timest) in *. set (save := g_tr_kin_time_save ishift nmix timest) in *.
  assert (Hks : kt == save) by (rewrite K1, K2; reflexivity).
  destruct (pre_shape cells kt save Hks) as (P1 & P2 & P3 & P4).
  rewrite P1, P2. rewrite (adv_time_spec _ cells _ save c P4 Hc).
  rewrite (Z.eqb_sym (g_tr_first_c ishift cells) c).
  pose proof (inject_nz nmix Hn) as NZ.
  destruct (Z.eqb c (g_tr_first_c ishift cells)), (Z.ltb 1 cells); cbn [andb]; try rewrite P3; rewrite K1, K2; field; exact NZ.
Qed.

(* diffusion only: nmix >= 1 mixing runs of timest/nmix (nmix = 1: one run of timest) *)
Theorem diffusive_step_integrates_timest : forall nmix cells bcf bcl has_kin timest c,
  (1 <= nmix)%Z ->
  exists t, cell_time 0 nmix cells bcf bcl has_kin timest c = Some t /\ t == timest.
Proof.
  intros nmix cells bcf bcl has_kin timest c Hn. unfold cell_time. rewrite mixruns_total by lia.
  eexists. split; [reflexivity|].
  unfold g_tr_adv_guard, g_tr_kin_time. cbn [Z.eqb negb].
  destruct (Z.ltb nmix 2) eqn:E.
  - apply Z.ltb_lt in E. assert (nmix = 1%Z) as -> by lia. cbn. ring.
  - apply Z.ltb_ge in E. field. intro H. unfold Qeq in H. simpl in H. lia.
Qed.

(* non-vacuity: 4 cells, backward flow, 3 mixing runs, 100 s: the inflow cell 4 gets 12.5 + 12.5 + 3*25 *)
Example cell_time_example :
  (exists t, cell_time (-1) 3 4 3 3 true 100 4 = Some t /\ t == 100) /\ g_tr_first_c (-1) 4 = 4%Z /\
  (exists t, cell_time 1 0 4 3 3 true 100 1 = Some t /\ t == 100).
Proof. split; [|split]; [eexists; split; [vm_compute; reflexivity|reflexivity]|reflexivity|eexists; split; [vm_compute; reflexivity|reflexivity]]. Qed.
