(* IPV.C12.MiniPrelude — the few library functions the "mini" translator output (Gen_C12_Step.v) refers to.
   std::vector<LDBLE> is a [list Q]; indices and counts are [Z]. *)
Require Import QArith ZArith List Lia.
Open Scope Q_scope.

(* v.size() *)
Definition sizeZ (l : list Q) : Z := Z.of_nat (length l).

(* v[i]; out of range (undefined behaviour in C++) is made visible as 0 and excluded by hypotheses *)
Definition nthQ (l : list Q) (i : Z) : Q :=
  if (i <? 0)%Z then 0 else nth (Z.to_nat i) l 0.

(* a < b on doubles *)
Definition Qltb (a b : Q) : bool := negb (Qle_bool b a).

Lemma Qltb_true : forall a b, Qltb a b = true <-> a < b.
Proof.
  intros a b. unfold Qltb. rewrite Bool.negb_true_iff.
  split; intro H.
  - apply Qnot_le_lt. intro L. apply Qle_bool_iff in L. congruence.
  - destruct (Qle_bool b a) eqn:E; [|reflexivity].
    apply Qle_bool_iff in E. exfalso. apply (Qlt_not_le _ _ H E).
Qed.

Lemma Qltb_false : forall a b, Qltb a b = false <-> b <= a.
Proof.
  intros a b. unfold Qltb. rewrite Bool.negb_false_iff. apply Qle_bool_iff.
Qed.

Lemma sizeZ_nonneg : forall l, (0 <= sizeZ l)%Z.
Proof. intros; unfold sizeZ; lia. Qed.

Lemma nthQ_nth : forall l (k : nat), nthQ l (Z.of_nat k) = nth k l 0.
Proof.
  intros l k. unfold nthQ.
  destruct (Z.of_nat k <? 0)%Z eqn:E; [apply Z.ltb_lt in E; lia|].
  now rewrite Nat2Z.id.
Qed.
