(* IPV.C12.RKProofs — facts about the scheme regenerated from Phreeqc::rk_kinetics (Gen_C12_Tableau.v).
   Every lemma here is re-checked against the regenerated file on every run: a changed coefficient,
   time offset or combination makes [field]/[vm_compute] fail. *)
Require Import QArith Qabs List Lia Lra Lqa Field Psatz.
Import ListNotations.
Require Import IPV.C12.RK IPV.Gen.Gen_C12_Tableau IPV.C12.Inst.
Open Scope Q_scope.

Ltac unfold_gen :=
  unfold g_stage2, g_stage2_restart, g_stage2_after_rk1, g_stage3, g_stage4, g_stage5, g_stage6,
         g_result, g_errest, g_exit1, g_exit2, g_exit3, g_time1, g_time2, g_time3, g_time4, g_time5, g_time6.

Ltac lin_tac := unfold comb_linear, lin, coefs, at6; cbn [nth]; unfold_gen; intros; field.

Lemma lin_s2 : comb_linear g_stage2.  Proof. lin_tac. Qed.
Lemma lin_s3 : comb_linear g_stage3.  Proof. lin_tac. Qed.
Lemma lin_s4 : comb_linear g_stage4.  Proof. lin_tac. Qed.
Lemma lin_s5 : comb_linear g_stage5.  Proof. lin_tac. Qed.
Lemma lin_s6 : comb_linear g_stage6.  Proof. lin_tac. Qed.
Lemma lin_res : comb_linear g_result. Proof. lin_tac. Qed.
Lemma lin_est : comb_linear g_errest. Proof. lin_tac. Qed.
Lemma lin_x1 : comb_linear g_exit1.   Proof. lin_tac. Qed.
Lemma lin_x2 : comb_linear g_exit2.   Proof. lin_tac. Qed.
Lemma lin_x3 : comb_linear g_exit3.   Proof. lin_tac. Qed.

Lemma all_linear :
  comb_linear (s2 CK) /\ comb_linear (s3 CK) /\ comb_linear (s4 CK) /\ comb_linear (s5 CK) /\ comb_linear (s6 CK) /\
  comb_linear (res CK) /\ comb_linear (est CK) /\ comb_linear (x1 CK) /\ comb_linear (x2 CK) /\ comb_linear (x3 CK).
Proof.
  cbn [CK s2 s3 s4 s5 s6 res est x1 x2 x3].
  repeat split; [apply lin_s2|apply lin_s3|apply lin_s4|apply lin_s5|apply lin_s6|apply lin_res|apply lin_est|apply lin_x1|apply lin_x2|apply lin_x3].
Qed.

Lemma lower_triangular : strictly_lower (tabA CK) = true.
Proof. vm_compute. reflexivity. Qed.

(* the retry path (k1 rescaled) and the path taken after a failed -runge_kutta 1 shortcut hand the same
   state to the second evaluation as the normal path *)
Lemma stage2_variants : forall k1 k2 k3 k4 k5 k6,
  g_stage2_restart k1 k2 k3 k4 k5 k6 == g_stage2 k1 k2 k3 k4 k5 k6 /\
  g_stage2_after_rk1 k1 k2 k3 k4 k5 k6 == g_stage2 k1 k2 k3 k4 k5 k6.
Proof. intros; unfold_gen; split; field. Qed.

Lemma rescale_is_ratio : forall h h_old, ~ h_old == 0 -> g_rescale h h_old * h_old == h.
Proof. intros; unfold g_rescale; field; assumption. Qed.

(* time handed to evaluation i is t0 + h_sum + c_i h with c_i = sum_j a_ij *)
Lemma time_affine : forall t0 hs h,
  g_time1 t0 hs h == t0 + hs + at6 (tabC CK) 0 * h /\
  g_time2 t0 hs h == t0 + hs + at6 (tabC CK) 1 * h /\
  g_time3 t0 hs h == t0 + hs + at6 (tabC CK) 2 * h /\
  g_time4 t0 hs h == t0 + hs + at6 (tabC CK) 3 * h /\
  g_time5 t0 hs h == t0 + hs + at6 (tabC CK) 4 * h /\
  g_time6 t0 hs h == t0 + hs + at6 (tabC CK) 5 * h.
Proof.
  intros. unfold tabC, at6; cbn [nth CK t1 t2 t3 t4 t5 t6]. unfold_gen. repeat split; field.
Qed.

Lemma row_sums : veqb (tabC CK) (map qsum (tabA CK)) = true.
Proof. vm_compute. reflexivity. Qed.

Lemma order5 : order_ok (tabA CK) (tabB CK) trees_upto5 = true.
Proof. vm_compute. reflexivity. Qed.

Lemma embedded_order4 : order_ok (tabA CK) (tabBstar CK) trees_upto4 = true.
Proof. vm_compute. reflexivity. Qed.

(* the two weight vectors really differ at order 5: the estimate is not identically zero *)
Lemma embedded_not_order5 : existsb (fun t => negb (cond_holds (tabA CK) (tabBstar CK) t)) T5 = true.
Proof. vm_compute. reflexivity. Qed.

Lemma tree_counts : map (@length tree) [T1;T2;T3;T4;T5] = [1;1;2;4;9]%nat /\
  forallb (fun p => Nat.eqb (order (fst p)) (snd p))
          (combine trees_upto5 [1;2;3;3;4;4;4;4;5;5;5;5;5;5;5;5;5]%nat) = true.
Proof. split; vm_compute; reflexivity. Qed.

Lemma err_scaled_by_tol : g_err_divided_by_tol = true /\ g_err_limit == 1.
Proof. split; vm_compute; reflexivity. Qed.
Ltac unfold_step :=
  unfold step_m, step_moles, step_est, exit1_moles, exit2_moles, exit3_moles, k6, k5, k4, k3, k2, k1, kappa6, taylor5, tabB, coefs, at6;
  cbn [nth CK s2 s3 s4 s5 s6 res est x1 x2 x3 t1 t2 t3 t4 t5 t6]; unfold_gen.

Theorem linear_est : forall lam t0 hs h m0,
  let z := lam * h in
  step_est CK (fun _ m => lam * m) t0 hs h m0 == - m0 * (z*z*z*z*z) * ((277 # 1228800) + (277 # 1638400) * z).
Proof. intros. subst z. unfold_step. field. Qed.

Theorem zero_order_exact : forall r t0 hs h m0,
  step_moles CK (fun _ _ => r) t0 hs h m0 == r * h /\ step_est CK (fun _ _ => r) t0 hs h m0 == 0.
Proof. intros. unfold_step. split; field. Qed.

(* rate depending on time only, polynomial of degree <= 4 *)
Definition poly4 (a0 a1 a2 a3 a4 t : Q) : Q := a0 + a1*t + a2*t*t + a3*t*t*t + a4*t*t*t*t.
Definition prim4 (a0 a1 a2 a3 a4 t : Q) : Q := a0*t + a1*t*t*(1#2) + a2*t*t*t*(1#3) + a3*t*t*t*t*(1#4) + a4*t*t*t*t*t*(1#5).

Theorem quadrature_exact : forall a0 a1 a2 a3 a4 t0 hs h m0,
  step_moles CK (fun t _ => poly4 a0 a1 a2 a3 a4 t) t0 hs h m0 ==
  prim4 a0 a1 a2 a3 a4 (t0 + hs + h) - prim4 a0 a1 a2 a3 a4 (t0 + hs).
Proof. intros. unfold_step. unfold poly4, prim4. field. Qed.

Ltac unfold_pair :=
  unfold pair_m, p6, p5, p4, p3, p2, p1; cbn [fst snd];
  cbn [nth CK s2 s3 s4 s5 s6 res est x1 x2 x3 t1 t2 t3 t4 t5 t6]; unfold_gen.

(* y' = -M y, M = [[a b][c d]]: one step = (I - hM + (hM)^2/2 - ... - (hM)^5/120 + (hM)^6/800) y *)
Definition mat2 := (Q * Q * Q * Q)%type.
Definition mmul (X Y : mat2) : mat2 :=
  let '(a,b,c,d) := X in let '(e,f,g,i) := Y in (a*e+b*g, a*f+b*i, c*e+d*g, c*f+d*i).
Definition madd (X Y : mat2) : mat2 :=
  let '(a,b,c,d) := X in let '(e,f,g,i) := Y in (a+e, b+f, c+g, d+i).
Definition mscale (s : Q) (X : mat2) : mat2 := let '(a,b,c,d) := X in (s*a, s*b, s*c, s*d).
Definition mapply (X : mat2) (v : Q * Q) : Q * Q := let '(a,b,c,d) := X in (a * fst v + b * snd v, c * fst v + d * snd v).
Definition mI : mat2 := (1,0,0,1).
Definition stab_poly (S : scheme) (Z : mat2) : mat2 :=
  let Z2 := mmul Z Z in let Z3 := mmul Z2 Z in let Z4 := mmul Z3 Z in let Z5 := mmul Z4 Z in let Z6 := mmul Z5 Z in
  madd mI (madd (mscale (-(1)) Z) (madd (mscale (1#2) Z2) (madd (mscale (-(1#6)) Z3) (madd (mscale (1#24) Z4)
       (madd (mscale (-(1#120)) Z5) (mscale (kappa6 S) Z6)))))).

Theorem coupled_linear_exact : forall a b c d t0 hs h y1 y2,
  let r := pair_m CK (fun _ u v => a*u + b*v) (fun _ u v => c*u + d*v) t0 hs h y1 y2 in
  let e := mapply (stab_poly CK (mscale h (a,b,c,d))) (y1, y2) in
  fst r == fst e /\ snd r == snd e.
Proof.
  intros. subst r e. unfold stab_poly, mapply, madd, mscale, mmul, mI, kappa6, tabB, coefs, at6. cbn [fst snd].
  unfold_pair. split; field. Qed.

Theorem linear_exact : forall lam t0 hs h m0,
  let z := lam * h in
  step_m CK (fun _ m => lam * m) t0 hs h m0 == m0 * (taylor5 z + kappa6 CK * (z*z*z*z*z*z)).
Proof. intros. subst z. unfold_step. field. Qed.

Lemma kappa6_value : kappa6 CK == 1 # 800.
Proof. vm_compute. reflexivity. Qed.

(* early exits (-runge_kutta 1/2/3 with "equal rates"): the weights sum to one, so when the rate
   evaluations agree within tol the result is within a fixed multiple of tol of the Euler step k1 *)
Theorem early_exit_consistent : forall k1 k2 k3 tol,
  Qabs (k2 - k1) <= tol -> Qabs (k3 - k1) <= tol ->
  g_exit1 k1 0 0 0 0 0 == k1 /\
  Qabs (g_exit2 k1 k2 0 0 0 0 - k1) <= (7#10) * tol /\
  Qabs (g_exit3 k1 k2 k3 0 0 0 - k1) <= (7#2) * tol.
Proof.
  intros k1 k2 k3 tol H2 H3.
  apply Qabs_Qle_condition in H2. apply Qabs_Qle_condition in H3.
  unfold_gen. split; [ring|]. split; apply Qabs_Qle_condition; split; lra.
Qed.

Lemma exit_weights_sum_to_one :
  qsum (coefs g_exit1) == 1 /\ qsum (coefs g_exit2) == 1 /\ qsum (coefs g_exit3) == 1.
Proof. repeat split; vm_compute; reflexivity. Qed.
(* for first-order decay with 0 <= lam h <= 1 no stage state is negative: the clamp of
   calc_final_kinetic_reaction is inactive and the unclamped model is the code *)
Theorem linear_states_nonneg : forall lam t0 hs h m0, 0 <= m0 -> 0 <= lam * h -> lam * h <= 1 ->
  let f := fun (_ : Q) m => lam * m in
  let a1 := k1 CK f t0 hs h m0 in let a2 := k2 CK f t0 hs h m0 in let a3 := k3 CK f t0 hs h m0 in
  let a4 := k4 CK f t0 hs h m0 in let a5 := k5 CK f t0 hs h m0 in let a6 := k6 CK f t0 hs h m0 in
  0 <= m0 - s2 CK a1 0 0 0 0 0 /\ 0 <= m0 - s3 CK a1 a2 0 0 0 0 /\ 0 <= m0 - s4 CK a1 a2 a3 0 0 0 /\
  0 <= m0 - s5 CK a1 a2 a3 a4 0 0 /\ 0 <= m0 - s6 CK a1 a2 a3 a4 a5 0 /\ 0 <= m0 - res CK a1 a2 a3 a4 a5 a6.
Proof.
  intros lam t0 hs h m0 Hm H0 H1. cbv zeta.
  set (z := lam * h) in *.
  assert (E2 : m0 - s2 CK (k1 CK (fun _ m => lam * m) t0 hs h m0) 0 0 0 0 0 == m0 * (1 - z * (1#5))).
  { subst z. unfold_step. field. }
  assert (E3 : m0 - s3 CK (k1 CK (fun _ m => lam * m) t0 hs h m0) (k2 CK (fun _ m => lam * m) t0 hs h m0) 0 0 0 0 == m0 * (1 - z*(3#10) + z*z*(9#200))).
  { subst z. unfold_step. field. }
  assert (E4 : m0 - s4 CK (k1 CK (fun _ m => lam * m) t0 hs h m0) (k2 CK (fun _ m => lam * m) t0 hs h m0) (k3 CK (fun _ m => lam * m) t0 hs h m0) 0 0 0 == m0 * (1 - z*(3#5) + z*z*(9#50) - z*z*z*(27#500))).
  { subst z. unfold_step. field. }
  assert (E5 : m0 - s5 CK (k1 CK (fun _ m => lam * m) t0 hs h m0) (k2 CK (fun _ m => lam * m) t0 hs h m0) (k3 CK (fun _ m => lam * m) t0 hs h m0) (k4 CK (fun _ m => lam * m) t0 hs h m0) 0 0 == m0 * (1 - z + z*z*(1#2) - z*z*z*(7#60) + z*z*z*z*(7#100))).
  { subst z. unfold_step. field. }
  assert (E6 : m0 - s6 CK (k1 CK (fun _ m => lam * m) t0 hs h m0) (k2 CK (fun _ m => lam * m) t0 hs h m0) (k3 CK (fun _ m => lam * m) t0 hs h m0) (k4 CK (fun _ m => lam * m) t0 hs h m0) (k5 CK (fun _ m => lam * m) t0 hs h m0) 0 == m0 * (1 - z*(7#8) + z*z*(49#128) - z*z*z*(161#1536) + z*z*z*z*(1771#61440) - z*z*z*z*z*(1771#409600))).
  { subst z. unfold_step. field. }
  pose proof (linear_exact lam t0 hs h m0) as E7. cbv zeta in E7. fold z in E7. unfold step_m, step_moles in E7.
  rewrite E2, E3, E4, E5, E6, E7. unfold taylor5. rewrite kappa6_value.
  assert (Z2 : 0 <= z * z) by nra.
  assert (Z1 : z * z <= z) by nra.
  repeat split; apply Qmult_le_0_compat; try assumption; nra.
Qed.

(* first-order decay, one step: the distance of the result from m0 * (degree-6 Taylor polynomial of exp(-z)) is at most
   (2/3) z times the error estimate the controller tests; so an accepted step (|estimate| <= tol) with z = lam h <= 1
   is within (2/3) tol of m0*T6(z), and |exp(-z) - T6(z)| <= z^7/5040 is the classical alternating-series remainder *)
Theorem linear_local_error_bounded_by_estimate : forall lam t0 hs h m0, 0 <= m0 -> 0 <= lam * h ->
  let z := lam * h in
  Qabs (step_m CK (fun _ m => lam * m) t0 hs h m0 - m0 * taylor6 z) <= (2#3) * z * Qabs (step_est CK (fun _ m => lam * m) t0 hs h m0).
Proof.
  intros lam t0 hs h m0 Hm Hz z.
  assert (Hz' : 0 <= z) by exact Hz.
  pose proof (linear_exact lam t0 hs h m0) as E. cbv zeta in E. fold z in E.
  pose proof (linear_est lam t0 hs h m0) as F. cbv zeta in F. fold z in F.
  rewrite E, F, kappa6_value. unfold taylor6. clear E F Hz. clearbody z.
  set (P := m0 * (z*z*z*z*z)).
  assert (HP : 0 <= P).
  { unfold P. repeat apply Qmult_le_0_compat; try exact Hm; exact Hz'. }
  assert (E1 : m0 * (taylor5 z + (1 # 800) * (z*z*z*z*z*z)) - m0 * (taylor5 z + z*z*z*z*z*z*(1#720)) == - (P * z * (1#7200))).
  { unfold P. ring. }
  assert (E2 : - m0 * (z*z*z*z*z) * ((277 # 1228800) + (277 # 1638400) * z) == - (P * ((277 # 1228800) + (277 # 1638400) * z))).
  { unfold P. ring. }
  rewrite E1, E2, !Qabs_opp.
  assert (HPz : 0 <= P * z) by (apply Qmult_le_0_compat; [exact HP|exact Hz']).
  rewrite (Qabs_pos (P * z * (1#7200))) by nra.
  rewrite (Qabs_pos (P * ((277 # 1228800) + (277 # 1638400) * z))) by nra.
  nra.
Qed.
