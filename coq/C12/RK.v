(* IPV.C12.RK — executable model of one pass through the body of the while loop of
   Phreeqc::rk_kinetics (src/phreeqcpp/kinetics.cpp): the six rate evaluations, the embedded
   result/error combinations and the early exits, parametrised by a [scheme] whose components are
   exactly what translator/c12_gen.py regenerates from the source (Gen_C12_Tableau.v).

   Conventions of the code that the model keeps:
     - a rate evaluation returns *moles of reaction over the whole step h* (rate programs end in
       SAVE rate * TIME), stored in rk_moles[i*n + j]                 -> k_i = h * f (t_i) (m_i)
     - the state handed to evaluation i is m_temp[j] - Set_moles-argument -> m_i = m0 - s_i k_1..k_{i-1}
     - positive moles = the reactant is consumed                        -> m_new = m0 - result
   Rounding is not modelled: everything is in Q. *)
Require Import QArith List Lia.
Import ListNotations.
Open Scope Q_scope.

Definition comb := Q -> Q -> Q -> Q -> Q -> Q -> Q.
Definition toff := Q -> Q -> Q -> Q.       (* rate_sim_time_start -> h_sum -> h -> time *)

Record scheme := {
  s2 : comb; s3 : comb; s4 : comb; s5 : comb; s6 : comb;
  res : comb;       (* accepted-step result (5th-order weights) *)
  est : comb;       (* error estimate (difference with the embedded 4th-order weights), before fabs and /tol *)
  x1 : comb; x2 : comb; x3 : comb;   (* results used by the -runge_kutta 1/2/3 early exits *)
  t1 : toff; t2 : toff; t3 : toff; t4 : toff; t5 : toff; t6 : toff
}.

(* coefficients of a combination = its values on the unit vectors *)
Definition coefs (f : comb) : list Q :=
  [f 1 0 0 0 0 0; f 0 1 0 0 0 0; f 0 0 1 0 0 0; f 0 0 0 1 0 0; f 0 0 0 0 1 0; f 0 0 0 0 0 1].

Definition at6 (a : list Q) (i : nat) : Q := nth i a 0.
Definition lin (a : list Q) : comb := fun k1 k2 k3 k4 k5 k6 =>
  at6 a 0 * k1 + at6 a 1 * k2 + at6 a 2 * k3 + at6 a 3 * k4 + at6 a 4 * k5 + at6 a 5 * k6.

Definition comb_linear (f : comb) : Prop :=
  forall k1 k2 k3 k4 k5 k6, f k1 k2 k3 k4 k5 k6 == lin (coefs f) k1 k2 k3 k4 k5 k6.

(* ------------------------------------------------------------------ Butcher tableau of a scheme *)
Definition zeros6 : list Q := [0;0;0;0;0;0].
Definition ones6 : list Q := [1;1;1;1;1;1].
Definition tabA (S : scheme) : list (list Q) :=
  [zeros6; coefs (s2 S); coefs (s3 S); coefs (s4 S); coefs (s5 S); coefs (s6 S)].
Definition tabB (S : scheme) : list Q := coefs (res S).
Definition tabD (S : scheme) : list Q := coefs (est S).           (* b - b* *)
Definition vsub (u v : list Q) : list Q := map (fun p => Qred (fst p - snd p)) (combine u v).
(* Qred keeps numerators/denominators small when these are evaluated by vm_compute; Qred q == q *)
Definition vmul (u v : list Q) : list Q := map (fun p => Qred (fst p * snd p)) (combine u v).
Definition tabBstar (S : scheme) : list Q := vsub (tabB S) (tabD S).
Definition tabC (S : scheme) : list Q :=      (* coefficient of h in the time handed to evaluation i *)
  [t1 S 0 0 1; t2 S 0 0 1; t3 S 0 0 1; t4 S 0 0 1; t5 S 0 0 1; t6 S 0 0 1].

Definition qsum (u : list Q) : Q := fold_right (fun x acc => Qred (x + acc)) 0 u.
Definition dot (u v : list Q) : Q := qsum (vmul u v).
Definition mv (A : list (list Q)) (v : list Q) : list Q := map (fun row => dot row v) A.
Definition veqb (u v : list Q) : bool :=
  Nat.eqb (length u) (length v) && forallb (fun p => Qeq_bool (fst p) (snd p)) (combine u v).

(* stage i may only use k_1 .. k_{i-1}: the tableau is strictly lower triangular *)
Fixpoint tail_zero (n : nat) (row : list Q) : bool :=
  match n, row with
  | O, _ => forallb (fun q => Qeq_bool q 0) row
  | S n', _ :: r => tail_zero n' r
  | S _, [] => true
  end.
Definition strictly_lower (A : list (list Q)) : bool :=
  (fix go (i : nat) (rows : list (list Q)) : bool :=
     match rows with [] => true | r :: rs => tail_zero i r && go (S i) rs end) O A.

(* ------------------------------------------------------------------ order conditions (rooted trees) *)
Inductive tree := Node : list tree -> tree.
Definition leaf := Node [].

Fixpoint order (t : tree) : nat :=
  match t with Node ts =>
    S ((fix go (l : list tree) : nat := match l with [] => O | x :: r => (order x + go r)%nat end) ts) end.

Fixpoint gamma (t : tree) : nat :=
  match t with Node ts =>
    (order t * (fix go (l : list tree) : nat := match l with [] => 1%nat | x :: r => (gamma x * go r)%nat end) ts)%nat end.

(* elementary weight vector: Phi_i (Node ts) = prod_{t in ts} (A Phi(t))_i *)
Fixpoint phi (A : list (list Q)) (t : tree) : list Q :=
  match t with Node ts =>
    (fix go (l : list tree) : list Q := match l with [] => ones6 | x :: r => vmul (mv A (phi A x)) (go r) end) ts end.

Definition cond_holds (A : list (list Q)) (b : list Q) (t : tree) : bool :=
  Qeq_bool (dot b (phi A t) * inject_Z (Z.of_nat (gamma t))) 1.

Definition T1 := [leaf].
Definition T2 := [Node [leaf]].
Definition T3 := [Node [leaf; leaf]; Node [Node [leaf]]].
Definition T4 := [Node [leaf; leaf; leaf]; Node [leaf; Node [leaf]]; Node [Node [leaf; leaf]]; Node [Node [Node [leaf]]]].
Definition T5 := [Node [leaf; leaf; leaf; leaf]; Node [leaf; leaf; Node [leaf]]; Node [leaf; Node [leaf; leaf]];
                  Node [leaf; Node [Node [leaf]]]; Node [Node [leaf]; Node [leaf]]; Node [Node [leaf; leaf; leaf]];
                  Node [Node [leaf; Node [leaf]]]; Node [Node [Node [leaf; leaf]]]; Node [Node [Node [Node [leaf]]]]].
Definition trees_upto4 := T1 ++ T2 ++ T3 ++ T4.
Definition trees_upto5 := trees_upto4 ++ T5.

Definition order_ok (A : list (list Q)) (b : list Q) (ts : list tree) : bool := forallb (cond_holds A b) ts.

(* a reactant cannot deliver more than it has (calc_final_kinetic_reaction) *)
Definition pos0 (x : Q) : Q := if Qle_bool 0 x then x else 0.

(* ------------------------------------------------------------------ the step, scalar reactant *)
Section Scalar.
  Variable S : scheme.
  Variable f : Q -> Q -> Q.        (* consumption rate (mol/s) at time t with m moles left *)
  Variables t0 hs h m0 : Q.

  Definition k1 := h * f (t1 S t0 hs h) m0.
  Definition k2 := h * f (t2 S t0 hs h) (m0 - s2 S k1 0 0 0 0 0).
  Definition k3 := h * f (t3 S t0 hs h) (m0 - s3 S k1 k2 0 0 0 0).
  Definition k4 := h * f (t4 S t0 hs h) (m0 - s4 S k1 k2 k3 0 0 0).
  Definition k5 := h * f (t5 S t0 hs h) (m0 - s5 S k1 k2 k3 k4 0 0).
  Definition k6 := h * f (t6 S t0 hs h) (m0 - s6 S k1 k2 k3 k4 k5 0).

  Definition step_moles : Q := res S k1 k2 k3 k4 k5 k6.
  Definition step_est   : Q := est S k1 k2 k3 k4 k5 k6.     (* code: l_error = fabs(this) / tol *)
  Definition step_m     : Q := m0 - step_moles.
  (* early exits *)
  Definition exit1_moles : Q := x1 S k1 0 0 0 0 0.
  Definition exit2_moles : Q := x2 S k1 k2 0 0 0 0.
  Definition exit3_moles : Q := x3 S k1 k2 k3 0 0 0.
End Scalar.

(* ------------------------------------------------------------------ the step, two coupled reactants *)
Section Pair.
  Variable S : scheme.
  Variable f g : Q -> Q -> Q -> Q.    (* consumption rates of reactants 1 and 2 at (t, m1, m2) *)
  Variables t0 hs h a0 b0 : Q.

  Definition p1 := (h * f (t1 S t0 hs h) a0 b0, h * g (t1 S t0 hs h) a0 b0).
  Definition p2 := let a := a0 - s2 S (fst p1) 0 0 0 0 0 in let b := b0 - s2 S (snd p1) 0 0 0 0 0 in
                   (h * f (t2 S t0 hs h) a b, h * g (t2 S t0 hs h) a b).
  Definition p3 := let a := a0 - s3 S (fst p1) (fst p2) 0 0 0 0 in let b := b0 - s3 S (snd p1) (snd p2) 0 0 0 0 in
                   (h * f (t3 S t0 hs h) a b, h * g (t3 S t0 hs h) a b).
  Definition p4 := let a := a0 - s4 S (fst p1) (fst p2) (fst p3) 0 0 0 in let b := b0 - s4 S (snd p1) (snd p2) (snd p3) 0 0 0 in
                   (h * f (t4 S t0 hs h) a b, h * g (t4 S t0 hs h) a b).
  Definition p5 := let a := a0 - s5 S (fst p1) (fst p2) (fst p3) (fst p4) 0 0 in
                   let b := b0 - s5 S (snd p1) (snd p2) (snd p3) (snd p4) 0 0 in
                   (h * f (t5 S t0 hs h) a b, h * g (t5 S t0 hs h) a b).
  Definition p6 := let a := a0 - s6 S (fst p1) (fst p2) (fst p3) (fst p4) (fst p5) 0 in
                   let b := b0 - s6 S (snd p1) (snd p2) (snd p3) (snd p4) (snd p5) 0 in
                   (h * f (t6 S t0 hs h) a b, h * g (t6 S t0 hs h) a b).
  Definition pair_m : Q * Q :=
    (a0 - res S (fst p1) (fst p2) (fst p3) (fst p4) (fst p5) (fst p6),
     b0 - res S (snd p1) (snd p2) (snd p3) (snd p4) (snd p5) (snd p6)).
End Pair.

(* Taylor polynomial of exp(-z) of degree 5, and the coefficient of z^6 produced by a 6-stage scheme *)
Definition taylor5 (z : Q) : Q :=
  1 - z + z*z*(1#2) - z*z*z*(1#6) + z*z*z*z*(1#24) - z*z*z*z*z*(1#120).
Definition taylor6 (z : Q) : Q := taylor5 z + z*z*z*z*z*z*(1#720).
Definition kappa6 (S : scheme) : Q :=
  at6 (tabB S) 5 * at6 (coefs (s6 S)) 4 * at6 (coefs (s5 S)) 3 * at6 (coefs (s4 S)) 2 * at6 (coefs (s3 S)) 1 * at6 (coefs (s2 S)) 0.
