(* IPV.C12.StepProofs — the regenerated Current_step equals its specification, and incremental step
   times add up to the cumulative time for every step list and every equal-increment count. *)
Require Import QArith ZArith List Lia Bool Field.
Import ListNotations.
Require Import IPV.C12.MiniPrelude IPV.C12.Step IPV.Gen.Gen_C12_Step.
Open Scope Q_scope.

Lemma sizeZ_cons_eqb : forall x l, (sizeZ (x :: l) =? 0)%Z = false.
Proof. intros. apply Z.eqb_neq. unfold sizeZ. simpl length. lia. Qed.

Theorem gen_step_matches_spec : forall steps cnt eq inc n,
  g_current_step steps cnt eq inc n == current_step_spec steps cnt eq inc n.
Proof.
  intros steps cnt eq inc n. unfold g_current_step, current_step_spec.
  destruct steps as [|s0 r].
  - reflexivity.
  - rewrite sizeZ_cons_eqb.
    destruct inc, eq; cbn [negb];
    repeat match goal with |- context [if ?c then _ else _] => destruct c end;
    try reflexivity; unfold nthQ; simpl; try reflexivity; try (unfold Qdiv; ring); try field.
Qed.

Section EqualIncrements.
  Variables (s0 : Q) (rest : list Q) (cnt : Z).
  Hypothesis cnt_pos : (0 < cnt)%Z.
  Let inc_step := current_step_spec (s0 :: rest) cnt true true.
  Let cum_time := current_step_spec (s0 :: rest) cnt true false.

  Lemma cnt_nz : ~ inject_Z cnt == 0.
  Proof. intro H. unfold Qeq in H. simpl in H. lia. Qed.

  Theorem equal_increments_consistent : forall j : nat,
    elapsed_incremental inc_step j == cum_time (Z.of_nat j).
  Proof.
    unfold elapsed_incremental, inc_step, cum_time, current_step_spec.
    induction j as [|j IH].
    - simpl sumto. change (Z.of_nat 0) with 0%Z.
      destruct (cnt <? 0)%Z eqn:E; [apply Z.ltb_lt in E; lia|]. field. apply cnt_nz.
    - cbn [sumto]. rewrite IH. clear IH.
      destruct (cnt <? Z.of_nat (S j))%Z eqn:E1; destruct (cnt <? Z.of_nat j)%Z eqn:E2.
      + ring.
      + apply Z.ltb_lt in E1. apply Z.ltb_ge in E2.
        assert (Z.of_nat j = cnt) as -> by lia. field. apply cnt_nz.
      + apply Z.ltb_ge in E1. apply Z.ltb_lt in E2. lia.
      + rewrite Nat2Z.inj_succ. unfold Z.succ. rewrite inject_Z_plus. field. apply cnt_nz.
  Qed.

  (* in particular after the cnt-th step both have reached the total time *)
  Corollary equal_increments_total :
    elapsed_incremental inc_step (Z.to_nat cnt) == s0.
  Proof.
    rewrite equal_increments_consistent. rewrite Z2Nat.id by lia.
    unfold cum_time, current_step_spec. rewrite Z.ltb_irrefl. field. apply cnt_nz.
  Qed.
End EqualIncrements.

Lemma incremental_list_elapsed : forall (L : list Q) cnt (j : nat), (j <= length L)%nat ->
  elapsed_incremental (current_step_spec L cnt false true) j == sumfirst j L.
Proof.
  intros L cnt j. unfold elapsed_incremental. induction j as [|j IH]; intro H.
  - reflexivity.
  - cbn [sumto]. rewrite IH by lia. rewrite sumfirst_snoc by lia.
    apply Qplus_comp; [reflexivity|].
    unfold current_step_spec. destruct L as [|x r]; [simpl in H; lia|].
    destruct (sizeZ (x :: r) <? Z.of_nat (S j))%Z eqn:E.
    + apply Z.ltb_lt in E. unfold sizeZ in E. lia.
    + replace (Z.of_nat (S j) - 1)%Z with (Z.of_nat j) by lia. rewrite nthQ_nth. reflexivity.
Qed.

(* a list of increments run incrementally reaches, after each step, exactly the time that the list of
   running totals denotes in cumulative mode *)
Theorem step_list_consistent : forall (L : list Q) cnt cnt' (j : nat), (1 <= j <= length L)%nat ->
  elapsed_incremental (current_step_spec L cnt false true) j ==
  current_step_spec (psums L) cnt' false false (Z.of_nat j).
Proof.
  intros L cnt cnt' j [H1 H2]. rewrite incremental_list_elapsed by lia.
  unfold current_step_spec, psums.
  destruct (psums_from 0 L) as [|p ps] eqn:EP.
  - pose proof (psums_from_length L 0) as HL. rewrite EP in HL. simpl in HL. lia.
  - rewrite <- EP.
    destruct (sizeZ (psums_from 0 L) <? Z.of_nat j)%Z eqn:E.
    + apply Z.ltb_lt in E. unfold sizeZ in E. rewrite psums_from_length in E. lia.
    + destruct j as [|j]; [lia|].
      replace (Z.of_nat (S j) - 1)%Z with (Z.of_nat j) by lia. rewrite nthQ_nth.
      rewrite psums_from_nth by lia. ring.
Qed.

(* non-vacuity: -steps 100 100 200 incrementally = -steps 100 200 400 cumulatively; 400 in 4 steps *)
Example step_list_example :
  psums [100; 100; 200] = [0 + 100; 0 + 100 + 100; 0 + 100 + 100 + 200] /\
  elapsed_incremental (current_step_spec [100;100;200] 1 false true) 3 == 400 /\
  elapsed_incremental (current_step_spec [400] 4 true true) 4 == 400 /\
  current_step_spec [400] 4 true false 3 == 300.
Proof. repeat split; vm_compute; reflexivity. Qed.
