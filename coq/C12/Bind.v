(* IPV.C12.Bind — proofs about the regenerated binding tables. *)
Require Import String List QArith.
Import ListNotations.
Require Import IPV.C12.BindModel IPV.Gen.Gen_C12_Bind.
Open Scope string_scope.

Lemma m0_invariant : forall ops c, r_m0 (history c ops) = r_m0 c.
Proof.
  unfold history. induction ops as [|o ops IH]; intro c; cbn [fold_left]; [reflexivity|].
  rewrite IH. destruct o; reflexivity.
Qed.

(* whatever has happened to the reactant (any number of steps, shifts, re-uses), the rate program reads
   M0 = the user-defined -m0, M = the current amount, TIME = the time step handed to calc_kinetic_reaction *)
Theorem rate_program_sees : forall ops c ts,
  let now := history c ops in
  basic_value g_rate_bind g_basic_reads now ts "tokm0" = Some (r_m0 c) /\
  basic_value g_rate_bind g_basic_reads now ts "tokm" = Some (r_m now) /\
  basic_value g_rate_bind g_basic_reads now ts "toktime" = Some ts.
Proof.
  intros ops c ts now. rewrite <- (m0_invariant ops c). fold now.
  repeat split; vm_compute; reflexivity.
Qed.

(* PARM reads the parameter vector and its length of the same reactant *)
Theorem rate_program_parameters :
  lookup "tokparm" g_basic_reads = Some ["count_rate_p"; "rate_p"] /\
  lookup "rate_p" g_rate_bind = Some (FromComp "Get_d_params") /\
  lookup "count_rate_p" g_rate_bind = Some (SizeOf "Get_d_params").
Proof. repeat split; vm_compute; reflexivity. Qed.

(* non-vacuity: -m0 0.02, 0.016 left, after a shift that left 0.012: M0 is still 0.02 although initial_moles is 0.016 *)
Example sees_example :
  let c := {| r_m := 16#1000; r_m0 := 2#100; r_initial_moles := 0; r_moles := 0 |} in
  let now := history c [SetInitialMoles; Integrate (12#1000) (4#1000); SetInitialMoles] in
  r_initial_moles now = (12#1000)%Q /\ basic_value g_rate_bind g_basic_reads now 100 "tokm0" = Some (2#100)%Q.
Proof. split; vm_compute; reflexivity. Qed.
