(* IPV.C12.ClampTie — ties the hand-written model of Transfer.v to the source: in Transfer.v the exhaustion clamp compares the moles a
   reactant is asked for with the SAME amount [kc_m] the update then subtracts them from.  In the code these are arrays: the clamp of
   calc_final_kinetic_reaction compares with / clamps to g_clamp_cmp / g_clamp_set, rk_kinetics computes the new amount as
   <g_update_bases>[j] - moles, and refreshes <g_substep_snapshots>[j] = Get_m() at the start of every sub-step attempt. *)
Require Import String List QArith Bool.
Import ListNotations.
Require Import IPV.Gen.Gen_C12_Clamp.
Open Scope string_scope.

Lemma clamp_tie :
  forallb (String.eqb g_clamp_cmp) g_update_bases = true /\ g_update_bases <> [] /\ g_clamp_set = g_clamp_cmp /\
  g_substep_snapshots = [g_clamp_cmp] /\ (g_clamp_m == 0)%Q.
Proof. repeat split; try (vm_compute; reflexivity). discriminate. Qed.
