(* IPV.C12.Restart — time bookkeeping of the CVODE continuation loop of Phreeqc::run_reactions
   (kinetics.cpp, label RESTART: `while (flag != SUCCESS)`).

   A CVode call is asked to integrate from tstart to target on its own clock.  It either reaches the target, or stops
   early (step budget -cvode_steps exhausted, mass-balance failure) leaving cvode_last_good_time = g on its own clock
   and cvode_last_good_y.  CONTRACT of CVStep assumed here: cvode_last_good_y is the solution at cvode_last_good_time
   (the unrepaired CVStep breaks exactly this after a failed step attempt: finding C12 "restart state from failed attempt").
   The loop then adds g to sum_t, re-initialises CVODE from cvode_last_good_y and asks for tout - sum_t.
   [final_time] is the time, on the clock of the kinetic step, that has really been integrated when a call finally
   reaches its target, for an arbitrary list gs of early stops.  All g_cv_* are REGENERATED from the source. *)
Require Import QArith List Lia Lra Lqa.
Import ListNotations.
Require Import IPV.Gen.Gen_C12_Restart.
Open Scope Q_scope.

(* phys   : time of the state the stopped call had started from (clock of the kinetic step)
   ts     : tstart of the call that stopped;  last : its cvode_last_good_time;  gs : stops of the following calls *)
Fixpoint cont (tout phys sum_t ts last : Q) (gs : list Q) : Q :=
  let phys' := phys + (last - ts) in
  let target := g_cv_loop_target tout sum_t last in
  let ts' := g_cv_loop_tstart tout sum_t last in
  match gs with
  | [] => phys' + (target - ts')
  | g :: r => cont (g_cv_tout_next tout sum_t last) phys' (g_cv_sum_next sum_t last) ts' g r
  end.

Definition final_time (kin_time : Q) (gs : list Q) : Q :=
  match gs with
  | [] => g_cv_first_target kin_time - g_cv_first_tstart kin_time
  | g :: r => cont (g_cv_tout kin_time) 0 (g_cv_sum_init kin_time) (g_cv_first_tstart kin_time) g r
  end.

(* shape of the regenerated pieces (semantic: ring) *)
Lemma pass_shape : forall tout sum_t last,
  g_cv_sum_next sum_t last == sum_t + last /\
  g_cv_loop_target tout sum_t last - g_cv_loop_tstart tout sum_t last == tout - g_cv_sum_next sum_t last /\
  g_cv_loop_tstart tout sum_t last == 0 /\
  g_cv_tout_next tout sum_t last == tout.
Proof.
  intros. unfold g_cv_sum_next, g_cv_loop_target, g_cv_loop_tstart, g_cv_tout_next. repeat split; ring.
Qed.

Lemma init_shape : forall kin_time,
  g_cv_tout kin_time == kin_time /\ g_cv_sum_init kin_time == 0 /\
  g_cv_first_target kin_time - g_cv_first_tstart kin_time == kin_time /\ g_cv_first_tstart kin_time == 0.
Proof.
  intros. unfold g_cv_tout, g_cv_sum_init, g_cv_first_target, g_cv_first_tstart. repeat split; ring.
Qed.

Lemma restart_shape :
  g_cv_restart_from_last_good = true /\ g_cv_restart_factor == 1 /\
  (forall tout sum_t last, g_cv_last_good_reset tout sum_t last == 0) /\
  (forall k, g_cv_first_t0 k == g_cv_first_tstart k) /\ (forall a b c, g_cv_loop_t0 a b c == g_cv_loop_tstart a b c).
Proof.
  split; [reflexivity|]. split; [reflexivity|]. split; [|split]; intros;
  unfold g_cv_last_good_reset, g_cv_first_t0, g_cv_first_tstart, g_cv_loop_t0, g_cv_loop_tstart; ring.
Qed.

Lemma cont_reaches_tout : forall gs tout phys sum_t ts last,
  ts == 0 -> phys == sum_t -> cont tout phys sum_t ts last gs == tout.
Proof.
  induction gs as [|g r IH]; intros tout phys sum_t ts last Hts Hinv; cbn [cont];
  destruct (pass_shape tout sum_t last) as (S1 & S2 & S3 & S4).
  - rewrite S2, S1, Hts, Hinv. ring.
  - rewrite IH.
    + exact S4.
    + exact S3.
    + rewrite S1, Hts, Hinv. ring.
Qed.

(* however often and wherever the calls stop, the state finally handed back has been integrated over exactly kin_time *)
Theorem restart_integrates_kin_time : forall kin_time gs, final_time kin_time gs == kin_time.
Proof.
  intros kin_time gs. destruct (init_shape kin_time) as (I1 & I2 & I3 & I4).
  destruct gs as [|g r]; cbn [final_time].
  - exact I3.
  - rewrite cont_reaches_tout; [exact I1|exact I4|rewrite I2; reflexivity].
Qed.

(* non-vacuity: 3000 s, calls stop after 700, 450 and 0 s of their own clocks *)
Example restart_example : final_time 3000 [700; 450; 0] == 3000 /\
  g_cv_loop_target 3000 700 450 == 1850.
Proof. split; vm_compute; reflexivity. Qed.
