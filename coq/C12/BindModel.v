(* IPV.C12.BindModel — what the BASIC rate program of a kinetic reactant sees.
   Phreeqc::calc_kinetic_reaction copies fields of the reactant (cxxKineticsComp getters) and its time-step argument into
   members rate_* of Phreeqc; the BASIC functions M, M0, TIME, PARM(i) (PBasic::factor) read those members.  Both tables are
   REGENERATED (Gen_C12_Bind.v); this file interprets them over a reactant record and a history of operations. *)
Require Import String List QArith.
Import ListNotations.
Open Scope string_scope.

Inductive source := FromComp (getter : string) | FromArg (name : string) | SizeOf (getter : string) | NotANumber | OtherSource.

(* the fields of cxxKineticsComp that matter: m (current amount), m0 (user-defined -m0), initial_moles (bookkeeping copy of m made
   by set_initial_moles at the start of every reaction step / shift, used for reporting delta), moles (reaction of this step) *)
Record reactant := { r_m : Q; r_m0 : Q; r_initial_moles : Q; r_moles : Q }.

Definition getter_value (c : reactant) (g : string) : option Q :=
  if g =? "Get_m" then Some (r_m c)
  else if g =? "Get_m0" then Some (r_m0 c)
  else if g =? "Get_initial_moles" then Some (r_initial_moles c)
  else if g =? "Get_moles" then Some (r_moles c)
  else None.

Fixpoint lookup {A} (k : string) (l : list (string * A)) : option A :=
  match l with [] => None | (k', v) :: r => if k =? k' then Some v else lookup k r end.

(* value of a rate_* member after the copies, for reactant c and time step ts *)
Definition member_value (bind : list (string * source)) (c : reactant) (ts : Q) (member : string) : option Q :=
  match lookup member bind with
  | Some (FromComp g) => getter_value c g
  | Some (FromArg a) => if a =? "time_step" then Some ts else None
  | _ => None
  end.

(* value a scalar BASIC function returns: it must read exactly one member *)
Definition basic_value (bind : list (string * source)) (reads : list (string * list string)) (c : reactant) (ts : Q) (tok : string) : option Q :=
  match lookup tok reads with
  | Some [member] => member_value bind c ts member
  | _ => None
  end.

(* life of a reactant: set_initial_moles (mainsubs.cpp / transport.cpp: initial_moles := m) before every step / shift, and the
   integration that replaces m (Set_m) and moles (Set_moles); nothing in the engine assigns m0 after the input has been read *)
Inductive op := SetInitialMoles | Integrate (new_m moles : Q).
Definition apply_op (c : reactant) (o : op) : reactant :=
  match o with
  | SetInitialMoles => {| r_m := r_m c; r_m0 := r_m0 c; r_initial_moles := r_m c; r_moles := r_moles c |}
  | Integrate nm mo => {| r_m := nm; r_m0 := r_m0 c; r_initial_moles := r_initial_moles c; r_moles := mo |}
  end.
Definition history (c : reactant) (ops : list op) : reactant := fold_left apply_op ops c.
