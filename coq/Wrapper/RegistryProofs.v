(** Theorems about the registry / set-get store model (Registry.v).  (C13, C06) *)
From Coq Require Import List ZArith String Ascii Bool Lia Sorted.
From IPV.Wrapper Require Import Registry.
Import ListNotations.
Local Open Scope list_scope.
Local Open Scope Z_scope.

Definition keys {A} (m : list (Z * A)) : list Z := map fst m.

(* reachable-state invariant *)
Definition RInv (st : sys) : Prop :=
  0 <= next st /\ NoDup (keys (insts st)) /\ (forall k, In k (keys (insts st)) -> 0 <= k < next st) /\
  (forall k i, alookup k (insts st) = Some i -> i_id i = k /\ 0 <= i_cur i).

(** * association-list laws *)

Lemma alookup_aset_same : forall A n (v : A) m, alookup n (aset n v m) = Some v.
Proof.
  intros A n v m. induction m as [|[k w] t IH]; simpl.
  - rewrite Z.eqb_refl. reflexivity.
  - destruct (Z.eqb n k) eqn:E; simpl; rewrite E; [reflexivity | exact IH].
Qed.

Lemma alookup_aset_other : forall A k n (v : A) m, k <> n -> alookup k (aset n v m) = alookup k m.
Proof.
  intros A k n v m Hne. induction m as [|[k0 w] t IH]; simpl.
  - apply Z.eqb_neq in Hne. rewrite Hne. reflexivity.
  - destruct (Z.eqb n k0) eqn:E; simpl.
    + apply Z.eqb_eq in E. subst k0. apply Z.eqb_neq in Hne. rewrite Hne. reflexivity.
    + destruct (Z.eqb k k0); [reflexivity | exact IH].
Qed.

Lemma keys_aset_live : forall A n (v w : A) m, alookup n m = Some w -> keys (aset n v m) = keys m.
Proof.
  intros A n v w m. induction m as [|[k x] t IH]; simpl; intros H.
  - discriminate H.
  - destruct (Z.eqb n k) eqn:E; simpl.
    + reflexivity.
    + f_equal. apply IH. exact H.
Qed.

Lemma alookup_some_in : forall A n (v : A) m, alookup n m = Some v -> In n (keys m).
Proof.
  intros A n v m. induction m as [|[k x] t IH]; simpl; intros H.
  - discriminate H.
  - destruct (Z.eqb n k) eqn:E.
    + left. apply Z.eqb_eq in E. symmetry. exact E.
    + right. apply IH. exact H.
Qed.

Lemma alookup_notin_none : forall A n (m : list (Z * A)), ~ In n (keys m) -> alookup n m = None.
Proof.
  intros A n m Hn. destruct (alookup n m) as [v|] eqn:E; [|reflexivity].
  exfalso. apply Hn. eapply alookup_some_in. exact E.
Qed.

Lemma alookup_in_some : forall A n (m : list (Z * A)), In n (keys m) -> exists v, alookup n m = Some v.
Proof.
  intros A n m. induction m as [|[k x] t IH]; simpl; intros H.
  - contradiction.
  - destruct (Z.eqb n k) eqn:E.
    + exists x. reflexivity.
    + destruct H as [H|H].
      * apply Z.eqb_neq in E. exfalso. apply E. symmetry. exact H.
      * apply IH. exact H.
Qed.

(* alookup in terms of In for NoDup keys *)
Lemma alookup_in_nodup : forall A n (v : A) m, NoDup (keys m) -> (alookup n m = Some v <-> In (n, v) m).
Proof.
  intros A n v m. induction m as [|[k x] t IH]; simpl; intros Hnd.
  - split; [discriminate | contradiction].
  - inversion Hnd as [|a l Hnotin Hnd']. subst a l.
    destruct (Z.eqb n k) eqn:E.
    + apply Z.eqb_eq in E. subst k. split.
      * intros H. injection H as H. subst x. left. reflexivity.
      * intros [H|H].
        -- injection H as H. subst x. reflexivity.
        -- exfalso. apply Hnotin. change n with (fst (n, v)). apply in_map. exact H.
    + apply Z.eqb_neq in E. rewrite (IH Hnd'). split.
      * intros H. right. exact H.
      * intros [H|H]; [|exact H]. injection H as H1 H2. exfalso. apply E. symmetry. exact H1.
Qed.

Lemma alookup_aremove_other : forall A k n (m : list (Z * A)), k <> n -> alookup k (aremove n m) = alookup k m.
Proof.
  intros A k n m Hne. induction m as [|[k0 w] t IH]; simpl.
  - reflexivity.
  - destruct (Z.eqb n k0) eqn:E; simpl.
    + apply Z.eqb_eq in E. subst k0. apply Z.eqb_neq in Hne. rewrite Hne. reflexivity.
    + destruct (Z.eqb k k0); [reflexivity | exact IH].
Qed.

Lemma alookup_aremove_same : forall A n (m : list (Z * A)), NoDup (keys m) -> alookup n (aremove n m) = None.
Proof.
  intros A n m. induction m as [|[k w] t IH]; simpl; intros Hnd.
  - reflexivity.
  - inversion Hnd as [|a l Hnotin Hnd']. subst a l.
    destruct (Z.eqb n k) eqn:E; simpl.
    + apply Z.eqb_eq in E. subst k. apply alookup_notin_none. exact Hnotin.
    + rewrite E. apply IH. exact Hnd'.
Qed.

Lemma keys_aremove_incl : forall A k n (m : list (Z * A)), In k (keys (aremove n m)) -> In k (keys m).
Proof.
  intros A k n m. induction m as [|[k0 w] t IH]; simpl; intros H.
  - contradiction.
  - destruct (Z.eqb n k0); simpl in H.
    + right. exact H.
    + destruct H as [H|H]; [left; exact H | right; apply IH; exact H].
Qed.

Lemma nodup_aremove : forall A n (m : list (Z * A)), NoDup (keys m) -> NoDup (keys (aremove n m)).
Proof.
  intros A n m. induction m as [|[k w] t IH]; simpl; intros Hnd.
  - constructor.
  - inversion Hnd as [|a l Hnotin Hnd']. subst a l.
    destruct (Z.eqb n k); simpl.
    + exact Hnd'.
    + constructor.
      * intros Hin. apply Hnotin. eapply keys_aremove_incl. exact Hin.
      * apply IH. exact Hnd'.
Qed.

Lemma alookup_app1 : forall A k n (v : A) m,
  alookup k (m ++ [(n, v)]) =
  match alookup k m with Some x => Some x | None => if Z.eqb k n then Some v else None end.
Proof.
  intros A k n v m. induction m as [|[k0 w] t IH]; simpl.
  - reflexivity.
  - destruct (Z.eqb k k0); [reflexivity | exact IH].
Qed.

Lemma keys_app1 : forall A n (v : A) m, keys (m ++ [(n, v)]) = keys m ++ [n].
Proof. intros A n v m. unfold keys. rewrite map_app. reflexivity. Qed.

(** * one-instance step *)

Lemma istep_id : forall i c, i_id (fst (istep i c)) = i_id i.
Proof.
  intros i c. destruct c as [s b|s|n v|n|n| |b| |b| |v| | | |ns]; simpl; try reflexivity.
  - destruct (nonempty v); reflexivity.
  - destruct (0 <=? n); reflexivity.
  - destruct (nonempty v); reflexivity.
Qed.

Lemma istep_cur : forall i c, 0 <= i_cur i -> 0 <= i_cur (fst (istep i c)).
Proof.
  intros i c H. destruct c as [s b|s|n v|n|n| |b| |b| |v| | | |ns]; simpl; try exact H.
  - destruct (nonempty v); exact H.
  - destruct (0 <=? n) eqn:E; simpl; [apply Z.leb_le; exact E | exact H].
  - destruct (nonempty v); exact H.
  - (* Load: the current number becomes 1 *) lia.
Qed.

Definition live (st : sys) (id : Z) : option inst := if id <? 0 then None else alookup id (insts st).

Lemma live_some : forall st id i, live st id = Some i -> 0 <= id /\ alookup id (insts st) = Some i.
Proof.
  intros st id i. unfold live. destruct (id <? 0) eqn:E; intros H.
  - discriminate H.
  - apply Z.ltb_ge in E. split; assumption.
Qed.

Lemma live_of : forall st id, 0 <= id -> live st id = alookup id (insts st).
Proof.
  intros st id H. unfold live. apply Z.ltb_ge in H. rewrite H. reflexivity.
Qed.

Lemma live_dead : forall st id, (id < 0 \/ alookup id (insts st) = None) -> live st id = None.
Proof.
  intros st id [H|H]; unfold live.
  - apply Z.ltb_lt in H. rewrite H. reflexivity.
  - destruct (id <? 0); [reflexivity | exact H].
Qed.

(* the three instance-call branches of [api], in terms of [live] *)
Lemma api_CCall : forall st id ic, api st (CCall id ic) =
  match live st id with
  | Some i => (mkSys (next st) (aset id (fst (istep i ic)) (insts st)), out_of (conv_C ic (snd (istep i ic))))
  | None => (st, out_of (bad_result_C ic))
  end.
Proof.
  intros st id ic. unfold live. simpl.
  destruct (if id <? 0 then None else alookup id (insts st)) as [i|]; [|reflexivity].
  destruct (istep i ic) as [i' r]. reflexivity.
Qed.

Lemma api_MCall : forall st id ic, api st (MCall id ic) =
  match live st id with
  | Some i => (mkSys (next st) (aset id (fst (istep i ic)) (insts st)), out_of (snd (istep i ic)))
  | None => (st, ONotLive)
  end.
Proof.
  intros st id ic. unfold live. simpl.
  destruct (if id <? 0 then None else alookup id (insts st)) as [i|]; [|reflexivity].
  destruct (istep i ic) as [i' r]. reflexivity.
Qed.

Lemma api_FCall : forall st id ic cap, api st (FCall id ic cap) =
  match live st id with
  | Some i => (mkSys (next st) (aset id (fst (istep i ic)) (insts st)),
               match conv_C ic (snd (istep i ic)) with
               | RStr s => OPad (padf s cap) (Z.of_nat (String.length s)) | r' => out_of r' end)
  | None => (st, match bad_result_C ic with
                 | RStr s => OPad (padf s cap) (Z.of_nat (String.length s)) | r' => out_of r' end)
  end.
Proof.
  intros st id ic cap. unfold live. simpl.
  destruct (if id <? 0 then None else alookup id (insts st)) as [i|]; [|reflexivity].
  destruct (istep i ic) as [i' r]. reflexivity.
Qed.

Lemma rinv_aset : forall st id i ic, RInv st -> alookup id (insts st) = Some i ->
  RInv (mkSys (next st) (aset id (fst (istep i ic)) (insts st))).
Proof.
  intros st id i ic [H0 [Hnd [Hrange Hid]]] Hl. unfold RInv. simpl.
  rewrite (keys_aset_live _ id (fst (istep i ic)) i (insts st) Hl).
  split; [exact H0|]. split; [exact Hnd|]. split; [exact Hrange|].
  intros k j Hk. destruct (Z.eq_dec k id) as [e|ne].
  - subst k. rewrite alookup_aset_same in Hk. injection Hk as Hk. subst j.
    destruct (Hid id i Hl) as [Ha Hb]. split.
    + rewrite istep_id. exact Ha.
    + apply istep_cur. exact Hb.
  - rewrite alookup_aset_other in Hk by exact ne. apply Hid. exact Hk.
Qed.

(** * invariant *)

Lemma nodup_snoc : forall (l : list Z) a, NoDup l -> ~ In a l -> NoDup (l ++ [a]).
Proof.
  intros l a Hnd. induction Hnd as [|x l Hx Hnd IH]; intros Ha; simpl.
  - constructor; [intros [] | constructor].
  - constructor.
    + intros Hin. apply in_app_or in Hin. destruct Hin as [Hin|Hin].
      * apply Hx. exact Hin.
      * simpl in Hin. destruct Hin as [Hin|[]]. apply Ha. left. symmetry. exact Hin.
    + apply IH. intros Hin. apply Ha. right. exact Hin.
Qed.

Theorem rinv_init : RInv sys0.
Proof.
  unfold RInv, sys0. simpl. split; [lia|]. split; [constructor|]. split.
  - intros k [].
  - intros k i H. discriminate H.
Qed.

Lemma fresh_id_not_in : forall st, RInv st -> ~ In (next st) (keys (insts st)).
Proof.
  intros st [H0 [Hnd [Hrange Hid]]] Hin. apply Hrange in Hin. lia.
Qed.

Theorem rinv_step : forall st c, RInv st -> RInv (fst (api st c)).
Proof.
  intros st c HI. destruct c as [|id|id ic|id ic|id ic cap].
  - (* Create *)
    pose proof (fresh_id_not_in st HI) as Hfresh.
    destruct HI as [H0 [Hnd [Hrange Hid]]]. unfold RInv. simpl.
    rewrite keys_app1. split; [lia|]. split; [|split].
    + apply nodup_snoc; assumption.
    + intros k Hin. apply in_app_or in Hin. destruct Hin as [Hin|Hin].
      * apply Hrange in Hin. lia.
      * simpl in Hin. destruct Hin as [Hin|[]]. subst k. lia.
    + intros k i Hk. rewrite alookup_app1 in Hk.
      destruct (alookup k (insts st)) as [j|] eqn:E.
      * injection Hk as Hk. subst j. apply Hid. exact E.
      * destruct (Z.eqb k (next st)) eqn:E2; [|discriminate Hk].
        injection Hk as Hk. subst i. apply Z.eqb_eq in E2. subst k. simpl. split; [reflexivity | lia].
  - (* Destroy *)
    simpl. destruct (id <? 0); [exact HI|].
    destruct (alookup id (insts st)) as [i|] eqn:E; [|exact HI].
    destruct HI as [H0 [Hnd [Hrange Hid]]]. unfold RInv. simpl.
    split; [exact H0|]. split; [apply nodup_aremove; exact Hnd|]. split.
    + intros k Hin. apply Hrange. eapply keys_aremove_incl. exact Hin.
    + intros k j Hk. destruct (Z.eq_dec k id) as [e|ne].
      * subst k. rewrite alookup_aremove_same in Hk by exact Hnd. discriminate Hk.
      * rewrite alookup_aremove_other in Hk by exact ne. apply Hid. exact Hk.
  - rewrite api_CCall. destruct (live st id) as [i|] eqn:E; [|exact HI].
    apply live_some in E. destruct E as [_ E]. simpl. apply rinv_aset; assumption.
  - rewrite api_MCall. destruct (live st id) as [i|] eqn:E; [|exact HI].
    apply live_some in E. destruct E as [_ E]. simpl. apply rinv_aset; assumption.
  - rewrite api_FCall. destruct (live st id) as [i|] eqn:E; [|exact HI].
    apply live_some in E. destruct E as [_ E]. simpl. apply rinv_aset; assumption.
Qed.

Theorem rinv_run : forall cs st, RInv st -> RInv (fst (run_api st cs)).
Proof.
  intros cs. induction cs as [|c t IH]; intros st HI; simpl.
  - exact HI.
  - pose proof (rinv_step st c HI) as H1.
    destruct (api st c) as [st' o]. simpl in H1.
    pose proof (IH st' H1) as H2.
    destruct (run_api st' t) as [st'' os]. simpl in H2. simpl. exact H2.
Qed.

(* ids handed out by Create, in order *)
Fixpoint created (cs : list call) (os : list out) : list Z :=
  match cs, os with
  | Create :: cs', OInt z :: os' => z :: created cs' os'
  | _ :: cs', _ :: os' => created cs' os'
  | _, _ => []
  end.

Lemma api_next_mono : forall st c, next st <= next (fst (api st c)).
Proof.
  intros st c. destruct c as [|id|id ic|id ic|id ic cap].
  - simpl. lia.
  - simpl. destruct (id <? 0); [simpl; lia|].
    destruct (alookup id (insts st)); simpl; lia.
  - rewrite api_CCall. destruct (live st id); simpl; lia.
  - rewrite api_MCall. destruct (live st id); simpl; lia.
  - rewrite api_FCall. destruct (live st id); simpl; lia.
Qed.

Lemma run_next_mono : forall cs st, next st <= next (fst (run_api st cs)).
Proof.
  intros cs. induction cs as [|c t IH]; intros st; simpl.
  - lia.
  - pose proof (api_next_mono st c) as H1.
    destruct (api st c) as [st' o]. simpl in H1.
    pose proof (IH st') as H2.
    destruct (run_api st' t) as [st'' os]. simpl in H2. simpl. lia.
Qed.

(* ids are never reused while the process lives: strictly increasing, hence pairwise distinct *)
Theorem ids_strictly_increasing : forall cs st, RInv st ->
  StronglySorted Z.lt (created cs (snd (run_api st cs))) /\
  (forall z, In z (created cs (snd (run_api st cs))) -> next st <= z).
Proof.
  intros cs. induction cs as [|c t IH]; intros st HI.
  - simpl. split; [constructor | intros z []].
  - pose proof (rinv_step st c HI) as H1.
    pose proof (api_next_mono st c) as Hm.
    simpl. destruct (api st c) as [st' o] eqn:Ea. simpl in H1, Hm.
    pose proof (IH st' H1) as [Hs Hb].
    destruct (run_api st' t) as [st'' os] eqn:Er. simpl in Hs, Hb. simpl.
    assert (Hgen : StronglySorted Z.lt (created t os) /\ (forall z, In z (created t os) -> next st <= z)).
    { split; [exact Hs|]. intros z Hz. apply Hb in Hz. lia. }
    destruct c as [|id|id ic|id ic|id ic cap]; try exact Hgen.
    simpl in Ea. injection Ea as Ea1 Ea2. subst o. subst st'. simpl in Hb.
    split.
    + apply SSorted_cons; [exact Hs|]. apply Forall_forall. intros z Hz. apply Hb in Hz. lia.
    + intros z [Hz|Hz]; [subst z; lia|]. apply Hb in Hz. lia.
Qed.

Lemma ssorted_lt_nodup : forall l, StronglySorted Z.lt l -> NoDup l.
Proof.
  intros l H. induction H as [|a l Hs IH Hf].
  - constructor.
  - constructor; [|exact IH]. intros Hin.
    rewrite Forall_forall in Hf. apply Hf in Hin. lia.
Qed.

Theorem ids_never_reused : forall cs, NoDup (created cs (snd (run_api sys0 cs))).
Proof.
  intros cs. apply ssorted_lt_nodup. apply (ids_strictly_increasing cs sys0 rinv_init).
Qed.

(* an id handed out is different from every id that was ever live before *)
Theorem fresh_id_not_live : forall st, RInv st -> alookup (next st) (insts st) = None.
Proof.
  intros st HI. apply alookup_notin_none. apply fresh_id_not_in. exact HI.
Qed.

(* a call with an id that is not live changes no instance and returns the documented invalid-instance result *)
Theorem dead_id_noop_C : forall st id ic, (id < 0 \/ alookup id (insts st) = None) ->
  api st (CCall id ic) = (st, out_of (bad_result_C ic)).
Proof.
  intros st id ic H. rewrite api_CCall. rewrite (live_dead st id H). reflexivity.
Qed.

Theorem dead_id_noop_F : forall st id ic cap, (id < 0 \/ alookup id (insts st) = None) ->
  fst (api st (FCall id ic cap)) = st.
Proof.
  intros st id ic cap H. rewrite api_FCall. rewrite (live_dead st id H). reflexivity.
Qed.

Theorem destroy_dead : forall st id, (id < 0 \/ alookup id (insts st) = None) ->
  api st (Destroy id) = (st, OInt IPQ_BADINSTANCE).
Proof.
  intros st id H. simpl. destruct (id <? 0) eqn:E; [reflexivity|].
  destruct H as [H|H].
  - apply Z.ltb_ge in E. lia.
  - rewrite H. reflexivity.
Qed.

Theorem double_destroy : forall st id, RInv st -> 0 <= id -> alookup id (insts st) <> None ->
  let st1 := fst (api st (Destroy id)) in
  snd (api st (Destroy id)) = OInt IPQ_OK /\ api st1 (Destroy id) = (st1, OInt IPQ_BADINSTANCE).
Proof.
  intros st id HI Hid Hlive. cbv zeta.
  assert (Hd : api st (Destroy id) = (mkSys (next st) (aremove id (insts st)), OInt IPQ_OK)).
  { simpl. apply Z.ltb_ge in Hid. rewrite Hid.
    destruct (alookup id (insts st)) as [i|]; [reflexivity|]. exfalso. apply Hlive. reflexivity. }
  rewrite Hd. simpl fst. simpl snd. split; [reflexivity|].
  apply destroy_dead. right. simpl.
  apply alookup_aremove_same. destruct HI as [_ [Hnd _]]. exact Hnd.
Qed.

Theorem destroy_frame : forall st id k, RInv st -> k <> id ->
  alookup k (insts (fst (api st (Destroy id)))) = alookup k (insts st).
Proof.
  intros st id k _ Hne. simpl. destruct (id <? 0); [reflexivity|].
  destruct (alookup id (insts st)); simpl; [|reflexivity].
  apply alookup_aremove_other. exact Hne.
Qed.

(* calls on instance id leave every other instance unchanged *)
Theorem instance_frame : forall st id ic k, k <> id ->
  alookup k (insts (fst (api st (CCall id ic)))) = alookup k (insts st) /\
  alookup k (insts (fst (api st (MCall id ic)))) = alookup k (insts st) /\
  forall cap, alookup k (insts (fst (api st (FCall id ic cap)))) = alookup k (insts st).
Proof.
  intros st id ic k Hne. split; [|split; [|intros cap]].
  - rewrite api_CCall. destruct (live st id); simpl; [|reflexivity].
    apply alookup_aset_other. exact Hne.
  - rewrite api_MCall. destruct (live st id); simpl; [|reflexivity].
    apply alookup_aset_other. exact Hne.
  - rewrite api_FCall. destruct (live st id); simpl; [|reflexivity].
    apply alookup_aset_other. exact Hne.
Qed.

(* the three bindings act identically on the instance; results differ only by the documented conversions *)
Theorem bindings_same_state : forall st id ic cap, 0 <= id -> alookup id (insts st) <> None ->
  fst (api st (CCall id ic)) = fst (api st (MCall id ic)) /\ fst (api st (FCall id ic cap)) = fst (api st (MCall id ic)).
Proof.
  intros st id ic cap _ _. rewrite api_CCall, api_MCall, api_FCall.
  destruct (live st id); split; reflexivity.
Qed.

Theorem c_result_is_converted_method_result : forall st id ic i, 0 <= id -> alookup id (insts st) = Some i ->
  snd (api st (CCall id ic)) = out_of (conv_C ic (snd (istep i ic))) /\ snd (api st (MCall id ic)) = out_of (snd (istep i ic)).
Proof.
  intros st id ic i Hid Hl. rewrite api_CCall, api_MCall.
  rewrite (live_of st id Hid). rewrite Hl. split; reflexivity.
Qed.

Theorem f_result_is_padded_c_result : forall st id ic cap, 
  snd (api st (FCall id ic cap)) =
  match snd (api st (CCall id ic)) with OStr s => OPad (padf s cap) (Z.of_nat (String.length s)) | o => o end.
Proof.
  intros st id ic cap. rewrite api_CCall, api_FCall.
  destruct (live st id) as [i|]; simpl.
  - destruct (conv_C ic (snd (istep i ic))); reflexivity.
  - destruct (bad_result_C ic); reflexivity.
Qed.

Lemma slen_app : forall a b, String.length (a ++ b)%string = (String.length a + String.length b)%nat.
Proof.
  intros a b. induction a as [|c a IH]; simpl; [reflexivity | rewrite IH; reflexivity].
Qed.

Lemma slen_take : forall n s, String.length (take n s) = Nat.min n (String.length s).
Proof.
  intros n. induction n as [|n IH]; intros s; simpl.
  - reflexivity.
  - destruct s as [|c s]; simpl; [reflexivity | rewrite IH; reflexivity].
Qed.

Lemma slen_blanks : forall n, String.length (blanks n) = n.
Proof.
  intros n. induction n as [|n IH]; simpl; [reflexivity | rewrite IH; reflexivity].
Qed.

Lemma take_all : forall n s, (String.length s <= n)%nat -> take n s = s.
Proof.
  intros n. induction n as [|n IH]; intros s H.
  - destruct s as [|c s]; simpl in *; [reflexivity | lia].
  - destruct s as [|c s]; simpl in *; [reflexivity|]. rewrite IH by lia. reflexivity.
Qed.

Theorem padf_length : forall s cap, 0 <= cap -> String.length (padf s cap) = Z.to_nat cap.
Proof.
  intros s cap _. unfold padf. cbv zeta. rewrite slen_app, slen_take, slen_blanks. lia.
Qed.

Theorem padf_prefix : forall s cap, (Z.of_nat (String.length s) <= cap) -> exists b, padf s cap = (s ++ b)%string /\ b = blanks (Z.to_nat cap - String.length s).
Proof.
  intros s cap H. exists (blanks (Z.to_nat cap - String.length s)). split; [|reflexivity].
  unfold padf. cbv zeta. rewrite take_all by lia. reflexivity.
Qed.

(* setters and getters behave as a simple store *)
Lemma sw_eqb_refl : forall s, sw_eqb s s = true.
Proof. intros s. destruct s; reflexivity. Qed.

Lemma sw_eqb_neq : forall a b, a <> b -> sw_eqb a b = false.
Proof.
  intros a b H. destruct a; destruct b; try reflexivity; exfalso; apply H; reflexivity.
Qed.

Lemma nm_eqb_refl : forall n, nm_eqb n n = true.
Proof. intros n. destruct n; reflexivity. Qed.

Lemma nonempty_some : forall str, str <> EmptyString -> nonempty (Some str) = Some str.
Proof.
  intros str H. destruct str as [|c t]; [exfalso; apply H; reflexivity | reflexivity].
Qed.

Theorem set_get_switch : forall i s b, snd (istep (fst (istep i (SetSw s b))) (GetSw s)) = RInt (if b then 1 else 0).
Proof.
  intros i s b. simpl. rewrite sw_eqb_refl. reflexivity.
Qed.

Theorem set_switch_frame : forall i s b c, (forall b', c <> SetSw s b') -> c <> GetSw s ->
  snd (istep (fst (istep i (SetSw s b))) c) = snd (istep i c).
Proof.
  intros i s b c H1 H2. destruct c as [s0 b0|s0|n v|n|n| |b0| |b0| |v| | | |ns]; simpl; try reflexivity.
  - assert (Hne : s0 <> s). { intros e. subst s0. apply H2. reflexivity. }
    rewrite (sw_eqb_neq s0 s Hne). reflexivity.
  - destruct (nonempty v); reflexivity.
  - destruct (0 <=? n); reflexivity.
  - destruct (nonempty v); reflexivity.
Qed.

Theorem set_get_name : forall i n str, str <> EmptyString ->
  snd (istep (fst (istep i (SetName n (Some str)))) (GetName n)) = RStr str.
Proof.
  intros i n str H. cbn [istep]. rewrite (nonempty_some str H). simpl. rewrite nm_eqb_refl. reflexivity.
Qed.

Theorem set_name_rejects_null_and_empty : forall i n, fst (istep i (SetName n None)) = i /\ fst (istep i (SetName n (Some EmptyString))) = i /\
  fst (istep i (SetSelName None)) = i /\ fst (istep i (SetSelName (Some EmptyString))) = i.
Proof.
  intros i n. repeat split; reflexivity.
Qed.

Theorem set_cur_negative_rejected : forall i n, n < 0 -> istep i (SetCur n) = (i, RInt IPQ_INVALIDARG).
Proof.
  intros i n H. simpl. assert (E : (0 <=? n) = false) by (apply Z.leb_gt; exact H).
  rewrite E. reflexivity.
Qed.

Lemma set_cur_ok : forall i n, 0 <= n ->
  istep i (SetCur n) = (mkInst (i_id i) (i_sw i) (i_name i) n (i_self i) (i_sels i) (i_seln i), RInt 0).
Proof.
  intros i n H. simpl. apply Z.leb_le in H. rewrite H. reflexivity.
Qed.

Theorem set_get_cur : forall i n, 0 <= n -> snd (istep (fst (istep i (SetCur n))) GetCur) = RInt n.
Proof.
  intros i n H. rewrite (set_cur_ok i n H). reflexivity.
Qed.

Theorem set_get_sel_file : forall i b, snd (istep (fst (istep i (SetSelFile b))) GetSelFile) = RInt (if b then 1 else 0).
Proof.
  intros i b. simpl. rewrite alookup_aset_same. destruct b; reflexivity.
Qed.

Theorem set_get_sel_string : forall i b, snd (istep (fst (istep i (SetSelString b))) GetSelString) = RInt (if b then 1 else 0).
Proof.
  intros i b. simpl. rewrite alookup_aset_same. destruct b; reflexivity.
Qed.

Theorem set_get_sel_name : forall i str, str <> EmptyString -> snd (istep (fst (istep i (SetSelName (Some str)))) GetSelName) = RStr str.
Proof.
  intros i str H. cbn [istep]. rewrite (nonempty_some str H). simpl. rewrite alookup_aset_same. reflexivity.
Qed.

Theorem sel_switches_are_per_user_number : forall i b n m, 0 <= n -> 0 <= m -> n <> m ->
  (* setting the file switch while n is current does not change what is read while m is current *)
  snd (istep (fst (istep (fst (istep (fst (istep i (SetCur n))) (SetSelFile b))) (SetCur m))) GetSelFile) =
  snd (istep (fst (istep i (SetCur m))) GetSelFile).
Proof.
  intros i b n m Hn Hm Hne.
  assert (En : (0 <=? n) = true) by (apply Z.leb_le; exact Hn).
  assert (Em : (0 <=? m) = true) by (apply Z.leb_le; exact Hm).
  simpl. rewrite En. simpl. rewrite Em. simpl.
  rewrite alookup_aset_other; [reflexivity|]. intros e. apply Hne. symmetry. exact e.
Qed.

Theorem getters_do_not_change_state : forall i c,
  match c with GetSw _ | GetName _ | GetCur | GetSelFile | GetSelString | GetSelName | GetId => fst (istep i c) = i | _ => True end.
Proof.
  intros i c. destruct c; simpl; try reflexivity; exact I.
Qed.

(** * Load / RunDefines *)

(* one punch_open of a run: SELECTED_OUTPUT n gets its default file name unless a non-empty one is stored *)
Definition rd_step (id : Z) (m : list (Z * string)) (n : Z) : list (Z * string) :=
  match alookup n m with
  | Some EmptyString | None => aset n (sel_default_name id n) m
  | Some _ => m
  end.

Lemma istep_RunDefines : forall i ns, istep i (RunDefines ns) =
  (mkInst (i_id i) (i_sw i) (i_name i) (i_cur i) (i_self i) (i_sels i) (fold_left (rd_step (i_id i)) ns (i_seln i)), RInt 0).
Proof. intros i ns. reflexivity. Qed.

Lemma rd_step_other : forall id m a n, n <> a -> alookup n (rd_step id m a) = alookup n m.
Proof.
  intros id m a n Hne. unfold rd_step.
  destruct (alookup a m) as [[|ch t]|]; [|reflexivity|]; apply alookup_aset_other; exact Hne.
Qed.

Lemma rd_step_same : forall id m n, alookup n (rd_step id m n) =
  match alookup n m with Some EmptyString | None => Some (sel_default_name id n) | Some s => Some s end.
Proof.
  intros id m n. unfold rd_step.
  destruct (alookup n m) as [[|ch t]|] eqn:E; [|exact E|]; apply alookup_aset_same.
Qed.

Lemma rd_fold_frame : forall id n ns m, ~ In n ns -> alookup n (fold_left (rd_step id) ns m) = alookup n m.
Proof.
  intros id n ns. induction ns as [|a ns IH]; intros m Hnotin; simpl.
  - reflexivity.
  - rewrite IH.
    + apply rd_step_other. intros e. apply Hnotin. left. symmetry. exact e.
    + intros Hin. apply Hnotin. right. exact Hin.
Qed.

Lemma rd_fold_keeps_nonempty : forall id n str ns m, str <> EmptyString -> alookup n m = Some str ->
  alookup n (fold_left (rd_step id) ns m) = Some str.
Proof.
  intros id n str ns. induction ns as [|a ns IH]; intros m Hstr Hl; simpl.
  - exact Hl.
  - apply IH; [exact Hstr|]. destruct (Z.eq_dec n a) as [e|ne].
    + subst a. rewrite rd_step_same, Hl.
      destruct str as [|ch t]; [exfalso; apply Hstr; reflexivity | reflexivity].
    + rewrite rd_step_other by exact ne. exact Hl.
Qed.

Lemma rd_fold_keeps_default : forall id n ns m, alookup n m = Some (sel_default_name id n) ->
  alookup n (fold_left (rd_step id) ns m) = Some (sel_default_name id n).
Proof.
  intros id n ns. induction ns as [|a ns IH]; intros m Hl; simpl.
  - exact Hl.
  - apply IH. destruct (Z.eq_dec n a) as [e|ne].
    + subst a. rewrite rd_step_same, Hl.
      destruct (sel_default_name id n) as [|ch t]; reflexivity.
    + rewrite rd_step_other by exact ne. exact Hl.
Qed.

Lemma rd_fold_default : forall id n ns m, In n ns -> alookup n m = None ->
  alookup n (fold_left (rd_step id) ns m) = Some (sel_default_name id n).
Proof.
  intros id n ns. induction ns as [|a ns IH]; intros m Hin Hl; simpl.
  - contradiction.
  - destruct (Z.eq_dec n a) as [e|ne].
    + subst a. apply rd_fold_keeps_default. rewrite rd_step_same, Hl. reflexivity.
    + destruct Hin as [Hin|Hin]; [exfalso; apply ne; symmetry; exact Hin|].
      apply IH; [exact Hin|]. rewrite rd_step_other by exact ne. exact Hl.
Qed.

(* a run that defines SELECTED_OUTPUT n gives n its default file name (embedding n and the instance id)
   when no name is stored for n; no NoDup hypothesis on ns is needed *)
Theorem run_defines_default_name : forall i n ns, In n ns -> alookup n (i_seln i) = None ->
  exists s, alookup n (i_seln (fst (istep i (RunDefines ns)))) = Some s /\ s = sel_default_name (i_id i) n.
Proof.
  intros i n ns Hin Hl. exists (sel_default_name (i_id i) n). split; [|reflexivity].
  rewrite istep_RunDefines. simpl. apply rd_fold_default; assumption.
Qed.

(* ... and leaves a name set through SetSelectedOutputFileName (non-empty) alone *)
Theorem run_defines_keeps_set_name : forall i n ns str, str <> EmptyString -> alookup n (i_seln i) = Some str ->
  alookup n (i_seln (fst (istep i (RunDefines ns)))) = Some str.
Proof.
  intros i n ns str Hstr Hl. rewrite istep_RunDefines. simpl. apply rd_fold_keeps_nonempty; assumption.
Qed.

Theorem run_defines_frame : forall i n ns, ~ In n ns ->
  alookup n (i_seln (fst (istep i (RunDefines ns)))) = alookup n (i_seln i).
Proof.
  intros i n ns Hnotin. rewrite istep_RunDefines. simpl. apply rd_fold_frame. exact Hnotin.
Qed.

(* a successful database load resets the per-user-number switches and the current number, nothing else *)
Theorem load_resets_per_number_switches : forall i, let i' := fst (istep i Load) in
  i_cur i' = 1%Z /\ i_self i' = [(1%Z, false)] /\ i_sels i' = [(1%Z, false)] /\ i_id i' = i_id i /\
  i_seln i' = i_seln i /\ (forall s, i_sw i' s = i_sw i s) /\ (forall n, i_name i' n = i_name i n).
Proof.
  intros i. cbv zeta. simpl.
  split; [reflexivity|]. split; [reflexivity|]. split; [reflexivity|]. split; [reflexivity|].
  split; [reflexivity|]. split; [intros s; reflexivity | intros n; reflexivity].
Qed.

Theorem load_then_get_sel_switches : forall i,
  snd (istep (fst (istep i Load)) GetSelFile) = RInt 0 /\ snd (istep (fst (istep i Load)) GetSelString) = RInt 0 /\
  snd (istep (fst (istep i Load)) GetCur) = RInt 1.
Proof.
  intros i. simpl. split; [reflexivity|]. split; reflexivity.
Qed.

(* documented defaults of a fresh instance embed the id *)
Lemma fresh_call_result : forall st ic, RInv st ->
  snd (api (fst (api st Create)) (CCall (next st) ic)) =
  out_of (conv_C ic (snd (istep (new_inst (next st)) ic))).
Proof.
  intros st ic HI.
  assert (Hl : alookup (next st) (insts (fst (api st Create))) = Some (new_inst (next st))).
  { simpl. rewrite alookup_app1. rewrite (fresh_id_not_live st HI). rewrite Z.eqb_refl. reflexivity. }
  destruct HI as [H0 _].
  apply (c_result_is_converted_method_result (fst (api st Create)) (next st) ic (new_inst (next st)) H0 Hl).
Qed.

Theorem fresh_instance_defaults : forall st, RInv st ->
  let id := next st in let st1 := fst (api st Create) in
  snd (api st Create) = OInt id /\
  snd (api st1 (CCall id (GetName NOutput))) = OStr ("phreeqc." ++ dec id ++ ".out")%string /\
  snd (api st1 (CCall id (GetName NError))) = OStr ("phreeqc." ++ dec id ++ ".err")%string /\
  snd (api st1 (CCall id (GetName NLog))) = OStr ("phreeqc." ++ dec id ++ ".log")%string /\
  snd (api st1 (CCall id (GetName NDump))) = OStr ("dump." ++ dec id ++ ".out")%string /\
  snd (api st1 (CCall id GetSelName)) = OStr ("selected_1." ++ dec id ++ ".out")%string /\
  snd (api st1 (CCall id GetCur)) = OInt 1 /\
  snd (api st1 (CCall id (GetSw ErrorString))) = OInt 1 /\ snd (api st1 (CCall id (GetSw ErrorOn))) = OInt 1 /\
  snd (api st1 (CCall id (GetSw OutputFile))) = OInt 0 /\ snd (api st1 (CCall id (GetSw OutputString))) = OInt 0 /\
  snd (api st1 (CCall id (GetSw LogFile))) = OInt 0 /\ snd (api st1 (CCall id (GetSw LogString))) = OInt 0 /\
  snd (api st1 (CCall id (GetSw ErrorFile))) = OInt 0 /\ snd (api st1 (CCall id (GetSw DumpFile))) = OInt 0 /\
  snd (api st1 (CCall id (GetSw DumpString))) = OInt 0 /\ snd (api st1 (CCall id GetId)) = OInt id.
Proof.
  intros st HI. cbv zeta.
  split; [reflexivity|].
  repeat split; rewrite (fresh_call_result st _ HI); reflexivity.
Qed.

Example dec_examples : dec 0 = "0"%string /\ dec 7 = "7"%string /\ dec 10 = "10"%string /\ dec 1234567 = "1234567"%string.
Proof. vm_compute. repeat split; reflexivity. Qed.

Print Assumptions rinv_init.
Print Assumptions rinv_step.
Print Assumptions rinv_run.
Print Assumptions ids_strictly_increasing.
Print Assumptions ids_never_reused.
Print Assumptions fresh_id_not_live.
Print Assumptions dead_id_noop_C.
Print Assumptions dead_id_noop_F.
Print Assumptions destroy_dead.
Print Assumptions double_destroy.
Print Assumptions destroy_frame.
Print Assumptions instance_frame.
Print Assumptions bindings_same_state.
Print Assumptions c_result_is_converted_method_result.
Print Assumptions f_result_is_padded_c_result.
Print Assumptions padf_length.
Print Assumptions padf_prefix.
Print Assumptions set_get_switch.
Print Assumptions set_switch_frame.
Print Assumptions set_get_name.
Print Assumptions set_name_rejects_null_and_empty.
Print Assumptions set_cur_negative_rejected.
Print Assumptions set_get_cur.
Print Assumptions set_get_sel_file.
Print Assumptions set_get_sel_string.
Print Assumptions set_get_sel_name.
Print Assumptions sel_switches_are_per_user_number.
Print Assumptions getters_do_not_change_state.
Print Assumptions fresh_instance_defaults.
Print Assumptions dec_examples.
Print Assumptions run_defines_default_name.
Print Assumptions run_defines_keeps_set_name.
Print Assumptions run_defines_frame.
Print Assumptions load_resets_per_number_switches.
Print Assumptions load_then_get_sel_switches.
