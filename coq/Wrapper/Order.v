(** C05 — the heading line and the value rows name the same columns in the same order: the order of heading
    blocks emitted by tidy_punch equals the order of punch_* calls in punch_all, and the order of the identifier
    flags is the same in both (obligation over Gen/Gen_C05.v). *)
From Coq Require Import List String Bool.
Import ListNotations.
Local Open Scope string_scope.

Fixpoint list_eqb (a b : list string) : bool :=
  match a, b with
  | [], [] => true
  | x :: a', y :: b' => String.eqb x y && list_eqb a' b'
  | _, _ => false
  end.

(** which heading block a punch_* function fills *)
Definition block_of (punch_fn : string) : string :=
  if String.eqb punch_fn "punch_identifiers" then "identifiers"
  else if String.eqb punch_fn "punch_totals" then "totals"
  else if String.eqb punch_fn "punch_molalities" then "molalities"
  else if String.eqb punch_fn "punch_activities" then "activities"
  else if String.eqb punch_fn "punch_pp_assemblage" then "pure_phases"
  else if String.eqb punch_fn "punch_saturation_indices" then "si"
  else if String.eqb punch_fn "punch_gas_phase" then "gases"
  else if String.eqb punch_fn "punch_kinetics" then "kinetics"
  else if String.eqb punch_fn "punch_ss_assemblage" then "s_s"
  else if String.eqb punch_fn "punch_isotopes" then "isotopes"
  else if String.eqb punch_fn "punch_calculate_values" then "calculate_values"
  else if String.eqb punch_fn "punch_user_punch" then "user_punch"
  else "?" ++ punch_fn.

Definition heading_order_eq_value_order (punch_calls value_flags heading_flags heading_lists : list string) (user_last : bool) : bool :=
  list_eqb (map block_of punch_calls) ("identifiers" :: heading_lists ++ ["user_punch"])
  && list_eqb value_flags heading_flags && user_last.

Lemma list_eqb_eq : forall a b, list_eqb a b = true -> a = b.
Proof.
  induction a as [|x a IH]; intros [|y b] H; simpl in H; try discriminate; [reflexivity|].
  apply andb_prop in H. destruct H as [H1 H2]. apply String.eqb_eq in H1. subst. f_equal. apply IH. exact H2.
Qed.

(** what the boolean means: position k of the heading sequence and position k of the value sequence belong to the same block *)
Theorem order_obligation_sound : forall pc vf hf hl ul,
  heading_order_eq_value_order pc vf hf hl ul = true ->
  map block_of pc = "identifiers" :: hl ++ ["user_punch"] /\ vf = hf /\ ul = true.
Proof.
  intros pc vf hf hl ul H. unfold heading_order_eq_value_order in H.
  apply andb_prop in H. destruct H as [H Hu]. apply andb_prop in H. destruct H as [H1 H2].
  repeat split; [apply list_eqb_eq; exact H1 | apply list_eqb_eq; exact H2 | exact Hu].
Qed.
